import FimVerif.Model.AGraph
/-! Helper lemmas for C04/C05: the invariant of the shared store and its preservation by the primitive
    state transformers of `Model/Store.lean`. Core only. -/
namespace FimVerif.Store
open FimVerif FimVerif.Gen.StoreConsts

/-- C04 invariant of the shared store: internal ids pairwise distinct and below the allocator,
    every edge endpoint is a stored node. -/
def Inv (s : Store) : Prop :=
  (s.nodes.map (·.iid)).Nodup ∧ (∀ n ∈ s.nodes, n.iid < s.nextId) ∧
  (∀ e ∈ s.edges, idIn s.nodes e.a = true ∧ idIn s.nodes e.b = true)

theorem idIn_iff (ns : List SNode) (i : Nat) : idIn ns i = true ↔ ∃ n ∈ ns, n.iid = i := by
  simp [idIn]

theorem idIn_false_iff (ns : List SNode) (i : Nat) : idIn ns i = false ↔ ∀ n ∈ ns, n.iid ≠ i := by
  simp [idIn]

/-- two list members with the same key are equal when the keys are pairwise distinct -/
theorem eq_of_nodup_map {α β : Type} (f : α → β) : ∀ (l : List α), (l.map f).Nodup →
    ∀ a ∈ l, ∀ b ∈ l, f a = f b → a = b
  | [], _, a, ha, _, _, _ => by cases ha
  | x :: l, h, a, ha, b, hb, hab => by
    simp only [List.map_cons, List.nodup_cons, List.mem_map, not_exists, not_and] at h
    rcases List.mem_cons.1 ha with rfl | ha' <;> rcases List.mem_cons.1 hb with rfl | hb'
    · rfl
    · exact absurd hab.symm (h.1 b hb')
    · exact absurd hab (h.1 a ha')
    · exact eq_of_nodup_map f l h.2 a ha' b hb' hab

theorem map_iid_updNodes (ns : List SNode) (c : SNode → Bool) (f : Props → Props) :
    (ns.map (fun n => if c n then { n with attrs := f n.attrs } else n)).map (·.iid) = ns.map (·.iid) := by
  induction ns with
  | nil => rfl
  | cons n ns ih => by_cases h : c n <;> simp_all

theorem idIn_map_upd (ns : List SNode) (c : SNode → Bool) (f : Props → Props) (i : Nat) :
    idIn (ns.map (fun n => if c n then { n with attrs := f n.attrs } else n)) i = idIn ns i := by
  induction ns with
  | nil => rfl
  | cons n ns ih => by_cases h : c n <;> simp_all [idIn]

theorem inv_updNodes (s : Store) (c : SNode → Bool) (f : Props → Props) (h : Inv s) :
    Inv { s with nodes := s.nodes.map (fun n => if c n then { n with attrs := f n.attrs } else n) } := by
  obtain ⟨h1, h2, h3⟩ := h
  refine ⟨?_, ?_, ?_⟩
  · have := map_iid_updNodes s.nodes c f
    simp only at this ⊢
    rw [this]; exact h1
  · intro n hn
    simp only [List.mem_map] at hn
    obtain ⟨m, hm, rfl⟩ := hn
    by_cases hc : c m <;> simp [hc] <;> exact h2 m hm
  · intro e he
    simpa [idIn_map_upd] using h3 e he

theorem inv_updNode (s : Store) (i : Nat) (f : Props → Props) (h : Inv s) : Inv (updNode i f s) := by
  have := inv_updNodes s (fun n => decide (n.iid = i)) f h
  simpa [updNode] using this

theorem inv_updGraphNodes (s : Store) (g : String) (f : Props → Props) (h : Inv s) : Inv (updGraphNodes g f s) := by
  have := inv_updNodes s (inG g) f h
  simpa [updGraphNodes] using this

theorem inv_updEdge (s : Store) (a b : Nat) (f : Props → Props) (h : Inv s) : Inv (updEdge a b f s) := by
  obtain ⟨h1, h2, h3⟩ := h
  refine ⟨h1, h2, ?_⟩
  intro e he
  simp only [updEdge, List.mem_map] at he
  obtain ⟨e0, he0, rfl⟩ := he
  by_cases hc : edgeMatch a b e0 <;> simp [hc] <;> exact h3 e0 he0

theorem inv_removeNode (s : Store) (i : Nat) (h : Inv s) : Inv (removeNode i s) := by
  obtain ⟨h1, h2, h3⟩ := h
  refine ⟨?_, ?_, ?_⟩
  · exact List.Nodup.sublist (List.Sublist.map _ List.filter_sublist) h1
  · intro n hn
    exact h2 n (List.mem_filter.1 hn).1
  · intro e he
    simp only [removeNode, List.mem_filter, Bool.and_eq_true, bne_iff_ne, ne_eq] at he
    obtain ⟨hes, ha, hb⟩ := he
    obtain ⟨ea, eb⟩ := h3 e hes
    rw [idIn_iff] at ea eb ⊢
    obtain ⟨na, hna, ea⟩ := ea
    obtain ⟨nb, hnb, eb⟩ := eb
    constructor
    · exact ⟨na, by simp [removeNode, hna, ea, ha], ea⟩
    · rw [idIn_iff]; exact ⟨nb, by simp [removeNode, hnb, eb, hb], eb⟩

theorem inv_delGraphNl (s : Store) (g : String) (h : Inv s) : Inv (delGraphNl g s) := by
  obtain ⟨h1, h2, h3⟩ := h
  refine ⟨?_, ?_, ?_⟩
  · exact List.Nodup.sublist (List.Sublist.map _ List.filter_sublist) h1
  · intro n hn
    exact h2 n (List.mem_filter.1 hn).1
  · intro e he
    simp only [delGraphNl, List.mem_filter, Bool.and_eq_true, Bool.not_eq_true'] at he
    obtain ⟨hes, ha, hb⟩ := he
    obtain ⟨ea, eb⟩ := h3 e hes
    rw [idIn_false_iff] at ha hb
    rw [idIn_iff] at ea eb
    obtain ⟨na, hna, ea⟩ := ea
    obtain ⟨nb, hnb, eb⟩ := eb
    have hga : inG g na = false := by
      cases hh : inG g na with
      | false => rfl
      | true => exact absurd ea (ha na (by simp [nodesOf, hna, hh]))
    have hgb : inG g nb = false := by
      cases hh : inG g nb with
      | false => rfl
      | true => exact absurd eb (hb nb (by simp [nodesOf, hnb, hh]))
    constructor
    · rw [idIn_iff]; exact ⟨na, by simp [delGraphNl, hna, hga], ea⟩
    · rw [idIn_iff]; exact ⟨nb, by simp [delGraphNl, hnb, hgb], eb⟩

theorem inv_addEdge (s : Store) (a b : Nat) (attrs : Props) (h : Inv s)
    (ha : idIn s.nodes a = true) (hb : idIn s.nodes b = true) : Inv (addEdge a b attrs s) := by
  unfold addEdge
  split
  · exact inv_updEdge s a b _ h
  · obtain ⟨h1, h2, h3⟩ := h
    refine ⟨h1, h2, ?_⟩
    intro e he
    simp only [List.mem_append, List.mem_singleton] at he
    rcases he with he | rfl
    · exact h3 e he
    · exact ⟨ha, hb⟩

theorem inv_addBlankNode (s : Store) (g label nid : String) (h : Inv s) : Inv (addBlankNode g label nid s) := by
  obtain ⟨h1, h2, h3⟩ := h
  refine ⟨?_, ?_, ?_⟩
  · simp only [addBlankNode, List.map_append, List.map_cons, List.map_nil]
    rw [List.nodup_append]
    refine ⟨h1, by simp, ?_⟩
    intro x hx y hy
    simp only [List.mem_map] at hx
    obtain ⟨n, hn, rfl⟩ := hx
    simp only [List.mem_singleton] at hy
    have := h2 n hn
    omega
  · intro n hn
    simp only [addBlankNode, List.mem_append, List.mem_singleton] at hn
    rcases hn with hn | rfl
    · have := h2 n hn; simp [addBlankNode]; omega
    · simp [addBlankNode]
  · intro e he
    obtain ⟨ea, eb⟩ := h3 e he
    rw [idIn_iff] at ea eb
    obtain ⟨na, hna, ea⟩ := ea
    obtain ⟨nb, hnb, eb⟩ := eb
    constructor
    · rw [idIn_iff]; exact ⟨na, by simp [addBlankNode, hna], ea⟩
    · rw [idIn_iff]; exact ⟨nb, by simp [addBlankNode, hnb], eb⟩

theorem relabel_iids (base : Nat) (l : List Props) : (relabel base l).map (·.iid) = List.range' base l.length := by
  induction l generalizing base with
  | nil => rfl
  | cons a l ih => simp [relabel, ih, List.range'_succ]

theorem mem_relabel_iid (base : Nat) (l : List Props) (n : SNode) (h : n ∈ relabel base l) :
    base ≤ n.iid ∧ n.iid < base + l.length := by
  have : n.iid ∈ (relabel base l).map (·.iid) := List.mem_map.2 ⟨n, h, rfl⟩
  rw [relabel_iids, List.mem_range'_1] at this
  exact this

theorem idIn_relabel (base : Nat) (l : List Props) (i : Nat) : idIn (relabel base l) i = true ↔ base ≤ i ∧ i < base + l.length := by
  rw [idIn_iff]
  constructor
  · rintro ⟨n, hn, rfl⟩; exact mem_relabel_iid base l n hn
  · intro h
    have : i ∈ (relabel base l).map (·.iid) := by rw [relabel_iids, List.mem_range'_1]; exact h
    obtain ⟨n, hn, e⟩ := List.mem_map.1 this
    exact ⟨n, hn, e⟩

theorem idIn_append (l1 l2 : List SNode) (i : Nat) : idIn (l1 ++ l2) i = (idIn l1 i || idIn l2 i) := by
  simp [idIn]

theorem inv_appendGraph (s : Store) (ns : List Props) (es : List (Nat × Nat × Props)) (h : Inv s)
    (hwf : ∀ e ∈ es, e.1 < ns.length ∧ e.2.1 < ns.length) : Inv (appendGraph ns es s) := by
  obtain ⟨h1, h2, h3⟩ := h
  refine ⟨?_, ?_, ?_⟩
  · simp only [appendGraph, List.map_append]
    rw [List.nodup_append]
    refine ⟨h1, by rw [relabel_iids]; exact List.nodup_range', ?_⟩
    intro x hx y hy
    obtain ⟨n, hn, rfl⟩ := List.mem_map.1 hx
    rw [relabel_iids, List.mem_range'_1] at hy
    have := h2 n hn
    omega
  · intro n hn
    simp only [appendGraph, List.mem_append] at hn
    rcases hn with hn | hn
    · have := h2 n hn; simp only [appendGraph]; omega
    · have := mem_relabel_iid _ _ _ hn; simp only [appendGraph]; omega
  · intro e he
    simp only [appendGraph, List.mem_append, List.mem_map] at he
    simp only [appendGraph, idIn_append, Bool.or_eq_true]
    rcases he with he | ⟨e0, he0, rfl⟩
    · exact ⟨Or.inl (h3 e he).1, Or.inl (h3 e he).2⟩
    · have := hwf e0 he0
      exact ⟨Or.inr ((idIn_relabel _ _ _).2 ⟨by simp, by simp; omega⟩), Or.inr ((idIn_relabel _ _ _).2 ⟨by simp, by simp; omega⟩)⟩

theorem inv_delIfPresent (s : Store) (g : String) (h : Inv s) : Inv (delIfPresent g s) := by
  unfold delIfPresent; split
  · exact inv_delGraphNl s g h
  · exact h

/-- what a successful `_find_node` tells us -/
theorem findNode_ok (s : Store) (g nid : String) (i : Nat) (h : findNode s g nid = .ok i) :
    ∃ n ∈ s.nodes, n.iid = i ∧ inG g n = true ∧ hasNid nid n = true := by
  unfold findNode at h
  split at h
  · cases h
  · rename_i n heq
    have hm : n ∈ s.nodes.filter (fun n => hasNid nid n && inG g n) := by rw [heq]; simp
    simp only [List.mem_filter, Bool.and_eq_true] at hm
    injection h with h
    exact ⟨n, hm.1, h, hm.2.2, hm.2.1⟩
  · cases h

theorem findNode_idIn (s : Store) (g nid : String) (i : Nat) (h : findNode s g nid = .ok i) : idIn s.nodes i = true := by
  obtain ⟨n, hn, e, _, _⟩ := findNode_ok s g nid i h
  exact (idIn_iff _ _).2 ⟨n, hn, e⟩

theorem withNode_inv (s : Store) (g nid : String) (k : Nat → R) (hs : Inv s)
    (hk : ∀ i, findNode s g nid = .ok i → Inv (k i).2) : Inv (withNode s g nid k).2 := by
  unfold withNode
  split
  · exact hs
  · rename_i i h; exact hk i h


theorem assertVal_pred (P : Store → Prop) (v : Val) (s : Store) (k : R) (hs : P s) (hk : P k.2) : P (assertVal v s k).2 := by
  unfold assertVal; split
  · exact hs
  · exact hk

theorem inv_init : Inv init := by
  simp [Inv, init]

end FimVerif.Store
