import FimVerif.Model.Arm
/-! Helper lemmas for C13: delegation properties, node rewrite, membership in a partition. -/
namespace FimVerif.Arm

/-! basic facts about DelProp -/
namespace DelProp

@[simp] theorem entries_absent : absent.entries = [] := rfl
@[simp] theorem entries_blank : blank.entries = [] := rfl
@[simp] theorem entries_dels (es) : (dels es).entries = es := rfl

theorem keys_restrict (p : DelProp) (d : String) :
    (p.restrict d).keys = if d ∈ p.keys then [d] else [] := by
  unfold restrict keys
  cases h : p.entries.find? (fun e => e.1 == d) with
  | none =>
    have : ¬ d ∈ p.entries.map (·.1) := by
      intro hm
      rcases List.mem_map.1 hm with ⟨e, he, rfl⟩
      have := List.find?_eq_none.1 h e he
      simp at this
    simp [this]
  | some e =>
    have h1 := List.find?_some h
    have h2 := List.mem_of_find?_eq_some h
    have hd : e.1 = d := by simpa using h1
    have : d ∈ p.entries.map (·.1) := List.mem_map.2 ⟨e, h2, hd⟩
    cases e; simp_all

theorem get_restrict (p : DelProp) (d k : String) :
    (p.restrict d).get k = if k = d then p.get d else none := by
  unfold restrict get
  cases h : p.entries.find? (fun e => e.1 == d) with
  | none => simp
  | some e =>
    have h1 := List.find?_some h
    have hd : e.1 = d := by simpa using h1
    by_cases hk : k = d
    · subst hk; simp [entries, hd]
    · have : ¬ e.1 = k := by rw [hd]; exact fun h => hk h.symm
      simp [entries, hk, this]

theorem isDels_of_mem_keys {p : DelProp} {d : String} (h : d ∈ p.keys) : p.isDels = true := by
  cases p <;> simp_all [keys, entries, isDels]

end DelProp

/-! node rewrite -/
@[simp] theorem Node.rewrite_id (n : Node) (d : String) : (n.rewrite d).id = n.id := by
  unfold Node.rewrite; split <;> rfl
@[simp] theorem Node.rewrite_cls (n : Node) (d : String) : (n.rewrite d).cls = n.cls := by
  unfold Node.rewrite; split <;> rfl
@[simp] theorem Node.rewrite_props (n : Node) (d : String) : (n.rewrite d).props = n.props := by
  unfold Node.rewrite; split <;> rfl

theorem Node.catalogued_of_holds {n : Node} {d : String} (h : n.holds d = true) : n.catalogued = true := by
  unfold Node.holds at h
  unfold Node.catalogued
  simp only [Bool.or_eq_true, List.contains_eq_mem, decide_eq_true_eq] at h ⊢
  rcases h with h | h
  · exact Or.inl (DelProp.isDels_of_mem_keys h)
  · exact Or.inr (DelProp.isDels_of_mem_keys h)

theorem Node.rewrite_ldel_of_catalogued {n : Node} (d : String) (h : n.catalogued = true) :
    (n.rewrite d).ldel = n.ldel.restrict d := by
  unfold Node.rewrite; simp [h]
theorem Node.rewrite_cdel_of_catalogued {n : Node} (d : String) (h : n.catalogued = true) :
    (n.rewrite d).cdel = n.cdel.restrict d := by
  unfold Node.rewrite; simp [h]

theorem DelProp.keys_nil_of_not_isDels {p : DelProp} (h : p.isDels = false) : p.keys = [] := by
  cases p <;> simp_all [DelProp.keys, DelProp.isDels]

/-- after the rewrite every key on the node is `d` -/
theorem Node.rewrite_keys_sub (n : Node) (d k : String)
    (hk : k ∈ (n.rewrite d).ldel.keys ++ (n.rewrite d).cdel.keys) : k = d := by
  by_cases hc : n.catalogued = true
  · rw [Node.rewrite_ldel_of_catalogued d hc, Node.rewrite_cdel_of_catalogued d hc,
      DelProp.keys_restrict, DelProp.keys_restrict] at hk
    rcases List.mem_append.1 hk with h | h <;> (split at h <;> simp_all)
  · have hc' : n.catalogued = false := by simpa using hc
    have hr : n.rewrite d = n := by unfold Node.rewrite; simp [hc']
    unfold Node.catalogued at hc'
    simp only [Bool.or_eq_false_iff] at hc'
    rw [hr, DelProp.keys_nil_of_not_isDels hc'.1, DelProp.keys_nil_of_not_isDels hc'.2] at hk
    simp at hk

/-! membership in a partition -/
theorem mem_genAdm_nodes {cfg : Cfg} {g : G} {d : String} {m : Node} :
    m ∈ (genAdm cfg g d).nodes ↔ ∃ n ∈ g.nodes, n.id ∈ keepSet cfg g d ∧ m = n.rewrite d := by
  unfold genAdm
  simp only [List.mem_map, List.mem_filter, decide_eq_true_eq]
  constructor
  · rintro ⟨n, ⟨hn, hk⟩, rfl⟩; exact ⟨n, hn, hk, rfl⟩
  · rintro ⟨n, hn, hk, rfl⟩; exact ⟨n, ⟨hn, hk⟩, rfl⟩

theorem genAdm_ids (cfg : Cfg) (g : G) (d : String) :
    (genAdm cfg g d).ids = g.ids.filter (fun x => decide (x ∈ keepSet cfg g d)) := by
  unfold genAdm G.ids
  simp only [List.map_map, List.filter_map]
  congr 1
  funext n; simp

theorem mem_genAdm_ids {cfg : Cfg} {g : G} {d x : String} :
    x ∈ (genAdm cfg g d).ids ↔ x ∈ g.ids ∧ x ∈ keepSet cfg g d := by
  rw [genAdm_ids]; simp

theorem mem_genAdm_edges {cfg : Cfg} {g : G} {d : String} {e : Edge} :
    e ∈ (genAdm cfg g d).edges ↔ e ∈ g.edges ∧ e.a ∈ keepSet cfg g d ∧ e.b ∈ keepSet cfg g d := by
  unfold genAdm; simp

/-! delegation ids -/

theorem nodup_eraseDups (l : List String) : l.eraseDups.Nodup := by
  generalize hn : l.length = n
  induction n using Nat.strongRecOn generalizing l with
  | _ n ih =>
    cases l with
    | nil => simp
    | cons a as =>
      rw [List.eraseDups_cons, List.nodup_cons]
      refine ⟨?_, ih _ ?_ _ rfl⟩
      · rw [List.mem_eraseDups]; simp
      · subst hn
        exact Nat.lt_succ_of_le (List.length_filter_le _ _)

theorem mem_delIds {g : G} {d : String} : d ∈ delIds g ↔ ∃ n ∈ g.nodes, n.holds d = true := by
  unfold delIds Node.holds
  rw [List.mem_eraseDups]
  simp only [List.mem_flatMap, List.mem_append, Bool.or_eq_true, List.contains_eq_mem, decide_eq_true_eq]

end FimVerif.Arm
