import FimVerif.Model.DelegDet
import FimVerif.Proofs.Lemmas.C12Codec
import FimVerif.Proofs.C03
/-! The C03 round trip of `Capacities` / `Labels` discharges C12's hypothesis `DetOk` (`to_dict()` then `Cls(**d)`). -/
set_option linter.unusedSimpArgs false
namespace FimVerif.C12
open FimVerif.Deleg FimVerif.Codec

/-! ### `Cls(**x.to_dict())` for any `JSONField` class (generic in the class specification) -/

/-- the keyword arguments `to_dict()` produces are accepted one by one and rebuild the kept fields over a fresh instance -/
theorem construct_kept (c : ClassSpec) (valid : String → CVal → Bool) (hn : (names c).Nodup) (x : Fields)
    (hx : WellTyped c valid x) :
    construct c valid (keptBy c.drop c x) = .ok (readBack c x) := by
  have hgood : AllGood c valid (keptBy c.drop c x) := by
    rintro ⟨k, v⟩ hp
    obtain ⟨f, hf, hd, rfl, rfl⟩ := (kept_mem _ c x _ _).1 hp
    refine ⟨by simpa [names] using List.mem_map_of_mem hf, ?_⟩
    rcases hx.1 f hf with ⟨he, hdd⟩ | ⟨hdom, hv⟩
    · rw [he, hdd] at hd; cases hd
    · exact ⟨guard_of_inDomain _ _ hdom, hv⟩
  have hnd : ((keptBy c.drop c x).map (·.1)).Nodup := (kept_keys_sublist _ c x).nodup hn
  simp only [construct, setFields_allGood c valid false _ _ hgood]
  congr 1
  funext k
  unfold readBack
  by_cases hk : (keptBy c.drop c x).any (fun p => p.1 == k) = true
  · rw [if_pos hk]
    obtain ⟨⟨k', v⟩, hp, hk'⟩ := List.any_eq_true.1 hk
    have hkk : k' = k := by simpa using hk'
    subst hkk
    obtain ⟨f, hf, hd, rfl, rfl⟩ := (kept_mem _ c x _ _).1 hp
    exact applyAll_mem _ _ _ _ hnd hp
  · rw [if_neg hk]
    rw [applyAll_not_mem]
    · rfl
    · intro hmem
      obtain ⟨⟨k', v⟩, hp, hk'⟩ := List.mem_map.1 hmem
      apply hk
      exact List.any_eq_true.2 ⟨(k', v), hp, by simpa using hk'⟩

/-- **`Cls(**x.to_dict()) == x`** for every class whose text round trip is lossless (C03) and whose `to_dict` drops what
`to_json` drops: the dictionary form loses nothing either -/
theorem dict_roundtrip (c : ClassSpec) (valid : String → CVal → Bool) (hn : (names c).Nodup) (hdd : c.dictDrop = c.drop)
    (x : Fields) (hx : WellTyped c valid x) (hrt : RoundTrips c valid x) :
    (toDict c x = none → x = defaults c) ∧ (∀ kvs, toDict c x = some kvs → construct c valid kvs = .ok x) := by
  have hnl : C03.NoLoss c x := (C03.roundtrip_iff c valid hn x hx).mp hrt
  have hrb := C03.readBack_eq_of_noLoss c valid hn x hx hnl
  constructor
  · intro h
    have hk : keptBy c.drop c x = [] := by
      simp only [toDict, hdd] at h
      cases hkk : keptBy c.drop c x with
      | nil => rfl
      | cons a l => simp [hkk] at h
    rw [← hrb]
    funext k
    unfold readBack
    simp [hk, defaults]
  · intro kvs h
    have hk : kvs = keptBy c.drop c x := by
      simp only [toDict, hdd] at h
      split at h
      · cases h
      · exact (Option.some.inj h).symm
    rw [hk, construct_kept c valid hn x hx, hrb]

/-! ### between the two JSON value types -/

theorem downL_upL_strs (xs : List CVal) (h : xs.all FimVerif.JVal.isStr = true) : downL (upL xs) = xs := by
  induction xs with
  | nil => simp [upL, downL]
  | cons a l ih =>
    simp only [List.all_cons, Bool.and_eq_true] at h
    obtain ⟨ha, hl⟩ := h
    cases a <;> simp [FimVerif.JVal.isStr] at ha
    simp [upL, downL, up, down, ih hl]

/-- values of the documented domains of `Capacities` (non-negative int) and `Labels` (str or list of str) cross unchanged -/
theorem down_up_inDomain (ty : DType) (v : CVal) (h : inDomain (specOf ty).guard v = true) : down (up v) = v := by
  have hg : (specOf ty).guard = .natOrNone ∨ (specOf ty).guard = .strOrStrList := by
    cases ty
    · exact Or.inl (by decide)
    · exact Or.inr (by decide)
  rcases hg with hg | hg <;> rw [hg] at h <;> cases v <;> simp [inDomain] at h <;> simp [up, down]
  exact downL_upL_strs _ (by simpa using h)

theorem downK_upK (kvs : List (String × CVal)) (h : ∀ p ∈ kvs, down (up p.2) = p.2) : downK (upK kvs) = kvs := by
  induction kvs with
  | nil => simp [upK, downK]
  | cons a l ih =>
    obtain ⟨k, v⟩ := a
    simp only [upK, downK, h (k, v) (by simp), ih (fun p hp => h p (by simp [hp]))]

/-! ### the hypothesis of the C12 theorems, discharged -/

/-- a details object of the property's quantifier: the right class, every field at its default or at a value of the
documented domain that the label validators accept (`Codec.WellTyped`, C03's quantifier), and not the empty object -/
structure RealDetails (valid : String → CVal → Bool) (ty : DType) (x : CDet) : Prop where
  kind : x.kind = ty
  wellTyped : WellTyped (specOf ty) (validFor valid ty) x.fields
  notEmpty : x.fields ≠ defaults (specOf ty)

/-- every class the C12 model uses satisfies the side conditions of `dict_roundtrip` (decided on the generated specs) -/
theorem specs_ok (ty : DType) : (names (specOf ty)).Nodup ∧ (specOf ty).dictDrop = (specOf ty).drop := by
  cases ty <;> exact ⟨by decide, by decide⟩

/-- C03's losslessness theorems for the two classes -/
theorem real_roundtrips (valid : String → CVal → Bool) (ty : DType) (x : Fields)
    (hx : WellTyped (specOf ty) (validFor valid ty) x) : RoundTrips (specOf ty) (validFor valid ty) x := by
  cases ty
  · exact C03.capacities_lossless _ x hx
  · exact C03.labels_lossless _ x hx

/-- **`DetOk` holds for every real `Capacities` / `Labels` value** -/
theorem detOk_real (valid : String → CVal → Bool) (ty : DType) (x : CDet) (h : RealDetails valid ty x) :
    DetOk (cOps valid) ty (some x) := by
  obtain ⟨ty', f⟩ := x
  obtain ⟨hk, hx, hne⟩ := h
  simp only at hk hx hne
  subst hk
  obtain ⟨hn, hdd⟩ := specs_ok ty'
  obtain ⟨h0, h1⟩ := dict_roundtrip (specOf ty') (validFor valid ty') hn hdd f hx (real_roundtrips valid ty' f hx)
  refine ⟨rfl, ?_⟩
  show match cToDict ⟨ty', f⟩ with | none => False | some j => cFromDict valid ty' j = .ok ⟨ty', f⟩
  cases hd : toDict (specOf ty') f with
  | none => exact absurd (h0 hd) hne
  | some kvs =>
    have hdu : downK (upK kvs) = kvs := by
      apply downK_upK
      rintro ⟨k, v⟩ hp
      have hkv : kvs = keptBy (specOf ty').drop (specOf ty') f := by
        simp only [toDict, hdd] at hd
        split at hd
        · cases hd
        · exact (Option.some.inj hd).symm
      rw [hkv] at hp
      obtain ⟨fs, hf, hdr, rfl, rfl⟩ := (kept_mem _ _ f _ _).1 hp
      rcases hx.1 fs hf with ⟨he, hdf⟩ | ⟨hdom, _⟩
      · rw [he, hdf] at hdr; cases hdr
      · exact down_up_inDomain ty' _ hdom
    simp only [cToDict, hd, cFromDict, hdu, h1 kvs hd]

end FimVerif.C12
