import FimVerif.Proofs.Lemmas.ARefAll
/-! C05: in the store-level reference model, the operations addressed to one graph that do not write `GraphID`
    are *local*: reply and effect on the addressed graph depend only on the part of the reference store that
    belongs to that graph.  Reference model only (no `Store`, no internal ids).  Core only. -/
namespace FimVerif.Store
open FimVerif FimVerif.Gen.StoreConsts

/-- the part of the reference store that belongs to graph `g`: its nodes and the links among them -/
def ARef.restrict (R : ARef) (g : String) : ARef :=
  ⟨R.nodes.filter (ARef.inGP g), R.edges.filter (fun e => ARef.kIn g e.1 && ARef.kIn g e.2.1)⟩

namespace ARef

/-! ## list lemmas -/

theorem find?_filter_of_imp {α : Type} (p q : α → Bool) (l : List α) (h : ∀ a ∈ l, p a = true → q a = true) :
    (l.filter q).find? p = l.find? p := by
  induction l with
  | nil => rfl
  | cons a l ih =>
    have ih' := ih (fun b hb => h b (by simp [hb]))
    have ha := h a (by simp)
    cases hq : q a
    · cases hp : p a
      · simp [hq, hp, ih']
      · simp [ha hp] at hq
    · simp only [List.filter_cons, hq, if_true, List.find?_cons, ih']

theorem any_filter_of_imp {α : Type} (p q : α → Bool) (l : List α) (h : ∀ a ∈ l, p a = true → q a = true) :
    (l.filter q).any p = l.any p := by
  induction l with
  | nil => rfl
  | cons a l ih =>
    have ih' := ih (fun b hb => h b (by simp [hb]))
    have ha := h a (by simp)
    cases hq : q a
    · cases hp : p a
      · simp [hq, hp, ih']
      · simp [ha hp] at hq
    · simp only [List.filter_cons, hq, if_true, List.any_cons, ih']

/-! ## the restriction and the lookups -/

theorem restrict_nodes (R : ARef) (g : String) : (R.restrict g).nodes = R.nodes.filter (inGP g) := rfl
theorem restrict_edges (R : ARef) (g : String) :
    (R.restrict g).edges = R.edges.filter (fun e => kIn g e.1 && kIn g e.2.1) := rfl

theorem restrict_restrict (R : ARef) (g : String) : (R.restrict g).restrict g = R.restrict g := by
  simp [restrict, List.filter_filter]

theorem kIn_K (g nid : String) : kIn g (K g nid) = true := by simp [kIn, K]

theorem nodesOf_restrict (R : ARef) (g : String) : nodesOf (R.restrict g) g = nodesOf R g := by
  simp [nodesOf, restrict, List.filter_filter]

/-- a filter that implies membership in `g` sees the same nodes in the restriction -/
theorem filter_restrict (R : ARef) (g : String) (p : Props → Bool) (h : ∀ a, p a = true → inGP g a = true) :
    (R.restrict g).nodes.filter p = R.nodes.filter p := by
  simp only [restrict, List.filter_filter]
  apply List.filter_congr
  intro a _
  cases hp : p a
  · simp
  · simp [h a hp]

theorem find_restrict (R : ARef) (g nid : String) : find (R.restrict g) g nid = find R g nid := by
  unfold find
  rw [filter_restrict R g _ (by intro a h; simp only [Bool.and_eq_true] at h; exact h.2)]

theorem edgeIsK_kIn (g a b : String) (e : Key × Key × Props) (h : edgeIsK (K g a) (K g b) e = true) :
    (kIn g e.1 && kIn g e.2.1) = true := by
  simp only [edgeIsK, Bool.or_eq_true, Bool.and_eq_true, beq_iff_eq] at h
  rcases h with ⟨h1, h2⟩ | ⟨h1, h2⟩ <;> simp [h1, h2, kIn_K]

theorem findEdge_restrict (R : ARef) (g a b : String) :
    (R.restrict g).edges.find? (edgeIsK (K g a) (K g b)) = R.edges.find? (edgeIsK (K g a) (K g b)) :=
  find?_filter_of_imp _ _ _ (fun e _ h => edgeIsK_kIn g a b e h)

theorem anyEdge_restrict (R : ARef) (g a b : String) :
    (R.restrict g).edges.any (edgeIsK (K g a) (K g b)) = R.edges.any (edgeIsK (K g a) (K g b)) :=
  any_filter_of_imp _ _ _ (fun e _ h => edgeIsK_kIn g a b e h)

/-! ## locality of replies -/

/-- same reply, and the result on the restriction is the restriction of the result -/
def Loc (g : String) (r r' : AR) : Prop := r.1 = r'.1 ∧ r.2.restrict g = r'.2

theorem loc_same (g : String) (x : Except Err Out) (R : ARef) : Loc g (x, R) (x, R.restrict g) := ⟨rfl, rfl⟩

theorem loc_withN (R : ARef) (g nid : String) (k k' : Props → AR) (h : ∀ a, inGP g a = true → Loc g (k a) (k' a)) :
    Loc g (withN R g nid k) (withN (R.restrict g) g nid k') := by
  unfold withN
  rw [find_restrict]
  cases hf : find R g nid with
  | error e => exact loc_same g _ R
  | ok a =>
    apply h
    unfold find at hf
    split at hf
    · cases hf
    · next b hb =>
      cases hf
      have : a ∈ R.nodes.filter (fun a => hasNidP nid a && inGP g a) := by rw [hb]; simp
      have := (List.mem_filter.1 this).2
      simp only [Bool.and_eq_true] at this
      exact this.2
    · cases hf

/-! ## the primitive state transformers commute with the restriction -/

theorem isK_inGP (g nid : String) (a : Props) (h : isK (K g nid) a = true) : inGP g a = true := by
  rw [isK_K] at h
  simp only [Bool.and_eq_true] at h
  exact h.2

theorem kIn_rekey (g nid : String) (new k : Key) (hn : kIn g new = true) : kIn g (rekey (K g nid) new k) = kIn g k := by
  unfold rekey
  split
  · next h => rw [h, hn, kIn_K]
  · rfl

theorem restrict_updK (g nid : String) (f : Props → Props) (new : Key) (R : ARef)
    (hf : ∀ a, inGP g a = true → inGP g (f a) = true) (hn : kIn g new = true) :
    (updK (K g nid) f new R).restrict g = updK (K g nid) f new (R.restrict g) := by
  unfold updK restrict
  simp only
  congr 1
  · apply filter_map_comm
    intro a _
    by_cases h : isK (K g nid) a = true
    · simp only [h, if_true]
      rw [hf a (isK_inGP g nid a h), isK_inGP g nid a h]
    · simp [h]
  · apply filter_map_comm
    intro e _
    simp only [kIn_rekey g nid new _ hn]

theorem restrict_updGraphK (g : String) (f : Props → Props) (fk : Key → Key) (R : ARef)
    (hf : ∀ a, inGP g a = true → inGP g (f a) = true) (hk : ∀ k, kIn g k = true → kIn g (fk k) = true) :
    (updGraphK g f fk R).restrict g = updGraphK g f fk (R.restrict g) := by
  unfold updGraphK restrict
  simp only
  congr 1
  · apply filter_map_comm
    intro a _
    by_cases h : inGP g a = true
    · simp only [h, if_true]; exact hf a h
    · simp [h]
  · apply filter_map_comm
    intro e _
    have : ∀ k : Key, kIn g (if kIn g k = true then fk k else k) = kIn g k := by
      intro k
      by_cases h : kIn g k = true
      · simp only [h, if_true]; exact hk k h
      · simp [h]
    simp only [this]

theorem restrict_updEdgeK (g : String) (ka kb : Key) (f : Props → Props) (R : ARef) :
    (updEdgeK ka kb f R).restrict g = updEdgeK ka kb f (R.restrict g) := by
  unfold updEdgeK restrict
  simp only
  congr 1
  apply filter_map_comm
  intro e _
  by_cases h : edgeIsK ka kb e = true <;> simp [h]

theorem restrict_removeK (g : String) (k : Key) (R : ARef) :
    (removeK k R).restrict g = removeK k (R.restrict g) := by
  unfold removeK restrict
  simp only [List.filter_filter]
  congr 1
  · apply List.filter_congr; intro a _; exact Bool.and_comm _ _
  · apply List.filter_congr; intro a _; exact Bool.and_comm _ _

theorem restrict_delGraphK (g : String) (R : ARef) :
    (delGraphK g R).restrict g = delGraphK g (R.restrict g) := by
  unfold delGraphK restrict
  simp only [List.filter_filter]
  have e1 : ∀ l : List Props, l.filter (fun a => inGP g a && !inGP g a) = [] := by
    intro l; apply List.filter_eq_nil_iff.2; intro a _; simp
  have e2 : ∀ l : List Props, l.filter (fun a => !inGP g a && inGP g a) = [] := by
    intro l; apply List.filter_eq_nil_iff.2; intro a _; simp
  have e3 : ∀ l : List (Key × Key × Props),
      l.filter (fun e => (kIn g e.1 && kIn g e.2.1) && (!kIn g e.1 && !kIn g e.2.1)) = [] := by
    intro l; apply List.filter_eq_nil_iff.2; intro a _; cases kIn g a.1 <;> simp
  have e4 : ∀ l : List (Key × Key × Props),
      l.filter (fun e => (!kIn g e.1 && !kIn g e.2.1) && (kIn g e.1 && kIn g e.2.1)) = [] := by
    intro l; apply List.filter_eq_nil_iff.2; intro a _; cases kIn g a.1 <;> simp
  rw [e1, e2, e3, e4]

theorem restrict_addEdgeK (g a b : String) (attrs : Props) (R : ARef) :
    (addEdgeK (K g a) (K g b) attrs R).restrict g = addEdgeK (K g a) (K g b) attrs (R.restrict g) := by
  unfold addEdgeK
  rw [anyEdge_restrict]
  split
  · exact restrict_updEdgeK g _ _ _ R
  · simp [restrict, List.filter_append, kIn_K]

theorem restrict_addNode (g : String) (a : Props) (R : ARef) (h : inGP g a = true) :
    ({ R with nodes := R.nodes ++ [a] } : ARef).restrict g
      = { R.restrict g with nodes := (R.restrict g).nodes ++ [a] } := by
  simp [restrict, List.filter_append, h]

/-! ## what the dictionary updates do to `GraphID` -/

theorem inGP_set (g k : String) (v : Val) (a : Props) (hk : k ≠ graphId) : inGP g (AMap.set k v a) = inGP g a := by
  unfold inGP
  rw [AMap.get_set_ne _ _ _ _ (Ne.symm hk)]

theorem inGP_erase (g k : String) (a : Props) (hk : k ≠ graphId) : inGP g (AMap.erase k a) = inGP g a := by
  unfold inGP
  rw [AMap.get_erase_ne _ _ _ (Ne.symm hk)]

theorem inGP_update (g : String) (a p : Props) (hp : AMap.has graphId p = false) :
    inGP g (AMap.update a p) = inGP g a := by
  unfold inGP
  rw [AMap.get_update_not_mem _ _ _ (AMap.not_mem_keys_of_has_false _ _ hp)]

theorem kIn_setKey (g k : String) (v : Val) (key : Key) (hk : k ≠ graphId) : kIn g (setKey k v key) = kIn g key := by
  simp [kIn, setKey, hk]

theorem kIn_updKey (g : String) (p : Props) (key : Key) (hp : AMap.has graphId p = false) :
    kIn g (updKey p key) = kIn g key := by
  simp [kIn, updKey, hp]

/-! ## operation by operation -/

theorem addNode_local (g nid label : String) (props : Option Props) (R : ARef)
    (hp : AMap.has graphId (props.getD []) = false) :
    Loc g (addNode g nid label props R) (addNode g nid label props (R.restrict g)) := by
  unfold addNode
  rw [filter_restrict R g _ (by intro a h; simp only [Bool.and_eq_true] at h; exact h.1)]
  split
  · exact loc_same g _ R
  · refine ⟨rfl, ?_⟩
    apply restrict_addNode
    rw [inGP_update g _ _ hp]
    simp [inGP, AMap.get]

theorem deleteNode_local (g nid : String) (R : ARef) :
    Loc g (deleteNode g nid R) (deleteNode g nid (R.restrict g)) := by
  unfold deleteNode
  apply loc_withN
  intro _ _
  exact ⟨rfl, restrict_removeK g _ R⟩

theorem addLink_local (g a rel b : String) (props : Option Props) (R : ARef) :
    Loc g (addLink g a rel b props R) (addLink g a rel b props (R.restrict g)) := by
  unfold addLink
  apply loc_withN; intro _ _
  apply loc_withN; intro _ _
  cases props with
  | none => exact ⟨rfl, restrict_addEdgeK g a b _ R⟩
  | some p =>
    simp only
    split
    · exact loc_same g _ R
    · exact ⟨rfl, restrict_addEdgeK g a b _ R⟩

theorem updateNodeProperty_local (g nid k : String) (v : Val) (R : ARef) (hk : k ≠ graphId) :
    Loc g (updateNodeProperty g nid k v R) (updateNodeProperty g nid k v (R.restrict g)) := by
  unfold updateNodeProperty
  split
  · exact loc_same g _ R
  · apply loc_withN; intro _ _
    refine ⟨rfl, restrict_updK g nid _ _ R ?_ ?_⟩
    · intro a ha; rw [inGP_set g k v a hk]; exact ha
    · rw [kIn_setKey g k v _ hk]; exact kIn_K g nid

theorem unsetNodeProperty_local (g nid k : String) (R : ARef) :
    Loc g (unsetNodeProperty g nid k R) (unsetNodeProperty g nid k (R.restrict g)) := by
  unfold unsetNodeProperty
  split
  · exact loc_same g _ R
  · split
    · exact loc_same g _ R
    · next _ hn =>
      have hk : k ≠ graphId := by
        intro e; apply hn; rw [e]; simp [noUnset, graphId]
      apply loc_withN; intro a _
      split
      · refine ⟨rfl, restrict_updK g nid _ _ R ?_ (kIn_K g nid)⟩
        intro a ha; rw [inGP_erase g k a hk]; exact ha
      · exact loc_same g _ R

theorem updateNodesProperty_local (g k : String) (v : Val) (R : ARef) (hk : k ≠ graphId) :
    Loc g (updateNodesProperty g k v R) (updateNodesProperty g k v (R.restrict g)) := by
  unfold updateNodesProperty
  rw [nodesOf_restrict]
  split
  · exact loc_same g _ R
  · split
    · exact loc_same g _ R
    · refine ⟨rfl, restrict_updGraphK g _ _ R ?_ ?_⟩
      · intro a ha; rw [inGP_set g k v a hk]; exact ha
      · intro key hkey; rw [kIn_setKey g k v _ hk]; exact hkey

theorem updateNodeProperties_local (g nid : String) (props : Props) (R : ARef) (hp : AMap.has graphId props = false) :
    Loc g (updateNodeProperties g nid props R) (updateNodeProperties g nid props (R.restrict g)) := by
  unfold updateNodeProperties
  split
  · exact loc_same g _ R
  · apply loc_withN; intro _ _
    refine ⟨rfl, restrict_updK g nid _ _ R ?_ ?_⟩
    · intro a ha; rw [inGP_update g a props hp]; exact ha
    · rw [kIn_updKey g props _ hp]; exact kIn_K g nid

theorem withL_local (g a b kind : String) (R : ARef) (k k' : AR) (h : Loc g k k') :
    Loc g (withL R g a b kind k) (withL (R.restrict g) g a b kind k') := by
  unfold withL
  apply loc_withN; intro _ _
  apply loc_withN; intro _ _
  rw [findEdge_restrict]
  split
  · exact loc_same g _ R
  · split
    · exact loc_same g _ R
    · exact h

theorem updateLinkProperty_local (g a b kind k : String) (v : Val) (R : ARef) :
    Loc g (updateLinkProperty g a b kind k v R) (updateLinkProperty g a b kind k v (R.restrict g)) := by
  unfold updateLinkProperty
  split
  · exact loc_same g _ R
  · exact withL_local g a b kind R _ _ ⟨rfl, restrict_updEdgeK g _ _ _ R⟩

theorem unsetLinkProperty_local (g a b kind k : String) (R : ARef) :
    Loc g (unsetLinkProperty g a b kind k R) (unsetLinkProperty g a b kind k (R.restrict g)) := by
  unfold unsetLinkProperty
  split
  · exact loc_same g _ R
  · exact withL_local g a b kind R _ _ ⟨rfl, restrict_updEdgeK g _ _ _ R⟩

theorem updateLinkProperties_local (g a b kind : String) (props : Props) (R : ARef) :
    Loc g (updateLinkProperties g a b kind props R) (updateLinkProperties g a b kind props (R.restrict g)) := by
  unfold updateLinkProperties
  split
  · exact loc_same g _ R
  · exact withL_local g a b kind R _ _ ⟨rfl, restrict_updEdgeK g _ _ _ R⟩

theorem getNodeProperties_local (g nid : String) (R : ARef) :
    Loc g (getNodeProperties g nid R) (getNodeProperties g nid (R.restrict g)) := by
  unfold getNodeProperties
  apply loc_withN; intro a _
  split
  · exact loc_same g _ R
  · exact loc_same g _ R

theorem getLinkProperties_local (g a b : String) (R : ARef) :
    Loc g (getLinkProperties g a b R) (getLinkProperties g a b (R.restrict g)) := by
  unfold getLinkProperties
  apply loc_withN; intro _ _
  apply loc_withN; intro _ _
  rw [findEdge_restrict]
  split
  · exact loc_same g _ R
  · split
    · exact loc_same g _ R
    · exact loc_same g _ R

theorem nidList_local (g : String) (ns : List Props) (R : ARef) :
    Loc g (nidList ns R) (nidList ns (R.restrict g)) := by
  unfold nidList
  split
  · exact loc_same g _ R
  · exact loc_same g _ R

theorem listAllNodeIds_local (g : String) (R : ARef) :
    Loc g (listAllNodeIds g R) (listAllNodeIds g (R.restrict g)) := by
  unfold listAllNodeIds
  rw [nodesOf_restrict]
  split
  · exact loc_same g _ R
  · exact nidList_local g _ R

theorem nodesByClass_local (g label : String) (R : ARef) :
    Loc g (nodesByClass g label R) (nodesByClass g label (R.restrict g)) := by
  unfold nodesByClass
  rw [nodesOf_restrict]
  exact nidList_local g _ R

theorem nodesByClassAndType_local (g label ntype : String) (R : ARef) :
    Loc g (nodesByClassAndType g label ntype R) (nodesByClassAndType g label ntype (R.restrict g)) := by
  unfold nodesByClassAndType
  rw [nodesOf_restrict]
  exact nidList_local g _ R

theorem nodeExists_local (g nid label : String) (R : ARef) :
    Loc g (nodeExists g nid label R) (nodeExists g nid label (R.restrict g)) := by
  unfold nodeExists
  rw [filter_restrict R g _ (by intro a h; simp only [Bool.and_eq_true] at h; exact h.1.1)]
  split
  · exact loc_same g _ R
  · exact loc_same g _ R
  · exact loc_same g _ R

theorem graphExists_local (g : String) (R : ARef) :
    Loc g (graphExists g R) (graphExists g (R.restrict g)) := by
  unfold graphExists
  rw [nodesOf_restrict]
  exact loc_same g _ R

theorem checkNodeUnique_local (g label name : String) (R : ARef) :
    Loc g (checkNodeUnique g label name R) (checkNodeUnique g label name (R.restrict g)) := by
  unfold checkNodeUnique
  rw [nodesOf_restrict]
  exact loc_same g _ R

theorem delGraph_local (g : String) (R : ARef) :
    Loc g (delGraph g R) (delGraph g (R.restrict g)) :=
  ⟨rfl, restrict_delGraphK g R⟩

theorem loc_assertVal (g : String) (v : Val) (R : ARef) (k k' : AR) (h : Loc g k k') :
    Loc g (assertVal v R k) (assertVal v (R.restrict g) k') := by
  unfold assertVal
  split
  · exact loc_same g _ R
  · exact h

end ARef

/-- **locality of the reference model**: an operation addressed to one graph that does not write `GraphID`
    replies, and acts on its graph, as it does on the part of the store that belongs to that graph -/
theorem ARef.step_local (op : Op) (R : ARef) (hs : DStore.single op = true) (hk : op.keepsGraphId = true) :
    (ARef.step op R).1 = (ARef.step op (R.restrict op.target)).1 ∧
    (ARef.step op R).2.restrict op.target = (ARef.step op (R.restrict op.target)).2 := by
  cases op with
  | addNode g nid label props =>
    refine ARef.addNode_local g nid label props R ?_
    cases props with
    | none => rfl
    | some p => simpa [Op.keepsGraphId] using hk
  | deleteNode g nid => exact ARef.deleteNode_local g nid R
  | addLink g a rel b props => exact ARef.addLink_local g a rel b props R
  | updateNodeProperty g nid k v =>
    exact ARef.loc_assertVal g v R _ _ (ARef.updateNodeProperty_local g nid k v R (by simpa [Op.keepsGraphId] using hk))
  | unsetNodeProperty g nid k => exact ARef.unsetNodeProperty_local g nid k R
  | updateNodesProperty g k v =>
    exact ARef.loc_assertVal g v R _ _ (ARef.updateNodesProperty_local g k v R (by simpa [Op.keepsGraphId] using hk))
  | updateNodeProperties g nid props =>
    exact ARef.updateNodeProperties_local g nid props R (by simpa [Op.keepsGraphId] using hk)
  | updateLinkProperty g a b kind k v => exact ARef.loc_assertVal g v R _ _ (ARef.updateLinkProperty_local g a b kind k v R)
  | unsetLinkProperty g a b kind k => exact ARef.unsetLinkProperty_local g a b kind k R
  | updateLinkProperties g a b kind props => exact ARef.updateLinkProperties_local g a b kind props R
  | deleteGraph g => exact ARef.delGraph_local g R
  | addGraph g ig => simp [DStore.single, AGraph.covers] at hs
  | addGraphDirect g ig => simp [DStore.single, AGraph.covers] at hs
  | clone g g2 => simp [DStore.single, AGraph.covers] at hs
  | mergeNodes g nid g2 pol => simp [DStore.single, AGraph.covers] at hs
  | delAllGraphs => simp [DStore.single, AGraph.covers] at hs
  | getNodeProperties g nid => exact ARef.getNodeProperties_local g nid R
  | getLinkProperties g a b => exact ARef.getLinkProperties_local g a b R
  | listAllNodeIds g => exact ARef.listAllNodeIds_local g R
  | nodesByClass g label => exact ARef.nodesByClass_local g label R
  | nodesByClassAndType g label ntype => exact ARef.nodesByClassAndType_local g label ntype R
  | nodeExists g nid label => exact ARef.nodeExists_local g nid label R
  | graphExists g => exact ARef.graphExists_local g R
  | checkNodeUnique g label name => exact ARef.checkNodeUnique_local g label name R
  | findMatchingNodes g other => simp [DStore.single] at hs

end FimVerif.Store
