import FimVerif.Proofs.Lemmas.StoreClone
import FimVerif.Proofs.Lemmas.StoreDisjoint
/-! C04: `clone_eq` on the one-graph-per-id store. Core only. -/
namespace FimVerif.DStore
open FimVerif FimVerif.Store FimVerif.Gen.StoreConsts

/-- every node stored under `g` carries `GraphID = g` (true of every graph built through the API
    without writing `GraphID`) -/
def Homed (d : DStore) (g : String) : Prop := ∀ n ∈ (sub d g).nodes, inG g n = true

theorem nodesOf_homed (st : Store) (g : String) (hh : ∀ n ∈ st.nodes, inG g n = true) : nodesOf st g = st.nodes := by
  unfold nodesOf; rw [List.filter_eq_self]; exact hh

theorem edgesOf_homed (st : Store) (h : Store.Inv st) (g : String) (hh : ∀ n ∈ st.nodes, inG g n = true) :
    edgesOf st g = st.edges := by
  unfold edgesOf
  rw [nodesOf_homed st g hh, List.filter_eq_self]
  intro e he
  simp [(h.2.2 e he).1, (h.2.2 e he).2]

/-- what the disjoint `extract_graph` returns has the content of the graph -/
theorem abs_extract (d : DStore) (h : Inv d) (g : String) (hh : Homed d g) : igContent (extractGraph d g) = abs d g := by
  unfold abs Store.abs absView igContent extractGraph
  simp only
  rw [nodesOf_homed _ g hh, edgesOf_homed _ (h g) g hh]
  congr 1
  · simp [List.map_map]
  · simp only [List.map_map]
    apply List.map_congr_left
    intro e _
    simp only [Function.comp, nidOf_pos, List.getElem?_map]
    congr 1
    · cases (sub d g).nodes[posOf (sub d g).nodes e.a]? <;> rfl
    · congr 1
      cases (sub d g).nodes[posOf (sub d g).nodes e.b]? <;> rfl

/-- a successful import into an empty slot leaves exactly the imported content -/
theorem abs_addGraph_ok (d : DStore) (g : String) (ig : IGraph) (hwf : ig.WF = true)
    (hempty : (sub d g).nodes = []) (hok : ig.nodes.any (fun a => !truthy (AMap.get nodeId a)) = false) :
    abs (addGraph g ig d).2 g = igContent ig := by
  unfold addGraph
  simp only [hempty, List.length_nil, Nat.lt_irrefl, if_false, hok, Bool.false_eq_true]
  unfold abs
  rw [sub_put_eq]
  simp only [IGraph.WF, List.all_eq_true, Bool.and_eq_true, decide_eq_true_eq] at hwf
  rw [abs_appendGraph ⟨[], [], 1⟩ (inv_empty 1) g _ _ rfl]
  · unfold igContent
    congr 1
    · simp only [List.map_map]
      apply List.map_congr_left
      intro a _
      simp [AMap.erase_set_eq]
    · apply List.map_congr_left
      intro e _
      simp only [List.getElem?_map]
      have key : ∀ k : Nat, (Option.map (AMap.set graphId (Val.str g)) ig.nodes[k]?).bind (AMap.get nodeId) =
          (ig.nodes[k]?).bind (AMap.get nodeId) := by
        intro k
        cases ig.nodes[k]? with
        | none => rfl
        | some a => simp [AMap.get_set_ne _ _ _ _ nodeId_ne_graphId]
      rw [key, key]
  · intro a ha
    obtain ⟨a0, _, rfl⟩ := List.mem_map.1 ha
    exact AMap.get_set_eq _ _ _
  · intro e he
    simpa using hwf e he

/-- **clone_eq** (one graph per id): cloning into an id that holds no nodes leaves there exactly the
    content of the source.  (Into a non-empty id the store documents "warn and skip".) -/
theorem clone_eq (d : DStore) (h : Inv d) (g g2 : String) (hh : Homed d g) (hempty : (sub d g2).nodes = [])
    (hok : (extractGraph d g).nodes.any (fun a => !truthy (AMap.get nodeId a)) = false) :
    abs (cloneGraph g g2 d).2 g2 = abs d g := by
  unfold cloneGraph
  rw [abs_addGraph_ok d g2 _ (extractGraph_wf d h g) hempty hok, abs_extract d h g hh]

end FimVerif.DStore
