import FimVerif.Model.CodecPhase
/-! lemmas for C03.phase_*: cells in use stay below `next`; a finalized record whose cells the caller does not hold shows the same content after every step -/
namespace FimVerif.Phase
variable {α : Type}

theorem mem_setNode {l : List (String × Nat)} {n : String} {c : Nat} {p : String × Nat} (h : p ∈ setNode l n c) : p.2 = c ∨ p ∈ l := by
  induction l with
  | nil => simp [setNode] at h; subst h; exact .inl rfl
  | cons q r ih =>
    obtain ⟨m, d⟩ := q
    simp only [setNode] at h
    split at h
    · rcases List.mem_cons.mp h with h | h
      · subst h; exact .inl rfl
      · exact .inr (List.mem_cons_of_mem _ h)
    · rcases List.mem_cons.mp h with h | h
      · subst h; exact .inr (List.mem_cons_self ..)
      · rcases ih h with h | h
        · exact .inl h
        · exact .inr (List.mem_cons_of_mem _ h)

theorem lookup_mem {l : List (String × Nat)} {n : String} {c : Nat} (h : lookup l n = some c) : (n, c) ∈ l := by
  induction l with
  | nil => simp [lookup] at h
  | cons q r ih =>
    obtain ⟨m, d⟩ := q
    simp only [lookup] at h
    split at h
    · next hm => cases h; subst hm; exact List.mem_cons_self ..
    · exact List.mem_cons_of_mem _ (ih h)

theorem content_congr {l : List (String × Nat)} {h g : Nat → α} (e : ∀ p ∈ l, h p.2 = g p.2) : content l h = content l g := by
  unfold content
  apply List.map_congr_left
  intro p hp; rw [e p hp]

theorem copyAll_spec (l : List (String × Nat)) (h : Nat → α) : ∀ nx, (∀ p ∈ l, p.2 < nx) →
    content (copyAll nx l h).1 (copyAll nx l h).2 = content l h ∧
    (∀ p ∈ (copyAll nx l h).1, nx ≤ p.2 ∧ p.2 < nx + l.length) ∧ (∀ x, x < nx → (copyAll nx l h).2 x = h x) := by
  induction l with
  | nil => intro nx _; simp [copyAll, content]
  | cons q r ih =>
    obtain ⟨n, c⟩ := q
    intro nx hb
    have hr : ∀ p ∈ r, p.2 < nx + 1 := fun p hp => Nat.lt_succ_of_lt (hb p (List.mem_cons_of_mem _ hp))
    obtain ⟨i1, i2, i3⟩ := ih (nx + 1) hr
    refine ⟨?_, ?_, ?_⟩
    · simp only [copyAll, content, List.map_cons]
      congr 1
      · simp [upd]
      · have : content (copyAll (nx + 1) r h).1 (upd (copyAll (nx + 1) r h).2 nx (h c)) = content (copyAll (nx + 1) r h).1 (copyAll (nx + 1) r h).2 := by
          apply content_congr
          intro p hp
          have := (i2 p hp).1
          simp only [upd]
          rw [if_neg (by omega)]
        exact this.trans i1
    · intro p hp
      simp only [copyAll] at hp
      rcases List.mem_cons.mp hp with hp | hp
      · subst hp; simp
      · have := i2 p hp; simp only [List.length_cons]; omega
    · intro x hx
      simp only [copyAll, upd]
      rw [if_neg (by omega)]
      exact i3 x (by omega)

theorem wf_init (d : α) : WF (init d) := by simp [WF, init]

theorem wf_step (f : Flags) (s : St α) (o : Op α) (w : WF s) : WF (step f s o) := by
  obtain ⟨w1, w2⟩ := w
  cases o with
  | add n e =>
    simp only [step]
    split
    · exact ⟨w1, w2⟩
    · split
      · refine ⟨?_, ?_⟩
        · intro p hp
          rcases mem_setNode hp with h | h
          · simp [h]
          · have := w1 p h; simp; omega
        · intro c hc
          rcases List.mem_cons.mp hc with h | h
          · simp [h]
          · have := w2 c h; simp; omega
      · refine ⟨?_, ?_⟩
        · intro p hp
          rcases mem_setNode hp with h | h
          · simp [h]
          · have := w1 p h; simp; omega
        · intro c hc
          rcases List.mem_cons.mp hc with h | h
          · simp [h]; omega
          · have := w2 c h; simp; omega
  | get n =>
    simp only [step]
    split
    · exact ⟨w1, w2⟩
    · next c hl =>
      generalize (if s.lock = true then !f.getLockedCopies else f.getOpenHandsOutOwn) = own
      cases own
      · simp only [Bool.false_eq_true, if_false]
        refine ⟨?_, ?_⟩
        · intro p hp; have := w1 p hp; simp; omega
        · intro x hx
          rcases List.mem_cons.mp hx with h | h
          · simp [h]
          · have := w2 x h; simp; omega
      · simp only [if_true]
        refine ⟨w1, ?_⟩
        intro x hx
        rcases List.mem_cons.mp hx with h | h
        · subst h; exact w1 _ (lookup_mem hl)
        · exact w2 x h
  | finalize =>
    simp only [step]
    split
    · refine ⟨?_, ?_⟩
      · intro p hp
        have := ((copyAll_spec s.nodes s.heap s.next w1).2.1 p hp).2
        exact this
      · intro c hc; have := w2 c hc; simp; omega
    · exact ⟨w1, w2⟩
  | edit c e =>
    simp only [step]
    split <;> exact ⟨w1, w2⟩

theorem wf_run (f : Flags) (ops : List (Op α)) : ∀ s : St α, WF s → WF (run f s ops) := by
  induction ops with
  | nil => intro s w; exact w
  | cons o r ih => intro s w; exact ih _ (wf_step f s o w)

/-- finalize with copying establishes separation and keeps what the record shows -/
theorem finalize_sep (f : Flags) (hf : f.finalizeCopies = true) (s : St α) (w : WF s) :
    Sep (step f s .finalize) ∧ view (step f s .finalize) = view s := by
  obtain ⟨w1, w2⟩ := w
  obtain ⟨c1, c2, _⟩ := copyAll_spec s.nodes s.heap s.next w1
  simp only [step, hf, if_true, Sep, view]
  refine ⟨⟨by trivial, ?_⟩, c1⟩
  intro p hp hh
  have := (c2 p hp).1
  have := w2 _ hh
  omega

/-- in a finalized, separated record no step changes what the record shows -/
theorem sep_step (f : Flags) (hf : f.finalizeCopies = true) (hg : f.getLockedCopies = true) (s : St α) (o : Op α) (w : WF s) (sp : Sep s) :
    Sep (step f s o) ∧ view (step f s o) = view s := by
  obtain ⟨w1, w2⟩ := w
  obtain ⟨lk, sp⟩ := sp
  cases o with
  | add n e =>
    have : step f s (.add n e) = s := by simp only [step, lk, if_true]
    rw [this]; exact ⟨⟨lk, sp⟩, rfl⟩
  | get n =>
    simp only [step]
    split
    · exact ⟨⟨lk, sp⟩, rfl⟩
    · next c hl =>
      simp only [lk, hg, if_true, Bool.not_true, Bool.false_eq_true, if_false]
      refine ⟨⟨by trivial, ?_⟩, ?_⟩
      · intro p hp hh
        rcases List.mem_cons.mp hh with h | h
        · have := w1 p hp; omega
        · exact sp p hp h
      · simp only [view]
        apply content_congr
        intro p hp
        have := w1 p hp
        simp only [upd]; rw [if_neg (by omega)]
  | finalize =>
    have := finalize_sep f hf s ⟨w1, w2⟩
    exact this
  | edit c e =>
    simp only [step]
    split
    · next hc =>
      refine ⟨⟨lk, sp⟩, ?_⟩
      simp only [view]
      apply content_congr
      intro p hp
      simp only [upd]
      rw [if_neg]
      intro h; exact sp p hp (by rw [h]; exact hc)
    · exact ⟨⟨lk, sp⟩, rfl⟩

theorem sep_run (f : Flags) (hf : f.finalizeCopies = true) (hg : f.getLockedCopies = true) (ops : List (Op α)) :
    ∀ s : St α, WF s → Sep s → view (run f s ops) = view s := by
  induction ops with
  | nil => intro s _ _; rfl
  | cons o r ih =>
    intro s w sp
    have h := sep_step f hf hg s o w sp
    simp only [run]
    rw [ih _ (wf_step f s o w) h.1, h.2]

theorem run_append (f : Flags) (a b : List (Op α)) : ∀ s : St α, run f s (a ++ b) = run f (run f s a) b := by
  induction a with
  | nil => intro s; rfl
  | cons o r ih => intro s; simp only [List.cons_append, run]; exact ih _

end FimVerif.Phase
