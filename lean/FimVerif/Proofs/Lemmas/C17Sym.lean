import FimVerif.Proofs.Lemmas.C17Tree
/-!
# Symmetry of the "modified" part, the blind spots of `NodeSliver.diff`, renames, `None` vs empty, dictionary invariants (C17)
-/
namespace FimVerif.Diff

/-! ### `prop_diff` and one dictionary level are symmetric -/

section
variable {V : Type} [DecidableEq V]

theorem propDiff_comm (a b : Props V) : propDiff a b = propDiff b a := by
  simp only [propDiff, ne_eq, Flags.mk.injEq, decide_eq_decide, and_true]
  exact ⟨not_congr eq_comm, not_congr eq_comm, not_congr eq_comm⟩

end

section
variable {α : Type} [Named α]

theorem mem_level_modified_comm (flag : α → α → Flags) (a b : Option (List α)) (ha : WfDict (dictOf a)) (hb : WfDict (dictOf b))
    (hsym : ∀ k x y, get? (dictOf a) k = some x → get? (dictOf b) k = some y → flag x y = flag y x) (k : String) (f : Flags) :
    (k, f) ∈ (levelDiff flag a b).modified ↔ (k, f) ∈ (levelDiff flag b a).modified := by
  rw [mem_level_modified _ _ _ ha, mem_level_modified _ _ _ hb]
  constructor
  · rintro ⟨x, y, hx, hy, hf, hn⟩
    exact ⟨y, x, hy, hx, by rw [← hsym k x y hx hy]; exact hf, hn⟩
  · rintro ⟨y, x, hy, hx, hf, hn⟩
    exact ⟨x, y, hx, hy, by rw [hsym k x y hx hy]; exact hf, hn⟩

theorem SameDict.symm' {same same' : α → α → Prop} {a b : Option (List α)}
    (h : SameDict same a b) (hs : ∀ k u v, get? (dictOf a) k = some u → get? (dictOf b) k = some v → same u v → same' v u) :
    SameDict same' b a :=
  ⟨fun k => (h.1 k).symm, fun k v u hv hu => hs k u v hu hv (h.2 k u v hu hv)⟩

end

section
variable {V : Type} [DecidableEq V]

theorem leafFlag_comm (x y : Leaf V) : leafFlag x y = leafFlag y x := propDiff_comm _ _

omit [DecidableEq V] in
theorem subs_same_comm (x y : Iface V) : SameDict Leaf.Same x.subs y.subs ↔ SameDict Leaf.Same y.subs x.subs :=
  ⟨fun h => h.symm' (fun _ _ _ _ _ e => Eq.symm e), fun h => h.symm' (fun _ _ _ _ _ e => Eq.symm e)⟩

theorem subsChanged_comm (x y : Iface V) (hx : x.Wf) (hy : y.Wf) : subsChanged x y = subsChanged y x := by
  have h1 := (subsChanged_eq_false_iff x y).trans (subs_level_empty_iff x y hx)
  have h2 := (subsChanged_eq_false_iff y x).trans (subs_level_empty_iff y x hy)
  have h3 := subs_same_comm x y
  cases hA : subsChanged x y <;> cases hB : subsChanged y x <;> simp_all

/-- the two sides agree on which interfaces are dedicated ports -/
def Svc.KindsAgree (a b : Svc V) : Prop :=
  ∀ x ∈ dictOf a.ifs, ∀ y ∈ get? (dictOf b.ifs) x.name, x.dedicated = y.dedicated

instance (a b : Svc V) : Decidable (Svc.KindsAgree a b) := by unfold Svc.KindsAgree; infer_instance

theorem ifaceFlag_comm (x y : Iface V) (hx : x.Wf) (hy : y.Wf) (hd : x.dedicated = y.dedicated) : ifaceFlag x y = ifaceFlag y x := by
  rw [ifaceFlag_eq, ifaceFlag_eq, propDiff_comm, subsChanged_comm x y hx hy, hd]

omit [DecidableEq V] in
theorem Svc.KindsAgree.get {a b : Svc V} (h : Svc.KindsAgree a b) {k : String} {x y : Iface V}
    (hx : get? (dictOf a.ifs) k = some x) (hy : get? (dictOf b.ifs) k = some y) : x.dedicated = y.dedicated := by
  obtain ⟨hm, rfl⟩ := get?_some_mem hx
  exact h x hm y (by simpa [Named.name] using hy)

theorem ifaceFlag_comm_of {a b : Svc V} (ha : a.Wf) (hb : b.Wf) (hk : Svc.KindsAgree a b) (k : String) (x y : Iface V)
    (hx : get? (dictOf a.ifs) k = some x) (hy : get? (dictOf b.ifs) k = some y) : ifaceFlag x y = ifaceFlag y x :=
  ifaceFlag_comm x y (ha.2 x (get?_some_mem hx).1) (hb.2 y (get?_some_mem hy).1) (hk.get hx hy)

omit [DecidableEq V] in
theorem Iface.SameIn.symm' {x y : Iface V} (h : Iface.SameIn x y) (hd : x.dedicated = y.dedicated) : Iface.SameIn y x :=
  ⟨h.1.symm, fun hy => (subs_same_comm x y).1 (h.2 (hd ▸ hy))⟩

omit [DecidableEq V] in
theorem Svc.Same.symm' {a b : Svc V} (h : Svc.Same a b) (hk : Svc.KindsAgree a b) : Svc.Same b a :=
  ⟨h.1.symm, h.2.symm' (fun _ _ _ hu hv e => e.symm' (hk.get hu hv))⟩

/-- `NetworkServiceSliver.diff` sees a difference old→new iff it sees one new→old -/
theorem svcDiff_isSome_comm (a b : Svc V) (ha : a.Wf) (hb : b.Wf) (hk : Svc.KindsAgree a b) :
    (svcDiff a b).isSome = (svcDiff b a).isSome := by
  have h1 := svcDiff_none_iff_same a b ha
  have h2 := svcDiff_none_iff_same b a hb
  have h3 : Svc.Same a b ↔ Svc.Same b a := by
    constructor
    · exact fun h => h.symm' hk
    · intro h
      refine ⟨h.1.symm, h.2.symm' (fun k v u hv hu e => ?_)⟩
      exact ⟨e.1.symm, fun hd => (subs_same_comm u v).2 (e.2 ((hk.get hu hv) ▸ hd))⟩
  cases hA : svcDiff a b <;> cases hB : svcDiff b a <;> simp_all

/-- the two sides agree on which components are SmartNICs and, below those, on which interfaces are dedicated ports -/
def Node.KindsAgree (a b : Node V) : Prop :=
  ∀ x ∈ dictOf a.comps, ∀ y ∈ get? (dictOf b.comps) x.name,
    x.smart = y.smart ∧ ∀ sx ∈ (dictOf x.svcs).head?, ∀ sy ∈ (dictOf y.svcs).head?, Svc.KindsAgree sx sy

instance (a b : Node V) : Decidable (Node.KindsAgree a b) := by unfold Node.KindsAgree; infer_instance

theorem compFlagP_comm (x y : Comp V) (hx : x.Wf) (hy : y.Wf) (hs : x.smart = y.smart)
    (hk : ∀ sx ∈ (dictOf x.svcs).head?, ∀ sy ∈ (dictOf y.svcs).head?, Svc.KindsAgree sx sy) : compFlagP x y = compFlagP y x := by
  dsimp only [compFlagP]
  rw [propDiff_comm, hs]
  cases hhx : (dictOf x.svcs).head? with
  | none => cases hhy : (dictOf y.svcs).head? <;> rfl
  | some sx =>
    cases hhy : (dictOf y.svcs).head? with
    | none => rfl
    | some sy =>
      have := svcDiff_isSome_comm sx sy (hx sx (by rw [hhx]; rfl)) (hy sy (by rw [hhy]; rfl)) (hk sx (by rw [hhx]; rfl) sy (by rw [hhy]; rfl))
      simp only [this]

/-! ### the two blind spots of `NodeSliver.diff`, exactly -/

/-- two components as a complete comparison would see them: the first service of each, whatever the type -/
def Comp.DeepSame (x y : Comp V) : Prop :=
  x.props = y.props ∧ ∀ sx ∈ (dictOf x.svcs).head?, ∀ sy ∈ (dictOf y.svcs).head?, Svc.Same sx sy

/-- two nodes as a complete comparison would see them -/
def Node.DeepSame (a b : Node V) : Prop :=
  a.props = b.props ∧ SameDict Comp.DeepSame a.comps b.comps ∧ SameDict Svc.Same a.svcs b.svcs

omit [DecidableEq V] in
/-- whatever a complete comparison finds equal, `NodeSliver.diff` finds equal -/
theorem Node.DeepSame.same {a b : Node V} (h : Node.DeepSame a b) : Node.Same a b :=
  ⟨h.1, ⟨h.2.1.1, fun k u v hu hv => ⟨(h.2.1.2 k u v hu hv).1, fun _ => (h.2.1.2 k u v hu hv).2⟩⟩,
    ⟨h.2.2.1, fun k u v hu hv => (h.2.2.2 k u v hu hv).1⟩⟩

omit [DecidableEq V] in
/-- when `NodeSliver.diff` reports nothing, the two nodes still differ exactly when something differs (i) below the first
service of a common component that is not a SmartNIC, or (ii) among the interfaces of a common node-level service -/
theorem node_same_deep_iff (a b : Node V) (h : Node.Same a b) :
    Node.DeepSame a b ↔
      (∀ k x y, get? (dictOf a.comps) k = some x → get? (dictOf b.comps) k = some y → x.smart = false →
        ∀ sx ∈ (dictOf x.svcs).head?, ∀ sy ∈ (dictOf y.svcs).head?, Svc.Same sx sy) ∧
      (∀ k u v, get? (dictOf a.svcs) k = some u → get? (dictOf b.svcs) k = some v → SameDict Iface.SameIn u.ifs v.ifs) := by
  constructor
  · intro hd
    exact ⟨fun k x y hx hy _ => (hd.2.1.2 k x y hx hy).2, fun k u v hu hv => (hd.2.2.2 k u v hu hv).2⟩
  · rintro ⟨hc, hs⟩
    refine ⟨h.1, ⟨h.2.1.1, fun k x y hx hy => ⟨(h.2.1.2 k x y hx hy).1, ?_⟩⟩, ⟨h.2.2.1, fun k u v hu hv => ⟨h.2.2.2 k u v hu hv, hs k u v hu hv⟩⟩⟩
    cases hsm : x.smart with
    | false => exact hc k x y hx hy hsm
    | true => exact (h.2.1.2 k x y hx hy).2 hsm

end

/-! ### renames, `None` against an empty `*Info` -/

section
variable {α : Type} [Named α]

/-- the comparison is by name only: an element that reappears under a new name is a removal and an addition, and neither name
is listed as modified -/
theorem rename_is_remove_plus_add (flag : α → α → Flags) (a b : Option (List α)) (ha : WfDict (dictOf a)) (k k' : String)
    (h1 : hasKey (dictOf a) k = true) (h2 : hasKey (dictOf a) k' = false)
    (h3 : hasKey (dictOf b) k = false) (h4 : hasKey (dictOf b) k' = true) :
    k ∈ (levelDiff flag a b).removed ∧ k' ∈ (levelDiff flag a b).added ∧
    ∀ f, (k, f) ∉ (levelDiff flag a b).modified ∧ (k', f) ∉ (levelDiff flag a b).modified := by
  refine ⟨(mem_level_removed flag a b k).2 ⟨h1, h3⟩, (mem_level_added flag a b k').2 ⟨h4, h2⟩, fun f => ⟨?_, ?_⟩⟩
  · rw [mem_level_modified flag a b ha]
    rintro ⟨x, y, _, hy, _⟩
    have := (hasKey_iff_get? (dictOf b) k).2 (by rw [hy]; rfl)
    rw [h3] at this; cases this
  · rw [mem_level_modified flag a b ha]
    rintro ⟨x, y, hx, _, _⟩
    have := (hasKey_iff_get? (dictOf a) k').2 (by rw [hx]; rfl)
    rw [h2] at this; cases this

/-- a missing `*Info` object and one with an empty dictionary are the same thing to every `diff` -/
theorem levelDiff_none_left (flag : α → α → Flags) (b : Option (List α)) : levelDiff flag none b = levelDiff flag (some []) b := by
  rw [levelDiff_norm, levelDiff_norm]; rfl

theorem levelDiff_none_right (flag : α → α → Flags) (a : Option (List α)) : levelDiff flag a none = levelDiff flag a (some []) := by
  rw [levelDiff_norm, levelDiff_norm]; rfl

/-! ### the `*Info` dictionaries: `add_*` is `d[name] = x`, `remove_*` is `d.pop(name)`; keys stay unique -/

/-- `d[x.resource_name] = x` (an existing key keeps its position) -/
def dictSet (d : List α) (x : α) : List α :=
  if hasKey d (name x) then d.map (fun y => if name y == name x then x else y) else d ++ [x]

/-- `d.pop(k)` if present -/
def dictPop (d : List α) (k : String) : List α := d.filter (fun y => !(name y == k))

inductive DictOp (α : Type) where
  | set (x : α)
  | pop (k : String)

def dictRun (ops : List (DictOp α)) (d : List α) : List α :=
  ops.foldl (fun d o => match o with | .set x => dictSet d x | .pop k => dictPop d k) d

theorem wf_dictSet (d : List α) (x : α) (h : WfDict d) : WfDict (dictSet d x) := by
  unfold dictSet
  split
  · have : (d.map (fun y => if name y == name x then x else y)).map name = d.map name := by
      rw [List.map_map]
      apply List.map_congr_left
      intro y _
      simp only [Function.comp]
      split
      · rename_i e; exact (beq_iff_eq.1 e).symm
      · rfl
    unfold WfDict; rw [this]; exact h
  · rename_i hk
    have hk' : hasKey d (name x) = false := by simpa using hk
    unfold WfDict at *
    rw [List.map_append, List.nodup_append]
    refine ⟨h, by simp, ?_⟩
    intro n hn m hm
    simp only [List.map_cons, List.map_nil, List.mem_singleton] at hm
    obtain ⟨y, hy, rfl⟩ := List.mem_map.1 hn
    rw [hm]
    exact (hasKey_false_iff d (name x)).1 hk' y hy

theorem wf_dictPop (d : List α) (k : String) (h : WfDict d) : WfDict (dictPop d k) :=
  List.Nodup.sublist (List.Sublist.map _ List.filter_sublist) h

/-- every dictionary the `*Info` methods can build has unique keys: the hypothesis `Wf` of the theorems is an invariant -/
theorem wf_dictRun (ops : List (DictOp α)) (d : List α) (h : WfDict d) : WfDict (dictRun ops d) := by
  induction ops generalizing d with
  | nil => exact h
  | cons o os ih =>
    cases o with
    | set x => exact ih _ (wf_dictSet d x h)
    | pop k => exact ih _ (wf_dictPop d k h)

theorem wf_nil : WfDict ([] : List α) := by simp [WfDict]

end

end FimVerif.Diff
