import FimVerif.Proofs.Lemmas.ARefAddDel
/-! C05: the shared store refines `ARef.step` — `clone_graph`.  Core only. -/
namespace FimVerif.Store
open FimVerif FimVerif.Gen.StoreConsts

/-- the links among the nodes of `g`, as the reference sees them -/
theorem absS_edges_filter_kIn (s : Store) (h : Inv s) (g : String) :
    (absS s).edges.filter (fun e => ARef.kIn g e.1 && ARef.kIn g e.2.1) =
      (edgesOf s g).map (fun e => (keyOf s.nodes e.a, keyOf s.nodes e.b, e.attrs)) := by
  rw [absS_edges]
  unfold edgesOf
  apply filter_map_pred
  intro e he
  obtain ⟨ea, eb⟩ := h.2.2 e he
  obtain ⟨na, hna, ea, ka⟩ := keyOf_of_idIn s h e.a ea
  obtain ⟨nb, hnb, eb, kb⟩ := keyOf_of_idIn s h e.b eb
  simp only
  rw [ka, kb, ← ea, ← eb, idIn_nodesOf s h g na hna, idIn_nodesOf s h g nb hnb]
  rfl

/-- the node found at the position `extract_graph` gives to a stored id -/
theorem getElem?_posOf (ns : List SNode) (i : Nat) (hi : idIn ns i = true) :
    ∃ n, ns[posOf ns i]? = some n ∧ n ∈ ns ∧ n.iid = i := by
  unfold posOf
  rw [← find?_eq_getElem?_findIdx]
  obtain ⟨m, hm, e⟩ := (idIn_iff _ _).1 hi
  cases hf : ns.find? (fun n => n.iid == i) with
  | none =>
    have := List.find?_eq_none.1 hf m hm
    simp [e] at this
  | some n =>
    exact ⟨n, rfl, List.mem_of_find?_eq_some hf, by simpa using List.find?_some hf⟩

theorem keyP_set_graphId (v : Val) (a : Props) : keyP (AMap.set graphId v a) = (some v, (keyP a).2) := by
  unfold keyP
  rw [AMap.get_set_eq, AMap.get_set_ne _ _ _ _ nodeId_ne_graphId]

/-- the key of the copy of a node of `g`, looked up by its position among the nodes of `g` -/
theorem key_at_pos (s : Store) (h : Inv s) (g : String) (v : Val) (i : Nat) (hi : idIn (nodesOf s g) i = true) :
    (((((nodesOf s g).map (·.attrs)).map (AMap.set graphId v))[posOf (nodesOf s g) i]?).map keyP).getD (none, none) =
      (some v, (keyOf s.nodes i).2) := by
  obtain ⟨n, hp, hn, e⟩ := getElem?_posOf (nodesOf s g) i hi
  have hns : n ∈ s.nodes := (List.mem_filter.1 hn).1
  rw [List.getElem?_map, List.getElem?_map, hp, ← e, keyOf_mem s h n hns]
  simp only [Option.map_some, Option.getD_some]
  exact keyP_set_graphId v n.attrs

theorem refS_cloneGraph (s : Store) (h : Inv s) (g g2 : String) :
    RefS (cloneGraph g g2 s) (ARef.cloneGraph g g2 (absS s)) := by
  unfold cloneGraph ARef.cloneGraph extractGraph
  simp only [nodesOf_absS, List.length_map]
  by_cases hl : (nodesOf s g).length = 0
  · simp only [hl, if_true]
    exact refS_err s _
  · simp only [hl, if_false]
    unfold addGraph
    simp only [List.any_map, Function.comp_def]
    split
    · exact ⟨rfl, absS_delIfPresent s h g2⟩
    · refine ⟨rfl, ?_⟩
      simp only
      rw [absS_appendGraph _ (inv_delIfPresent s g2 h) _ _ (by
        intro e he
        obtain ⟨e0, he0, rfl⟩ := List.mem_map.1 he
        simp only [edgesOf, List.mem_filter, Bool.and_eq_true] at he0
        simp only [List.length_map]
        exact ⟨posOf_lt _ _ he0.2.1, posOf_lt _ _ he0.2.2⟩), absS_delIfPresent s h g2]
      unfold ARef.appendK
      rw [absS_edges_filter_kIn s h g]
      simp only [ARef.mk.injEq, List.map_map, true_and]
      congr 1
      apply List.map_congr_left
      intro e he
      simp only [edgesOf, List.mem_filter, Bool.and_eq_true] at he
      simp only [Function.comp]
      have ka := key_at_pos s h g (.str g2) e.a he.2.1
      have kb := key_at_pos s h g (.str g2) e.b he.2.2
      simp only [List.map_map] at ka kb
      rw [ka, kb]

end FimVerif.Store
