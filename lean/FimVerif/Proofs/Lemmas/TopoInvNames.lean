import FimVerif.Proofs.Lemmas.TopoInvCreate
/-!
# C07 — the four name scopes no creating call breaks: nodes, components of a node, services of a node / component,
top-level services (`NamesCore`).  Links and interfaces of a service are the scopes the code does break (known findings).
-/
namespace FimVerif.Topo
open FimVerif FimVerif.M FimVerif.Gen

theorem ro_ok_inv {α β : Type} {m : M Topo α} {f : α → M Topo β} {s s' : Topo} {b : β} (hm : ReadOnly m)
    (h : (m >>= f) s = (.ok b, s')) : ∃ a, m s = (.ok a, s) ∧ f a s = (.ok b, s') := by
  obtain ⟨a, t, h1, h2⟩ := bind_ok_inv h
  have := ro_run hm h1; subst this
  exact ⟨a, h1, h2⟩

structure NamesCore (s : Topo) : Prop where
  nodes : NodeNames s
  comps : CompNames s
  svcs : SvcNames s
  topSvcs : TopSvcNames s

instance (s : Topo) : Decidable (NamesCore s) :=
  if h : NodeNames s ∧ CompNames s ∧ SvcNames s ∧ TopSvcNames s then isTrue ⟨h.1, h.2.1, h.2.2.1, h.2.2.2⟩
  else isFalse (fun n => h ⟨n.nodes, n.comps, n.svcs, n.topSvcs⟩)

theorem NamesOk.core {s : Topo} (h : NamesOk s) : NamesCore s := ⟨h.nodes, h.comps, h.svcs, h.topSvcs⟩

/-- new elements are interfaces and links only, and no new edge is a `has` edge into an old element -/
theorem kids_grow_old {s : Topo} {N : List GNode} {E : List GEdge} (hx : GrowOk s N E) (p : Ref) (c : Cls)
    (hN : ∀ n ∈ N, n.cls ≠ c) : kids (grow s N E) p .has c = kids s p .has c := by
  unfold kids grow
  simp only [List.filter_append]
  have h1 : N.filter (fun n => n.cls == c && (s.edges ++ E).any (fun e => e.rel == Rel.has && e.a == p && e.b == n.ref)) = [] := by
    rw [List.filter_eq_nil_iff]; intro n hn; simp [hN n hn]
  rw [h1, List.append_nil]
  apply List.filter_congr
  intro m hm
  congr 1
  rw [List.any_append]
  have : E.any (fun e => e.rel == Rel.has && e.a == p && e.b == m.ref) = false := by
    rw [List.any_eq_false]
    intro e he hc
    simp only [Bool.and_eq_true, beq_iff_eq] at hc
    obtain ⟨⟨hr, _⟩, hb⟩ := hc
    have hl := (hx.into_old he hm hb).1
    have := hx.schema e he
    simp [edgeOk, hl, hr] at this
  rw [this, Bool.or_false]

theorem hasParent_grow_old {s : Topo} {N : List GNode} {E : List GEdge} (hx : GrowOk s N E) {m : GNode} (hm : m ∈ s.nodes) :
    hasParent (grow s N E) m.ref = hasParent s m.ref := by
  unfold hasParent grow
  rw [List.any_append]
  have : E.any (fun e => e.rel == Rel.has && e.b == m.ref) = false := by
    rw [List.any_eq_false]
    intro e he hc
    simp only [Bool.and_eq_true, beq_iff_eq] at hc
    have hl := (hx.into_old he hm hc.2).1
    have := hx.schema e he
    simp [edgeOk, hl, hc.1] at this
  rw [this, Bool.or_false]

theorem kids_new_parent {s : Topo} (hc : ClosedOk s) {N : List GNode} {E : List GEdge} (hx : GrowOk s N E) {n : GNode} (hn : n ∈ N)
    (c : Cls) (hE : ∀ e ∈ E, e.rel = .has → e.a ≠ n.ref) : kids (grow s N E) n.ref .has c = [] := by
  unfold kids
  rw [List.filter_eq_nil_iff]
  intro m _
  have : (grow s N E).edges.any (fun e => e.rel == Rel.has && e.a == n.ref && e.b == m.ref) = false := by
    rw [List.any_eq_false]
    intro e he hcx
    simp only [Bool.and_eq_true, beq_iff_eq] at hcx
    simp only [grow, List.mem_append] at he
    rcases he with he | he
    · exact (no_edge_into_new hc (hx.fresh n hn) e he).1 hcx.1.2
    · exact hE e he hcx.1.1 hcx.1.2
  simp [this]

/-- appending interfaces and links (add_link, connect_interface, add_interface) keeps the four scopes -/
theorem namesCore_grow_cp_link {s : Topo} {N : List GNode} {E : List GEdge} (hc : ClosedOk s) (hx : GrowOk s N E)
    (hN : ∀ n ∈ N, n.cls = .connectionPoint ∨ n.cls = .link) (h : NamesCore s) : NamesCore (grow s N E) := by
  have hne : ∀ (c : Cls), c ≠ .connectionPoint → c ≠ .link → ∀ n ∈ N, n.cls ≠ c := by
    intro c h1 h2 n hn hcc
    rcases hN n hn with h' | h' <;> rw [hcc] at h'
    · exact h1 h'
    · exact h2 h'
  have hEhas : ∀ n ∈ N, ∀ e ∈ E, e.rel = .has → e.a ≠ n.ref := by
    intro n hn e he hr ha
    have := hx.schema e he
    rcases hN n hn with h' | h' <;> simp [edgeOk, ha, GNode.ref, h', hr] at this
  have hfilt : ∀ (p : GNode → Bool), (∀ n ∈ N, p n = false) → (grow s N E).nodes.filter p = s.nodes.filter p := by
    intro p hp
    simp only [grow, List.filter_append]
    have : N.filter p = [] := by rw [List.filter_eq_nil_iff]; intro n hn; simp [hp n hn]
    rw [this, List.append_nil]
  refine ⟨?_, ?_, ?_, ?_⟩
  · show (((grow s N E).nodes.filter _).map (·.name)).Nodup
    rw [hfilt _ (fun n hn => by simpa using hne .networkNode (by simp) (by simp) n hn)]; exact h.nodes
  · intro p hp
    simp only [grow, List.mem_append] at hp
    rcases hp with hp | hp
    · rw [kids_grow_old hx _ _ (hne .component (by simp) (by simp))]; exact h.comps p hp
    · rw [kids_new_parent hc hx hp _ (hEhas p hp)]; simp
  · intro p hp
    simp only [grow, List.mem_append] at hp
    rcases hp with hp | hp
    · rw [kids_grow_old hx _ _ (hne .networkService (by simp) (by simp))]; exact h.svcs p hp
    · rw [kids_new_parent hc hx hp _ (hEhas p hp)]; simp
  · show (((grow s N E).nodes.filter _).map (·.name)).Nodup
    have : (grow s N E).nodes.filter (fun n => n.cls == Cls.networkService && !hasParent (grow s N E) n.ref) =
        s.nodes.filter (fun n => n.cls == Cls.networkService && !hasParent s n.ref) := by
      rw [hfilt _ (fun n hn => by
        have := hne .networkService (by simp) (by simp) n hn
        simp [this])]
      apply List.filter_congr
      intro m hm
      rw [hasParent_grow_old hx hm]
    rw [this]; exact h.topSvcs

/-- `connect_interface` as a growth step: it raises in the state it found, or appends a ServicePort and a Link -/
theorem connect_grow_spec (fl : Flavour) (c : Nat) (svc iid : Nid) (iname : String) (cache : Cache) (s : Topo)
    (hsv : HandleOk s svc .networkService) (hcp : HandleOk s iid .connectionPoint)
    (hfr : ∀ m ∈ s.nodes, m.nid ≠ .gen c ∧ m.nid ≠ .gen (c + 1))
    (hnsp : NoSpIn s [.iface iid iname]) (h : InvD s) :
    (connectInterface fl c svc cache (.iface iid iname) s).2 = s ∨
    ∃ cp ln E, GrowOk s [cp, ln] E ∧ cp.cls = .connectionPoint ∧ ln.cls = .link ∧
      (connectInterface fl c svc cache (.iface iid iname) s).2 = grow s [cp, ln] E := by
  have hv := (preserves_vocab_connect fl c svc cache (.iface iid iname)).h s h.vocab
  rcases connect_spec' fl c svc iid iname cache s h.ids h.closed hcp hfr with ⟨e, he⟩ |
    ⟨sv, fi, cp, ln, nm, hsvm, hsvi, hfim, hfii, _, hcc, hci, hct, hlc, hli, hres⟩
  · rw [he]; exact .inl rfl
  · rw [hres] at hv ⊢
    right
    have hsvc : sv.cls = .networkService := hsv sv hsvm hsvi
    have hfic : fi.cls = .connectionPoint := hcp fi hfim hfii
    have hfit : fi.typ ≠ "ServicePort" := fun ht => hnsp fi hfim ht _ (List.mem_singleton.mpr rfl) iid iname rfl hfii
    have hiid : iid ≠ .gen c := by rw [← hfii]; exact (hfr fi hfim).1
    have hcpr : cp.ref = ⟨.connectionPoint, .gen c⟩ := by simp [GNode.ref, hcc, hci]
    have hlnr : ln.ref = ⟨.link, .gen (c + 1)⟩ := by simp [GNode.ref, hlc, hli]
    have hfir : fi.ref = ⟨.connectionPoint, iid⟩ := by simp [GNode.ref, hfic, hfii]
    have hsvr : sv.ref = ⟨.networkService, svc⟩ := by simp [GNode.ref, hsvc, hsvi]
    have hx : GrowOk s [cp, ln] [⟨sv.ref, cp.ref, .connects⟩, ⟨ln.ref, fi.ref, .connects⟩, ⟨ln.ref, cp.ref, .connects⟩] := {
      fresh := by
        intro x hx m hm; simp at hx
        rcases hx with rfl | rfl
        · rw [hci]; exact (hfr m hm).1
        · rw [hli]; exact (hfr m hm).2
      nodup := by simp [hci, hli]
      vocab := by intro x hx; exact hv x (by simp [connState]; exact .inr (by simpa using hx))
      ends := by
        intro e he; simp at he
        rcases he with rfl | rfl | rfl
        · exact ⟨⟨sv, by simp [hsvm], rfl⟩, ⟨cp, by simp, rfl⟩⟩
        · exact ⟨⟨ln, by simp, rfl⟩, ⟨fi, by simp [hfim], rfl⟩⟩
        · exact ⟨⟨ln, by simp, rfl⟩, ⟨cp, by simp, rfl⟩⟩
      schema := by
        intro e he; simp at he
        rcases he with rfl | rfl | rfl <;> simp [edgeOk, hcpr, hlnr, hfir, hsvr]
      into := by
        intro e he; simp at he
        rcases he with rfl | rfl | rfl
        · exact .inl ⟨cp, by simp, rfl⟩
        · refine .inr ⟨by simp [hlnr], fun m hm ht hme => ?_⟩
          have := eq_of_nid_eq h.ids hm hfim (by simpa [GNode.ref] using congrArg Ref.nid hme)
          subst this; exact hfit ht
        · exact .inl ⟨cp, by simp, rfl⟩
      linkNew := by
        intro e he; simp at he
        rcases he with rfl | rfl | rfl
        · intro hc; simp [hsvr] at hc
        · intro _; exact ⟨ln, by simp, rfl⟩
        · intro _; exact ⟨ln, by simp, rfl⟩ }
    exact ⟨cp, ln, _, hx, hcc, hlc, rfl⟩

theorem namesCore_connect (fl : Flavour) (c : Nat) (svc iid : Nid) (iname : String) (cache : Cache) (s : Topo)
    (hsv : HandleOk s svc .networkService) (hcp : HandleOk s iid .connectionPoint)
    (hfr : ∀ m ∈ s.nodes, m.nid ≠ .gen c ∧ m.nid ≠ .gen (c + 1))
    (hnsp : NoSpIn s [.iface iid iname]) (h : InvD s) (hn : NamesCore s) :
    NamesCore (connectInterface fl c svc cache (.iface iid iname) s).2 := by
  rcases connect_grow_spec fl c svc iid iname cache s hsv hcp hfr hnsp h with he | ⟨cp, ln, E, hx, hcc, hlc, he⟩
  · rw [he]; exact hn
  · rw [he]
    refine namesCore_grow_cp_link h.closed hx ?_ hn
    intro n hn'; simp at hn'
    rcases hn' with rfl | rfl
    · exact .inl hcc
    · exact .inr hlc

theorem namesCore_nsAddInterface (fl : Flavour) (c : Nat) (svc : Nid) (cache : Cache) (name : String) (nid : Option Nid)
    (itype : Option String) (props : List PropArg) (s : Topo) (hh : HandleOk s svc .networkService)
    (ht : TypeArgOk .connectionPoint itype) (h : InvD s) (hn : NamesCore s) :
    NamesCore (nsAddInterface fl c svc cache name nid itype props s).2 := by
  unfold nsAddInterface
  refine ro_step (Q := fun r => NamesCore r.2) (by ro) (fun _ => hn) (fun _ _ => ?_)
  refine ifaceNew_inv fl c name nid svc itype props s h.closed hn (fun pn n hm hi hnew hncls htyp => ?_)
  have hpc : pn.cls = .networkService := hh pn hm hi
  refine namesCore_grow_cp_link h.closed (extOk_attach hm hnew (by simp [nodeOk, classOk_all, hncls, ht n.typ htyp])
    (by simp [edgeOk, GNode.ref, hpc, hncls]) (by simp [hpc])) ?_ hn
  intro x hx; simp at hx; subst hx; exact .inl hncls

theorem namesCore_addLink (fl : Flavour) (c : Nat) (name : String) (nid : Option Nid) (ltype : Option String)
    (ifs : Option (List IfArg)) (tech : Option String) (props : List PropArg) (s : Topo) (ht : TypeArgOk .link ltype)
    (hsp : ∀ l, ifs = some l → NoSpIn s l) (h : InvD s) (hn : NamesCore s) :
    NamesCore (addLink fl c name nid ltype ifs tech props s).2 := by
  unfold addLink
  refine ro_step (Q := fun r => NamesCore r.2) (by ro) (fun _ => hn) (fun _ _ => ?_)
  refine ro_step (Q := fun r => NamesCore r.2) (by ro) (fun _ => hn) (fun _ _ => ?_)
  refine linkNew_inv fl c name nid ltype ifs tech props s h.ids h.closed h.vocab ht hn (fun l ln E hl hf hlc hv hp hE => ?_)
  refine namesCore_grow_cp_link h.closed (extOk_link hf hlc hv hp (hsp l hl) hE) ?_ hn
  intro x hx; simp at hx; subst hx; exact .inr hlc

theorem mapStable_namesCore : MapStable NamesCore := by
  intro f hf hname s h
  have hfilter : ∀ (p : GNode → Bool), (∀ n, p (f n) = p n) →
      ((s.nodes.map f).filter p).map (·.name) = (s.nodes.filter p).map (·.name) := by
    intro p hp
    induction s.nodes with
    | nil => rfl
    | cons a l ih =>
      simp only [List.map_cons, List.filter_cons, hp a]
      split <;> simp [ih, hname]
  have hkids : ∀ (p : Ref) (rel : Rel) (c : Cls),
      (kids (mapNodes f s) p rel c).map (·.name) = (kids s p rel c).map (·.name) := by
    intro p rel c
    exact hfilter _ (fun n => by simp [hf.ref, (hf n).2.1, mapNodes])
  refine ⟨?_, ?_, ?_, ?_⟩
  · show (((s.nodes.map f).filter _).map (·.name)).Nodup
    rw [hfilter _ (fun n => by simp [(hf n).2.1])]; exact h.nodes
  · intro p hp
    obtain ⟨m, hm, rfl⟩ := List.mem_map.mp hp
    rw [hkids, hf.ref]; exact h.comps m hm
  · intro p hp
    obtain ⟨m, hm, rfl⟩ := List.mem_map.mp hp
    rw [hkids, hf.ref]; exact h.svcs m hm
  · show (((s.nodes.map f).filter _).map (·.name)).Nodup
    rw [hfilter _ (fun n => by simp [(hf n).2.1, hf.ref, hasParent, mapNodes])]; exact h.topSvcs

/-- hanging `n` under `p` does not clash with the names of `p`'s children of `n`'s class (interfaces and links are outside
the four scopes) -/
def NameFree (s : Topo) (p : Ref) (rel : Rel) (n : GNode) : Prop :=
  n.cls = .connectionPoint ∨ n.cls = .link ∨ ∀ m ∈ kids s p rel n.cls, m.name ≠ n.name

theorem kids_attach {s : Topo} (hc : ClosedOk s) {p n : GNode} {rel : Rel} (hf : ∀ m ∈ s.nodes, m.nid ≠ n.nid) (q : Ref) (rel' : Rel) (c : Cls) :
    kids (grow s [n] [⟨p.ref, n.ref, rel⟩]) q rel' c =
      kids s q rel' c ++ (if n.cls = c ∧ rel = rel' ∧ p.ref = q then [n] else []) := by
  have hne := no_edge_into_new hc hf
  unfold kids grow
  simp only [List.filter_append]
  congr 1
  · apply List.filter_congr
    intro m hm
    congr 1
    rw [List.any_append]
    have hmn : ¬ n.ref = m.ref := fun e => (ref_ne_of_fresh hf hm) e.symm
    simp [hmn]
  · have hs : s.edges.any (fun e => e.rel == rel' && e.a == q && e.b == n.ref) = false := by
      rw [List.any_eq_false]; intro e he; simp [(hne e he).2]
    by_cases h1 : n.cls = c <;> by_cases h2 : rel = rel' <;> by_cases h3 : p.ref = q <;>
      simp [List.any_append, hs, h1, h2, h3]

theorem hasParent_attach {s : Topo} {p n : GNode} {rel : Rel} (r : Ref) :
    hasParent (grow s [n] [⟨p.ref, n.ref, rel⟩]) r = (hasParent s r || (rel == .has && n.ref == r)) := by
  simp [hasParent, grow, List.any_append]

/-- a component or service hung under its container with a name none of its siblings has -/
theorem namesCore_attach {s : Topo} (hc : ClosedOk s) {p n : GNode} {rel : Rel} (hp : p ∈ s.nodes) (hf : ∀ m ∈ s.nodes, m.nid ≠ n.nid)
    (hv : nodeOk n = true) (he : edgeOk ⟨p.ref, n.ref, rel⟩ = true) (hpl : p.cls ≠ .link) (hnf : NameFree s p.ref rel n)
    (h : NamesCore s) : NamesCore (grow s [n] [⟨p.ref, n.ref, rel⟩]) := by
  by_cases hcp : n.cls = .connectionPoint
  · exact namesCore_grow_cp_link hc (extOk_attach hp hf hv he hpl) (by intro x hx; simp at hx; subst hx; exact .inl hcp) h
  by_cases hlk : n.cls = .link
  · exact namesCore_grow_cp_link hc (extOk_attach hp hf hv he hpl) (by intro x hx; simp at hx; subst hx; exact .inr hlk) h
  have hnm : ∀ m ∈ kids s p.ref rel n.cls, m.name ≠ n.name := by
    rcases hnf with h' | h' | h'
    · exact absurd h' hcp
    · exact absurd h' hlk
    · exact h'
  · -- `n` is a Component or a NetworkService under a `has` edge
    have hrel : rel = .has ∧ (n.cls = .component ∨ n.cls = .networkService) := by
      simp only [edgeOk, GNode.ref] at he
      cases hpc : p.cls <;> cases rel <;> cases hnc : n.cls <;> simp [hpc, hnc] at he hcp hlk ⊢
    obtain ⟨hrel, hncls⟩ := hrel
    subst hrel
    have hne := no_edge_into_new hc hf
    have hkn : ∀ (c : Cls), kids s n.ref .has c = [] := by
      intro c
      simp only [kids, List.filter_eq_nil_iff]
      intro m _
      have : s.edges.any (fun e => e.rel == Rel.has && e.a == n.ref && e.b == m.ref) = false := by
        rw [List.any_eq_false]; intro e he'; simp [(hne e he').1]
      simp [this]
    have hnp : n.ref ≠ p.ref := fun e => (ref_ne_of_fresh hf hp) e.symm
    have hscope : ∀ (c : Cls), (c = .component ∨ c = .networkService) → (∀ q ∈ s.nodes, ((kids s q.ref .has c).map (·.name)).Nodup) →
        ∀ q ∈ (grow s [n] [⟨p.ref, n.ref, .has⟩]).nodes, ((kids (grow s [n] [⟨p.ref, n.ref, .has⟩]) q.ref .has c).map (·.name)).Nodup := by
      intro c _ hold q hq
      rw [kids_attach hc hf]
      simp only [grow, List.mem_append, List.mem_singleton] at hq
      rcases hq with hq | rfl
      · by_cases hcase : n.cls = c ∧ Rel.has = Rel.has ∧ p.ref = q.ref
        · rw [if_pos hcase]
          simp only [List.map_append, List.map_cons, List.map_nil]
          rw [List.nodup_append]
          refine ⟨hold q hq, by simp, ?_⟩
          intro a ha b hb
          simp at hb; subst hb
          obtain ⟨m, hm, rfl⟩ := List.mem_map.mp ha
          rw [← hcase.2.2, ← hcase.1] at hm
          exact hnm m hm
        · rw [if_neg hcase, List.append_nil]; exact hold q hq
      · rw [hkn, if_neg (by intro hcase; exact hnp hcase.2.2.symm)]; simp
    refine ⟨?_, hscope _ (.inl rfl) h.comps, hscope _ (.inr rfl) h.svcs, ?_⟩
    · show (((s.nodes ++ [n]).filter _).map (·.name)).Nodup
      have : [n].filter (fun m => m.cls == Cls.networkNode) = [] := by rcases hncls with h' | h' <;> simp [h']
      rw [List.filter_append, this, List.append_nil]; exact h.nodes
    · show (((s.nodes ++ [n]).filter _).map (·.name)).Nodup
      rw [List.filter_append]
      have hn' : [n].filter (fun m => m.cls == Cls.networkService && !hasParent (grow s [n] [⟨p.ref, n.ref, .has⟩]) m.ref) = [] := by
        simp [hasParent_attach]
      rw [hn', List.append_nil]
      have : s.nodes.filter (fun m => m.cls == Cls.networkService && !hasParent (grow s [n] [⟨p.ref, n.ref, .has⟩]) m.ref) =
          s.nodes.filter (fun m => m.cls == Cls.networkService && !hasParent s m.ref) := by
        apply List.filter_congr
        intro m hm
        have hmn : (n.ref == m.ref) = false := by
          rw [beq_eq_false_iff_ne]; exact fun e => (ref_ne_of_fresh hf hm) e.symm
        simp [hasParent_attach, hmn]
      rw [this]; exact h.topSvcs

/-- an element that was just hung under its container has no children yet: anything may be hung under it -/
theorem nameFree_new_parent {s : Topo} (hc : ClosedOk s) {p n x : GNode} {rel rel' : Rel} (hp : p ∈ s.nodes)
    (hf : ∀ m ∈ s.nodes, m.nid ≠ n.nid) : NameFree (grow s [n] [⟨p.ref, n.ref, rel⟩]) n.ref rel' x := by
  refine .inr (.inr ?_)
  rw [kids_attach hc hf]
  have hne := no_edge_into_new hc hf
  have : kids s n.ref rel' x.cls = [] := by
    simp only [kids, List.filter_eq_nil_iff]
    intro m _
    have : s.edges.any (fun e => e.rel == rel' && e.a == n.ref && e.b == m.ref) = false := by
      rw [List.any_eq_false]; intro e he'; simp [(hne e he').1]
    simp [this]
  have hpn : ¬ p.ref = n.ref := ref_ne_of_fresh hf hp
  rw [this, if_neg (fun h => hpn h.2.2)]
  intro m hm; cases hm

/-- ... and so has a fresh element without edges -/
theorem nameFree_pushed_parent {s : Topo} (hc : ClosedOk s) {n x : GNode} {rel' : Rel}
    (hf : ∀ m ∈ s.nodes, m.nid ≠ n.nid) : NameFree (pushNode n s) n.ref rel' x := by
  refine .inr (.inr ?_)
  have hne := no_edge_into_new hc hf
  have : kids (pushNode n s) n.ref rel' x.cls = [] := by
    simp only [kids, List.filter_eq_nil_iff]
    intro m _
    have : (pushNode n s).edges.any (fun e => e.rel == rel' && e.a == n.ref && e.b == m.ref) = false := by
      rw [List.any_eq_false]; intro e he'; simp [(hne e he').1]
    simp [this]
  rw [this]; intro m hm; cases hm

/-! ### what the sibling-name guards of the code look at -/

theorem mapM'_mem {β γ : Type} {f : β → M Topo γ} (hf : ∀ b, ReadOnly (f b)) :
    ∀ (l : List β) (s s' : Topo) (r : List γ), M.mapM' f l s = (.ok r, s') → ∀ x ∈ l, ∀ y, f x s = (.ok y, s) → y ∈ r := by
  intro l
  induction l with
  | nil => intro s s' r _ x hx; cases hx
  | cons a l ih =>
    intro s s' r h x hx y hy
    have h' : (f a >>= fun v => M.mapM' f l >>= fun vs => Pure.pure (v :: vs)) s = (.ok r, s') := h
    obtain ⟨v, hv, h2⟩ := ro_ok_inv (hf a) h'
    obtain ⟨vs, t, hvs, h3⟩ := bind_ok_inv h2
    simp only [pure_apply', Prod.mk.injEq, Except.ok.injEq] at h3
    rw [← h3.1]
    rcases List.mem_cons.mp hx with rfl | hx'
    · rw [hv] at hy; simp only [Prod.mk.injEq, Except.ok.injEq, and_true] at hy; rw [hy]; simp
    · exact List.mem_cons_of_mem _ (ih s t vs hvs x hx' y hy)

theorem kids_sub_childrenOf {s : Topo} (hi : IdsOk s) {parent : Nid} {okCls : List Cls} {rel : Rel} {label : Cls} {comps : List GNode}
    (h : childrenOf parent okCls rel label s = (.ok comps, s)) {p : GNode} (hp : findNode parent s = (.ok p, s)) :
    ∀ m ∈ kids s p.ref rel label, m ∈ comps := by
  intro m hm
  unfold childrenOf at h
  obtain ⟨p', hp', h⟩ := ro_ok_inv (readOnly_findNode _) h
  obtain ⟨_, _, h⟩ := ro_ok_inv (readOnly_guard _ _) h
  obtain ⟨ids, hids, h⟩ := ro_ok_inv (readOnly_firstNeighbor _ _ _) h
  unfold firstNeighbor at hids
  obtain ⟨p'', hp'', hids⟩ := ro_ok_inv (readOnly_findNode _) hids
  have e2 : p'' = p := by have := hp''.symm.trans hp; simpa using this
  subst e2
  simp only [read_apply, Prod.mk.injEq, Except.ok.injEq, and_true] at hids
  have hm' := List.mem_filter.mp hm
  have hmn : m ∈ neighbors s p''.ref rel label := by
    unfold neighbors
    refine List.mem_filter.mpr ⟨hm'.1, ?_⟩
    have h2 := hm'.2
    simp only [Bool.and_eq_true, beq_iff_eq, List.any_eq_true] at h2 ⊢
    obtain ⟨hcl, e, he, hr, hb⟩ := h2
    refine ⟨hcl, ?_⟩
    unfold adjacent
    rw [List.any_eq_true]
    exact ⟨e, he, by simp [sameEnds, hr.1, hr.2, hb]⟩
  have hid : m.nid ∈ ids := by rw [← hids]; exact List.mem_map_of_mem hmn
  exact mapM'_mem (fun _ => readOnly_findNode _) ids s s comps h m.nid hid m (findNode_of_mem hi hm'.1)

/-- the guard `name not in [children names]` of add_component / add_storage / Node.add_network_service, read on `kids` -/
theorem sibling_free {s : Topo} (hi : IdsOk s) {parent : Nid} {okCls : List Cls} {rel : Rel} {label : Cls} {comps : List GNode} {name : String}
    (h : childrenOf parent okCls rel label s = (.ok comps, s)) (hg : (!(comps.map (·.name)).contains name) = true) :
    ∀ pn, findNode parent s = (.ok pn, s) → ∀ m ∈ kids s pn.ref rel label, m.name ≠ name := by
  intro pn hpn m hm hmn
  have := kids_sub_childrenOf hi h hpn m hm
  have hc : (comps.map (·.name)).contains name = true := by
    rw [List.contains_iff_mem]; exact List.mem_map.mpr ⟨m, this, hmn⟩
  rw [hc] at hg; cases hg

/-- a NetworkNode with a new name, no edges -/
theorem namesCore_pushNode {s : Topo} {n : GNode} (h : NamesCore s) (hc : ClosedOk s) (hf : ∀ m ∈ s.nodes, m.nid ≠ n.nid)
    (hv : nodeOk n = true) (hcls : n.cls = .networkNode ∨ n.cls = .networkService)
    (hname : ∀ m ∈ s.nodes, m.cls = n.cls → m.name ≠ n.name) : NamesCore (pushNode n s) := by
  rw [pushNode_eq_grow]
  have hx := extOk_push hf hv
  have hne := no_edge_into_new hc hf
  have hkids : ∀ (q : Ref) (c : Cls), kids (grow s [n] []) q .has c = kids s q .has c := by
    intro q c
    simp only [kids, grow, List.filter_append, List.append_nil]
    have : [n].filter (fun m => m.cls == c && s.edges.any (fun e => e.rel == Rel.has && e.a == q && e.b == m.ref)) = [] := by
      simp only [List.filter_eq_nil_iff, List.mem_singleton]
      intro m hm; subst hm
      have : s.edges.any (fun e => e.rel == Rel.has && e.a == q && e.b == m.ref) = false := by
        rw [List.any_eq_false]; intro e he; simp [(hne e he).2]
      simp [this]
    rw [this, List.append_nil]
  have hnew : ∀ (c : Cls), kids s n.ref .has c = [] := by
    intro c
    simp only [kids, List.filter_eq_nil_iff]
    intro m _
    have : s.edges.any (fun e => e.rel == Rel.has && e.a == n.ref && e.b == m.ref) = false := by
      rw [List.any_eq_false]; intro e he; simp [(hne e he).1]
    simp [this]
  have hhp : ∀ r, hasParent (grow s [n] []) r = hasParent s r := by intro r; simp [hasParent, grow]
  have hnp : hasParent s n.ref = false := by
    simp only [hasParent]; rw [List.any_eq_false]; intro e he; simp [(hne e he).2]
  have happ : ∀ (l : List GNode) (pr : GNode → Bool), (l.map (·.name)).Nodup → (∀ m ∈ l, m.name ≠ n.name) →
      ((l ++ [n].filter pr).map (·.name)).Nodup := by
    intro l pr hl hd
    by_cases hpn : pr n = true
    · simp only [List.filter_cons, hpn, if_true, List.filter_nil, List.map_append, List.map_cons, List.map_nil]
      rw [List.nodup_append]
      refine ⟨hl, by simp, ?_⟩
      intro a ha b hb
      simp at hb; subst hb
      obtain ⟨m, hm, rfl⟩ := List.mem_map.mp ha
      exact hd m hm
    · simp [List.filter_cons, hpn, hl]
  refine ⟨?_, ?_, ?_, ?_⟩
  · show (((s.nodes ++ [n]).filter _).map (·.name)).Nodup
    rw [List.filter_append]
    rcases hcls with hk | hk
    · refine happ _ _ h.nodes (fun m hm => ?_)
      have hm' := List.mem_filter.mp hm
      exact hname m hm'.1 (by rw [hk]; simpa using hm'.2)
    · have : [n].filter (fun m => m.cls == Cls.networkNode) = [] := by simp [hk]
      rw [this, List.append_nil]; exact h.nodes
  · intro p hp
    rw [hkids]
    simp only [grow, List.mem_append, List.mem_singleton] at hp
    rcases hp with hp | rfl
    · exact h.comps p hp
    · rw [hnew]; simp
  · intro p hp
    rw [hkids]
    simp only [grow, List.mem_append, List.mem_singleton] at hp
    rcases hp with hp | rfl
    · exact h.svcs p hp
    · rw [hnew]; simp
  · show (((s.nodes ++ [n]).filter _).map (·.name)).Nodup
    rw [List.filter_append]
    simp only [hhp]
    rcases hcls with hk | hk
    · have : [n].filter (fun m => m.cls == Cls.networkService && !hasParent s m.ref) = [] := by simp [hk]
      rw [this, List.append_nil]; exact h.topSvcs
    · refine happ _ _ h.topSvcs (fun m hm => ?_)
      have hm' := List.mem_filter.mp hm
      have : m.cls = Cls.networkService := by
        have := hm'.2; simp only [Bool.and_eq_true, beq_iff_eq] at this; exact this.1
      exact hname m hm'.1 (by rw [hk]; exact this)

end FimVerif.Topo
