import FimVerif.Model.Deleg
/-! Lemmas for the codec part of C12 (`Delegations.to_json` / `from_json`). -/
set_option linter.unusedSimpArgs false
namespace FimVerif.C12
open FimVerif.Deleg FimVerif.Gen.DelegConsts

variable {D : Type}

/-! ### facts about the generated key constants (re-checked whenever a constant changes) -/

theorem poolId_ne_pool : fieldPoolId ≠ fieldPool := by decide
theorem poolId_ne_detailsKey (ty : DType) : fieldPoolId ≠ detailsKey ty := by cases ty <;> decide
theorem pool_ne_capacities : fieldPool ≠ fieldCapacities := by decide
theorem pool_ne_labels : fieldPool ≠ fieldLabels := by decide
theorem poolId_ne_capacities : fieldPoolId ≠ fieldCapacities := by decide
theorem poolId_ne_labels : fieldPoolId ≠ fieldLabels := by decide
theorem capacities_ne_labels : fieldCapacities ≠ fieldLabels := by decide

/-! ### well-formed delegation sets (the property's quantifier) -/

/-- details that belong to type `ty`, are not empty (`to_dict` is not `None`) and survive their own
codec (`Capacities(**x.to_dict()) == x`: the C03 round trip, an explicit hypothesis here) -/
def DetOk (ops : DetailOps D) (ty : DType) (o : Option D) : Prop :=
  match o with
  | none => False
  | some x => ops.kindOf x = ty ∧
    match ops.toDict x with
    | none => False
    | some j => ops.fromDict ty j = .ok x

/-- single ⇒ details, no pool; definition ⇒ pool name, details; reference ⇒ pool name, no details.  A pool name is
never the reserved `singlePoolName`: `Delegation(...)` refuses it (`C12.reserved_name_rejected`), so the clause
excludes nothing that can be constructed. -/
def WFDeleg (ops : DetailOps D) (ty : DType) (d : Delegation D) : Prop :=
  d.ty = ty ∧
  match d.fmt with
  | .single => d.pool = none ∧ DetOk ops ty d.details
  | .definition => (match d.pool with | none => False | some p => p ≠ singlePoolName) ∧ DetOk ops ty d.details
  | .reference => (match d.pool with | none => False | some p => p ≠ singlePoolName) ∧ d.details = none

def WF (ops : DetailOps D) (ds : Delegations D) : Prop :=
  (∀ d ∈ ds.items, WFDeleg ops ds.ty d) ∧ ds.items.Pairwise (fun a b => a.id ≠ b.id)

theorem mapM_ok_of_forall {α β : Type} (f : α → Except Err β) (g : α → β) (l : List α)
    (h : ∀ a ∈ l, f a = .ok (g a)) : l.mapM f = .ok (l.map g) := by
  induction l with
  | nil => rfl
  | cons a l ih =>
    have ha := h a (by simp)
    have hl := ih (fun b hb => h b (by simp [hb]))
    simp [List.mapM_cons, ha, hl, bind, Except.bind, pure, Except.pure]

/-- the inner dictionary `to_json` writes for a well-formed delegation -/
def encPure (ops : DetailOps D) (cty : DType) (d : Delegation D) : String × JVal :=
  match d.fmt with
  | .single => (d.id, .obj [(fieldPoolId, .str singlePoolName), (detailsKey cty, (detailsDict ops d).getD .null)])
  | .definition => (d.id, .obj [(fieldPoolId, .str (d.pool.getD "")), (detailsKey cty, (detailsDict ops d).getD .null)])
  | .reference => (d.id, .obj [(fieldPool, .str (d.pool.getD ""))])

theorem encodeOne_wf (ops : DetailOps D) (ty : DType) (d : Delegation D) (h : WFDeleg ops ty d) :
    encodeOne ops ty d = .ok (encPure ops ty d) := by
  obtain ⟨ty', id, fmt, pool, details⟩ := d
  obtain ⟨hty, h⟩ := h
  cases fmt <;> simp only [WFDeleg] at h
  · -- definition
    obtain ⟨hp, hd⟩ := h
    cases pool with
    | none => simp at hp
    | some p =>
      cases details with
      | none => simp [DetOk] at hd
      | some x =>
        simp only [DetOk] at hd
        cases hx : ops.toDict x with
        | none => simp [hx] at hd
        | some j => simp [encodeOne, encPure, detailsDict, hx]
  · -- reference
    obtain ⟨hp, hd⟩ := h
    cases pool with
    | none => simp at hp
    | some p => simp [encodeOne, encPure]
  · -- single
    obtain ⟨hp, hd⟩ := h
    cases details with
    | none => simp [DetOk] at hd
    | some x =>
      simp only [DetOk] at hd
      cases hx : ops.toDict x with
      | none => simp [hx] at hd
      | some j => simp [encodeOne, encPure, detailsDict, hx]

theorem encode_wf (ops : DetailOps D) (ds : Delegations D) (h : WF ops ds) :
    encode ops ds = .ok (.obj (ds.items.map (encPure ops ds.ty))) := by
  unfold encode
  rw [mapM_ok_of_forall _ (encPure ops ds.ty) _ (fun d hd => encodeOne_wf ops ds.ty d (h.1 d hd))]
  rfl

/-- decoding the entry written for a well-formed delegation appends exactly that delegation -/
theorem decodeEntry_encPure (ops : DetailOps D) (ty : DType) (acc : Delegations D) (d : Delegation D)
    (hacc : acc.ty = ty) (h : WFDeleg ops ty d) (hfresh : hasId acc.items d.id = false) :
    decodeEntry ops ty acc (encPure ops ty d).1 (encPure ops ty d).2 = .ok { acc with items := acc.items ++ [d] } := by
  obtain ⟨ty', id, fmt, pool, details⟩ := d
  obtain ⟨hty, h⟩ := h
  simp only at hty hfresh
  subst hty
  have k1 := poolId_ne_detailsKey ty'
  have k2 := poolId_ne_pool
  have k3 := pool_ne_capacities
  have k4 := pool_ne_labels
  have c1 := poolId_ne_capacities
  have c2 := poolId_ne_labels
  have c3 := capacities_ne_labels
  cases fmt <;> simp only [WFDeleg] at h
  · obtain ⟨hp, hd⟩ := h
    cases pool with
    | none => simp at hp
    | some p =>
      cases details with
      | none => simp [DetOk] at hd
      | some x =>
        simp only [DetOk] at hd
        obtain ⟨hk, hd⟩ := hd
        cases hx : ops.toDict x with
        | none => simp [hx] at hd
        | some j =>
          simp only [hx] at hd
          simp at hp
          cases ty' <;>
          simp [decodeEntry, encPure, lookup, detailsDict, hx, k1, k1.symm, poolOf, hp, hd, mkDelegation, setDetails, hk,
            addDelegation, hacc, hfresh, bind, Except.bind, pure, Except.pure, detailsKey, c1, c2, c3, c3.symm]
  · obtain ⟨hp, hd⟩ := h
    cases pool with
    | none => simp at hp
    | some p =>
      subst hd
      simp at hp
      simp [decodeEntry, encPure, lookup, k2, k2.symm, k3, k4, poolOf, mkDelegation, addDelegation, hacc, hfresh, hp,
        bind, Except.bind, pure, Except.pure]
  · obtain ⟨hp, hd⟩ := h
    subst hp
    cases details with
    | none => simp [DetOk] at hd
    | some x =>
      simp only [DetOk] at hd
      obtain ⟨hk, hd⟩ := hd
      cases hx : ops.toDict x with
      | none => simp [hx] at hd
      | some j =>
        simp only [hx] at hd
        cases ty' <;>
        simp [decodeEntry, encPure, lookup, detailsDict, hx, k1, k1.symm, poolOf, hd, mkDelegation, setDetails, hk,
          addDelegation, hacc, hfresh, bind, Except.bind, pure, Except.pure, detailsKey, c1, c2, c3, c3.symm]

theorem decode_fold (ops : DetailOps D) (ty : DType) (items : List (Delegation D)) (acc : Delegations D)
    (hacc : acc.ty = ty) (hwf : ∀ d ∈ items, WFDeleg ops ty d)
    (hids : (acc.items ++ items).Pairwise (fun a b => a.id ≠ b.id)) :
    (items.map (encPure ops ty)).foldlM (fun ds kv => decodeEntry ops ty ds kv.1 kv.2) acc
      = .ok { acc with items := acc.items ++ items } := by
  induction items generalizing acc with
  | nil => simp [pure, Except.pure]
  | cons d items ih =>
    have hfresh : hasId acc.items d.id = false := by
      simp only [hasId, List.any_eq_false]
      intro e he
      have := (List.pairwise_append.mp hids).2.2 e he d (by simp)
      simpa using this
    rw [List.map_cons, List.foldlM_cons, decodeEntry_encPure ops ty acc d hacc (hwf d (by simp)) hfresh]
    simp only [bind, Except.bind]
    have := ih { acc with items := acc.items ++ [d] } hacc (fun e he => hwf e (by simp [he]))
      (by simpa [List.append_assoc] using hids)
    rw [this]
    simp

theorem foldlM_ok_all {α β : Type} (f : β → α → Except Err β) (l : List α) (a r : β)
    (h : l.foldlM f a = .ok r) : ∀ x ∈ l, ∃ b b', f b x = .ok b' := by
  induction l generalizing a with
  | nil => simp
  | cons y l ih =>
    rw [List.foldlM_cons] at h
    cases hy : f a y with
    | error e => simp [hy, bind, Except.bind] at h
    | ok b =>
      simp only [hy, bind, Except.bind] at h
      intro x hx
      rcases List.mem_cons.mp hx with rfl | hx
      · exact ⟨a, b, hy⟩
      · exact ih b h x hx

/-- the tail of a definition / single branch of `from_json`: `Delegation(...)`, `set_details`, `add_delegations` - when it
succeeds it appends one delegation carrying exactly the format and pool name it was given -/
theorem build_tail_ok (ops : DetailOps D) (ty : DType) (k : String) (fmt : Fmt) (pool : Option String) (x : D)
    (ds ds' : Delegations D)
    (h : (mkDelegation ty k fmt pool >>= fun d => setDetails ops d x >>= fun d => addDelegation ds d) = .ok ds') :
    ∃ d, ds'.items = ds.items ++ [d] ∧ d.id = k ∧ d.fmt = fmt ∧ d.pool = pool := by
  cases hm : (mkDelegation ty k fmt pool : Except Err (Delegation D)) with
  | error err => simp [hm, bind, Except.bind] at h
  | ok d0 =>
    have hc : d0.fmt = fmt ∧ d0.pool = pool ∧ d0.id = k := by
      unfold mkDelegation at hm
      split at hm
      · cases hm
      · split at hm
        · cases hm
        · injection hm with hm; subst hm; exact ⟨rfl, rfl, rfl⟩
    simp only [hm, bind, Except.bind] at h
    cases hs : setDetails ops d0 x with
    | error err => simp [hs] at h
    | ok d1 =>
      simp only [hs] at h
      have hd1 : d1.id = d0.id ∧ d1.fmt = d0.fmt ∧ d1.pool = d0.pool := by
        unfold setDetails at hs
        split at hs
        · cases hs
        · split at hs
          · cases hs
          · injection hs with hs; subst hs; exact ⟨rfl, rfl, rfl⟩
      unfold addDelegation at h
      split at h
      · cases h
      · split at h
        · cases h
        · injection h with h; subst h
          exact ⟨d1, rfl, hd1.1.trans hc.2.2, hd1.2.1.trans hc.1, hd1.2.2.trans hc.2.1⟩


end FimVerif.C12
