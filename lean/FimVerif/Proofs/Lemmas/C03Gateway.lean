import FimVerif.Proofs.Lemmas.C03Class
import FimVerif.Generated.Fields
/-! Helper lemmas for the Gateway round trip of C03: a gateway is `defaults` with two or three fields assigned. -/
namespace FimVerif.C03
open FimVerif FimVerif.Codec JVal
open Gen.Fields

theorem wellTyped_defaults (c : ClassSpec) (valid) (hn : (names c).Nodup)
    (hd : ∀ f ∈ c.fields, dropped c.drop f.dflt f.dflt = true) : WellTyped c valid (defaults c) :=
  ⟨fun f hf => Or.inl ⟨dfltOf_field c hn f hf, hd f hf⟩, fun k hk => dfltOf_not_mem c k hk⟩

theorem wellTyped_setF (c : ClassSpec) (valid) (x : Fields) (hx : WellTyped c valid x) (k : String) (v : JVal)
    (hk : k ∈ names c) (hv : inDomain c.guard v = true ∧ valid k v = true) : WellTyped c valid (setF x k v) := by
  constructor
  · intro f hf
    by_cases h : f.name = k
    · right; simp only [setF, h, if_true]; exact hv
    · simp only [setF, h, if_false]; exact hx.1 f hf
  · intro k' hk'
    have : k' ≠ k := by rintro rfl; exact hk' hk
    simp only [setF, this, if_false]; exact hx.2 k' hk'

/-- the labels a Gateway keeps: the (a, b) pair of `l` and its mac if set -/
def gwPick (a b : String) (l : Fields) : Fields :=
  let g := setF (setF (defaults labels) a (l a)) b (l b)
  if isSet (l "mac") then setF g "mac" (l "mac") else g

theorem construct_pair (valid : String → JVal → Bool) (a b : String) (va vb : JVal)
    (ha : a ∈ names labels) (hb : b ∈ names labels)
    (hva : inDomain labels.guard va = true ∧ valid a va = true) (hvb : inDomain labels.guard vb = true ∧ valid b vb = true) :
    construct labels valid [(a, va), (b, vb)] = .ok (setF (setF (defaults labels) a va) b vb) := by
  have ga := guard_of_inDomain _ _ hva.1
  have gb := guard_of_inDomain _ _ hvb.1
  have ca : (names labels).contains a = true := by simpa using ha
  have cb : (names labels).contains b = true := by simpa using hb
  simp only [construct, setFields, ga, gb, ca, cb, hva.2, hvb.2, if_true]

theorem labels_field_set (valid) (l : Fields) (hl : WellTyped labels valid l) (a : String)
    (ha : a ∈ names labels) (hs : isSet (l a) = true) :
    inDomain labels.guard (l a) = true ∧ valid a (l a) = true := by
  obtain ⟨f, hf, rfl⟩ := List.mem_map.1 ha
  have hd : f.dflt = .null := (by decide : ∀ f ∈ labels.fields, f.dflt = JVal.null) f hf
  rcases hl.1 f hf with ⟨he, _⟩ | h
  · rw [he, hd] at hs; simp [isSet, isNull] at hs
  · exact h

theorem gwPick_wellTyped (valid) (a b : String) (l : Fields) (hl : WellTyped labels valid l)
    (ha : a ∈ names labels) (hb : b ∈ names labels)
    (hsa : isSet (l a) = true) (hsb : isSet (l b) = true) : WellTyped labels valid (gwPick a b l) := by
  have w0 := wellTyped_defaults labels valid (by decide) (by decide)
  have w1 := wellTyped_setF labels valid _ w0 a (l a) ha (labels_field_set valid l hl a ha hsa)
  have w2 := wellTyped_setF labels valid _ w1 b (l b) hb (labels_field_set valid l hl b hb hsb)
  unfold gwPick
  split
  · rename_i hm
    exact wellTyped_setF labels valid _ w2 "mac" (l "mac") (by decide) (labels_field_set valid l hl "mac" (by decide) hm)
  · exact w2


/-- what `Gateway(lab)` does when the (a, b) pair of `l` is the one it keeps -/
theorem gatewayKeep (valid) (a b : String) (l : Fields) (hl : WellTyped labels valid l)
    (ha : a ∈ names labels) (hb : b ∈ names labels) (hsa : isSet (l a) = true) (hsb : isSet (l b) = true) :
    gwFinish l (construct labels valid [(a, l a), (b, l b)]) = .ok (some (gwPick a b l)) := by
  rw [construct_pair valid a b _ _ ha hb (labels_field_set valid l hl a ha hsa) (labels_field_set valid l hl b hb hsb)]
  unfold gwPick gwFinish
  cases hm : isSet (l "mac") <;> simp

theorem gwPick_values (a b : String) (l : Fields) (hab : a ≠ b) (ham : a ≠ "mac") (hbm : b ≠ "mac")
    (hdm : defaults labels "mac" = .null) :
    gwPick a b l a = l a ∧ gwPick a b l b = l b ∧ isSet (gwPick a b l "mac") = isSet (l "mac") ∧
    (isSet (l "mac") = true → gwPick a b l "mac" = l "mac") ∧
    (∀ k, k ≠ a → k ≠ b → k ≠ "mac" → gwPick a b l k = defaults labels k) := by
  unfold gwPick
  cases hm : isSet (l "mac")
  · have hma : ("mac" : String) ≠ a := fun e => ham e.symm
    have hmb : ("mac" : String) ≠ b := fun e => hbm e.symm
    simp [setF, hab, hma, hmb, hdm, isSet, isNull]
    intro k h1 h2 _; simp [h1, h2]
  · have hma : ("mac" : String) ≠ a := fun e => ham e.symm
    simp [setF, hab, ham, hbm, hm]
    intro k h1 h2 h3; simp [h1, h2, h3]

/-- re-applying the constructor to a gateway's own labels gives the same labels -/
theorem gwPick_idem (a b : String) (l : Fields) (hab : a ≠ b) (ham : a ≠ "mac") (hbm : b ≠ "mac")
    (hdm : defaults labels "mac" = .null) : gwPick a b (gwPick a b l) = gwPick a b l := by
  have hma : ("mac" : String) ≠ a := fun e => ham e.symm
  have hmb : ("mac" : String) ≠ b := fun e => hbm e.symm
  cases hm : isSet (l "mac")
  · have hG : gwPick a b l = setF (setF (defaults labels) a (l a)) b (l b) := by simp [gwPick, hm]
    rw [hG]
    unfold gwPick
    simp [setF, hab, hma, hmb, hdm, isSet, isNull]
  · have hG : gwPick a b l = setF (setF (setF (defaults labels) a (l a)) b (l b)) "mac" (l "mac") := by simp [gwPick, hm]
    rw [hG]
    unfold gwPick
    simp [setF, hab, ham, hbm, hm]

end FimVerif.C03
