import FimVerif.Proofs.Lemmas.C20Lock
import FimVerif.Proofs.Lemmas.C20Sched
/-!
C20, wave 3: (1) what each micro-instruction consists of below the source line (`FineM`) and that the discipline
monitor accepts the expanded programs; (2) the ledger of insertions and deletions along a schedule; (3) instantiating the
symbolic parameters of a skeleton does not change what it does to the lock.
-/
namespace FimVerif.Sched
open FimVerif.Lock

/-! ## 1. atomicity

What is assumed atomic is one *atom*: one attribute load / store or one dictionary primitive (lookup, insertion of one key,
deletion of one key, `clear`) — the unit CPython executes without releasing the GIL, and the unit the harness's probes
observe.  `FineM m l`: the micro-instruction `m` (one source line, or one access of a line) is the sequence of atoms `l`.

| micro                 | atoms                                                                                   |
|-----------------------|-----------------------------------------------------------------------------------------|
| `acq`, `rel`          | one (`Lock.acquire` blocks until the lock is free and takes it in one step)             |
| `loc`, `rdg`          | no effect on the modelled state: any number of steps, none visible                     |
| `read c`              | one load                                                                                |
| `bump c k`            | `ld c ; st c k`  — load into the second register, store `tmp + k`                       |
| `bumpReg c k`, `setCtr c v` | one store (the value comes from registers / from reads that were made before)     |
| `add c g k`  (k ≥ 1)  | `ins c g 0 ; … ; ins c g (k-1)` — one dictionary insertion per node                    |
| `addFrom c g lo k` (k ≥ 1) | `addFrom c g lo 1 ; … ; addFrom c g (lo+k-1) 1`                                    |
| `del g`               | any number of single deletions `rmOne g`, then the rest (`remove_nodes_from` over the hits) |
| `delSpace c`, `delAll`| one `dict.clear` / one replacement of a dictionary entry                                |
| `ctor w`, `reinit`    | one step (the assignment that publishes the new store / lock object)                   |
-/
inductive FineM : Micro → List Micro → Prop where
  | same (m : Micro) : FineM m [m]
  | bump (c k : Nat) : FineM (.bump c k) [.ld c, .st c k]
  | add (c g k : Nat) : 0 < k → FineM (.add c g k) ((List.range k).map (Micro.ins c g))
  | addFrom (c g lo k : Nat) : 0 < k → FineM (.addFrom c g lo k) ((List.range k).map fun i => Micro.addFrom c g (lo + i) 1)
  | del (g n : Nat) : FineM (.del g) (List.replicate n (.rmOne g) ++ [.del g])

/-- a program and one of its expansions into atoms -/
inductive Fine : List Micro → List Micro → Prop where
  | nil : Fine [] []
  | cons {m l p p'} : FineM m l → Fine p p' → Fine (m :: p) (l ++ p')

theorem fine_refl : ∀ p : List Micro, Fine p p
  | [] => .nil
  | m :: p => by simpa using Fine.cons (FineM.same m) (fine_refl p)

private theorem run_ins_rdA (c g : Nat) : ∀ (n j : Nat), 0 < j →
    runQ discStep (.rdA c j) ((List.range' j n).map (Micro.ins c g)) = .rdA c (j + n) := by
  intro n
  induction n with
  | zero => intro j _; rfl
  | succ n ih =>
    intro j hj
    rw [List.range'_succ, List.map_cons, runQ_cons]
    simp only [discStep, and_self, if_true]
    rw [ih (j + 1) (by omega)]
    congr 1; omega

private theorem run_ins_rdBp (c g k : Nat) : ∀ (n i : Nat), 0 < i → i + n = k → 0 < n →
    runQ discStep (.rdBp c k i) ((List.range' i n).map (Micro.ins c g)) = .idle := by
  intro n
  induction n with
  | zero => intro i _ _ h; omega
  | succ n ih =>
    intro i hi hk _
    rw [List.range'_succ, List.map_cons, runQ_cons]
    have hik : i < k := by omega
    simp only [discStep, true_and, hik, if_true]
    by_cases hn : n = 0
    · subst hn
      have : i + 1 = k := by omega
      simp [this]
    · have : i + 1 ≠ k := by omega
      simp only [this, if_false]
      exact ih (i + 1) (by omega) (by omega) (by omega)

private theorem run_addFrom_fil (c g lo : Nat) : ∀ (n j : Nat),
    runQ discStep (.fil c (lo + j)) ((List.range' j n).map fun i => Micro.addFrom c g (lo + i) 1) = .fil c (lo + j + n) := by
  intro n
  induction n with
  | zero => intro j; rfl
  | succ n ih =>
    intro j
    rw [List.range'_succ, List.map_cons, runQ_cons]
    simp only [discStep, true_and, Nat.le_refl, if_true]
    rw [show lo + j + 1 = lo + (j + 1) by omega, ih (j + 1)]
    congr 1; omega

private theorem run_rmOne (g : Nat) : ∀ n, runQ discStep .idle (List.replicate n (.rmOne g)) = .idle := by
  intro n
  induction n with
  | zero => rfl
  | succ n ih => rw [List.replicate_succ, runQ_cons]; simpa [discStep] using ih

/-- the monitor reaches the same state over the atoms of an instruction as over the instruction itself -/
theorem fineM_step {m : Micro} {l : List Micro} (hf : FineM m l) (q : DQ) (hb : discStep q m ≠ .bad) :
    runQ discStep q l = discStep q m := by
  cases hf with
  | same => rfl
  | bump c k =>
    cases q <;> simp only [discStep, ne_eq, not_true_eq_false, runQ_cons, runQ_nil] at hb ⊢
    case rd c0 => split at hb <;> simp_all
    case rdA c0 k0 => split at hb <;> simp_all
  | add c g k hk =>
    cases q <;> simp only [discStep, ne_eq, not_true_eq_false] at hb ⊢
    case rd c0 =>
      split at hb
      · rename_i e; subst e
        obtain ⟨n, rfl⟩ : ∃ n, k = n + 1 := ⟨k - 1, by omega⟩
        rw [List.range_eq_range', List.range'_succ, List.map_cons, runQ_cons]
        simp only [discStep, and_self, if_true]
        rw [show (0 + 1 : Nat) = 1 from rfl, run_ins_rdA c g n 1 (by omega)]
        congr 1; omega
      · exact absurd rfl hb
    case rdB c0 k0 =>
      split at hb
      · rename_i e; obtain ⟨e1, e2⟩ := e; subst e1; subst e2
        obtain ⟨n, rfl⟩ : ∃ n, k = n + 1 := ⟨k - 1, by omega⟩
        rw [List.range_eq_range', List.range'_succ, List.map_cons, runQ_cons]
        simp only [discStep, true_and, Nat.zero_lt_succ, if_true, and_self]
        by_cases hn : n = 0
        · subst hn; rfl
        · have : n + 1 ≠ 1 := by omega
          simp only [this, if_false]
          exact run_ins_rdBp c g (n + 1) n 1 (by omega) (by omega) (by omega)
      · exact absurd rfl hb
  | addFrom c g lo k hk =>
    cases q <;> simp only [discStep, ne_eq, not_true_eq_false] at hb ⊢
    case clr c0 =>
      split at hb
      · rename_i e; subst e
        obtain ⟨n, rfl⟩ : ∃ n, k = n + 1 := ⟨k - 1, by omega⟩
        rw [List.range_eq_range', List.range'_succ, List.map_cons, runQ_cons]
        simp only [discStep, if_true, Nat.add_zero]
        have := run_addFrom_fil c g lo n 1
        rw [show (0 + 1 : Nat) = 1 from rfl, this]
        congr 1; omega
      · exact absurd rfl hb
    case fil c0 n0 =>
      split at hb
      · rename_i e; obtain ⟨e1, e2⟩ := e; subst e1
        obtain ⟨n, rfl⟩ : ∃ n, k = n + 1 := ⟨k - 1, by omega⟩
        rw [List.range_eq_range', List.range'_succ, List.map_cons, runQ_cons]
        simp only [discStep, true_and, Nat.add_zero, e2, if_true]
        have := run_addFrom_fil c g lo n 1
        rw [show (0 + 1 : Nat) = 1 from rfl, this]
        congr 1; omega
      · exact absurd rfl hb
  | del g n =>
    cases q <;> simp only [discStep, ne_eq, not_true_eq_false] at hb ⊢
    case idle => rw [runQ_append, run_rmOne]; rfl

theorem fine_runQ {p p' : List Micro} (hf : Fine p p') : ∀ q, runQ discStep q p ≠ .bad → runQ discStep q p' = runQ discStep q p := by
  induction hf with
  | nil => intro q _; rfl
  | @cons m l p p' hm _ ih =>
    intro q hq
    rw [runQ_cons] at hq
    have hb : discStep q m ≠ .bad := fun e => by rw [e, runQ_bad] at hq; exact hq rfl
    rw [runQ_append, fineM_step hm q hb, runQ_cons]
    exact ih _ hq

/-- **the discipline monitor accepts every expansion into atoms of a program it accepts** -/
theorem fine_accepts {p p' : List Micro} (hf : Fine p p') (h : accepts p = true) : accepts p' = true := by
  simp only [accepts, beq_iff_eq] at h ⊢
  rw [fine_runQ hf .out (by rw [h]; simp), h]

/-! ## 2. the ledger of a schedule -/

/-- the micro-instructions executed along a schedule, in the order in which they were executed -/
def trace : List Nat → Sys → List Micro
  | [], _ => []
  | t :: ts, s =>
    match step t s with
    | none => trace ts s
    | some s' => (match (s.thr t).prog with | m :: _ => [m] | [] => []) ++ trace ts s'

/-- number of nodes of id space `c` owned by `g` that the store should hold: what was inserted since the last deletion that
covered them.  Defined from the executed instructions alone (not from the node list). -/
def ledgerStep (c g : Nat) (n : Nat) : Micro → Nat
  | .add c' g' k => if c' = c ∧ g' = g then n + k else n
  | .addFrom c' g' _ k => if c' = c ∧ g' = g then n + k else n
  | .ins c' g' _ => if c' = c ∧ g' = g then n + 1 else n
  | .del g' => if g' = g then 0 else n
  | .delSpace c' => if c' = c then 0 else n
  | .delAll => 0
  | .reinit => 0
  | _ => n

def ledger (c g : Nat) (tr : List Micro) : Nat := tr.foldl (ledgerStep c g) 0

def cntCG (c g : Nat) (l : List Node) : Nat := (l.filter fun n => n.space == c && n.owner == g).length

/-- single-node deletions are the one instruction whose effect on the count cannot be read off the instruction -/
def noRm : Micro → Bool
  | .rmOne _ => false
  | _ => true

theorem cntCG_addIds (c g c' g' : Nat) : ∀ (k lo : Nat) (l : List Node),
    cntCG c g (addIds c' g' lo k l) = (if c' = c ∧ g' = g then k else 0) + cntCG c g l := by
  intro k
  induction k with
  | zero => intro lo l; simp [addIds]
  | succ k ih =>
    intro lo l
    rw [addIds, ih]
    by_cases e : c' = c ∧ g' = g
    · simp [e, cntCG]; omega
    · simp only [e, if_false, Nat.zero_add, cntCG]
      have : ((c' == c) && (g' == g)) = false := by
        simp only [Bool.and_eq_false_iff, beq_eq_false_iff_ne, ne_eq]
        by_cases h1 : c' = c
        · exact Or.inr (fun h2 => e ⟨h1, h2⟩)
        · exact Or.inl h1
      simp [List.filter_cons, this]

theorem cntCG_filter_owner (c g g' : Nat) (l : List Node) :
    cntCG c g (l.filter fun n => n.owner != g') = if g' = g then 0 else cntCG c g l := by
  unfold cntCG
  rw [List.filter_filter]
  split
  · rename_i e; subst e
    rw [List.length_eq_zero_iff, List.filter_eq_nil_iff]
    intro n _
    by_cases h : n.owner = g' <;> simp [h]
  · rename_i e
    congr 1
    apply List.filter_congr
    intro n _
    by_cases h : n.owner = g
    · have h1 : g ≠ g' := fun h' => e h'.symm
      simp [h, h1]
    · simp [h]

theorem cntCG_filter_space (c g c' : Nat) (l : List Node) :
    cntCG c g (l.filter fun n => n.space != c') = if c' = c then 0 else cntCG c g l := by
  unfold cntCG
  rw [List.filter_filter]
  split
  · rename_i e; subst e
    rw [List.length_eq_zero_iff, List.filter_eq_nil_iff]
    intro n _
    by_cases h : n.space = c' <;> simp [h]
  · rename_i e
    congr 1
    apply List.filter_congr
    intro n _
    by_cases h : n.space = c
    · have h1 : c ≠ c' := fun h' => e h'.symm
      simp [h, h1]
    · simp [h]

/-- the count of live nodes follows the ledger, instruction by instruction (no hypothesis on the program) -/
theorem effectT_ledger (c g : Nat) (m : Micro) (reg tmp : Nat) (sh : Shared) (hm : noRm m = true) :
    cntCG c g (effectT m reg tmp sh).1.nodes = ledgerStep c g (cntCG c g sh.nodes) m := by
  cases m <;> simp only [effectT, effect, ledgerStep, noRm] at hm ⊢
  case add c' g' k => rw [cntCG_addIds]; split <;> omega
  case addFrom c' g' lo k => rw [cntCG_addIds]; split <;> omega
  case ins c' g' off => rw [cntCG_addIds]; split <;> omega
  case del g' => exact cntCG_filter_owner c g g' sh.nodes
  case delSpace c' => exact cntCG_filter_space c g c' sh.nodes
  case delAll => rfl
  case reinit => rfl
  case ctor w =>
    split
    · rename_i h
      simp only [Bool.and_eq_true, List.isEmpty_iff] at h
      simp [h.2, cntCG]
    · rfl
  case rmOne => cases hm

theorem run_ledger (c g : Nat) (sched : List Nat) : ∀ (s : Sys), (∀ t, ∀ m ∈ (s.thr t).prog, noRm m = true) →
    cntCG c g (run sched s).sh.nodes = (trace sched s).foldl (ledgerStep c g) (cntCG c g s.sh.nodes) := by
  induction sched with
  | nil => intro s _; rfl
  | cons t ts ih =>
    intro s hs
    simp only [run, trace]
    cases hst : step t s with
    | none => exact ih s hs
    | some s' =>
      simp only
      unfold step at hst
      split at hst
      · cases hst
      · rename_i m rest hp
        have hm : noRm m = true := hs t m (by rw [hp]; simp)
        have hrest : ∀ r r' : Nat, ∀ u, ∀ x ∈ ((upd s.thr t ⟨rest, r, r'⟩) u).prog, noRm x = true := by
          intro r r' u x hx
          by_cases e : u = t
          · subst e; simp at hx; exact hs u x (by rw [hp]; simp [hx])
          · simp [e] at hx; exact hs u x hx
        simp only [hp, List.singleton_append, List.foldl_cons]
        split at hst
        · rename_i e; subst e
          split at hst
          · cases hst; rw [ih _ (hrest _ _)]; rfl
          · cases hst
        · split at hst
          · rename_i e; subst e
            split at hst <;> cases hst <;> (rw [ih _ (hrest _ _)]; rfl)
          · cases hst
            rw [ih _ (hrest _ _)]
            simp only
            rw [effectT_ledger c g m _ _ _ hm]

theorem ledger_append_reset (c g : Nat) (a b : List Micro) (m : Micro) (h : ∀ n, ledgerStep c g n m = 0) :
    ledger c g (a ++ m :: b) = ledger c g b := by
  unfold ledger
  rw [List.foldl_append, List.foldl_cons, h]

/-! ## 3. instantiation and the lock -/

theorem lockStep_inst (g k cap : Nat) (q : LockSt) (m : Micro) : lockStep cap q (instMicro g k m) = lockStep cap q m := by
  have nonlock : ∀ m : Micro, m ≠ .acq → m ≠ .rel → lockStep cap q m = q := by
    intro m h1 h2
    cases q with
    | none => cases m <;> rfl
    | some x => obtain ⟨h, n⟩ := x; cases m <;> first | rfl | exact absurd rfl h1 | exact absurd rfl h2
  cases m <;> first
    | rfl
    | (simp only [instMicro]; split <;> rw [nonlock _ (by simp) (by simp), nonlock _ (by simp) (by simp)])
    | (simp only [instMicro]; rw [nonlock _ (by simp) (by simp), nonlock _ (by simp) (by simp)])

end FimVerif.Sched

namespace FimVerif.Lock

theorem map_lockStep_inst (g k cap : Nat) (m : Micro) (S : List LockSt) :
    S.map (lockStep cap · (instMicro g k m)) = S.map (lockStep cap · m) := by
  apply List.map_congr_left
  intro q _
  exact FimVerif.Sched.lockStep_inst g k cap q m

/-- the lock monitor does not see the parameters: the interpreter gives the same answer on an instantiated skeleton -/
theorem ai_inst (g k cap : Nat) : ∀ (s : Stmt) (S : List LockSt), ai (lockStep cap) (instStmt g k s) S = ai (lockStep cap) s S := by
  intro s
  induction s with
  | skip => intro S; rfl
  | prim m b => intro S; simp only [instStmt, ai, map_lockStep_inst]
  | ret => intro S; rfl
  | raise => intro S; rfl
  | seq a b iha ihb => intro S; simp only [instStmt, ai, iha, ihb]
  | ite a b iha ihb => intro S; simp only [instStmt, ai, iha, ihb]
  | loop b ih =>
    intro S
    simp only [instStmt, ai]
    have : (fun X => (ai (lockStep cap) (instStmt g k b) X).map (·.norm)) = (fun X => (ai (lockStep cap) b X).map (·.norm)) := by
      funext X; rw [ih]
    rw [this]
    simp only [ih]
  | tryFinally b f ihb ihf => intro S; simp only [instStmt, ai, ihb, ihf]
  | tryExcept b h ihb ihh => intro S; simp only [instStmt, ai, ihb, ihh]
  | call b ih => intro S; simp only [instStmt, ai, ih]

theorem balanced_inst (g k : Nat) (s : Stmt) : balanced (instStmt g k s) = balanced s := by
  simp only [balanced, allExits, ai_inst]

end FimVerif.Lock
