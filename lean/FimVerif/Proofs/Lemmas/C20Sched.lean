import FimVerif.Model.Sched
/-! Invariant of the interleaving model: mutual exclusion + per-idiom allocation invariants. -/
namespace FimVerif.Sched
open FimVerif.Lock

def keys (l : List Node) : List (Nat × Nat) := l.map Node.key

/-- keys distinct; ids of space `c` below `b`; ids of the other spaces below their counter -/
structure Bnd (sh : Shared) (c b : Nat) : Prop where
  nodup : (keys sh.nodes).Nodup
  own : ∀ n ∈ sh.nodes, n.space = c → n.id < b
  oth : ∀ n ∈ sh.nodes, n.space ≠ c → n.id < sh.ctr n.space

/-- the sequential invariant of a store: live ids are distinct and below the counter of their space -/
def IdsOk (sh : Shared) : Prop := (keys sh.nodes).Nodup ∧ ∀ n ∈ sh.nodes, n.id < sh.ctr n.space

theorem IdsOk.bnd {sh : Shared} (h : IdsOk sh) (c : Nat) : Bnd sh c (sh.ctr c) :=
  ⟨h.1, fun n hn hc => hc ▸ h.2 n hn, fun n hn _ => h.2 n hn⟩

theorem Bnd.idsOk {sh : Shared} {c b : Nat} (h : Bnd sh c b) (hb : b ≤ sh.ctr c) : IdsOk sh :=
  ⟨h.nodup, fun n hn => by
    by_cases hc : n.space = c
    · have := h.own n hn hc; rw [hc]; omega
    · exact h.oth n hn hc⟩

theorem keys_filter_nodup {l : List Node} (p : Node → Bool) (h : (keys l).Nodup) : (keys (l.filter p)).Nodup := by
  unfold keys at *
  exact List.Nodup.sublist (List.Sublist.map _ List.filter_sublist) h

/-- inserting `k` fresh ids starting at `lo` above everything present in space `c` -/
theorem addIds_spec (c g : Nat) : ∀ (k lo : Nat) (l : List Node), (keys l).Nodup → (∀ n ∈ l, n.space = c → n.id < lo) →
    (keys (addIds c g lo k l)).Nodup ∧ (∀ n ∈ addIds c g lo k l, n.space = c → n.id < lo + k) ∧
    (∀ n ∈ addIds c g lo k l, n.space ≠ c → n ∈ l) := by
  intro k
  induction k with
  | zero => intro lo l h1 h2; exact ⟨h1, fun n hn hc => by simpa using h2 n hn hc, fun n hn _ => hn⟩
  | succ k ih =>
    intro lo l h1 h2
    have hnew : (keys (⟨c, lo, g⟩ :: l)).Nodup := by
      simp only [keys, List.map_cons, List.nodup_cons]
      refine ⟨?_, h1⟩
      intro hm
      obtain ⟨n, hn, hk⟩ := List.mem_map.mp hm
      simp only [Node.key, Prod.mk.injEq] at hk
      have := h2 n hn hk.1
      omega
    have hlo : ∀ n ∈ (⟨c, lo, g⟩ :: l : List Node), n.space = c → n.id < lo + 1 := by
      intro n hn hc
      cases List.mem_cons.mp hn with
      | inl h => subst h; simp
      | inr h => have := h2 n h hc; omega
    obtain ⟨a, b, d⟩ := ih (lo + 1) (⟨c, lo, g⟩ :: l) hnew hlo
    refine ⟨a, fun n hn hc => by have := b n hn hc; omega, fun n hn hc => ?_⟩
    cases List.mem_cons.mp (d n hn hc) with
    | inl h => subst h; exact absurd rfl hc
    | inr h => exact h

/-- what the holder of the lock knows about the shared state, by monitor state -/
def QInv (q : DQ) (reg tmp : Nat) (sh : Shared) : Prop :=
  match q with
  | .out => True
  | .idle => IdsOk sh
  | .rd c => IdsOk sh ∧ reg = sh.ctr c
  | .rdB c k => Bnd sh c reg ∧ reg + k ≤ sh.ctr c
  | .rdA c k => Bnd sh c (reg + k) ∧ reg = sh.ctr c
  | .clr c => Bnd sh c 0
  | .fil c n => Bnd sh c n
  | .rdl c => IdsOk sh ∧ reg = sh.ctr c ∧ tmp = sh.ctr c
  | .rdAl c k => Bnd sh c (reg + k) ∧ reg = sh.ctr c ∧ tmp = sh.ctr c
  | .rdBp c k i => Bnd sh c (reg + i) ∧ reg + k ≤ sh.ctr c ∧ i ≤ k
  | .bad => False

theorem QInv.nodup {q : DQ} {reg tmp : Nat} {sh : Shared} (h : QInv q reg tmp sh) (hq : q ≠ .out) : (keys sh.nodes).Nodup := by
  cases q <;> simp only [QInv] at h
  case out => exact absurd rfl hq
  case idle => exact h.1
  case rd => exact h.1.1
  case rdB => exact h.1.nodup
  case rdA => exact h.1.nodup
  case clr => exact h.nodup
  case fil => exact h.nodup
  case rdl => exact h.1.1
  case rdAl => exact h.1.nodup
  case rdBp => exact h.1.nodup

/-- releasing is only accepted in states where the sequential invariant holds again -/
theorem QInv.release {q : DQ} {reg tmp : Nat} {sh : Shared} (h : QInv q reg tmp sh) (hq : q ≠ .out)
    (hr : discStep q .rel ≠ .bad) : discStep q .rel = .out ∧ IdsOk sh := by
  cases q <;> simp only [QInv, discStep] at h hr ⊢
  case out => exact absurd rfl hq
  case idle => exact ⟨trivial, h⟩
  case rd => exact ⟨trivial, h.1⟩
  case rdB => exact ⟨trivial, h.1.idsOk (by omega)⟩
  case rdA => exact absurd rfl hr
  case clr => exact ⟨trivial, h.idsOk (by omega)⟩
  case fil => exact absurd rfl hr
  case rdl => exact absurd rfl hr
  case rdAl => exact absurd rfl hr
  case rdBp => exact ⟨trivial, h.1.idsOk (by omega)⟩

theorem bnd_filter {sh : Shared} {c b : Nat} (p : Node → Bool) (h : Bnd sh c b) :
    Bnd { sh with nodes := sh.nodes.filter p } c b :=
  ⟨keys_filter_nodup p h.nodup, fun n hn => h.own n (List.mem_filter.mp hn).1, fun n hn => h.oth n (List.mem_filter.mp hn).1⟩

theorem idsOk_filter {sh : Shared} (p : Node → Bool) (h : IdsOk sh) : IdsOk { sh with nodes := sh.nodes.filter p } :=
  ⟨keys_filter_nodup p h.1, fun n hn => h.2 n (List.mem_filter.mp hn).1⟩

theorem bnd_add {sh : Shared} {c b : Nat} (g lo k : Nat) (h : Bnd sh c b) (hlo : b ≤ lo) :
    Bnd { sh with nodes := addIds c g lo k sh.nodes } c (lo + k) := by
  obtain ⟨a, b', d⟩ := addIds_spec c g k lo sh.nodes h.nodup (fun n hn hc => by have := h.own n hn hc; omega)
  exact ⟨a, b', fun n hn hc => h.oth n (d n hn hc) hc⟩

theorem effectT_old {m : Micro} (h1 : ∀ c, m ≠ .ld c) (h2 : ∀ c k, m ≠ .st c k) (reg tmp : Nat) (sh : Shared) :
    effectT m reg tmp sh = ((effect m reg sh).1, (effect m reg sh).2, tmp) := by
  cases m <;> first | rfl | (exact absurd rfl (h1 _)) | (exact absurd rfl (h2 _ _))

theorem QInv.step {q : DQ} {reg tmp : Nat} {sh : Shared} {m : Micro} (h : QInv q reg tmp sh) (hq : q ≠ .out)
    (hm1 : m ≠ .acq) (hm2 : m ≠ .rel) (hb : discStep q m ≠ .bad) :
    QInv (discStep q m) (effectT m reg tmp sh).2.1 (effectT m reg tmp sh).2.2 (effectT m reg tmp sh).1 ∧ discStep q m ≠ .out := by
  cases q <;> cases m <;>
    simp only [discStep, ne_eq, not_true_eq_false, reduceCtorEq, not_false_eq_true, effectT, effect] at hb hq hm1 hm2 ⊢
  all_goals first
    | (exact ⟨h, trivial⟩)
    | skip
  case idle.read c => exact ⟨⟨h, rfl⟩, trivial⟩
  case idle.del g => exact ⟨idsOk_filter _ h, trivial⟩
  case idle.delAll => exact ⟨⟨List.nodup_nil, fun n hn => by cases hn⟩, trivial⟩
  case idle.delSpace c =>
    refine ⟨⟨keys_filter_nodup _ h.1, fun n hn hc => ?_, fun n hn _ => h.2 n (List.mem_filter.mp hn).1⟩, trivial⟩
    have := (List.mem_filter.mp hn).2
    simp [hc] at this
  case idle.rmOne g =>
    refine ⟨⟨?_, fun n hn => h.2 n (List.mem_of_mem_eraseP hn)⟩, trivial⟩
    unfold keys at *
    exact List.Nodup.sublist (List.Sublist.map _ List.eraseP_sublist) h.1
  case rd.read c c' =>
    split at hb
    · rename_i e; subst e; simp only [if_true]; exact ⟨⟨h.1, rfl⟩, by simp⟩
    · exact absurd rfl hb
  case rd.bump c c' k =>
    split at hb
    · rename_i e; subst e; simp only [if_true, QInv]
      obtain ⟨h1, h2⟩ := h
      refine ⟨⟨⟨h1.1, fun n hn hc => ?_, fun n hn hc => ?_⟩, ?_⟩, by simp⟩
      · have := h1.2 n hn; rw [hc] at this; omega
      · have := h1.2 n hn; simpa [upd, hc] using this
      · simp [upd]; omega
    · exact absurd rfl hb
  case rd.bumpReg c c' k =>
    split at hb
    · rename_i e; subst e; simp only [if_true, QInv]
      obtain ⟨h1, h2⟩ := h
      refine ⟨⟨⟨h1.1, fun n hn hc => ?_, fun n hn hc => ?_⟩, ?_⟩, by simp⟩
      · have := h1.2 n hn; rw [hc] at this; omega
      · have := h1.2 n hn; simpa [upd, hc] using this
      · simp [upd]
    · exact absurd rfl hb
  case rd.add c c' g k =>
    split at hb
    · rename_i e; subst e; simp only [if_true, QInv]
      obtain ⟨h1, h2⟩ := h
      exact ⟨⟨bnd_add g reg k (h1.bnd c') (by omega), h2⟩, by simp⟩
    · exact absurd rfl hb
  case rd.ld c c' =>
    split at hb
    · rename_i e; subst e; simp only [if_true, QInv]; exact ⟨⟨h.1, h.2, trivial⟩, by simp⟩
    · exact absurd rfl hb
  case rd.ins c c' g off =>
    split at hb
    · rename_i e; obtain ⟨e1, e2⟩ := e; subst e1; subst e2; simp only [and_self, if_true, QInv]
      obtain ⟨h1, h2⟩ := h
      exact ⟨⟨bnd_add g (reg + 0) 1 (h1.bnd c') (by omega), h2⟩, by simp⟩
    · exact absurd rfl hb
  case rdl.st c c' k =>
    split at hb
    · rename_i e; subst e; simp only [if_true, QInv]
      obtain ⟨h1, h2, h3⟩ := h
      refine ⟨⟨⟨h1.1, fun n hn hc => ?_, fun n hn hc => ?_⟩, ?_⟩, by simp⟩
      · have := h1.2 n hn; rw [hc] at this; omega
      · have := h1.2 n hn; simpa [upd, hc] using this
      · simp [upd]; omega
    · exact absurd rfl hb
  case rdB.add c k c' g k' =>
    split at hb
    · rename_i e; obtain ⟨e1, e2⟩ := e; subst e1; subst e2; simp only [and_self, if_true, QInv]
      obtain ⟨h1, h2⟩ := h
      exact ⟨(bnd_add g reg k' h1 (Nat.le_refl _)).idsOk h2, by simp⟩
    · exact absurd rfl hb
  case rdB.ins c k c' g off =>
    split at hb
    · rename_i e; obtain ⟨e1, e2, e3⟩ := e; subst e1; subst e2
      obtain ⟨h1, h2⟩ := h
      have hb' := bnd_add g (reg + 0) 1 h1 (by omega)
      simp only [true_and, e3, if_true]
      split
      · rename_i ek; subst ek; simp only [QInv]; exact ⟨hb'.idsOk (by omega), by simp⟩
      · simp only [QInv]; exact ⟨⟨by simpa using hb', h2, by omega⟩, by simp⟩
    · exact absurd rfl hb
  case rdBp.ins c k i c' g off =>
    split at hb
    · rename_i e; obtain ⟨e1, e2, e3⟩ := e; subst e1; subst e2
      obtain ⟨h1, h2, h3⟩ := h
      have hb' := bnd_add g (reg + off) 1 h1 (Nat.le_refl _)
      simp only [true_and, e3, if_true]
      split
      · rename_i ek; simp only [QInv]; exact ⟨hb'.idsOk (by show reg + off + 1 ≤ sh.ctr c'; omega), by simp⟩
      · simp only [QInv]; exact ⟨⟨by simpa [Nat.add_assoc] using hb', h2, by omega⟩, by simp⟩
    · exact absurd rfl hb
  case rdA.bump c k c' k' =>
    split at hb
    · rename_i e; obtain ⟨e1, e2⟩ := e; subst e1; subst e2; simp only [and_self, if_true, QInv]
      obtain ⟨h1, h2⟩ := h
      refine ⟨⟨h1.nodup, fun n hn => ?_⟩, by simp⟩
      by_cases hc : n.space = c'
      · have := h1.own n hn hc; simp [upd, hc]; omega
      · have := h1.oth n hn hc; simpa [upd, hc] using this
    · exact absurd rfl hb
  case rdA.bumpReg c k c' k' =>
    split at hb
    · rename_i e; obtain ⟨e1, e2⟩ := e; subst e1; subst e2; simp only [and_self, if_true, QInv]
      obtain ⟨h1, h2⟩ := h
      refine ⟨⟨h1.nodup, fun n hn => ?_⟩, by simp⟩
      by_cases hc : n.space = c'
      · have := h1.own n hn hc; simp [upd, hc]; omega
      · have := h1.oth n hn hc; simpa [upd, hc] using this
    · exact absurd rfl hb
  case rdA.ld c k c' =>
    split at hb
    · rename_i e; subst e; simp only [if_true, QInv]; exact ⟨⟨h.1, h.2, trivial⟩, by simp⟩
    · exact absurd rfl hb
  case rdA.ins c j c' g off =>
    split at hb
    · rename_i e; obtain ⟨e1, e2⟩ := e; subst e1; subst e2; simp only [and_self, if_true, QInv]
      obtain ⟨h1, h2⟩ := h
      exact ⟨⟨by simpa [Nat.add_assoc] using bnd_add g (reg + off) 1 h1 (Nat.le_refl _), h2⟩, by simp⟩
    · exact absurd rfl hb
  case rdAl.st c k c' k' =>
    split at hb
    · rename_i e; obtain ⟨e1, e2⟩ := e; subst e1; subst e2; simp only [and_self, if_true, QInv]
      obtain ⟨h1, h2, h3⟩ := h
      refine ⟨⟨h1.nodup, fun n hn => ?_⟩, by simp⟩
      by_cases hc : n.space = c'
      · have := h1.own n hn hc; simp [upd, hc]; omega
      · have := h1.oth n hn hc; simpa [upd, hc] using this
    · exact absurd rfl hb
  case clr.delSpace c c' =>
    split at hb
    · rename_i e; subst e; simp only [if_true, QInv]; exact ⟨bnd_filter _ h, by simp⟩
    · exact absurd rfl hb
  case clr.addFrom c c' g lo k =>
    split at hb
    · rename_i e; subst e; simp only [if_true, QInv]; exact ⟨bnd_add g lo k h (Nat.zero_le _), by simp⟩
    · exact absurd rfl hb
  case clr.setCtr c c' v =>
    split at hb
    · rename_i e; subst e; simp only [if_true, QInv]
      simp only [QInv] at h
      refine ⟨⟨h.nodup, fun n hn => ?_⟩, by simp⟩
      by_cases hc : n.space = c'
      · have := h.own n hn hc; omega
      · have := h.oth n hn hc; simpa [upd, hc] using this
    · exact absurd rfl hb
  case fil.addFrom c n c' g lo k =>
    split at hb
    · rename_i e; obtain ⟨e1, e2⟩ := e; subst e1; simp only [true_and, e2, if_true, QInv]
      simp only [QInv] at h
      exact ⟨bnd_add g lo k h e2, by simp⟩
    · exact absurd rfl hb
  case fil.setCtr c n c' v =>
    split at hb
    · rename_i e; obtain ⟨e1, e2⟩ := e; subst e1; subst e2; simp only [and_self, if_true, QInv]
      simp only [QInv] at h
      refine ⟨⟨h.nodup, fun n hn => ?_⟩, by simp⟩
      by_cases hc : n.space = c'
      · have := h.own n hn hc; simp [upd, hc]; omega
      · have := h.oth n hn hc; simpa [upd, hc] using this
    · exact absurd rfl hb

theorem runQ_bad (p : List Micro) : runQ discStep .bad p = .bad := by
  induction p with
  | nil => rfl
  | cons m p ih => rw [runQ_cons]; simpa [discStep] using ih

theorem acc_ne_bad {q : DQ} {p : List Micro} (h : runQ discStep q p = .out) : q ≠ .bad := by
  intro e; subst e; rw [runQ_bad] at h; cases h

theorem out_step {m : Micro} (h : discStep .out m ≠ .bad) :
    (m = .acq ∧ discStep .out m = .idle) ∨
    (m ≠ .acq ∧ m ≠ .rel ∧ m ≠ .reinit ∧ discStep .out m = .out ∧ ∀ r t sh, effectT m r t sh = (sh, r, t)) := by
  cases m <;> simp [discStep, effectT, effect] at h ⊢
  case ctor w => subst h; simp

theorem reinit_bad (q : DQ) : discStep q .reinit = .bad := by
  cases q <;> simp [discStep]

theorem in_acq {q : DQ} (hq : q ≠ .out) : discStep q .acq = .bad := by
  cases q <;> simp [discStep] at hq ⊢

/-- the invariant of the interleaving semantics; `qs t` is the monitor state of thread `t` -/
structure Inv (qs : Nat → DQ) (s : Sys) : Prop where
  acc : ∀ t, runQ discStep (qs t) (s.thr t).prog = .out
  holder : ∀ t, qs t ≠ .out ↔ s.lock = some t
  free : s.lock = none → IdsOk s.sh
  held : ∀ t, s.lock = some t → QInv (qs t) (s.thr t).reg (s.thr t).tmp s.sh
  noErr : s.relErr = false

theorem Inv.step {qs : Nat → DQ} {s s' : Sys} {t : Nat} (h : Inv qs s) (hs : step t s = some s') :
    ∃ qs', Inv qs' s' := by
  unfold Sched.step at hs
  split at hs
  · cases hs
  · rename_i m rest hp
    have hacc := h.acc t
    rw [hp, runQ_cons] at hacc
    have hnb := acc_ne_bad hacc
    refine ⟨upd qs t (discStep (qs t) m), ?_⟩
    by_cases hqt : qs t = .out
    · -- thread t is outside the lock
      rw [hqt] at hnb hacc
      have hlk : s.lock ≠ some t := fun e => (h.holder t).mpr e hqt
      rcases out_step hnb with ⟨hm, hd⟩ | ⟨hm1, hm2, hm3, hd, heff⟩
      · subst hm
        simp only [if_true] at hs
        split at hs
        · rename_i hl
          cases hs
          have hall : ∀ u, qs u = .out := fun u => by
            by_cases hu : qs u = .out
            · exact hu
            · have := (h.holder u).mp hu; rw [hl] at this; cases this
          constructor
          · intro u
            by_cases hu : u = t
            · subst hu; simp [hqt]; exact hacc
            · simp [hu]; exact h.acc u
          · intro u
            by_cases hu : u = t
            · subst hu; simp [hqt, hd]
            · simp [hu, hall u]; exact fun e => hu e.symm
          · intro e; cases e
          · intro u e
            cases e
            simp [hqt, hd, QInv]; exact h.free hl
          · exact h.noErr
        · cases hs
      · simp only [hm1, hm2, hm3, if_false] at hs
        cases hs
        rw [heff]
        constructor
        · intro u
          by_cases hu : u = t
          · subst hu; simp [hqt]; exact hacc
          · simp [hu]; exact h.acc u
        · intro u
          by_cases hu : u = t
          · subst hu; simp [hqt, hd]; exact hlk
          · simp [hu]; exact h.holder u
        · exact h.free
        · intro u e
          have hu : u ≠ t := fun e' => hlk (e' ▸ e)
          simp [hu]; exact h.held u e
        · exact h.noErr
    · -- thread t holds the lock
      have hl : s.lock = some t := (h.holder t).mp hqt
      have hothers : ∀ u, u ≠ t → qs u = .out := fun u hu => by
        by_cases hq : qs u = .out
        · exact hq
        · have := (h.holder u).mp hq; rw [hl] at this; cases this; exact absurd rfl hu
      have hm1 : m ≠ .acq := fun e => by subst e; exact hnb (in_acq hqt)
      have hm3 : m ≠ .reinit := fun e => by subst e; exact hnb (reinit_bad _)
      simp only [hm1, if_false] at hs
      by_cases hm2 : m = .rel
      · subst hm2
        simp only [if_true, hl] at hs
        cases hs
        obtain ⟨hout, hok⟩ := (h.held t hl).release hqt hnb
        constructor
        · intro u
          by_cases hu : u = t
          · subst hu; simp; exact hacc
          · simp [hu]; exact h.acc u
        · intro u
          by_cases hu : u = t
          · subst hu; simp [hout]
          · simp [hu, hothers u hu]
        · intro _; exact hok
        · intro u e; cases e
        · exact h.noErr
      · simp only [hm2, hm3, if_false] at hs
        cases hs
        obtain ⟨hq', hne⟩ := (h.held t hl).step hqt hm1 hm2 hnb
        constructor
        · intro u
          by_cases hu : u = t
          · subst hu; simp; exact hacc
          · simp [hu]; exact h.acc u
        · intro u
          by_cases hu : u = t
          · subst hu; simp [hne, hl]
          · simp [hu]; exact h.holder u
        · intro e; rw [hl] at e; cases e
        · intro u e
          rw [hl] at e; cases e
          simpa using hq'
        · exact h.noErr


theorem Inv.init {progs : List (List Micro)} (h : ∀ p ∈ progs, accepts p = true) :
    Inv (fun _ => .out) (init progs) := by
  constructor
  · intro t
    simp only [Sched.init]
    by_cases ht : t < progs.length
    · have : progs.getD t [] = progs[t] := by simp [List.getD, ht]
      rw [this]
      have := h _ (List.getElem_mem ht)
      simpa [accepts] using this
    · have : progs.getD t [] = [] := by
        simp only [List.getD_eq_getElem?_getD]
        rw [List.getElem?_eq_none (by omega)]; rfl
      rw [this]; rfl
  · intro t; simp [Sched.init]
  · intro _; exact ⟨List.nodup_nil, fun n hn => by cases hn⟩
  · intro t e; cases e
  · rfl

theorem Inv.run (sched : List Nat) : ∀ {qs : Nat → DQ} {s : Sys}, Inv qs s → ∃ qs', Inv qs' (run sched s) := by
  induction sched with
  | nil => intro qs s h; exact ⟨qs, h⟩
  | cons t ts ih =>
    intro qs s h
    simp only [Sched.run]
    split
    · exact ih h
    · rename_i s' hs
      obtain ⟨qs', h'⟩ := h.step hs
      exact ih h'

theorem reachable_inv {progs : List (List Micro)} (h : ∀ p ∈ progs, accepts p = true) (sched : List Nat) :
    ∃ qs, Inv qs (run sched (init progs)) := (Inv.init h).run sched

theorem Inv.nodup {qs : Nat → DQ} {s : Sys} (h : Inv qs s) : (keys s.sh.nodes).Nodup := by
  cases hl : s.lock with
  | none => exact (h.free hl).1
  | some t => exact (h.held t hl).nodup ((h.holder t).mpr hl)

theorem inside_iff : ∀ (p : List Micro) (q : DQ), runQ discStep q p = .out → (inside p = true ↔ q ≠ .out) := by
  intro p
  induction p with
  | nil => intro q h; simp only [runQ_nil] at h; subst h; simp [inside]
  | cons m p ih =>
    intro q h
    rw [runQ_cons] at h
    have hnb := acc_ne_bad h
    have := ih _ h
    cases q <;> cases m <;> simp only [inside, discStep] at hnb this ⊢ <;> (try simp at hnb) <;> (try (simp at this ⊢; try exact this))
    all_goals first
      | (subst hnb; simpa using this)
      | (split at this <;> simp_all)
    all_goals (split <;> simp)

theorem dictView_eq_of_nodup : ∀ (l : List Node), (keys l).Nodup → dictView l = l := by
  intro l
  induction l with
  | nil => intro _; rfl
  | cons n l ih =>
    intro h
    simp only [keys, List.map_cons, List.nodup_cons] at h
    simp only [dictView, ih h.2]
    congr 1
    apply List.filter_eq_self.mpr
    intro m hm
    simp only [bne_iff_ne, ne_eq]
    intro e
    exact h.1 (List.mem_map.mpr ⟨m, hm, e⟩)


/-- number of live nodes owned by graph `g` -/
def cnt (g : Nat) (l : List Node) : Nat := (l.filter fun n => n.owner == g).length

def total (g : Nat) (thr : Nat → Thread) (n : Nat) : Nat := ((List.range n).map fun t => addsOf g (thr t).prog).sum

theorem sum_range_upd (f : Nat → Nat) (t v : Nat) : ∀ n, t < n →
    ((List.range n).map (upd f t v)).sum + f t = ((List.range n).map f).sum + v := by
  intro n
  induction n with
  | zero => intro h; omega
  | succ n ih =>
    intro h
    rw [List.range_succ, List.map_append, List.map_append, List.sum_append, List.sum_append]
    by_cases e : t = n
    · subst e
      have : (List.range t).map (upd f t v) = (List.range t).map f := by
        apply List.map_congr_left
        intro a ha
        have : a ≠ t := by have := List.mem_range.mp ha; omega
        simp [upd, this]
      rw [this]; simp [upd]; omega
    · have := ih (by omega)
      have hn : upd f t v n = f n := by simp [upd]; intro e'; exact absurd e'.symm e
      simp [hn]; omega

theorem cnt_addIds (c g g' : Nat) : ∀ (k lo : Nat) (l : List Node),
    cnt g' (addIds c g lo k l) = (if g = g' then k else 0) + cnt g' l := by
  intro k
  induction k with
  | zero => intro lo l; simp [addIds]
  | succ k ih =>
    intro lo l
    rw [addIds, ih]
    by_cases e : g = g'
    · simp [e, cnt]; omega
    · simp [e, cnt]

theorem effect_cnt (m : Micro) (reg tmp : Nat) (sh : Shared) (g : Nat) (hd : isDelete m = false) :
    cnt g (effectT m reg tmp sh).1.nodes = addsOf g [m] + cnt g sh.nodes := by
  cases m <;> simp [effectT, effect, addsOf, isDelete] at hd ⊢
  · exact cnt_addIds ..
  · exact cnt_addIds ..
  · split
    · rename_i h; simp [h.2, cnt]
    · rfl
  · exact cnt_addIds ..

/-- conservation: nodes present + nodes still to be inserted by the remaining programs -/
structure Acct (g n T : Nat) (s : Sys) : Prop where
  sum : cnt g s.sh.nodes + total g s.thr n = T
  small : ∀ t, n ≤ t → (s.thr t).prog = []
  nodel : ∀ t, ∀ m ∈ (s.thr t).prog, isDelete m = false

theorem addsOf_cons (g : Nat) (m : Micro) (p : List Micro) : addsOf g (m :: p) = addsOf g [m] + addsOf g p := by
  cases m <;> simp [addsOf]

theorem total_upd (g : Nat) (thr : Nat → Thread) (n t : Nat) (x : Thread) (ht : t < n) :
    total g (upd thr t x) n + addsOf g (thr t).prog = total g thr n + addsOf g x.prog := by
  have : (fun u => addsOf g ((upd thr t x) u).prog) = upd (fun u => addsOf g (thr u).prog) t (addsOf g x.prog) := by
    funext u; by_cases e : u = t <;> simp [upd, e]
  unfold total
  rw [this]
  exact sum_range_upd _ t _ n ht

theorem Acct.step {g n T : Nat} {s s' : Sys} {t : Nat} (h : Acct g n T s) (hs : step t s = some s') : Acct g n T s' := by
  unfold Sched.step at hs
  split at hs
  · cases hs
  · rename_i m rest hp
    have ht : t < n := by
      apply Classical.byContradiction; intro hn
      have := h.small t (by omega); rw [hp] at this; cases this
    have hnd : isDelete m = false := h.nodel t m (by rw [hp]; simp)
    have hrest : ∀ x ∈ rest, isDelete x = false := fun x hx => h.nodel t x (by rw [hp]; simp [hx])
    have small' : ∀ (r r' : Nat) (u : Nat), n ≤ u → ((upd s.thr t ⟨rest, r, r'⟩) u).prog = [] := by
      intro r r' u hu
      have : u ≠ t := by omega
      simp [this]; exact h.small u hu
    have nodel' : ∀ (r r' : Nat) (u : Nat), ∀ x ∈ ((upd s.thr t ⟨rest, r, r'⟩) u).prog, isDelete x = false := by
      intro r r' u x hx
      by_cases e : u = t
      · subst e; simp at hx; exact hrest x hx
      · simp [e] at hx; exact h.nodel u x hx
    have htot : ∀ r r' : Nat, total g (upd s.thr t ⟨rest, r, r'⟩) n + addsOf g [m] = total g s.thr n := by
      intro r r'
      have := total_upd g s.thr n t ⟨rest, r, r'⟩ ht
      rw [hp, addsOf_cons] at this
      simp only at this
      omega
    have hlockops : ∀ r r' : Nat, m = .acq ∨ m = .rel → total g (upd s.thr t ⟨rest, r, r'⟩) n = total g s.thr n := by
      intro r r' hm
      have := htot r r'
      rcases hm with e | e <;> subst e <;> simpa [addsOf] using this
    split at hs
    · split at hs
      · cases hs; exact ⟨by simp only; rw [hlockops _ _ (Or.inl ‹_›)]; exact h.sum, small' _ _, nodel' _ _⟩
      · cases hs
    · split at hs
      · split at hs <;> cases hs <;>
          exact ⟨by simp only; rw [hlockops _ _ (Or.inr ‹_›)]; exact h.sum, small' _ _, nodel' _ _⟩
      · cases hs
        refine ⟨?_, small' _ _, nodel' _ _⟩
        simp only
        rw [effect_cnt m _ _ _ g hnd]
        have := htot (effectT m (s.thr t).reg (s.thr t).tmp s.sh).2.1 (effectT m (s.thr t).reg (s.thr t).tmp s.sh).2.2
        have := h.sum
        omega

theorem Acct.run {g n T : Nat} (sched : List Nat) : ∀ {s : Sys}, Acct g n T s → Acct g n T (run sched s) := by
  induction sched with
  | nil => intro s h; exact h
  | cons t ts ih =>
    intro s h
    simp only [Sched.run]
    split
    · exact ih h
    · rename_i s' hs; exact ih (h.step hs)

theorem total_finished {g : Nat} {thr : Nat → Thread} (h : ∀ t, (thr t).prog = []) : ∀ n, total g thr n = 0 := by
  intro n
  induction n with
  | zero => rfl
  | succ n ih =>
    unfold total at ih ⊢
    rw [List.range_succ, List.map_append, List.sum_append, ih]
    simp [h n, addsOf]


theorem ctor_true_bad (q : DQ) : discStep q (.ctor true) = .bad := by
  cases q <;> simp [discStep]

theorem effect_gen (m : Micro) (r t : Nat) (sh : Shared) (h : m ≠ .ctor true) (h' : m ≠ .reinit) :
    (effectT m r t sh).1.gen = sh.gen := by
  cases m <;> simp [effectT, effect] at h' ⊢
  case ctor w => cases w <;> simp at h ⊢

/-- a step of a thread whose remaining program is accepted never replaces the store -/
theorem Inv.step_gen {qs : Nat → DQ} {s s' : Sys} {t : Nat} (h : Inv qs s) (hs : Sched.step t s = some s') :
    s'.sh.gen = s.sh.gen := by
  unfold Sched.step at hs
  split at hs
  · cases hs
  · rename_i m rest hp
    have hacc := h.acc t
    rw [hp, runQ_cons] at hacc
    have hnb := acc_ne_bad hacc
    have hm : m ≠ .ctor true := fun e => by subst e; exact hnb (ctor_true_bad _)
    have hm' : m ≠ .reinit := fun e => by subst e; exact hnb (reinit_bad _)
    split at hs
    · split at hs
      · cases hs; rfl
      · cases hs
    · split at hs
      · split at hs <;> cases hs <;> rfl
      · cases hs; exact effect_gen m _ _ _ hm hm'

theorem Inv.run_gen (sched : List Nat) : ∀ {qs : Nat → DQ} {s : Sys}, Inv qs s → (Sched.run sched s).sh.gen = s.sh.gen := by
  induction sched with
  | nil => intro qs s _; rfl
  | cons t ts ih =>
    intro qs s h
    simp only [Sched.run]
    split
    · exact ih h
    · rename_i s' hs
      obtain ⟨qs', h'⟩ := h.step hs
      rw [ih h', h.step_gen hs]


end FimVerif.Sched
