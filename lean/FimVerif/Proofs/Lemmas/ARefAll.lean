import FimVerif.Proofs.Lemmas.ARefNode
import FimVerif.Proofs.Lemmas.ARefLink
import FimVerif.Proofs.Lemmas.ARefAddDel
import FimVerif.Proofs.Lemmas.ARefClone
import FimVerif.Proofs.Lemmas.ARefMerge
import FimVerif.Proofs.Lemmas.ARefUnique
/-! C05: the shared store refines the store-level reference model, operation by operation and over histories.
    Core only. -/
namespace FimVerif.Store
open FimVerif FimVerif.Gen.StoreConsts

def Op.isMerge : Op → Bool
  | .mergeNodes .. => true
  | _ => false

/-- **one call on the shared store is one call of the reference model** on the store without its internal
    ids: same reply (value or error kind), same resulting nodes and links — for *every* operation of the
    alphabet.  Only `merge_nodes` needs the keys of the stored nodes to be pairwise distinct. -/
theorem refines_store_step (op : Op) (s : Store) (h : Inv s) (hu : op.isMerge = true → UniqueKeys s) :
    RefS (step op s) (ARef.step op (absS s)) := by
  cases op with
  | addNode g nid label props => exact refS_addNode s h g nid label props
  | deleteNode g nid => exact refS_deleteNode s h g nid
  | addLink g a rel b props => exact refS_addLink s h g a rel b props
  | updateNodeProperty g nid k v => exact refS_assertVal v s _ _ (refS_updateNodeProperty s h g nid k v)
  | unsetNodeProperty g nid k => exact refS_unsetNodeProperty s h g nid k
  | updateNodesProperty g k v => exact refS_assertVal v s _ _ (refS_updateNodesProperty s h g k v)
  | updateNodeProperties g nid props => exact refS_updateNodeProperties s h g nid props
  | updateLinkProperty g a b kind k v => exact refS_assertVal v s _ _ (refS_updateLinkProperty s h g a b kind k v)
  | unsetLinkProperty g a b kind k => exact refS_unsetLinkProperty s h g a b kind k
  | updateLinkProperties g a b kind props => exact refS_updateLinkProperties s h g a b kind props
  | deleteGraph g => exact refS_delGraph s h g
  | addGraph g ig => exact refS_addGraph s h g ig.close ig.close_WF
  | addGraphDirect g ig => exact refS_addGraphDirect s h g ig.close ig.close_WF
  | clone g g2 => exact refS_cloneGraph s h g g2
  | mergeNodes g nid g2 pol => exact refS_mergeNodes s h (hu rfl) g nid g2 pol
  | getNodeProperties g nid => exact refS_getNodeProperties s h g nid
  | getLinkProperties g a b => exact refS_getLinkProperties s h g a b
  | listAllNodeIds g => exact refS_listAllNodeIds s g
  | nodesByClass g label => exact refS_nodesByClass s g label
  | nodesByClassAndType g label ntype => exact refS_nodesByClassAndType s g label ntype
  | nodeExists g nid label => exact refS_nodeExists s g nid label
  | graphExists g => exact refS_graphExists s g
  | checkNodeUnique g label name => exact refS_checkNodeUnique s g label name
  | findMatchingNodes g other => exact refS_findMatchingNodes s g other
  | delAllGraphs => exact refS_delAllGraphs s

theorem absS_init : absS init = ARef.init := rfl

/-- histories: as long as every operation keeps the keys (`Op.keepsKeys`: no `GraphID`/`NodeID` write, imports
    with pairwise distinct node ids — merges with any other policy included), the store after the history is
    the reference model's state -/
theorem refines_store_run (ops : List Op) (s : Store) (h : Inv s) (hu : UniqueKeys s) (hk : ∀ o ∈ ops, o.keepsKeys = true) :
    absS (run ops s) = ARef.run ops (absS s) := by
  induction ops generalizing s with
  | nil => rfl
  | cons o r ih =>
    simp only [run, ARef.run, List.foldl_cons]
    have hs := refines_store_step o s h (fun _ => hu)
    have := ih (step o s).2 (inv_step o s h) (uniqueKeys_step o s h (hk o (by simp)) hu) (fun o' ho' => hk o' (by simp [ho']))
    simp only [run, ARef.run] at this
    rw [this, hs.2]

end FimVerif.Store
