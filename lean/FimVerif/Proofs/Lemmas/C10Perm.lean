import FimVerif.Proofs.Lemmas.C10
/-!
# C10 - the order in which a service lists its interfaces does not matter

`Topology.validate` walks `interface_list`; the order of that list is the order in which the interfaces were
connected.  `Topo.reorder f` lists the interfaces of every service in another order (`f l` is a permutation of `l`);
the specification - hence the verdict and the recorded sites - is invariant.
-/
namespace FimVerif.Validate
open FimVerif.Gen.Constraints (SvcRow NodeRow)

def Svc.reorder (f : List SIface → List SIface) (s : Svc) : Svc := { s with ifs := f s.ifs }

def Topo.reorder (f : List SIface → List SIface) (t : Topo) : Topo := { t with svcs := t.svcs.map (Svc.reorder f) }

theorem dedup_perm {xs ys : List String} (h : xs.Perm ys) : (dedup xs).Perm (dedup ys) :=
  (List.perm_ext_iff_of_nodup (nodup_dedup xs) (nodup_dedup ys)).mpr fun a => by
    rw [mem_dedup, mem_dedup]; exact h.mem_iff

theorem singleOr_perm {xs ys : List String} (h : xs.Perm ys) (d : Option String) :
    (match dedup xs with | [x] => some x | _ => d) = (match dedup ys with | [x] => some x | _ => d) := by
  have hp := dedup_perm h
  have hl := hp.length_eq
  match hx : dedup xs, hy : dedup ys with
  | [], [] => rfl
  | [], _ :: _ => exact absurd hl (by rw [hx, hy]; simp)
  | [x], [] => exact absurd hl (by rw [hx, hy]; simp)
  | [x], [y] =>
    rw [hx, hy] at hp
    have : x ∈ [y] := hp.mem_iff.mp (by simp)
    have hxy : x = y := by simpa using this
    rw [hxy]
  | [x], _ :: _ :: _ => exact absurd hl (by rw [hx, hy]; simp)
  | _ :: _ :: _, [] => exact absurd hl (by rw [hx, hy]; simp)
  | _ :: _ :: _, [y] => exact absurd hl (by rw [hx, hy]; simp)
  | _ :: _ :: _, _ :: _ :: _ => rfl

theorem recordedSiteOf_perm (row : SvcRow) (s s' : Svc) (hs : s'.site = s.site) {n n' : List NIface} (h : n'.Perm n) :
    recordedSiteOf row s' n' = recordedSiteOf row s n := by
  unfold recordedSiteOf
  rw [hs]
  by_cases hc : row.numSites ≠ 0 ∧ truthy s.site = false
  · rw [if_pos hc, if_pos hc]
    exact singleOr_perm (h.filterMap _) s.site
  · rw [if_neg hc, if_neg hc]

theorem nstypeOK_perm (exp : Bool) (row : SvcRow) (s s' : Svc) (hs : s'.site = s.site) {n n' : List NIface} (h : n'.Perm n) :
    NstypeOK exp row s' n' ↔ NstypeOK exp row s n := by
  have hl := h.length_eq
  have hd := (dedup_perm (h.filterMap (·.owner))).length_eq
  constructor
  · intro k
    exact ⟨fun e => by rw [← hl]; exact k.minIfs e, fun e => by rw [← hl]; exact k.maxIfs e,
      fun e i hi => k.owners e i (h.mem_iff.mpr hi), fun e => by rw [← hd]; exact k.maxSites e,
      fun e ht i hi => by rw [← hs]; exact k.siteAgrees e (by rw [hs]; exact ht) i (h.mem_iff.mpr hi)⟩
  · intro k
    exact ⟨fun e => by rw [hl]; exact k.minIfs e, fun e => by rw [hl]; exact k.maxIfs e,
      fun e i hi => k.owners e i (h.mem_iff.mp hi), fun e => by rw [hd]; exact k.maxSites e,
      fun e ht i hi => by rw [hs]; exact k.siteAgrees e (by rw [← hs]; exact ht) i (h.mem_iff.mp hi)⟩

theorem nifOf_reorder (f : List SIface → List SIface) (s : Svc) (i : SIface) : nifOf (s.reorder f) i = nifOf s i := by
  cases i <;> rfl

section
variable (f : List SIface → List SIface) (hf : ∀ l, (f l).Perm l)
include hf

theorem nifs_reorder (s : Svc) : (nifs (s.reorder f)).Perm (nifs s) := by
  unfold nifs
  have : (fun i => nifOf (s.reorder f) i) = nifOf s := funext (nifOf_reorder f s)
  show ((f s.ifs).filterMap (nifOf (s.reorder f))).Perm _
  rw [show nifOf (s.reorder f) = nifOf s from this]
  exact (hf s.ifs).filterMap _

theorem recordedSite_reorder (row : SvcRow) (s : Svc) : recordedSite row (s.reorder f) = recordedSite row s :=
  recordedSiteOf_perm row s (s.reorder f) rfl (nifs_reorder f hf s)

theorem svcOK_reorder (c : Cfg) (exp : Bool) (row : SvcRow) (s : Svc) :
    SvcOK c exp row (s.reorder f) ↔ SvcOK c exp row s := by
  have hn := nifs_reorder f hf s
  have hr := recordedSite_reorder f hf row s
  have hk : NstypeOK exp row (s.reorder f) (nifs (s.reorder f)) ↔ NstypeOK exp row s (nifs s) :=
    nstypeOK_perm exp row s (s.reorder f) rfl hn
  have hh : ∀ m site p, svcHolds c m (s.reorder f) site p = svcHolds c m s site p := fun _ _ _ => rfl
  constructor
  · intro k
    refine ⟨fun i hi => ?_, hk.mp k.nstype, k.getters, fun p hp => ?_, fun p hp => ?_, ?_⟩
    · rw [← nifOf_reorder f s i]; exact k.ports i ((hf s.ifs).mem_iff.mpr hi)
    · have := k.required p hp; rw [hr, hh] at this; exact this
    · have := k.forbidden p hp; rw [hr, hh] at this; exact this
    · exact k.ifTypes.imp id fun h i hi => h i (hn.mem_iff.mpr hi)
  · intro k
    refine ⟨fun i hi => ?_, hk.mpr k.nstype, k.getters, fun p hp => ?_, fun p hp => ?_, ?_⟩
    · rw [nifOf_reorder f s i]; exact k.ports i ((hf s.ifs).mem_iff.mp hi)
    · rw [hr, hh]; exact k.required p hp
    · rw [hr, hh]; exact k.forbidden p hp
    · exact k.ifTypes.imp id fun h i hi => h i (hn.mem_iff.mp hi)

theorem recordSite_reorder (c : Cfg) (s : Svc) : recordSite c (s.reorder f) = (recordSite c s).reorder f := by
  unfold recordSite
  show (match c.svc.lookup s.ty with | some row => _ | none => _) = _
  cases c.svc.lookup s.ty with
  | none => rfl
  | some row =>
    simp only
    rw [recordedSite_reorder f hf row s]
    rfl

theorem instances_reorder (c : Cfg) (l : List Svc) : instances c (l.map (Svc.reorder f)) = instances c l := by
  have h1 : instCrash c (l.map (Svc.reorder f)) = instCrash c l := by
    simp only [instCrash, List.any_map]
    congr 1; funext s
    have : (f s.ifs).isEmpty = s.ifs.isEmpty := (hf s.ifs).isEmpty_eq
    simp [Svc.reorder, this]
  have hm : mentionedSites (l.map (Svc.reorder f)) = mentionedSites l := by
    simp only [mentionedSites, List.filterMap_map]; rfl
  have hc : ∀ ty site, instCount (l.map (Svc.reorder f)) ty site = instCount l ty site := by
    intro ty site
    simp only [instCount, List.filter_map, List.map_map]
    rfl
  have h2 : instWithin c (l.map (Svc.reorder f)) = instWithin c l := by
    simp only [instWithin, List.all_map, hm, hc]
    rfl
  simp only [instances, h1, h2]

theorem specOK_reorder (c : Cfg) (t : Topo) : SpecOK c (t.reorder f) ↔ SpecOK c t := by
  have hrec : (t.reorder f).svcs.map (recordSite c) = (t.svcs.map (recordSite c)).map (Svc.reorder f) := by
    simp only [Topo.reorder, List.map_map]
    apply List.map_congr_left
    intro s _
    exact recordSite_reorder f hf c s
  have hinst : InstOK c ((t.reorder f).svcs.map (recordSite c)) ↔ InstOK c (t.svcs.map (recordSite c)) := by
    rw [← instances_ok, ← instances_ok, hrec, instances_reorder f hf]
  constructor
  · intro k
    refine ⟨k.nodes, fun s hs => ?_, hinst.mp k.instances⟩
    obtain ⟨row, hl, hk⟩ := k.svcs (s.reorder f) (List.mem_map.mpr ⟨s, hs, rfl⟩)
    exact ⟨row, hl, (svcOK_reorder f hf c t.exp row s).mp hk⟩
  · intro k
    refine ⟨k.nodes, fun s' hs' => ?_, hinst.mpr k.instances⟩
    obtain ⟨s, hs, rfl⟩ := List.mem_map.mp hs'
    obtain ⟨row, hl, hk⟩ := k.svcs s hs
    exact ⟨row, hl, (svcOK_reorder f hf c t.exp row s).mpr hk⟩

theorem validate_reorder_ok (c : Cfg) (t : Topo) :
    (validate c (t.reorder f)).1 = .ok () ↔ (validate c t).1 = .ok () := by
  rw [validate_ok, validate_ok]
  exact specOK_reorder f hf c t

theorem validate_reorder_state (c : Cfg) (t : Topo) (h : (validate c t).1 = .ok ()) :
    (validate c (t.reorder f)).2 = (validate c t).2.reorder f := by
  rw [validate_state c t h, validate_state c (t.reorder f) ((validate_reorder_ok f hf c t).mpr h)]
  simp only [Topo.reorder, List.map_map]
  congr 1
  apply List.map_congr_left
  intro s _
  exact recordSite_reorder f hf c s

end

/-! ### validating twice is validating once -/

def withSite (s : Svc) (x : Option String) : Svc := { s with site := x }

theorem nifs_withSite (s : Svc) (x : Option String) : nifs (withSite s x) = nifs s := by
  unfold nifs
  have : nifOf (withSite s x) = nifOf s := funext fun i => by cases i <;> rfl
  show s.ifs.filterMap (nifOf (withSite s x)) = _
  rw [this]

theorem rso_keep (row : SvcRow) (s : Svc) (n : List NIface) (h : ¬(row.numSites ≠ 0 ∧ truthy s.site = false)) :
    recordedSiteOf row s n = s.site := by
  unfold recordedSiteOf; rw [if_neg h]

theorem rso_single (row : SvcRow) (s : Svc) (n : List NIface) (x : String) (h : row.numSites ≠ 0 ∧ truthy s.site = false)
    (hd : dedup (n.filterMap (·.owner)) = [x]) : recordedSiteOf row s n = some x := by
  unfold recordedSiteOf; rw [if_pos h, hd]

theorem rso_other (row : SvcRow) (s : Svc) (n : List NIface) (hd : ∀ x, dedup (n.filterMap (·.owner)) ≠ [x]) :
    recordedSiteOf row s n = s.site := by
  unfold recordedSiteOf
  split
  · split
    · rename_i x hx; exact absurd hx (hd x)
    · rfl
  · rfl

theorem recordedSite_idem (row : SvcRow) (s : Svc) :
    recordedSite row (withSite s (recordedSite row s)) = recordedSite row s := by
  unfold recordedSite
  rw [nifs_withSite]
  generalize nifs s = n
  by_cases hc : row.numSites ≠ 0 ∧ truthy s.site = false
  · by_cases hx : ∃ x, dedup (n.filterMap (·.owner)) = [x]
    · obtain ⟨x, hd⟩ := hx
      rw [rso_single row s n x hc hd]
      by_cases hc' : row.numSites ≠ 0 ∧ truthy (withSite s (some x)).site = false
      · exact rso_single row _ n x hc' hd
      · exact rso_keep row _ n hc'
    · have hd : ∀ x, dedup (n.filterMap (·.owner)) ≠ [x] := fun x h => hx ⟨x, h⟩
      rw [rso_other row s n hd]
      exact rso_other row _ n hd
  · rw [rso_keep row s n hc]
    exact rso_keep row (withSite s s.site) n hc

theorem svcOK_recorded (c : Cfg) (exp : Bool) (row : SvcRow) (s : Svc) (h : SvcOK c exp row s) :
    SvcOK c exp row (withSite s (recordedSite row s)) := by
  have hn := nifs_withSite s (recordedSite row s)
  have hr := recordedSite_idem row s
  have hport : ∀ i, nifOf (withSite s (recordedSite row s)) i = nifOf s i := fun i => by cases i <;> rfl
  refine ⟨fun i hi => by rw [hport]; exact h.ports i hi, ?_, h.getters, fun p hp => ?_, fun p hp => ?_, by rw [hn]; exact h.ifTypes⟩
  · rw [hn]
    refine ⟨h.nstype.minIfs, h.nstype.maxIfs, h.nstype.owners, h.nstype.maxSites, ?_⟩
    intro h0 ht i hi
    have ht' : truthy (recordedSite row s) = true := ht
    show i.owner = recordedSite row s
    by_cases hc : row.numSites ≠ 0 ∧ truthy s.site = false
    · by_cases hx : ∃ x, dedup ((nifs s).filterMap (·.owner)) = [x]
      · obtain ⟨x, hd⟩ := hx
        have : recordedSite row s = some x := rso_single row s _ x hc hd
        rw [this]
        obtain ⟨_, hall⟩ := (dedup_eq_singleton _ x).mp hd
        exact all_owner_eq (h.nstype.owners h0) hall i hi
      · have hd : ∀ x, dedup ((nifs s).filterMap (·.owner)) ≠ [x] := fun x h => hx ⟨x, h⟩
        have : recordedSite row s = s.site := rso_other row s _ hd
        rw [this] at ht'
        rw [hc.2] at ht'; cases ht'
    · have : recordedSite row s = s.site := rso_keep row s _ hc
      rw [this] at ht' ⊢
      exact h.nstype.siteAgrees h0 ht' i hi
  · have := h.required p hp
    rw [hr]; exact this
  · have := h.forbidden p hp
    rw [hr]; exact this

theorem recordSite_eq (c : Cfg) (s : Svc) (row : SvcRow) (hl : c.svc.lookup s.ty = some row) :
    recordSite c s = withSite s (recordedSite row s) := by
  unfold recordSite; rw [hl]; rfl

theorem recordSite_idem (c : Cfg) (s : Svc) : recordSite c (recordSite c s) = recordSite c s := by
  cases hl : c.svc.lookup s.ty with
  | none => simp [recordSite, hl]
  | some row =>
    rw [recordSite_eq c s row hl]
    have hl' : c.svc.lookup (withSite s (recordedSite row s)).ty = some row := hl
    rw [recordSite_eq c _ row hl', recordedSite_idem]
    rfl

/-- **Validating a slice that has just been validated succeeds again and changes nothing.** -/
theorem validate_idem (c : Cfg) (t : Topo) (h : (validate c t).1 = .ok ()) :
    validate c (validate c t).2 = (.ok (), (validate c t).2) := by
  have hspec := (validate_ok c t).mp h
  have hst := validate_state c t h
  have hmap : (t.svcs.map (recordSite c)).map (recordSite c) = t.svcs.map (recordSite c) := by
    rw [List.map_map]
    exact List.map_congr_left fun s _ => recordSite_idem c s
  have hspec' : SpecOK c (validate c t).2 := by
    rw [hst]
    refine ⟨hspec.nodes, fun s' hs' => ?_, by show InstOK c ((t.svcs.map (recordSite c)).map (recordSite c)); rw [hmap]; exact hspec.instances⟩
    obtain ⟨s, hs, rfl⟩ := List.mem_map.mp hs'
    obtain ⟨row, hl, hk⟩ := hspec.svcs s hs
    rw [recordSite_eq c s row hl]
    exact ⟨row, hl, svcOK_recorded c t.exp row s hk⟩
  have hok := (validate_ok c _).mpr hspec'
  have hst' := validate_state c _ hok
  have h2 : (validate c (validate c t).2).2 = (validate c t).2 := by
    rw [hst']
    rw [hst]
    show ({ t with svcs := (t.svcs.map (recordSite c)).map (recordSite c) } : Topo) = _
    rw [hmap]
  exact Prod.ext hok h2

end FimVerif.Validate
