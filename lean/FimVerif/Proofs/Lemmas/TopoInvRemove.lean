import FimVerif.Proofs.Lemmas.TopoInvGraph
/-!
# C07 — property-rewriting and removing calls

* `set_property/set_properties`, `unset_property` keep every predicate that is stable under an in-place rewrite keeping
  id, class, type and name (`MapStable`): `Inv`, `InvS`, `InvD`, `NamesOk`.  `rename` keeps those stable under a rewrite
  keeping id, class and type (`KeyStable`): `InvS`, `InvD` — not the name scopes (known finding).
* every removing call is a composition of reads and `delete_node`, so it keeps every predicate that survives `dropNode`
  (`DropStable`), whether it returns or raises half-way: `InvD`.
-/
namespace FimVerif.Topo
open FimVerif FimVerif.M

def MapStable (P : Topo → Prop) : Prop :=
  ∀ f, KeepsKey f → (∀ n, (f n).name = n.name) → ∀ s, P s → P (mapNodes f s)
def KeyStable (P : Topo → Prop) : Prop := ∀ f, KeepsKey f → ∀ s, P s → P (mapNodes f s)
def DropStable (P : Topo → Prop) : Prop := ∀ r s, P s → P (dropNode r s)

theorem KeyStable.map {P : Topo → Prop} (h : KeyStable P) : MapStable P := fun f hf _ s hs => h f hf s hs

theorem keyStable_invS : KeyStable InvS := fun _ hf _ h => invS_mapNodes hf h
theorem keyStable_invD : KeyStable InvD := fun _ hf _ h => invD_mapNodes hf h
theorem mapStable_names : MapStable NamesOk := fun _ hf hn _ h => namesOk_mapNodes hf hn h
theorem mapStable_inv : MapStable Inv := fun _ hf hn _ h => ⟨invS_mapNodes hf h.struct, namesOk_mapNodes hf hn h.names⟩
theorem dropStable_invD : DropStable InvD := fun r _ h => invD_dropNode r h

theorem keepsKey_props (r : Ref) (g : Props → Props) :
    KeepsKey (fun m : GNode => if m.ref == r then { m with props := g m.props } else m) := by
  intro n; dsimp only; split <;> simp

theorem keepsName_props (r : Ref) (g : Props → Props) (n : GNode) :
    ((fun m : GNode => if m.ref == r then { m with props := g m.props } else m) n).name = n.name := by
  dsimp only; split <;> rfl

theorem keepsKey_rename (r : Ref) (nm : String) (g : Props → Props) :
    KeepsKey (fun m : GNode => if m.ref == r then { m with name := nm, props := g m.props } else m) := by
  intro n; dsimp only; split <;> simp

/-! ## set / unset / rename -/

theorem preserves_updateProps {P : Topo → Prop} (hP : MapStable P) (nid : Nid) (new : Props) : Preserves P (updateProps nid new) := by
  unfold updateProps
  refine Preserves.bind (ReadOnly.preserves (readOnly_findNode _)) (fun n => preserves_modify (fun s h => ?_))
  exact hP _ (keepsKey_props n.ref (fun p => dictUpdate p new)) (keepsName_props n.ref (fun p => dictUpdate p new)) s h

theorem preserves_setProps {P : Topo → Prop} (hP : MapStable P) (nid : Nid) (props : List PropArg) : Preserves P (setProps nid props) := by
  unfold setProps
  exact Preserves.bind (ReadOnly.preserves (readOnly_ofExcept _)) (fun _ => preserves_updateProps hP _ _)

theorem preserves_unsetProp {P : Topo → Prop} (hP : MapStable P) (nid : Nid) (g : Option String) : Preserves P (unsetProp nid g) := by
  unfold unsetProp
  split
  · exact ReadOnly.preserves (readOnly_pure _)
  · refine Preserves.bind (ReadOnly.preserves (readOnly_guard _ _)) (fun _ => ?_)
    refine Preserves.bind (ReadOnly.preserves (readOnly_findNode _)) (fun n => ?_)
    refine Preserves.bind (ReadOnly.preserves (readOnly_guard _ _)) (fun _ => preserves_modify (fun s h => ?_))
    exact hP _ (keepsKey_props n.ref (fun p => p.filter (fun q => q.1 != _))) (keepsName_props n.ref (fun p => p.filter (fun q => q.1 != _))) s h

theorem preserves_rename {P : Topo → Prop} (hP : KeyStable P) (cls : Cls) (nid : Nid) (nm : String) : Preserves P (rename cls nid nm) := by
  unfold rename
  refine Preserves.bind (ReadOnly.preserves (readOnly_guard _ _)) (fun _ => ?_)
  refine Preserves.bind (ReadOnly.preserves (readOnly_findNode _)) (fun n => preserves_modify (fun s h => ?_))
  exact hP _ (keepsKey_rename n.ref nm (fun p => dictUpdate p [("StitchNode", "false")])) s h

/-! ## removals -/

section
variable {P : Topo → Prop} (hP : DropStable P)
include hP

theorem preserves_deleteNode (nid : Nid) : Preserves P (deleteNode nid) := by
  unfold deleteNode
  exact Preserves.bind (ReadOnly.preserves (readOnly_findNode _)) (fun n => preserves_modify (fun s h => hP n.ref s h))

theorem preserves_removeCpAndLinks (nid : Nid) (b : Bool) : Preserves P (removeCpAndLinks nid b) := by
  unfold removeCpAndLinks
  refine Preserves.bind (ReadOnly.preserves (by ro)) (fun _ => ?_)
  refine Preserves.bind (ReadOnly.preserves (by ro)) (fun _ => ?_)
  refine Preserves.bind (ReadOnly.preserves (by ro)) (fun _ => ?_)
  exact preserves_forEach (fun _ => preserves_deleteNode hP _)

theorem preserves_removeNs (nid : Nid) : Preserves P (removeNs nid) := by
  unfold removeNs
  refine Preserves.bind (ReadOnly.preserves (by ro)) (fun _ => ?_)
  refine Preserves.bind (ReadOnly.preserves (by ro)) (fun _ => ?_)
  refine Preserves.bind (ReadOnly.preserves (by ro)) (fun _ => ?_)
  refine Preserves.bind (preserves_deleteNode hP _) (fun _ => ?_)
  exact preserves_forEach (fun _ => preserves_removeCpAndLinks hP _ _)

theorem preserves_removeCompGraph (nid : Nid) : Preserves P (removeCompGraph nid) := by
  unfold removeCompGraph
  refine Preserves.bind (ReadOnly.preserves (by ro)) (fun _ => ?_)
  refine Preserves.bind (ReadOnly.preserves (by ro)) (fun _ => ?_)
  refine Preserves.bind (ReadOnly.preserves (by ro)) (fun _ => ?_)
  refine Preserves.bind (preserves_deleteNode hP _) (fun _ => ?_)
  exact preserves_forEach (fun _ => preserves_removeNs hP _)

theorem preserves_removeNodeGraph (nid : Nid) : Preserves P (removeNodeGraph nid) := by
  unfold removeNodeGraph
  refine Preserves.bind (ReadOnly.preserves (by ro)) (fun _ => ?_)
  refine Preserves.bind (ReadOnly.preserves (by ro)) (fun _ => ?_)
  refine Preserves.bind (ReadOnly.preserves (by ro)) (fun _ => ?_)
  refine Preserves.bind (preserves_forEach (fun _ => preserves_removeCompGraph hP _)) (fun _ => ?_)
  refine Preserves.bind (ReadOnly.preserves (by ro)) (fun _ => ?_)
  refine Preserves.bind (preserves_deleteNode hP _) (fun _ => ?_)
  exact preserves_forEach (fun _ => preserves_removeNs hP _)

theorem preserves_disconnectInterface (cache : Cache) (i : IfArg) : Preserves P (disconnectInterface cache i) := by
  unfold disconnectInterface
  split
  · exact ReadOnly.preserves (readOnly_raise _)
  · refine Preserves.bind (ReadOnly.preserves (readOnly_peersOf _)) (fun _ => ?_)
    refine Preserves.bind (ReadOnly.preserves (readOnly_mapM' (fun _ => readOnly_findNode _))) (fun _ => ?_)
    split
    · exact ReadOnly.preserves (readOnly_pure _)
    · refine Preserves.bind (ReadOnly.preserves (readOnly_guard _ _)) (fun _ => ?_)
      refine Preserves.bind (preserves_removeCpAndLinks hP _ _) (fun _ => ?_)
      exact ReadOnly.preserves (readOnly_pure _)

theorem preserves_detachAll (ifs : List Nid) : Preserves P (detachAll ifs) := by
  unfold detachAll
  refine preserves_forEach (fun i => ?_)
  -- `if Rules.detachSkipsGone && !there then pure () else …` (interface already gone: skipped)
  refine Preserves.bind (ReadOnly.preserves (readOnly_read _)) (fun _ => ?_)
  refine Preserves.ite (ReadOnly.preserves (readOnly_pure _)) ?_
  refine Preserves.bind (ReadOnly.preserves (readOnly_findNode _)) (fun _ => ?_)
  have inner : ∀ (ii : Nid), Preserves P (do
        let peers ← peersOf ii
        let pn ← mapM' findNode peers
        have sp : List GNode := List.filter (fun n => n.typ == "ServicePort") pn
        match sp with
          | [] => Pure.pure ()
          | [p] => do
            let _ ← parentService p.nid
            let _ ← disconnectInterface [] (IfArg.iface ii "")
            Pure.pure ()
          | _ => raise Err.topology : M Topo Unit) := by
    intro ii
    refine Preserves.bind (ReadOnly.preserves (readOnly_peersOf _)) (fun _ => ?_)
    refine Preserves.bind (ReadOnly.preserves (readOnly_mapM' (fun _ => readOnly_findNode _))) (fun _ => ?_)
    dsimp only
    split
    · exact ReadOnly.preserves (readOnly_pure _)
    · refine Preserves.bind (ReadOnly.preserves (readOnly_parentService _)) (fun _ => ?_)
      refine Preserves.bind (preserves_disconnectInterface hP _ _) (fun _ => ?_)
      exact ReadOnly.preserves (readOnly_pure _)
    · exact ReadOnly.preserves (readOnly_raise _)
  show Preserves P (if _ then _ else _)
  refine Preserves.ite ?_ ?_
  · refine Preserves.bind (ReadOnly.preserves (readOnly_firstNeighbor _ _ _)) (fun kids => ?_)
    refine preserves_forEach (fun ii => ?_)
    refine Preserves.bind (ReadOnly.preserves (readOnly_read _)) (fun _ => ?_)
    exact Preserves.ite (ReadOnly.preserves (readOnly_pure _)) (inner ii)
  · refine Preserves.bind (ReadOnly.preserves (readOnly_pure _)) (fun kids => ?_)
    refine preserves_forEach (fun ii => ?_)
    refine Preserves.bind (ReadOnly.preserves (readOnly_read _)) (fun _ => ?_)
    exact Preserves.ite (ReadOnly.preserves (readOnly_pure _)) (inner ii)

theorem preserves_removeNode (name : String) : Preserves P (removeNode name) := by
  unfold removeNode
  refine Preserves.bind (ReadOnly.preserves (by ro)) (fun _ => ?_)
  refine Preserves.bind (ReadOnly.preserves (by ro)) (fun _ => ?_)
  refine Preserves.bind (ReadOnly.preserves (by ro)) (fun _ => ?_)
  refine Preserves.bind (ReadOnly.preserves (by ro)) (fun _ => ?_)
  refine Preserves.bind (preserves_detachAll hP _) (fun _ => ?_)
  refine Preserves.bind (ReadOnly.preserves (by ro)) (fun _ => ?_)
  exact preserves_removeNodeGraph hP _

theorem preserves_removeFacility (name : String) : Preserves P (removeFacility name) := by
  unfold removeFacility
  refine Preserves.bind (ReadOnly.preserves (by ro)) (fun _ => ?_)
  refine Preserves.bind (ReadOnly.preserves (by ro)) (fun _ => ?_)
  refine Preserves.bind (ReadOnly.preserves (by ro)) (fun _ => ?_)
  refine Preserves.bind (preserves_detachAll hP _) (fun _ => ?_)
  refine Preserves.bind (ReadOnly.preserves (by ro)) (fun _ => ?_)
  exact preserves_removeNodeGraph hP _

theorem preserves_removeSwitch (name : String) : Preserves P (removeSwitch name) := by
  unfold removeSwitch
  refine Preserves.bind (ReadOnly.preserves (by ro)) (fun _ => ?_)
  refine Preserves.bind (ReadOnly.preserves (by ro)) (fun _ => ?_)
  exact preserves_removeNode hP _

theorem preserves_removeLink (name : String) : Preserves P (removeLink name) := by
  unfold removeLink
  refine Preserves.bind (ReadOnly.preserves (by ro)) (fun _ => ?_)
  refine Preserves.bind (ReadOnly.preserves (by ro)) (fun _ => ?_)
  refine Preserves.bind (preserves_deleteNode hP _) (fun _ => ?_)
  exact preserves_forEach (fun _ => preserves_removeCpAndLinks hP _ _)

theorem preserves_removeService (name : String) : Preserves P (removeService name) := by
  unfold removeService
  refine Preserves.bind (ReadOnly.preserves (by ro)) (fun _ => ?_)
  refine Preserves.bind (ReadOnly.preserves (by ro)) (fun _ => ?_)
  refine Preserves.bind (preserves_detachAll hP _) (fun _ => ?_)
  exact preserves_removeNs hP _

theorem preserves_nodeRemoveService (parent : Nid) (name : String) : Preserves P (nodeRemoveService parent name) := by
  unfold nodeRemoveService
  refine Preserves.bind (ReadOnly.preserves (by ro)) (fun _ => ?_)
  refine Preserves.bind (ReadOnly.preserves (by ro)) (fun _ => ?_)
  refine Preserves.bind (ReadOnly.preserves (by ro)) (fun _ => ?_)
  refine Preserves.bind (preserves_detachAll hP _) (fun _ => ?_)
  exact preserves_removeNs hP _

theorem preserves_removeComponent (parent : Nid) (name : String) : Preserves P (removeComponent parent name) := by
  unfold removeComponent
  refine Preserves.bind (ReadOnly.preserves (by ro)) (fun _ => ?_)
  refine Preserves.bind (ReadOnly.preserves (by ro)) (fun _ => ?_)
  refine Preserves.bind (ReadOnly.preserves (by ro)) (fun _ => ?_)
  refine Preserves.bind (preserves_detachAll hP _) (fun _ => ?_)
  exact preserves_removeCompGraph hP _

theorem preserves_nsRemoveInterface (fl : Flavour) (svc : Nid) (name : String) : Preserves P (nsRemoveInterface fl svc name) := by
  unfold nsRemoveInterface
  refine Preserves.bind (ReadOnly.preserves (by ro)) (fun _ => ?_)
  refine Preserves.bind (ReadOnly.preserves (by ro)) (fun _ => ?_)
  refine Preserves.bind (ReadOnly.preserves (by ro)) (fun _ => ?_)
  exact preserves_removeCpAndLinks hP _ _

end
end FimVerif.Topo
