import FimVerif.Proofs.Lemmas.C08Sep
/-! API level: the disconnect loop that precedes the graph-level removal in `Topology.remove_node`, `remove_facility`,
`Node.remove_component`, and the closed forms of these calls. -/
namespace FimVerif.Remove

def LinksClear (g : G) (A : List Nat) (i : Nat) : Bool :=
  (g.nbrs i .connects .link).all (fun l => !A.contains l && (g.nbrs l .connects .cp).all (fun e => !A.contains e))

theorem peers_minus (g : G) (A : List Nat) (i : Nat) (hi : A.contains i = false) (h : LinksClear g A i = true) :
    peers (g.minus A) i = peers g i := by
  have hall := List.all_eq_true.mp h
  simp only [peers]
  have hl : (g.nbrs i .connects .link).filter (fun y => !A.contains y) = g.nbrs i .connects .link := by
    apply filter_eq_self_of_all
    apply List.all_eq_true.mpr; intro l hl; have := hall l hl; simp only [Bool.and_eq_true] at this; exact this.1
  rw [nbrs_minus g A i _ _ hi, hl]
  apply flatMap_congr'
  intro l hl'
  have := hall l hl'
  simp only [Bool.and_eq_true, Bool.not_eq_true'] at this
  rw [nbrs_minus g A l _ _ this.1, filter_eq_self_of_all this.2]

theorem mem_peers_notin (g : G) (A : List Nat) (i : Nat) (h : LinksClear g A i = true) :
    ∀ p ∈ peers g i, A.contains p = false := by
  have hall := List.all_eq_true.mp h
  intro p hp
  simp only [peers, List.mem_flatMap, List.mem_filter] at hp
  obtain ⟨l, hl, hp, _⟩ := hp
  have := hall l hl
  simp only [Bool.and_eq_true, Bool.not_eq_true'] at this
  simpa using List.all_eq_true.mp this.2 p hp

theorem spPeers_minus (g : G) (A : List Nat) (i : Nat) (hi : A.contains i = false) (h : LinksClear g A i = true) :
    spPeers (g.minus A) i = spPeers g i := by
  simp only [spPeers, peers_minus g A i hi h]
  apply List.filter_congr
  intro p hp
  rw [kind_minus, mem_peers_notin g A i h p hp]; rfl

/-- what the disconnect loop deletes for interface `i`: the service-side port (with its link) when there is exactly one -/
def discDel (g : G) (i : Nat) : List Nat :=
  match spPeers g i with
  | [p] => cpDel g p true
  | _ => []

def SepDisc (g : G) (A : List Nat) (i : Nat) : Bool :=
  g.has i && !A.contains i && LinksClear g A i &&
  (match spPeers g i with
   | [] => true
   | [p] => (g.nbrs p .connects .ns).length == 1 && (g.nbrs p .connects .ns).all (fun s => !A.contains s) &&
            g.has p && Sep g A p true
   | _ => false)

def SepDiscSeq (g : G) : List Nat → List Nat → Bool
  | _, [] => true
  | A, i :: is => SepDisc g A i && SepDiscSeq g (A ++ discDel g i) is

theorem disconnectStep_after (g : G) (A : List Nat) (i : Nat) (hd : SepDisc g A i = true) :
    disconnectStep (g.minus A) i = .ok (g.minus (A ++ discDel g i)) := by
  simp only [SepDisc, Bool.and_eq_true, Bool.not_eq_true'] at hd
  obtain ⟨⟨⟨hi, hiA⟩, hlc⟩, hm⟩ := hd
  have hi' : (g.minus A).has i = true := by rw [has_minus, hiA, hi]; rfl
  unfold disconnectStep
  rw [spPeers_minus g A i hiA hlc]
  cases hsp : spPeers g i with
  | nil => simp [discDel, hsp]
  | cons p rest =>
    cases rest with
    | nil =>
      simp only [hsp, Bool.and_eq_true, beq_iff_eq] at hm
      obtain ⟨⟨⟨hlen, hnsA⟩, hp⟩, hsep⟩ := hm
      have hpA : A.contains p = false := mem_cpFamily_notin g A p true hsep p (by simp [cpFamily])
      have hlen' : ((g.minus A).nbrs p .connects .ns).length = 1 := by
        rw [nbrs_minus g A p _ _ hpA, filter_eq_self_of_all hnsA]; exact hlen
      simp only [hlen', beq_self_eq_true, ite_true, disconnectG, hi', spPeers_minus g A i hiA hlc, hsp,
        removeCp_after g A p true hp hsep, Except.map, discDel]
    | cons q rest' => simp [hsp] at hm

theorem disconnectAll_after (g : G) : ∀ (is A : List Nat), SepDiscSeq g A is = true →
    disconnectAll (g.minus A) is = .ok (g.minus (A ++ is.flatMap (discDel g)))
  | [], A, _ => by simp [disconnectAll, List.foldlM_nil, pure, Except.pure]
  | i :: is, A, h => by
    simp only [SepDiscSeq, Bool.and_eq_true] at h
    have ih := disconnectAll_after g is _ h.2
    simp only [disconnectAll, List.foldlM_cons, disconnectStep_after g A i h.1, bind, Except.bind] at ih ⊢
    rw [ih]; simp [List.flatMap_cons, List.append_assoc]

/-- the interfaces `_disconnect_interfaces` visits -/
def deepIfs (g : G) (ifs : List Nat) : List Nat := ifs.flatMap (withSubs g)

theorem disconnectDeep_after (g : G) (ifs : List Nat) (h : SepDiscSeq g [] (deepIfs g ifs) = true) :
    disconnectDeep g ifs = .ok (g.minus ((deepIfs g ifs).flatMap (discDel g))) := by
  have h1 := disconnectAll_after g _ [] h
  rw [minus_nil] at h1
  simpa [disconnectDeep, deepIfs] using h1

/-- closed form of `Topology.remove_node(name)` / `remove_facility`: the ports disconnected first (for every interface
and sub-interface), then the node's structure -/
def nodeApiDel (g : G) (n : Nat) : List Nat := (deepIfs g (ifaceListNode g n)).flatMap (discDel g) ++ nodeDel g n

def SepNodeApi (g : G) (n : Nat) : Bool :=
  SepDiscSeq g [] (deepIfs g (ifaceListNode g n)) && SepNode g ((deepIfs g (ifaceListNode g n)).flatMap (discDel g)) n

theorem removeNodeApi_closed (g : G) (n : Nat) (hk : (g.cls? n == some .node && g.kind? n != some kFacility) = true)
    (h : SepNodeApi g n = true) : removeNodeApi g n = .ok (g.minus (nodeApiDel g n)) := by
  simp only [SepNodeApi, Bool.and_eq_true] at h
  simp only [removeNodeApi, hk, ite_true, disconnectDeep_after g _ h.1, bind, Except.bind]
  exact removeNodeG_after g _ n h.2

theorem removeFacilityApi_closed (g : G) (n : Nat) (hk : (g.cls? n == some .node && g.kind? n == some kFacility) = true)
    (h : SepNodeApi g n = true) : removeFacilityApi g n = .ok (g.minus (nodeApiDel g n)) := by
  simp only [SepNodeApi, Bool.and_eq_true] at h
  simp only [removeFacilityApi, hk, ite_true, disconnectDeep_after g _ h.1, bind, Except.bind]
  exact removeNodeG_after g _ n h.2

def compApiDel (g : G) (c : Nat) : List Nat := (deepIfs g (ifaceListComp g c)).flatMap (discDel g) ++ compDel g c

def SepCompApi (g : G) (c : Nat) : Bool :=
  SepDiscSeq g [] (deepIfs g (ifaceListComp g c)) && SepComp g ((deepIfs g (ifaceListComp g c)).flatMap (discDel g)) c

theorem removeComponentApi_closed (g : G) (c : Nat) (h : SepCompApi g c = true) :
    removeComponentApi g c = .ok (g.minus (compApiDel g c)) := by
  simp only [SepCompApi, Bool.and_eq_true] at h
  have hc : g.cls? c = some .comp := by
    have := h.2; simp only [SepComp, Bool.and_eq_true, beq_iff_eq] at this; exact this.1.1.1
  simp only [removeComponentApi, hc, beq_self_eq_true, ite_true, disconnectDeep_after g _ h.1, bind, Except.bind]
  exact removeComp_after g _ c h.2

/-- closed form of `Topology.remove_network_service` / `Node.remove_network_service` -/
def nsApiDel (g : G) (s : Nat) : List Nat := (deepIfs g (g.nbrs s .connects .cp)).flatMap (discDel g) ++ nsDel g s

def SepNsApi (g : G) (s : Nat) : Bool :=
  SepDiscSeq g [] (deepIfs g (g.nbrs s .connects .cp)) && SepNs g ((deepIfs g (g.nbrs s .connects .cp)).flatMap (discDel g)) s

theorem removeNsApi_closed (g : G) (s : Nat) (h : SepNsApi g s = true) :
    removeNsApi g s = .ok (g.minus (nsApiDel g s)) := by
  simp only [SepNsApi, Bool.and_eq_true] at h
  have hc : g.cls? s = some .ns := by
    have := h.2; simp only [SepNs, Bool.and_eq_true, beq_iff_eq] at this; exact this.1.1.1
  simp only [removeNsApi, hc, beq_self_eq_true, ite_true, disconnectDeep_after g _ h.1, bind, Except.bind]
  exact removeNs_after g _ s h.2

/-- the ServicePorts a link peers -/
def spEnds (g : G) (l : Nat) : List Nat := (g.nbrs l .connects .cp).filter (fun p => g.kind? p == some kServicePort)

/-- closed form of `Topology.remove_link` -/
def linkApiDel (g : G) (l : Nat) : List Nat := l :: (spEnds g l).flatMap (fun p => cpDel g p true)

theorem removeLinkApi_closed (g : G) (l : Nat) (hc : g.cls? l = some .link) (h : SepSeq g [l] (spEnds g l) = true) :
    removeLinkApi g l = .ok (g.minus (linkApiDel g l)) := by
  simp only [removeLinkApi, hc, beq_self_eq_true, ite_true]
  have := seqCp g _ [l] h
  simpa [linkApiDel, spEnds] using this

end FimVerif.Remove
