import FimVerif.Proofs.Lemmas.C17Script
import FimVerif.Proofs.Lemmas.C17Sym
/-! An edited copy agrees with the original on the kinds of everything both contain (C17): the symmetry of the "modified" part
needs no extra hypothesis for the pairs the property quantifies over. -/
namespace FimVerif.Diff

section
variable {α ε : Type} [Named α]

/-- what an edited dictionary holds under the name of an element of the original: the element itself, or the element with a
child script applied -/
theorem edited_partner (app : ε → α → α) (happ : ∀ e y, name (app e y) = name y) (es : List (DEdit α ε)) (d : List α)
    (hd : WfDict d) (hnc : NC es d) (x : α) (hx : x ∈ d) (y : α) (hy : get? (applyD app es d) (name x) = some y) :
    y = x ∨ ∃ e, DEdit.modify (name x) e ∈ es ∧ y = app e x := by
  have hgx : get? d (name x) = some x := (get?_eq_some_iff hd _ _).2 ⟨hx, rfl⟩
  have h := (get?_applyD app happ es d hd hnc).2 (name x)
  rw [hy] at h
  cases he : get? es (name x) with
  | none =>
    rw [he] at h
    simp only [hgx, Option.some.injEq] at h
    exact Or.inl h
  | some e =>
    rw [he] at h
    obtain ⟨hem, hen⟩ := get?_some_mem he
    cases e with
    | add z =>
      have hok := hnc.2 _ hem
      simp only [okFor, Bool.not_eq_true'] at hok
      have hz : name z = name x := by simpa [Named.name, DEdit.target] using hen
      rw [hz, hasKey_self hx] at hok
      cases hok
    | remove k => simp [DEdit.result] at h
    | modify k e' =>
      have hk : k = name x := by simpa [Named.name, DEdit.target] using hen
      subst hk
      simp only [DEdit.result, hgx, Option.map_some, Option.some.injEq] at h
      exact Or.inr ⟨e', hem, h⟩

end

section
variable {V : Type} [DecidableEq V]

omit [DecidableEq V] in
theorem Svc.KindsAgree.refl (s : Svc V) (hw : WfDict (dictOf s.ifs)) : Svc.KindsAgree s s := by
  intro x hx y hy
  have : get? (dictOf s.ifs) x.name = some x := (get?_eq_some_iff hw _ _).2 ⟨hx, rfl⟩
  rw [this] at hy
  cases hy; rfl

omit [DecidableEq V] in
theorem kindsAgree_applySvc (sc : SvcScript V) (s : Svc V) (hs : WfDict (dictOf s.ifs)) (hnc : sc.NC s) :
    Svc.KindsAgree s (applySvc sc s) := by
  intro x hx y hy
  have hy' : get? (applyD applyIface sc.ifs (dictOf s.ifs)) (name x) = some y := by
    have : dictOf (applySvc sc s).ifs = applyD applyIface sc.ifs (dictOf s.ifs) := dictOf_applyO _ _ _
    rw [← this]; simpa [Named.name] using hy
  rcases edited_partner applyIface (fun _ _ => rfl) sc.ifs (dictOf s.ifs) hs hnc.1 x hx y hy' with rfl | ⟨e, _, rfl⟩
  · rfl
  · rfl

omit [DecidableEq V] in
theorem kindsAgree_applyNode (sc : NodeScript V) (n : Node V) (hn : n.Wf) (hnc : sc.NC n) :
    Node.KindsAgree n (applyNode sc n) := by
  intro x hx y hy
  have hy' : get? (applyD applyComp sc.comps (dictOf n.comps)) (name x) = some y := by
    have : dictOf (applyNode sc n).comps = applyD applyComp sc.comps (dictOf n.comps) := dictOf_applyO _ _ _
    rw [← this]; simpa [Named.name] using hy
  rcases edited_partner applyComp (fun _ _ => rfl) sc.comps (dictOf n.comps) hn.1 hnc.1 x hx y hy' with rfl | ⟨e, he, rfl⟩
  · refine ⟨rfl, fun sx hsx sy hsy => ?_⟩
    have : sx = sy := by
      have h1 : (dictOf y.svcs).head? = some sx := hsx
      have h2 : (dictOf y.svcs).head? = some sy := hsy
      rw [h1] at h2; exact Option.some.inj h2
    subst this
    exact Svc.KindsAgree.refl sx (hn.2.2 y hx sx hsx).1
  · refine ⟨rfl, fun sx hsx sy hsy => ?_⟩
    have hcn : e.NC x := hnc.2.2 _ he x ((get?_eq_some_iff hn.1 _ _).2 ⟨hx, rfl⟩)
    have hh := head_applyComp e x
    have h1 : (dictOf x.svcs).head? = some sx := hsx
    rw [h1] at hh
    cases hes : e.svc with
    | none =>
      rw [hes] at hh
      have h2 : (dictOf (applyComp e x).svcs).head? = some sy := hsy
      simp only [hh] at h2
      have : sx = sy := by simpa using h2
      subst this
      exact Svc.KindsAgree.refl sx (hn.2.2 x hx sx hsx).1
    | some ss =>
      rw [hes] at hh
      have h2 : (dictOf (applyComp e x).svcs).head? = some sy := hsy
      simp only [hh] at h2
      have : applySvc ss sx = sy := by simpa using h2
      subst this
      exact kindsAgree_applySvc ss sx (hn.2.2 x hx sx hsx).1 (hcn ss hes sx hsx)

end

end FimVerif.Diff
