import FimVerif.Proofs.Lemmas.C13Closure
/-! Helper lemmas for C13: the abstract store, the run of generate_adms as store operations. -/
namespace FimVerif.Arm

namespace Store

theorem lookup_filter_ne {α : Type} (s : List (String × α)) {x y : String} (h : y ≠ x) :
    List.lookup y (s.filter (fun p => p.1 != x)) = List.lookup y s := by
  induction s with
  | nil => rfl
  | cons p s ih =>
    rcases p with ⟨k, v⟩
    by_cases hk : k = x
    · subst hk
      have : (y == k) = false := by simpa using h
      simp [List.filter, List.lookup, this, ih]
    · have hk' : (k != x) = true := by simpa using hk
      simp only [List.filter, hk', List.lookup]
      split <;> simp_all

@[simp] theorem get_set_eq (s : Store) (x : String) (g : G) : (s.set x g).get x = some g := by
  simp [get, set]

theorem get_set_ne (s : Store) {x y : String} (g : G) (h : y ≠ x) : (s.set x g).get y = s.get y := by
  have : (y == x) = false := by simpa using h
  simp [get, set, List.lookup, this, lookup_filter_ne s h]

theorem get_modify_eq (s : Store) (x : String) (f : G → G) : (s.modify x f).get x = (s.get x).map f := by
  unfold modify
  cases h : s.get x with
  | none => simp [h]
  | some g => simp

theorem get_modify_ne (s : Store) {x y : String} (f : G → G) (h : y ≠ x) : (s.modify x f).get y = s.get y := by
  unfold modify
  cases h' : s.get x with
  | none => rfl
  | some g => exact get_set_ne s _ h

/-- a fold of modifications of graph `x` -/
theorem get_foldl_modify {α : Type} (l : List α) (f : α → G → G) (x y : String) (s : Store) :
    (l.foldl (fun s a => s.modify x (f a)) s).get y =
      if y = x then (s.get x).map (fun h => l.foldl (fun h a => f a h) h) else s.get y := by
  induction l generalizing s with
  | nil => by_cases h : y = x <;> simp [h]
  | cons a l ih =>
    simp only [List.foldl_cons]
    rw [ih]
    by_cases h : y = x
    · simp only [h, if_true, get_modify_eq]
      cases s.get x <;> simp
    · simp [h, get_modify_ne s (f a) h]

end Store

theorem eq_of_nodup_map {α β : Type} (f : α → β) {l : List α} (h : (l.map f).Nodup) {a b : α}
    (ha : a ∈ l) (hb : b ∈ l) (hf : f a = f b) : a = b := by
  induction l with
  | nil => cases ha
  | cons c l ih =>
    simp only [List.map_cons, List.nodup_cons, List.mem_map, not_exists, not_and] at h
    rcases List.mem_cons.1 ha with rfl | ha' <;> rcases List.mem_cons.1 hb with rfl | hb'
    · rfl
    · exact absurd hf.symm (h.1 b hb')
    · exact absurd hf (h.1 a ha')
    · exact ih h.2 ha' hb'

/-- the fold of deletions -/
theorem foldl_deleteNode (xs : List String) (h : G) :
    xs.foldl (fun h x => h.deleteNode x) h =
      { nodes := h.nodes.filter (fun n => decide (n.id ∉ xs)),
        edges := h.edges.filter (fun e => decide (e.a ∉ xs) && decide (e.b ∉ xs)) } := by
  induction xs generalizing h with
  | nil =>
    cases h
    have ht : ∀ {α : Type} (l : List α), l.filter (fun _ => true) = l := by
      intro α l; induction l <;> simp_all
    simp [ht]
  | cons x xs ih =>
    simp only [List.foldl_cons]
    rw [ih]
    unfold G.deleteNode
    simp only [List.filter_filter, List.mem_cons, not_or]
    congr 1
    · apply List.filter_congr; intro n _; by_cases h1 : n.id = x <;> simp [h1]
    · apply List.filter_congr; intro e _
      by_cases h1 : e.a = x <;> by_cases h2 : e.b = x <;> simp [h1, h2]


/-- what `rewriteNode n0 d` does to one node -/
def rw1 (d : String) (n0 n : Node) : Node :=
  if n.id = n0.id then { n with ldel := n0.ldel.restrict d, cdel := n0.cdel.restrict d } else n

theorem foldl_rewriteNode (d : String) (cs : List Node) (h : G) :
    cs.foldl (fun h n0 => h.rewriteNode n0 d) h =
      { h with nodes := h.nodes.map (fun n => cs.foldl (fun n n0 => rw1 d n0 n) n) } := by
  induction cs generalizing h with
  | nil => simp
  | cons c cs ih =>
    simp only [List.foldl_cons]
    rw [ih]
    unfold G.rewriteNode
    simp only [List.map_map]
    congr 1

/-- folding the rewrites of (catalogued) nodes of a graph with unique ids over one of its nodes
gives that node's own rewrite -/
theorem foldl_rw1 (d : String) {ns : List Node} (hnd : (ns.map (·.id)).Nodup) {n : Node} (hn : n ∈ ns)
    (cs : List Node) (hcs : ∀ c ∈ cs, c ∈ ns ∧ c.catalogued = true) (m : Node)
    (hm : m = n ∨ m = n.rewrite d) :
    cs.foldl (fun n n0 => rw1 d n0 n) m = if n ∈ cs then n.rewrite d else m := by
  induction cs generalizing m with
  | nil => simp
  | cons c cs ih =>
    simp only [List.foldl_cons]
    have hc := hcs c (List.mem_cons_self ..)
    have hcs' : ∀ c ∈ cs, c ∈ ns ∧ c.catalogued = true := fun c' h' => hcs c' (List.mem_cons_of_mem _ h')
    have hmid : m.id = n.id := by rcases hm with rfl | rfl <;> simp
    by_cases hcn : c = n
    · subst hcn
      have : rw1 d c m = c.rewrite d := by
        unfold rw1 Node.rewrite
        rcases hm with rfl | rfl
        · simp [hc.2]
        · simp [hc.2, Node.rewrite]
      rw [this, ih hcs' _ (Or.inr rfl)]
      simp
    · have hid : ¬ m.id = c.id := by
        rw [hmid]; intro he
        exact hcn (eq_of_nodup_map (·.id) hnd hc.1 hn he.symm)
      have : rw1 d c m = m := by unfold rw1; simp [hid]
      rw [this, ih hcs' m hm]
      have : (n ∈ c :: cs) ↔ n ∈ cs := by
        simp only [List.mem_cons]; constructor
        · rintro (h | h); exact absurd h.symm hcn; exact h
        · exact Or.inr
      simp only [this]

theorem rewrite_eq_self_of_not_catalogued {n : Node} (d : String) (h : n.catalogued = false) : n.rewrite d = n := by
  unfold Node.rewrite; simp [h]

/-- rewriting every catalogued node by id = mapping `rewrite` over the nodes (ids unique) -/
theorem foldl_rewriteNode_catalogued (d : String) (g : G) (hnd : g.ids.Nodup) :
    (g.nodes.filter (·.catalogued)).foldl (fun h n0 => h.rewriteNode n0 d) g =
      { g with nodes := g.nodes.map (·.rewrite d) } := by
  rw [foldl_rewriteNode]
  congr 1
  apply List.map_congr_left
  intro n hn
  rw [foldl_rw1 d hnd hn _ (fun c hc => by simpa using hc) n (Or.inl rfl)]
  by_cases hc : n.catalogued = true
  · simp [hn, hc]
  · have hc' : n.catalogued = false := by simpa using hc
    simp [hc', rewrite_eq_self_of_not_catalogued d hc']




theorem keepOn_eq (cfg : Cfg) (g : G) (d : String) : keepOn cfg g (keep0 cfg g d) = keepSet cfg g d := rfl

theorem get_rewriteAll (g0 : G) (d x y : String) (s : Store) :
    (rewriteAll g0 d x s).get y =
      if y = x then (s.get x).map (fun h => (g0.nodes.filter (·.catalogued)).foldl (fun h n0 => h.rewriteNode n0 d) h)
      else s.get y := by
  unfold rewriteAll; exact Store.get_foldl_modify _ _ _ _ _

theorem get_deleteAll (g0 : G) (keep : List String) (x y : String) (s : Store) :
    (deleteAll g0 keep x s).get y =
      if y = x then (s.get x).map (fun h => (g0.ids.filter (fun y => !decide (y ∈ keep))).foldl (fun h y => h.deleteNode y) h)
      else s.get y := by
  unfold deleteAll; exact Store.get_foldl_modify _ _ _ _ _

/-- an iteration touches only the graph id it generates -/
theorem stepS_frame (cfg : Cfg) (arm : String) (g0 : G) (gid : String → String) (s : Store) (d y : String)
    (hy : y ≠ gid d) : (stepS cfg arm g0 gid s d).get y = s.get y := by
  unfold stepS
  cases hs : s.get arm with
  | none => rfl
  | some self0 =>
    simp only
    rw [get_deleteAll, if_neg hy, get_rewriteAll, if_neg hy, Store.get_set_ne _ _ hy]

theorem keepSet_sub_ids {cfg : Cfg} {g : G} {d x : String} (h : x ∈ keepSet cfg g d) : x ∈ g.ids := by
  unfold keepSet keep0 holders stitchNodes at h
  simp only [List.mem_append, List.mem_map, List.mem_filter] at h
  rcases h with ((⟨n, ⟨hn, _⟩, rfl⟩ | ⟨n, ⟨hn, _⟩, rfl⟩) | h) | h
  · exact List.mem_map.2 ⟨n, hn, rfl⟩
  · exact List.mem_map.2 ⟨n, hn, rfl⟩
  · rcases mem_pairIds.1 h with ⟨p, hp, h | h⟩ <;> subst h <;>
      rcases linkPairs_sound hp with ⟨c0, _, t, _, hfs⟩
    · exact firstSecond_fst_mem_ids hfs
    · exact firstSecond_snd_mem_ids hfs
  · rcases mem_pairIds.1 h with ⟨p, hp, h | h⟩ <;> subst h <;>
      rcases mem_ownerPairs.1 hp with ⟨c0, _, t, _, hfs⟩
    · exact firstSecond_fst_mem_ids hfs
    · exact firstSecond_snd_mem_ids hfs

/-- one iteration, on a store whose ARM is still the graph read at the start and with a graph id
other than the ARM's: the generated graph is exactly `genAdm` -/
theorem stepS_get (cfg : Cfg) (arm : String) (g0 : G) (gid : String → String) (s : Store) (d : String)
    (hs : s.get arm = some g0) (hfresh : gid d ≠ arm) (hnd : g0.ids.Nodup)
    (hends : ∀ e ∈ g0.edges, e.a ∈ g0.ids ∧ e.b ∈ g0.ids) :
    (stepS cfg arm g0 gid s d).get (gid d) = some (genAdm cfg g0 d) := by
  unfold stepS
  simp only [hs]
  have harm : arm ≠ gid d := fun h => hfresh h.symm
  have hself : ((rewriteAll g0 d (gid d) (Store.set s (gid d) g0)).get arm).getD g0 = g0 := by
    rw [get_rewriteAll, if_neg harm, Store.get_set_ne _ _ harm, hs]; rfl
  rw [hself]
  have hk : holders g0 d ++ stitchNodes cfg g0 = keep0 cfg g0 d := rfl
  rw [hk, keepOn_eq, get_deleteAll, if_pos rfl, get_rewriteAll, if_pos rfl, Store.get_set_eq]
  simp only [Option.map_some]
  rw [foldl_rewriteNode_catalogued d g0 hnd, foldl_deleteNode]
  unfold genAdm
  simp only [List.filter_map, Option.some.injEq, G.mk.injEq]
  constructor
  · congr 1
    apply List.filter_congr
    intro n hn
    have hid : n.id ∈ g0.ids := List.mem_map.2 ⟨n, hn, rfl⟩
    simp [hid]
  · apply List.filter_congr
    intro e he
    have := hends e he
    simp [this.1, this.2]



theorem foldl_stepS_frame (cfg : Cfg) (arm : String) (g0 : G) (gid : String → String) (ds : List String) (s : Store)
    (y : String) (hy : ∀ d ∈ ds, gid d ≠ y) : (ds.foldl (stepS cfg arm g0 gid) s).get y = s.get y := by
  induction ds generalizing s with
  | nil => rfl
  | cons d ds ih =>
    simp only [List.foldl_cons]
    rw [ih _ (fun d' h' => hy d' (List.mem_cons_of_mem _ h'))]
    exact stepS_frame cfg arm g0 gid s d y (fun h => hy d (List.mem_cons_self ..) h.symm)

theorem foldl_stepS_get (cfg : Cfg) (arm : String) (g0 : G) (gid : String → String) (ds : List String) (s : Store)
    (hs : s.get arm = some g0) (hfresh : ∀ d ∈ ds, gid d ≠ arm) (hinj : (ds.map gid).Nodup)
    (hnd : g0.ids.Nodup) (hends : ∀ e ∈ g0.edges, e.a ∈ g0.ids ∧ e.b ∈ g0.ids) (d : String) (hd : d ∈ ds) :
    (ds.foldl (stepS cfg arm g0 gid) s).get (gid d) = some (genAdm cfg g0 d) := by
  induction ds generalizing s with
  | nil => cases hd
  | cons d0 ds ih =>
    simp only [List.foldl_cons]
    simp only [List.map_cons, List.nodup_cons, List.mem_map, not_exists, not_and] at hinj
    have hs1 : (stepS cfg arm g0 gid s d0).get arm = some g0 := by
      rw [stepS_frame cfg arm g0 gid s d0 arm (fun h => hfresh d0 (List.mem_cons_self ..) h.symm)]; exact hs
    rcases List.mem_cons.1 hd with rfl | hd'
    · rw [foldl_stepS_frame cfg arm g0 gid ds _ (gid d) (fun d' h' => hinj.1 d' h')]
      exact stepS_get cfg arm g0 gid s d hs (hfresh d (List.mem_cons_self ..)) hnd hends
    · exact ih _ hs1 (fun d' h' => hfresh d' (List.mem_cons_of_mem _ h')) hinj.2 hd'

end FimVerif.Arm
