import FimVerif.Proofs.Lemmas.C08Api
import FimVerif.Proofs.Lemmas.C08Frame
/-! Handle caches: the interface list kept by the handle used for an operation against a fresh lookup. -/
namespace FimVerif.Remove

/-- the interfaces a fresh handle of `s` lists after `remove_cp_and_links(x)` are the old ones without `x`,
when only `x` itself is deleted among connection points (`cpFamily = [x]`) -/
theorem fresh_after_cpDel (g : G) (s x : Nat) (dp : Bool) (h : List Nat)
    (hfam : cpFamily g x dp = [x]) (hs : (cpDel g x dp).contains s = false)
    (hh : ∀ y, y ∈ h ↔ y ∈ freshIfs g s) :
    ∀ y, y ∈ h.filter (fun z => z != x) ↔ y ∈ freshIfs (g.minus (cpDel g x dp)) s := by
  intro y
  simp only [freshIfs] at hh ⊢
  rw [nbrs_minus g _ s _ _ hs]
  simp only [List.mem_filter, hh y, bne_iff_ne, ne_eq, Bool.not_eq_true', List.contains_eq_mem, decide_eq_false_iff_not]
  constructor
  · rintro ⟨hy, hne⟩
    refine ⟨hy, ?_⟩
    intro hmem
    simp only [cpDel, hfam, mem_dedup, List.mem_append, List.mem_singleton, cpLinks, List.mem_flatMap, List.mem_filter] at hmem
    rcases hmem with rfl | ⟨i, _, hl, _⟩
    · exact hne rfl
    · have h1 := mem_nbrs_cls _ _ _ _ _ hl
      have h2 := mem_nbrs_cls _ _ _ _ _ hy
      rw [h1] at h2; cases h2
  · rintro ⟨hy, hnot⟩
    refine ⟨hy, ?_⟩
    rintro rfl
    apply hnot
    simp [cpDel, hfam, mem_dedup]

theorem hIds_hDrop (h : List IfH) (p : Nat) : hIds (hDrop h p) = (hIds h).filter (fun z => z != p) := by
  simp only [hIds, hDrop, List.filter_map]; rfl

/-- **`disconnect_interface`: the handle used reports what a fresh lookup reports** — about node ids; the names in the
list play no role, in particular they need not be distinct. -/
theorem disconnect_fresh (g : G) (h : List IfH) (s i : Nat) (g' : G) (h' : List IfH)
    (hrun : disconnect g h i = .ok (g', h'))
    (hshape : ∀ p ∈ spPeers g i, g.nbrs p .connects .cp = [] ∧ (cpDel g p true).contains s = false)
    (hh : ∀ y, y ∈ hIds h ↔ y ∈ freshIfs g s) :
    ∀ y, y ∈ hIds h' ↔ y ∈ freshIfs g' s := by
  obtain ⟨r, hr, heq⟩ := map_ok hrun
  simp only [Prod.mk.injEq] at heq
  obtain ⟨rfl, rfl⟩ := heq
  unfold disconnectG at hr
  split at hr
  · rename_i hi
    split at hr
    · cases hr; exact hh
    · rename_i p hsp
      obtain ⟨g1, hg1, rfl⟩ := map_ok hr
      have hp := hshape p (by simp [hsp])
      have hpres : g.has p = true := by
        have : p ∈ spPeers g i := by simp [hsp]
        simp only [spPeers, List.mem_filter, peers, List.mem_flatMap] at this
        obtain ⟨⟨l, _, hp'⟩, _⟩ := this
        exact mem_nbrs_has _ _ _ _ _ hp'.1
      rw [removeCp_minus g p true hpres] at hg1
      cases hg1
      rw [hIds_hDrop]
      exact fresh_after_cpDel g s p true (hIds h) (by simp [cpFamily, hp.1]) hp.2 hh
    · cases hr
  · cases hr

/-- fresh lookup after an arbitrary deletion set `D` that contains, among the interfaces of `s`, exactly `c` -/
theorem fresh_after_minus (g : G) (s c : Nat) (D h : List Nat) (hs : D.contains s = false)
    (hD : ∀ y ∈ freshIfs g s, y ∈ D ↔ y = c)
    (hh : ∀ y, y ∈ h ↔ y ∈ freshIfs g s) :
    ∀ y, y ∈ h.filter (fun z => z != c) ↔ y ∈ freshIfs (g.minus D) s := by
  intro y
  have e : freshIfs (g.minus D) s = (freshIfs g s).filter (fun y => !D.contains y) := nbrs_minus g D s _ _ hs
  rw [e]
  simp only [List.mem_filter, hh y, bne_iff_ne, ne_eq, Bool.not_eq_true', List.contains_eq_mem, decide_eq_false_iff_not]
  constructor
  · rintro ⟨hy, hne⟩; exact ⟨hy, fun hm => hne ((hD y hy).mp hm)⟩
  · rintro ⟨hy, hn⟩; exact ⟨hy, fun he => hn ((hD y hy).mpr he)⟩

/-- what `remove_child_interface(c)` deletes: the port and link of a connected child, then the child with its link -/
def childDel (g : G) (c : Nat) : List Nat := (deepIfs g [c]).flatMap (discDel g) ++ cpDel g c false

theorem removeChild_closed (g : G) (h : List IfH) (p c : Nat) (hk : g.kind? p = some kDedicatedPort) (hc : g.has c = true)
    (h1 : SepDiscSeq g [] (deepIfs g [c]) = true) (h2 : Sep g ((deepIfs g [c]).flatMap (discDel g)) c false = true) :
    removeChild g h p c = .ok (g.minus (childDel g c), hDrop h c) := by
  simp only [removeChild, hk, beq_self_eq_true, ite_true, disconnectDeep_after g _ h1, bind, Except.bind,
    removeCp_after g _ c false hc h2, Except.map, childDel]

/-- **`remove_child_interface`: the parent handle reports what a fresh lookup reports** (after the repairs). -/
theorem removeChild_fresh (g : G) (h : List IfH) (p c : Nat) (hk : g.kind? p = some kDedicatedPort) (hc : g.has c = true)
    (h1 : SepDiscSeq g [] (deepIfs g [c]) = true) (h2 : Sep g ((deepIfs g [c]).flatMap (discDel g)) c false = true)
    (hp : (childDel g c).contains p = false) (hD : ∀ y ∈ freshIfs g p, y ∈ childDel g c ↔ y = c)
    (hh : ∀ y, y ∈ hIds h ↔ y ∈ freshIfs g p) :
    ∃ g' h', removeChild g h p c = .ok (g', h') ∧ ∀ y, y ∈ hIds h' ↔ y ∈ freshIfs g' p :=
  ⟨_, _, removeChild_closed g h p c hk hc h1 h2, by rw [hIds_hDrop]; exact fresh_after_minus g p c _ (hIds h) hp hD hh⟩

theorem filter_ne_of_not_mem (h : List Nat) (p : Nat) (hp : p ∉ h) : ∀ y, y ∈ h.filter (fun z => z != p) ↔ y ∈ h := by
  intro y
  simp only [List.mem_filter, bne_iff_ne, ne_eq]
  constructor
  · exact fun h => h.1
  · intro hy; exact ⟨hy, fun he => hp (he ▸ hy)⟩

/-- **`unpeer`: both handles report what fresh lookups report** (after the repairs). `i`/`p` are the two ServicePorts found;
the shape hypotheses say they are plain ports of their own service. -/
theorem unpeer_fresh (g : G) (ha hb : List IfH) (a b i p : Nat) (g' : G) (ha' hb' : List IfH)
    (hfind : findPeering g ha hb = some (i, p))
    (hrun : unpeer g ha hb = .ok (g', ha', hb'))
    (hi : cpFamily g i true = [i]) (hpf : cpFamily (g.minus (cpDel g i true)) p true = [p])
    (hsa : (cpDel g i true).contains a = false) (hsb : (cpDel g i true).contains b = false)
    (hsa2 : (cpDel (g.minus (cpDel g i true)) p true).contains a = false)
    (hsb2 : (cpDel (g.minus (cpDel g i true)) p true).contains b = false)
    (hpa : p ∉ hIds ha) (hib : i ∉ hIds hb)
    (hha : ∀ y, y ∈ hIds ha ↔ y ∈ freshIfs g a) (hhb : ∀ y, y ∈ hIds hb ↔ y ∈ freshIfs g b) :
    (∀ y, y ∈ hIds ha' ↔ y ∈ freshIfs g' a) ∧ (∀ y, y ∈ hIds hb' ↔ y ∈ freshIfs g' b) := by
  unfold unpeer at hrun
  rw [hfind] at hrun
  obtain ⟨g1, h1, hrun⟩ := bind_ok hrun
  obtain ⟨g2, h2, hrun⟩ := bind_ok hrun
  simp only [Except.ok.injEq, Prod.mk.injEq] at hrun
  obtain ⟨rfl, rfl, rfl⟩ := hrun
  have hig : g.has i = true := by
    unfold removeCp at h1; split at h1
    · assumption
    · cases h1
  rw [removeCp_minus g i true hig] at h1
  cases h1
  have hpg : (g.minus (cpDel g i true)).has p = true := by
    unfold removeCp at h2; split at h2
    · assumption
    · cases h2
  rw [removeCp_minus _ p true hpg] at h2
  cases h2
  constructor
  · have s1 := fresh_after_cpDel g a i true (hIds ha) hi hsa hha
    have s2 := fresh_after_cpDel _ a p true _ hpf hsa2 s1
    intro y
    rw [hIds_hDrop, ← s2 y]
    have hp' : p ∉ (hIds ha).filter (fun z => z != i) := fun h => hpa (List.mem_filter.mp h).1
    exact (filter_ne_of_not_mem _ p hp' y).symm
  · have s1 := fresh_after_cpDel g b i true (hIds hb) hi hsb hhb
    have s1' : ∀ y, y ∈ hIds hb ↔ y ∈ freshIfs (g.minus (cpDel g i true)) b := by
      intro y; rw [← s1 y]; exact (filter_ne_of_not_mem (hIds hb) i hib y).symm
    rw [hIds_hDrop]
    exact fresh_after_cpDel _ b p true (hIds hb) hpf hsb2 s1'

end FimVerif.Remove
