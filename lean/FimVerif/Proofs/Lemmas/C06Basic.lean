import FimVerif.Model.Query
namespace FimVerif.Query
open FimVerif.Gen

/-- an undirected edge of relation `r` between `u` and `v` -/
def Edge (g : TGraph) (u v r : String) : Prop := (u, v, r) ∈ g.edges ∨ (v, u, r) ∈ g.edges

theorem Edge.symm {g : TGraph} {u v r : String} (h : Edge g u v r) : Edge g v u r := Or.symm h

theorem joins_iff {e : EdgeT} {u v : String} :
    joins e u v = true ↔ (e.1 = u ∧ e.2.1 = v) ∨ (e.1 = v ∧ e.2.1 = u) := by
  simp [joins]

theorem joins_symm (e : EdgeT) (u v : String) : joins e u v = joins e v u := by
  simp [joins, Bool.or_comm]

theorem other_eq_some {u m : String} {e : EdgeT} :
    other u e = some m ↔ (e.1 = u ∧ e.2.1 = m) ∨ (e.1 ≠ u ∧ e.2.1 = u ∧ e.1 = m) := by
  unfold other
  split
  · simp_all
  · split <;> simp_all

theorem mem_nbrs {g : TGraph} {n m : String} : m ∈ nbrs g n ↔ ∃ r, Edge g n m r := by
  unfold nbrs Edge
  rw [List.mem_filterMap]
  constructor
  · rintro ⟨⟨a, b, r⟩, he, ho⟩
    rw [other_eq_some] at ho
    rcases ho with ⟨h1, h2⟩ | ⟨_, h2, h3⟩
    · exact ⟨r, Or.inl (by simp_all)⟩
    · exact ⟨r, Or.inr (by simp_all)⟩
  · rintro ⟨r, h | h⟩
    · exact ⟨_, h, by simp [other]⟩
    · refine ⟨_, h, ?_⟩
      by_cases hmn : m = n <;> simp [other, hmn]

theorem relOf_some {g : TGraph} {u v r : String} (h : relOf g u v = some r) : Edge g u v r := by
  unfold relOf at h
  rcases hf : g.edges.find? (joins · u v) with _ | ⟨a, b, r'⟩
  · simp [hf] at h
  · simp [hf] at h
    have hm := List.mem_of_find?_eq_some hf
    have hj := List.find?_some hf
    rw [joins_iff] at hj
    subst h
    rcases hj with ⟨h1, h2⟩ | ⟨h1, h2⟩
    · left; simp_all
    · right; simp_all

/-- at most one edge per unordered pair -/
def UniqEdges (g : TGraph) : Prop := g.edges.Pairwise (fun e f => joins f e.1 e.2.1 = false)

theorem find_joins_of_pairwise {l : List EdgeT} (hp : l.Pairwise (fun e f => joins f e.1 e.2.1 = false))
    {e : EdgeT} (he : e ∈ l) {u v : String} (hj : joins e u v = true) :
    l.find? (joins · u v) = some e := by
  induction l with
  | nil => simp at he
  | cons x t ih =>
    rw [List.pairwise_cons] at hp
    by_cases hx : joins x u v = true
    · rcases List.mem_cons.1 he with rfl | het
      · simp [hx]
      · exfalso
        have := hp.1 e het
        rw [joins_iff] at hx hj
        have : joins e x.1 x.2.1 = true := by
          rw [joins_iff]
          rcases hx with ⟨a, b⟩ | ⟨a, b⟩ <;> rcases hj with ⟨c, d⟩ | ⟨c, d⟩ <;> simp_all
        simp_all
    · rcases List.mem_cons.1 he with rfl | het
      · exact absurd hj hx
      · simp [hx, ih hp.2 het]

theorem relOf_of_edge {g : TGraph} (hu : UniqEdges g) {u v r : String} (h : Edge g u v r) :
    relOf g u v = some r := by
  unfold relOf
  rcases h with h | h
  · rw [find_joins_of_pairwise hu h (by simp [joins])]; rfl
  · rw [find_joins_of_pairwise hu h (by simp [joins])]; rfl

theorem relOf_iff {g : TGraph} (hu : UniqEdges g) {u v r : String} : relOf g u v = some r ↔ Edge g u v r :=
  ⟨relOf_some, relOf_of_edge hu⟩

theorem wf_iff {g : TGraph} : wf g = true ↔
    (verts g).Nodup ∧ (∀ e ∈ g.edges, e.1 ∈ verts g ∧ e.2.1 ∈ verts g) ∧ UniqEdges g := by
  simp [wf, UniqEdges, and_assoc]

end FimVerif.Query
