import FimVerif.Proofs.Lemmas.TopoInv
import FimVerif.Proofs.Lemmas.TopoAtomicGraph
/-!
# C07 — how the conjuncts of `Topo.Inv` behave under the three ways the building calls change the graph

* `grow s N E`: fresh nodes `N` and edges `E` are appended (every creating call);
* `dropNode r s`: a node goes with its edges (every removing call);
* `mapNodes f s`: nodes are rewritten in place keeping id, class and type (set/unset property, rename).
-/
namespace FimVerif.Topo
open FimVerif FimVerif.M

/-! ## extension by fresh nodes and edges -/

def grow (s : Topo) (N : List GNode) (E : List GEdge) : Topo := ⟨s.nodes ++ N, s.edges ++ E⟩

/-- the new edges alone -/
def only (E : List GEdge) : Topo := ⟨[], E⟩

structure GrowOk (s : Topo) (N : List GNode) (E : List GEdge) : Prop where
  fresh : ∀ n ∈ N, ∀ m ∈ s.nodes, m.nid ≠ n.nid
  nodup : (N.map (·.nid)).Nodup
  vocab : ∀ n ∈ N, nodeOk n = true
  ends : ∀ e ∈ E, (∃ n ∈ s.nodes ++ N, n.ref = e.a) ∧ (∃ n ∈ s.nodes ++ N, n.ref = e.b)
  schema : ∀ e ∈ E, edgeOk e = true
  /-- a new edge ends in a new node, or it comes from a link and ends in an interface that is not a ServicePort -/
  into : ∀ e ∈ E, (∃ n ∈ N, n.ref = e.b) ∨ (e.a.cls = .link ∧ ∀ m ∈ s.nodes, m.typ = "ServicePort" → m.ref ≠ e.b)
  /-- a new edge from a link comes from a new link -/
  linkNew : ∀ e ∈ E, e.a.cls = .link → ∃ n ∈ N, n.ref = e.a

theorem filter_append_right_nil {α : Type} {p : α → Bool} {l r : List α} (h : ∀ e ∈ r, p e = false) :
    (l ++ r).filter p = l.filter p := by
  have : r.filter p = [] := List.filter_eq_nil_iff.mpr (by simpa using h)
  rw [List.filter_append, this, List.append_nil]

theorem filter_append_left_nil {α : Type} {p : α → Bool} {l r : List α} (h : ∀ e ∈ l, p e = false) :
    (l ++ r).filter p = r.filter p := by
  have : l.filter p = [] := List.filter_eq_nil_iff.mpr (by simpa using h)
  rw [List.filter_append, this, List.nil_append]

theorem ref_ne_of_fresh {s : Topo} {n m : GNode} (h : ∀ m ∈ s.nodes, m.nid ≠ n.nid) (hm : m ∈ s.nodes) : m.ref ≠ n.ref :=
  fun e => h m hm (by simpa [GNode.ref] using congrArg Ref.nid e)

theorem no_edge_into_new {s : Topo} (hc : ClosedOk s) {n : GNode} (h : ∀ m ∈ s.nodes, m.nid ≠ n.nid) :
    ∀ e ∈ s.edges, e.a ≠ n.ref ∧ e.b ≠ n.ref := by
  intro e he
  obtain ⟨⟨x, hx, hxe⟩, ⟨y, hy, hye⟩⟩ := hc e he
  exact ⟨by rw [← hxe]; exact ref_ne_of_fresh h hx, by rw [← hye]; exact ref_ne_of_fresh h hy⟩

theorem idsOk_grow {s : Topo} {N : List GNode} {E : List GEdge} (hi : IdsOk s) (hx : GrowOk s N E) : IdsOk (grow s N E) := by
  unfold IdsOk grow
  simp only [List.map_append]
  rw [List.nodup_append]
  refine ⟨hi, hx.nodup, ?_⟩
  intro a ha b hb
  obtain ⟨m, hm, rfl⟩ := List.mem_map.mp ha
  obtain ⟨n, hn, rfl⟩ := List.mem_map.mp hb
  exact hx.fresh n hn m hm

theorem closedOk_grow {s : Topo} {N : List GNode} {E : List GEdge} (hc : ClosedOk s) (hx : GrowOk s N E) : ClosedOk (grow s N E) := by
  intro e he
  simp only [grow, List.mem_append] at he
  rcases he with he | he
  · obtain ⟨⟨x, hx', hxe⟩, ⟨y, hy, hye⟩⟩ := hc e he
    exact ⟨⟨x, by simp [grow, hx'], hxe⟩, ⟨y, by simp [grow, hy], hye⟩⟩
  · exact hx.ends e he

theorem vocabOk_grow {s : Topo} {N : List GNode} {E : List GEdge} (hv : VocabOk s) (hx : GrowOk s N E) : VocabOk (grow s N E) := by
  intro n hn
  simp only [grow, List.mem_append] at hn
  rcases hn with hn | hn
  · exact hv n hn
  · exact hx.vocab n hn

theorem schemaOk_grow {s : Topo} {N : List GNode} {E : List GEdge} (hv : SchemaOk s) (hx : GrowOk s N E) : SchemaOk (grow s N E) := by
  intro e he
  simp only [grow, List.mem_append] at he
  rcases he with he | he
  · exact hv e he
  · exact hx.schema e he

/-- a new edge never ends in an old node, unless it comes from a link -/
theorem GrowOk.into_old {s : Topo} {N : List GNode} {E : List GEdge} (hx : GrowOk s N E) {e : GEdge} (he : e ∈ E) {m : GNode}
    (hm : m ∈ s.nodes) (hb : e.b = m.ref) : e.a.cls = .link ∧ m.typ ≠ "ServicePort" := by
  rcases hx.into e he with ⟨n, hn, hne⟩ | ⟨hl, hsp⟩
  · exact absurd (hne.trans hb).symm (ref_ne_of_fresh (hx.fresh n hn) hm)
  · exact ⟨hl, fun ht => hsp m hm ht hb.symm⟩

theorem ownersOf_grow_old {s : Topo} {N : List GNode} {E : List GEdge} (hx : GrowOk s N E) {m : GNode} (hm : m ∈ s.nodes) :
    ownersOf (grow s N E) m.ref = ownersOf s m.ref := by
  unfold ownersOf grow
  apply filter_append_right_nil
  intro e he
  by_cases hb : e.b = m.ref
  · have := (hx.into_old he hm hb).1
    simp [isOwnerCls, this]
  · simp [hb]

theorem parentsOf_grow_old {s : Topo} {N : List GNode} {E : List GEdge} (hx : GrowOk s N E) {m : GNode} (hm : m ∈ s.nodes) :
    parentsOf (grow s N E) m.ref = parentsOf s m.ref := by
  unfold parentsOf grow
  apply filter_append_right_nil
  intro e he
  by_cases hb : e.b = m.ref
  · have := (hx.into_old he hm hb).1
    simp [isIfParentCls, this]
  · simp [hb]

theorem linksOf_grow_old {s : Topo} {N : List GNode} {E : List GEdge} (hx : GrowOk s N E) {m : GNode} (hm : m ∈ s.nodes)
    (hsp : m.typ = "ServicePort") : linksOf (grow s N E) m.ref = linksOf s m.ref := by
  unfold linksOf grow
  apply filter_append_right_nil
  intro e he
  by_cases hb : e.b = m.ref
  · exact absurd hsp (hx.into_old he hm hb).2
  · simp [hb]

theorem ownersOf_grow_new {s : Topo} {N : List GNode} {E : List GEdge} (hc : ClosedOk s) (hx : GrowOk s N E) {n : GNode} (hn : n ∈ N) :
    ownersOf (grow s N E) n.ref = ownersOf (only E) n.ref := by
  unfold ownersOf grow only
  apply filter_append_left_nil
  intro e he
  have := (no_edge_into_new hc (hx.fresh n hn) e he).2
  simp [this]

theorem parentsOf_grow_new {s : Topo} {N : List GNode} {E : List GEdge} (hc : ClosedOk s) (hx : GrowOk s N E) {n : GNode} (hn : n ∈ N) :
    parentsOf (grow s N E) n.ref = parentsOf (only E) n.ref := by
  unfold parentsOf grow only
  apply filter_append_left_nil
  intro e he
  have := (no_edge_into_new hc (hx.fresh n hn) e he).2
  simp [this]

theorem linksOf_grow_new {s : Topo} {N : List GNode} {E : List GEdge} (hc : ClosedOk s) (hx : GrowOk s N E) {n : GNode} (hn : n ∈ N) :
    linksOf (grow s N E) n.ref = linksOf (only E) n.ref := by
  unfold linksOf grow only
  apply filter_append_left_nil
  intro e he
  have := (no_edge_into_new hc (hx.fresh n hn) e he).2
  simp [this]

theorem flatMap_congr' {α β : Type} {l : List α} {f g : α → List β} (h : ∀ a ∈ l, f a = g a) : l.flatMap f = l.flatMap g := by
  induction l with
  | nil => rfl
  | cons a l ih =>
    simp only [List.flatMap_cons]
    rw [h a (List.mem_cons_self ..), ih (fun b hb => h b (List.mem_cons_of_mem _ hb))]

theorem spPeers_grow_old {s : Topo} {N : List GNode} {E : List GEdge} (hc : ClosedOk s) (hx : GrowOk s N E) {m : GNode}
    (hm : m ∈ s.nodes) (hsp : m.typ = "ServicePort") : spPeers (grow s N E) m.ref = spPeers s m.ref := by
  unfold spPeers
  rw [linksOf_grow_old hx hm hsp]
  apply flatMap_congr'
  intro e1 he1
  have he1' := List.mem_filter.mp he1
  have hl : e1.a.cls = .link := by
    have := he1'.2; simp only [Bool.and_eq_true, beq_iff_eq] at this; exact this.2
  obtain ⟨⟨x, hxm, hxe⟩, _⟩ := hc e1 he1'.1
  simp only [grow]
  apply filter_append_right_nil
  intro e2 he2
  by_cases ha : e2.a = e1.a
  · obtain ⟨n, hn, hne⟩ := hx.linkNew e2 he2 (by rw [ha]; exact hl)
    exact absurd (hxe.trans (ha.symm.trans hne.symm)) (ref_ne_of_fresh (hx.fresh n hn) hxm)
  · simp [ha]

theorem spPeers_grow_new {s : Topo} {N : List GNode} {E : List GEdge} (hc : ClosedOk s) (hx : GrowOk s N E) {n : GNode}
    (hn : n ∈ N) : spPeers (grow s N E) n.ref = spPeers (only E) n.ref := by
  unfold spPeers
  rw [linksOf_grow_new hc hx hn]
  apply flatMap_congr'
  intro e1 he1
  have he1' := List.mem_filter.mp he1
  have hl : e1.a.cls = .link := by
    have := he1'.2; simp only [Bool.and_eq_true, beq_iff_eq] at this; exact this.2
  obtain ⟨k, hk, hke⟩ := hx.linkNew e1 he1'.1 hl
  simp only [grow, only]
  apply filter_append_left_nil
  intro e2 he2
  have := (no_edge_into_new hc (hx.fresh k hk) e2 he2).1
  rw [hke] at this
  simp [this]

/-- the structural invariant survives an extension whose new components / interfaces / service ports are complete -/
theorem invS_grow {s : Topo} {N : List GNode} {E : List GEdge} (h : InvS s) (hx : GrowOk s N E)
    (hcomp : ∀ n ∈ N, n.cls = .component → (ownersOf (only E) n.ref).length = 1)
    (hif : ∀ n ∈ N, n.cls = .connectionPoint → (parentsOf (only E) n.ref).length = 1)
    (hsp : ∀ n ∈ N, n.cls = .connectionPoint → n.typ = "ServicePort" → (spPeers (only E) n.ref).length = 1) :
    InvS (grow s N E) := by
  refine ⟨idsOk_grow h.ids hx, closedOk_grow h.closed hx, vocabOk_grow h.vocab hx, schemaOk_grow h.schema hx, ?_, ?_, ?_⟩
  · intro n hn hcls
    rcases List.mem_append.mp hn with hn | hn
    · rw [ownersOf_grow_old hx hn]; exact h.compOwned n hn hcls
    · rw [ownersOf_grow_new h.closed hx hn]; exact hcomp n hn hcls
  · intro n hn hcls
    rcases List.mem_append.mp hn with hn | hn
    · rw [parentsOf_grow_old hx hn]; exact h.ifaceOwned n hn hcls
    · rw [parentsOf_grow_new h.closed hx hn]; exact hif n hn hcls
  · intro n hn hcls ht
    rcases List.mem_append.mp hn with hn | hn
    · rw [spPeers_grow_old h.closed hx hn ht]; exact h.spPeer n hn hcls ht
    · rw [spPeers_grow_new h.closed hx hn]; exact hsp n hn hcls ht

/-- same for the downward-closed invariant -/
theorem invD_grow {s : Topo} {N : List GNode} {E : List GEdge} (h : InvD s) (hx : GrowOk s N E)
    (hcomp : ∀ n ∈ N, n.cls = .component → (ownersOf (only E) n.ref).length ≤ 1)
    (hif : ∀ n ∈ N, n.cls = .connectionPoint → (parentsOf (only E) n.ref).length ≤ 1)
    (hsp : ∀ n ∈ N, n.cls = .connectionPoint → n.typ = "ServicePort" → (spPeers (only E) n.ref).length ≤ 1) :
    InvD (grow s N E) := by
  refine ⟨idsOk_grow h.ids hx, closedOk_grow h.closed hx, vocabOk_grow h.vocab hx, schemaOk_grow h.schema hx, ?_, ?_, ?_⟩
  · intro n hn hcls
    rcases List.mem_append.mp hn with hn | hn
    · rw [ownersOf_grow_old hx hn]; exact h.compOwned n hn hcls
    · rw [ownersOf_grow_new h.closed hx hn]; exact hcomp n hn hcls
  · intro n hn hcls
    rcases List.mem_append.mp hn with hn | hn
    · rw [parentsOf_grow_old hx hn]; exact h.ifaceOwned n hn hcls
    · rw [parentsOf_grow_new h.closed hx hn]; exact hif n hn hcls
  · intro n hn hcls ht
    rcases List.mem_append.mp hn with hn | hn
    · rw [spPeers_grow_old h.closed hx hn ht]; exact h.spPeer n hn hcls ht
    · rw [spPeers_grow_new h.closed hx hn]; exact hsp n hn hcls ht

theorem InvS.down {s : Topo} (h : InvS s) : InvD s :=
  ⟨h.ids, h.closed, h.vocab, h.schema, fun n hn hc => Nat.le_of_eq (h.compOwned n hn hc),
   fun n hn hc => Nat.le_of_eq (h.ifaceOwned n hn hc), fun n hn hc ht => Nat.le_of_eq (h.spPeer n hn hc ht)⟩

/-! ## deletion -/

theorem filter_sublist_length {α : Type} {l l' : List α} (p : α → Bool) (h : l'.Sublist l) :
    (l'.filter p).length ≤ (l.filter p).length := (List.Sublist.filter p h).length_le

theorem dropNode_edges_sublist (r : Ref) (s : Topo) : (dropNode r s).edges.Sublist s.edges := List.filter_sublist
theorem dropNode_nodes_sublist (r : Ref) (s : Topo) : (dropNode r s).nodes.Sublist s.nodes := List.filter_sublist

theorem spPeers_length_mono {s s' : Topo} (h : s'.edges.Sublist s.edges) (r : Ref) :
    (spPeers s' r).length ≤ (spPeers s r).length := by
  unfold spPeers linksOf
  have h1 : (s'.edges.filter (fun e => e.rel == .connects && e.b == r && e.a.cls == .link)).Sublist
      (s.edges.filter (fun e => e.rel == .connects && e.b == r && e.a.cls == .link)) := List.Sublist.filter _ h
  have h2 : ∀ e1 : GEdge, (s'.edges.filter (fun e2 => e2.rel == .connects && e2.a == e1.a && e2.b != r)).Sublist
      (s.edges.filter (fun e2 => e2.rel == .connects && e2.a == e1.a && e2.b != r)) := fun e1 => List.Sublist.filter _ h
  generalize (s'.edges.filter (fun e => e.rel == .connects && e.b == r && e.a.cls == .link)) = L' at h1
  generalize (s.edges.filter (fun e => e.rel == .connects && e.b == r && e.a.cls == .link)) = L at h1
  induction h1 with
  | slnil => simp
  | cons a _ ih =>
    simp only [List.flatMap_cons, List.length_append]
    omega
  | cons_cons a _ ih =>
    simp only [List.flatMap_cons, List.length_append]
    have := (h2 a).length_le
    omega

/-- deleting a node with its edges keeps the downward-closed invariant -/
theorem invD_dropNode (r : Ref) {s : Topo} (h : InvD s) : InvD (dropNode r s) := by
  have hn := dropNode_nodes_sublist r s
  have he := dropNode_edges_sublist r s
  refine ⟨?_, ?_, ?_, ?_, ?_, ?_, ?_⟩
  · exact List.Nodup.sublist (List.Sublist.map _ hn) h.ids
  · intro e he'
    simp only [dropNode, List.mem_filter, Bool.and_eq_true, bne_iff_ne, ne_eq] at he'
    obtain ⟨he', hna, hnb⟩ := he'
    obtain ⟨⟨x, hx, hxe⟩, ⟨y, hy, hye⟩⟩ := h.closed e he'
    refine ⟨⟨x, ?_, hxe⟩, ⟨y, ?_, hye⟩⟩
    · simp only [dropNode, List.mem_filter, bne_iff_ne, ne_eq]; exact ⟨hx, by rw [hxe]; exact hna⟩
    · simp only [dropNode, List.mem_filter, bne_iff_ne, ne_eq]; exact ⟨hy, by rw [hye]; exact hnb⟩
  · intro n hn'; exact h.vocab n (hn.subset hn')
  · intro e he'; exact h.schema e (he.subset he')
  · intro n hn' hc
    exact Nat.le_trans (filter_sublist_length _ he) (h.compOwned n (hn.subset hn') hc)
  · intro n hn' hc
    exact Nat.le_trans (filter_sublist_length _ he) (h.ifaceOwned n (hn.subset hn') hc)
  · intro n hn' hc ht
    exact Nat.le_trans (spPeers_length_mono he _) (h.spPeer n (hn.subset hn') hc ht)

/-! ## rewriting nodes in place -/

def mapNodes (f : GNode → GNode) (s : Topo) : Topo := { s with nodes := s.nodes.map f }

/-- `f` keeps id, class and type -/
def KeepsKey (f : GNode → GNode) : Prop := ∀ n, (f n).nid = n.nid ∧ (f n).cls = n.cls ∧ (f n).typ = n.typ

theorem KeepsKey.ref {f : GNode → GNode} (hf : KeepsKey f) (n : GNode) : (f n).ref = n.ref := by
  simp [GNode.ref, (hf n).1, (hf n).2.1]

theorem invS_mapNodes {f : GNode → GNode} (hf : KeepsKey f) {s : Topo} (h : InvS s) : InvS (mapNodes f s) := by
  refine ⟨?_, ?_, ?_, h.schema, ?_, ?_, ?_⟩
  · have : (s.nodes.map f).map (·.nid) = s.nodes.map (·.nid) := by
      simp only [List.map_map]; apply List.map_congr_left; intro n _; exact (hf n).1
    show ((s.nodes.map f).map (·.nid)).Nodup
    rw [this]; exact h.ids
  · intro e he
    obtain ⟨⟨x, hx, hxe⟩, ⟨y, hy, hye⟩⟩ := h.closed e he
    exact ⟨⟨f x, List.mem_map_of_mem hx, by rw [hf.ref, hxe]⟩, ⟨f y, List.mem_map_of_mem hy, by rw [hf.ref, hye]⟩⟩
  · intro n hn
    obtain ⟨m, hm, rfl⟩ := List.mem_map.mp hn
    have := h.vocab m hm
    simpa [nodeOk, (hf m).2.1, (hf m).2.2] using this
  · intro n hn hc
    obtain ⟨m, hm, rfl⟩ := List.mem_map.mp hn
    rw [hf.ref]; rw [(hf m).2.1] at hc
    exact h.compOwned m hm hc
  · intro n hn hc
    obtain ⟨m, hm, rfl⟩ := List.mem_map.mp hn
    rw [hf.ref]; rw [(hf m).2.1] at hc
    exact h.ifaceOwned m hm hc
  · intro n hn hc ht
    obtain ⟨m, hm, rfl⟩ := List.mem_map.mp hn
    rw [hf.ref]; rw [(hf m).2.1] at hc; rw [(hf m).2.2] at ht
    exact h.spPeer m hm hc ht

theorem invD_mapNodes {f : GNode → GNode} (hf : KeepsKey f) {s : Topo} (h : InvD s) : InvD (mapNodes f s) := by
  refine ⟨?_, ?_, ?_, h.schema, ?_, ?_, ?_⟩
  · have : (s.nodes.map f).map (·.nid) = s.nodes.map (·.nid) := by
      simp only [List.map_map]; apply List.map_congr_left; intro n _; exact (hf n).1
    show ((s.nodes.map f).map (·.nid)).Nodup
    rw [this]; exact h.ids
  · intro e he
    obtain ⟨⟨x, hx, hxe⟩, ⟨y, hy, hye⟩⟩ := h.closed e he
    exact ⟨⟨f x, List.mem_map_of_mem hx, by rw [hf.ref, hxe]⟩, ⟨f y, List.mem_map_of_mem hy, by rw [hf.ref, hye]⟩⟩
  · intro n hn
    obtain ⟨m, hm, rfl⟩ := List.mem_map.mp hn
    have := h.vocab m hm
    simpa [nodeOk, (hf m).2.1, (hf m).2.2] using this
  · intro n hn hc
    obtain ⟨m, hm, rfl⟩ := List.mem_map.mp hn
    rw [hf.ref]; rw [(hf m).2.1] at hc
    exact h.compOwned m hm hc
  · intro n hn hc
    obtain ⟨m, hm, rfl⟩ := List.mem_map.mp hn
    rw [hf.ref]; rw [(hf m).2.1] at hc
    exact h.ifaceOwned m hm hc
  · intro n hn hc ht
    obtain ⟨m, hm, rfl⟩ := List.mem_map.mp hn
    rw [hf.ref]; rw [(hf m).2.1] at hc; rw [(hf m).2.2] at ht
    exact h.spPeer m hm hc ht

/-- a rewrite that also keeps the names keeps the name scopes -/
theorem namesOk_mapNodes {f : GNode → GNode} (hf : KeepsKey f) (hname : ∀ n, (f n).name = n.name) {s : Topo} (h : NamesOk s) :
    NamesOk (mapNodes f s) := by
  have hfilter : ∀ (p : GNode → Bool), (∀ n, p (f n) = p n) →
      ((s.nodes.map f).filter p).map (·.name) = (s.nodes.filter p).map (·.name) := by
    intro p hp
    induction s.nodes with
    | nil => rfl
    | cons a l ih =>
      simp only [List.map_cons, List.filter_cons, hp a]
      split <;> simp [ih, hname]
  have hkids : ∀ (p : Ref) (rel : Rel) (c : Cls),
      (kids (mapNodes f s) p rel c).map (·.name) = (kids s p rel c).map (·.name) := by
    intro p rel c
    exact hfilter _ (fun n => by simp [hf.ref, (hf n).2.1, mapNodes])
  refine ⟨?_, ?_, ?_, ?_, ?_, ?_⟩
  · show (((s.nodes.map f).filter _).map (·.name)).Nodup
    rw [hfilter _ (fun n => by simp [(hf n).2.1])]; exact h.nodes
  · show (((s.nodes.map f).filter _).map (·.name)).Nodup
    rw [hfilter _ (fun n => by simp [(hf n).2.1])]; exact h.links
  · intro p hp
    obtain ⟨m, hm, rfl⟩ := List.mem_map.mp hp
    rw [hkids, hf.ref]; exact h.comps m hm
  · intro p hp
    obtain ⟨m, hm, rfl⟩ := List.mem_map.mp hp
    rw [hkids, hf.ref]; exact h.svcs m hm
  · show (((s.nodes.map f).filter _).map (·.name)).Nodup
    rw [hfilter _ (fun n => by simp [(hf n).2.1, hf.ref, hasParent, mapNodes])]; exact h.topSvcs
  · intro p hp hc
    obtain ⟨m, hm, rfl⟩ := List.mem_map.mp hp
    rw [hkids, hf.ref]; rw [(hf m).2.1] at hc; exact h.cps m hm hc

end FimVerif.Topo
