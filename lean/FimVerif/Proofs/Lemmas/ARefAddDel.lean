import FimVerif.Proofs.Lemmas.ARefBasic
/-! C05: the shared store refines `ARef.step` — adding / deleting nodes and whole graphs
    (`add_node`, `delete_node`, `del_graph`, `del_all_graphs`, `add_graph`, `add_graph_direct`). Core only. -/
namespace FimVerif.Store
open FimVerif FimVerif.Gen.StoreConsts

/-! ## `keyOf` on filtered / extended node lists -/

theorem find_iid_of_nodup (ns : List SNode) (hnd : (ns.map (·.iid)).Nodup) (n : SNode) (hn : n ∈ ns) :
    ns.find? (fun m => m.iid == n.iid) = some n := by
  cases hf : ns.find? (fun m => m.iid == n.iid) with
  | none =>
    have := List.find?_eq_none.1 hf n hn
    simp at this
  | some m =>
    have hm := List.mem_of_find?_eq_some hf
    have he : m.iid = n.iid := by simpa using List.find?_some hf
    rw [eq_of_nodup_map (·.iid) ns hnd m hm n hn he]

theorem keyOf_of_nodup (ns : List SNode) (hnd : (ns.map (·.iid)).Nodup) (n : SNode) (hn : n ∈ ns) :
    keyOf ns n.iid = keyP n.attrs := by
  unfold keyOf
  rw [find_iid_of_nodup ns hnd n hn]

theorem keyOf_filter (ns : List SNode) (p : SNode → Bool) (hnd : (ns.map (·.iid)).Nodup) (n : SNode) (hn : n ∈ ns)
    (hp : p n = true) : keyOf (ns.filter p) n.iid = keyOf ns n.iid := by
  rw [keyOf_of_nodup ns hnd n hn,
    keyOf_of_nodup (ns.filter p) (List.Nodup.sublist (List.Sublist.map _ List.filter_sublist) hnd) n
      (List.mem_filter.2 ⟨hn, hp⟩)]

theorem keyOf_append_left (ns ms : List SNode) (i : Nat) (h : idIn ns i = true) : keyOf (ns ++ ms) i = keyOf ns i := by
  unfold keyOf
  rw [List.find?_append]
  obtain ⟨n, hn, e⟩ := (idIn_iff _ _).1 h
  cases hf : ns.find? (fun m => m.iid == i) with
  | none =>
    have := List.find?_eq_none.1 hf n hn
    simp [e] at this
  | some m => rfl

theorem keyOf_append_right (ns ms : List SNode) (i : Nat) (h : idIn ns i = false) : keyOf (ns ++ ms) i = keyOf ms i := by
  unfold keyOf
  rw [List.find?_append]
  have : ns.find? (fun m => m.iid == i) = none := by
    rw [List.find?_eq_none]
    intro m hm
    have := (idIn_false_iff _ _).1 h m hm
    simpa using this
  rw [this]; rfl

theorem keyOf_relabel (base : Nat) (l : List Props) (k : Nat) :
    keyOf (relabel base l) (base + k) = ((l[k]?).map keyP).getD (none, none) := by
  unfold keyOf
  rw [find_relabel]
  cases l[k]? <;> rfl

theorem relabel_attrs (base : Nat) (l : List Props) : (relabel base l).map (·.attrs) = l := by
  induction l generalizing base with
  | nil => rfl
  | cons a l ih => simp [relabel, ih]

/-- membership of a stored id in the node list of graph `g` -/
theorem idIn_nodesOf (s : Store) (h : Inv s) (g : String) (m : SNode) (hm : m ∈ s.nodes) :
    idIn (nodesOf s g) m.iid = inG g m := by
  cases hg : inG g m with
  | true =>
    rw [idIn_iff]
    exact ⟨m, by simp [nodesOf, hm, hg], rfl⟩
  | false =>
    rw [idIn_false_iff]
    intro n hn e
    simp only [nodesOf, List.mem_filter] at hn
    have := (mem_iid_eq_iff s h m hm n hn.1).1 e
    rw [this, hg] at hn
    exact absurd hn.2 (by simp)

/-! ## primitive lemmas -/

theorem absS_removeNode (s : Store) (h : Inv s) (n : SNode) (hn : n ∈ s.nodes) (hu : UniqueAt s n) :
    absS (removeNode n.iid s) = ARef.removeK (keyP n.attrs) (absS s) := by
  unfold absS ARef.removeK removeNode
  simp only [ARef.mk.injEq]
  constructor
  · rw [filter_map_pred (·.attrs) (fun a => !ARef.isK (keyP n.attrs) a) (fun m => m.iid != n.iid) s.nodes]
    intro m hm
    have h1 := isK_iff_eq s n hu m hm
    have h2 := mem_iid_eq_iff s h n hn m hm
    cases hk : ARef.isK (keyP n.attrs) m.attrs <;> cases hi : (m.iid != n.iid) <;> simp_all
  · rw [filter_map_pred (fun e : SEdge => (keyOf s.nodes e.a, keyOf s.nodes e.b, e.attrs))
      (fun e => e.1 != keyP n.attrs && e.2.1 != keyP n.attrs) (fun e => e.a != n.iid && e.b != n.iid) s.edges]
    · apply List.map_congr_left
      intro e he
      simp only [List.mem_filter, Bool.and_eq_true, bne_iff_ne, ne_eq] at he
      obtain ⟨hes, ha, hb⟩ := he
      obtain ⟨ea, eb⟩ := h.2.2 e hes
      obtain ⟨na, hna, ea⟩ := (idIn_iff _ _).1 ea
      obtain ⟨nb, hnb, eb⟩ := (idIn_iff _ _).1 eb
      have ka := keyOf_filter s.nodes (fun m => m.iid != n.iid) h.1 na hna (by simp [ea, ha])
      have kb := keyOf_filter s.nodes (fun m => m.iid != n.iid) h.1 nb hnb (by simp [eb, hb])
      rw [ea] at ka; rw [eb] at kb
      rw [ka, kb]
    · intro e he
      obtain ⟨ea, eb⟩ := h.2.2 e he
      have ha := keyOf_eq_iff s h n hn hu e.a ea
      have hb := keyOf_eq_iff s h n hn hu e.b eb
      simp only
      cases h1 : (keyOf s.nodes e.a != keyP n.attrs) <;> cases h2 : (keyOf s.nodes e.b != keyP n.attrs) <;>
        cases h3 : (e.a != n.iid) <;> cases h4 : (e.b != n.iid) <;> simp_all

theorem absS_delGraphNl (s : Store) (h : Inv s) (g : String) : absS (delGraphNl g s) = ARef.delGraphK g (absS s) := by
  unfold absS ARef.delGraphK delGraphNl
  simp only [ARef.mk.injEq]
  constructor
  · rw [filter_map_pred (·.attrs) (fun a => !ARef.inGP g a) (fun m => !inG g m) s.nodes (fun _ _ => rfl)]
  · rw [filter_map_pred (fun e : SEdge => (keyOf s.nodes e.a, keyOf s.nodes e.b, e.attrs))
      (fun e => !ARef.kIn g e.1 && !ARef.kIn g e.2.1)
      (fun e => !idIn (nodesOf s g) e.a && !idIn (nodesOf s g) e.b) s.edges]
    · apply List.map_congr_left
      intro e he
      simp only [List.mem_filter, Bool.and_eq_true, Bool.not_eq_true'] at he
      obtain ⟨hes, ha, hb⟩ := he
      obtain ⟨ea, eb⟩ := h.2.2 e hes
      obtain ⟨na, hna, ea⟩ := (idIn_iff _ _).1 ea
      obtain ⟨nb, hnb, eb⟩ := (idIn_iff _ _).1 eb
      rw [← ea, idIn_nodesOf s h g na hna] at ha
      rw [← eb, idIn_nodesOf s h g nb hnb] at hb
      have ka := keyOf_filter s.nodes (fun m => !inG g m) h.1 na hna (by simp [ha])
      have kb := keyOf_filter s.nodes (fun m => !inG g m) h.1 nb hnb (by simp [hb])
      rw [ea] at ka; rw [eb] at kb
      rw [ka, kb]
    · intro e he
      obtain ⟨ea, eb⟩ := h.2.2 e he
      obtain ⟨na, hna, ea, ka⟩ := keyOf_of_idIn s h e.a ea
      obtain ⟨nb, hnb, eb, kb⟩ := keyOf_of_idIn s h e.b eb
      simp only
      rw [ka, kb, ← ea, ← eb, idIn_nodesOf s h g na hna, idIn_nodesOf s h g nb hnb]
      rfl

theorem delGraphNl_of_empty (s : Store) (g : String) (he : nodesOf s g = []) : delGraphNl g s = s := by
  unfold delGraphNl
  rw [he]
  have h1 : s.nodes.filter (fun n => !inG g n) = s.nodes := by
    rw [List.filter_eq_self]
    intro n hn
    simp only [nodesOf, List.filter_eq_nil_iff] at he
    simpa using he n hn
  have h2 : s.edges.filter (fun e => !idIn [] e.a && !idIn [] e.b) = s.edges := by
    rw [List.filter_eq_self]
    intro e _
    simp [idIn]
  rw [h1, h2]

theorem absS_delIfPresent (s : Store) (h : Inv s) (g : String) : absS (delIfPresent g s) = ARef.delGraphK g (absS s) := by
  rw [← absS_delGraphNl s h g]
  unfold delIfPresent
  split
  · rfl
  · rename_i hl
    have : nodesOf s g = [] := by simpa using hl
    rw [delGraphNl_of_empty s g this]

theorem absS_appendGraph (s : Store) (h : Inv s) (ns : List Props) (es : List (Nat × Nat × Props))
    (hwf : ∀ e ∈ es, e.1 < ns.length ∧ e.2.1 < ns.length) : absS (appendGraph ns es s) = ARef.appendK ns es (absS s) := by
  have _ := hwf   -- not needed: a dangling position has the key `(none, none)` on both sides
  unfold absS ARef.appendK appendGraph
  simp only [ARef.mk.injEq, List.map_append, relabel_attrs, List.map_map, true_and]
  congr 1
  · apply List.map_congr_left
    intro e he
    obtain ⟨ea, eb⟩ := h.2.2 e he
    rw [keyOf_append_left _ _ _ ea, keyOf_append_left _ _ _ eb]
  · apply List.map_congr_left
    intro e he
    have hnot : ∀ k : Nat, idIn s.nodes (s.nextId + k) = false := by
      intro k
      rw [idIn_false_iff]
      intro n hn
      have := h.2.1 n hn
      omega
    simp only [Function.comp]
    rw [keyOf_append_right _ _ _ (hnot _), keyOf_append_right _ _ _ (hnot _), keyOf_relabel, keyOf_relabel]

/-! ## op-level refinement -/

theorem addNodeGuard_absS (s : Store) (g nid : String) :
    (((absS s).nodes.filter (fun a => ARef.inGP g a && ARef.hasNidP nid a)).length > 0) = (addNodeGuard g nid s = true) := by
  unfold addNodeGuard
  rw [absS_nodes, filter_map_pred (·.attrs) (fun a => ARef.inGP g a && ARef.hasNidP nid a) (fun n => inG g n && hasNid nid n) _
    (fun _ _ => rfl)]
  simp

theorem refS_addNode (s : Store) (h : Inv s) (g nid label : String) (props : Option Props) :
    RefS (addNode g nid label props s) (ARef.addNode g nid label props (absS s)) := by
  cases hg : addNodeGuard g nid s with
  | true =>
    unfold ARef.addNode addNode
    simp only [addNodeGuard_absS, hg, if_true]
    exact refS_err s _
  | false =>
    have h2 := addNode_eq_append s h g nid label props hg
    have h1 : (addNode g nid label props s).1 = .ok .unit := by
      unfold addNode
      rw [hg]
      cases props <;> rfl
    unfold ARef.addNode
    simp only [addNodeGuard_absS, hg, Bool.false_eq_true, if_false]
    refine ⟨h1, ?_⟩
    rw [h2, absS_appendGraph s h _ _ (by intro e he; cases he)]
    simp [ARef.appendK]

theorem refS_deleteNode (s : Store) (h : Inv s) (g nid : String) :
    RefS (deleteNode g nid s) (ARef.deleteNode g nid (absS s)) := by
  unfold deleteNode ARef.deleteNode
  apply refS_withNode
  intro n hc
  have hs := candS_single s g nid n hc
  rw [← hs.2.1]
  exact ⟨rfl, absS_removeNode s h n hs.1 hs.2.2.1⟩

theorem refS_delGraph (s : Store) (h : Inv s) (g : String) : RefS (delGraph g s) (ARef.delGraph g (absS s)) :=
  ⟨rfl, absS_delGraphNl s h g⟩

theorem refS_delAllGraphs (s : Store) : RefS (delAllGraphs s) (ARef.delAllGraphs (absS s)) := ⟨rfl, rfl⟩

theorem refS_addGraph (s : Store) (h : Inv s) (g : String) (ig : IGraph) (hwf : ig.WF = true) :
    RefS (addGraph g ig s) (ARef.addGraph g ig (absS s)) := by
  unfold addGraph ARef.addGraph
  simp only
  simp only [IGraph.WF, List.all_eq_true, Bool.and_eq_true, decide_eq_true_eq] at hwf
  split
  · exact ⟨rfl, absS_delIfPresent s h g⟩
  · refine ⟨rfl, ?_⟩
    simp only
    rw [absS_appendGraph _ (inv_delIfPresent s g h) _ _ (by intro e he; simpa using hwf e he), absS_delIfPresent s h g]

theorem refS_addGraphDirect (s : Store) (h : Inv s) (g : String) (ig : IGraph) (hwf : ig.WF = true) :
    RefS (addGraphDirect g ig s) (ARef.addGraphDirect g ig (absS s)) := by
  unfold addGraphDirect ARef.addGraphDirect
  simp only [IGraph.WF, List.all_eq_true, Bool.and_eq_true, decide_eq_true_eq] at hwf
  refine ⟨rfl, ?_⟩
  simp only
  rw [absS_appendGraph _ (inv_delIfPresent s g h) _ _ hwf, absS_delIfPresent s h g]

end FimVerif.Store
