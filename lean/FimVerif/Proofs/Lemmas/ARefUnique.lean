import FimVerif.Proofs.Lemmas.ARefBasic
/-! C05: the keys (`GraphID` value, `NodeID` value) of the stored nodes stay pairwise distinct
    (`UniqueKeys`) under every operation that writes neither `GraphID` nor `NodeID` and whose imports bring
    pairwise distinct NodeIDs (`Op.keepsKeys`).  The global twin of `nid_unique_step`.  Core only. -/
namespace FimVerif.Store
open FimVerif FimVerif.Gen.StoreConsts

/-- the keys of the stored nodes, in store order -/
def kList (s : Store) : List Key := s.nodes.map (fun n => keyP n.attrs)

/-- the key list only loses entries -/
def KShrinks (s s' : Store) : Prop := List.Sublist (kList s') (kList s)

theorem uniqueKeys_iff (s : Store) : UniqueKeys s ↔ (kList s).Nodup := Iff.rfl

theorem KShrinks.refl (s : Store) : KShrinks s s := List.Sublist.refl _
theorem KShrinks.trans {s s1 s2 : Store} (h1 : KShrinks s s1) (h2 : KShrinks s1 s2) : KShrinks s s2 :=
  List.Sublist.trans h2 h1
theorem KShrinks.unique {s s' : Store} (h : KShrinks s s') (hu : UniqueKeys s) : UniqueKeys s' :=
  List.Nodup.sublist h hu

theorem kshrinks_of_nodes_eq (s s' : Store) (h : s'.nodes = s.nodes) : KShrinks s s' := by
  unfold KShrinks kList; rw [h]; exact List.Sublist.refl _

theorem kshrinks_filter (s s' : Store) (q : SNode → Bool) (h : s'.nodes = s.nodes.filter q) : KShrinks s s' := by
  unfold KShrinks kList; rw [h]; exact List.Sublist.map _ List.filter_sublist

theorem keyP_congr (a a' : Props) (h1 : AMap.get graphId a' = AMap.get graphId a)
    (h2 : AMap.get nodeId a' = AMap.get nodeId a) : keyP a' = keyP a := by
  unfold keyP; rw [h1, h2]

theorem kshrinks_updNodes (s : Store) (c : SNode → Bool) (f : Props → Props)
    (hk : ∀ n ∈ s.nodes, c n = true → keyP (f n.attrs) = keyP n.attrs) :
    KShrinks s { s with nodes := s.nodes.map (fun n => if c n then { n with attrs := f n.attrs } else n) } := by
  unfold KShrinks kList
  simp only [List.map_map]
  have e : s.nodes.map ((fun n => keyP n.attrs) ∘ fun n => if c n = true then { iid := n.iid, attrs := f n.attrs } else n)
      = s.nodes.map (fun n => keyP n.attrs) := by
    apply List.map_congr_left
    intro n hn
    by_cases h : c n
    · simp [Function.comp, h, hk n hn h]
    · simp [Function.comp, h]
  rw [e]; exact List.Sublist.refl _

theorem kshrinks_updNode (s : Store) (i : Nat) (f : Props → Props)
    (hk : ∀ n ∈ s.nodes, n.iid = i → keyP (f n.attrs) = keyP n.attrs) : KShrinks s (updNode i f s) := by
  have := kshrinks_updNodes s (fun n => decide (n.iid = i)) f (fun n h hc => hk n h (by simpa using hc))
  simpa [updNode] using this

theorem kshrinks_addEdge (a b : Nat) (attrs : Props) (s : Store) : KShrinks s (addEdge a b attrs s) := by
  unfold addEdge; split <;> exact kshrinks_of_nodes_eq _ _ rfl

theorem kshrinks_delIfPresent (g : String) (s : Store) : KShrinks s (delIfPresent g s) := by
  unfold delIfPresent; split
  · exact kshrinks_filter s _ _ rfl
  · exact KShrinks.refl _

theorem kshrinks_contract (u v : Nat) (s : Store) : KShrinks s (contract u v s) := by
  apply kshrinks_filter s _ (fun n => n.iid != v)
  unfold contract
  simp only
  rw [(remapEdges_nodes u v _ _).1]; rfl

/-- operations other than node creation and imports never add a key -/
theorem kshrinks_step (op : Op) (s : Store) (h : Inv s) (hk : op.keepsKeys = true)
    (hop : match op with | .addNode .. | .addGraph .. | .addGraphDirect .. | .clone .. => False | _ => True) :
    KShrinks s (step op s).2 := by
  have R := KShrinks.refl s
  cases op with
  | addNode g nid label props => exact absurd hop id
  | addGraph g ig => exact absurd hop id
  | addGraphDirect g ig => exact absurd hop id
  | clone g g2 => exact absurd hop id
  | deleteNode g nid =>
    exact withNode_pred (KShrinks s) s g nid _ R (fun i _ => kshrinks_filter s _ (fun n => n.iid != i) rfl)
  | addLink g a rel b props =>
    simp only [step, addLink]
    refine withNode_pred (KShrinks s) s g a _ R (fun ia _ => withNode_pred (KShrinks s) s g b _ R (fun ib _ => ?_))
    cases props with
    | none => exact kshrinks_addEdge _ _ _ s
    | some p => simp only; split; exact R; exact kshrinks_addEdge _ _ _ s
  | updateNodeProperty g nid k v =>
    simp only [step]
    refine assertVal_pred (KShrinks s) _ s _ R ?_
    simp only [updateNodeProperty]
    split
    · exact R
    · simp only [Op.keepsKeys, Bool.and_eq_true, bne_iff_ne, ne_eq] at hk
      exact withNode_pred (KShrinks s) s g nid _ R (fun i _ => kshrinks_updNode s i _
        (fun n _ _ => keyP_congr _ _ (AMap.get_set_ne _ _ _ _ (Ne.symm hk.1)) (AMap.get_set_ne _ _ _ _ (Ne.symm hk.2))))
  | unsetNodeProperty g nid k =>
    simp only [step, unsetNodeProperty]
    split
    · exact R
    · split
      · exact R
      · rename_i hnu
        have h1 : graphId ≠ k := fun e => hnu (e ▸ graphId_mem_noUnset)
        have h2 : nodeId ≠ k := fun e => hnu (e ▸ nodeId_mem_noUnset)
        refine withNode_pred (KShrinks s) s g nid _ R (fun i _ => ?_)
        split
        · exact R
        · split
          · exact kshrinks_updNode s i _ (fun n _ _ => keyP_erase k n.attrs (Ne.symm h1) (Ne.symm h2))
          · exact R
  | updateNodesProperty g k v =>
    simp only [step]
    refine assertVal_pred (KShrinks s) _ s _ R ?_
    simp only [updateNodesProperty]
    split
    · exact R
    · split
      · exact R
      · simp only [Op.keepsKeys, Bool.and_eq_true, bne_iff_ne, ne_eq] at hk
        have := kshrinks_updNodes s (inG g) (AMap.set k v)
          (fun n _ _ => keyP_congr _ _ (AMap.get_set_ne _ _ _ _ (Ne.symm hk.1)) (AMap.get_set_ne _ _ _ _ (Ne.symm hk.2)))
        simpa [updGraphNodes] using this
  | updateNodeProperties g nid props =>
    simp only [step, updateNodeProperties]
    split
    · exact R
    · simp only [Op.keepsKeys, Bool.and_eq_true, Bool.not_eq_true'] at hk
      exact withNode_pred (KShrinks s) s g nid _ R (fun i _ => kshrinks_updNode s i _
        (fun n _ _ => keyP_congr _ _
          (AMap.get_update_not_mem _ _ _ (AMap.not_mem_keys_of_has_false _ _ hk.1))
          (AMap.get_update_not_mem _ _ _ (AMap.not_mem_keys_of_has_false _ _ hk.2))))
  | updateLinkProperty g a b kind k v =>
    simp only [step]
    refine assertVal_pred (KShrinks s) _ s _ R ?_
    simp only [updateLinkProperty]
    split
    · exact R
    · exact withLink_pred (KShrinks s) s g a b kind _ R (fun _ _ _ _ _ => kshrinks_of_nodes_eq _ _ rfl)
  | unsetLinkProperty g a b kind k =>
    simp only [step, unsetLinkProperty]
    split
    · exact R
    · exact withLink_pred (KShrinks s) s g a b kind _ R (fun _ _ _ _ _ => kshrinks_of_nodes_eq _ _ rfl)
  | updateLinkProperties g a b kind props =>
    simp only [step, updateLinkProperties]
    split
    · exact R
    · exact withLink_pred (KShrinks s) s g a b kind _ R (fun _ _ _ _ _ => kshrinks_of_nodes_eq _ _ rfl)
  | deleteGraph g => exact kshrinks_filter s _ _ rfl
  | delAllGraphs => exact kshrinks_filter s _ (fun _ => false) (by simp [step, delAllGraphs])
  | mergeNodes g nid g2 pol =>
    simp only [step, mergeNodes]
    split
    · exact R
    · refine withNode_pred (KShrinks s) s g nid _ R (fun u hu => ?_)
      split
      · exact R
      · rename_i v hv
        split
        · exact R
        split
        · rename_i mine theirs hmine htheirs
          have hrel : ∀ np, AMap.get graphId np = AMap.get graphId mine → AMap.get nodeId np = AMap.get nodeId mine →
              KShrinks s (updNode u (fun _ => np) (contract u v s)) := by
            intro np h1 h2
            have key : ∀ n ∈ (contract u v s).nodes, n.iid = u → n.attrs = mine := by
              intro n hn hi
              have hn' : n ∈ s.nodes := by
                unfold contract at hn
                simp only at hn
                rw [(remapEdges_nodes u v _ _).1] at hn
                exact (List.mem_filter.1 hn).1
              have := nodeAttrs_of_mem s h n hn'
              rw [hi, hmine] at this
              injection this with this
              exact this.symm
            refine KShrinks.trans (kshrinks_contract u v s) (kshrinks_updNode _ u _ ?_)
            intro n hn hi; rw [key n hn hi]; exact keyP_congr _ _ h1 h2
          cases pol with
          | none => exact hrel mine rfl rfl
          | some pol =>
            simp only
            split
            · exact R
            · rename_i np hnp
              simp only [Op.keepsKeys, Bool.and_eq_true] at hk
              exact hrel np (mergeProps_get theirs pol graphId hk.1 mine np hnp) (mergeProps_get theirs pol nodeId hk.2 mine np hnp)
        · exact R
  | getNodeProperties g nid =>
    simp only [step, getNodeProperties]
    refine withNode_pred (KShrinks s) s g nid _ R (fun i _ => ?_)
    split
    · exact R
    · split <;> exact R
  | getLinkProperties g a b =>
    simp only [step, getLinkProperties]
    refine withNode_pred (KShrinks s) s g a _ R (fun ia _ => withNode_pred (KShrinks s) s g b _ R (fun ib _ => ?_))
    split
    · exact R
    · split <;> exact R
  | listAllNodeIds g => simp only [step, listAllNodeIds, nidList]; split; exact R; split <;> exact R
  | nodesByClass g label => simp only [step, nodesByClass, nidList]; split <;> exact R
  | nodesByClassAndType g label ntype => simp only [step, nodesByClassAndType, nidList]; split <;> exact R
  | nodeExists g nid label => simp only [step, nodeExists]; split <;> exact R
  | graphExists g => exact R
  | checkNodeUnique g label name => exact R
  | findMatchingNodes g other =>
    simp only [step, findMatchingNodes]
    split
    · exact R
    · split <;> exact R
    · exact R

/-! ## the creating operations -/

theorem map_keyP_relabel (base : Nat) (l : List Props) :
    (relabel base l).map (fun n => keyP n.attrs) = l.map keyP := by
  induction l generalizing base with
  | nil => rfl
  | cons a l ih => simp [relabel, ih]

/-- relabelling only attaches internal ids: the new keys are appended -/
theorem kList_appendGraph (ns : List Props) (es : List (Nat × Nat × Props)) (s : Store) :
    kList (appendGraph ns es s) = kList s ++ ns.map keyP := by
  simp only [kList, appendGraph, List.map_append, map_keyP_relabel]

/-- a list stays duplicate-free under a second projection that separates at least as much -/
theorem nodup_map_of_nodup_map {α β γ : Type} (f : α → β) (f' : α → γ) : ∀ (l : List α),
    (∀ a ∈ l, ∀ b ∈ l, f' a = f' b → f a = f b) → (l.map f).Nodup → (l.map f').Nodup
  | [], _, _ => by simp
  | x :: l, h, hn => by
    simp only [List.map_cons, List.nodup_cons, List.mem_map, not_exists, not_and] at hn ⊢
    refine ⟨?_, nodup_map_of_nodup_map f f' l (fun a ha b hb => h a (by simp [ha]) b (by simp [hb])) hn.2⟩
    intro b hb e
    exact hn.1 b hb (h b (by simp [hb]) x (by simp) e)

theorem uniqueKeys_appendGraph (s1 : Store) (ns : List Props) (es : List (Nat × Nat × Props))
    (hu : UniqueKeys s1) (hnew : (ns.map keyP).Nodup)
    (hdis : ∀ n ∈ s1.nodes, ∀ a ∈ ns, keyP n.attrs ≠ keyP a) : UniqueKeys (appendGraph ns es s1) := by
  rw [uniqueKeys_iff, kList_appendGraph, List.nodup_append]
  refine ⟨hu, hnew, ?_⟩
  intro x hx y hy
  obtain ⟨n, hn, rfl⟩ := List.mem_map.1 hx
  obtain ⟨a, ha, rfl⟩ := List.mem_map.1 hy
  exact hdis n hn a ha

/-- importing nodes that all carry `GraphID = g` with pairwise distinct NodeIDs into a store without a
    graph `g` -/
theorem uniqueKeys_appendGraph_of (s1 : Store) (g : String) (ns : List Props) (es : List (Nat × Nat × Props))
    (hu : UniqueKeys s1) (hempty : nodesOf s1 g = [])
    (hns : ∀ a ∈ ns, AMap.get graphId a = some (.str g))
    (hnid : (ns.map (AMap.get nodeId)).Nodup) : UniqueKeys (appendGraph ns es s1) := by
  refine uniqueKeys_appendGraph s1 ns es hu ?_ ?_
  · refine nodup_map_of_nodup_map (AMap.get nodeId) keyP ns ?_ hnid
    intro a _ b _ e
    simp only [keyP, Prod.mk.injEq] at e
    exact e.2
  · intro n hn a ha e
    have hin : inG g n = true := by
      simp only [keyP, Prod.mk.injEq] at e
      simp only [inG, beq_iff_eq]
      rw [e.1]; exact hns a ha
    have : n ∈ nodesOf s1 g := by
      simp only [nodesOf, List.mem_filter]; exact ⟨hn, hin⟩
    rw [hempty] at this
    cases this

theorem uniqueKeys_addGraph (s : Store) (g : String) (ig : IGraph) (hu : UniqueKeys s)
    (hig : (ig.nodes.map (AMap.get nodeId)).Nodup) : UniqueKeys (addGraph g ig s).2 := by
  have h1 : UniqueKeys (delIfPresent g s) := (kshrinks_delIfPresent g s).unique hu
  unfold addGraph
  simp only
  split
  · exact h1
  · refine uniqueKeys_appendGraph_of _ g _ _ h1 (nodesOf_delIfPresent_self s g) ?_ ?_
    · intro a ha
      obtain ⟨a0, _, rfl⟩ := List.mem_map.1 ha
      exact AMap.get_set_eq _ _ _
    · rw [List.map_map]
      have : (AMap.get nodeId ∘ AMap.set graphId (Val.str g)) = AMap.get nodeId := by
        funext a; exact AMap.get_set_ne _ _ _ _ nodeId_ne_graphId
      rw [this]; exact hig

theorem uniqueKeys_addGraphDirect (s : Store) (g : String) (ig : IGraph) (hu : UniqueKeys s)
    (hg : ∀ a ∈ ig.nodes, AMap.get graphId a = some (.str g))
    (hig : (ig.nodes.map (AMap.get nodeId)).Nodup) : UniqueKeys (addGraphDirect g ig s).2 :=
  uniqueKeys_appendGraph_of _ g _ _ ((kshrinks_delIfPresent g s).unique hu) (nodesOf_delIfPresent_self s g) hg hig

/-- within one graph, distinct keys mean distinct NodeIDs -/
theorem nodup_nids_of_uniqueKeys (s : Store) (g : String) (hu : UniqueKeys s) :
    (((nodesOf s g).map (·.attrs)).map (AMap.get nodeId)).Nodup := by
  rw [List.map_map]
  have hsub : ((nodesOf s g).map (fun n => keyP n.attrs)).Nodup :=
    List.Nodup.sublist (List.Sublist.map _ List.filter_sublist) hu
  refine nodup_map_of_nodup_map (fun n => keyP n.attrs) (AMap.get nodeId ∘ (·.attrs)) (nodesOf s g) ?_ hsub
  intro a ha b hb e
  have ga : inG g a = true := (List.mem_filter.1 ha).2
  have gb : inG g b = true := (List.mem_filter.1 hb).2
  simp only [inG, beq_iff_eq] at ga gb
  simp only [Function.comp] at e
  simp only [keyP, ga, gb, e]

theorem uniqueKeys_cloneGraph (s : Store) (g g2 : String) (hu : UniqueKeys s) : UniqueKeys (cloneGraph g g2 s).2 := by
  unfold cloneGraph
  split
  · exact hu
  · rename_i ig hig
    refine uniqueKeys_addGraph s g2 ig hu ?_
    unfold extractGraph at hig
    simp only at hig
    split at hig
    · cases hig
    · injection hig with hig
      subst hig
      exact nodup_nids_of_uniqueKeys s g hu

theorem uniqueKeys_addNode (s : Store) (h : Inv s) (g nid label : String) (props : Option Props)
    (hk : (Op.addNode g nid label props).keepsKeys = true) (hu : UniqueKeys s) :
    UniqueKeys (addNode g nid label props s).2 := by
  cases hg : addNodeGuard g nid s with
  | true => unfold addNode; rw [hg]; exact hu
  | false =>
    rw [addNode_eq_append s h g nid label props hg]
    have hp : graphId ∉ AMap.keys (props.getD []) ∧ nodeId ∉ AMap.keys (props.getD []) := by
      cases props with
      | none => simp [AMap.keys]
      | some p =>
        simp only [Op.keepsKeys, Bool.and_eq_true, Bool.not_eq_true'] at hk
        exact ⟨AMap.not_mem_keys_of_has_false _ _ hk.1, AMap.not_mem_keys_of_has_false _ _ hk.2⟩
    have hkey : keyP (AMap.update [(graphId, .str g), (propClass, .str label), (nodeId, .str nid)] (props.getD [])) = K g nid := by
      unfold keyP K
      rw [AMap.get_update_not_mem _ _ _ hp.1, AMap.get_update_not_mem _ _ _ hp.2]
      simp [AMap.get, graphId, propClass, nodeId]
    refine uniqueKeys_appendGraph s _ _ hu (by simp) ?_
    intro n hn a ha
    simp only [List.mem_singleton] at ha
    subst ha
    rw [hkey]
    intro e
    have := (keyP_eq_K _ _ _).1 e
    rw [hasNidP_attrs, inGP_attrs] at this
    simp only [addNodeGuard, gt_iff_lt, decide_eq_false_iff_not, Nat.not_lt, Nat.le_zero, List.length_eq_zero_iff,
      List.filter_eq_nil_iff, Bool.and_eq_true, not_and, Bool.not_eq_true] at hg
    have hh := hg n hn this.2
    rw [this.1] at hh
    cases hh

/-- **unique keys**: every operation that does not write `GraphID`/`NodeID` of a stored node and whose
    imports bring pairwise distinct NodeIDs keeps the keys of the stored nodes pairwise distinct -/
theorem uniqueKeys_step (op : Op) (s : Store) (h : Inv s) (hk : op.keepsKeys = true) (hu : UniqueKeys s) :
    UniqueKeys (step op s).2 := by
  cases op with
  | addNode g nid label props => exact uniqueKeys_addNode s h g nid label props hk hu
  | addGraph g ig => exact uniqueKeys_addGraph s g ig.close hu (by simpa [Op.keepsKeys, IGraph.close] using hk)
  | addGraphDirect g ig =>
    simp only [Op.keepsKeys, Bool.and_eq_true, List.all_eq_true, beq_iff_eq, decide_eq_true_eq] at hk
    exact uniqueKeys_addGraphDirect s g ig.close hu hk.1 hk.2
  | clone g g2 => exact uniqueKeys_cloneGraph s g g2 hu
  | delAllGraphs => exact (kshrinks_step _ s h hk trivial).unique hu
  | deleteNode g nid => exact (kshrinks_step _ s h hk trivial).unique hu
  | addLink g a rel b props => exact (kshrinks_step _ s h hk trivial).unique hu
  | updateNodeProperty g nid k v => exact (kshrinks_step _ s h hk trivial).unique hu
  | unsetNodeProperty g nid k => exact (kshrinks_step _ s h hk trivial).unique hu
  | updateNodesProperty g k v => exact (kshrinks_step _ s h hk trivial).unique hu
  | updateNodeProperties g nid props => exact (kshrinks_step _ s h hk trivial).unique hu
  | updateLinkProperty g a b kind k v => exact (kshrinks_step _ s h hk trivial).unique hu
  | unsetLinkProperty g a b kind k => exact (kshrinks_step _ s h hk trivial).unique hu
  | updateLinkProperties g a b kind props => exact (kshrinks_step _ s h hk trivial).unique hu
  | deleteGraph g => exact (kshrinks_step _ s h hk trivial).unique hu
  | mergeNodes g nid g2 pol => exact (kshrinks_step _ s h hk trivial).unique hu
  | getNodeProperties g nid => exact (kshrinks_step _ s h hk trivial).unique hu
  | getLinkProperties g a b => exact (kshrinks_step _ s h hk trivial).unique hu
  | listAllNodeIds g => exact (kshrinks_step _ s h hk trivial).unique hu
  | nodesByClass g label => exact (kshrinks_step _ s h hk trivial).unique hu
  | nodesByClassAndType g label ntype => exact (kshrinks_step _ s h hk trivial).unique hu
  | nodeExists g nid label => exact (kshrinks_step _ s h hk trivial).unique hu
  | graphExists g => exact (kshrinks_step _ s h hk trivial).unique hu
  | checkNodeUnique g label name => exact (kshrinks_step _ s h hk trivial).unique hu
  | findMatchingNodes g other => exact (kshrinks_step _ s h hk trivial).unique hu

theorem uniqueKeys_init : UniqueKeys init := by
  simp [UniqueKeys, init]

/-- along a history of key-keeping operations from the empty store -/
theorem uniqueKeys_run (ops : List Op) (s : Store) (h : Inv s) (hu : UniqueKeys s)
    (hk : ∀ op ∈ ops, op.keepsKeys = true) : UniqueKeys (run ops s) := by
  induction ops generalizing s with
  | nil => exact hu
  | cons op ops ih =>
    simp only [run, List.foldl_cons]
    exact ih _ (inv_step op s h) (uniqueKeys_step op s h (hk op (by simp)) hu) (fun o ho => hk o (by simp [ho]))

end FimVerif.Store
