import FimVerif.Proofs.Lemmas.StoreRefineAddDel
/-! C05: refinement of the link operations. Core only. -/
namespace FimVerif.Store
open FimVerif FimVerif.Gen.StoreConsts

def absE (ns : List SNode) (e : SEdge) : Option Val × Option Val × Props := (nidOf ns e.a, nidOf ns e.b, e.attrs)

theorem cand_idIn (s : Store) (h : Inv s) (g nid : String) (n : SNode) (hc : cand s g nid = [n]) :
    idIn (nodesOf s g) n.iid = true := by
  have hs := cand_single s h g nid n hc
  exact (idIn_iff _ _).2 ⟨n, by simp [nodesOf, hs.1, hs.2.1], rfl⟩

theorem nidOf_cand (s : Store) (h : Inv s) (g nid : String) (n : SNode) (hc : cand s g nid = [n]) :
    nidOf (nodesOf s g) n.iid = some (.str nid) := by
  have := endIs_nidOf s h g nid n hc n.iid (cand_idIn s h g nid n hc)
  simpa [AGraph.endIs] using this

/-- on edges inside `g`, matching by NodeID pair is matching by internal id pair -/
theorem edgeIs_absE (s : Store) (h : Inv s) (g a b : String) (na nb : SNode) (ha : cand s g a = [na]) (hb : cand s g b = [nb])
    (e : SEdge) (he : idIn (nodesOf s g) e.a = true ∧ idIn (nodesOf s g) e.b = true) :
    AGraph.edgeIs a b (absE (nodesOf s g) e) = edgeMatch na.iid nb.iid e := by
  simp only [AGraph.edgeIs, absE, edgeMatch, endIs_nidOf s h g a na ha _ he.1, endIs_nidOf s h g a na ha _ he.2,
    endIs_nidOf s h g b nb hb _ he.1, endIs_nidOf s h g b nb hb _ he.2]
  by_cases h1 : e.a = na.iid <;> by_cases h2 : e.b = nb.iid <;> by_cases h3 : e.a = nb.iid <;> by_cases h4 : e.b = na.iid <;>
    simp [h1, h2, h3, h4] <;> (first | (by_cases hq : na.iid = nb.iid <;> simp [hq]) | (by_cases hq : nb.iid = na.iid <;> simp [hq]))

theorem edgeMatch_in (s : Store) (g : String) (ia ib : Nat) (hia : idIn (nodesOf s g) ia = true) (hib : idIn (nodesOf s g) ib = true)
    (e : SEdge) (hm : edgeMatch ia ib e = true) : idIn (nodesOf s g) e.a = true ∧ idIn (nodesOf s g) e.b = true := by
  rcases edgeMatch_ends ia ib e hm with ⟨e1, e2⟩ | ⟨e1, e2⟩ <;> simp [e1, e2, hia, hib]

theorem find_edges_of (s : Store) (g : String) (ia ib : Nat) (hia : idIn (nodesOf s g) ia = true) (hib : idIn (nodesOf s g) ib = true) :
    s.edges.find? (edgeMatch ia ib) = (edgesOf s g).find? (edgeMatch ia ib) := by
  unfold edgesOf
  rw [List.find?_filter]
  apply find?_congr'
  intro e _
  cases hm : edgeMatch ia ib e with
  | false => simp
  | true => have := edgeMatch_in s g ia ib hia hib e hm; simp [this.1, this.2]

theorem any_edges_of (s : Store) (g : String) (ia ib : Nat) (hia : idIn (nodesOf s g) ia = true) (hib : idIn (nodesOf s g) ib = true) :
    s.edges.any (edgeMatch ia ib) = (edgesOf s g).any (edgeMatch ia ib) := by
  unfold edgesOf
  rw [List.any_filter]
  apply idIn_filter_ne.List.any_congr
  intro e _
  cases hm : edgeMatch ia ib e with
  | false => simp
  | true => have := edgeMatch_in s g ia ib hia hib e hm; simp [this.1, this.2]

theorem mem_edgesOf_in (s : Store) (g : String) (e : SEdge) (he : e ∈ edgesOf s g) :
    idIn (nodesOf s g) e.a = true ∧ idIn (nodesOf s g) e.b = true := by
  simp only [edgesOf, List.mem_filter, Bool.and_eq_true] at he; exact he.2

theorem abs_edges' (s : Store) (g : String) : (abs s g).edges = (edgesOf s g).map (absE (nodesOf s g)) := rfl

theorem find_abs_edge (s : Store) (h : Inv s) (g a b : String) (na nb : SNode) (ha : cand s g a = [na]) (hb : cand s g b = [nb]) :
    (abs s g).edges.find? (AGraph.edgeIs a b) = ((edgesOf s g).find? (edgeMatch na.iid nb.iid)).map (absE (nodesOf s g)) := by
  rw [abs_edges', List.find?_map]
  congr 1
  apply find?_congr'
  intro e he
  exact edgeIs_absE s h g a b na nb ha hb e (mem_edgesOf_in s g e he)

theorem any_abs_edge (s : Store) (h : Inv s) (g a b : String) (na nb : SNode) (ha : cand s g a = [na]) (hb : cand s g b = [nb]) :
    (abs s g).edges.any (AGraph.edgeIs a b) = (edgesOf s g).any (edgeMatch na.iid nb.iid) := by
  rw [abs_edges', List.any_map]
  apply idIn_filter_ne.List.any_congr
  intro e he
  exact edgeIs_absE s h g a b na nb ha hb e (mem_edgesOf_in s g e he)

theorem abs_updEdge (s : Store) (h : Inv s) (g a b : String) (na nb : SNode) (ha : cand s g a = [na]) (hb : cand s g b = [nb])
    (f : Props → Props) : abs (updEdge na.iid nb.iid f s) g = AGraph.updEdge a b f (abs s g) := by
  have hE : edgesOf (updEdge na.iid nb.iid f s) g =
      (edgesOf s g).map (fun e => if edgeMatch na.iid nb.iid e then { e with attrs := f e.attrs } else e) := by
    unfold edgesOf updEdge nodesOf
    simp only
    apply filter_map_comm
    intro e _
    by_cases hm : edgeMatch na.iid nb.iid e <;> simp [hm]
  unfold abs absView AGraph.updEdge
  rw [hE]
  have hN : nodesOf (updEdge na.iid nb.iid f s) g = nodesOf s g := rfl
  rw [hN]
  congr 1
  simp only [List.map_map]
  apply List.map_congr_left
  intro e he
  have := edgeIs_absE s h g a b na nb ha hb e (mem_edgesOf_in s g e he)
  simp only [absE] at this
  simp only [Function.comp, this]
  by_cases hm : edgeMatch na.iid nb.iid e <;> simp [hm]

theorem abs_appendEdge (s : Store) (h : Inv s) (g a b : String) (na nb : SNode) (ha : cand s g a = [na]) (hb : cand s g b = [nb])
    (attrs : Props) :
    abs { s with edges := s.edges ++ [⟨na.iid, nb.iid, attrs⟩] } g =
      { abs s g with edges := (abs s g).edges ++ [(some (.str a), some (.str b), attrs)] } := by
  unfold abs absView edgesOf
  have hN : nodesOf { s with edges := s.edges ++ [⟨na.iid, nb.iid, attrs⟩] } g = nodesOf s g := rfl
  rw [hN]
  simp only [List.filter_append, List.map_append]
  congr 1
  congr 1
  simp [cand_idIn s h g a na ha, cand_idIn s h g b nb hb, nidOf_cand s h g a na ha, nidOf_cand s h g b nb hb]

theorem abs_addEdge (s : Store) (h : Inv s) (g a b : String) (na nb : SNode) (ha : cand s g a = [na]) (hb : cand s g b = [nb])
    (attrs : Props) : abs (addEdge na.iid nb.iid attrs s) g = AGraph.addEdge a b attrs (abs s g) := by
  unfold addEdge AGraph.addEdge
  rw [any_edges_of s g _ _ (cand_idIn s h g a na ha) (cand_idIn s h g b nb hb), any_abs_edge s h g a b na nb ha hb]
  split
  · exact abs_updEdge s h g a b na nb ha hb _
  · exact abs_appendEdge s h g a b na nb ha hb attrs

theorem ref_addLink (s : Store) (h : Inv s) (g a rel b : String) (props : Option Props) :
    Ref g (addLink g a rel b props s) (AGraph.addLink a rel b props (abs s g)) := by
  unfold addLink AGraph.addLink
  apply ref_withNode
  intro na ha
  apply ref_withNode
  intro nb hb
  cases props with
  | none => exact ⟨rfl, abs_addEdge s h g a b na nb ha hb _⟩
  | some p =>
    simp only
    split
    · exact ref_err g s _
    · exact ⟨rfl, abs_addEdge s h g a b na nb ha hb _⟩

/-- lock-step through the common head of the link-property methods -/
theorem ref_withLink (s : Store) (h : Inv s) (g a b kind : String) (k : Nat → Nat → SEdge → R) (k' : AGraph.AR)
    (hk : ∀ na nb e, cand s g a = [na] → cand s g b = [nb] → Ref g (k na.iid nb.iid e) k') :
    Ref g (withLink s g a b kind k) (AGraph.withL (abs s g) a b kind k') := by
  unfold withLink AGraph.withL
  apply ref_withNode
  intro na ha
  apply ref_withNode
  intro nb hb
  unfold findEdge
  rw [find_edges_of s g _ _ (cand_idIn s h g a na ha) (cand_idIn s h g b nb hb), find_abs_edge s h g a b na nb ha hb]
  cases (edgesOf s g).find? (edgeMatch na.iid nb.iid) with
  | none => exact ref_err g s _
  | some e =>
    simp only [Option.map_some, absE]
    split
    · exact ref_err g s _
    · exact hk na nb e ha hb

theorem ref_updateLinkProperty (s : Store) (h : Inv s) (g a b kind k : String) (v : Val) :
    Ref g (updateLinkProperty g a b kind k v s) (AGraph.updateLinkProperty a b kind k v (abs s g)) := by
  unfold updateLinkProperty AGraph.updateLinkProperty
  split
  · exact ref_err g s _
  · exact ref_withLink s h g a b kind _ _ (fun na nb _ ha hb => ⟨rfl, abs_updEdge s h g a b na nb ha hb _⟩)

theorem ref_unsetLinkProperty (s : Store) (h : Inv s) (g a b kind k : String) :
    Ref g (unsetLinkProperty g a b kind k s) (AGraph.unsetLinkProperty a b kind k (abs s g)) := by
  unfold unsetLinkProperty AGraph.unsetLinkProperty
  split
  · exact ref_err g s _
  · exact ref_withLink s h g a b kind _ _ (fun na nb _ ha hb => ⟨rfl, abs_updEdge s h g a b na nb ha hb _⟩)

theorem ref_updateLinkProperties (s : Store) (h : Inv s) (g a b kind : String) (p : Props) :
    Ref g (updateLinkProperties g a b kind p s) (AGraph.updateLinkProperties a b kind p (abs s g)) := by
  unfold updateLinkProperties AGraph.updateLinkProperties
  split
  · exact ref_err g s _
  · exact ref_withLink s h g a b kind _ _ (fun na nb _ ha hb => ⟨rfl, abs_updEdge s h g a b na nb ha hb _⟩)

theorem ref_getLinkProperties (s : Store) (h : Inv s) (g a b : String) :
    Ref g (getLinkProperties g a b s) (AGraph.getLinkProperties a b (abs s g)) := by
  unfold getLinkProperties AGraph.getLinkProperties
  apply ref_withNode
  intro na ha
  apply ref_withNode
  intro nb hb
  unfold findEdge
  rw [find_edges_of s g _ _ (cand_idIn s h g a na ha) (cand_idIn s h g b nb hb), find_abs_edge s h g a b na nb ha hb]
  cases (edgesOf s g).find? (edgeMatch na.iid nb.iid) with
  | none => exact ref_err g s _
  | some e =>
    simp only [Option.map_some, absE]
    cases AMap.get nxLabel e.attrs with
    | none => exact ref_err g s _
    | some l => exact ⟨rfl, rfl⟩

end FimVerif.Store
