import FimVerif.Proofs.Lemmas.C08Basic
/-! Frame lemmas: every removal operation of the model only takes elements away (`Shrinks`). -/
namespace FimVerif.Remove

theorem removeCp_shrinks (g : G) (x : Nat) (dp : Bool) (g' : G) (h : removeCp g x dp = .ok g') : Shrinks g g' := by
  unfold removeCp at h; split at h
  · exact deleteAll_shrinks _ _ _ h
  · cases h

theorem removeNs_shrinks (g : G) (x : Nat) (g' : G) (h : removeNs g x = .ok g') : Shrinks g g' := by
  unfold removeNs at h; split at h
  · exact (Shrinks.minus g [x]).trans (foldlM_shrinks _ (fun g i g' h => removeCp_shrinks g i true g' h) _ _ _ h)
  · cases h

theorem removeComp_shrinks (g : G) (x : Nat) (g' : G) (h : removeComp g x = .ok g') : Shrinks g g' := by
  unfold removeComp at h; split at h
  · exact (Shrinks.minus g [x]).trans (foldlM_shrinks _ removeNs_shrinks _ _ _ h)
  · cases h

theorem bind_ok {α β : Type} {m : Except Err α} {f : α → Except Err β} {b : β} (h : (m >>= f) = .ok b) :
    ∃ a, m = .ok a ∧ f a = .ok b := by
  cases m with
  | error e => simp [bind, Except.bind] at h
  | ok a => exact ⟨a, rfl, h⟩

theorem removeNodeG_shrinks (g : G) (x : Nat) (g' : G) (h : removeNodeG g x = .ok g') : Shrinks g g' := by
  unfold removeNodeG at h; split at h
  · obtain ⟨g1, h1, h2⟩ := bind_ok h
    exact (foldlM_shrinks _ removeComp_shrinks _ _ _ h1).trans
      ((Shrinks.minus g1 [x]).trans (foldlM_shrinks _ removeNs_shrinks _ _ _ h2))
  · cases h

theorem removeLinkG_shrinks (g : G) (x : Nat) (g' : G) (h : removeLinkG g x = .ok g') : Shrinks g g' := by
  unfold removeLinkG at h; split at h
  · cases h; exact Shrinks.minus g [x]
  · cases h

theorem map_ok {α β : Type} {m : Except Err α} {f : α → β} {b : β} (h : m.map f = .ok b) :
    ∃ a, m = .ok a ∧ f a = b := by
  cases m with
  | error e => simp [Except.map] at h
  | ok a => simp [Except.map] at h; exact ⟨a, rfl, h⟩

theorem disconnectG_shrinks (g : G) (i : Nat) (r : G × Option Nat) (h : disconnectG g i = .ok r) : Shrinks g r.1 := by
  unfold disconnectG at h; split at h
  · split at h
    · cases h; exact Shrinks.refl g
    · obtain ⟨a, ha, rfl⟩ := map_ok h; exact removeCp_shrinks _ _ _ _ ha
    · cases h
  · cases h

theorem disconnectStep_shrinks (g : G) (i : Nat) (g' : G) (h : disconnectStep g i = .ok g') : Shrinks g g' := by
  unfold disconnectStep at h
  split at h
  · cases h; exact Shrinks.refl g
  · split at h
    · obtain ⟨a, ha, rfl⟩ := map_ok h; exact disconnectG_shrinks _ _ _ ha
    · cases h
  · cases h

theorem disconnectAll_shrinks (g : G) (ifs : List Nat) (g' : G) (h : disconnectAll g ifs = .ok g') : Shrinks g g' :=
  foldlM_shrinks _ disconnectStep_shrinks ifs g g' h

theorem disconnectDeep_shrinks (g : G) (ifs : List Nat) (g' : G) (h : disconnectDeep g ifs = .ok g') : Shrinks g g' :=
  disconnectAll_shrinks _ _ _ h

theorem removeNsApi_shrinks (g : G) (s : Nat) (g' : G) (h : removeNsApi g s = .ok g') : Shrinks g g' := by
  unfold removeNsApi at h; split at h
  · obtain ⟨g1, h1, h2⟩ := bind_ok h
    exact (disconnectDeep_shrinks _ _ _ h1).trans (removeNs_shrinks _ _ _ h2)
  · cases h

theorem removeLinkApi_shrinks (g : G) (l : Nat) (g' : G) (h : removeLinkApi g l = .ok g') : Shrinks g g' := by
  unfold removeLinkApi at h; split at h
  · exact (Shrinks.minus g [l]).trans (foldlM_shrinks _ (fun g i g' h => removeCp_shrinks g i true g' h) _ _ _ h)
  · cases h

theorem removeNodeApi_shrinks (g : G) (n : Nat) (g' : G) (h : removeNodeApi g n = .ok g') : Shrinks g g' := by
  unfold removeNodeApi at h; split at h
  · obtain ⟨g1, h1, h2⟩ := bind_ok h
    exact (disconnectDeep_shrinks _ _ _ h1).trans (removeNodeG_shrinks _ _ _ h2)
  · cases h

theorem removeFacilityApi_shrinks (g : G) (n : Nat) (g' : G) (h : removeFacilityApi g n = .ok g') : Shrinks g g' := by
  unfold removeFacilityApi at h; split at h
  · obtain ⟨g1, h1, h2⟩ := bind_ok h
    exact (disconnectDeep_shrinks _ _ _ h1).trans (removeNodeG_shrinks _ _ _ h2)
  · cases h

theorem removeSwitchApi_shrinks (g : G) (n : Nat) (g' : G) (h : removeSwitchApi g n = .ok g') : Shrinks g g' := by
  unfold removeSwitchApi at h; split at h
  · exact removeNodeApi_shrinks _ _ _ h
  · cases h

theorem removeComponentApi_shrinks (g : G) (c : Nat) (g' : G) (h : removeComponentApi g c = .ok g') : Shrinks g g' := by
  unfold removeComponentApi at h; split at h
  · obtain ⟨g1, h1, h2⟩ := bind_ok h
    exact (disconnectDeep_shrinks _ _ _ h1).trans (removeComp_shrinks _ _ _ h2)
  · cases h

theorem removeChild_shrinks (g : G) (hl : List IfH) (p c : Nat) (r : G × List IfH) (h : removeChild g hl p c = .ok r) : Shrinks g r.1 := by
  unfold removeChild at h; split at h
  · obtain ⟨g1, h1, h2⟩ := bind_ok h
    obtain ⟨a, ha, rfl⟩ := map_ok h2
    exact (disconnectDeep_shrinks _ _ _ h1).trans (removeCp_shrinks _ _ _ _ ha)
  · cases h

theorem unpeer_shrinks (g : G) (ha hb : List IfH) (r : G × List IfH × List IfH) (h : unpeer g ha hb = .ok r) : Shrinks g r.1 := by
  unfold unpeer at h; split at h
  · cases h
  · obtain ⟨g1, h1, h2⟩ := bind_ok h
    obtain ⟨g2, h3, h4⟩ := bind_ok h2
    cases h4
    exact (removeCp_shrinks _ _ _ _ h1).trans (removeCp_shrinks _ _ _ _ h3)

theorem guarded_shrinks (f : G → Nat → Except Err G) (hf : ∀ g a g', f g a = .ok g' → Shrinks g g') :
    ∀ g a g', (if g.has a then f g a else .ok g) = .ok g' → Shrinks g g' := by
  intro g a g' h; split at h
  · exact hf _ _ _ h
  · cases h; exact Shrinks.refl g

theorem pruneIf_shrinks (g : G) (i : Nat) (g' : G)
    (h : (disconnectDeep g [i]).bind (fun g1 => removeCp g1 i true) = .ok g') : Shrinks g g' := by
  obtain ⟨g1, h1, h2⟩ := bind_ok h
  exact (disconnectDeep_shrinks _ _ _ h1).trans (removeCp_shrinks _ _ _ _ h2)

theorem prune_shrinks (g : G) (ns cs ss is : List Nat) (g' : G) (h : prune g ns cs ss is = .ok g') : Shrinks g g' := by
  unfold prune at h
  obtain ⟨g1, h1, h⟩ := bind_ok h
  obtain ⟨g2, h2, h⟩ := bind_ok h
  obtain ⟨g3, h3, h⟩ := bind_ok h
  exact (foldlM_shrinks _ removeNodeApi_shrinks _ _ _ h1).trans
    ((foldlM_shrinks _ (guarded_shrinks _ removeComponentApi_shrinks) _ _ _ h2).trans
    ((foldlM_shrinks _ (guarded_shrinks _ removeNsApi_shrinks) _ _ _ h3).trans
     (foldlM_shrinks _ (guarded_shrinks _ pruneIf_shrinks) _ _ _ h)))

end FimVerif.Remove
