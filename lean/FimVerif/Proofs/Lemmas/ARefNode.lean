import FimVerif.Proofs.Lemmas.ARefBasic
/-! C05: the shared store refines the store-level reference model `ARef.step` — node updates (key
    rewrites included) and the queries.  Core only. -/
namespace FimVerif.Store
open FimVerif FimVerif.Gen.StoreConsts

/-! ## keys after a node-dictionary update -/

/-- the key of a stored node after the dictionaries of the nodes selected by `c` went through `f` -/
theorem keyOf_map_upd (s : Store) (h : Inv s) (c : SNode → Bool) (f : Props → Props) (m : SNode) (hm : m ∈ s.nodes) :
    keyOf (s.nodes.map (fun n => if c n then { n with attrs := f n.attrs } else n)) m.iid =
      if c m then keyP (f m.attrs) else keyP m.attrs := by
  have h' := inv_updNodes s c f h
  have hm' : (if c m then { m with attrs := f m.attrs } else m) ∈
      s.nodes.map (fun n => if c n then { n with attrs := f n.attrs } else n) :=
    List.mem_map.2 ⟨m, hm, rfl⟩
  have := keyOf_mem _ h' _ hm'
  by_cases hc : c m = true
  · simp only [hc, if_true] at this ⊢; exact this
  · simp only [hc] at this ⊢; exact this

theorem absS_updNode (s : Store) (h : Inv s) (n : SNode) (hn : n ∈ s.nodes) (hu : UniqueAt s n) (f : Props → Props) :
    absS (updNode n.iid f s) = ARef.updK (keyP n.attrs) f (keyP (f n.attrs)) (absS s) := by
  have hk : ∀ i, idIn s.nodes i = true →
      keyOf (s.nodes.map (fun m => if m.iid = n.iid then { m with attrs := f m.attrs } else m)) i =
        ARef.rekey (keyP n.attrs) (keyP (f n.attrs)) (keyOf s.nodes i) := by
    intro i hi
    obtain ⟨m, hm, e, hkm⟩ := keyOf_of_idIn s h i hi
    subst e
    have h1 := keyOf_map_upd s h (fun m => decide (m.iid = n.iid)) f m hm
    simp only [decide_eq_true_eq] at h1
    rw [h1]
    have h2 := keyOf_eq_iff s h n hn hu m.iid hi
    unfold ARef.rekey
    by_cases hmn : m.iid = n.iid
    · have : m = n := (mem_iid_eq_iff s h n hn m hm).1 hmn
      rw [if_pos hmn, if_pos (h2.2 hmn), this]
    · rw [if_neg hmn, if_neg (fun hh => hmn (h2.1 hh)), hkm]
  unfold absS ARef.updK updNode
  simp only [ARef.mk.injEq, List.map_map]
  constructor
  · apply List.map_congr_left
    intro m hm
    simp only [Function.comp]
    have h1 := mem_iid_eq_iff s h n hn m hm
    have h2 := isK_iff_eq s n hu m hm
    by_cases hmn : m.iid = n.iid
    · rw [if_pos hmn, if_pos (h2.2 (h1.1 hmn))]
    · rw [if_neg hmn, if_neg (fun hh => hmn (h1.2 (h2.1 hh)))]
  · apply List.map_congr_left
    intro e he
    simp only [Function.comp]
    rw [hk e.a (h.2.2 e he).1, hk e.b (h.2.2 e he).2]

theorem absS_updGraphNodes (s : Store) (h : Inv s) (g : String) (f : Props → Props) (fk : Key → Key)
    (hfk : ∀ a, keyP (f a) = fk (keyP a)) : absS (updGraphNodes g f s) = ARef.updGraphK g f fk (absS s) := by
  have hk : ∀ i, idIn s.nodes i = true →
      keyOf (s.nodes.map (fun m => if inG g m then { m with attrs := f m.attrs } else m)) i =
        if ARef.kIn g (keyOf s.nodes i) then fk (keyOf s.nodes i) else keyOf s.nodes i := by
    intro i hi
    obtain ⟨m, hm, e, hkm⟩ := keyOf_of_idIn s h i hi
    subst e
    have h1 := keyOf_map_upd s h (inG g) f m hm
    rw [h1, hkm, kIn_keyP, inGP_attrs, hfk]
  unfold absS ARef.updGraphK updGraphNodes
  simp only [ARef.mk.injEq, List.map_map]
  constructor
  · apply List.map_congr_left
    intro m hm
    simp only [Function.comp, inGP_attrs]
    by_cases hc : inG g m = true
    · simp only [hc, if_true]
    · simp only [hc]; rfl
  · apply List.map_congr_left
    intro e he
    simp only [Function.comp]
    rw [hk e.a (h.2.2 e he).1, hk e.b (h.2.2 e he).2]

/-! ## node updates -/

theorem refS_updateNodeProperty (s : Store) (h : Inv s) (g nid k : String) (v : Val) :
    RefS (updateNodeProperty g nid k v s) (ARef.updateNodeProperty g nid k v (absS s)) := by
  unfold updateNodeProperty ARef.updateNodeProperty
  by_cases hl : k = nxLabel
  · simp only [hl, if_true]; exact refS_err s _
  · simp only [hl, if_false]
    apply refS_withNode
    intro n hc
    have hs := candS_single s g nid n hc
    refine ⟨rfl, ?_⟩
    rw [← hs.2.1, ← keyP_set]
    exact absS_updNode s h n hs.1 hs.2.2.1 _

theorem refS_unsetNodeProperty (s : Store) (h : Inv s) (g nid k : String) :
    RefS (unsetNodeProperty g nid k s) (ARef.unsetNodeProperty g nid k (absS s)) := by
  unfold unsetNodeProperty ARef.unsetNodeProperty
  by_cases hl : k = nxLabel
  · simp only [hl, if_true]; exact refS_err s _
  · simp only [hl, if_false]
    by_cases hu : k ∈ noUnset
    · simp only [hu, if_true]; exact refS_err s _
    · simp only [hu, if_false]
      have hk1 : k ≠ graphId := fun e => hu (e ▸ graphId_mem_noUnset)
      have hk2 : k ≠ nodeId := fun e => hu (e ▸ nodeId_mem_noUnset)
      apply refS_withNode
      intro n hc
      have hs := candS_single s g nid n hc
      rw [nodeAttrs_of_mem s h n hs.1]
      by_cases hh : AMap.has k n.attrs = true
      · simp only [hh, if_true]
        refine ⟨rfl, ?_⟩
        have := absS_updNode s h n hs.1 hs.2.2.1 (AMap.erase k)
        rw [keyP_erase k n.attrs hk1 hk2, hs.2.1] at this
        exact this
      · simp only [hh]; exact refS_err s _

theorem refS_updateNodesProperty (s : Store) (h : Inv s) (g k : String) (v : Val) :
    RefS (updateNodesProperty g k v s) (ARef.updateNodesProperty g k v (absS s)) := by
  unfold updateNodesProperty ARef.updateNodesProperty
  rw [nodesOf_absS, List.length_map]
  by_cases h0 : (nodesOf s g).length = 0
  · simp only [h0, if_true]; exact refS_err s _
  · simp only [h0, if_false]
    by_cases hl : k = nxLabel
    · simp only [hl, if_true]; exact refS_err s _
    · simp only [hl, if_false]
      exact ⟨rfl, absS_updGraphNodes s h g _ _ (fun a => keyP_set k v a)⟩

theorem refS_updateNodeProperties (s : Store) (h : Inv s) (g nid : String) (p : Props) :
    RefS (updateNodeProperties g nid p s) (ARef.updateNodeProperties g nid p (absS s)) := by
  unfold updateNodeProperties ARef.updateNodeProperties
  by_cases hl : AMap.has nxLabel p = true
  · simp only [hl, if_true]; exact refS_err s _
  · simp only [hl]
    apply refS_withNode
    intro n hc
    have hs := candS_single s g nid n hc
    refine ⟨rfl, ?_⟩
    rw [← hs.2.1, ← keyP_update]
    exact absS_updNode s h n hs.1 hs.2.2.1 _

/-! ## queries -/

theorem refS_getNodeProperties (s : Store) (h : Inv s) (g nid : String) :
    RefS (getNodeProperties g nid s) (ARef.getNodeProperties g nid (absS s)) := by
  unfold getNodeProperties ARef.getNodeProperties
  apply refS_withNode
  intro n hc
  have hs := candS_single s g nid n hc
  rw [nodeAttrs_of_mem s h n hs.1]
  simp only
  cases hl : AMap.get nxLabel n.attrs with
  | none => exact refS_err s _
  | some l => exact ⟨rfl, rfl⟩

theorem refS_nidList (s : Store) (l : List SNode) : RefS (nidList l s) (ARef.nidList (l.map (·.attrs)) (absS s)) := by
  unfold nidList ARef.nidList
  have e1 : (l.map (·.attrs)).any (fun a => !AMap.has nodeId a) = l.any (fun n => !AMap.has nodeId n.attrs) := by
    rw [List.any_map]; rfl
  have e2 : (l.map (·.attrs)).map (AMap.get nodeId) = l.map (fun n => AMap.get nodeId n.attrs) := by
    rw [List.map_map]; rfl
  rw [e1, e2]
  split
  · exact refS_err s _
  · exact ⟨rfl, rfl⟩

theorem refS_listAllNodeIds (s : Store) (g : String) : RefS (listAllNodeIds g s) (ARef.listAllNodeIds g (absS s)) := by
  unfold listAllNodeIds ARef.listAllNodeIds
  rw [nodesOf_absS, List.length_map]
  split
  · exact refS_err s _
  · exact refS_nidList s _

theorem refS_nodesByClass (s : Store) (g label : String) : RefS (nodesByClass g label s) (ARef.nodesByClass g label (absS s)) := by
  unfold nodesByClass ARef.nodesByClass
  rw [nodesOf_absS, filter_map_pred (·.attrs) (ARef.hasAttrP propClass label) (hasAttr propClass label) _ (fun _ _ => rfl)]
  exact refS_nidList s _

theorem refS_nodesByClassAndType (s : Store) (g label ntype : String) :
    RefS (nodesByClassAndType g label ntype s) (ARef.nodesByClassAndType g label ntype (absS s)) := by
  unfold nodesByClassAndType ARef.nodesByClassAndType
  rw [nodesOf_absS, filter_map_pred (·.attrs) _ (fun n => hasAttr propClass label n && hasAttr propType ntype n) _
    (fun _ _ => rfl)]
  exact refS_nidList s _

theorem refS_nodeExists (s : Store) (g nid label : String) : RefS (nodeExists g nid label s) (ARef.nodeExists g nid label (absS s)) := by
  unfold nodeExists ARef.nodeExists
  rw [absS_nodes, filter_map_pred (·.attrs) _ (fun n => inG g n && hasNid nid n && hasAttr propClass label n) _
    (fun _ _ => rfl)]
  cases s.nodes.filter (fun n => inG g n && hasNid nid n && hasAttr propClass label n) with
  | nil => exact ⟨rfl, rfl⟩
  | cons a l => cases l <;> exact ⟨rfl, rfl⟩

theorem refS_graphExists (s : Store) (g : String) : RefS (graphExists g s) (ARef.graphExists g (absS s)) := by
  unfold graphExists ARef.graphExists
  rw [nodesOf_absS, List.length_map]; exact ⟨rfl, rfl⟩

theorem refS_checkNodeUnique (s : Store) (g label name : String) :
    RefS (checkNodeUnique g label name s) (ARef.checkNodeUnique g label name (absS s)) := by
  unfold checkNodeUnique ARef.checkNodeUnique
  rw [nodesOf_absS, filter_map_pred (·.attrs) _ (fun n => hasAttr propName name n && hasAttr propClass label n) _
    (fun _ _ => rfl), List.length_map]
  exact ⟨rfl, rfl⟩

theorem refS_findMatchingNodes (s : Store) (g other : String) :
    RefS (findMatchingNodes g other s) (ARef.findMatchingNodes g other (absS s)) := by
  unfold findMatchingNodes ARef.findMatchingNodes
  have h1 := (refS_listAllNodeIds s g).1
  have e2 : (ARef.nodesOf (absS s) other).map (AMap.get nodeId) = (nodesOf s other).map (fun n => AMap.get nodeId n.attrs) := by
    rw [nodesOf_absS, List.map_map]; rfl
  rw [e2]
  generalize hr : listAllNodeIds g s = r at h1
  generalize hr' : ARef.listAllNodeIds g (absS s) = r' at h1
  obtain ⟨r1, r2⟩ := r
  obtain ⟨r1', r2'⟩ := r'
  simp only at h1
  subst h1
  cases r1 with
  | error e => exact refS_err s _
  | ok o =>
    cases o with
    | vals mine =>
      simp only
      cases fmnErr mine (List.map (fun n => AMap.get nodeId n.attrs) (nodesOf s other)) with
      | some e => exact refS_err s _
      | none => exact ⟨rfl, rfl⟩
    | unit => exact refS_err s _
    | bool b => exact refS_err s _
    | nodeProps l p => exact refS_err s _
    | linkProps l p => exact refS_err s _
    | int n => exact refS_err s _

end FimVerif.Store
