import FimVerif.Proofs.Lemmas.C14Tracks
namespace FimVerif.Cbm

/-! ### consequences of the invariant -/

theorem firstLive_mem {l : List Deleg} (h : (firstLive l).live = true) : firstLive l ∈ l := by
  unfold firstLive at h ⊢
  cases hf : l.find? Deleg.live with
  | none => rw [hf] at h; cases h
  | some d => exact List.mem_of_find?_eq_some hf

theorem Deleg.norm_dict {d : Deleg} {l : List (String × String)} (h : d = .dict l) : d.norm = .dict l := by subst h; rfl

/-- delegations of a combined model are single entries keyed by the graph id of the live model that carries them -/
theorem Tracks.ldel_keyed {pool : List Adm} {c : Graph} {live : List Adm} (t : Tracks pool c live) (i : String)
    (l : List (String × String)) (h : c.ldelOf i = .dict l) :
    ∃ a ∈ live, ∃ k d, a.g.ldelOf i = .dict [(k, d)] ∧ l = [(a.id, d)] := by
  have h1 := t.ldel i
  rw [Deleg.norm_dict h] at h1
  have hl : (firstLive (live.map (speakL · i))).live = true := by rw [← h1]; rfl
  obtain ⟨a, ha, he⟩ := List.mem_map.mp (firstLive_mem hl)
  rw [← h1] at he
  obtain ⟨k, v, e1, e2⟩ := Deleg.rk_eq_dict he
  exact ⟨a, ha, k, v, e1, e2⟩

theorem Tracks.cdel_keyed {pool : List Adm} {c : Graph} {live : List Adm} (t : Tracks pool c live) (i : String)
    (l : List (String × String)) (h : c.cdelOf i = .dict l) :
    ∃ a ∈ live, ∃ k d, a.g.cdelOf i = .dict [(k, d)] ∧ l = [(a.id, d)] := by
  have h1 := t.cdel i
  rw [Deleg.norm_dict h] at h1
  have hl : (firstLive (live.map (speakC · i))).live = true := by rw [← h1]; rfl
  obtain ⟨a, ha, he⟩ := List.mem_map.mp (firstLive_mem hl)
  rw [← h1] at he
  obtain ⟨k, v, e1, e2⟩ := Deleg.rk_eq_dict he
  exact ⟨a, ha, k, v, e1, e2⟩

theorem Tracks.atMostOne {pool : List Adm} {c : Graph} {live : List Adm} (t : Tracks pool c live) :
    ∀ n ∈ c.nodes, n.ldel.atMostOne = true ∧ n.cdel.atMostOne = true := by
  intro n hn
  have hnode := node?_of_mem t.wf.nodup hn
  constructor
  · have hl : c.ldelOf n.id = n.ldel := by simp [Graph.ldelOf, hnode]
    cases hd : n.ldel with
    | absent => rfl
    | emptied => rfl
    | dict l =>
      rw [hd] at hl
      obtain ⟨a, _, k, d, _, e2⟩ := t.ldel_keyed n.id l hl
      subst e2; rfl
  · have hl : c.cdelOf n.id = n.cdel := by simp [Graph.cdelOf, hnode]
    cases hd : n.cdel with
    | absent => rfl
    | emptied => rfl
    | dict l =>
      rw [hd] at hl
      obtain ⟨a, _, k, d, _, e2⟩ := t.cdel_keyed n.id l hl
      subst e2; rfl

/-- `unmerge_adm` never raises on a non-empty combined model that satisfies the invariant -/
theorem Tracks.unmerge_total {pool : List Adm} {c : Graph} {live : List Adm} (t : Tracks pool c live) (hne : c.nodes ≠ [])
    (gid : String) : (Cbm.unmerge c gid).1 = none := by
  obtain ⟨rs, hrs⟩ := unmergeNodes_ok (gid := gid) c.nodes (fun n hn =>
    unmergeNode_ok (t.atMostOne n hn).1 (t.atMostOne n hn).2 gid)
  unfold Cbm.unmerge
  have : c.nodes.isEmpty = false := by cases hg : c.nodes with
    | nil => exact absurd hg hne
    | cons _ _ => rfl
  simp [this, hrs]

/-- a graph id that occurs nowhere in the combined model is not the id of a live model -/
theorem Tracks.fresh_not_live {pool : List Adm} {c : Graph} {live : List Adm} (t : Tracks pool c live) {gid : String}
    (hf : c.Fresh gid) : ∀ b ∈ live, b.id ≠ gid := by
  intro b hb he
  have hne := t.nonempty b hb
  cases hn : b.g.nodes with
  | nil => exact hne hn
  | cons n ns =>
    have hbi : b.g.has n.id = true := has_iff.mpr (by simp [Graph.ids, hn])
    have hci : c.has n.id = true := by rw [t.has]; exact List.any_eq_true.mpr ⟨b, hb, hbi⟩
    obtain ⟨m, hm, hmi⟩ := List.mem_map.mp (has_iff.mp hci)
    have hnode := node?_of_mem t.wf.nodup hm
    have hp : c.provOf n.id = m.prov := by rw [← hmi]; simp [Graph.provOf, hnode]
    have : gid ∈ m.prov := by
      rw [← hp, t.prov]
      unfold contributors
      exact List.mem_map.mpr ⟨b, List.mem_filter.mpr ⟨hb, hbi⟩, he⟩
    exact (hf m hm).1 this

/-! ### all histories -/

/-- the combined model and every snapshot satisfy the invariant for some set of the broker's source models -/
def WInv (w : World) : Prop :=
  (∃ live, Tracks w.srcs w.cbm live) ∧ ∀ p ∈ w.snaps, ∃ live, Tracks w.srcs p.2 live

/-- what the property's quantifier asks of one operation: a merge names a well-formed model that is not currently part of
the combined model, and either succeeds or leaves the combined model as it was (a merge that raises half-way - conflicting
delegations - leaves a state the property does not speak about) -/
def OpOk (w : World) : Op → Prop
  | .merge aid =>
    match w.srcs.find? (fun a => a.id == aid) with
    | none => True
    | some a => a.WF ∧ w.cbm.Fresh aid ∧ ((mergeN w.cbm a).1 = none ∨ (mergeN w.cbm a).2 = w.cbm)
  | _ => True

def HistOk (w : World) : List Op → Prop
  | [] => True
  | op :: ops => OpOk w op ∧ HistOk (step w op).2 ops

theorem WInv.init (srcs : List Adm) : WInv (World.init srcs) :=
  ⟨⟨[], Tracks.empty srcs⟩, by simp [World.init]⟩

theorem lookupSnap_mem {k : Nat} {g : Graph} : ∀ {l : List (Nat × Graph)}, lookupSnap k l = some g → (k, g) ∈ l
  | [], h => by cases h
  | (j, g') :: l, h => by
    unfold lookupSnap at h
    split at h
    · rename_i hj
      injection h with h
      subst h
      have : j = k := by simpa using hj
      subst this
      simp
    · exact List.mem_cons_of_mem _ (lookupSnap_mem h)

theorem WInv.step {w : World} (h : WInv w) (op : Op) (hop : OpOk w op) : WInv (step w op).2 := by
  obtain ⟨⟨live, t⟩, hs⟩ := h
  cases op with
  | merge aid =>
    simp only [OpOk] at hop
    cases hf : w.srcs.find? (fun a => a.id == aid) with
    | none => simp only [Cbm.step, hf]; exact ⟨⟨live, t⟩, hs⟩
    | some a =>
      rw [hf] at hop
      simp only [Cbm.step, hf] at hop ⊢
      obtain ⟨hwf, hfresh, hok⟩ := hop
      have hid : a.id = aid := by simpa using List.find?_some hf
      have hmem : a ∈ w.srcs := List.mem_of_find?_eq_some hf
      refine ⟨?_, hs⟩
      rw [merge_state]
      rcases hok with hok | hok
      · have hm : mergeN w.cbm a = (none, (mergeN w.cbm a).2) := by rw [← hok]
        exact ⟨live ++ [a], t.merge hmem hwf (fun b hb => by rw [hid]; exact t.fresh_not_live hfresh b hb) hm⟩
      · rw [hok]; exact ⟨live, t⟩
  | unmerge gid =>
    simp only [Cbm.step]
    refine ⟨?_, hs⟩
    by_cases hne : w.cbm.nodes = []
    · have : Cbm.unmerge w.cbm gid = (some .query, w.cbm) := by simp [Cbm.unmerge, hne]
      rw [this]; exact ⟨live, t⟩
    · have hu : Cbm.unmerge w.cbm gid = (none, (Cbm.unmerge w.cbm gid).2) := by rw [← t.unmerge_total hne gid]
      exact ⟨_, t.unmerge hu⟩
  | snapshot =>
    simp only [Cbm.step, snapshot]
    split
    · exact ⟨⟨live, t⟩, hs⟩
    · refine ⟨⟨live, t⟩, ?_⟩
      intro p hp
      simp only [List.mem_cons] at hp
      rcases hp with rfl | hp
      · exact ⟨live, t⟩
      · exact hs p hp
  | rollback k =>
    simp only [Cbm.step, rollback]
    split
    · exact ⟨⟨[], Tracks.empty _⟩, hs⟩
    · rename_i g hg
      exact ⟨hs (k, g) (lookupSnap_mem hg), fun p hp => hs p (List.mem_filter.mp hp).1⟩

theorem step_srcs (w : World) (op : Op) : (step w op).2.srcs = w.srcs := by
  cases op <;> simp only [step, snapshot, rollback] <;> (try split) <;> (try split) <;> rfl

/-- the invariant holds after every history within the property's quantifier -/
theorem WInv.run : ∀ (ops : List Op) {w : World}, WInv w → HistOk w ops → WInv (run w ops)
  | [], _, h, _ => h
  | op :: ops, _, h, hok => WInv.run ops (h.step op hok.1) hok.2

end FimVerif.Cbm
