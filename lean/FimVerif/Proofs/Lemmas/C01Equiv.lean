import FimVerif.Model.GraphML
import FimVerif.Proofs.Lemmas.C01Doc
/-! The serialisers commute with node renaming and `GraphID` stamping (C01 `reserialize_stable`). -/
namespace FimVerif.C01
open FimVerif.GraphML

/-! ### documents up to the internal node numbering and the graph id -/

/-- replace the text of the data elements under key `gk` -/
def stampData (gk : Nat) (g' : Val) (ds : List GData) : List GData :=
  ds.map fun x => if x.key = gk then ⟨x.key, g'⟩ else x

/-- a GraphML document with node ids renamed by `f` and the node data under key `gk` set to `g'` -/
def relabelGDoc {κ κ' : Type} (f : κ → κ') (hd : List GData → List GData) (d : GDoc κ) : GDoc κ' :=
  { keys := d.keys,
    nodes := d.nodes.map fun n => ⟨f n.id, n.labels, hd n.data⟩,
    edges := d.edges.map fun e => ⟨f e.source, f e.target, e.label, e.data⟩ }

/-- a node-link object with node keys renamed by `f` and `GraphID` set by `hv` -/
def relabelJObj {κ κ' : Type} (f : κ → κ') (hv : String → Val → Val) (o : JObj κ) : JObj κ' :=
  o.map fun p => match p.2 with
    | .k y => (p.1, JV.k (f y))
    | .v v => (p.1, JV.v (hv p.1 v))

def relabelJDoc {κ κ' : Type} (f : κ → κ') (hv : String → Val → Val) (d : JDoc κ) : JDoc κ' :=
  { directed := d.directed, multigraph := d.multigraph,
    nodes := d.nodes.map (relabelJObj f hv),
    edges := d.edges.map (relabelJObj f fun _ v => v) }

/-! ### GraphML -/

variable {κ κ' : Type}

theorem flatMap_congr' {α β : Type} (f g : α → List β) : ∀ (l : List α), (∀ a ∈ l, f a = g a) → l.flatMap f = l.flatMap g
  | [], _ => rfl
  | a :: t, h => by
    simp only [List.flatMap_cons]
    rw [h a List.mem_cons_self, flatMap_congr' f g t (fun x hx => h x (List.mem_cons_of_mem _ hx))]

theorem Attrs.mem_of_get : ∀ (a : Attrs) (k : String) (v : Val), a.get? k = some v → (k, v) ∈ a
  | [], _, _, h => by simp [Attrs.get?] at h
  | (k', v') :: t, k, v, h => by
    by_cases hk : k = k'
    · subst hk
      have : v' = v := by simpa [Attrs.get?, List.lookup] using h
      subst this
      exact List.mem_cons_self
    · have hb : (k == k') = false := by simpa using hk
      have h' : Attrs.get? t k = some v := by simpa [Attrs.get?, List.lookup_cons, hb] using h
      exact List.mem_cons_of_mem _ (Attrs.mem_of_get t k v h')

theorem allSpecs_copy [DecidableEq κ] [DecidableEq κ'] (G : Graph κ) (H : Graph κ') (f : κ → κ') (h : Attrs → Attrs)
    (hn : H.nodes = G.nodes.map fun p => (f p.1, h p.2))
    (he : H.edgesIter = G.edgesIter.map fun e => ⟨f e.a, f e.b, e.attrs⟩)
    (hs : ∀ p ∈ G.nodes, specsOf .node (h p.2) = specsOf .node p.2) : H.allSpecs = G.allSpecs := by
  unfold Graph.allSpecs
  rw [hn, he]
  congr 1
  · rw [List.flatMap_map]
    apply flatMap_congr'
    intro p hp
    exact hs p hp
  · rw [List.flatMap_map]

theorem toGraphML_copy [DecidableEq κ] [DecidableEq κ'] (G : Graph κ) (H : Graph κ') (f : κ → κ') (h : Attrs → Attrs)
    (hn : H.nodes = G.nodes.map fun p => (f p.1, h p.2))
    (he : H.edgesIter = G.edgesIter.map fun e => ⟨f e.a, f e.b, e.attrs⟩)
    (hs : ∀ p ∈ G.nodes, specsOf .node (h p.2) = specsOf .node p.2)
    (tbl : List KeySpec) (ht : allocKeys G.allSpecs = some tbl) :
    toGraphML H = .ok { keys := docKeys tbl,
                        nodes := G.nodes.map fun p => ⟨f p.1, none, dataOf tbl .node (h p.2)⟩,
                        edges := G.edgesIter.map fun e => ⟨f e.a, f e.b, none, dataOf tbl .edge e.attrs⟩ } := by
  unfold toGraphML
  rw [allSpecs_copy G H f h hn he hs, ht]
  simp only [hn, he, List.map_map, Function.comp_def]

theorem toGraphML_ok [DecidableEq κ] (G : Graph κ) (d : GDoc κ) (h : toGraphML G = .ok d) :
    ∃ tbl, allocKeys G.allSpecs = some tbl ∧
      d = { keys := docKeys tbl,
            nodes := G.nodes.map fun p => ⟨p.1, none, dataOf tbl .node p.2⟩,
            edges := G.edgesIter.map fun e => ⟨e.a, e.b, none, dataOf tbl .edge e.attrs⟩ } := by
  unfold toGraphML at h
  cases ht : allocKeys G.allSpecs with
  | none => simp [ht] at h
  | some tbl =>
    simp only [ht, Except.ok.injEq] at h
    exact ⟨tbl, rfl, h.symm⟩

/-- table indices of two allocated specs coincide only for equal specs -/
theorem idxOf_spec_inj (tbl : List KeySpec) (a b : KeySpec) (ha : a ∈ tbl) (hb : b ∈ tbl)
    (h : tbl.idxOf a = tbl.idxOf b) : a = b := by
  have h1 := List.getElem_idxOf (List.idxOf_lt_length_of_mem ha)
  have h2 := List.getElem_idxOf (List.idxOf_lt_length_of_mem hb)
  rw [← h1, ← h2]
  simp [h]

/-- data elements of attributes not named `GraphID` are not touched by the stamp -/
theorem stampData_other (tbl : List KeySpec) (ty : KTy) (g' : Val) (hg : (⟨"GraphID", ty, .node⟩ : KeySpec) ∈ tbl) :
    ∀ (a : Attrs), "GraphID" ∉ a.map (·.1) →
    (∀ p ∈ a, ∃ t, xmlType p.2 = some t ∧ (⟨p.1, t, .node⟩ : KeySpec) ∈ tbl) →
    stampData (tbl.idxOf ⟨"GraphID", ty, .node⟩) g' (dataOf tbl .node a) = dataOf tbl .node a
  | [], _, _ => rfl
  | p :: t, hno, hs => by
    simp only [List.map_cons, List.mem_cons, not_or] at hno
    obtain ⟨tp, htp, hmem⟩ := hs p List.mem_cons_self
    have ih := stampData_other tbl ty g' hg t hno.2 (fun q hq => hs q (List.mem_cons_of_mem _ hq))
    have hne : tbl.idxOf (⟨p.1, tp, .node⟩ : KeySpec) ≠ tbl.idxOf ⟨"GraphID", ty, .node⟩ := by
      intro e
      have := idxOf_spec_inj tbl _ _ hmem hg e
      simp only [KeySpec.mk.injEq] at this
      exact hno.1 this.1.symm
    simp only [stampData, dataOf, List.map_cons, htp, Option.getD_some] at ih ⊢
    rw [if_neg hne]
    congr 1

theorem dataOf_stamp (tbl : List KeySpec) (g g' : Val) (ty : KTy) (hty : xmlType g = some ty) (hty' : xmlType g' = some ty) :
    ∀ (a : Attrs), a.get? "GraphID" = some g → (a.map (·.1)).Nodup →
    (∀ p ∈ a, ∃ t, xmlType p.2 = some t ∧ (⟨p.1, t, .node⟩ : KeySpec) ∈ tbl) →
    dataOf tbl .node (a.set "GraphID" g') = stampData (tbl.idxOf ⟨"GraphID", ty, .node⟩) g' (dataOf tbl .node a)
  | [], hget, _, _ => by simp [Attrs.get?] at hget
  | p :: t, hget, hnd, hs => by
    obtain ⟨k, v⟩ := p
    simp only [List.map_cons, List.nodup_cons] at hnd
    by_cases hk : k = "GraphID"
    · subst hk
      have hv : v = g := by simpa [Attrs.get?, List.lookup] using hget
      subst hv
      obtain ⟨t0, ht0, hmem⟩ := hs _ List.mem_cons_self
      simp only at ht0 hmem
      have : t0 = ty := by rw [hty] at ht0; exact (Option.some.inj ht0).symm
      subst this
      have hrest := stampData_other tbl t0 g' hmem t hnd.1 (fun q hq => hs q (List.mem_cons_of_mem _ hq))
      simp only [Attrs.set, if_true, dataOf, List.map_cons, stampData, hty, hty', Option.getD_some] at hrest ⊢
      rw [hrest]
    · have hget' : Attrs.get? t "GraphID" = some g := by
        have hb : ("GraphID" == k) = false := by simpa using fun e : "GraphID" = k => hk e.symm
        simpa [Attrs.get?, List.lookup_cons, hb] using hget
      have ih := dataOf_stamp tbl g g' ty hty hty' t hget' hnd.2 (fun q hq => hs q (List.mem_cons_of_mem _ hq))
      obtain ⟨tk, htk, hmemk⟩ := hs _ List.mem_cons_self
      simp only at htk hmemk
      have hgmem : (⟨"GraphID", ty, .node⟩ : KeySpec) ∈ tbl := by
        obtain ⟨t1, ht1, hm1⟩ := hs _ (List.mem_cons_of_mem _ (Attrs.mem_of_get t "GraphID" g hget'))
        simp only at ht1 hm1
        rw [hty] at ht1
        exact (Option.some.inj ht1) ▸ hm1
      have hne : tbl.idxOf (⟨k, tk, .node⟩ : KeySpec) ≠ tbl.idxOf ⟨"GraphID", ty, .node⟩ := by
        intro e
        have := idxOf_spec_inj tbl _ _ hmemk hgmem e
        simp only [KeySpec.mk.injEq] at this
        exact hk this.1
      simp only [Attrs.set, hk, if_false, dataOf, List.map_cons, stampData, htk, Option.getD_some] at ih ⊢
      rw [if_neg hne, ih]

/-! ### `networkx_to_neo4j` commutes with the relabelling -/

theorem mapE_map_comm {α α' β β' ε : Type} (g : α → Except ε β) (g' : α' → Except ε β') (m : α → α') (m' : β → β')
    (h : ∀ a, g' (m a) = (g a).map m') : ∀ (l : List α), mapE g' (l.map m) = (mapE g l).map (List.map m')
  | [] => rfl
  | a :: t => by
    simp only [List.map_cons, mapE, h a, mapE_map_comm g g' m m' h t]
    cases g a with
    | error e => rfl
    | ok b =>
      cases mapE g t with
      | error e => rfl
      | ok bs => rfl

theorem find_stamp (gk k : Nat) (g' : Val) (hne : k ≠ gk) : ∀ (data : List GData),
    (stampData gk g' data).find? (fun d => d.key == k) = data.find? (fun d => d.key == k)
  | [] => rfl
  | x :: t => by
    have ih := find_stamp gk k g' hne t
    unfold stampData at ih ⊢
    rw [List.map_cons]
    by_cases hg : x.key = gk
    · have hxk : ¬ x.key = k := fun e => hne (e ▸ hg)
      rw [if_pos hg, List.find?_cons_of_neg (by simpa using hxk), List.find?_cons_of_neg (by simpa using hxk)]
      exact ih
    · rw [if_neg hg]
      by_cases hx : x.key = k
      · rw [List.find?_cons_of_pos (by simpa using hx), List.find?_cons_of_pos (by simpa using hx)]
      · rw [List.find?_cons_of_neg (by simpa using hx), List.find?_cons_of_neg (by simpa using hx)]
        exact ih

theorem classText_stamp (ck : Option Nat) (gk : Nat) (g' : Val) (hne : ck ≠ some gk) (data : List GData) :
    classText ck (stampData gk g' data) = classText ck data := by
  unfold classText
  cases ck with
  | none => rfl
  | some k =>
    have : k ≠ gk := fun e => hne (e ▸ rfl)
    simp only [find_stamp gk k g' this data]

theorem markNode_relabel (ck : Option Nat) (f : κ → κ') (hd : List GData → List GData)
    (hc : ∀ data, classText ck (hd data) = classText ck data) (n : GNode κ) :
    markNode ck ⟨f n.id, n.labels, hd n.data⟩
      = (markNode ck n).map fun m => (⟨f m.id, m.labels, hd m.data⟩ : GNode κ') := by
  unfold markNode
  simp only [hc]
  cases classText ck n.data with
  | error e => rfl
  | ok t =>
    cases hl : n.labels with
    | none => simp [Except.map]
    | some l =>
      by_cases he : l = ""
      · simp [he, Except.map]
      · simp [he, Except.map, hl]

theorem markEdge_relabel (ck : Option Nat) (f : κ → κ') (e : GEdge κ) :
    markEdge ck ⟨f e.source, f e.target, e.label, e.data⟩
      = (markEdge ck e).map fun m => (⟨f m.source, f m.target, m.label, m.data⟩ : GEdge κ') := by
  unfold markEdge
  cases classText ck e.data with
  | error er => rfl
  | ok t =>
    cases hl : e.label with
    | none => simp [Except.map]
    | some l =>
      by_cases he : l = ""
      · simp [he, Except.map]
      · simp [he, Except.map, hl]

theorem toNeo4j_relabel (f : κ → κ') (hd : List GData → List GData) (d : GDoc κ)
    (hc : ∀ data, classText (classKey d.keys .node) (hd data) = classText (classKey d.keys .node) data) :
    toNeo4j (relabelGDoc f hd d) = (toNeo4j d).map (relabelGDoc f hd) := by
  unfold toNeo4j
  simp only [relabelGDoc]
  rw [mapE_map_comm (markEdge (classKey d.keys .edge)) (markEdge (classKey d.keys .edge))
        (fun e : GEdge κ => (⟨f e.source, f e.target, e.label, e.data⟩ : GEdge κ'))
        (fun m : GEdge κ => (⟨f m.source, f m.target, m.label, m.data⟩ : GEdge κ'))
        (fun e => markEdge_relabel _ f e)]
  rw [mapE_map_comm (markNode (classKey d.keys .node)) (markNode (classKey d.keys .node))
        (fun n : GNode κ => (⟨f n.id, n.labels, hd n.data⟩ : GNode κ'))
        (fun m : GNode κ => (⟨f m.id, m.labels, hd m.data⟩ : GNode κ'))
        (fun n => markNode_relabel _ f hd hc n)]
  cases mapE (markEdge (classKey d.keys .edge)) d.edges with
  | error e => rfl
  | ok es =>
    cases mapE (markNode (classKey d.keys .node)) d.nodes with
    | error e => rfl
    | ok ns => rfl

/-- every `<key>` of the emitted table sits at its own index -/
theorem mem_docKeys (tbl : List KeySpec) (k : GKey) (h : k ∈ docKeys tbl) : tbl[k.id]? = some k.spec := by
  unfold docKeys at h
  rw [List.mem_reverse, List.mem_map] at h
  obtain ⟨p, hp, rfl⟩ := h
  exact List.mem_zipIdx_iff_getElem?.mp hp

/-- the `Class` key is not the `GraphID` key -/
theorem classKey_ne_gid (tbl : List KeySpec) (ty : KTy) (hg : (⟨"GraphID", ty, .node⟩ : KeySpec) ∈ tbl) :
    classKey (docKeys tbl) .node ≠ some (tbl.idxOf ⟨"GraphID", ty, .node⟩) := by
  intro h
  unfold classKey at h
  cases hl : ((docKeys tbl).filter fun k => k.spec.name == "Class" && k.spec.scope == Scope.node).getLast? with
  | none => simp [hl] at h
  | some k =>
    simp [hl] at h
    have hm := List.mem_filter.mp (List.mem_of_getLast? hl)
    have h1 := mem_docKeys tbl k hm.1
    rw [h] at h1
    have h2 := List.getElem_idxOf (List.idxOf_lt_length_of_mem hg)
    rw [List.getElem?_eq_getElem (List.idxOf_lt_length_of_mem hg), h2] at h1
    have hname : k.spec.name = "Class" := by simpa using hm.2 |> fun x => (by simp at x; exact x.1)
    rw [← Option.some.inj h1] at hname
    simp at hname

theorem specsOf_set (g g' : Val) (hty : xmlType g' = xmlType g) : ∀ (a : Attrs), a.get? "GraphID" = some g →
    specsOf .node (a.set "GraphID" g') = specsOf .node a
  | [], h => by simp [Attrs.get?] at h
  | (k, v) :: t, h => by
    by_cases hk : k = "GraphID"
    · subst hk
      have hv : v = g := by simpa [Attrs.get?, List.lookup] using h
      subst hv
      simp [Attrs.set, specsOf, hty]
    · have hb : ("GraphID" == k) = false := by simpa using fun e : "GraphID" = k => hk e.symm
      have h' : Attrs.get? t "GraphID" = some g := by simpa [Attrs.get?, List.lookup_cons, hb] using h
      have ih := specsOf_set g g' hty t h'
      simp only [Attrs.set, hk, if_false, specsOf, List.map_cons] at ih ⊢
      rw [ih]

/-! ### node-link JSON -/

/-- the value map of the stamp: `GraphID := g'`, everything else unchanged -/
def stampV (g' : Val) (name : String) (v : Val) : Val := if name = "GraphID" then g' else v

theorem attrsObj_set (f : κ → κ') (g g' : Val) : ∀ (a : Attrs), a.get? "GraphID" = some g → (a.map (·.1)).Nodup →
    attrsObj (κ := κ') (a.set "GraphID" g') = relabelJObj f (stampV g') (attrsObj (κ := κ) a)
  | [], h, _ => by simp [Attrs.get?] at h
  | (k, v) :: t, h, hnd => by
    simp only [List.map_cons, List.nodup_cons] at hnd
    have hrest : ∀ (t : Attrs), "GraphID" ∉ t.map (·.1) →
        attrsObj (κ := κ') t = relabelJObj f (stampV g') (attrsObj (κ := κ) t) := by
      intro t ht
      induction t with
      | nil => rfl
      | cons q r ih =>
        simp only [List.map_cons, List.mem_cons, not_or] at ht
        have := ih ht.2
        simp only [attrsObj, relabelJObj, List.map_cons, List.map_map] at this ⊢
        rw [this]
        have hq : ¬ q.1 = "GraphID" := fun e => ht.1 e.symm
        simp [stampV, hq]
    by_cases hk : k = "GraphID"
    · subst hk
      simp only [Attrs.set, if_true]
      have := hrest t hnd.1
      simp only [attrsObj, relabelJObj, List.map_cons, List.map_map] at this ⊢
      rw [this]
      simp [stampV]
    · have hb : ("GraphID" == k) = false := by simpa using fun e : "GraphID" = k => hk e.symm
      have h' : Attrs.get? t "GraphID" = some g := by simpa [Attrs.get?, List.lookup_cons, hb] using h
      have ih := attrsObj_set f g g' t h' hnd.2
      simp only [Attrs.set, hk, if_false]
      simp only [attrsObj, relabelJObj, List.map_cons, List.map_map] at ih ⊢
      rw [ih]
      simp [stampV, hk]

theorem attrsObj_id (f : κ → κ') (a : Attrs) :
    attrsObj (κ := κ') a = relabelJObj f (fun _ v => v) (attrsObj (κ := κ) a) := by
  simp [attrsObj, relabelJObj, List.map_map, Function.comp_def]

theorem set_relabelJObj (f : κ → κ') (hv : String → Val → Val) (key : String) (x : κ) : ∀ (o : JObj κ),
    relabelJObj f hv (o.set key (.k x)) = (relabelJObj f hv o).set key (.k (f x))
  | [] => rfl
  | (k, y) :: t => by
    by_cases hk : k = key
    · subst hk
      cases y <;> simp [JObj.set, relabelJObj]
    · have ih := set_relabelJObj f hv key x t
      simp only [relabelJObj] at ih
      cases y <;> simp [JObj.set, relabelJObj, hk, ih]

theorem toJSON_copy [DecidableEq κ] [DecidableEq κ'] (G : Graph κ) (H : Graph κ') (f : κ → κ') (h : Attrs → Attrs)
    (hv : String → Val → Val)
    (hn : H.nodes = G.nodes.map fun p => (f p.1, h p.2))
    (he : H.edgesIter = G.edgesIter.map fun e => ⟨f e.a, f e.b, e.attrs⟩)
    (ho : ∀ p ∈ G.nodes, attrsObj (κ := κ') (h p.2) = relabelJObj f hv (attrsObj (κ := κ) p.2)) :
    toJSON H = relabelJDoc f hv (toJSON G) := by
  unfold toJSON relabelJDoc
  simp only [hn, he, List.map_map, JDoc.mk.injEq, true_and]
  constructor
  · apply List.map_congr_left
    intro p hp
    simp only [Function.comp_apply]
    rw [ho p hp, set_relabelJObj]
  · apply List.map_congr_left
    intro e _
    simp only [Function.comp_apply]
    rw [set_relabelJObj, set_relabelJObj, ← attrsObj_id]

end FimVerif.C01
