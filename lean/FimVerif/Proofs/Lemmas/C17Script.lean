import FimVerif.Proofs.Lemmas.C17Edit
/-! Hierarchical edit scripts on sliver trees, their application, and the report they predict (C17). -/
namespace FimVerif.Diff
variable {V : Type} [DecidableEq V]

/-! ### tracked properties -/

/-- at most one `set_labels` / `set_capacities` / `set_user_data` (the argument may be `None`) -/
structure PScript (V : Type) where
  labels : Option (Option V) := none
  caps : Option (Option V) := none
  ud : Option (Option V) := none

def applyP (sc : PScript V) (p : Props V) : Props V :=
  { labels := sc.labels.getD p.labels, caps := sc.caps.getD p.caps, ud := sc.ud.getD p.ud }

/-- a property is reported iff the script sets it to a value different from the old one -/
def expP (sc : PScript V) (p : Props V) : Flags :=
  { labels := match sc.labels with | some v => decide (p.labels ≠ v) | none => false,
    caps := match sc.caps with | some v => decide (p.caps ≠ v) | none => false,
    ud := match sc.ud with | some v => decide (p.ud ≠ v) | none => false }

theorem propDiff_applyP (sc : PScript V) (p : Props V) : propDiff p (applyP sc p) = expP sc p := by
  cases sc with
  | mk l c u =>
    cases l <;> cases c <;> cases u <;>
      (simp only [propDiff, applyP, expP, Option.getD_none, Option.getD_some, ne_eq, not_true_eq_false, decide_false]) <;> (try congr)

def selfModOf (n : String) (f : Flags) : List (String × Flags) := if f = Flags.none then [] else [(n, f)]

theorem selfMod_applyP (n : String) (sc : PScript V) (p : Props V) :
    selfMod n p (applyP sc p) = selfModOf n (expP sc p) := by
  unfold selfMod selfModOf; rw [propDiff_applyP]

/-! ### reports up to order -/

/-- the way `InterfaceSliver.diff` / `NetworkServiceSliver.diff` assemble their result -/
def mkReport (sm : List (String × Flags)) (lv : Level) : Option TDiff :=
  if !sm.isEmpty || !lv.added.isEmpty || !lv.removed.isEmpty || !lv.modified.isEmpty then
    some { addedIfs := lv.added, removedIfs := lv.removed, modSvcs := sm, modIfs := lv.modified }
  else none

/-- the way `NodeSliver.diff` assembles its result -/
def mkNodeReport (sm : List (String × Flags)) (cl sl : Level) : Option TDiff :=
  if !cl.added.isEmpty || !cl.removed.isEmpty || !sl.removed.isEmpty || !sl.added.isEmpty ||
     !cl.modified.isEmpty || !sl.modified.isEmpty || !sm.isEmpty then
    some { addedComps := cl.added, addedSvcs := sl.added, removedComps := cl.removed, removedSvcs := sl.removed,
           modNodes := sm, modComps := cl.modified, modSvcs := sl.modified }
  else none

theorem ifaceDiff_eq_mk (a b : Iface V) :
    ifaceDiff a b = mkReport (selfMod a.name a.props b.props) (levelDiff leafFlag a.subs b.subs) := rfl
theorem svcDiff_eq_mk (a b : Svc V) :
    svcDiff a b = mkReport (selfMod a.name a.props b.props) (levelDiff ifaceFlag a.ifs b.ifs) := rfl
theorem nodeDiffP_eq_mk (a b : Node V) :
    nodeDiffP a b = mkNodeReport (selfMod a.name a.props b.props) (levelDiff compFlagP a.comps b.comps)
      (levelDiff svcPropFlag a.svcs b.svcs) := rfl

/-- two results report the same thing: both `None` or both not, and every slot has the same members -/
def SameReport (o1 o2 : Option TDiff) : Prop :=
  o1.isSome = o2.isSome ∧
  (∀ k, k ∈ (rep o1).addedComps ↔ k ∈ (rep o2).addedComps) ∧ (∀ k, k ∈ (rep o1).addedSvcs ↔ k ∈ (rep o2).addedSvcs) ∧
  (∀ k, k ∈ (rep o1).addedIfs ↔ k ∈ (rep o2).addedIfs) ∧ (∀ k, k ∈ (rep o1).removedComps ↔ k ∈ (rep o2).removedComps) ∧
  (∀ k, k ∈ (rep o1).removedSvcs ↔ k ∈ (rep o2).removedSvcs) ∧ (∀ k, k ∈ (rep o1).removedIfs ↔ k ∈ (rep o2).removedIfs) ∧
  (∀ p, p ∈ (rep o1).modNodes ↔ p ∈ (rep o2).modNodes) ∧ (∀ p, p ∈ (rep o1).modComps ↔ p ∈ (rep o2).modComps) ∧
  (∀ p, p ∈ (rep o1).modSvcs ↔ p ∈ (rep o2).modSvcs) ∧ (∀ p, p ∈ (rep o1).modIfs ↔ p ∈ (rep o2).modIfs)

theorem isEmpty_congr {β} (x y : List β) (hxy : ∀ k, k ∈ x ↔ k ∈ y) : x.isEmpty = y.isEmpty := by
  cases x with
  | nil => cases y with
    | nil => rfl
    | cons b _ => exact absurd ((hxy b).2 List.mem_cons_self) (by simp)
  | cons a _ => cases y with
    | nil => exact absurd ((hxy a).1 List.mem_cons_self) (by simp)
    | cons _ _ => rfl

theorem rep_mkReport (sm : List (String × Flags)) (lv : Level) :
    rep (mkReport sm lv) = { addedIfs := lv.added, removedIfs := lv.removed, modSvcs := sm, modIfs := lv.modified } := by
  dsimp only [mkReport, rep]
  split
  · rfl
  · rename_i h
    simp only [Bool.or_eq_true, not_or, Bool.not_eq_true, isEmpty_false_iff] at h
    obtain ⟨⟨⟨h1, h2⟩, h3⟩, h4⟩ := h
    simp [h1, h2, h3, h4]

theorem rep_mkNodeReport (sm : List (String × Flags)) (cl sl : Level) :
    rep (mkNodeReport sm cl sl) =
      { addedComps := cl.added, addedSvcs := sl.added, removedComps := cl.removed, removedSvcs := sl.removed,
        modNodes := sm, modComps := cl.modified, modSvcs := sl.modified } := by
  dsimp only [mkNodeReport, rep]
  split
  · rfl
  · rename_i h
    simp only [Bool.or_eq_true, not_or, Bool.not_eq_true, isEmpty_false_iff] at h
    obtain ⟨⟨⟨⟨⟨⟨h1, h2⟩, h3⟩, h4⟩, h5⟩, h6⟩, h7⟩ := h
    simp [h1, h2, h3, h4, h5, h6, h7]

theorem mkReport_isSome (sm : List (String × Flags)) (lv : Level) :
    (mkReport sm lv).isSome = (!sm.isEmpty || !lv.added.isEmpty || !lv.removed.isEmpty || !lv.modified.isEmpty) := by
  dsimp only [mkReport]; split <;> simp_all

theorem mkNodeReport_isSome (sm : List (String × Flags)) (cl sl : Level) :
    (mkNodeReport sm cl sl).isSome = (!cl.added.isEmpty || !cl.removed.isEmpty || !sl.removed.isEmpty || !sl.added.isEmpty ||
     !cl.modified.isEmpty || !sl.modified.isEmpty || !sm.isEmpty) := by
  dsimp only [mkNodeReport]; split <;> simp_all

theorem mkReport_same (sm : List (String × Flags)) (l1 l2 : Level) (h : Level.Equiv l1 l2) :
    SameReport (mkReport sm l1) (mkReport sm l2) := by
  obtain ⟨h1, h2, h3⟩ := h
  refine ⟨?_, ?_⟩
  · rw [mkReport_isSome, mkReport_isSome, isEmpty_congr _ _ h1, isEmpty_congr _ _ h2, isEmpty_congr _ _ h3]
  · rw [rep_mkReport, rep_mkReport]
    exact ⟨fun _ => Iff.rfl, fun _ => Iff.rfl, h1, fun _ => Iff.rfl, fun _ => Iff.rfl, h2, fun _ => Iff.rfl,
      fun _ => Iff.rfl, fun _ => Iff.rfl, h3⟩

theorem mkNodeReport_same (sm : List (String × Flags)) (c1 c2 s1 s2 : Level) (hc : Level.Equiv c1 c2) (hs : Level.Equiv s1 s2) :
    SameReport (mkNodeReport sm c1 s1) (mkNodeReport sm c2 s2) := by
  obtain ⟨h1, h2, h3⟩ := hc
  obtain ⟨g1, g2, g3⟩ := hs
  refine ⟨?_, ?_⟩
  · rw [mkNodeReport_isSome, mkNodeReport_isSome, isEmpty_congr _ _ h1, isEmpty_congr _ _ h2, isEmpty_congr _ _ h3,
      isEmpty_congr _ _ g1, isEmpty_congr _ _ g2, isEmpty_congr _ _ g3]
  · rw [rep_mkNodeReport, rep_mkNodeReport]
    exact ⟨h1, g1, fun _ => Iff.rfl, h2, g2, fun _ => Iff.rfl, fun _ => Iff.rfl, h3, g3, fun _ => Iff.rfl⟩

theorem filterMap_congr' {α β} (f g : α → Option β) (l : List α) (h : ∀ x ∈ l, f x = g x) :
    l.filterMap f = l.filterMap g := by
  induction l with
  | nil => rfl
  | cons a l ih =>
    simp only [List.filterMap_cons, h a List.mem_cons_self, ih (fun x hx => h x (List.mem_cons_of_mem _ hx))]

section
variable {α ε : Type} [Named α]

/-- the predicted level only depends on the predicted flag of (child script, child it is applied to) pairs -/
theorem expLevel_congr (F1 F2 : ε → α → Flags) (d : List α) (es : List (DEdit α ε))
    (h : ∀ k e', DEdit.modify k e' ∈ es → ∀ x, get? d k = some x → F1 e' x = F2 e' x) :
    expLevel F1 d es = expLevel F2 d es := by
  unfold expLevel
  congr 1
  apply filterMap_congr'
  intro e he
  cases e with
  | add x => rfl
  | remove k => rfl
  | modify k e' =>
    simp only
    cases hg : get? d k with
    | none => rfl
    | some x => simp only [h k e' he x hg]

end

/-! ### scripts on the trees -/

def applyLeaf (sc : PScript V) (l : Leaf V) : Leaf V := { l with props := applyP sc l.props }

/-- edits of an interface: its own properties; add / remove sub-interfaces; property edits of sub-interfaces -/
structure IfaceScript (V : Type) where
  pe : PScript V := {}
  subs : List (DEdit (Leaf V) (PScript V)) := []

def applyIface (sc : IfaceScript V) (i : Iface V) : Iface V :=
  { i with props := applyP sc.pe i.props, subs := applyO applyLeaf sc.subs i.subs }

def IfaceScript.NC (sc : IfaceScript V) (i : Iface V) : Prop := Diff.NC sc.subs (dictOf i.subs)
instance (sc : IfaceScript V) (i : Iface V) : Decidable (sc.NC i) := by unfold IfaceScript.NC; infer_instance

def expSubs (sc : IfaceScript V) (i : Iface V) : Level := expLevel (fun e (x : Leaf V) => expP e x.props) (dictOf i.subs) sc.subs

/-- what the script says `InterfaceSliver.diff` must report -/
def expIface (sc : IfaceScript V) (i : Iface V) : Option TDiff :=
  mkReport (selfModOf i.name (expP sc.pe i.props)) (expSubs sc i)

theorem subs_edit_equiv (sc : IfaceScript V) (i : Iface V) (hi : i.Wf) (hnc : sc.NC i) :
    Level.Equiv (levelDiff leafFlag i.subs (applyIface sc i).subs) (expSubs sc i) := by
  have := level_edit_exact leafFlag applyLeaf (fun _ _ => rfl) i.subs sc.subs hi hnc (fun x _ => leafFlag_self x)
  have hf : (fun e (x : Leaf V) => leafFlag x (applyLeaf e x)) = (fun e (x : Leaf V) => expP e x.props) := by
    funext e x; exact propDiff_applyP e x.props
  rw [hf] at this
  exact this

theorem ifaceDiff_edit (sc : IfaceScript V) (i : Iface V) (hi : i.Wf) (hnc : sc.NC i) :
    SameReport (ifaceDiff i (applyIface sc i)) (expIface sc i) := by
  rw [ifaceDiff_eq_mk]
  show SameReport (mkReport (selfMod i.name i.props (applyP sc.pe i.props)) _) _
  rw [selfMod_applyP]
  exact mkReport_same _ _ _ (subs_edit_equiv sc i hi hnc)

/-- the flag the script predicts for an edited interface inside a service -/
def expIfaceFlag (e : IfaceScript V) (x : Iface V) : Flags :=
  { expP e.pe x.props with
    sub := x.dedicated && (!(expSubs e x).added.isEmpty || !(expSubs e x).removed.isEmpty || !(expSubs e x).modified.isEmpty) }

theorem ifaceFlag_edit (e : IfaceScript V) (x : Iface V) (hx : x.Wf) (hnc : e.NC x) :
    ifaceFlag x (applyIface e x) = expIfaceFlag e x := by
  rw [ifaceFlag_eq]
  have := (subs_edit_equiv e x hx hnc).isEmpty_eq
  dsimp only [subsChanged, expIfaceFlag]
  rw [this]
  show ({ propDiff x.props (applyP e.pe x.props) with sub := _ } : Flags) = _
  rw [propDiff_applyP]

/-- edits of a service: its own properties; add / remove interfaces; scripts on interfaces -/
structure SvcScript (V : Type) where
  pe : PScript V := {}
  ifs : List (DEdit (Iface V) (IfaceScript V)) := []

def applySvc (sc : SvcScript V) (s : Svc V) : Svc V :=
  { s with props := applyP sc.pe s.props, ifs := applyO applyIface sc.ifs s.ifs }

/-- the child script of a `modify` edit is itself non-conflicting on the child it is applied to -/
def ifaceChildNC (d : List (Iface V)) : DEdit (Iface V) (IfaceScript V) → Prop
  | .modify k e' => ∀ x ∈ get? d k, e'.NC x
  | _ => True
instance (d : List (Iface V)) (e : DEdit (Iface V) (IfaceScript V)) : Decidable (ifaceChildNC d e) := by
  cases e <;> unfold ifaceChildNC <;> infer_instance

def SvcScript.NC (sc : SvcScript V) (s : Svc V) : Prop :=
  Diff.NC sc.ifs (dictOf s.ifs) ∧ ∀ e ∈ sc.ifs, ifaceChildNC (dictOf s.ifs) e
instance (sc : SvcScript V) (s : Svc V) : Decidable (sc.NC s) := by unfold SvcScript.NC; infer_instance

def expIfs (sc : SvcScript V) (s : Svc V) : Level := expLevel expIfaceFlag (dictOf s.ifs) sc.ifs

/-- what the script says `NetworkServiceSliver.diff` must report -/
def expSvc (sc : SvcScript V) (s : Svc V) : Option TDiff :=
  mkReport (selfModOf s.name (expP sc.pe s.props)) (expIfs sc s)

theorem svcDiff_edit (sc : SvcScript V) (s : Svc V) (hs : s.Wf) (hnc : sc.NC s) :
    SameReport (svcDiff s (applySvc sc s)) (expSvc sc s) := by
  rw [svcDiff_eq_mk]
  show SameReport (mkReport (selfMod s.name s.props (applyP sc.pe s.props)) _) _
  rw [selfMod_applyP]
  apply mkReport_same
  have := level_edit_exact ifaceFlag applyIface (fun _ _ => rfl) s.ifs sc.ifs hs.1 hnc.1
    (fun x hx => ifaceFlag_self x (hs.2 x hx))
  rw [expLevel_congr _ expIfaceFlag] at this
  · exact this
  · intro k e' he x hx
    exact ifaceFlag_edit e' x (hs.2 x (get?_some_mem hx).1) (hnc.2 _ he x hx)

/-- edits of a component: its own properties; a script on its (first) network service -/
structure CompScript (V : Type) where
  pe : PScript V := {}
  svc : Option (SvcScript V) := none

def applyComp (sc : CompScript V) (c : Comp V) : Comp V :=
  { c with props := applyP sc.pe c.props,
           svcs := match sc.svc, c.svcs with
             | some ss, some (s :: rest) => some (applySvc ss s :: rest)
             | _, _ => c.svcs }

def CompScript.NC (sc : CompScript V) (c : Comp V) : Prop := ∀ ss ∈ sc.svc, ∀ s ∈ (dictOf c.svcs).head?, ss.NC s
instance (sc : CompScript V) (c : Comp V) : Decidable (sc.NC c) := by unfold CompScript.NC; infer_instance

/-- the flag the script predicts for an edited component: SUB_INTERFACES iff it is a SmartNIC and the script on its
service predicts any report at all -/
def expCompFlag (e : CompScript V) (x : Comp V) : Flags :=
  { expP e.pe x.props with
    sub := x.smart && (match e.svc, (dictOf x.svcs).head? with
      | some ss, some s => (expSvc ss s).isSome
      | _, _ => false) }

omit [DecidableEq V] in
theorem head_applyComp (e : CompScript V) (x : Comp V) :
    (dictOf (applyComp e x).svcs).head? = match e.svc with
      | some ss => ((dictOf x.svcs).head?).map (applySvc ss)
      | none => (dictOf x.svcs).head? := by
  unfold applyComp dictOf
  cases e.svc with
  | none => rfl
  | some ss =>
    cases x.svcs with
    | none => rfl
    | some l => cases l <;> rfl

theorem compFlagP_edit (e : CompScript V) (x : Comp V) (hx : x.Wf) (hnc : e.NC x) :
    compFlagP x (applyComp e x) = expCompFlag e x := by
  have h3 : propDiff x.props (applyComp e x).props = expP e.pe x.props := propDiff_applyP e.pe x.props
  have hsub : (compFlagP x (applyComp e x)).sub = (expCompFlag e x).sub := by
    dsimp only [compFlagP, expCompFlag]
    rw [head_applyComp]
    congr 1
    cases hsv : e.svc with
    | none =>
      cases hh : (dictOf x.svcs).head? with
      | none => rfl
      | some s => simp [svcDiff_self s (hx s (by rw [hh]; rfl))]
    | some ss =>
      cases hh : (dictOf x.svcs).head? with
      | none => rfl
      | some s =>
        simp only [Option.map_some]
        exact (svcDiff_edit ss s (hx s (by rw [hh]; rfl)) (hnc ss (by rw [hsv]; rfl) s (by rw [hh]; rfl))).1
  have h0 : compFlagP x (applyComp e x) =
      ⟨(propDiff x.props (applyComp e x).props).labels, (propDiff x.props (applyComp e x).props).caps,
       (propDiff x.props (applyComp e x).props).ud, (compFlagP x (applyComp e x)).sub⟩ := rfl
  rw [h0, hsub, h3]
  rfl

/-- edits of a node: its own properties; add / remove components and node-level services; scripts on components and on
node-level services (of the latter `NodeSliver.diff` only sees the property part) -/
structure NodeScript (V : Type) where
  pe : PScript V := {}
  comps : List (DEdit (Comp V) (CompScript V)) := []
  svcs : List (DEdit (Svc V) (SvcScript V)) := []

def applyNode (sc : NodeScript V) (n : Node V) : Node V :=
  { n with props := applyP sc.pe n.props, comps := applyO applyComp sc.comps n.comps, svcs := applyO applySvc sc.svcs n.svcs }

def compChildNC (d : List (Comp V)) : DEdit (Comp V) (CompScript V) → Prop
  | .modify k e' => ∀ x ∈ get? d k, e'.NC x
  | _ => True
instance (d : List (Comp V)) (e : DEdit (Comp V) (CompScript V)) : Decidable (compChildNC d e) := by
  cases e <;> unfold compChildNC <;> infer_instance

def NodeScript.NC (sc : NodeScript V) (n : Node V) : Prop :=
  Diff.NC sc.comps (dictOf n.comps) ∧ Diff.NC sc.svcs (dictOf n.svcs) ∧ ∀ e ∈ sc.comps, compChildNC (dictOf n.comps) e
instance (sc : NodeScript V) (n : Node V) : Decidable (sc.NC n) := by unfold NodeScript.NC; infer_instance

/-- what the script says `NodeSliver.diff` must report -/
def expNode (sc : NodeScript V) (n : Node V) : Option TDiff :=
  mkNodeReport (selfModOf n.name (expP sc.pe n.props)) (expLevel expCompFlag (dictOf n.comps) sc.comps)
    (expLevel (fun (e : SvcScript V) (x : Svc V) => expP e.pe x.props) (dictOf n.svcs) sc.svcs)

theorem nodeDiffP_edit (sc : NodeScript V) (n : Node V) (hn : n.Wf) (hnc : sc.NC n) :
    SameReport (nodeDiffP n (applyNode sc n)) (expNode sc n) := by
  rw [nodeDiffP_eq_mk]
  show SameReport (mkNodeReport (selfMod n.name n.props (applyP sc.pe n.props)) _ _) _
  rw [selfMod_applyP]
  apply mkNodeReport_same
  · have := level_edit_exact compFlagP applyComp (fun _ _ => rfl) n.comps sc.comps hn.1 hnc.1
      (fun x hx => compFlagP_self x (hn.2.2 x hx))
    rw [expLevel_congr _ expCompFlag] at this
    · exact this
    · intro k e' he x hx
      exact compFlagP_edit e' x (hn.2.2 x (get?_some_mem hx).1) (hnc.2.2 _ he x hx)
  · have := level_edit_exact svcPropFlag applySvc (fun _ _ => rfl) n.svcs sc.svcs hn.2.1 hnc.2.1
      (fun x _ => svcPropFlag_self x)
    have hf : (fun (e : SvcScript V) (x : Svc V) => svcPropFlag x (applySvc e x)) = (fun e x => expP e.pe x.props) := by
      funext e x; exact propDiff_applyP e.pe x.props
    rw [hf] at this
    exact this


/-! ### no raise: it is enough that every SmartNIC of the old sliver has a network service -/

/-- every SmartNIC component carries a network service (what the FIM API always builds) -/
def Node.Ok (n : Node V) : Prop := ∀ x ∈ dictOf n.comps, x.smart = true → dictOf x.svcs ≠ []
instance (n : Node V) : Decidable n.Ok := by unfold Node.Ok; infer_instance

omit [DecidableEq V] in
theorem svcs_applyComp_ne_nil (e : CompScript V) (x : Comp V) (h : dictOf x.svcs ≠ []) : dictOf (applyComp e x).svcs ≠ [] := by
  intro hnil
  have h1 := head_applyComp e x
  rw [hnil] at h1
  cases hh : (dictOf x.svcs).head? with
  | none => exact h (List.head?_eq_none_iff.1 hh)
  | some s =>
    rw [hh] at h1
    cases hsv : e.svc <;> simp [hsv] at h1

omit [DecidableEq V] in
theorem pairOk_self (n : Node V) (hn : n.Wf) (hok : n.Ok) : PairOk n n := by
  intro x hx y hy hs
  have : y = x := by
    have := (get?_eq_some_iff hn.1 x.name x).2 ⟨hx, rfl⟩
    rw [Option.mem_def] at hy; rw [hy] at this; exact Option.some.inj this
  subst this
  exact ⟨hok y hx hs, hok y hx hs⟩

omit [DecidableEq V] in
theorem pairOk_applyNode (sc : NodeScript V) (n : Node V) (hn : n.Wf) (hnc : sc.NC n) (hok : n.Ok) :
    PairOk n (applyNode sc n) := by
  intro x hx y hy hs
  have hgx : get? (dictOf n.comps) x.name = some x := (get?_eq_some_iff hn.1 x.name x).2 ⟨hx, rfl⟩
  obtain ⟨_, hget⟩ := get?_applyD applyComp (fun _ _ => rfl) sc.comps (dictOf n.comps) hn.1 hnc.1
  have hy' : get? (applyD applyComp sc.comps (dictOf n.comps)) x.name = some y := by
    rw [Option.mem_def] at hy
    have : dictOf (applyNode sc n).comps = applyD applyComp sc.comps (dictOf n.comps) := dictOf_applyO _ _ _
    rw [← this]; exact hy
  rw [hget x.name] at hy'
  refine ⟨hok x hx hs, ?_⟩
  cases hg : get? sc.comps x.name with
  | none =>
    rw [hg] at hy'; simp only at hy'
    rw [hgx] at hy'; cases hy'
    exact hok x hx hs
  | some e =>
    rw [hg] at hy'
    obtain ⟨he, hk⟩ := (get?_eq_some_iff hnc.1.1 x.name e).1 hg
    have hokf := hnc.1.2 e he
    cases e with
    | add x0 =>
      simp only [okFor, Bool.not_eq_true'] at hokf
      have hk' : name x0 = x.name := hk
      rw [hk', get?_eq_none_iff _ _ |>.symm, hgx] at hokf
      cases hokf
    | remove k => cases hy'
    | modify k e' =>
      simp only [DEdit.result, hgx, Option.map_some, Option.some.injEq] at hy'
      subst hy'
      exact svcs_applyComp_ne_nil e' x (hok x hx hs)

end FimVerif.Diff
