import FimVerif.Proofs.Lemmas.StoreDisjointClone
/-! C04: histories that never write `GraphID` keep every graph of the one-graph-per-id store "homed". Core only. -/
namespace FimVerif.Store
open FimVerif FimVerif.Gen.StoreConsts

/-- every stored node belongs to graph `g` -/
def AllIn (g : String) (st : Store) : Prop := ∀ n ∈ st.nodes, inG g n = true

theorem allIn_updNodes (g : String) (s : Store) (c : SNode → Bool) (f : Props → Props)
    (hf : ∀ a, AMap.get graphId (f a) = AMap.get graphId a) (h : AllIn g s) :
    AllIn g { s with nodes := s.nodes.map (fun n => if c n then { n with attrs := f n.attrs } else n) } := by
  intro n hn
  obtain ⟨m, hm, rfl⟩ := List.mem_map.1 hn
  by_cases hc : c m
  · simp only [hc, if_true]; rw [inG_upd g m f hf]; exact h m hm
  · simp only [hc]; exact h m hm

theorem allIn_updNode (g : String) (s : Store) (i : Nat) (f : Props → Props)
    (hf : ∀ a, AMap.get graphId (f a) = AMap.get graphId a) (h : AllIn g s) : AllIn g (updNode i f s) := by
  have := allIn_updNodes g s (fun n => decide (n.iid = i)) f hf h
  simpa [updNode] using this

theorem allIn_of_nodes_subset (g : String) (s s' : Store) (hsub : ∀ n ∈ s'.nodes, n ∈ s.nodes) (h : AllIn g s) : AllIn g s' :=
  fun n hn => h n (hsub n hn)

theorem allIn_addBlankNode (g label nid : String) (s : Store) (h : AllIn g s) : AllIn g (addBlankNode g label nid s) := by
  intro n hn
  simp only [addBlankNode, List.mem_append, List.mem_singleton] at hn
  rcases hn with hn | rfl
  · exact h n hn
  · simp [inG, AMap.get]

theorem allIn_relabel (g : String) (base : Nat) (l : List Props) (hl : ∀ a ∈ l, AMap.get graphId a = some (.str g)) :
    ∀ n ∈ relabel base l, inG g n = true := by
  have := filter_relabel_all g base l hl
  intro n hn
  rw [← this] at hn
  exact (List.mem_filter.1 hn).2

theorem allIn_appendGraph (g : String) (s : Store) (ns : List Props) (es : List (Nat × Nat × Props))
    (hns : ∀ a ∈ ns, AMap.get graphId a = some (.str g)) (h : AllIn g s) : AllIn g (appendGraph ns es s) := by
  intro n hn
  simp only [appendGraph, List.mem_append] at hn
  rcases hn with hn | hn
  · exact h n hn
  · exact allIn_relabel g _ _ hns n hn

theorem allIn_delIfPresent (g g' : String) (s : Store) (h : AllIn g s) : AllIn g (delIfPresent g' s) := by
  unfold delIfPresent; split
  · exact allIn_of_nodes_subset g s _ (fun n hn => (List.mem_filter.1 hn).1) h
  · exact h

/-- an operation addressed to `g` that does not write `GraphID` keeps a store that holds only nodes of
    `g` that way (the sub-store view of the disjoint backend) -/
theorem allIn_step (op : Op) (g : String) (s : Store) (ht : op.target = g) (hk : op.keepsGraphId = true) (h : AllIn g s) :
    AllIn g (step op s).2 := by
  have R : AllIn g s := h
  cases op with
  | addNode g0 nid label props =>
    simp only [Op.target] at ht; subst ht
    simp only [step, addNode]
    split
    · exact h
    · cases props with
      | none => exact allIn_addBlankNode _ label nid s h
      | some p =>
        simp only [Op.keepsGraphId, Bool.not_eq_true'] at hk
        exact allIn_updNode _ _ _ _ (fun a => AMap.get_update_not_mem _ _ _ (AMap.not_mem_keys_of_has_false _ _ hk))
          (allIn_addBlankNode _ label nid s h)
  | deleteNode g0 nid =>
    exact withNode_pred (AllIn g) s g0 nid _ h
      (fun i _ => allIn_of_nodes_subset g s _ (fun n hn => (List.mem_filter.1 hn).1) h)
  | addLink g0 a rel b props =>
    simp only [step, addLink]
    refine withNode_pred (AllIn g) s g0 a _ h (fun ia _ => withNode_pred (AllIn g) s g0 b _ h (fun ib _ => ?_))
    have e : ∀ attrs, AllIn g (addEdge ia ib attrs s) := by
      intro attrs; unfold addEdge; split <;> exact h
    cases props with
    | none => exact e _
    | some p => simp only; split; exact h; exact e _
  | updateNodeProperty g0 nid k v =>
    simp only [step]
    refine assertVal_pred (AllIn g) _ s _ h ?_
    simp only [updateNodeProperty]
    split
    · exact h
    · simp only [Op.keepsGraphId, bne_iff_ne, ne_eq] at hk
      exact withNode_pred (AllIn g) s g0 nid _ h
        (fun i _ => allIn_updNode g s i _ (fun a => AMap.get_set_ne _ _ _ _ (Ne.symm hk)) h)
  | unsetNodeProperty g0 nid k =>
    simp only [step, unsetNodeProperty]
    split
    · exact h
    · split
      · exact h
      · rename_i hnu
        have hkg : graphId ≠ k := fun e => hnu (e ▸ graphId_mem_noUnset)
        refine withNode_pred (AllIn g) s g0 nid _ h (fun i _ => ?_)
        split
        · exact h
        · split
          · exact allIn_updNode g s i _ (fun a => AMap.get_erase_ne _ _ _ hkg) h
          · exact h
  | updateNodesProperty g0 k v =>
    simp only [step]
    refine assertVal_pred (AllIn g) _ s _ h ?_
    simp only [updateNodesProperty]
    split
    · exact h
    · split
      · exact h
      · simp only [Op.keepsGraphId, bne_iff_ne, ne_eq] at hk
        have := allIn_updNodes g s (inG g0) (AMap.set k v) (fun a => AMap.get_set_ne _ _ _ _ (Ne.symm hk)) h
        simpa [updGraphNodes] using this
  | updateNodeProperties g0 nid props =>
    simp only [step, updateNodeProperties]
    split
    · exact h
    · simp only [Op.keepsGraphId, Bool.not_eq_true'] at hk
      exact withNode_pred (AllIn g) s g0 nid _ h
        (fun i _ => allIn_updNode g s i _ (fun a => AMap.get_update_not_mem _ _ _ (AMap.not_mem_keys_of_has_false _ _ hk)) h)
  | updateLinkProperty g0 a b kind k v =>
    simp only [step]
    refine assertVal_pred (AllIn g) _ s _ h ?_
    simp only [updateLinkProperty]
    split
    · exact h
    · exact withLink_pred (AllIn g) s g0 a b kind _ h (fun _ _ _ _ _ => h)
  | unsetLinkProperty g0 a b kind k =>
    simp only [step, unsetLinkProperty]
    split
    · exact h
    · exact withLink_pred (AllIn g) s g0 a b kind _ h (fun _ _ _ _ _ => h)
  | updateLinkProperties g0 a b kind props =>
    simp only [step, updateLinkProperties]
    split
    · exact h
    · exact withLink_pred (AllIn g) s g0 a b kind _ h (fun _ _ _ _ _ => h)
  | deleteGraph g0 => exact allIn_of_nodes_subset g s _ (fun n hn => (List.mem_filter.1 hn).1) h
  | addGraph g0 ig =>
    simp only [Op.target] at ht; subst ht
    simp only [step, addGraph]
    split
    · exact allIn_delIfPresent _ _ s h
    · refine allIn_appendGraph _ _ _ _ ?_ (allIn_delIfPresent _ _ s h)
      intro a ha
      obtain ⟨a0, _, rfl⟩ := List.mem_map.1 ha
      exact AMap.get_set_eq _ _ _
  | addGraphDirect g0 ig =>
    simp only [Op.target] at ht; subst ht
    simp only [Op.keepsGraphId, List.all_eq_true, beq_iff_eq] at hk
    exact allIn_appendGraph _ _ _ _ hk (allIn_delIfPresent _ _ s h)
  | delAllGraphs => simp [Op.keepsGraphId] at hk
  | clone g0 g2 =>
    simp only [Op.target] at ht; subst ht
    simp only [step, cloneGraph]
    split
    · exact h
    · simp only [addGraph]
      split
      · exact allIn_delIfPresent _ _ s h
      · refine allIn_appendGraph _ _ _ _ ?_ (allIn_delIfPresent _ _ s h)
        intro a ha
        obtain ⟨a0, _, rfl⟩ := List.mem_map.1 ha
        exact AMap.get_set_eq _ _ _
  | mergeNodes g0 nid g2 pol => simp [Op.keepsGraphId] at hk
  | getNodeProperties g0 nid =>
    simp only [step, getNodeProperties]
    refine withNode_pred (AllIn g) s g0 nid _ h (fun i _ => ?_)
    split
    · exact h
    · split <;> exact h
  | getLinkProperties g0 a b =>
    simp only [step, getLinkProperties]
    refine withNode_pred (AllIn g) s g0 a _ h (fun ia _ => withNode_pred (AllIn g) s g0 b _ h (fun ib _ => ?_))
    split
    · exact h
    · split <;> exact h
  | listAllNodeIds g0 => simp only [step, listAllNodeIds, nidList]; split; exact h; split <;> exact h
  | nodesByClass g0 label => simp only [step, nodesByClass, nidList]; split <;> exact h
  | nodesByClassAndType g0 label ntype => simp only [step, nodesByClassAndType, nidList]; split <;> exact h
  | nodeExists g0 nid label => simp only [step, nodeExists]; split <;> exact h
  | graphExists g0 => exact h
  | checkNodeUnique g0 label name => exact h
  | findMatchingNodes g0 other =>
    simp only [step, findMatchingNodes]
    split
    · exact h
    · split <;> exact h
    · exact h

end FimVerif.Store

namespace FimVerif.DStore
open FimVerif FimVerif.Store FimVerif.Gen.StoreConsts

theorem homed_put (d : DStore) (g : String) (st : Store) (h : ∀ g', Homed d g') (hs : AllIn g st) : ∀ g', Homed (put d g st) g' := by
  intro g'
  unfold Homed
  by_cases e : g' = g
  · subst e; rw [sub_put_eq]; exact hs
  · rw [sub_put_ne d g g' st e]; exact h g'

theorem allIn_empty (g : String) (n : Nat) : AllIn g ⟨[], [], n⟩ := by intro m hm; cases hm

theorem homed_addGraph (d : DStore) (g : String) (ig : IGraph) (h : ∀ g', Homed d g') : ∀ g', Homed (addGraph g ig d).2 g' := by
  unfold addGraph
  split
  · exact h
  · split
    · exact h
    · refine homed_put d g _ h (allIn_appendGraph g _ _ _ ?_ (allIn_empty g 1))
      intro a ha
      obtain ⟨a0, _, rfl⟩ := List.mem_map.1 ha
      exact AMap.get_set_eq _ _ _

/-- every operation that does not write `GraphID` keeps every stored graph homed -/
theorem homed_step (op : Op) (d : DStore) (hk : op.keepsGraphId = true) (h : ∀ g', Homed d g') :
    ∀ g', Homed (step op d).2 g' := by
  have lifted : ∀ (o : Op), o.keepsGraphId = true → ∀ g', Homed (lift o.target (Store.step o) d).2 g' :=
    fun o ho => homed_put d _ _ h (allIn_step o _ _ rfl ho (h _))
  cases op with
  | addGraph g ig => exact homed_addGraph d g ig.close h
  | delAllGraphs => simp [Op.keepsGraphId] at hk
  | addGraphDirect g ig =>
    simp only [Op.keepsGraphId, List.all_eq_true, beq_iff_eq] at hk
    exact homed_put d g _ h (allIn_appendGraph g _ _ _ hk (allIn_empty g 1))
  | deleteGraph g => exact homed_put d g _ h (allIn_empty g _)
  | clone g g2 => exact homed_addGraph d g2 _ h
  | mergeNodes g nid g2 pol => exact h
  | findMatchingNodes g other =>
    simp only [step, findMatchingNodes]
    split
    · exact h
    · split <;> exact h
    · exact h
  | addNode g nid label props => exact lifted _ hk
  | deleteNode g nid => exact lifted _ hk
  | addLink g a rel b props => exact lifted _ hk
  | updateNodeProperty g nid k v => exact lifted _ hk
  | unsetNodeProperty g nid k => exact lifted _ hk
  | updateNodesProperty g k v => exact lifted _ hk
  | updateNodeProperties g nid props => exact lifted _ hk
  | updateLinkProperty g a b kind k v => exact lifted _ hk
  | unsetLinkProperty g a b kind k => exact lifted _ hk
  | updateLinkProperties g a b kind props => exact lifted _ hk
  | getNodeProperties g nid => exact lifted _ hk
  | getLinkProperties g a b => exact lifted _ hk
  | listAllNodeIds g => exact lifted _ hk
  | nodesByClass g label => exact lifted _ hk
  | nodesByClassAndType g label ntype => exact lifted _ hk
  | nodeExists g nid label => exact lifted _ hk
  | graphExists g => exact lifted _ hk
  | checkNodeUnique g label name => exact lifted _ hk

theorem homed_init : ∀ g', Homed init g' := by
  intro g' n hn; simp [sub, init, AMap.get] at hn

end FimVerif.DStore
