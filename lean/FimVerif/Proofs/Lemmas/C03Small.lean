import FimVerif.Model.Codec
import FimVerif.Generated.Fields
/-! Helper definitions and lemmas for the small codecs of C03 (Tags, JSONData, PathInfo/ERO, MaintenanceInfo, typed tuples). -/
namespace FimVerif.C03
open FimVerif FimVerif.Codec JVal

theorem tagsArg_ok (okTag : String → Bool) (a : JVal) (ts : List String) (h : tagsArg okTag a = .ok ts) :
    ∀ t ∈ ts, okTag t = true := by
  cases a with
  | arr xs =>
    simp only [tagsArg] at h
    induction xs generalizing ts with
    | nil => simp [List.mapM_nil, pure, Except.pure] at h; subst h; simp
    | cons x r ih =>
      rw [List.mapM_cons] at h
      cases x <;> simp [bind, Except.bind] at h
      rename_i s
      split at h
      · cases h
      · rename_i hs
        split at hs
        · cases hs
          split at h
          · cases h
          · rename_i us hus
            simp [pure, Except.pure] at h
            subst h
            intro t ht
            rcases List.mem_cons.1 ht with rfl | ht
            · assumption
            · exact ih us hus t ht
        · cases hs
  | str s =>
    simp only [tagsArg] at h
    split at h
    · injection h with h; subst h; simpa
    · cases h
  | _ => simp [tagsArg] at h

theorem tagsNew_ok (okTag : String → Bool) (args : List JVal) (ts : List String) (h : tagsNew okTag args = .ok ts) :
    ∀ t ∈ ts, okTag t = true := by
  induction args generalizing ts with
  | nil => simp [tagsNew] at h; subst h; simp
  | cons a r ih =>
    simp only [tagsNew] at h
    split at h
    · cases h
    · rename_i us hus
      split at h
      · cases h
      · rename_i vs hvs
        injection h with h; subst h
        intro t ht
        rcases List.mem_append.1 ht with ht | ht
        · exact tagsArg_ok okTag a us hus t ht
        · exact ih vs hvs t ht

/-- an entry whose state is a member of the enum (or None) and whose dates are canonical ISO texts -/
def EntryOK (iso : String → Option String) (e : MEntry) : Prop :=
  (∀ s, e.state = some s → s ∈ stateNames) ∧
  (∀ d, e.deadline = some d → d ≠ "" ∧ iso d = some d) ∧
  (∀ d, e.expectedEnd = some d → d ≠ "" ∧ iso d = some d)

theorem dateOf_optStr (iso : String → Option String) (d : Option String)
    (h : ∀ s, d = some s → s ≠ "" ∧ iso s = some s) : dateOf iso (some (optStr d)) = .ok d := by
  cases d with
  | none => simp [dateOf, optStr, truthy]
  | some s =>
    obtain ⟨h1, h2⟩ := h s rfl
    simp [dateOf, optStr, truthy, h1, h2]

theorem stateOf_optStr (st : Option String) (h : ∀ s, st = some s → s ∈ stateNames) : stateOf (optStr st) = st := by
  cases st with
  | none => rfl
  | some s =>
    have := h s rfl
    simp [stateOf, optStr, this]

theorem entry_roundtrip (iso : String → Option String) (e : MEntry) (h : EntryOK iso e) :
    entryOf iso (entryJson e) = .ok e := by
  obtain ⟨h1, h2, h3⟩ := h
  have a := dateOf_optStr iso e.deadline h2
  have b := dateOf_optStr iso e.expectedEnd h3
  have c := stateOf_optStr e.state h1
  simp [entryOf, entryJson, entryFields, lookup, List.filter, a, b, c]

theorem entries_roundtrip (iso : String → Option String) (l : List (String × MEntry))
    (h : ∀ p ∈ l, EntryOK iso p.2) : entriesOf iso (l.map fun p => (p.1, entryJson p.2)) = .ok l := by
  induction l with
  | nil => rfl
  | cons p t ih =>
    have hp := entry_roundtrip iso p.2 (h p List.mem_cons_self)
    have ht := ih (fun q hq => h q (List.mem_cons_of_mem _ hq))
    simp [entriesOf, hp, ht]

/-- values the constructor and `set()` can build: a Path-typed value with no payload or a `Path`, a
Graph-typed value with no payload or a (non-None) graph id -/
def PIDomain (p : PathInfo) : Prop :=
  match p.type, p.payload with
  | some .path, .unset => True
  | some .path, .path _ _ => True
  | some .graph, .unset => True
  | some .graph, .raw j => j ≠ .null
  | _, _ => False

theorem lookup_insert (a b : List (String × JVal)) (k k' : String) (v : JVal) (h : k ≠ k') :
    lookup (a ++ (k, v) :: b) k' = lookup (a ++ b) k' := by
  simp [lookup, List.find?_append, h]

theorem splitFirst_append (a b : List Char) (h : ':' ∉ a) : splitFirst (a ++ ':' :: b) = some (a, b) := by
  induction a with
  | nil => simp [splitFirst]
  | cons c t ih =>
    simp only [List.mem_cons, not_or] at h
    have hc : c ≠ ':' := fun e => h.1 e.symm
    simp [splitFirst, hc, ih h.2]

theorem dropWhile_head (ws : Char → Bool) (l : List Char) (h : ∀ c, l.head? = some c → ws c = false) :
    l.dropWhile ws = l := by
  cases l with
  | nil => rfl
  | cons c t => simp [h c rfl]

theorem strip_id (ws : Char → Bool) (l : List Char) (h1 : ∀ c, l.head? = some c → ws c = false)
    (h2 : ∀ c, l.getLast? = some c → ws c = false) : strip ws l = l := by
  unfold strip
  rw [dropWhile_head ws l h1, dropWhile_head ws l.reverse (by simpa using h2), List.reverse_reverse]

def wsGen (c : Char) : Bool := Gen.Fields.whitespace.contains c.toNat
def labelTypes : List (List Char) := (Gen.Fields.tupleTypes.find? (·.1 == "Label")).get!.2.map String.toList
def capTypes : List (List Char) := (Gen.Fields.tupleTypes.find? (·.1 == "Capacity")).get!.2.map String.toList

/-- `str.rstrip()` -/
def rstrip (ws : Char → Bool) (l : List Char) : List Char := (l.reverse.dropWhile ws).reverse

theorem dropWhile_append_stop (p : Char → Bool) (a b : List Char) (c : Char) (hc : p c = false) :
    (a ++ c :: b).dropWhile p = a.dropWhile p ++ c :: b := by
  induction a with
  | nil => simp [hc]
  | cons x t ih =>
    simp only [List.cons_append, List.dropWhile_cons]
    split
    · exact ih
    · rfl

theorem strip_encode (ws : Char → Bool) (hsep : ws ':' = false) (ty v : List Char)
    (hl : ∀ c, ty.head? = some c → ws c = false) : strip ws (ty ++ ':' :: v) = ty ++ ':' :: rstrip ws v := by
  unfold strip rstrip
  have h1 : (ty ++ ':' :: v).dropWhile ws = ty ++ ':' :: v := by
    apply dropWhile_head
    intro c hcq
    cases ty with
    | nil => simp at hcq; subst hcq; exact hsep
    | cons a t => simp at hcq; subst hcq; exact hl a rfl
  rw [h1]
  have h2 : (ty ++ ':' :: v).reverse = v.reverse ++ ':' :: ty.reverse := by simp
  rw [h2, dropWhile_append_stop ws _ _ _ hsep]
  simp

theorem rstrip_eq_self (ws : Char → Bool) (l : List Char) : rstrip ws l = l ↔ ∀ c, l.getLast? = some c → ws c = false := by
  unfold rstrip
  constructor
  · intro h c hc
    have : l.reverse.dropWhile ws = l.reverse := by
      have := congrArg List.reverse h
      simpa using this
    cases hr : l.reverse with
    | nil => simp_all
    | cons a t =>
      rw [hr] at this
      have ha : c = a := by
        have : l.getLast? = some a := by rw [List.getLast?_eq_head?_reverse, hr]; rfl
        rw [this] at hc; exact (Option.some.inj hc).symm
      subst ha
      simp only [List.dropWhile_cons] at this
      split at this
      · have := congrArg List.length this
        have hl := (List.dropWhile_sublist ws (l := t)).length_le
        simp at this; omega
      · rename_i hw; simpa using hw
  · intro h
    rw [dropWhile_head ws l.reverse (by intro c hc; apply h; rw [List.getLast?_eq_head?_reverse]; exact hc)]
    simp

end FimVerif.C03
