import FimVerif.Proofs.Lemmas.C14Any
/-!
# C14: the source models move on between the broker's calls

`unmerge_adm` is given a graph ID, not a model: between the merge of a model and its unmerge the graph stored under that id
may have been changed in place, reloaded with a different element set, or deleted (the broker unmerges the OLD advertisement
when the updated one has arrived).  In the world of `Model/Cbm.lean` a new version of a source is PREPENDED to `srcs`:
`step`'s `find?` then finds the newest version of an id (a deleted model is the version without elements: merging it raises
the assertion), the older versions stay in the list as the pool the combined model's data may come from.
-/
namespace FimVerif.Cbm

inductive UOp where
  | op (o : Op)
  | update (a : Adm)              -- the graph stored under `a.id` is now `a.g` (no elements: deleted)
deriving Repr, Inhabited

def World.update (w : World) (a : Adm) : World := { w with srcs := a :: w.srcs }

def ustep (w : World) : UOp → World
  | .op o => (step w o).2
  | .update a => w.update a

def urun (w : World) : List UOp → World
  | [] => w
  | o :: ops => urun (ustep w o) ops

/-- as `HistOk`; updates of the sources are unrestricted -/
def UHistOk (w : World) : List UOp → Prop
  | [] => True
  | .op o :: ops => OpOk w o ∧ UHistOk (step w o).2 ops
  | .update a :: ops => UHistOk (w.update a) ops

def UHistOk.dec : (w : World) → (ops : List UOp) → Decidable (UHistOk w ops)
  | _, [] => isTrue trivial
  | w, .op o :: ops =>
    have := UHistOk.dec (step w o).2 ops
    (inferInstance : Decidable (OpOk w o ∧ UHistOk (step w o).2 ops))
  | w, .update a :: ops => UHistOk.dec (w.update a) ops

instance (w : World) (ops : List UOp) : Decidable (UHistOk w ops) := UHistOk.dec w ops

theorem Tracks.mono {pool pool' : List Adm} {c : Graph} {live : List Adm} (t : Tracks pool c live)
    (h : ∀ a ∈ pool, a ∈ pool') : Tracks pool' c live :=
  ⟨t.wf, fun a ha => h a (t.sub a ha), t.awf, t.nonempty, t.ids, t.compat, t.has, t.prov, t.ldel, t.cdel, t.edges,
   fun i p hp => let ⟨a, ha, e⟩ := t.propsFrom i p hp; ⟨a, h a ha, e⟩,
   fun x y p hp => let ⟨a, ha, e⟩ := t.edgesFrom x y p hp; ⟨a, h a ha, e⟩⟩

theorem WInv.update {w : World} (h : WInv w) (a : Adm) : WInv (w.update a) := by
  obtain ⟨⟨live, t⟩, hs⟩ := h
  refine ⟨⟨live, t.mono (fun b hb => List.mem_cons_of_mem _ hb)⟩, ?_⟩
  intro p hp
  obtain ⟨l, tl⟩ := hs p hp
  exact ⟨l, tl.mono (fun b hb => List.mem_cons_of_mem _ hb)⟩

theorem WInv.urun : ∀ (ops : List UOp) {w : World}, WInv w → UHistOk w ops → WInv (urun w ops)
  | [], _, h, _ => h
  | .op o :: ops, _, h, hok => WInv.urun ops (h.step o hok.1) hok.2
  | .update a :: ops, _, h, hok => WInv.urun ops (h.update a) hok

/-- the calls of the combined model do not look at the sources except `merge`, which takes the newest version -/
theorem unmerge_ignores_sources (w : World) (srcs' : List Adm) (gid : String) :
    (step { w with srcs := srcs' } (.unmerge gid)).1 = (step w (.unmerge gid)).1 ∧
    (step { w with srcs := srcs' } (.unmerge gid)).2.cbm = (step w (.unmerge gid)).2.cbm := ⟨rfl, rfl⟩

end FimVerif.Cbm
