import FimVerif.Proofs.Lemmas.C12Pools
/-! Lemmas for `annotate_delegations_and_pools` (C12): merging the per-node single-resource delegations into the
generated dictionaries, and which nodes `generate_delegations_by_node_id` produces. -/
set_option linter.unusedSimpArgs false
namespace FimVerif.C12
open FimVerif.Deleg

variable {D : Type}

theorem lookup_none_iff {α : Type} (n : String) (r : List (String × α)) : lookup n r = none ↔ ∀ e ∈ r, e.1 ≠ n := by
  induction r with
  | nil => simp [lookup]
  | cons a r ih =>
    by_cases h : a.1 = n
    · simp [lookup, h]
    · simp [lookup, h, ih]

/-- nodes that carry no pool entries and are pairwise distinct are simply appended -/
theorem mergeSingles_ok (r dels : NodeDelegs D) (hdis : ∀ e ∈ dels, ∀ b ∈ r, b.1 ≠ e.1)
    (hpw : dels.Pairwise (fun a b => a.1 ≠ b.1)) : mergeSingles r dels = .ok (r ++ dels) := by
  induction dels generalizing r with
  | nil => simp [mergeSingles]
  | cons e rest ih =>
    have hnone : lookup e.1 r = none := (lookup_none_iff e.1 r).mpr (hdis e (by simp))
    have hp := List.pairwise_cons.mp hpw
    simp only [mergeSingles, hnone, Option.isSome_none, Bool.false_eq_true, if_false]
    rw [ih (r ++ [e]) ?_ hp.2]
    · simp
    · intro x hx b hb
      rcases List.mem_append.mp hb with hb | hb
      · exact hdis x (by simp [hx]) b hb
      · simp only [List.mem_singleton] at hb
        subst hb
        exact hp.1 x hx

/-- a node that already carries pool entries cannot also get single-resource delegations: `PropertyGraphQueryException` -/
theorem mergeSingles_clash (r dels : NodeDelegs D) (e : String × Delegations D) (he : e ∈ dels)
    (b : String × Delegations D) (hb : b ∈ r) (hbe : b.1 = e.1) : mergeSingles r dels = .error .query := by
  induction dels generalizing r with
  | nil => cases he
  | cons x rest ih =>
    cases hx : lookup x.1 r with
    | some _ => simp [mergeSingles, hx]
    | none =>
      simp only [mergeSingles, hx, Option.isSome_none, Bool.false_eq_true, if_false]
      rcases List.mem_cons.mp he with rfl | he'
      · exact absurd hbe ((lookup_none_iff e.1 r).mp hx b hb)
      · exact ih (r ++ [x]) he' (by simp [hb])

theorem addAt_nodes (ty : DType) (node : String) (d : Delegation D) (R R' : NodeDelegs D)
    (h : addAt ty node d R = .ok R') : ∀ b ∈ R', b.1 = node ∨ ∃ b0 ∈ R, b0.1 = b.1 := by
  induction R generalizing R' with
  | nil =>
    simp only [addAt, bind, Except.bind, pure, Except.pure] at h
    cases ha : addDelegation ({ ty := ty, items := [] } : Delegations D) d with
    | error e => simp [ha] at h
    | ok ds =>
      simp only [ha] at h
      injection h with h; subst h
      intro b hb
      simp only [List.mem_singleton] at hb
      subst hb; exact Or.inl rfl
  | cons e R ih =>
    by_cases hen : e.1 = node
    · simp only [addAt, hen, if_true, bind, Except.bind, pure, Except.pure] at h
      cases ha : addDelegation e.2 d with
      | error er => simp [ha] at h
      | ok ds =>
        simp only [ha] at h
        injection h with h; subst h
        intro b hb
        rcases List.mem_cons.mp hb with rfl | hb
        · exact Or.inl rfl
        · exact Or.inr ⟨b, by simp [hb], rfl⟩
    · simp only [addAt, hen, if_false, bind, Except.bind, pure, Except.pure] at h
      cases ha : addAt ty node d R with
      | error er => simp [ha] at h
      | ok l' =>
        simp only [ha] at h
        injection h with h; subst h
        intro b hb
        rcases List.mem_cons.mp hb with rfl | hb
        · exact Or.inr ⟨b, by simp, rfl⟩
        · rcases ih l' ha b hb with h1 | ⟨b0, hb0, h1⟩
          · exact Or.inl h1
          · exact Or.inr ⟨b0, by simp [hb0], h1⟩

/-- the nodes of the dictionaries built by adding entries are nodes of those entries (or were there before) -/
theorem addAt_fold_nodes (ty : DType) (EL : List (Entry D)) (R R' : NodeDelegs D)
    (h : EL.foldlM (fun r e => addAt ty e.1 e.2 r) R = .ok R') :
    ∀ b ∈ R', (∃ e ∈ EL, e.1 = b.1) ∨ ∃ b0 ∈ R, b0.1 = b.1 := by
  induction EL generalizing R with
  | nil =>
    simp only [List.foldlM_nil, pure, Except.pure] at h
    injection h with h; subst h
    exact fun b hb => Or.inr ⟨b, hb, rfl⟩
  | cons e EL ih =>
    rw [List.foldlM_cons] at h
    cases ha : addAt ty e.1 e.2 R with
    | error er => simp [ha, bind, Except.bind] at h
    | ok R1 =>
      simp only [ha, bind, Except.bind] at h
      intro b hb
      rcases ih R1 h b hb with ⟨x, hx, hxb⟩ | ⟨b0, hb0, hb0b⟩
      · exact Or.inl ⟨x, by simp [hx], hxb⟩
      · rcases addAt_nodes ty e.1 e.2 R R1 ha b0 hb0 with h1 | ⟨b1, hb1, h1⟩
        · exact Or.inl ⟨e, by simp, by rw [← hb0b, h1]⟩
        · exact Or.inr ⟨b1, hb1, by rw [h1, hb0b]⟩

theorem flat_append (A B : NodeDelegs D) : flat (A ++ B) = flat A ++ flat B := by
  simp [flat, List.flatMap_append]

/-- dictionaries that hold only single-resource delegations contribute no pool entries -/
theorem filter_flat_singles (L : NodeDelegs D) (h : ∀ e ∈ L, ∀ d ∈ e.2.items, d.fmt = .single) :
    (flat L).filter nonSingle = [] := by
  apply List.filter_eq_nil_iff.mpr
  intro x hx
  obtain ⟨n, d⟩ := x
  obtain ⟨e, he, _, hd⟩ := (mem_flat L n d).mp hx
  simp [nonSingle, h e he d hd]

end FimVerif.C12
