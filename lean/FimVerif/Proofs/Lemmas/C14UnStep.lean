import FimVerif.Proofs.Lemmas.C14Hist
namespace FimVerif.Cbm

/-! ### what one successful `unmerge` does, in terms of look-ups -/

/-- total version of `Deleg.unmerge` (what it returns when it does not raise) -/
def Deleg.un (gid : String) : Deleg → Deleg
  | .dict l => if l.any (fun p => p.1 == gid) then .emptied else .dict l
  | d => d

def unT (gid : String) (n : Node) : Node :=
  { n with prov := (provUnmerge gid n.prov).1, cdel := n.cdel.un gid, ldel := n.ldel.un gid }

/-- the node as `unmerge` keeps it, `none` if it deletes it -/
def unKeep (gid : String) (n : Node) : Option Node :=
  if (provUnmerge gid n.prov).2 then none else some (unT gid n)

theorem Deleg.unmerge_eq {gid : String} {d r : Deleg} (h : d.unmerge gid = .ok r) : r = d.un gid := by
  cases d with
  | absent => simp [Deleg.unmerge] at h; subst h; rfl
  | emptied => simp [Deleg.unmerge] at h; subst h; rfl
  | dict l =>
    simp only [Deleg.unmerge] at h
    simp only [Deleg.un]
    by_cases hm : (l.any fun p => p.1 == gid) = true
    · rw [if_pos hm] at h ⊢
      split at h
      · injection h with h; exact h.symm
      · cases h
    · rw [if_neg hm] at h ⊢
      injection h with h; exact h.symm

theorem unmergeNode_eq {gid : String} {n : Node} {r : Node × Bool} (h : unmergeNode gid n = .ok r) :
    r = (unT gid n, (provUnmerge gid n.prov).2) := by
  unfold unmergeNode at h
  split at h
  · cases h
  · rename_i cd hcd
    split at h
    · cases h
    · rename_i ld hld
      injection h with h
      subst h
      simp [unT, Deleg.unmerge_eq hcd, Deleg.unmerge_eq hld]

theorem unmergeNodes_eq {gid : String} : ∀ {ns : List Node} {l : List (Node × Bool)}, unmergeNodes gid ns = .ok l →
    (l.filter (fun r => !r.2)).map (·.1) = ns.filterMap (unKeep gid)
  | [], l, h => by simp [unmergeNodes] at h; subst h; rfl
  | n :: ns, l, h => by
    unfold unmergeNodes at h
    split at h
    · cases h
    · rename_i r hr
      split at h
      · cases h
      · rename_i rs hrs
        injection h with h
        subst h
        have e := unmergeNode_eq hr
        have ih := unmergeNodes_eq hrs
        subst e
        rw [List.filterMap_cons, List.filter_cons]
        cases hf : (provUnmerge gid n.prov).2 <;> simp [ih, unKeep, hf]

theorem unKeep_id {gid : String} {n m : Node} (h : unKeep gid n = some m) : m.id = n.id := by
  unfold unKeep at h
  split at h
  · cases h
  · injection h with h; subst h; rfl

theorem find_filterMap_id (f : Node → Option Node) (hf : ∀ n m, f n = some m → m.id = n.id) (i : String) :
    ∀ (l : List Node), (l.map (·.id)).Nodup → (l.filterMap f).find? (fun n => n.id == i) = (l.find? (fun n => n.id == i)).bind f
  | [], _ => rfl
  | n :: l, hn => by
    simp only [List.map_cons, List.nodup_cons] at hn
    have ih := find_filterMap_id f hf i l hn.2
    rw [List.filterMap_cons, List.find?_cons]
    by_cases hi : n.id = i
    · have hnone : (l.filterMap f).find? (fun n => n.id == i) = none := by
        rw [ih]
        have : l.find? (fun n => n.id == i) = none := by
          apply List.find?_eq_none.mpr
          intro m hm hmi
          have : m.id = i := by simpa using hmi
          exact hn.1 (hi ▸ this ▸ List.mem_map.mpr ⟨m, hm, rfl⟩)
        rw [this]; rfl
      have hb : (n.id == i) = true := by simpa using hi
      simp only [hb, Option.bind_some]
      cases hfn : f n with
      | none => simpa using hnone
      | some m =>
        have := hf n m hfn
        have hm' : (m.id == i) = true := by rw [this]; exact hb
        simp [List.find?_cons, hm']
    · have hi' : (n.id == i) = false := by simpa using hi
      simp only [hi']
      cases hfn : f n with
      | none => simpa using ih
      | some m =>
        have := hf n m hfn
        have hm' : (m.id == i) = false := by rw [this]; exact hi'
        simp only [List.find?_cons, hm']
        exact ih

/-- the graph a successful unmerge returns -/
def unmerged (g : Graph) (gid : String) : Graph :=
  let keep := g.nodes.filterMap (unKeep gid)
  ⟨keep, g.edges.filter (fun e => (keep.map (·.id)).contains e.a && (keep.map (·.id)).contains e.b)⟩

theorem unmerge_ok_eq {g : Graph} {gid : String} {g' : Graph} (h : unmerge g gid = (none, g')) : g' = unmerged g gid := by
  unfold unmerge at h
  split at h
  · cases h
  · split at h
    · cases h
    · rename_i l hl
      injection h with _ h
      subst h
      have := unmergeNodes_eq hl
      simp only [unmerged, this]

theorem node?_unmerged {g : Graph} (hn : g.ids.Nodup) (gid : String) (i : String) :
    (unmerged g gid).node? i = (g.node? i).bind (unKeep gid) := by
  unfold Graph.node? unmerged
  exact find_filterMap_id (unKeep gid) (fun _ _ h => unKeep_id h) i g.nodes hn

theorem any_filter_joins (es : List Edge) (q : String → Bool) (x y : String) :
    (es.filter (fun e => q e.a && q e.b)).any (fun e => e.joins x y) = (es.any (fun e => e.joins x y) && q x && q y) := by
  induction es with
  | nil => simp
  | cons e es ih =>
    rw [List.filter_cons, List.any_cons]
    by_cases hj : e.joins x y = true
    · have hq : (q e.a && q e.b) = (q x && q y) := by
        simp only [Edge.joins, Bool.or_eq_true, Bool.and_eq_true, beq_iff_eq] at hj
        rcases hj with ⟨h1, h2⟩ | ⟨h1, h2⟩
        · rw [h1, h2]
        · rw [h1, h2, Bool.and_comm]
      rw [hq]
      cases hqq : (q x && q y) with
      | true => simp [hj, Bool.and_assoc, hqq]
      | false => simp [ih, Bool.and_assoc, hqq]
    · have hj' : e.joins x y = false := by simpa using hj
      split <;> simp [hj', ih]

theorem find_filter_joins (es : List Edge) (q : String → Bool) (x y : String) :
    (es.filter (fun e => q e.a && q e.b)).find? (fun e => e.joins x y) =
      if q x && q y then es.find? (fun e => e.joins x y) else none := by
  induction es with
  | nil => simp
  | cons e es ih =>
    rw [List.filter_cons, List.find?_cons]
    by_cases hj : e.joins x y = true
    · have hq : (q e.a && q e.b) = (q x && q y) := by
        simp only [Edge.joins, Bool.or_eq_true, Bool.and_eq_true, beq_iff_eq] at hj
        rcases hj with ⟨h1, h2⟩ | ⟨h1, h2⟩
        · rw [h1, h2]
        · rw [h1, h2, Bool.and_comm]
      rw [hq]
      cases hqq : (q x && q y) with
      | true => simp [hj]
      | false => simp [ih, hqq]
    · have hj' : e.joins x y = false := by simpa using hj
      split <;> simp [hj', ih]

/-- What a successful unmerge does, through the observations. -/
structure UnmergeStep (g : Graph) (gid : String) (g' : Graph) : Prop where
  has : ∀ i, g'.has i = (g.has i && !(provUnmerge gid (g.provOf i)).2)
  props : ∀ i, g'.propsOf i = if g'.has i then g.propsOf i else none
  prov : ∀ i, g'.provOf i = if g'.has i then (provUnmerge gid (g.provOf i)).1 else []
  ldel : ∀ i, g'.ldelOf i = if g'.has i then (g.ldelOf i).un gid else .absent
  cdel : ∀ i, g'.cdelOf i = if g'.has i then (g.cdelOf i).un gid else .absent
  hasEdge : ∀ x y, g'.hasEdge x y = (g.hasEdge x y && g'.has x && g'.has y)
  edgeData : ∀ x y, g'.edgeData x y = if g'.has x && g'.has y then g.edgeData x y else none
  wf : g'.WF

theorem ids_unmerged_sub (g : Graph) (gid : String) : ∀ i ∈ (unmerged g gid).ids, i ∈ g.ids := by
  intro i hi
  simp only [unmerged, Graph.ids, List.mem_map, List.mem_filterMap] at hi
  obtain ⟨m, ⟨n, hn, hk⟩, rfl⟩ := hi
  rw [unKeep_id hk]
  exact List.mem_map.mpr ⟨n, hn, rfl⟩

theorem unmerged_ids_eq (g : Graph) (gid : String) :
    (unmerged g gid).ids = (g.nodes.filter (fun n => !(provUnmerge gid n.prov).2)).map (·.id) := by
  simp only [unmerged, Graph.ids]
  induction g.nodes with
  | nil => rfl
  | cons n l ih =>
    rw [List.filterMap_cons, List.filter_cons]
    cases hf : (provUnmerge gid n.prov).2 <;> simp [ih, unT, unKeep, hf]

theorem unmerge_step {g : Graph} {gid : String} {g' : Graph} (hg : g.WF) (h : unmerge g gid = (none, g')) :
    UnmergeStep g gid g' := by
  have he := unmerge_ok_eq h
  subst he
  have hnode := node?_unmerged hg.nodup gid
  have hhas : ∀ i, (unmerged g gid).has i = (g.has i && !(provUnmerge gid (g.provOf i)).2) := by
    intro i
    rw [has_eq_isSome, has_eq_isSome, hnode]
    unfold Graph.provOf unKeep
    cases g.node? i with
    | none => rfl
    | some n => simp only [Option.bind_some, Option.map_some, Option.getD_some, Option.isSome_some, Bool.true_and]; split <;> simp_all
  have hcont : ∀ i, ((unmerged g gid).nodes.map (·.id)).contains i = (unmerged g gid).has i := fun _ => rfl
  refine ⟨hhas, ?_, ?_, ?_, ?_, ?_, ?_, ?_⟩
  · intro i
    rw [has_eq_isSome]
    simp only [Graph.propsOf, hnode]
    cases g.node? i with
    | none => rfl
    | some n => simp only [Option.bind_some, unKeep]; split <;> simp [unT]
  · intro i
    rw [has_eq_isSome]
    simp only [Graph.provOf, hnode]
    cases g.node? i with
    | none => rfl
    | some n => simp only [Option.bind_some, unKeep]; split <;> simp [unT]
  · intro i
    rw [has_eq_isSome]
    simp only [Graph.ldelOf, hnode]
    cases g.node? i with
    | none => rfl
    | some n => simp only [Option.bind_some, unKeep]; split <;> simp [unT]
  · intro i
    rw [has_eq_isSome]
    simp only [Graph.cdelOf, hnode]
    cases g.node? i with
    | none => rfl
    | some n => simp only [Option.bind_some, unKeep]; split <;> simp [unT]
  · intro x y
    have := any_filter_joins g.edges (fun i => ((unmerged g gid).nodes.map (·.id)).contains i) x y
    simp only [hcont] at this
    exact this
  · intro x y
    have := find_filter_joins g.edges (fun i => ((unmerged g gid).nodes.map (·.id)).contains i) x y
    simp only [hcont] at this
    unfold Graph.edgeData Graph.edge?
    have e : (unmerged g gid).edges = g.edges.filter (fun e => (unmerged g gid).has e.a && (unmerged g gid).has e.b) := rfl
    rw [e, this]
    split <;> rfl
  · refine ⟨?_, ?_, ?_⟩
    · rw [unmerged_ids_eq]
      exact List.Pairwise.map _ (fun _ _ h => h) (List.Pairwise.filter _ (List.pairwise_map.mp hg.nodup))
    · intro e he
      have := (List.mem_filter.mp he).2
      simp only [Bool.and_eq_true, List.contains_iff_mem] at this
      exact this
    · exact List.Pairwise.filter _ hg.edges

end FimVerif.Cbm
