import FimVerif.Proofs.Lemmas.TopoAtomic
/-! Graph-level facts used by the C09 proofs about calls that write more than once: what the queries of
`Model/Topo.lean` return in a state that extends another one by fresh nodes, and what `dropNode` undoes. -/
namespace FimVerif.Topo
open FimVerif FimVerif.M

/-! ### state predicates -/

def IdsDistinct (t : Topo) : Prop := (t.nodes.map (·.nid)).Nodup
/-- every edge joins two nodes of the model -/
def Closed (t : Topo) : Prop := ∀ e ∈ t.edges, (∃ n ∈ t.nodes, n.ref = e.a) ∧ (∃ n ∈ t.nodes, n.ref = e.b)
/-- what a NetworkService `connects` to is a ConnectionPoint -/
def NsCp (t : Topo) : Prop := ∀ e ∈ t.edges, e.rel = .connects →
  (e.a.cls = .networkService → e.b.cls = .connectionPoint) ∧ (e.b.cls = .networkService → e.a.cls = .connectionPoint)
/-- the library has drawn fewer than `c` uuids so far -/
def FreshFrom (c : Nat) (t : Topo) : Prop := ∀ n ∈ t.nodes, ∀ k, n.nid = .gen k → k < c

instance (t : Topo) : Decidable (IdsDistinct t) := by unfold IdsDistinct; infer_instance
instance (t : Topo) : Decidable (Closed t) := by unfold Closed; infer_instance
instance (t : Topo) : Decidable (NsCp t) := by unfold NsCp; infer_instance

/-- an edge list has an edge ending in `r` -/
def touches (E : List GEdge) (r : Ref) : Prop := ∃ e ∈ E, e.a = r ∨ e.b = r

/-! ### uniqueness of nodes by id -/

theorem eq_of_nid_eq {l : List GNode} (h : (l.map (·.nid)).Nodup) {x y : GNode} (hx : x ∈ l) (hy : y ∈ l)
    (e : x.nid = y.nid) : x = y := by
  induction l with
  | nil => cases hx
  | cons a l ih =>
    simp only [List.map_cons, List.nodup_cons, List.mem_map, not_exists, not_and] at h
    rcases List.mem_cons.mp hx with rfl | hx' <;> rcases List.mem_cons.mp hy with rfl | hy'
    · rfl
    · exact absurd e.symm (h.1 y hy')
    · exact absurd e (h.1 x hx')
    · exact ih h.2 hx' hy'

theorem filter_nid_unique {l : List GNode} (h : (l.map (·.nid)).Nodup) {x : GNode} (hx : x ∈ l) :
    l.filter (fun y => y.nid == x.nid) = [x] := by
  induction l with
  | nil => cases hx
  | cons a l ih =>
    simp only [List.map_cons, List.nodup_cons, List.mem_map, not_exists, not_and] at h
    rcases List.mem_cons.mp hx with rfl | hx'
    · have : l.filter (fun y => y.nid == x.nid) = [] := by
        rw [List.filter_eq_nil_iff]; intro y hy; simp; exact fun e => h.1 y hy e
      simp [List.filter_cons, this]
    · have hne : ¬ a.nid = x.nid := fun e => h.1 x hx' e.symm
      simp [List.filter_cons, hne, ih h.2 hx']

theorem filter_nid_absent {l : List GNode} {i : Nid} (h : ∀ n ∈ l, n.nid ≠ i) : l.filter (fun y => y.nid == i) = [] := by
  rw [List.filter_eq_nil_iff]; intro y hy; simpa using h y hy

theorem findNode_of_mem {t : Topo} (h : IdsDistinct t) {n : GNode} (hn : n ∈ t.nodes) : findNode n.nid t = (.ok n, t) := by
  unfold findNode findAll; rw [filter_nid_unique h hn]

theorem findNode_ok {t t' : Topo} {i : Nid} {n : GNode} (h : findNode i t = (.ok n, t')) : n ∈ t.nodes ∧ n.nid = i ∧ t' = t := by
  unfold findNode at h
  split at h
  · rename_i m hm
    simp only [Prod.mk.injEq, Except.ok.injEq] at h
    obtain ⟨h1, h2⟩ := h
    subst h1; subst h2
    have : m ∈ findAll t i := by rw [hm]; simp
    have := List.mem_filter.mp this
    exact ⟨this.1, by simpa using this.2, rfl⟩
  · simp at h

theorem ref_eq_iff {t : Topo} (h : IdsDistinct t) {x y : GNode} (hx : x ∈ t.nodes) (hy : y ∈ t.nodes) :
    x.ref = y.ref ↔ x = y := by
  constructor
  · intro e; exact eq_of_nid_eq h hx hy (by simpa [GNode.ref] using (congrArg Ref.nid e))
  · intro e; rw [e]

theorem filter_ref_unique {t : Topo} (h : IdsDistinct t) {x : GNode} (hx : x ∈ t.nodes) :
    t.nodes.filter (fun y => y.ref == x.ref) = [x] := by
  rw [← filter_nid_unique h hx]
  apply List.filter_congr
  intro y hy
  by_cases e : y.nid = x.nid
  · have := eq_of_nid_eq h hy hx e; subst this; simp
  · have : ¬ y.ref = x.ref := fun e' => e (by simpa [GNode.ref] using (congrArg Ref.nid e'))
    rw [beq_eq_false_iff_ne.mpr this, beq_eq_false_iff_ne.mpr e]


/-! ### the flags regenerated from the source (each theorem re-checked against the code on every run) -/

theorem flag_idAnyClass : Gen.Rules.idAnyClass = true := by decide
theorem flag_ifaceParentPrecheck : Gen.Rules.ifaceParentPrecheck = true := by decide
theorem flag_linkPrecheck : Gen.Rules.linkPrecheck = true := by decide
theorem flag_svcRollbackAll : Gen.Rules.svcRollbackAll = true := by decide
theorem flag_compositeRollback : Gen.Rules.compositeRollback = true := by decide
theorem flag_connectNamePrecheck : Gen.Rules.connectNamePrecheck = true := by decide

/-! ### running the primitives -/

/-- a step that only reads: either it raises (state as before) or the rest runs in the same state -/
theorem ro_step {α β : Type} {m : M Topo α} {f : α → M Topo β} {t : Topo} {Q : Except Err β × Topo → Prop}
    (hm : ReadOnly m) (herr : ∀ e, Q (.error e, t)) (hok : ∀ a, m t = (.ok a, t) → Q (f a t)) : Q ((m >>= f) t) := by
  have h1 := hm.h t
  rcases cases_run m t with ⟨a, s', h⟩ | ⟨e, s', h⟩
  · rw [h] at h1; simp at h1; subst h1; rw [bind_ok h]; exact hok a h
  · rw [h] at h1; simp at h1; subst h1; rw [bind_err h]; exact herr e

theorem guard_ok {c : Bool} {e : Err} {t t' : Topo} {u : Unit} (h : M.guard c e t = (.ok u, t')) : c = true := by
  cases c <;> simp [M.guard] at h ⊢

theorem idTaken_iff {t : Topo} {cls : Cls} {i : Nid} : idTaken t cls i = false ↔ ∀ m ∈ t.nodes, m.nid ≠ i := by
  simp [idTaken, flag_idAnyClass]

theorem addGNode_cases (n : GNode) (t : Topo) :
    addGNode n t = (.error .query, t) ∨ (addGNode n t = (.ok (), pushNode n t) ∧ ∀ m ∈ t.nodes, m.nid ≠ n.nid) := by
  unfold addGNode
  by_cases h : idTaken t n.cls n.nid = true
  · simp [h]
  · have h' : idTaken t n.cls n.nid = false := by simpa using h
    exact .inr ⟨by simp [h'], idTaken_iff.mp h'⟩

theorem addGNode_run {n : GNode} {t : Topo} (h : ∀ m ∈ t.nodes, m.nid ≠ n.nid) : addGNode n t = (.ok (), pushNode n t) := by
  unfold addGNode; rw [idTaken_iff.mpr h]; rfl

theorem idsDistinct_push {n : GNode} {t : Topo} (h : IdsDistinct t) (hn : ∀ m ∈ t.nodes, m.nid ≠ n.nid) :
    IdsDistinct (pushNode n t) := by
  unfold IdsDistinct pushNode
  simp only [List.map_append, List.map_cons, List.map_nil]
  rw [List.nodup_append]
  refine ⟨h, by simp, ?_⟩
  intro a ha b hb
  simp at hb; subst hb
  simp only [List.mem_map] at ha
  obtain ⟨m, hm, rfl⟩ := ha
  exact hn m hm

theorem findAll_push (n : GNode) (t : Topo) (i : Nid) :
    findAll (pushNode n t) i = findAll t i ++ (if n.nid = i then [n] else []) := by
  unfold findAll pushNode
  by_cases h : n.nid = i <;> simp [List.filter_append, h]

theorem findAll_of_findNode {t t' : Topo} {i : Nid} {n : GNode} (h : findNode i t = (.ok n, t')) : findAll t i = [n] := by
  unfold findNode at h
  split at h
  · rename_i m hm; simp only [Prod.mk.injEq, Except.ok.injEq] at h; rw [hm, h.1]
  · simp at h

theorem findNode_push_old {n pn : GNode} {t : Topo} {i : Nid} (hp : findNode i t = (.ok pn, t))
    (hn : ∀ m ∈ t.nodes, m.nid ≠ n.nid) : findNode i (pushNode n t) = (.ok pn, pushNode n t) := by
  obtain ⟨hm, hi, _⟩ := findNode_ok hp
  have hne : ¬ n.nid = i := fun e => hn pn hm (by rw [hi, e])
  unfold findNode
  rw [findAll_push, findAll_of_findNode hp]; simp [hne]

theorem findNode_push_new {n : GNode} {t : Topo} (hn : ∀ m ∈ t.nodes, m.nid ≠ n.nid) :
    findNode n.nid (pushNode n t) = (.ok n, pushNode n t) := by
  unfold findNode
  rw [findAll_push]
  have : findAll t n.nid = [] := filter_nid_absent hn
  simp [this]

theorem addEdge_run {a b : Nid} {r : Rel} {na nb : GNode} {t : Topo} (ha : findNode a t = (.ok na, t))
    (hb : findNode b t = (.ok nb, t)) : addEdge a r b t = (.ok (), setEdge na.ref nb.ref r t) := by
  unfold addEdge
  rw [bind_ok ha, bind_ok hb]; rfl

theorem not_touches_of_closed {t : Topo} {r : Ref} (hc : Closed t) (hr : ∀ n ∈ t.nodes, n.ref ≠ r) : ¬ touches t.edges r := by
  intro ⟨e, he, h⟩
  obtain ⟨⟨x, hx, hxe⟩, ⟨y, hy, hye⟩⟩ := hc e he
  rcases h with h | h
  · exact hr x hx (by rw [hxe, h])
  · exact hr y hy (by rw [hye, h])

theorem sameEnds_touches {e : GEdge} {a b : Ref} (h : sameEnds e a b = true) : (e.a = b ∨ e.b = b) := by
  simp only [sameEnds, Bool.or_eq_true, Bool.and_eq_true, beq_iff_eq] at h
  rcases h with ⟨_, h⟩ | ⟨h, _⟩
  · exact .inr h
  · exact .inl h

theorem setEdge_fresh {t : Topo} {a b : Ref} {rel : Rel} (h : ¬ touches t.edges b) :
    setEdge a b rel t = { t with edges := t.edges ++ [⟨a, b, rel⟩] } := by
  unfold setEdge
  congr 1
  congr 1
  rw [List.filter_eq_self]
  intro e he
  cases hs : sameEnds e a b
  · rfl
  · exact absurd ⟨e, he, sameEnds_touches hs⟩ h

theorem setEdge_fresh_left {t : Topo} {a b : Ref} {rel : Rel} (h : ¬ touches t.edges a) :
    setEdge a b rel t = { t with edges := t.edges ++ [⟨a, b, rel⟩] } := by
  unfold setEdge
  congr 1
  congr 1
  rw [List.filter_eq_self]
  intro e he
  cases hs : sameEnds e a b
  · rfl
  · have : sameEnds e b a = true := by
      simp only [sameEnds, Bool.or_eq_true, Bool.and_eq_true, beq_iff_eq] at hs ⊢
      rcases hs with ⟨h1, h2⟩ | ⟨h1, h2⟩
      · exact .inr ⟨h1, h2⟩
      · exact .inl ⟨h1, h2⟩
    exact absurd ⟨e, he, sameEnds_touches this⟩ h

theorem forEach_cons_ok {β : Type} {f : β → M Topo Unit} {x : β} {xs : List β} {t t1 : Topo} {u : Unit}
    (h : f x t = (.ok u, t1)) : M.forEach (x :: xs) f t = M.forEach xs f t1 := by
  show (M.bind (f x) fun _ => M.forEach xs f) t = _
  rw [bind_apply, h]

theorem forEach_cons_err {β : Type} {f : β → M Topo Unit} {x : β} {xs : List β} {t t1 : Topo} {e : Err}
    (h : f x t = (.error e, t1)) : M.forEach (x :: xs) f t = (.error e, t1) := by
  show (M.bind (f x) fun _ => M.forEach xs f) t = _
  rw [bind_apply, h]

theorem forEach_ro_ok {β : Type} {f : β → M Topo Unit} (hf : ∀ b, ReadOnly (f b)) (l : List β) (t t' : Topo) (u : Unit)
    (h : M.forEach l f t = (.ok u, t')) : ∀ b ∈ l, f b t = (.ok (), t) := by
  induction l with
  | nil => intro b hb; cases hb
  | cons x xs ih =>
    intro b hb
    have hx := (hf x).h t
    rcases cases_run (f x) t with ⟨a, s', hr⟩ | ⟨e, s', hr⟩
    · rw [hr] at hx; simp at hx; subst hx
      rw [forEach_cons_ok hr] at h
      rcases List.mem_cons.mp hb with rfl | hb'
      · exact hr
      · exact ih h b hb'
    · rw [forEach_cons_err hr] at h; simp at h

end FimVerif.Topo
