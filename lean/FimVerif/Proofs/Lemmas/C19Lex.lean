import FimVerif.Model.Cypher
/-!
Helper lemmas for C19 (identifier holes, part 1): LEXING COMMUTES WITH FILLING THE HOLES.
`expand ρ t` replaces every hole code point of `t` by the string `ρ` assigns to it; for `ρ` made of identifier characters
(`IdSubst`) the raw tokens / stripped text / closedness of `expand ρ t` are those of `t` with the holes filled (`lexRaw_expand`).
-/
namespace FimVerif.Cypher
set_option linter.unusedSimpArgs false
set_option linter.unusedVariables false

/-! character facts -/
theorem isMarker_iff (c : Nat) : isMarker c = true ↔ 1114112 ≤ c := by
  simp [isMarker, markerBase, Nat.ble_eq]
theorem isIdStart0_iff (c : Nat) : isIdStart0 c = true ↔ (97 ≤ c ∧ c ≤ 122) ∨ (65 ≤ c ∧ c ≤ 90) ∨ c = 95 := by
  simp [isIdStart0, Nat.ble_eq, or_assoc]
theorem isDigit_iff (c : Nat) : isDigit c = true ↔ 48 ≤ c ∧ c ≤ 57 := by
  simp [isDigit, Nat.ble_eq]

/-- a character an identifier can contain: letter, digit, underscore - or a hole -/
def idLike (c : Nat) : Prop := isIdStart0 c = true ∨ isDigit c = true ∨ isMarker c = true

theorem idLike_iff (c : Nat) : idLike c ↔ ((97 ≤ c ∧ c ≤ 122) ∨ (65 ≤ c ∧ c ≤ 90) ∨ c = 95) ∨ (48 ≤ c ∧ c ≤ 57) ∨ 1114112 ≤ c := by
  simp [idLike, isIdStart0_iff, isDigit_iff, isMarker_iff]

theorem idLike_isIdChar {c : Nat} (h : idLike c) : isIdChar c = true := by
  rcases h with h | h | h <;> simp [isIdChar, isIdStart, h]
theorem idLike_not_quote {c : Nat} (h : idLike c) : isQuote c = false := by
  rw [idLike_iff] at h; simp [isQuote]; omega
theorem idLike_not_ws {c : Nat} (h : idLike c) : isWs c = false := by
  rw [idLike_iff] at h; simp [isWs]; omega
theorem idLike_ne {c : Nat} (h : idLike c) (d : Nat) (hd : d = 10 ∨ d = 36 ∨ d = 47 ∨ d = 92 ∨ d = 123 ∨ d = 125 ∨ d = 39 ∨ d = 34 ∨ d = 96) :
    (c == d) = false := by
  rw [idLike_iff] at h; simp; omega

/-- what the holes are filled with: identifier characters only, starting with a letter or underscore -/
structure IdSubst (ρ : Nat → Text) : Prop where
  start : ∀ k, ∃ a t, ρ k = a :: t ∧ isIdStart0 a = true
  chars : ∀ k, ∀ c ∈ ρ k, isIdStart0 c = true ∨ isDigit c = true

theorem IdSubst.idLike {ρ : Nat → Text} (h : IdSubst ρ) (k : Nat) : ∀ c ∈ ρ k, idLike c := by
  intro c hc; rcases h.chars k c hc with h | h
  · exact Or.inl h
  · exact Or.inr (Or.inl h)

/-! expand -/
theorem expand_append (ρ : Nat → Text) (a b : Text) : expand ρ (a ++ b) = expand ρ a ++ expand ρ b := by
  induction a with
  | nil => rfl
  | cons c t ih => simp [expand, ih]

theorem expand_plain (ρ : Nat → Text) {s : Text} (h : plain s = true) : expand ρ s = s := by
  induction s with
  | nil => rfl
  | cons c t ih =>
    simp only [plain, List.all_cons, Bool.and_eq_true, Bool.not_eq_true'] at h
    have := ih (by simpa [plain] using h.2)
    simp [expand, h.1, this]

theorem expand_marker (ρ : Nat → Text) {c : Nat} (h : isMarker c = true) (t : Text) :
    expand ρ (c :: t) = ρ (c - markerBase) ++ expand ρ t := by simp [expand, h]
theorem expand_char (ρ : Nat → Text) {c : Nat} (h : isMarker c = false) (t : Text) :
    expand ρ (c :: t) = c :: expand ρ t := by simp [expand, h]

theorem expand_length_le (ρ : Nat → Text) (a b : Text) : (expand ρ b).length ≤ (expand ρ (a ++ b)).length := by
  rw [expand_append]; simp

/-- a predicate that holds of every identifier character sees the same prefix before and after filling the holes -/
theorem takeWhile_expand {ρ : Nat → Text} (h : IdSubst ρ) (p : Nat → Bool) (hp : ∀ c, idLike c → p c = true) (l : Text) :
    (expand ρ l).takeWhile p = expand ρ (l.takeWhile p) ∧ (expand ρ l).dropWhile p = expand ρ (l.dropWhile p) := by
  induction l with
  | nil => simp [expand]
  | cons c t ih =>
    cases hm : isMarker c with
    | true =>
      have hall : ∀ a ∈ ρ (c - markerBase), p a = true := fun a ha => hp a (h.idLike _ a ha)
      have hpc : p c = true := hp c (Or.inr (Or.inr hm))
      rw [expand_marker ρ hm, List.takeWhile_append_of_pos hall, List.dropWhile_append_of_pos hall]
      simp [List.takeWhile_cons, List.dropWhile_cons, hpc, expand, hm, ih.1, ih.2]
    | false =>
      rw [expand_char ρ hm]
      cases hpc : p c with
      | true => simp [List.takeWhile_cons, List.dropWhile_cons, hpc, expand, hm, ih.1, ih.2]
      | false => simp [List.takeWhile_cons, List.dropWhile_cons, hpc, expand, hm]

/-- the first character after filling: the same plain character, or an identifier start where a hole stood -/
theorem head_expand {ρ : Nat → Text} (h : IdSubst ρ) (l : Text) :
    (expand ρ l = [] ∧ l = []) ∨
    (∃ c t, l = c :: t ∧ isMarker c = false ∧ expand ρ l = c :: expand ρ t) ∨
    (∃ c t a r, l = c :: t ∧ isMarker c = true ∧ isIdStart0 a = true ∧ expand ρ l = a :: r) := by
  cases l with
  | nil => left; simp [expand]
  | cons c t =>
    right
    cases hm : isMarker c with
    | false => left; exact ⟨c, t, rfl, hm, expand_char ρ hm t⟩
    | true =>
      right
      obtain ⟨a, r, hr, ha⟩ := h.start (c - markerBase)
      exact ⟨c, t, a, r ++ expand ρ t, rfl, hm, ha, by rw [expand_marker ρ hm, hr]; rfl⟩

/-- a test for one plain non-identifier character gives the same answer on the first character -/
theorem head_eq_expand {ρ : Nat → Text} (h : IdSubst ρ) (l : Text) (d : Nat)
    (hd : d = 10 ∨ d = 36 ∨ d = 47 ∨ d = 92 ∨ d = 123 ∨ d = 125 ∨ d = 39 ∨ d = 34 ∨ d = 96) :
    ((expand ρ l).head? == some d) = (l.head? == some d) := by
  rcases head_expand h l with ⟨h1, h2⟩ | ⟨c, t, hl, hm, he⟩ | ⟨c, t, a, r, hl, hm, ha, he⟩
  · rw [h1, h2]
  · rw [he, hl]; rfl
  · have h1 := idLike_ne (Or.inl ha) d hd
    have h2 := idLike_ne (Or.inr (Or.inr hm)) d hd
    rw [he, hl]; simp only [List.head?_cons, Option.some_beq_some, h1, h2]

theorem head_idStart_expand {ρ : Nat → Text} (h : IdSubst ρ) (l : Text) :
    ((expand ρ l).head?.map isIdStart).getD false = (l.head?.map isIdStart).getD false := by
  rcases head_expand h l with ⟨h1, h2⟩ | ⟨c, t, hl, hm, he⟩ | ⟨c, t, a, r, hl, hm, ha, he⟩
  · rw [h1, h2]
  · rw [he, hl]; rfl
  · rw [he, hl]; simp [isIdStart, ha, hm]



theorem skipStr_cons (q c : Nat) (rest : Text) : skipStr q (c :: rest) =
    if c == q then some rest else if c == 92 && q != 96 then (match rest with | [] => none | _ :: r2 => skipStr q r2) else skipStr q rest := by
  cases rest <;> rfl

theorem lexAux_cons (fuel c : Nat) (rest : Text) : lexAux (fuel + 1) (c :: rest) =
    if isQuote c then
      match skipStr c rest with
      | none => ⟨[Tok.str], [], false⟩
      | some r => (lexAux fuel r).cons [Tok.str] [c, c]
    else if c == cp%'/' && rest.head? == some cp%'/' then lexAux fuel (rest.dropWhile (fun x => x != cp%'\n'))
    else if isWs c then (lexAux fuel rest).cons [] [c]
    else if c == cp%'$' && (rest.head?.map isIdStart).getD false then
      (lexAux fuel (rest.dropWhile isIdChar)).cons [Tok.par (rest.takeWhile isIdChar)] (cp%'$' :: rest.takeWhile isIdChar)
    else if isIdStart c then
      (lexAux fuel (rest.dropWhile isIdChar)).cons [Tok.id (c :: rest.takeWhile isIdChar)] (c :: rest.takeWhile isIdChar)
    else if isDigit c then
      (lexAux fuel (rest.dropWhile isDigit)).cons [Tok.num] (c :: rest.takeWhile isDigit)
    else (lexAux fuel rest).cons [Tok.sym c] [c] := by rfl

/-! string literals -/
theorem skipStr_idLike_append (q : Nat) (hq : q = 39 ∨ q = 34 ∨ q = 96) (x r : Text) (hx : ∀ c ∈ x, idLike c) :
    skipStr q (x ++ r) = skipStr q r := by
  induction x with
  | nil => rfl
  | cons c t ih =>
    have hc := hx c (by simp)
    have h1 : (c == q) = false := idLike_ne hc q (by omega)
    have h2 : (c == 92) = false := idLike_ne hc 92 (by omega)
    rw [List.cons_append, skipStr_cons]; simp only [h1, h2, Bool.false_and, if_false]
    exact ih (fun c hc => hx c (by simp [hc]))

theorem skipStr_expand {ρ : Nat → Text} (h : IdSubst ρ) (q : Nat) (hq : q = 39 ∨ q = 34 ∨ q = 96) :
    ∀ n (l : Text), l.length ≤ n → skipStr q (expand ρ l) = (skipStr q l).map (expand ρ) := by
  intro n
  induction n with
  | zero => intro l hl; cases l with | nil => rfl | cons _ _ => simp at hl
  | succ n ih =>
    intro l hl
    cases l with
    | nil => rfl
    | cons c rest =>
      have hr : rest.length ≤ n := by simpa using hl
      cases hm : isMarker c with
      | true =>
        have hc : idLike c := Or.inr (Or.inr hm)
        have h1 : (c == q) = false := idLike_ne hc q (by omega)
        have h2 : (c == 92) = false := idLike_ne hc 92 (by omega)
        rw [expand_marker ρ hm, skipStr_idLike_append q hq _ _ (h.idLike _)]
        rw [skipStr_cons]; simp only [h1, h2, Bool.false_and, if_false]
        exact ih rest hr
      | false =>
        rw [expand_char ρ hm]
        cases hcq : (c == q) with
        | true => simp [skipStr_cons, hcq]
        | false =>
          cases hesc : (c == 92 && q != 96) with
          | false =>
            rw [skipStr_cons, skipStr_cons]; simp only [hcq, hesc, if_false]
            exact ih rest hr
          | true =>
            cases rest with
            | nil => simp [skipStr_cons, hcq, hesc, expand]
            | cons e r2 =>
              have hr2 : r2.length ≤ n := by simp at hr; omega
              cases hme : isMarker e with
              | false =>
                rw [expand_char ρ hme]
                rw [skipStr_cons q c (e :: expand ρ r2), skipStr_cons q c (e :: r2)]; simp only [hcq, hesc, if_false, if_true]
                exact ih r2 hr2
              | true =>
                obtain ⟨a, t, hat, _⟩ := h.start (e - markerBase)
                have ht : ∀ c ∈ t, idLike c := fun c hc => h.idLike (e - markerBase) c (by rw [hat]; simp [hc])
                rw [expand_marker ρ hme, hat]
                rw [List.cons_append, skipStr_cons q c (a :: (t ++ expand ρ r2)), skipStr_cons q c (e :: r2)]; simp only [hcq, hesc, if_false, if_true]
                rw [skipStr_idLike_append q hq _ _ ht]
                exact ih r2 hr2

def Tok.expandRaw (ρ : Nat → Text) : Tok → Tok
  | .id nm => .id (expand ρ nm)
  | .par nm => .par (expand ρ nm)
  | t => t

def Lexed.expand (ρ : Nat → Text) (L : Lexed) : Lexed := ⟨L.toks.map (Tok.expandRaw ρ), FimVerif.Cypher.expand ρ L.stripped, L.closed⟩

theorem Lexed.expand_cons (ρ : Nat → Text) (t : List Tok) (s : Codes) (L : Lexed) :
    (L.cons t s).expand ρ = (L.expand ρ).cons (t.map (Tok.expandRaw ρ)) (FimVerif.Cypher.expand ρ s) := by
  simp [Lexed.cons, Lexed.expand, expand_append]



theorem skipStr_suffix (q : Nat) : ∀ n (l r : Text), l.length ≤ n → skipStr q l = some r → ∃ pre, l = pre ++ r := by
  intro n
  induction n with
  | zero => intro l r hl; cases l with | nil => simp [skipStr] | cons _ _ => simp at hl
  | succ n ih =>
    intro l r hl
    cases l with
    | nil => simp [skipStr]
    | cons c rest =>
      have hr : rest.length ≤ n := by simpa using hl
      rw [skipStr_cons]
      split
      · intro h; exact ⟨[c], by simp at h; simp [h]⟩
      · split
        · cases rest with
          | nil => simp
          | cons e r2 =>
            intro h
            obtain ⟨pre, hp⟩ := ih r2 r (by simp at hr; omega) h
            exact ⟨c :: e :: pre, by simp [hp]⟩
        · intro h
          obtain ⟨pre, hp⟩ := ih rest r hr h
          exact ⟨c :: pre, by simp [hp]⟩

/-- a predicate that fails on holes and on identifier starts: a run of it stops where a hole stood -/
theorem takeWhile_stop_expand {ρ : Nat → Text} (h : IdSubst ρ) (p : Nat → Bool) (hm : ∀ c, isMarker c = true → p c = false)
    (hs : ∀ c, isIdStart0 c = true → p c = false) (l : Text) :
    (expand ρ l).takeWhile p = expand ρ (l.takeWhile p) ∧ (expand ρ l).dropWhile p = expand ρ (l.dropWhile p) := by
  induction l with
  | nil => simp [expand]
  | cons c t ih =>
    cases hmc : isMarker c with
    | true =>
      obtain ⟨a, r, hr, ha⟩ := h.start (c - markerBase)
      rw [expand_marker ρ hmc, hr]
      simp [List.takeWhile_cons, List.dropWhile_cons, hm c hmc, hs a ha, expand, hmc, hr]
    | false =>
      rw [expand_char ρ hmc]
      cases hpc : p c with
      | true => simp [List.takeWhile_cons, List.dropWhile_cons, hpc, expand, hmc, ih.1, ih.2]
      | false => simp [List.takeWhile_cons, List.dropWhile_cons, hpc, expand, hmc]

theorem lexAux_idStart (fuel a : Nat) (r : Text) (ha : isIdStart0 a = true ∨ isMarker a = true) :
    lexAux (fuel + 1) (a :: r) =
      (lexAux fuel (r.dropWhile isIdChar)).cons [Tok.id (a :: r.takeWhile isIdChar)] (a :: r.takeWhile isIdChar) := by
  have hl : idLike a := by rcases ha with h | h; exact Or.inl h; exact Or.inr (Or.inr h)
  have h1 := idLike_not_quote hl
  have h2 := idLike_not_ws hl
  have h3 : (a == 47) = false := idLike_ne hl 47 (by omega)
  have h4 : (a == 36) = false := idLike_ne hl 36 (by omega)
  have h5 : isIdStart a = true := by rcases ha with h | h <;> simp [isIdStart, h]
  rw [lexAux_cons]
  simp [h1, h2, h3, h4, h5]

theorem lexAux_expand {ρ : Nat → Text} (h : IdSubst ρ) :
    ∀ n (t : Text), t.length < n → ∀ m, (expand ρ t).length < m → lexAux m (expand ρ t) = (lexAux n t).expand ρ := by
  intro n
  induction n with
  | zero => intro t ht; omega
  | succ n ih =>
    intro t ht m hm
    cases m with
    | zero => omega
    | succ m =>
    cases t with
    | nil => rfl
    | cons c rest =>
      have hr : rest.length < n := by simpa using ht
      -- the recursive call on a suffix of `rest`
      have sub : ∀ pre s, rest = pre ++ s → (expand ρ rest).length < m → lexAux m (expand ρ s) = (lexAux n s).expand ρ := by
        intro pre s hp hm'
        refine ih s ?_ m ?_
        · rw [hp] at hr; simp at hr; omega
        · have := expand_length_le ρ pre s; rw [← hp] at this; omega
      have hIdChar := takeWhile_expand h isIdChar (fun c hc => idLike_isIdChar hc) rest
      cases hmc : isMarker c with
      | true =>
        obtain ⟨a, xs, hxs, ha⟩ := h.start (c - markerBase)
        have hxsall : ∀ b ∈ xs, isIdChar b = true := fun b hb =>
          idLike_isIdChar (h.idLike (c - markerBase) b (by rw [hxs]; simp [hb]))
        have hm' : (expand ρ rest).length < m := by
          rw [expand_marker ρ hmc, hxs] at hm; simp at hm; omega
        rw [expand_marker ρ hmc, hxs, List.cons_append, lexAux_idStart m a _ (Or.inl ha), lexAux_idStart n c rest (Or.inr hmc),
          List.takeWhile_append_of_pos hxsall, List.dropWhile_append_of_pos hxsall, hIdChar.1, hIdChar.2,
          sub _ _ (List.takeWhile_append_dropWhile (p := isIdChar) (l := rest)).symm hm', Lexed.expand_cons]
        simp [Tok.expandRaw, expand, hmc, hxs]
      | false =>
        have hm' : (expand ρ rest).length < m := by
          rw [expand_char ρ hmc] at hm; simpa using hm
        rw [expand_char ρ hmc, lexAux_cons, lexAux_cons]
        by_cases hq : isQuote c = true
        · have hq' : c = 39 ∨ c = 34 ∨ c = 96 := by simpa [isQuote, or_assoc] using hq
          simp only [hq, if_true]
          rw [skipStr_expand h c hq' _ rest (Nat.le_refl _)]
          cases hs : skipStr c rest with
          | none => rfl
          | some r =>
            obtain ⟨pre, hp⟩ := skipStr_suffix c _ rest r (Nat.le_refl _) hs
            simp only [Option.map_some]
            rw [sub pre r hp hm', Lexed.expand_cons]
            simp [Tok.expandRaw, expand, hmc]
        · simp only [hq, if_false, Bool.false_eq_true]
          rw [head_eq_expand h rest 47 (by omega), head_idStart_expand h rest]
          have hNl := takeWhile_expand h (fun x => x != 10) (fun c hc => by have := idLike_ne hc 10 (by omega); simp only [beq_eq_false_iff_ne, ne_eq] at this; simp [this]) rest
          have hDig := takeWhile_stop_expand h isDigit
            (fun c hc => by rw [isMarker_iff] at hc; cases hd : isDigit c; rfl; rw [isDigit_iff] at hd; omega)
            (fun c hc => by rw [isIdStart0_iff] at hc; cases hd : isDigit c; rfl; rw [isDigit_iff] at hd; omega) rest
          split
          · rw [hNl.2]; exact sub _ _ (List.takeWhile_append_dropWhile (p := fun x => x != 10) (l := rest)).symm hm'
          · split
            · rw [sub [] rest rfl hm', Lexed.expand_cons]; simp [expand, hmc]
            · split
              · rw [hIdChar.1, hIdChar.2, sub _ _ (List.takeWhile_append_dropWhile (p := isIdChar) (l := rest)).symm hm',
                  Lexed.expand_cons]
                simp [Tok.expandRaw, expand, isMarker_iff]
              · split
                · rw [hIdChar.1, hIdChar.2, sub _ _ (List.takeWhile_append_dropWhile (p := isIdChar) (l := rest)).symm hm',
                    Lexed.expand_cons]
                  simp [Tok.expandRaw, expand, hmc]
                · split
                  · rw [hDig.1, hDig.2, sub _ _ (List.takeWhile_append_dropWhile (p := isDigit) (l := rest)).symm hm',
                      Lexed.expand_cons]
                    simp [Tok.expandRaw, expand, hmc]
                  · rw [sub [] rest rfl hm', Lexed.expand_cons]; simp [Tok.expandRaw, expand, hmc]

/-- LEXING COMMUTES WITH FILLING THE HOLES: the tokens of the filled text are the tokens of the text with holes, filled -/
theorem lexRaw_expand {ρ : Nat → Text} (h : IdSubst ρ) (t : Text) : lexRaw (expand ρ t) = (lexRaw t).expand ρ :=
  lexAux_expand h _ t (Nat.lt_succ_self _) _ (Nat.lt_succ_self _)



end FimVerif.Cypher
