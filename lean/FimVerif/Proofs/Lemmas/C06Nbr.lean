import FimVerif.Proofs.Lemmas.C06Basic
namespace FimVerif.Query
open FimVerif.Gen

theorem mem_viaFilter_true {g : TGraph} (hu : UniqEdges g) {near r v : String} {cand : List String} :
    v ∈ viaFilter true g near cand r ↔ v ∈ cand ∧ Edge g near v r := by
  simp [viaFilter, relOf_iff hu]

theorem mem_filterByLabel {g : TGraph} {l : List String} {c m : String} :
    m ∈ filterByLabel g l c ↔ m ∈ l ∧ classOf g m = some c := by
  simp [filterByLabel]

/-- the as-written variant (`loopVar = false`) only ever removes `near` itself -/
theorem mem_viaFilter_false {g : TGraph} {near r v : String} {cand : List String} :
    v ∈ viaFilter false g near cand r ↔
      v ∈ cand ∧ (v = near → ∀ w ∈ cand, relOf g near w = some r) := by
  unfold viaFilter
  simp only [Bool.false_eq_true, if_false]
  split
  · rename_i h
    simp only [List.any_eq_true, bne_iff_ne, ne_eq] at h
    obtain ⟨w, hw, hne⟩ := h
    simp only [List.mem_filter, bne_iff_ne, ne_eq]
    constructor
    · rintro ⟨h1, h2⟩; exact ⟨h1, fun h => absurd h h2⟩
    · rintro ⟨h1, h2⟩; exact ⟨h1, fun h => hne (h2 h w hw)⟩
  · rename_i h
    simp only [List.any_eq_true, bne_iff_ne, ne_eq, not_exists, not_and, Decidable.not_not] at h
    exact ⟨fun h1 => ⟨h1, fun _ => h⟩, fun h1 => h1.1⟩

theorem mem_secondOf {hop2 : Bool} {g : TGraph} {n m r2 c2 : String} {p : String × String} :
    p ∈ secondOf hop2 g n m r2 c2 ↔
      p.1 = m ∧ p.2 ∈ viaFilter hop2 g m (nbrs g m) r2 ∧ classOf g p.2 = some c2 ∧ p.2 ≠ n := by
  unfold secondOf
  simp only
  split
  · rename_i h
    simp only [List.isEmpty_iff] at h
    constructor
    · intro hp; simp at hp
    · rintro ⟨_, h2, h3, _⟩
      have : p.2 ∈ filterByLabel g (viaFilter hop2 g m (nbrs g m) r2) c2 := mem_filterByLabel.2 ⟨h2, h3⟩
      rw [h] at this; simp at this
  · simp only [List.mem_map, List.mem_filter, mem_filterByLabel, bne_iff_ne, ne_eq]
    constructor
    · rintro ⟨k, ⟨⟨h1, h2⟩, h3⟩, rfl⟩; exact ⟨rfl, h1, h2, h3⟩
    · rintro ⟨h0, h1, h2, h3⟩; exact ⟨p.2, ⟨⟨h1, h2⟩, h3⟩, by rw [← h0]⟩

theorem mem_twoHopWith {hop1 hop2 : Bool} {g : TGraph} {n r1 c1 r2 c2 : String} {p : String × String} :
    p ∈ twoHopWith hop1 hop2 g n r1 c1 r2 c2 ↔
      p.1 ∈ viaFilter hop1 g n (nbrs g n) r1 ∧ classOf g p.1 = some c1 ∧
      p.2 ∈ viaFilter hop2 g p.1 (nbrs g p.1) r2 ∧ classOf g p.2 = some c2 ∧ p.2 ≠ n := by
  unfold twoHopWith
  simp only
  split
  · rename_i h
    simp only [List.isEmpty_iff] at h
    simp [h]
  · simp only [List.mem_flatMap, mem_filterByLabel, mem_secondOf]
    constructor
    · rintro ⟨m, ⟨h1, h2⟩, rfl, h3⟩; exact ⟨h1, h2, h3⟩
    · rintro ⟨h1, h2, h3⟩; exact ⟨p.1, ⟨h1, h2⟩, rfl, h3⟩

theorem nbrs_nodup {g : TGraph} (hu : UniqEdges g) (n : String) : (nbrs g n).Nodup := by
  unfold nbrs List.Nodup
  refine List.Pairwise.filterMap (other n) ?_ hu
  intro e f hef b hb b' hb' hbb
  subst hbb
  rw [other_eq_some] at hb hb'
  have : joins f e.1 e.2.1 = true := by
    rw [joins_iff]
    rcases hb with ⟨h1, h2⟩ | ⟨_, h1, h2⟩ <;> rcases hb' with ⟨h3, h4⟩ | ⟨_, h3, h4⟩ <;> simp_all
  simp [this] at hef

theorem viaFilter_nodup (b : Bool) (g : TGraph) (near r : String) {cand : List String} (h : cand.Nodup) :
    (viaFilter b g near cand r).Nodup := by
  unfold viaFilter
  split
  · exact List.Pairwise.filter _ h
  · split
    · exact List.Pairwise.filter _ h
    · exact h

theorem firstNeighbor_nodup {g : TGraph} (hu : UniqEdges g) (n r c : String) :
    (filterByLabel g (firstNeighborsVia g n r) c).Nodup :=
  List.Pairwise.filter _ (viaFilter_nodup _ g n r (nbrs_nodup hu n))

theorem secondOf_nodup (hop2 : Bool) {g : TGraph} (hu : UniqEdges g) (n m r2 c2 : String) :
    (secondOf hop2 g n m r2 c2).Nodup := by
  unfold secondOf
  simp only
  split
  · exact List.Pairwise.nil
  · unfold List.Nodup
    rw [List.pairwise_map]
    have : (List.filter (fun k => k != n) (filterByLabel g (viaFilter hop2 g m (nbrs g m) r2) c2)).Nodup :=
      List.Pairwise.filter _ (List.Pairwise.filter _ (viaFilter_nodup _ g m r2 (nbrs_nodup hu m)))
    refine List.Pairwise.imp ?_ this
    intro a b hab h
    exact hab (by simpa using h)

theorem twoHopWith_nodup (hop1 hop2 : Bool) {g : TGraph} (hu : UniqEdges g) (n r1 c1 r2 c2 : String) :
    (twoHopWith hop1 hop2 g n r1 c1 r2 c2).Nodup := by
  unfold twoHopWith
  simp only
  split
  · exact List.Pairwise.nil
  · unfold List.Nodup
    rw [List.pairwise_flatMap]
    refine ⟨fun m _ => secondOf_nodup hop2 hu n m r2 c2, ?_⟩
    have : (filterByLabel g (viaFilter hop1 g n (nbrs g n) r1) c1).Nodup :=
      List.Pairwise.filter _ (viaFilter_nodup _ g n r1 (nbrs_nodup hu n))
    refine List.Pairwise.imp ?_ this
    intro a b hab x hx y hy hxy
    rw [mem_secondOf] at hx hy
    subst hxy
    exact hab (hx.1.symm.trans hy.1)

/-! ### the common prologue of the queries -/

theorem prologue1 {α} {g : TGraph} {n : String} {f : List α} {l : List α}
    (h : (do extract g; findNode g n; pure f : Except Err (List α)) = .ok l) :
    n ∈ verts g ∧ l = f := by
  unfold extract findNode at h
  by_cases h1 : g.nodes.isEmpty = true <;> by_cases h2 : n ∈ verts g <;>
    simp [h1, h2, bind, Except.bind, pure, Except.pure] at h
  exact ⟨h2, h.symm⟩

theorem prologue_ok {g : TGraph} {n : String} (hn : n ∈ verts g) :
    extract g = .ok () ∧ findNode g n = .ok () := by
  have hne : g.nodes.isEmpty = false := by
    cases hg : g.nodes with
    | nil => simp [verts, hg] at hn
    | cons => rfl
  simp [extract, findNode, hne, hn]

/-! ### the class gate of the derived helpers -/

theorem classGate_ok_iff {g : TGraph} {n : String} {adm : List String} :
    classGate g n adm = .ok () ↔ ∃ c, classOf g n = some c ∧ c ∈ adm := by
  unfold classGate labelsOf
  cases hc : classOf g n with
  | none => simp [bind, Except.bind]
  | some c =>
    simp only [bind, Except.bind]
    by_cases hm : c ∈ adm <;> simp [hm]

theorem classGate_cases (g : TGraph) (n : String) (adm : List String) :
    classGate g n adm = .ok () ∨ classGate g n adm = .error .query := by
  unfold classGate labelsOf
  cases classOf g n with
  | none => right; rfl
  | some c =>
    simp only [bind, Except.bind]
    split
    · right; rfl
    · left; rfl

/-- a gated helper answers exactly when the node's class is admitted, and then with the answer of the underlying query;
    otherwise it raises the query exception -/
theorem gated_ok_iff {α} {g : TGraph} {n : String} {adm : List String} {f : Except Err α} {r : α} :
    (do classGate g n adm; f) = Except.ok r ↔ (∃ c, classOf g n = some c ∧ c ∈ adm) ∧ f = .ok r := by
  rw [← classGate_ok_iff]
  rcases classGate_cases g n adm with h | h <;> simp [h, bind, Except.bind]

theorem gated_outside {α} {g : TGraph} {n : String} {adm : List String} {f : Except Err α}
    (h : ¬ ∃ c, classOf g n = some c ∧ c ∈ adm) : (do classGate g n adm; f) = Except.error Err.query := by
  rw [← classGate_ok_iff] at h
  rcases classGate_cases g n adm with h' | h'
  · exact absurd h' h
  · simp [h', bind, Except.bind]

end FimVerif.Query
