import FimVerif.Proofs.Lemmas.C16Validate
/-! Lemmas for tags, and a syntactic "this character can never occur" analysis of a regex. -/
namespace FimVerif.V16
open FimVerif.Regex FimVerif.Gen.Validators

theorem tagItems_ok : ∀ {xs : List Item} {l : List (List Char)}, tagItems xs = .ok l →
    xs = l.map Item.str ∧ ∀ t ∈ l, accepts tagAnchor tagRe t = true := by
  intro xs
  induction xs with
  | nil => intro l h; simp only [tagItems, pure, Except.pure, Except.ok.injEq] at h; subst h; simp
  | cons a r ih =>
    intro l h
    simp only [tagItems] at h
    cases a with
    | other => simp [tagCheck, throw, throwThe, MonadExceptOf.throw] at h
    | str s =>
      by_cases hm : accepts tagAnchor tagRe s = true
      · simp only [tagCheck, hm, if_true, pure, Except.pure] at h
        cases hr : tagItems r with
        | error e => simp [hr] at h
        | ok l' =>
          simp only [hr, Except.ok.injEq] at h
          subst h
          obtain ⟨h1, h2⟩ := ih hr
          refine ⟨by simp [h1], ?_⟩
          intro t ht
          simp only [List.mem_cons] at ht
          cases ht with
          | inl ht => subst ht; exact hm
          | inr ht => exact h2 t ht
      · simp [tagCheck, hm, throw, throwThe, MonadExceptOf.throw] at h

theorem tagItems_of : ∀ (l : List (List Char)), (∀ t ∈ l, accepts tagAnchor tagRe t = true) →
    tagItems (l.map Item.str) = .ok l := by
  intro l
  induction l with
  | nil => intro _; rfl
  | cons a r ih =>
    intro h
    have ha := h a (List.mem_cons_self ..)
    simp only [List.map_cons, tagItems, tagCheck, ha, if_true, pure, Except.pure]
    rw [ih (fun t ht => h t (List.mem_cons_of_mem _ ht))]

theorem tagsCtor_ok : ∀ {args : List TArg} {l : List (List Char)}, tagsCtor args = .ok l →
    ∀ t ∈ l, accepts tagAnchor tagRe t = true := by
  intro args
  induction args with
  | nil => intro l h; simp only [tagsCtor, pure, Except.pure, Except.ok.injEq] at h; subst h; simp
  | cons a r ih =>
    intro l h
    simp only [tagsCtor] at h
    cases a with
    | one i =>
      simp only at h
      cases h1 : tagItems [i] with
      | error e => simp [h1] at h
      | ok l1 =>
        cases h2 : tagsCtor r with
        | error e => simp [h1, h2] at h
        | ok l2 =>
          simp only [h1, h2, pure, Except.pure, Except.ok.injEq] at h
          subst h
          intro t ht
          simp only [List.mem_append] at ht
          cases ht with
          | inl ht => exact (tagItems_ok h1).2 t ht
          | inr ht => exact ih h2 t ht
    | many xs =>
      simp only at h
      cases h1 : tagItems xs with
      | error e => simp [h1] at h
      | ok l1 =>
        cases h2 : tagsCtor r with
        | error e => simp [h1, h2] at h
        | ok l2 =>
          simp only [h1, h2, pure, Except.pure, Except.ok.injEq] at h
          subst h
          intro t ht
          simp only [List.mem_append] at ht
          cases ht with
          | inl ht => exact (tagItems_ok h1).2 t ht
          | inr ht => exact ih h2 t ht

/-! A character that no character predicate of `r` admits cannot occur in a word of `L r`. -/

def Re.avoids (c : Char) : Re → Bool
  | .empty => true
  | .eps => true
  | .chr p => !p c
  | .cat a b => Re.avoids c a && Re.avoids c b
  | .alt a b => Re.avoids c a && Re.avoids c b
  | .star a => Re.avoids c a
  | .rep a _ _ => Re.avoids c a

theorem pow_avoids {P : List Char → Prop} {c : Char} (hP : ∀ w, P w → c ∉ w) :
    ∀ (k : Nat) (w : List Char), Regex.Pow P k w → c ∉ w := by
  intro k
  induction k with
  | zero => intro w h; simp only [Regex.Pow] at h; subst h; simp
  | succ k ih =>
    intro w h
    obtain ⟨u, v, rfl, hu, hv⟩ := h
    intro hc
    simp only [List.mem_append] at hc
    cases hc with
    | inl hc => exact hP u hu hc
    | inr hc => exact ih v hv hc

theorem avoids_sound (c : Char) (r : Re) : Re.avoids c r = true → ∀ w, r.L w → c ∉ w := by
  induction r with
  | empty => intro _ w h; simp [Re.L] at h
  | eps => intro _ w h; simp only [Re.L] at h; subst h; simp
  | chr p =>
    intro ha w h
    simp only [Re.L] at h
    obtain ⟨x, rfl, hx⟩ := h
    simp only [Re.avoids, Bool.not_eq_true'] at ha
    intro hc
    simp only [List.mem_singleton] at hc
    subst hc
    rw [ha] at hx; cases hx
  | cat a b iha ihb =>
    intro h w hw
    simp only [Re.avoids, Bool.and_eq_true] at h
    obtain ⟨u, v, rfl, hu, hv⟩ := hw
    intro hc
    simp only [List.mem_append] at hc
    cases hc with
    | inl hc => exact iha h.1 u hu hc
    | inr hc => exact ihb h.2 v hv hc
  | alt a b iha ihb =>
    intro h w hw
    simp only [Re.avoids, Bool.and_eq_true] at h
    cases hw with
    | inl hw => exact iha h.1 w hw
    | inr hw => exact ihb h.2 w hw
  | star a iha =>
    intro h w hw
    simp only [Re.avoids] at h
    obtain ⟨k, hk⟩ := hw
    exact pow_avoids (iha h) k w hk
  | rep a lo hi iha =>
    intro h w hw
    simp only [Re.avoids] at h
    obtain ⟨k, _, _, hk⟩ := hw
    exact pow_avoids (iha h) k w hk

end FimVerif.V16
