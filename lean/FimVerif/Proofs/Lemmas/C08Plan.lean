import FimVerif.Model.RemovePlan
import FimVerif.Proofs.Lemmas.C08Sep
/-! Bridge: the plan-interpreted calls (`Model/RemovePlan.lean`, what the driver runs) are the hand-written calls of
`Model/Remove.lean` (what the theorems are about) — for the plans in `Generated/RemovalPlan.lean` as extracted today. -/
namespace FimVerif.Remove
open FimVerif.Gen.RemovalPlan

theorem removeCpP_eq (g : G) (x : Nat) (dp : Option Bool) :
    removeCpP g x dp = removeCp g x (dp.getD true) := by
  simp [removeCpP, removeCp, cpDel, cpFamilyP, cpFamily, cpLinksP, cpLinks, cpOnlyChild, cpLinkEnds, cpDeleteParentDefault]

theorem bind_pure_ok (m : Except Err G) : (m.bind fun g' => Except.ok g') = m := by cases m <;> rfl

theorem removeNsP_eq (g : G) (x : Nat) : removeNsP g x = removeNs g x := by
  unfold removeNsP removeNs
  split
  · have : (fun g i => removeCpP g i none) = (fun g i => removeCp g i true) := by
      funext g i; rw [removeCpP_eq]; rfl
    simp only [gRemoveNs, runG, this, bind_pure_ok]
  · rfl

theorem removeNsP_fun : removeNsP = removeNs := by funext g x; exact removeNsP_eq g x

theorem removeCompP_eq (g : G) (x : Nat) : removeCompP g x = removeComp g x := by
  unfold removeCompP removeComp
  split
  · simp only [gRemoveComp, runG, removeNsP_fun, bind_pure_ok]
  · rfl

theorem removeCompP_fun : removeCompP = removeComp := by funext g x; exact removeCompP_eq g x

theorem removeNodeGP_eq (g : G) (x : Nat) : removeNodeGP g x = removeNodeG g x := by
  unfold removeNodeGP removeNodeG
  split
  · simp only [gRemoveNode, runG, removeNsP_fun, removeCompP_fun, bind_pure_ok, bind]
  · rfl

theorem removeNodeGP_fun : removeNodeGP = removeNodeG := by funext g x; exact removeNodeGP_eq g x

theorem removeLinkGP_eq (g : G) (x : Nat) : removeLinkGP g x = removeLinkG g x := by
  unfold removeLinkGP removeLinkG
  split <;> simp [gRemoveLink, runG]


theorem removeLinkGP_fun : removeLinkGP = removeLinkG := by funext g x; exact removeLinkGP_eq g x

/-! ### the user-level calls -/

theorem removeNodeApiP_eq (g : G) (n : Nat) : removeNodeApiP g n = removeNodeApi g n := by
  unfold removeNodeApiP removeNodeApi
  split
  · simp only [removeNode, removeNodeIfs, runApi, List.foldlM_cons, List.foldlM_nil, stepApi, ifsOfList, ifsOf,
      removeNodeGP_fun, bind, Except.bind, pure, Except.pure]
    cases disconnectDeep g (ifaceListNode g n) with
    | error e => rfl
    | ok g1 => simp only []; cases removeNodeG g1 n <;> rfl
  · rfl

theorem removeNodeApiP_fun : removeNodeApiP = removeNodeApi := by funext g x; exact removeNodeApiP_eq g x

theorem removeFacilityApiP_eq (g : G) (n : Nat) : removeFacilityApiP g n = removeFacilityApi g n := by
  unfold removeFacilityApiP removeFacilityApi
  split
  · simp only [removeFacility, removeFacilityIfs, runApi, List.foldlM_cons, List.foldlM_nil, stepApi, ifsOfList, ifsOf,
      removeNodeGP_fun, bind, Except.bind, pure, Except.pure]
    cases disconnectDeep g (ifaceListNode g n) with
    | error e => rfl
    | ok g1 => simp only []; cases removeNodeG g1 n <;> rfl
  · rfl

theorem removeSwitchApiP_eq (g : G) (n : Nat) : removeSwitchApiP g n = removeSwitchApi g n := by
  unfold removeSwitchApiP removeSwitchApi
  split
  · simp only [removeSwitch, removeNodeApiP_fun]
  · rfl

theorem removeComponentApiP_eq (g : G) (c : Nat) : removeComponentApiP g c = removeComponentApi g c := by
  unfold removeComponentApiP removeComponentApi
  split
  · simp only [FimVerif.Gen.RemovalPlan.nodeRemoveComponent, nodeRemoveComponentIfs, runApi, List.foldlM_cons, List.foldlM_nil, stepApi, ifsOfList,
      ifsOf, removeCompP_fun, bind, Except.bind, pure, Except.pure]
    cases disconnectDeep g (ifaceListComp g c) with
    | error e => rfl
    | ok g1 => simp only []; cases removeComp g1 c <;> rfl
  · rfl

theorem removeComponentApiP_fun : removeComponentApiP = removeComponentApi := by funext g x; exact removeComponentApiP_eq g x

theorem removeNsApiP_eq (g : G) (s : Nat) : removeNsApiP g s = removeNsApi g s := by
  unfold removeNsApiP removeNsApi
  split
  · have hsame : (removeNetworkService == nodeRemoveNetworkService) = true := by decide
    rw [if_pos hsame]
    simp only [removeNetworkService, removeNetworkServiceIfs, runApi, List.foldlM_cons, List.foldlM_nil,
      stepApi, ifsOfList, ifsOf, removeNsP_fun, bind, Except.bind, pure, Except.pure]
    cases disconnectDeep g (g.nbrs s .connects .cp) with
    | error e => rfl
    | ok g1 => simp only []; cases removeNs g1 s <;> rfl
  · rfl

theorem removeLinkApiP_eq (g : G) (l : Nat) : removeLinkApiP g l = removeLinkApi g l := by
  unfold removeLinkApiP removeLinkApi
  split
  · rename_i h
    have hc : g.cls? l = some .link := by simpa using h
    have : (fun g p => removeCpP g p none) = (fun g p => removeCp g p true) := by
      funext g p; rw [removeCpP_eq]; rfl
    simp only [removeLink, runApi, List.foldlM_cons, List.foldlM_nil, stepApi, removeLinkGP_fun, removeLinkG, hc,
      beq_self_eq_true, ite_true, bind, Except.bind, pure, Except.pure, this]
    cases List.foldlM (fun g p => removeCp g p true) (g.minus [l])
        (List.filter (fun p => g.kind? p == some kServicePort) (g.nbrs l .connects .cp)) <;> rfl
  · rfl

theorem removeChildP_eq (g : G) (h : List IfH) (p c : Nat) : removeChildP g h p c = removeChild g h p c := by
  unfold removeChildP removeChild
  split
  · simp only [removeChildInterface, removeChildInterfaceIfs, runApi, List.foldlM_cons, List.foldlM_nil, stepApi, ifsOfList,
      ifsOf, removeCpP_eq, Option.getD_some, bind, Except.bind, pure, Except.pure]
    cases disconnectDeep g [c] with
    | error e => rfl
    | ok g1 => simp only []; cases removeCp g1 c false <;> rfl
  · rfl

theorem removeInterfaceP_eq (g : G) (h : List IfH) (i : Nat) : removeInterfaceP g h i = removeInterface g h i := by
  simp only [removeInterfaceP, Gen.RemovalPlan.removeInterface, removeCpP_eq, Option.getD_none]
  rfl

theorem pruneP_eq (g : G) (ns cs ss is : List Nat) : pruneP g ns cs ss is = prune g ns cs ss is := by
  have hns : (fun g s => if g.cls? s == some .ns then runApi { x := s, ifs := ifsOfList pruneNsFnIfs s } pruneNsFn g else .error .query) =
      removeNsApi := by
    funext g s
    unfold removeNsApi
    split
    · simp only [pruneNsFn, pruneNsFnIfs, runApi, List.foldlM_cons, List.foldlM_nil, stepApi, ifsOfList, ifsOf,
        removeNsP_fun, bind, Except.bind, pure, Except.pure]
      cases disconnectDeep g (g.nbrs s .connects .cp) with
      | error e => rfl
      | ok g1 => simp only []; cases removeNs g1 s <;> rfl
    · rfl
  have hif : (fun g i => runApi { x := i, ifs := ifsOfList pruneInterfaceFnIfs i } pruneInterfaceFn g) =
      (fun g i => (disconnectDeep g [i]).bind (fun g1 => removeCp g1 i true)) := by
    funext g i
    simp only [pruneInterfaceFn, pruneInterfaceFnIfs, runApi, List.foldlM_cons, List.foldlM_nil, stepApi, ifsOfList, ifsOf,
      removeCpP_eq, Option.getD_none, bind, Except.bind, pure, Except.pure]
    cases disconnectDeep g [i] with
    | error e => rfl
    | ok g1 => simp only []; cases removeCp g1 i true <;> rfl
  simp only [pruneP, pruneLoops, pruneBody, pruneNodeFn, pruneComponentsFn, hns, hif, removeNodeApiP_fun,
    removeComponentApiP_fun, List.foldlM_cons, List.foldlM_nil, prune, bind, Except.bind, pure, Except.pure, ite_true,
    Bool.false_eq_true, ite_false]
  cases List.foldlM removeNodeApi g ns with
  | error e => rfl
  | ok g1 =>
    simp only []
    cases List.foldlM (fun g c => if g.has c = true then removeComponentApi g c else Except.ok g) g1 cs with
    | error e => rfl
    | ok g2 =>
      simp only []
      cases List.foldlM (fun g s => if g.has s = true then removeNsApi g s else Except.ok g) g2 ss with
      | error e => rfl
      | ok g3 =>
        simp only []
        generalize (List.foldlM (m := Except Err) _ g3 is) = r
        cases r <;> rfl

end FimVerif.Remove
