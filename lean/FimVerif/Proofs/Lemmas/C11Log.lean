import FimVerif.Model.Authz
/-! C11: the accounting summary (`LogCollector`) field by field. -/
namespace FimVerif.Authz

theorem vm_ne_sw : vmType ≠ swType := by decide
theorem vm_ne_fac : vmType ≠ facType := by decide
theorem sw_ne_fac : swType ≠ facType := by decide

/-- the capacity object the summary uses for a VM: `capacity_allocations` if set, else `capacities` -/
def vmCap (n : NodeS) : Option Caps :=
  if n.ntype = vmType then (match n.alloc with | some c => some c | none => n.caps) else none

def facName (n : NodeS) : List String := if n.ntype = facType then [n.name] else []
def siteOf (site : String) : List String := if site ≠ "" then [site] else []

def addAll (l : List String) (xs : List String) : List String := xs.foldl addSet l

theorem mem_addSet (l : List String) (v x : String) : x ∈ addSet l v ↔ x ∈ l ∨ x = v := by
  unfold addSet; split
  · rename_i h; constructor
    · exact Or.inl
    · rintro (h' | rfl) <;> assumption
  · simp

theorem nodup_addSet (l : List String) (v : String) (h : l.Nodup) : (addSet l v).Nodup := by
  unfold addSet; split
  · exact h
  · rename_i hv
    rw [List.nodup_append]; refine ⟨h, by simp, ?_⟩
    intro a ha b hb; simp at hb; subst hb; intro e; subst e; exact hv ha

theorem mem_addAll (l xs : List String) (x : String) : x ∈ addAll l xs ↔ x ∈ l ∨ x ∈ xs := by
  induction xs generalizing l with
  | nil => simp [addAll]
  | cons y ys ih =>
    have : addAll l (y :: ys) = addAll (addSet l y) ys := rfl
    rw [this, ih, mem_addSet]; simp only [List.mem_cons]
    constructor
    · rintro ((h | h) | h) <;> simp [h]
    · rintro (h | h | h) <;> simp [h]

theorem nodup_addAll (l xs : List String) (h : l.Nodup) : (addAll l xs).Nodup := by
  induction xs generalizing l with
  | nil => exact h
  | cons y ys ih => exact ih (addSet l y) (nodup_addSet l y h)

theorem addAll_append (l xs ys : List String) : addAll l (xs ++ ys) = addAll (addAll l xs) ys := by
  simp [addAll, List.foldl_append]

theorem cnt_bump (cs : List (String × Nat)) (t t' : String) : cnt (bump cs t) t' = cnt cs t' + if t = t' then 1 else 0 := by
  induction cs with
  | nil => simp only [bump, cnt]; split <;> simp_all
  | cons p r ih =>
    obtain ⟨t0, n⟩ := p
    simp only [bump]
    by_cases h0 : t0 = t
    · subst h0; simp only [if_true, cnt]; split <;> simp_all
    · simp only [h0, if_false, cnt, ih]
      by_cases h1 : t0 = t'
      · subst h1; simp [Ne.symm h0]
      · simp [h1]

theorem cnt_bumpAll (cs : List (String × Nat)) (ts : List String) (t' : String) :
    cnt (ts.foldl bump cs) t' = cnt cs t' + ts.count t' := by
  induction ts generalizing cs with
  | nil => simp
  | cons t ts ih =>
    simp only [List.foldl_cons, ih, cnt_bump, List.count_cons]
    by_cases h : t = t' <;> simp [h, Nat.add_assoc, Nat.add_comm]

/-! field-wise effect of one node -/

theorem logSite_eq (l : Log) (site : String) : logSite l site = { l with sites := addAll l.sites (siteOf site) } := by
  unfold logSite siteOf; by_cases h : site = "" <;> simp [h, addAll]

theorem logComps_eq (l : Log) (n : NodeS) : logComps l n = { l with comps := (n.comps.getD []).foldl bump l.comps } := by
  unfold logComps; cases n.comps <;> simp

theorem logKind_eq (l : Log) (n : NodeS) :
    logKind l n = { l with
      vm := l.vm + (if n.ntype = vmType then 1 else 0),
      p4 := l.p4 + (if n.ntype = swType then 1 else 0),
      nodes := l.nodes ++ (vmCap n).toList,
      cores := l.cores + ((vmCap n).map (·.core)).getD 0,
      facs := addAll l.facs (facName n) } := by
  unfold logKind vmCap facName
  by_cases h1 : n.ntype = vmType
  · have h2 : ¬ n.ntype = swType := by rw [h1]; exact vm_ne_sw
    have h3 : ¬ n.ntype = facType := by rw [h1]; exact vm_ne_fac
    rw [if_pos h1, if_pos h1, if_pos h1, if_neg h2, if_neg h3]
    cases n.alloc <;> cases n.caps <;> simp [addAll]
  · rw [if_neg h1, if_neg h1, if_neg h1]
    by_cases h2 : n.ntype = swType
    · have h3 : ¬ n.ntype = facType := by rw [h2]; exact sw_ne_fac
      rw [if_pos h2, if_pos h2, if_neg h3]; simp [addAll]
    · rw [if_neg h2, if_neg h2]
      by_cases h3 : n.ntype = facType
      · rw [if_pos h3, if_pos h3]; simp [addAll]
      · rw [if_neg h3, if_neg h3]; simp [addAll]

theorem logNode_eq (l : Log) (n : NodeS) :
    logNode l n = { l with
      vm := l.vm + (if n.ntype = vmType then 1 else 0),
      p4 := l.p4 + (if n.ntype = swType then 1 else 0),
      nodes := l.nodes ++ (vmCap n).toList,
      cores := l.cores + ((vmCap n).map (·.core)).getD 0,
      facs := addAll l.facs (facName n),
      sites := addAll l.sites (siteOf n.site),
      comps := (n.comps.getD []).foldl bump l.comps } := by
  unfold logNode; rw [logComps_eq, logSite_eq, logKind_eq]

theorem logNode_vm (l : Log) (n : NodeS) : (logNode l n).vm = l.vm + if n.ntype = vmType then 1 else 0 := by rw [logNode_eq]
theorem logNode_p4 (l : Log) (n : NodeS) : (logNode l n).p4 = l.p4 + if n.ntype = swType then 1 else 0 := by rw [logNode_eq]
theorem logNode_nodes (l : Log) (n : NodeS) : (logNode l n).nodes = l.nodes ++ (vmCap n).toList := by rw [logNode_eq]
theorem logNode_cores (l : Log) (n : NodeS) : (logNode l n).cores = l.cores + ((vmCap n).map (·.core)).getD 0 := by rw [logNode_eq]
theorem logNode_comps (l : Log) (n : NodeS) : (logNode l n).comps = (n.comps.getD []).foldl bump l.comps := by rw [logNode_eq]
theorem logNode_svcs (l : Log) (n : NodeS) : (logNode l n).svcs = l.svcs := by rw [logNode_eq]
theorem logNode_sites (l : Log) (n : NodeS) : (logNode l n).sites = addAll l.sites (siteOf n.site) := by rw [logNode_eq]
theorem logNode_facs (l : Log) (n : NodeS) : (logNode l n).facs = addAll l.facs (facName n) := by rw [logNode_eq]

/-! folds -/

theorem foldNode_vm (ns : List NodeS) (l : Log) :
    (ns.foldl logNode l).vm = l.vm + ns.countP (fun n => decide (n.ntype = vmType)) := by
  induction ns generalizing l with
  | nil => simp
  | cons n ns ih =>
    simp only [List.foldl_cons, ih, logNode_vm, List.countP_cons]
    by_cases h : n.ntype = vmType <;> simp [h, Nat.add_assoc, Nat.add_comm]

theorem foldNode_p4 (ns : List NodeS) (l : Log) :
    (ns.foldl logNode l).p4 = l.p4 + ns.countP (fun n => decide (n.ntype = swType)) := by
  induction ns generalizing l with
  | nil => simp
  | cons n ns ih =>
    simp only [List.foldl_cons, ih, logNode_p4, List.countP_cons]
    by_cases h : n.ntype = swType <;> simp [h, Nat.add_assoc, Nat.add_comm]

theorem foldNode_nodes (ns : List NodeS) (l : Log) : (ns.foldl logNode l).nodes = l.nodes ++ ns.filterMap vmCap := by
  induction ns generalizing l with
  | nil => simp
  | cons n ns ih =>
    simp only [List.foldl_cons, ih, logNode_nodes, List.filterMap_cons]
    cases vmCap n <;> simp

def isum : List Int → Int
  | [] => 0
  | x :: xs => x + isum xs

theorem foldNode_cores (ns : List NodeS) (l : Log) :
    (ns.foldl logNode l).cores = l.cores + isum ((ns.filterMap vmCap).map (·.core)) := by
  induction ns generalizing l with
  | nil => simp [isum]
  | cons n ns ih =>
    simp only [List.foldl_cons, ih, logNode_cores, List.filterMap_cons]
    cases vmCap n <;> simp [isum, Int.add_assoc]

theorem foldNode_comps (ns : List NodeS) (l : Log) (t : String) :
    cnt (ns.foldl logNode l).comps t = cnt l.comps t + (ns.flatMap fun n => n.comps.getD []).count t := by
  induction ns generalizing l with
  | nil => simp
  | cons n ns ih =>
    simp only [List.foldl_cons, ih, logNode_comps, cnt_bumpAll, List.flatMap_cons, List.count_append, Nat.add_assoc]

theorem foldNode_svcs (ns : List NodeS) (l : Log) : (ns.foldl logNode l).svcs = l.svcs := by
  induction ns generalizing l with
  | nil => rfl
  | cons n ns ih => simp only [List.foldl_cons, ih, logNode_svcs]

theorem foldNode_sites (ns : List NodeS) (l : Log) :
    (ns.foldl logNode l).sites = addAll l.sites (ns.flatMap fun n => siteOf n.site) := by
  induction ns generalizing l with
  | nil => simp [addAll]
  | cons n ns ih => simp only [List.foldl_cons, ih, logNode_sites, List.flatMap_cons, addAll_append]

theorem foldNode_facs (ns : List NodeS) (l : Log) :
    (ns.foldl logNode l).facs = addAll l.facs (ns.flatMap facName) := by
  induction ns generalizing l with
  | nil => simp [addAll]
  | cons n ns ih => simp only [List.foldl_cons, ih, logNode_facs, List.flatMap_cons, addAll_append]

theorem foldSvc (ss : List SvcS) (l : Log) :
    let r := ss.foldl logSvc l
    r.vm = l.vm ∧ r.p4 = l.p4 ∧ r.cores = l.cores ∧ r.nodes = l.nodes ∧ r.comps = l.comps ∧ r.facs = l.facs ∧
    r.svcs = l.svcs ++ ss.map (fun s => (s.stype, s.bw.getD 0)) ∧
    r.sites = addAll l.sites (ss.flatMap fun s => siteOf s.site) := by
  induction ss generalizing l with
  | nil => simp [addAll]
  | cons s ss ih =>
    have h := ih (logSvc l s)
    simp only [List.foldl_cons]
    have e : logSvc l s = { l with svcs := l.svcs ++ [(s.stype, s.bw.getD 0)], sites := addAll l.sites (siteOf s.site) } := by
      unfold logSvc; rw [logSite_eq]
    rw [e] at h ⊢
    obtain ⟨h1, h2, h3, h4, h5, h6, h7, h8⟩ := h
    refine ⟨h1, h2, h3, h4, h5, h6, ?_, ?_⟩
    · rw [h7]; simp
    · rw [h8]; simp [List.flatMap_cons, addAll_append]

theorem foldFac (fs : List String) (l : Log) :
    let r := fs.foldl logFac l
    r.vm = l.vm ∧ r.p4 = l.p4 ∧ r.cores = l.cores ∧ r.nodes = l.nodes ∧ r.comps = l.comps ∧ r.svcs = l.svcs ∧
    r.sites = l.sites ∧ r.facs = addAll l.facs fs := by
  induction fs generalizing l with
  | nil => simp [addAll]
  | cons f fs ih =>
    have h := ih (logFac l f)
    simp only [List.foldl_cons]
    obtain ⟨h1, h2, h3, h4, h5, h6, h7, h8⟩ := h
    exact ⟨h1, h2, h3, h4, h5, h6, h7, by rw [h8]; rfl⟩

theorem isum_perm {l1 l2 : List Int} (h : l1.Perm l2) : isum l1 = isum l2 := by
  induction h with
  | nil => rfl
  | cons x _ ih => simp [isum, ih]
  | swap x y l => simp only [isum]; omega
  | trans _ _ ih1 ih2 => exact ih1.trans ih2

end FimVerif.Authz
