import FimVerif.Proofs.Lemmas.C14Algebra
import FimVerif.Proofs.Lemmas.C14Unmerge
/-! # C14 lemmas: the iteration order of the common-node set; invariants of models built by merges -/
namespace FimVerif.Cbm

theorem mergeCore_order (c t : Graph) (aid : String) (o o' : List String) (h : ∀ x, x ∈ o ↔ x ∈ o') :
    mergeCore c t aid o true = mergeCore c t aid o' true := by
  have hc : ∀ x, o.contains x = o'.contains x := by
    intro x
    rw [Bool.eq_iff_iff]
    simp [h x]
  have hm : c.nodes.map (mergeAt t aid o) = c.nodes.map (mergeAt t aid o') := by
    apply List.map_congr_left
    intro n _
    unfold mergeAt
    rw [hc]
  simp only [mergeCore, hm, Bool.true_or, Bool.and_true]

/-- A successful `merge_adm` does not depend on the order in which Python iterates the set of common node ids. -/
theorem mergeOrdN_order_irrelevant (c : Graph) (a : Adm) (o : List String) (h : ∀ x, x ∈ o ↔ x ∈ common c a.g)
    (hok : (mergeOrdN c a o).1 = none) : mergeOrdN c a o = mergeN c a := by
  unfold mergeN
  unfold mergeOrdN at hok ⊢
  split
  · rfl
  · rename_i hae
    rw [if_neg hae] at hok
    split
    · rfl
    · rename_i tn hst
      simp only [hst] at hok
      split
      · rfl
      · rename_i hne
        rw [if_neg hne] at hok
        have hnone : List.findIdx? (conflictAt c ⟨tn, a.g.edges⟩) o = none := by
          cases hfi : List.findIdx? (conflictAt c ⟨tn, a.g.edges⟩) o with
          | none => rfl
          | some k => rw [hfi] at hok; cases hok
        have hnone' : List.findIdx? (conflictAt c ⟨tn, a.g.edges⟩) (common c a.g) = none := by
          rw [List.findIdx?_eq_none_iff] at hnone ⊢
          intro x hx
          exact hnone x ((h x).mpr hx)
        simp only [hnone, hnone']
        rw [mergeCore_order c ⟨tn, a.g.edges⟩ a.id o (common c a.g) h]

/-- the NetworkX-store wrapper: an error-free `mergeOrd` is an error-free `mergeOrdN` -/
theorem mergeOrdN_of_mergeOrd {c : Graph} {a : Adm} {o : List String} (hok : (mergeOrd c a o).1 = none) :
    mergeOrd c a o = mergeOrdN c a o := by
  unfold mergeOrd at hok ⊢
  simp only at hok ⊢
  split
  · rename_i hc; rw [if_pos hc] at hok; cases hok
  · rfl

theorem mergeOrd_order_irrelevant (c : Graph) (a : Adm) (o : List String) (h : ∀ x, x ∈ o ↔ x ∈ common c a.g)
    (hok : (mergeOrd c a o).1 = none) : mergeOrd c a o = mergeN c a := by
  have h1 := mergeOrdN_of_mergeOrd hok
  rw [h1] at hok ⊢
  exact mergeOrdN_order_irrelevant c a o h hok

/-- What running on the shared NetworkX store adds to `mergeN`: nothing, or - when every element of the model was
already in the combined model - an exception from the final GraphID rewrite *after* the merge is complete. -/
theorem merge_nx (c : Graph) (a : Adm) :
    merge c a = mergeN c a ∨
    ((mergeN c a).1 = none ∧ vanishes c a = true ∧ merge c a = (some .query, (mergeN c a).2)) := by
  unfold merge mergeOrd mergeN
  simp only
  split
  · rename_i hc
    simp only [Bool.and_eq_true, Option.isNone_iff_eq_none] at hc
    exact Or.inr ⟨hc.1, hc.2, rfl⟩
  · exact Or.inl rfl

theorem mergeN_of_merge {c : Graph} {a : Adm} {g : Graph} (h : merge c a = (none, g)) : mergeN c a = (none, g) := by
  rcases merge_nx c a with h' | ⟨_, _, h'⟩
  · rw [← h']; exact h
  · rw [h'] at h; cases h

theorem merge_state (c : Graph) (a : Adm) : (merge c a).2 = (mergeN c a).2 := by
  rcases merge_nx c a with h' | ⟨_, _, h'⟩ <;> rw [h']

/-! ### invariants of combined models built by merges from the empty model -/

theorem find_of_mem_nodup : ∀ (l : List Node), (l.map (·.id)).Nodup → ∀ n ∈ l,
    l.find? (fun m => m.id == n.id) = some n
  | [], _, _, h => by cases h
  | m :: l, hn, n, h => by
    simp only [List.map_cons, List.nodup_cons] at hn
    cases h with
    | head => simp
    | tail _ h' =>
      have hne : m.id ≠ n.id := by
        intro e
        exact hn.1 (e ▸ List.mem_map.mpr ⟨n, h', rfl⟩)
      simp [hne, find_of_mem_nodup l hn.2 n h']

theorem node?_of_mem {g : Graph} (hn : g.ids.Nodup) {n : Node} (h : n ∈ g.nodes) : g.node? n.id = some n :=
  find_of_mem_nodup g.nodes hn n h

theorem mergeAll_Proved {as : List Adm} {g : Graph} (hw : ∀ a ∈ as, a.WF) (h : mergeAll Graph.empty as = some g) :
    g.Proved := by
  intro n hn
  have hwf := mergeAll_WF Graph.empty_WF hw h
  have ho := mergeAll_obs Graph.empty_WF hw h n.id
  have hnode := node?_of_mem hwf.nodup hn
  have hprov : g.provOf n.id = n.prov := by simp [Graph.provOf, hnode]
  have hhas : g.has n.id = true := has_iff.mpr (List.mem_map.mpr ⟨n, hn, rfl⟩)
  rw [ho.2.1] at hhas
  simp only [Graph.has, Graph.ids, Graph.empty, List.map_nil, List.contains_nil, Bool.false_or, List.any_eq_true] at hhas
  obtain ⟨a, ha, hai⟩ := hhas
  intro hnil
  rw [← hprov, ho.1] at hnil
  simp only [Graph.provOf, Graph.node?, Graph.empty, List.find?_nil, Option.map_none, Option.getD_none, List.nil_append] at hnil
  have : a.id ∈ contributors as n.id := by
    unfold contributors
    exact List.mem_map.mpr ⟨a, List.mem_filter.mpr ⟨ha, hai⟩, rfl⟩
  rw [hnil] at this
  cases this

theorem mergeAll_Fresh {as : List Adm} {g : Graph} (hw : ∀ a ∈ as, a.WF) (h : mergeAll Graph.empty as = some g)
    (gid : String) (hfresh : ∀ a ∈ as, a.id ≠ gid) : g.Fresh gid := by
  intro n hn
  have hwf := mergeAll_WF Graph.empty_WF hw h
  have ho := mergeAll_obs Graph.empty_WF hw h n.id
  have hnode := node?_of_mem hwf.nodup hn
  refine ⟨?_, ?_, ?_⟩
  · intro hin
    have hprov : g.provOf n.id = n.prov := by simp [Graph.provOf, hnode]
    rw [← hprov, ho.1] at hin
    simp only [Graph.provOf, Graph.node?, Graph.empty, List.find?_nil, Option.map_none, Option.getD_none, List.nil_append] at hin
    unfold contributors at hin
    obtain ⟨a, ha, hid⟩ := List.mem_map.mp hin
    exact hfresh a (List.mem_filter.mp ha).1 hid
  · have hl : g.ldelOf n.id = n.ldel := by simp [Graph.ldelOf, hnode]
    cases hd : n.ldel with
    | absent => rfl
    | emptied => rfl
    | dict l =>
      rw [hd] at hl
      rcases ho.2.2.1 l hl with h' | ⟨a, ha, k, d, _, e2⟩
      · simp [Graph.ldelOf, Graph.node?, Graph.empty] at h'
      · subst e2
        have := hfresh a ha
        simp [Deleg.mentions, this]
  · have hl : g.cdelOf n.id = n.cdel := by simp [Graph.cdelOf, hnode]
    cases hd : n.cdel with
    | absent => rfl
    | emptied => rfl
    | dict l =>
      rw [hd] at hl
      rcases ho.2.2.2.1 l hl with h' | ⟨a, ha, k, d, _, e2⟩
      · simp [Graph.cdelOf, Graph.node?, Graph.empty] at h'
      · subst e2
        have := hfresh a ha
        simp [Deleg.mentions, this]

end FimVerif.Cbm

namespace FimVerif.Cbm

/-! ### unmerge never raises on a combined model built by merges -/

def Deleg.atMostOne : Deleg → Bool
  | .dict [_] => true
  | .dict _ => false
  | _ => true

theorem Deleg.unmerge_atMostOne {d : Deleg} (h : d.atMostOne = true) (gid : String) : ∃ r, d.unmerge gid = .ok r := by
  cases d with
  | absent => exact ⟨_, rfl⟩
  | emptied => exact ⟨_, rfl⟩
  | dict l =>
    match l, h with
    | [(k, v)], _ =>
      by_cases hk : k = gid
      · exact ⟨.emptied, by simp [Deleg.unmerge, hk]⟩
      · exact ⟨.dict [(k, v)], by simp [Deleg.unmerge, hk]⟩

theorem unmergeNode_ok {n : Node} (hl : n.ldel.atMostOne = true) (hc : n.cdel.atMostOne = true) (gid : String) :
    ∃ r, unmergeNode gid n = .ok r := by
  obtain ⟨rl, hl'⟩ := Deleg.unmerge_atMostOne hl gid
  obtain ⟨rc, hc'⟩ := Deleg.unmerge_atMostOne hc gid
  exact ⟨({ n with prov := (provUnmerge gid n.prov).1, cdel := rc, ldel := rl }, (provUnmerge gid n.prov).2),
    by simp [unmergeNode, hl', hc']⟩

theorem unmergeNodes_ok {gid : String} : ∀ (l : List Node), (∀ n ∈ l, ∃ r, unmergeNode gid n = .ok r) →
    ∃ rs, unmergeNodes gid l = .ok rs
  | [], _ => ⟨[], rfl⟩
  | n :: l, h => by
    obtain ⟨r, hr⟩ := h n (by simp)
    obtain ⟨rs, hrs⟩ := unmergeNodes_ok l (fun m hm => h m (by simp [hm]))
    exact ⟨r :: rs, by simp [unmergeNodes, hr, hrs]⟩

theorem mergeAll_atMostOne {as : List Adm} {g : Graph} (hw : ∀ a ∈ as, a.WF) (h : mergeAll Graph.empty as = some g) :
    ∀ n ∈ g.nodes, n.ldel.atMostOne = true ∧ n.cdel.atMostOne = true := by
  intro n hn
  have hwf := mergeAll_WF Graph.empty_WF hw h
  have ho := mergeAll_obs Graph.empty_WF hw h n.id
  have hnode := node?_of_mem hwf.nodup hn
  constructor
  · have hl : g.ldelOf n.id = n.ldel := by simp [Graph.ldelOf, hnode]
    cases hd : n.ldel with
    | absent => rfl
    | emptied => rfl
    | dict l =>
      rw [hd] at hl
      rcases ho.2.2.1 l hl with h' | ⟨a, _, k, d, _, e2⟩
      · simp [Graph.ldelOf, Graph.node?, Graph.empty] at h'
      · subst e2; rfl
  · have hl : g.cdelOf n.id = n.cdel := by simp [Graph.cdelOf, hnode]
    cases hd : n.cdel with
    | absent => rfl
    | emptied => rfl
    | dict l =>
      rw [hd] at hl
      rcases ho.2.2.2.1 l hl with h' | ⟨a, _, k, d, _, e2⟩
      · simp [Graph.cdelOf, Graph.node?, Graph.empty] at h'
      · subst e2; rfl

theorem unmerge_ok_reachable {as : List Adm} {g : Graph} (hw : ∀ a ∈ as, a.WF) (h : mergeAll Graph.empty as = some g)
    (hne : g.nodes ≠ []) (gid : String) : (unmerge g gid).1 = none := by
  obtain ⟨rs, hrs⟩ := unmergeNodes_ok (gid := gid) g.nodes (fun n hn =>
    unmergeNode_ok (mergeAll_atMostOne hw h n hn).1 (mergeAll_atMostOne hw h n hn).2 gid)
  unfold unmerge
  have : g.nodes.isEmpty = false := by cases hg : g.nodes with
    | nil => exact absurd hg hne
    | cons _ _ => rfl
  simp [this, hrs]

end FimVerif.Cbm
