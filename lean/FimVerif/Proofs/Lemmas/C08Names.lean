import FimVerif.Model.RemoveNames
import FimVerif.Proofs.Lemmas.C08Ops
/-! Name lookups: under name uniqueness (decidable `NamesOK`) every by-name call is the by-id call on the element that
carries the name, on the pre-state and on every `g.minus A`. -/
namespace FimVerif.Remove

theorem find?_unique {l : List Nat} {q : Nat → Bool} {n : Nat} (hex : n ∈ l) (hq : q n = true)
    (huniq : ∀ y ∈ l, q y = true → y = n) : l.find? q = some n := by
  cases h : l.find? q with
  | none => rw [List.find?_eq_none] at h; exact absurd hq (h n hex)
  | some y =>
    have h1 := List.mem_of_find?_eq_some h
    have h2 := List.find?_some h
    rw [huniq y h1 h2]

theorem dictGet_unique {d : Dir} {xs : List Nat} {n : Nat} {name : Option Nat} (hex : n ∈ xs) (hq : d.nameOf n = name)
    (huniq : ∀ y ∈ xs, d.nameOf y = name → y = n) : dictGet d xs name = some n := by
  unfold dictGet
  apply find?_unique (by simpa using hex) (by simpa using hq)
  intro y hy hqy
  exact huniq y (by simpa using hy) (by simpa using hqy)

theorem eq_of_nodup_map' {α : Type} [DecidableEq α] (f : Nat → α) : ∀ {l : List Nat}, (l.map f).Nodup →
    ∀ {a b : Nat}, a ∈ l → b ∈ l → f a = f b → a = b
  | [], _, _, _, ha, _, _ => by cases ha
  | x :: l, hnd, a, b, ha, hb, hf => by
    simp only [List.map_cons, List.nodup_cons] at hnd
    rcases List.mem_cons.mp ha with ha' | ha' <;> rcases List.mem_cons.mp hb with hb' | hb'
    · rw [ha', hb']
    · subst ha'; exact absurd (by rw [hf]; exact List.mem_map_of_mem hb') hnd.1
    · subst hb'; exact absurd (by rw [← hf]; exact List.mem_map_of_mem ha') hnd.1
    · exact eq_of_nodup_map' f hnd.2 ha' hb' hf

theorem filterMap_id_of {l : List Nat} {f : Nat → Option Nat} (h : ∀ x ∈ l, f x = some x) : l.filterMap f = l := by
  induction l with
  | nil => rfl
  | cons a l ih =>
    simp only [List.filterMap_cons, h a (by simp)]
    rw [ih (fun x hx => h x (List.mem_cons_of_mem _ hx))]

theorem firstsBy_eq_self (d : Dir) : ∀ (xs : List Nat) (seen : List (Option Nat)), (xs.map d.nameOf).Nodup →
    (∀ x ∈ xs, d.nameOf x ∉ seen) → firstsBy d xs seen = xs
  | [], _, _, _ => rfl
  | x :: rest, seen, hnd, hseen => by
    simp only [List.map_cons, List.nodup_cons] at hnd
    have hx : seen.contains (d.nameOf x) = false := by
      simpa [List.contains_eq_mem] using hseen x (by simp)
    simp only [firstsBy, hx, Bool.false_eq_true, ite_false]
    rw [firstsBy_eq_self d rest _ hnd.2]
    intro y hy
    simp only [List.mem_cons, not_or]
    refine ⟨fun h => hnd.1 (by rw [← h]; exact List.mem_map_of_mem hy), hseen y (List.mem_cons_of_mem _ hy)⟩

/-- a name-keyed dictionary over elements with distinct names loses nothing -/
theorem dictVals_eq_self (d : Dir) (xs : List Nat) (hnd : (xs.map d.nameOf).Nodup) : dictVals d xs = xs := by
  unfold dictVals
  rw [firstsBy_eq_self d xs [] hnd (fun _ _ h => by cases h)]
  have : ∀ x ∈ xs, dictGet d xs (d.nameOf x) = some x := by
    intro x hx
    apply dictGet_unique hx rfl
    intro y hy hname
    exact eq_of_nodup_map' d.nameOf hnd hy hx hname
  exact filterMap_id_of this

/-! ### lookups -/

theorem find_of_mem {g : G} (hid : (g.nodes.map (·.id)).Nodup) {e : Elem} (he : e ∈ g.nodes) : g.find e.id = some e := by
  unfold G.find
  cases h : g.nodes.find? (fun n => n.id == e.id) with
  | none => rw [List.find?_eq_none] at h; exact absurd (by simp) (h e he)
  | some e' =>
    have h1 := List.mem_of_find?_eq_some h
    have h2 := List.find?_some h
    congr 1
    -- two elements with the same id in a list with distinct ids
    have : ∀ (l : List Elem), (l.map (·.id)).Nodup → ∀ a ∈ l, ∀ b ∈ l, a.id = b.id → a = b := by
      intro l
      induction l with
      | nil => intro _ a ha; cases ha
      | cons x l ih =>
        intro hnd a ha b hb hab
        simp only [List.map_cons, List.nodup_cons] at hnd
        rcases List.mem_cons.mp ha with ha' | ha' <;> rcases List.mem_cons.mp hb with hb' | hb'
        · rw [ha', hb']
        · subst ha'; exact absurd (by rw [hab]; exact List.mem_map_of_mem (f := (·.id)) hb') hnd.1
        · subst hb'; exact absurd (by rw [← hab]; exact List.mem_map_of_mem (f := (·.id)) ha') hnd.1
        · exact ih hnd.2 a ha' b hb' hab
    exact this g.nodes hid e' h1 e he (by simpa using h2)

/-- what a successful `find_node_by_name` returns: the one element of the class that carries the name -/
theorem findByName_ok {g : G} {d : Dir} {c : Cls} {name n : Nat} (h : findByName g d c name = .ok n) :
    ∃ e, g.nodes.filter (fun e => e.cls == c && d.nameOf e.id == some name) = [e] ∧ e.id = n := by
  unfold findByName at h
  split at h
  · rename_i e heq; exact ⟨e, heq, by simpa using h⟩
  · cases h

theorem findByName_spec {g : G} {d : Dir} {c : Cls} {name n : Nat} (h : findByName g d c name = .ok n) :
    ∃ e ∈ g.nodes, e.id = n ∧ e.cls = c ∧ d.nameOf n = some name ∧
      ∀ e' ∈ g.nodes, e'.cls = c → d.nameOf e'.id = some name → e' = e := by
  obtain ⟨e, heq, hid⟩ := findByName_ok h
  have he : e ∈ g.nodes.filter (fun e => e.cls == c && d.nameOf e.id == some name) := by rw [heq]; simp
  simp only [List.mem_filter, Bool.and_eq_true, beq_iff_eq] at he
  refine ⟨e, he.1, hid, he.2.1, by rw [← hid]; exact he.2.2, fun e' he' hc' hn' => ?_⟩
  have : e' ∈ g.nodes.filter (fun e => e.cls == c && d.nameOf e.id == some name) := by
    simp [List.mem_filter, he', hc', hn']
  rw [heq] at this; simpa using this

/-- the same lookup after any deletion: the element if it survives, else the lookup fails -/
theorem findByName_minus {g : G} {d : Dir} {c : Cls} {name n : Nat} (h : findByName g d c name = .ok n) (D : List Nat) :
    findByName (g.minus D) d c name = if D.contains n then .error .query else .ok n := by
  obtain ⟨e, heq, hid⟩ := findByName_ok h
  unfold findByName
  have : (g.minus D).nodes.filter (fun e => e.cls == c && d.nameOf e.id == some name) = [e].filter (fun n => !D.contains n.id) := by
    simp only [G.minus, List.filter_filter]
    rw [← heq, List.filter_filter]
    apply List.filter_congr; intro x _; exact Bool.and_comm _ _
  rw [this, ← hid]
  by_cases hD : e.id ∈ D
  · simp [List.contains_eq_mem, hD]
  · simp [List.contains_eq_mem, hD]

/-- decidable name uniqueness: distinct ids, distinct NetworkNode names, distinct component names within each node,
every element named -/
def NamesOK (g : G) (d : Dir) : Bool :=
  decide ((g.nodes.map (·.id)).Nodup) &&
  decide (((g.nodes.filter (fun e => e.cls == .node)).map (fun e => d.nameOf e.id)).Nodup) &&
  g.nodes.all (fun e => e.cls != .node || decide (((g.nbrs e.id .has .comp).map d.nameOf).Nodup)) &&
  g.nodes.all (fun e => (d.nameOf e.id).isSome)

theorem cls_kind_of_mem {g : G} (hid : (g.nodes.map (·.id)).Nodup) {e : Elem} (he : e ∈ g.nodes) :
    g.cls? e.id = some e.cls ∧ g.kind? e.id = some e.kind := by
  simp [G.cls?, G.kind?, find_of_mem hid he]

/-- **`Topology.remove_node(name)` is `remove_node` of the node carrying the name** -/
theorem removeNodeByName_eq (h : G) (d : Dir) (name n : Nat) (hid : (h.nodes.map (·.id)).Nodup)
    (hfind : findByName h d .node name = .ok n) (hk : h.kind? n ≠ some kFacility)
    (hcomp : ((h.nbrs n .has .comp).map d.nameOf).Nodup) :
    removeNodeByName h d name = removeNodeApi h n := by
  obtain ⟨e, he, hen, hec, hname, huniq⟩ := findByName_spec hfind
  obtain ⟨hcls, hkind⟩ := cls_kind_of_mem hid he
  rw [hen] at hcls hkind
  have hek : e.kind ≠ kFacility := by rw [hkind] at hk; exact fun h' => hk (by rw [h'])
  have hget : dictGet d (nonFacNodes h) (some name) = some n := by
    apply dictGet_unique _ hname
    · intro y hy hny
      simp only [nonFacNodes, List.mem_map, List.mem_filter, Bool.and_eq_true, beq_iff_eq] at hy
      obtain ⟨e', ⟨he', hc', _⟩, rfl⟩ := hy
      rw [huniq e' he' hc' hny, hen]
    · simp only [nonFacNodes, List.mem_map, List.mem_filter, Bool.and_eq_true, beq_iff_eq, bne_iff_ne, ne_eq]
      exact ⟨e, ⟨he, hec, hek⟩, hen⟩
  have hifs : ifaceListNodeD h d n = ifaceListNode h n := by
    simp only [ifaceListNodeD, ifaceListNode]
  have hguard : (h.cls? n == some .node && h.kind? n != some kFacility) = true := by
    rw [hcls, hec, hkind]; simp [hek]
  simp only [removeNodeByName, hget, hifs, removeNodeApi, hguard, ite_true, bind, Except.bind]
  cases hdd : disconnectDeep h (ifaceListNode h n) with
  | error e => rfl
  | ok g1 =>
    obtain ⟨D, rfl⟩ := disconnectDeep_shrinks _ _ _ hdd
    simp only [findByName_minus hfind D]
    by_cases hD : n ∈ D
    · simp [List.contains_eq_mem, hD, removeNodeG, cls_minus]
    · simp [List.contains_eq_mem, hD]


/-- **`Topology.remove_facility(name=)`** -/
theorem removeFacilityByName_eq (h : G) (d : Dir) (name n : Nat) (hid : (h.nodes.map (·.id)).Nodup)
    (hfind : findByName h d .node name = .ok n) (hk : h.kind? n = some kFacility)
    (hcomp : ((h.nbrs n .has .comp).map d.nameOf).Nodup) :
    removeFacilityByName h d name = removeFacilityApi h n := by
  obtain ⟨e, he, hen, hec, hname, huniq⟩ := findByName_spec hfind
  obtain ⟨hcls, hkind⟩ := cls_kind_of_mem hid he
  rw [hen] at hcls hkind
  have hek : e.kind = kFacility := by rw [hkind] at hk; exact Option.some.inj hk
  have hget : dictGet d (facNodes h) (some name) = some n := by
    apply dictGet_unique _ hname
    · intro y hy hny
      simp only [facNodes, List.mem_map, List.mem_filter, Bool.and_eq_true, beq_iff_eq] at hy
      obtain ⟨e', ⟨he', hc', _⟩, rfl⟩ := hy
      rw [huniq e' he' hc' hny, hen]
    · simp only [facNodes, List.mem_map, List.mem_filter, Bool.and_eq_true, beq_iff_eq]
      exact ⟨e, ⟨he, hec, hek⟩, hen⟩
  have hifs : ifaceListNodeD h d n = ifaceListNode h n := by
    simp only [ifaceListNodeD, ifaceListNode]
  have hguard : (h.cls? n == some .node && h.kind? n == some kFacility) = true := by
    rw [hcls, hec, hk]; simp
  simp only [removeFacilityApi, hguard, ite_true]
  simp only [removeFacilityByName, hfind, hk, bne_self_eq_false, Bool.false_eq_true, ite_false, hget, hifs,
    bind, Except.bind]
  cases hdd : disconnectDeep h (ifaceListNode h n) with
  | error e => rfl
  | ok g1 =>
    obtain ⟨D, rfl⟩ := disconnectDeep_shrinks _ _ _ hdd
    simp only [findByName_minus hfind D]
    by_cases hD : n ∈ D
    · simp [List.contains_eq_mem, hD, removeNodeG, cls_minus]
    · simp [List.contains_eq_mem, hD]

/-- **`Topology.remove_switch(name=)`** -/
theorem removeSwitchByName_eq (h : G) (d : Dir) (name n : Nat) (hid : (h.nodes.map (·.id)).Nodup)
    (hfind : findByName h d .node name = .ok n) (hk : h.kind? n = some kSwitch)
    (hcomp : ((h.nbrs n .has .comp).map d.nameOf).Nodup) :
    removeSwitchByName h d name = removeSwitchApi h n := by
  obtain ⟨e, he, hen, hec, _, _⟩ := findByName_spec hfind
  obtain ⟨hcls, _⟩ := cls_kind_of_mem hid he
  rw [hen] at hcls
  have hguard : (h.cls? n == some .node && h.kind? n == some kSwitch) = true := by rw [hcls, hec, hk]; simp
  simp only [removeSwitchApi, hguard, ite_true]
  simp only [removeSwitchByName, hfind, hk, bne_self_eq_false, Bool.false_eq_true, ite_false, bind, Except.bind]
  exact removeNodeByName_eq h d name n hid hfind (by rw [hk]; decide) hcomp

/-- **`Topology.remove_link(name)`**, **`Topology.remove_network_service(name)`** -/
theorem removeLinkByName_eq (h : G) (d : Dir) (name l : Nat) (hfind : findByName h d .link name = .ok l) :
    removeLinkByName h d name = removeLinkApi h l := by
  simp [removeLinkByName, hfind, bind, Except.bind]

theorem removeNsByName_eq (h : G) (d : Dir) (name s : Nat) (hfind : findByName h d .ns name = .ok s) :
    removeNsByName h d name = removeNsApi h s := by
  simp [removeNsByName, hfind, bind, Except.bind]

theorem findChild_unique {h : G} {d : Dir} {p x : Nat} {r : Rel} {c : Cls} {name : Nat} (hx : x ∈ h.nbrs p r c)
    (hn : d.nameOf x = some name) (huniq : ∀ y ∈ h.nbrs p r c, d.nameOf y = some name → y = x) :
    findChild h d p r c name = .ok x := by
  unfold findChild
  rw [find?_unique hx (by simpa using hn) (fun y hy hq => huniq y hy (by simpa using hq))]

/-- **`Node.remove_component(name)`** through the node handle -/
theorem nodeRemoveComponent_eq (h : G) (d : Dir) (n c name : Nat) (hn : h.cls? n = some .node)
    (hc : c ∈ h.nbrs n .has .comp) (hname : d.nameOf c = some name)
    (hcomp : ((h.nbrs n .has .comp).map d.nameOf).Nodup) :
    nodeRemoveComponent h d n name = removeComponentApi h c := by
  have huniq : ∀ y ∈ h.nbrs n .has .comp, d.nameOf y = some name → y = c := fun y hy hny =>
    eq_of_nodup_map' d.nameOf hcomp hy hc (hny.trans hname.symm)
  have hcc := mem_nbrs_cls _ _ _ _ _ hc
  simp only [nodeRemoveComponent, hn, bne_self_eq_false, Bool.false_eq_true, ite_false, findChild_unique hc hname huniq,
    bind, Except.bind, removeComponentApi, hcc, beq_self_eq_true, ite_true]

/-- **`Node.remove_network_service(name)`** through the node (or component) handle -/
theorem nodeRemoveNs_eq (h : G) (d : Dir) (n s name : Nat) (hn : h.cls? n = some .node ∨ h.cls? n = some .comp)
    (hs : s ∈ h.nbrs n .has .ns) (hname : d.nameOf s = some name)
    (huniq : ∀ y ∈ h.nbrs n .has .ns, d.nameOf y = some name → y = s) :
    nodeRemoveNs h d n name = removeNsApi h s := by
  have hsc := mem_nbrs_cls _ _ _ _ _ hs
  have hg : (h.cls? n != some .node && h.cls? n != some .comp) = false := by rcases hn with h' | h' <;> simp [h']
  simp only [nodeRemoveNs, hg, Bool.false_eq_true, ite_false, findChild_unique hs hname huniq, bind, Except.bind,
    removeNsApi, hsc, beq_self_eq_true, ite_true]

/-- **`Interface.remove_child_interface(name=)`** -/
theorem removeChildByName_eq (h : G) (d : Dir) (hl : List IfH) (p c name : Nat) (hc : c ∈ h.nbrs p .connects .cp)
    (hname : d.nameOf c = some name) (huniq : ∀ y ∈ h.nbrs p .connects .cp, d.nameOf y = some name → y = c) :
    removeChildByName h d hl p name = removeChild h hl p c := by
  simp only [removeChildByName, removeChild, findChild_unique hc hname huniq, bind, Except.bind]

/-- a lookup that fails changes nothing: e.g. `remove_node` with the name of a service, a link, or nothing -/
theorem removeNodeByName_absent (h : G) (d : Dir) (name : Nat)
    (hno : ∀ e ∈ h.nodes, e.cls = .node → e.kind ≠ kFacility → d.nameOf e.id ≠ some name) :
    removeNodeByName h d name = .error .topology := by
  have : dictGet d (nonFacNodes h) (some name) = none := by
    unfold dictGet
    rw [List.find?_eq_none]
    intro y hy
    simp only [List.mem_reverse, nonFacNodes, List.mem_map, List.mem_filter, Bool.and_eq_true, beq_iff_eq, bne_iff_ne, ne_eq] at hy
    obtain ⟨e, ⟨he, hc, hk⟩, rfl⟩ := hy
    simpa using hno e he hc hk
  simp [removeNodeByName, this]


/-- **`NetworkService.remove_interface`** of a port `i` of service `s` (substrate topologies): the port with its
sub-interfaces and the Links left with at most one end go; the handle lists afterwards what a fresh lookup lists -/
theorem removeInterface_wf (g : G) (hW : WF g = true) (h : List IfH) (s i : Nat) (hs : g.cls? s = some .ns)
    (hi : i ∈ g.nbrs s .connects .cp) (hh : ∀ y, y ∈ hIds h ↔ y ∈ freshIfs g s) :
    ∃ D, removeInterface g h i = .ok (g.minus D, hDrop h i) ∧
      (∀ y, y ∈ D ↔ Below g i y ∨ (g.cls? y = some .link ∧ 2 ≤ (g.nbrs y .connects .cp).length ∧
        (∃ e ∈ g.nbrs y .connects .cp, Below g i e) ∧
        ∀ e1 ∈ g.nbrs y .connects .cp, ∀ e2 ∈ g.nbrs y .connects .cp, ¬ Below g i e1 → ¬ Below g i e2 → e1 = e2)) ∧
      ∀ y, y ∈ hIds (hDrop h i) ↔ y ∈ freshIfs (g.minus D) s := by
  have hI := wf_cp hW
  have hic := mem_nbrs_cls _ _ _ _ _ hi
  have his := port_not_sub hs hi
  obtain ⟨A, hr, _, hmem, hInv⟩ := removeCpTop_below g hW [] (invC_nil g) i hic his (by simp)
  rw [minus_nil] at hr
  have hmem' : ∀ y, g.cls? y ≠ some .link → (y ∈ A ↔ Below g i y) := fun y hy => by rw [hmem y hy]; simp
  refine ⟨A, by simp [removeInterface, hr, Except.map], ?_, ?_⟩
  · exact mem_iff_closure g hW (Below g i) A hInv.1 (fun e he => below_cls hic (by decide) he) hmem'
  · rw [hIds_hDrop]
    apply fresh_after_minus g s i A (hIds h) ?_ ?_ hh
    · have : s ∉ A := fun h' => by
        rcases (below_cp_top hI hic his s).mp ((hmem' s (by rw [hs]; intro h; cases h)).mp h') with rfl | h''
        · rw [hs] at hic; cases hic
        · have := mem_nbrs_cls _ _ _ _ _ h''; rw [hs] at this; cases this
      simpa [List.contains_eq_mem] using this
    · intro y hy
      have hyc := mem_nbrs_cls _ _ _ _ _ hy
      rw [hmem' y (by rw [hyc]; intro h; cases h), below_cp_top hI hic his y]
      constructor
      · rintro (h' | h')
        · exact h'
        · -- a sub-interface of `i` is not attached to a service
          have := (child_nbrs hI hic his h').2.1
          rw [port_not_sub hs hy] at this; cases this
      · exact Or.inl

theorem removeInterfaceByName_eq (g : G) (d : Dir) (h : List IfH) (s i name : Nat) (hs : g.cls? s = some .ns)
    (hi : i ∈ g.nbrs s .connects .cp) (hname : d.nameOf i = some name)
    (huniq : ∀ y ∈ g.nbrs s .connects .cp, d.nameOf y = some name → y = i) :
    removeInterfaceByName g d h s name = removeInterface g h i := by
  simp [removeInterfaceByName, hs, findChild_unique hi hname huniq, bind, Except.bind]

/-! ### the collection phase of `prune` -/

theorem foldl_inv {α β : Type} (P : β → Prop) (f : β → α → β) : ∀ (xs : List α) (b : β), P b →
    (∀ b x, x ∈ xs → P b → P (f b x)) → P (xs.foldl f b)
  | [], b, hb, _ => hb
  | x :: xs, b, hb, hf => by
    simp only [List.foldl_cons]
    exact foldl_inv P f xs (f b x) (hf b x (by simp) hb) (fun b' x' hx' hb' => hf b' x' (List.mem_cons_of_mem _ hx') hb')

theorem mem_addSet (s : List Nat) (x y : Nat) : y ∈ addSet s x ↔ y ∈ s ∨ y = x := by
  unfold addSet
  split
  · rename_i h
    have : x ∈ s := by simpa [List.contains_eq_mem] using h
    constructor
    · exact Or.inl
    · rintro (h | rfl)
      · exact h
      · exact this
  · simp

theorem nodup_addSet (s : List Nat) (x : Nat) (h : s.Nodup) : (addSet s x).Nodup := by
  unfold addSet
  split
  · exact h
  · rename_i hx
    have : x ∉ s := by simpa [List.contains_eq_mem] using hx
    rw [List.nodup_append]
    exact ⟨h, by simp, fun a ha b hb hab => this (by simp at hb; rw [← hb, ← hab]; exact ha)⟩

theorem mem_dictGet {d : Dir} {xs : List Nat} {name : Option Nat} {y : Nat} (h : dictGet d xs name = some y) : y ∈ xs := by
  unfold dictGet at h
  simpa using List.mem_of_find?_eq_some h

theorem mem_dictVals {d : Dir} {xs : List Nat} {y : Nat} (h : y ∈ dictVals d xs) : y ∈ xs := by
  unfold dictVals at h
  simp only [List.mem_filterMap] at h
  obtain ⟨x, _, hx⟩ := h
  exact mem_dictGet hx

/-- what the collection phase has gathered so far is marked and sits where `prune` expects it -/
structure MarkedOK (g : G) (d : Dir) (m : Marked) : Prop where
  nodup : m.nodes.Nodup
  nodes : ∀ n ∈ m.nodes, n ∈ nonFacNodes g ∧ d.isMarked n = true
  comps : ∀ cn ∈ m.comps, cn.2 ∈ nonFacNodes g ∧ cn.1 ∈ g.nbrs cn.2 .has .comp ∧ d.isMarked cn.1 = true
  nss : ∀ s ∈ m.nss, g.cls? s = some .ns ∧ d.isMarked s = true
  ifs : ∀ i ∈ m.ifs, (∃ s, g.cls? s = some .ns ∧ i ∈ g.nbrs s .connects .cp) ∧ d.isMarked i = true

theorem collectIfs_ok {g : G} {d : Dir} {m : Marked} {s : Nat} (h : MarkedOK g d m) (hs : g.cls? s = some .ns) :
    MarkedOK g d (collectIfs g d m s) := by
  unfold collectIfs
  apply foldl_inv (MarkedOK g d) _ _ m h
  intro m' i hi hm'
  by_cases hmk : d.isMarked i = true
  · simp only [hmk, ite_true]
    refine ⟨hm'.nodup, hm'.nodes, hm'.comps, hm'.nss, fun j hj => ?_⟩
    rcases (mem_addSet _ _ _).mp hj with hj | rfl
    · exact hm'.ifs j hj
    · exact ⟨⟨s, hs, hi⟩, hmk⟩
  · simp only [hmk, Bool.false_eq_true, ite_false]; exact hm'

theorem collectComp_ok {g : G} {d : Dir} {m : Marked} {c : Nat} (h : MarkedOK g d m) : MarkedOK g d (collectComp g d m c) := by
  unfold collectComp
  apply foldl_inv (MarkedOK g d) _ _ m h
  intro m' s hs hm'
  have hsns : g.cls? s = some .ns := mem_nbrs_cls _ _ _ _ _ (mem_dictVals hs)
  apply collectIfs_ok _ hsns
  by_cases hmk : d.isMarked s = true
  · simp only [hmk, ite_true]
    refine ⟨hm'.nodup, hm'.nodes, hm'.comps, fun j hj => ?_, hm'.ifs⟩
    rcases (mem_addSet _ _ _).mp hj with hj | rfl
    · exact hm'.nss j hj
    · exact ⟨hsns, hmk⟩
  · simp only [hmk, Bool.false_eq_true, ite_false]
    exact ⟨hm'.nodup, hm'.nodes, hm'.comps, hm'.nss, hm'.ifs⟩

theorem collectNode_ok {g : G} {d : Dir} {m : Marked} {n : Nat} (h : MarkedOK g d m) (hn : n ∈ nonFacNodes g) :
    MarkedOK g d (collectNode g d m n) := by
  unfold collectNode
  have h0 : MarkedOK g d (if d.isMarked n = true then { m with nodes := addSet m.nodes n } else m) := by
    by_cases hmk : d.isMarked n = true
    · simp only [hmk, ite_true]
      refine ⟨nodup_addSet _ _ h.nodup, fun j hj => ?_, h.comps, h.nss, h.ifs⟩
      rcases (mem_addSet _ _ _).mp hj with hj | rfl
      · exact h.nodes j hj
      · exact ⟨hn, hmk⟩
    · simp only [hmk, Bool.false_eq_true, ite_false]; exact h
  apply foldl_inv (MarkedOK g d) _ _ _ h0
  intro m' c hc hm'
  apply collectComp_ok
  by_cases hmk : d.isMarked c = true
  · simp only [hmk, ite_true]
    refine ⟨hm'.nodup, hm'.nodes, fun cn hcn => ?_, hm'.nss, hm'.ifs⟩
    split at hcn
    · exact hm'.comps cn hcn
    · rcases List.mem_append.mp hcn with hcn | hcn
      · exact hm'.comps cn hcn
      · simp only [List.mem_singleton] at hcn; subst hcn
        exact ⟨hn, mem_dictVals hc, hmk⟩
  · simp only [hmk, Bool.false_eq_true, ite_false]; exact hm'

theorem allNss_cls {g : G} (hid : (g.nodes.map (·.id)).Nodup) {s : Nat} (h : s ∈ allNss g) : g.cls? s = some .ns := by
  simp only [allNss, List.mem_map, List.mem_filter, beq_iff_eq] at h
  obtain ⟨e, ⟨he, hc⟩, rfl⟩ := h
  rw [(cls_kind_of_mem hid he).1, hc]

/-- **soundness of the collection phase**: distinct nodes out of `Topology.nodes`; components with their parent node;
services; interfaces attached to a service; all of them marked -/
theorem pruneCollect_ok (g : G) (d : Dir) (hid : (g.nodes.map (·.id)).Nodup) : MarkedOK g d (pruneCollect g d) := by
  unfold pruneCollect
  have h1 : MarkedOK g d ((topoNodes g d).foldl (collectNode g d) {}) := by
    apply foldl_inv (MarkedOK g d) _ _ _ ⟨by simp, by simp, by simp, by simp, by simp⟩
    intro m n hn hm
    exact collectNode_ok hm (mem_dictVals hn)
  apply foldl_inv (MarkedOK g d) _ _ _ h1
  intro m s hs hm
  have hsns := allNss_cls hid (mem_dictVals hs)
  split
  · exact hm
  · apply collectIfs_ok _ hsns
    by_cases hmk : d.isMarked s = true
    · simp only [hmk, ite_true]
      refine ⟨hm.nodup, hm.nodes, hm.comps, fun j hj => ?_, hm.ifs⟩
      rcases (mem_addSet _ _ _).mp hj with hj | rfl
      · exact hm.nss j hj
      · exact ⟨hsns, hmk⟩
    · simp only [hmk, Bool.false_eq_true, ite_false]; exact hm


/-! ### completeness of the collection phase (nodes, services) -/

/-- a fold whose steps never drop an element of the projection `π` and whose step at `x0` adds `y0` ends with `y0` -/
theorem foldl_mem {α β : Type} (π : β → List Nat) (f : β → α → β) (y0 : Nat) (x0 : α)
    (hmono : ∀ b x y, y ∈ π b → y ∈ π (f b x)) (hadd : ∀ b, y0 ∈ π (f b x0)) :
    ∀ (xs : List α) (b : β), x0 ∈ xs → y0 ∈ π (xs.foldl f b)
  | x :: xs, b, hx => by
    simp only [List.foldl_cons]
    rcases List.mem_cons.mp hx with rfl | hx
    · exact foldl_inv (fun b' => y0 ∈ π b') f xs _ (hadd b) (fun b' x' _ h => hmono b' x' y0 h)
    · exact foldl_mem π f y0 x0 hmono hadd xs _ hx

theorem collectIfs_nodes (g : G) (d : Dir) (m : Marked) (s : Nat) :
    (collectIfs g d m s).nodes = m.nodes ∧ (collectIfs g d m s).nss = m.nss ∧ (collectIfs g d m s).seen = m.seen ∧
    (collectIfs g d m s).comps = m.comps := by
  unfold collectIfs
  apply foldl_inv (fun m' => m'.nodes = m.nodes ∧ m'.nss = m.nss ∧ m'.seen = m.seen ∧ m'.comps = m.comps) _ _ m ⟨rfl, rfl, rfl, rfl⟩
  intro m' i _ h
  split <;> exact h

theorem collectComp_nodes (g : G) (d : Dir) (m : Marked) (c : Nat) :
    (collectComp g d m c).nodes = m.nodes ∧ (collectComp g d m c).comps = m.comps := by
  unfold collectComp
  apply foldl_inv (fun m' => m'.nodes = m.nodes ∧ m'.comps = m.comps) _ _ m ⟨rfl, rfl⟩
  intro m' s _ h
  obtain ⟨h1, _, _, h4⟩ := collectIfs_nodes g d
    (if d.isMarked s = true then { ({ m' with seen := addSet m'.seen s } : Marked) with nss := addSet m'.nss s }
     else { m' with seen := addSet m'.seen s }) s
  constructor
  · rw [h1]; split <;> exact h.1
  · rw [h4]; split <;> exact h.2

theorem collectNode_nodes_mono (g : G) (d : Dir) (m : Marked) (n y : Nat) (h : y ∈ m.nodes) : y ∈ (collectNode g d m n).nodes := by
  unfold collectNode
  show y ∈ Marked.nodes (List.foldl _ _ _)
  apply foldl_inv (fun m' : Marked => y ∈ m'.nodes) _ _ _ _
  · intro m' c _ h'
    rw [(collectComp_nodes g d _ c).1]
    split <;> exact h'
  · split
    · exact (mem_addSet _ _ _).mpr (Or.inl h)
    · exact h

theorem collectNode_adds (g : G) (d : Dir) (m : Marked) (n : Nat) (hm : d.isMarked n = true) : n ∈ (collectNode g d m n).nodes := by
  unfold collectNode
  show n ∈ Marked.nodes (List.foldl _ _ _)
  apply foldl_inv (fun m' : Marked => n ∈ m'.nodes) _ _ _ _
  · intro m' c _ h'
    rw [(collectComp_nodes g d _ c).1]
    split <;> exact h'
  · simp only [hm, ite_true]; exact (mem_addSet _ _ _).mpr (Or.inr rfl)

/-- **completeness of the collection phase for nodes**: every marked node of `Topology.nodes` is collected -/
theorem pruneCollect_nodes_complete (g : G) (d : Dir) (n : Nat) (hn : n ∈ topoNodes g d) (hm : d.isMarked n = true) :
    n ∈ (pruneCollect g d).nodes := by
  unfold pruneCollect
  show n ∈ Marked.nodes (List.foldl _ _ _)
  apply foldl_inv (fun m' : Marked => n ∈ m'.nodes) _ _ _ _
  · intro m' s _ h'
    split
    · exact h'
    · rw [(collectIfs_nodes g d _ s).1]; split <;> exact h'
  · exact foldl_mem (·.nodes) (collectNode g d) n n (fun b x y h => collectNode_nodes_mono g d b x y h)
      (fun b => collectNode_adds g d b n hm) _ _ hn


theorem foldl_mem_inv {α β : Type} (I : β → Prop) (π : β → List Nat) (f : β → α → β) (y0 : Nat) (x0 : α)
    (hI : ∀ b x, I b → I (f b x)) (hmono : ∀ b x y, y ∈ π b → y ∈ π (f b x)) (hadd : ∀ b, I b → y0 ∈ π (f b x0)) :
    ∀ (xs : List α) (b : β), I b → x0 ∈ xs → y0 ∈ π (xs.foldl f b)
  | x :: xs, b, hb, hx => by
    simp only [List.foldl_cons]
    rcases List.mem_cons.mp hx with rfl | hx
    · exact foldl_inv (fun b' => y0 ∈ π b') f xs _ (hadd b hb) (fun b' x' _ h => hmono b' x' y0 h)
    · exact foldl_mem_inv I π f y0 x0 hI hmono hadd xs _ (hI b x hb) hx

/-- every service seen so far that is marked has been collected -/
def SeenOK (d : Dir) (m : Marked) : Prop := ∀ s ∈ m.seen, d.isMarked s = true → s ∈ m.nss

theorem collectIfs_seenOK {g : G} {d : Dir} {m : Marked} (s : Nat) (h : SeenOK d m) : SeenOK d (collectIfs g d m s) := by
  obtain ⟨_, h2, h3, _⟩ := collectIfs_nodes g d m s
  intro s' hs' hm'
  rw [h2]; rw [h3] at hs'; exact h s' hs' hm'

theorem collectComp_seenOK {g : G} {d : Dir} {m : Marked} (c : Nat) (h : SeenOK d m) : SeenOK d (collectComp g d m c) := by
  unfold collectComp
  apply foldl_inv (SeenOK d) _ _ m h
  intro m' s _ hm'
  apply collectIfs_seenOK
  intro s' hs' hmk
  by_cases hms : d.isMarked s = true
  · simp only [hms, ite_true] at hs' ⊢
    rcases (mem_addSet _ _ _).mp hs' with h' | rfl
    · exact (mem_addSet _ _ _).mpr (Or.inl (hm' s' h' hmk))
    · exact (mem_addSet _ _ _).mpr (Or.inr rfl)
  · simp only [hms, Bool.false_eq_true, ite_false] at hs' ⊢
    rcases (mem_addSet _ _ _).mp hs' with h' | rfl
    · exact hm' s' h' hmk
    · exact absurd hmk hms

theorem collectNode_seenOK {g : G} {d : Dir} {m : Marked} (n : Nat) (h : SeenOK d m) : SeenOK d (collectNode g d m n) := by
  unfold collectNode
  show SeenOK d (List.foldl _ _ _)
  apply foldl_inv (SeenOK d) _ _ _ _
  · intro m' c _ hm'
    apply collectComp_seenOK
    split <;> exact hm'
  · split <;> exact h

/-- **completeness of the collection phase for services**: every marked service of `Topology.network_services` is
collected, whether it was met below a component or only in the final pass -/
theorem pruneCollect_nss_complete (g : G) (d : Dir) (s : Nat) (hs : s ∈ topoNss g d) (hm : d.isMarked s = true) :
    s ∈ (pruneCollect g d).nss := by
  unfold pruneCollect
  show s ∈ Marked.nss (List.foldl _ _ _)
  apply foldl_mem_inv (SeenOK d) (·.nss) _ s s _ _ _ _ _ _ hs
  · intro b x hb
    split
    · exact hb
    · apply collectIfs_seenOK
      intro s' hs' hmk
      by_cases hx : d.isMarked x = true
      · simp only [hx, ite_true] at hs' ⊢
        exact (mem_addSet _ _ _).mpr (Or.inl (hb s' hs' hmk))
      · simp only [hx, Bool.false_eq_true, ite_false] at hs' ⊢
        exact hb s' hs' hmk
  · intro b x y hy
    split
    · exact hy
    · rw [(collectIfs_nodes g d _ x).2.1]
      split
      · exact (mem_addSet _ _ _).mpr (Or.inl hy)
      · exact hy
  · intro b hb
    split
    · rename_i hseen
      exact hb s (by simpa [List.contains_eq_mem] using hseen) hm
    · rw [(collectIfs_nodes g d _ s).2.1]
      exact (mem_addSet _ _ _).mpr (Or.inr rfl)
  · apply foldl_inv (SeenOK d) _ _ _ (by intro s' hs'; cases hs')
    intro m' n _ hm'
    exact collectNode_seenOK n hm'


/-! ### `prune` through its public entry point -/

theorem namesOK_ids {g : G} {d : Dir} (h : NamesOK g d = true) : (g.nodes.map (·.id)).Nodup := by
  simp only [NamesOK, Bool.and_eq_true, decide_eq_true_eq] at h; exact h.1.1.1

theorem nodup_ids_minus {g : G} (h : (g.nodes.map (·.id)).Nodup) (A : List Nat) : ((g.minus A).nodes.map (·.id)).Nodup :=
  List.Nodup.sublist (List.Sublist.map _ List.filter_sublist) h

theorem filter_eq_singleton_of_nodup_map {α β : Type} [BEq β] [LawfulBEq β] (f : α → β) : ∀ (l : List α), (l.map f).Nodup →
    ∀ e ∈ l, l.filter (fun x => f x == f e) = [e]
  | [], _, e, he => by cases he
  | x :: l, hnd, e, he => by
    simp only [List.map_cons, List.nodup_cons] at hnd
    rcases List.mem_cons.mp he with rfl | he'
    · have : l.filter (fun x => f x == f e) = [] := by
        rw [List.filter_eq_nil_iff]
        intro y hy hfy
        exact hnd.1 (by rw [← beq_iff_eq.mp hfy]; exact List.mem_map_of_mem hy)
      simp [this]
    · have hne : ¬ (f x == f e) = true := by
        intro h; exact hnd.1 (by rw [beq_iff_eq.mp h]; exact List.mem_map_of_mem he')
      simp only [List.filter_cons, hne, Bool.false_eq_true, ite_false]
      exact filter_eq_singleton_of_nodup_map f l hnd.2 e he'

/-- under `NamesOK` a node is found by its own name -/
theorem findByName_node {g : G} {d : Dir} (h : NamesOK g d = true) {n : Nat} (hn : n ∈ nonFacNodes g) :
    ∃ name, d.nameOf n = some name ∧ findByName g d .node name = .ok n ∧ g.cls? n = some .node ∧
      g.kind? n ≠ some kFacility ∧ ((g.nbrs n .has .comp).map d.nameOf).Nodup := by
  have hid := namesOK_ids h
  simp only [NamesOK, Bool.and_eq_true, decide_eq_true_eq, List.all_eq_true] at h
  obtain ⟨⟨⟨_, hnames⟩, hcomps⟩, hnamed⟩ := h
  simp only [nonFacNodes, List.mem_map, List.mem_filter, Bool.and_eq_true, beq_iff_eq, bne_iff_ne, ne_eq] at hn
  obtain ⟨e, ⟨he, hc, hk⟩, rfl⟩ := hn
  obtain ⟨hcls, hkind⟩ := cls_kind_of_mem hid he
  have hnm := hnamed e he
  obtain ⟨name, hname⟩ := Option.isSome_iff_exists.mp hnm
  refine ⟨name, hname, ?_, by rw [hcls, hc], by rw [hkind]; exact fun h' => hk (Option.some.inj h'), ?_⟩
  · have he' : e ∈ g.nodes.filter (fun e => e.cls == .node) := by simp [List.mem_filter, he, hc]
    have := filter_eq_singleton_of_nodup_map (fun e : Elem => d.nameOf e.id) _ hnames e he'
    unfold findByName
    have hfl : g.nodes.filter (fun e => e.cls == .node && d.nameOf e.id == some name) = [e] := by
      rw [← this, List.filter_filter]
      apply List.filter_congr; intro x _
      rw [hname]; exact Bool.and_comm _ _
    rw [hfl]
  · have := hcomps e he
    simpa [hc] using this

theorem pruneApi_exact (g : G) (hW : WF g = true) (d : Dir) (hN : NamesOK g d = true) :
    ∃ D, pruneApi g d = .ok (g.minus D) ∧
      ∀ y, y ∈ D ↔ OwnedS g ((pruneCollect g d).nodes ++ (pruneCollect g d).comps.map (·.1) ++ (pruneCollect g d).nss ++
        (pruneCollect g d).ifs) y := by
  have hid := namesOK_ids hN
  have hm := pruneCollect_ok g d hid
  simp only [pruneApi]
  generalize pruneCollect g d = m at hm ⊢
  -- nodes, by name
  obtain ⟨A1, hr1, _, hmem1, hA1⟩ := foldResA_nodes g hW (fun g' n => removeNodeByName g' d ((d.nameOf n).getD 0)) (by
    intro A n hA hc hk hnA
    have hn : n ∈ nonFacNodes g := by
      obtain ⟨e, he, hen, hec, _⟩ := elem_of_cls hc
      simp only [nonFacNodes, List.mem_map, List.mem_filter, Bool.and_eq_true, beq_iff_eq, bne_iff_ne, ne_eq]
      have := (cls_kind_of_mem hid he).2
      rw [hen] at this
      exact ⟨e, ⟨he, hec, fun h' => hk (by rw [this, h'])⟩, hen⟩
    obtain ⟨name, hname, hfind, _, _, hcomp⟩ := findByName_node hN hn
    have hnA' : A.contains n = false := by simpa [List.contains_eq_mem] using hnA
    simp only [hname, Option.getD_some]
    apply removeNodeByName_eq _ d name n (nodup_ids_minus hid A)
    · rw [findByName_minus hfind A, hnA']; rfl
    · rw [kind_minus, hnA']; simpa using hk
    · rw [nbrs_minus g A n _ _ hnA']
      exact List.Nodup.sublist (List.Sublist.map _ List.filter_sublist) hcomp)
    m.nodes [] (invA_nil g) hm.nodup (fun n hn => by
      obtain ⟨_, _, _, hc, hk, _⟩ := findByName_node hN (hm.nodes n hn).1
      exact ⟨hc, hk, by simp⟩)
  rw [minus_nil] at hr1
  -- components, by name through the parent
  obtain ⟨A2, hr2, _, hmem2, hA2⟩ := foldResA_guard g (fun cn : Nat × Nat => cn.1)
    (fun g' cn => nodeRemoveComponent g' d cn.2 ((d.nameOf cn.1).getD 0))
    (fun cn => cn.2 ∈ nonFacNodes g ∧ cn.1 ∈ g.nbrs cn.2 .has .comp) (by
      intro A cn hA hok hcA
      obtain ⟨_, _, _, hnc, _, hcomp⟩ := findByName_node hN hok.1
      have hcc := mem_nbrs_cls _ _ _ _ _ hok.2
      have hnA : cn.2 ∉ A := fun h' => hcA (hA.2.1 cn.2 h' cn.1 (by simp only [children, hnc]; exact List.mem_append_left _ hok.2))
      have hnA' : A.contains cn.2 = false := by simpa [List.contains_eq_mem] using hnA
      have hnamed : (d.nameOf cn.1).isSome = true := by
        obtain ⟨e, he, hen, _⟩ := elem_of_cls hcc
        simp only [NamesOK, Bool.and_eq_true, List.all_eq_true] at hN
        rw [← hen]; exact hN.2 e he
      obtain ⟨name, hname⟩ := Option.isSome_iff_exists.mp hnamed
      have : nodeRemoveComponent (g.minus A) d cn.2 ((d.nameOf cn.1).getD 0) = removeComponentApi (g.minus A) cn.1 := by
        simp only [hname, Option.getD_some]
        apply nodeRemoveComponent_eq _ d cn.2 cn.1 name
        · rw [cls_minus, hnA']; simpa using hnc
        · exact (mem_nbrs_minus g A cn.2 _ _ cn.1).mpr ⟨hnA, hok.2, hcA⟩
        · exact hname
        · rw [nbrs_minus g A cn.2 _ _ hnA']
          exact List.Nodup.sublist (List.Sublist.map _ List.filter_sublist) hcomp
      rw [this]
      exact removeComponentApi_resA g hW A hA cn.1 hcc hcA)
    (fun cn hok => cls_has (mem_nbrs_cls _ _ _ _ _ hok.2)) m.comps A1 hA1
    (fun cn hcn => ⟨(hm.comps cn hcn).1, (hm.comps cn hcn).2.1⟩)
  obtain ⟨A3, hr3, _, hmem3, hA3⟩ := foldResA_guard g id removeNsApi (fun s => g.cls? s = some .ns)
    (fun A x hA hx hxA => removeNsApi_resA g hW A hA x hx hxA) (fun x hx => cls_has hx) m.nss A2 hA2
    (fun s hs => (hm.nss s hs).1)
  obtain ⟨A4, hr4, _, hmem4, hA4⟩ := foldResA_guard g id
    (fun g' i => (disconnectDeep g' [i]).bind (fun g1 => removeCp g1 i true))
    (fun i => g.cls? i = some .cp ∧ isSub g i = false)
    (fun A x hA hx hxA => pruneIface_resA g hW A hA x hx.1 hx.2 hxA) (fun x hx => cls_has hx.1) m.ifs A3 hA3
    (fun i hi => by
      obtain ⟨⟨s, hs, his⟩, _⟩ := hm.ifs i hi
      exact ⟨mem_nbrs_cls _ _ _ _ _ his, port_not_sub hs his⟩)
  refine ⟨A4, ?_, ?_⟩
  · simp only [id] at hr3 hr4
    simp only [hr1, hr2, hr3, bind, Except.bind]; exact hr4
  · apply mem_iff_ownedS g hW _ A4 hA4.1.1
    · intro r hr
      simp only [List.mem_append, List.mem_map] at hr
      rcases hr with ((h | ⟨cn, hcn, rfl⟩) | h) | h
      · obtain ⟨_, _, _, hc, _, _⟩ := findByName_node hN (hm.nodes r h).1
        exact ⟨_, hc, by decide⟩
      · exact ⟨_, mem_nbrs_cls _ _ _ _ _ (hm.comps cn hcn).2.1, by decide⟩
      · exact ⟨_, (hm.nss r h).1, by decide⟩
      · obtain ⟨⟨s, _, his⟩, _⟩ := hm.ifs r h
        exact ⟨_, mem_nbrs_cls _ _ _ _ _ his, by decide⟩
    · intro y hy
      rw [hmem4 y hy, hmem3 y hy, hmem2 y hy, hmem1 y hy, ownS_append, ownS_append, ownS_append]
      simp [or_assoc, List.map_id]

end FimVerif.Remove
