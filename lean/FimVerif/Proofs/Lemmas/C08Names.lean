import FimVerif.Model.RemoveNames
import FimVerif.Proofs.Lemmas.C08Ops
/-! Name lookups: under name uniqueness (decidable `NamesOK`) every by-name call is the by-id call on the element that
carries the name, on the pre-state and on every `g.minus A`. -/
namespace FimVerif.Remove

theorem find?_unique {l : List Nat} {q : Nat → Bool} {n : Nat} (hex : n ∈ l) (hq : q n = true)
    (huniq : ∀ y ∈ l, q y = true → y = n) : l.find? q = some n := by
  cases h : l.find? q with
  | none => rw [List.find?_eq_none] at h; exact absurd hq (h n hex)
  | some y =>
    have h1 := List.mem_of_find?_eq_some h
    have h2 := List.find?_some h
    rw [huniq y h1 h2]

theorem dictGet_unique {d : Dir} {xs : List Nat} {n : Nat} {name : Option Nat} (hex : n ∈ xs) (hq : d.nameOf n = name)
    (huniq : ∀ y ∈ xs, d.nameOf y = name → y = n) : dictGet d xs name = some n := by
  unfold dictGet
  apply find?_unique (by simpa using hex) (by simpa using hq)
  intro y hy hqy
  exact huniq y (by simpa using hy) (by simpa using hqy)

theorem eq_of_nodup_map' {α : Type} [DecidableEq α] (f : Nat → α) : ∀ {l : List Nat}, (l.map f).Nodup →
    ∀ {a b : Nat}, a ∈ l → b ∈ l → f a = f b → a = b
  | [], _, _, _, ha, _, _ => by cases ha
  | x :: l, hnd, a, b, ha, hb, hf => by
    simp only [List.map_cons, List.nodup_cons] at hnd
    rcases List.mem_cons.mp ha with ha' | ha' <;> rcases List.mem_cons.mp hb with hb' | hb'
    · rw [ha', hb']
    · subst ha'; exact absurd (by rw [hf]; exact List.mem_map_of_mem hb') hnd.1
    · subst hb'; exact absurd (by rw [← hf]; exact List.mem_map_of_mem ha') hnd.1
    · exact eq_of_nodup_map' f hnd.2 ha' hb' hf

theorem filterMap_id_of {l : List Nat} {f : Nat → Option Nat} (h : ∀ x ∈ l, f x = some x) : l.filterMap f = l := by
  induction l with
  | nil => rfl
  | cons a l ih =>
    simp only [List.filterMap_cons, h a (by simp)]
    rw [ih (fun x hx => h x (List.mem_cons_of_mem _ hx))]

theorem firstsBy_eq_self (d : Dir) : ∀ (xs : List Nat) (seen : List (Option Nat)), (xs.map d.nameOf).Nodup →
    (∀ x ∈ xs, d.nameOf x ∉ seen) → firstsBy d xs seen = xs
  | [], _, _, _ => rfl
  | x :: rest, seen, hnd, hseen => by
    simp only [List.map_cons, List.nodup_cons] at hnd
    have hx : seen.contains (d.nameOf x) = false := by
      simpa [List.contains_eq_mem] using hseen x (by simp)
    simp only [firstsBy, hx, Bool.false_eq_true, ite_false]
    rw [firstsBy_eq_self d rest _ hnd.2]
    intro y hy
    simp only [List.mem_cons, not_or]
    refine ⟨fun h => hnd.1 (by rw [← h]; exact List.mem_map_of_mem hy), hseen y (List.mem_cons_of_mem _ hy)⟩

/-- a name-keyed dictionary over elements with distinct names loses nothing -/
theorem dictVals_eq_self (d : Dir) (xs : List Nat) (hnd : (xs.map d.nameOf).Nodup) : dictVals d xs = xs := by
  unfold dictVals
  rw [firstsBy_eq_self d xs [] hnd (fun _ _ h => by cases h)]
  have : ∀ x ∈ xs, dictGet d xs (d.nameOf x) = some x := by
    intro x hx
    apply dictGet_unique hx rfl
    intro y hy hname
    exact eq_of_nodup_map' d.nameOf hnd hy hx hname
  exact filterMap_id_of this

/-! ### lookups -/

theorem find_of_mem {g : G} (hid : (g.nodes.map (·.id)).Nodup) {e : Elem} (he : e ∈ g.nodes) : g.find e.id = some e := by
  unfold G.find
  cases h : g.nodes.find? (fun n => n.id == e.id) with
  | none => rw [List.find?_eq_none] at h; exact absurd (by simp) (h e he)
  | some e' =>
    have h1 := List.mem_of_find?_eq_some h
    have h2 := List.find?_some h
    congr 1
    -- two elements with the same id in a list with distinct ids
    have : ∀ (l : List Elem), (l.map (·.id)).Nodup → ∀ a ∈ l, ∀ b ∈ l, a.id = b.id → a = b := by
      intro l
      induction l with
      | nil => intro _ a ha; cases ha
      | cons x l ih =>
        intro hnd a ha b hb hab
        simp only [List.map_cons, List.nodup_cons] at hnd
        rcases List.mem_cons.mp ha with ha' | ha' <;> rcases List.mem_cons.mp hb with hb' | hb'
        · rw [ha', hb']
        · subst ha'; exact absurd (by rw [hab]; exact List.mem_map_of_mem (f := (·.id)) hb') hnd.1
        · subst hb'; exact absurd (by rw [← hab]; exact List.mem_map_of_mem (f := (·.id)) ha') hnd.1
        · exact ih hnd.2 a ha' b hb' hab
    exact this g.nodes hid e' h1 e he (by simpa using h2)

/-- what a successful `find_node_by_name` returns: the one element of the class that carries the name -/
theorem findByName_ok {g : G} {d : Dir} {c : Cls} {name n : Nat} (h : findByName g d c name = .ok n) :
    ∃ e, g.nodes.filter (fun e => e.cls == c && d.nameOf e.id == some name) = [e] ∧ e.id = n := by
  unfold findByName at h
  split at h
  · rename_i e heq; exact ⟨e, heq, by simpa using h⟩
  · cases h

theorem findByName_spec {g : G} {d : Dir} {c : Cls} {name n : Nat} (h : findByName g d c name = .ok n) :
    ∃ e ∈ g.nodes, e.id = n ∧ e.cls = c ∧ d.nameOf n = some name ∧
      ∀ e' ∈ g.nodes, e'.cls = c → d.nameOf e'.id = some name → e' = e := by
  obtain ⟨e, heq, hid⟩ := findByName_ok h
  have he : e ∈ g.nodes.filter (fun e => e.cls == c && d.nameOf e.id == some name) := by rw [heq]; simp
  simp only [List.mem_filter, Bool.and_eq_true, beq_iff_eq] at he
  refine ⟨e, he.1, hid, he.2.1, by rw [← hid]; exact he.2.2, fun e' he' hc' hn' => ?_⟩
  have : e' ∈ g.nodes.filter (fun e => e.cls == c && d.nameOf e.id == some name) := by
    simp [List.mem_filter, he', hc', hn']
  rw [heq] at this; simpa using this

/-- the same lookup after any deletion: the element if it survives, else the lookup fails -/
theorem findByName_minus {g : G} {d : Dir} {c : Cls} {name n : Nat} (h : findByName g d c name = .ok n) (D : List Nat) :
    findByName (g.minus D) d c name = if D.contains n then .error .query else .ok n := by
  obtain ⟨e, heq, hid⟩ := findByName_ok h
  unfold findByName
  have : (g.minus D).nodes.filter (fun e => e.cls == c && d.nameOf e.id == some name) = [e].filter (fun n => !D.contains n.id) := by
    simp only [G.minus, List.filter_filter]
    rw [← heq, List.filter_filter]
    apply List.filter_congr; intro x _; exact Bool.and_comm _ _
  rw [this, ← hid]
  by_cases hD : e.id ∈ D
  · simp [List.contains_eq_mem, hD]
  · simp [List.contains_eq_mem, hD]

/-- decidable name uniqueness: distinct ids, distinct NetworkNode names, distinct component names within each node,
every element named -/
def NamesOK (g : G) (d : Dir) : Bool :=
  decide ((g.nodes.map (·.id)).Nodup) &&
  decide (((g.nodes.filter (fun e => e.cls == .node)).map (fun e => d.nameOf e.id)).Nodup) &&
  g.nodes.all (fun e => e.cls != .node || decide (((g.nbrs e.id .has .comp).map d.nameOf).Nodup)) &&
  g.nodes.all (fun e => (d.nameOf e.id).isSome)

theorem cls_kind_of_mem {g : G} (hid : (g.nodes.map (·.id)).Nodup) {e : Elem} (he : e ∈ g.nodes) :
    g.cls? e.id = some e.cls ∧ g.kind? e.id = some e.kind := by
  simp [G.cls?, G.kind?, find_of_mem hid he]

/-- **`Topology.remove_node(name)` is `remove_node` of the node carrying the name** -/
theorem removeNodeByName_eq (h : G) (d : Dir) (name n : Nat) (hid : (h.nodes.map (·.id)).Nodup)
    (hfind : findByName h d .node name = .ok n) (hk : h.kind? n ≠ some kFacility)
    (hcomp : ((h.nbrs n .has .comp).map d.nameOf).Nodup) :
    removeNodeByName h d name = removeNodeApi h n := by
  obtain ⟨e, he, hen, hec, hname, huniq⟩ := findByName_spec hfind
  obtain ⟨hcls, hkind⟩ := cls_kind_of_mem hid he
  rw [hen] at hcls hkind
  have hek : e.kind ≠ kFacility := by rw [hkind] at hk; exact fun h' => hk (by rw [h'])
  have hget : dictGet d (nonFacNodes h) (some name) = some n := by
    apply dictGet_unique _ hname
    · intro y hy hny
      simp only [nonFacNodes, List.mem_map, List.mem_filter, Bool.and_eq_true, beq_iff_eq] at hy
      obtain ⟨e', ⟨he', hc', _⟩, rfl⟩ := hy
      rw [huniq e' he' hc' hny, hen]
    · simp only [nonFacNodes, List.mem_map, List.mem_filter, Bool.and_eq_true, beq_iff_eq, bne_iff_ne, ne_eq]
      exact ⟨e, ⟨he, hec, hek⟩, hen⟩
  have hifs : ifaceListNodeD h d n = ifaceListNode h n := by
    simp only [ifaceListNodeD, ifaceListNode, compsOf, dictVals_eq_self d _ hcomp]
  have hguard : (h.cls? n == some .node && h.kind? n != some kFacility) = true := by
    rw [hcls, hec, hkind]; simp [hek]
  simp only [removeNodeByName, hget, hifs, removeNodeApi, hguard, ite_true, bind, Except.bind]
  cases hdd : disconnectDeep h (ifaceListNode h n) with
  | error e => rfl
  | ok g1 =>
    obtain ⟨D, rfl⟩ := disconnectDeep_shrinks _ _ _ hdd
    simp only [findByName_minus hfind D]
    by_cases hD : n ∈ D
    · simp [List.contains_eq_mem, hD, removeNodeG, cls_minus]
    · simp [List.contains_eq_mem, hD]


/-- **`Topology.remove_facility(name=)`** -/
theorem removeFacilityByName_eq (h : G) (d : Dir) (name n : Nat) (hid : (h.nodes.map (·.id)).Nodup)
    (hfind : findByName h d .node name = .ok n) (hk : h.kind? n = some kFacility)
    (hcomp : ((h.nbrs n .has .comp).map d.nameOf).Nodup) :
    removeFacilityByName h d name = removeFacilityApi h n := by
  obtain ⟨e, he, hen, hec, hname, huniq⟩ := findByName_spec hfind
  obtain ⟨hcls, hkind⟩ := cls_kind_of_mem hid he
  rw [hen] at hcls hkind
  have hek : e.kind = kFacility := by rw [hkind] at hk; exact Option.some.inj hk
  have hget : dictGet d (facNodes h) (some name) = some n := by
    apply dictGet_unique _ hname
    · intro y hy hny
      simp only [facNodes, List.mem_map, List.mem_filter, Bool.and_eq_true, beq_iff_eq] at hy
      obtain ⟨e', ⟨he', hc', _⟩, rfl⟩ := hy
      rw [huniq e' he' hc' hny, hen]
    · simp only [facNodes, List.mem_map, List.mem_filter, Bool.and_eq_true, beq_iff_eq]
      exact ⟨e, ⟨he, hec, hek⟩, hen⟩
  have hifs : ifaceListNodeD h d n = ifaceListNode h n := by
    simp only [ifaceListNodeD, ifaceListNode, compsOf, dictVals_eq_self d _ hcomp]
  have hguard : (h.cls? n == some .node && h.kind? n == some kFacility) = true := by
    rw [hcls, hec, hk]; simp
  simp only [removeFacilityApi, hguard, ite_true]
  simp only [removeFacilityByName, hfind, hk, bne_self_eq_false, Bool.false_eq_true, ite_false, hget, hifs,
    bind, Except.bind]
  cases hdd : disconnectDeep h (ifaceListNode h n) with
  | error e => rfl
  | ok g1 =>
    obtain ⟨D, rfl⟩ := disconnectDeep_shrinks _ _ _ hdd
    simp only [findByName_minus hfind D]
    by_cases hD : n ∈ D
    · simp [List.contains_eq_mem, hD, removeNodeG, cls_minus]
    · simp [List.contains_eq_mem, hD]

/-- **`Topology.remove_switch(name=)`** -/
theorem removeSwitchByName_eq (h : G) (d : Dir) (name n : Nat) (hid : (h.nodes.map (·.id)).Nodup)
    (hfind : findByName h d .node name = .ok n) (hk : h.kind? n = some kSwitch)
    (hcomp : ((h.nbrs n .has .comp).map d.nameOf).Nodup) :
    removeSwitchByName h d name = removeSwitchApi h n := by
  obtain ⟨e, he, hen, hec, _, _⟩ := findByName_spec hfind
  obtain ⟨hcls, _⟩ := cls_kind_of_mem hid he
  rw [hen] at hcls
  have hguard : (h.cls? n == some .node && h.kind? n == some kSwitch) = true := by rw [hcls, hec, hk]; simp
  simp only [removeSwitchApi, hguard, ite_true]
  simp only [removeSwitchByName, hfind, hk, bne_self_eq_false, Bool.false_eq_true, ite_false, bind, Except.bind]
  exact removeNodeByName_eq h d name n hid hfind (by rw [hk]; decide) hcomp

/-- **`Topology.remove_link(name)`**, **`Topology.remove_network_service(name)`** -/
theorem removeLinkByName_eq (h : G) (d : Dir) (name l : Nat) (hfind : findByName h d .link name = .ok l) :
    removeLinkByName h d name = removeLinkApi h l := by
  simp [removeLinkByName, hfind, bind, Except.bind]

theorem removeNsByName_eq (h : G) (d : Dir) (name s : Nat) (hfind : findByName h d .ns name = .ok s) :
    removeNsByName h d name = removeNsApi h s := by
  simp [removeNsByName, hfind, bind, Except.bind]

theorem findChild_unique {h : G} {d : Dir} {p x : Nat} {r : Rel} {c : Cls} {name : Nat} (hx : x ∈ h.nbrs p r c)
    (hn : d.nameOf x = some name) (huniq : ∀ y ∈ h.nbrs p r c, d.nameOf y = some name → y = x) :
    findChild h d p r c name = .ok x := by
  unfold findChild
  rw [find?_unique hx (by simpa using hn) (fun y hy hq => huniq y hy (by simpa using hq))]

/-- **`Node.remove_component(name)`** through the node handle -/
theorem nodeRemoveComponent_eq (h : G) (d : Dir) (n c name : Nat) (hn : h.cls? n = some .node)
    (hc : c ∈ h.nbrs n .has .comp) (hname : d.nameOf c = some name)
    (hcomp : ((h.nbrs n .has .comp).map d.nameOf).Nodup) :
    nodeRemoveComponent h d n name = removeComponentApi h c := by
  have huniq : ∀ y ∈ h.nbrs n .has .comp, d.nameOf y = some name → y = c := fun y hy hny =>
    eq_of_nodup_map' d.nameOf hcomp hy hc (hny.trans hname.symm)
  have hcc := mem_nbrs_cls _ _ _ _ _ hc
  simp only [nodeRemoveComponent, hn, bne_self_eq_false, Bool.false_eq_true, ite_false, findChild_unique hc hname huniq,
    dictGet_unique hc hname huniq, bind, Except.bind, removeComponentApi, hcc, beq_self_eq_true, ite_true]

/-- **`Node.remove_network_service(name)`** through the node (or component) handle -/
theorem nodeRemoveNs_eq (h : G) (d : Dir) (n s name : Nat) (hn : h.cls? n = some .node ∨ h.cls? n = some .comp)
    (hs : s ∈ h.nbrs n .has .ns) (hname : d.nameOf s = some name)
    (huniq : ∀ y ∈ h.nbrs n .has .ns, d.nameOf y = some name → y = s) :
    nodeRemoveNs h d n name = removeNsApi h s := by
  have hsc := mem_nbrs_cls _ _ _ _ _ hs
  have hg : (h.cls? n != some .node && h.cls? n != some .comp) = false := by rcases hn with h' | h' <;> simp [h']
  simp only [nodeRemoveNs, hg, Bool.false_eq_true, ite_false, findChild_unique hs hname huniq, bind, Except.bind,
    removeNsApi, hsc, beq_self_eq_true, ite_true]

/-- **`Interface.remove_child_interface(name=)`** -/
theorem removeChildByName_eq (h : G) (d : Dir) (hl : List IfH) (p c name : Nat) (hc : c ∈ h.nbrs p .connects .cp)
    (hname : d.nameOf c = some name) (huniq : ∀ y ∈ h.nbrs p .connects .cp, d.nameOf y = some name → y = c) :
    removeChildByName h d hl p name = removeChild h hl p c := by
  simp only [removeChildByName, removeChild, findChild_unique hc hname huniq, bind, Except.bind]

/-- a lookup that fails changes nothing: e.g. `remove_node` with the name of a service, a link, or nothing -/
theorem removeNodeByName_absent (h : G) (d : Dir) (name : Nat)
    (hno : ∀ e ∈ h.nodes, e.cls = .node → e.kind ≠ kFacility → d.nameOf e.id ≠ some name) :
    removeNodeByName h d name = .error .topology := by
  have : dictGet d (nonFacNodes h) (some name) = none := by
    unfold dictGet
    rw [List.find?_eq_none]
    intro y hy
    simp only [List.mem_reverse, nonFacNodes, List.mem_map, List.mem_filter, Bool.and_eq_true, beq_iff_eq, bne_iff_ne, ne_eq] at hy
    obtain ⟨e, ⟨he, hc, hk⟩, rfl⟩ := hy
    simpa using hno e he hc hk
  simp [removeNodeByName, this]


/-! ### the collection phase of `prune` -/

theorem foldl_inv {α β : Type} (P : β → Prop) (f : β → α → β) : ∀ (xs : List α) (b : β), P b →
    (∀ b x, x ∈ xs → P b → P (f b x)) → P (xs.foldl f b)
  | [], b, hb, _ => hb
  | x :: xs, b, hb, hf => by
    simp only [List.foldl_cons]
    exact foldl_inv P f xs (f b x) (hf b x (by simp) hb) (fun b' x' hx' hb' => hf b' x' (List.mem_cons_of_mem _ hx') hb')

theorem mem_addSet (s : List Nat) (x y : Nat) : y ∈ addSet s x ↔ y ∈ s ∨ y = x := by
  unfold addSet
  split
  · rename_i h
    have : x ∈ s := by simpa [List.contains_eq_mem] using h
    constructor
    · exact Or.inl
    · rintro (h | rfl)
      · exact h
      · exact this
  · simp

theorem nodup_addSet (s : List Nat) (x : Nat) (h : s.Nodup) : (addSet s x).Nodup := by
  unfold addSet
  split
  · exact h
  · rename_i hx
    have : x ∉ s := by simpa [List.contains_eq_mem] using hx
    rw [List.nodup_append]
    exact ⟨h, by simp, fun a ha b hb hab => this (by simp at hb; rw [← hb, ← hab]; exact ha)⟩

theorem mem_dictGet {d : Dir} {xs : List Nat} {name : Option Nat} {y : Nat} (h : dictGet d xs name = some y) : y ∈ xs := by
  unfold dictGet at h
  simpa using List.mem_of_find?_eq_some h

theorem mem_dictVals {d : Dir} {xs : List Nat} {y : Nat} (h : y ∈ dictVals d xs) : y ∈ xs := by
  unfold dictVals at h
  simp only [List.mem_filterMap] at h
  obtain ⟨x, _, hx⟩ := h
  exact mem_dictGet hx

/-- what the collection phase has gathered so far is marked and sits where `prune` expects it -/
structure MarkedOK (g : G) (d : Dir) (m : Marked) : Prop where
  nodup : m.nodes.Nodup
  nodes : ∀ n ∈ m.nodes, n ∈ nonFacNodes g ∧ d.isMarked n = true
  comps : ∀ cn ∈ m.comps, cn.2 ∈ nonFacNodes g ∧ cn.1 ∈ g.nbrs cn.2 .has .comp ∧ d.isMarked cn.1 = true
  nss : ∀ s ∈ m.nss, g.cls? s = some .ns ∧ d.isMarked s = true
  ifs : ∀ i ∈ m.ifs, (∃ s, g.cls? s = some .ns ∧ i ∈ g.nbrs s .connects .cp) ∧ d.isMarked i = true

theorem collectIfs_ok {g : G} {d : Dir} {m : Marked} {s : Nat} (h : MarkedOK g d m) (hs : g.cls? s = some .ns) :
    MarkedOK g d (collectIfs g d m s) := by
  unfold collectIfs
  apply foldl_inv (MarkedOK g d) _ _ m h
  intro m' i hi hm'
  by_cases hmk : d.isMarked i = true
  · simp only [hmk, ite_true]
    refine ⟨hm'.nodup, hm'.nodes, hm'.comps, hm'.nss, fun j hj => ?_⟩
    rcases (mem_addSet _ _ _).mp hj with hj | rfl
    · exact hm'.ifs j hj
    · exact ⟨⟨s, hs, hi⟩, hmk⟩
  · simp only [hmk, Bool.false_eq_true, ite_false]; exact hm'

theorem collectComp_ok {g : G} {d : Dir} {m : Marked} {c : Nat} (h : MarkedOK g d m) : MarkedOK g d (collectComp g d m c) := by
  unfold collectComp
  apply foldl_inv (MarkedOK g d) _ _ m h
  intro m' s hs hm'
  have hsns : g.cls? s = some .ns := mem_nbrs_cls _ _ _ _ _ (mem_dictVals hs)
  apply collectIfs_ok _ hsns
  by_cases hmk : d.isMarked s = true
  · simp only [hmk, ite_true]
    refine ⟨hm'.nodup, hm'.nodes, hm'.comps, fun j hj => ?_, hm'.ifs⟩
    rcases (mem_addSet _ _ _).mp hj with hj | rfl
    · exact hm'.nss j hj
    · exact ⟨hsns, hmk⟩
  · simp only [hmk, Bool.false_eq_true, ite_false]
    exact ⟨hm'.nodup, hm'.nodes, hm'.comps, hm'.nss, hm'.ifs⟩

theorem collectNode_ok {g : G} {d : Dir} {m : Marked} {n : Nat} (h : MarkedOK g d m) (hn : n ∈ nonFacNodes g) :
    MarkedOK g d (collectNode g d m n) := by
  unfold collectNode
  have h0 : MarkedOK g d (if d.isMarked n = true then { m with nodes := addSet m.nodes n } else m) := by
    by_cases hmk : d.isMarked n = true
    · simp only [hmk, ite_true]
      refine ⟨nodup_addSet _ _ h.nodup, fun j hj => ?_, h.comps, h.nss, h.ifs⟩
      rcases (mem_addSet _ _ _).mp hj with hj | rfl
      · exact h.nodes j hj
      · exact ⟨hn, hmk⟩
    · simp only [hmk, Bool.false_eq_true, ite_false]; exact h
  apply foldl_inv (MarkedOK g d) _ _ _ h0
  intro m' c hc hm'
  apply collectComp_ok
  by_cases hmk : d.isMarked c = true
  · simp only [hmk, ite_true]
    refine ⟨hm'.nodup, hm'.nodes, fun cn hcn => ?_, hm'.nss, hm'.ifs⟩
    split at hcn
    · exact hm'.comps cn hcn
    · rcases List.mem_append.mp hcn with hcn | hcn
      · exact hm'.comps cn hcn
      · simp only [List.mem_singleton] at hcn; subst hcn
        exact ⟨hn, mem_dictVals hc, hmk⟩
  · simp only [hmk, Bool.false_eq_true, ite_false]; exact hm'

theorem allNss_cls {g : G} (hid : (g.nodes.map (·.id)).Nodup) {s : Nat} (h : s ∈ allNss g) : g.cls? s = some .ns := by
  simp only [allNss, List.mem_map, List.mem_filter, beq_iff_eq] at h
  obtain ⟨e, ⟨he, hc⟩, rfl⟩ := h
  rw [(cls_kind_of_mem hid he).1, hc]

/-- **soundness of the collection phase**: distinct nodes out of `Topology.nodes`; components with their parent node;
services; interfaces attached to a service; all of them marked -/
theorem pruneCollect_ok (g : G) (d : Dir) (hid : (g.nodes.map (·.id)).Nodup) : MarkedOK g d (pruneCollect g d) := by
  unfold pruneCollect
  have h1 : MarkedOK g d ((topoNodes g d).foldl (collectNode g d) {}) := by
    apply foldl_inv (MarkedOK g d) _ _ _ ⟨by simp, by simp, by simp, by simp, by simp⟩
    intro m n hn hm
    exact collectNode_ok hm (mem_dictVals hn)
  apply foldl_inv (MarkedOK g d) _ _ _ h1
  intro m s hs hm
  have hsns := allNss_cls hid (mem_dictVals hs)
  split
  · exact hm
  · apply collectIfs_ok _ hsns
    by_cases hmk : d.isMarked s = true
    · simp only [hmk, ite_true]
      refine ⟨hm.nodup, hm.nodes, hm.comps, fun j hj => ?_, hm.ifs⟩
      rcases (mem_addSet _ _ _).mp hj with hj | rfl
      · exact hm.nss j hj
      · exact ⟨hsns, hmk⟩
    · simp only [hmk, Bool.false_eq_true, ite_false]; exact hm


/-! ### `prune` through its public entry point -/

theorem namesOK_ids {g : G} {d : Dir} (h : NamesOK g d = true) : (g.nodes.map (·.id)).Nodup := by
  simp only [NamesOK, Bool.and_eq_true, decide_eq_true_eq] at h; exact h.1.1.1

theorem nodup_ids_minus {g : G} (h : (g.nodes.map (·.id)).Nodup) (A : List Nat) : ((g.minus A).nodes.map (·.id)).Nodup :=
  List.Nodup.sublist (List.Sublist.map _ List.filter_sublist) h

theorem filter_eq_singleton_of_nodup_map {α β : Type} [BEq β] [LawfulBEq β] (f : α → β) : ∀ (l : List α), (l.map f).Nodup →
    ∀ e ∈ l, l.filter (fun x => f x == f e) = [e]
  | [], _, e, he => by cases he
  | x :: l, hnd, e, he => by
    simp only [List.map_cons, List.nodup_cons] at hnd
    rcases List.mem_cons.mp he with rfl | he'
    · have : l.filter (fun x => f x == f e) = [] := by
        rw [List.filter_eq_nil_iff]
        intro y hy hfy
        exact hnd.1 (by rw [← beq_iff_eq.mp hfy]; exact List.mem_map_of_mem hy)
      simp [this]
    · have hne : ¬ (f x == f e) = true := by
        intro h; exact hnd.1 (by rw [beq_iff_eq.mp h]; exact List.mem_map_of_mem he')
      simp only [List.filter_cons, hne, Bool.false_eq_true, ite_false]
      exact filter_eq_singleton_of_nodup_map f l hnd.2 e he'

/-- under `NamesOK` a node is found by its own name -/
theorem findByName_node {g : G} {d : Dir} (h : NamesOK g d = true) {n : Nat} (hn : n ∈ nonFacNodes g) :
    ∃ name, d.nameOf n = some name ∧ findByName g d .node name = .ok n ∧ g.cls? n = some .node ∧
      g.kind? n ≠ some kFacility ∧ ((g.nbrs n .has .comp).map d.nameOf).Nodup := by
  have hid := namesOK_ids h
  simp only [NamesOK, Bool.and_eq_true, decide_eq_true_eq, List.all_eq_true] at h
  obtain ⟨⟨⟨_, hnames⟩, hcomps⟩, hnamed⟩ := h
  simp only [nonFacNodes, List.mem_map, List.mem_filter, Bool.and_eq_true, beq_iff_eq, bne_iff_ne, ne_eq] at hn
  obtain ⟨e, ⟨he, hc, hk⟩, rfl⟩ := hn
  obtain ⟨hcls, hkind⟩ := cls_kind_of_mem hid he
  have hnm := hnamed e he
  obtain ⟨name, hname⟩ := Option.isSome_iff_exists.mp hnm
  refine ⟨name, hname, ?_, by rw [hcls, hc], by rw [hkind]; exact fun h' => hk (Option.some.inj h'), ?_⟩
  · have he' : e ∈ g.nodes.filter (fun e => e.cls == .node) := by simp [List.mem_filter, he, hc]
    have := filter_eq_singleton_of_nodup_map (fun e : Elem => d.nameOf e.id) _ hnames e he'
    unfold findByName
    have hfl : g.nodes.filter (fun e => e.cls == .node && d.nameOf e.id == some name) = [e] := by
      rw [← this, List.filter_filter]
      apply List.filter_congr; intro x _
      rw [hname]; exact Bool.and_comm _ _
    rw [hfl]
  · have := hcomps e he
    simpa [hc] using this

theorem pruneApi_exact (g : G) (hW : WF g = true) (d : Dir) (hN : NamesOK g d = true) :
    ∃ D, pruneApi g d = .ok (g.minus D) ∧
      ∀ y, y ∈ D ↔ OwnedS g ((pruneCollect g d).nodes ++ (pruneCollect g d).comps.map (·.1) ++ (pruneCollect g d).nss ++
        (pruneCollect g d).ifs) y := by
  have hid := namesOK_ids hN
  have hm := pruneCollect_ok g d hid
  simp only [pruneApi]
  generalize pruneCollect g d = m at hm ⊢
  -- nodes, by name
  obtain ⟨A1, hr1, _, hmem1, hA1⟩ := foldResA_nodes g hW (fun g' n => removeNodeByName g' d ((d.nameOf n).getD 0)) (by
    intro A n hA hc hk hnA
    have hn : n ∈ nonFacNodes g := by
      obtain ⟨e, he, hen, hec, _⟩ := elem_of_cls hc
      simp only [nonFacNodes, List.mem_map, List.mem_filter, Bool.and_eq_true, beq_iff_eq, bne_iff_ne, ne_eq]
      have := (cls_kind_of_mem hid he).2
      rw [hen] at this
      exact ⟨e, ⟨he, hec, fun h' => hk (by rw [this, h'])⟩, hen⟩
    obtain ⟨name, hname, hfind, _, _, hcomp⟩ := findByName_node hN hn
    have hnA' : A.contains n = false := by simpa [List.contains_eq_mem] using hnA
    simp only [hname, Option.getD_some]
    apply removeNodeByName_eq _ d name n (nodup_ids_minus hid A)
    · rw [findByName_minus hfind A, hnA']; rfl
    · rw [kind_minus, hnA']; simpa using hk
    · rw [nbrs_minus g A n _ _ hnA']
      exact List.Nodup.sublist (List.Sublist.map _ List.filter_sublist) hcomp)
    m.nodes [] (invA_nil g) hm.nodup (fun n hn => by
      obtain ⟨_, _, _, hc, hk, _⟩ := findByName_node hN (hm.nodes n hn).1
      exact ⟨hc, hk, by simp⟩)
  rw [minus_nil] at hr1
  -- components, by name through the parent
  obtain ⟨A2, hr2, _, hmem2, hA2⟩ := foldResA_guard g (fun cn : Nat × Nat => cn.1)
    (fun g' cn => nodeRemoveComponent g' d cn.2 ((d.nameOf cn.1).getD 0))
    (fun cn => cn.2 ∈ nonFacNodes g ∧ cn.1 ∈ g.nbrs cn.2 .has .comp) (by
      intro A cn hA hok hcA
      obtain ⟨_, _, _, hnc, _, hcomp⟩ := findByName_node hN hok.1
      have hcc := mem_nbrs_cls _ _ _ _ _ hok.2
      have hnA : cn.2 ∉ A := fun h' => hcA (hA.2.1 cn.2 h' cn.1 (by simp only [children, hnc]; exact List.mem_append_left _ hok.2))
      have hnA' : A.contains cn.2 = false := by simpa [List.contains_eq_mem] using hnA
      have hnamed : (d.nameOf cn.1).isSome = true := by
        obtain ⟨e, he, hen, _⟩ := elem_of_cls hcc
        simp only [NamesOK, Bool.and_eq_true, List.all_eq_true] at hN
        rw [← hen]; exact hN.2 e he
      obtain ⟨name, hname⟩ := Option.isSome_iff_exists.mp hnamed
      have : nodeRemoveComponent (g.minus A) d cn.2 ((d.nameOf cn.1).getD 0) = removeComponentApi (g.minus A) cn.1 := by
        simp only [hname, Option.getD_some]
        apply nodeRemoveComponent_eq _ d cn.2 cn.1 name
        · rw [cls_minus, hnA']; simpa using hnc
        · exact (mem_nbrs_minus g A cn.2 _ _ cn.1).mpr ⟨hnA, hok.2, hcA⟩
        · exact hname
        · rw [nbrs_minus g A cn.2 _ _ hnA']
          exact List.Nodup.sublist (List.Sublist.map _ List.filter_sublist) hcomp
      rw [this]
      exact removeComponentApi_resA g hW A hA cn.1 hcc hcA)
    (fun cn hok => cls_has (mem_nbrs_cls _ _ _ _ _ hok.2)) m.comps A1 hA1
    (fun cn hcn => ⟨(hm.comps cn hcn).1, (hm.comps cn hcn).2.1⟩)
  obtain ⟨A3, hr3, _, hmem3, hA3⟩ := foldResA_guard g id removeNsApi (fun s => g.cls? s = some .ns)
    (fun A x hA hx hxA => removeNsApi_resA g hW A hA x hx hxA) (fun x hx => cls_has hx) m.nss A2 hA2
    (fun s hs => (hm.nss s hs).1)
  obtain ⟨A4, hr4, _, hmem4, hA4⟩ := foldResA_guard g id
    (fun g' i => (disconnectDeep g' [i]).bind (fun g1 => removeCp g1 i true))
    (fun i => g.cls? i = some .cp ∧ isSub g i = false)
    (fun A x hA hx hxA => pruneIface_resA g hW A hA x hx.1 hx.2 hxA) (fun x hx => cls_has hx.1) m.ifs A3 hA3
    (fun i hi => by
      obtain ⟨⟨s, hs, his⟩, _⟩ := hm.ifs i hi
      exact ⟨mem_nbrs_cls _ _ _ _ _ his, port_not_sub hs his⟩)
  refine ⟨A4, ?_, ?_⟩
  · simp only [id] at hr3 hr4
    simp only [hr1, hr2, hr3, bind, Except.bind]; exact hr4
  · apply mem_iff_ownedS g hW _ A4 hA4.1.1
    · intro r hr
      simp only [List.mem_append, List.mem_map] at hr
      rcases hr with ((h | ⟨cn, hcn, rfl⟩) | h) | h
      · obtain ⟨_, _, _, hc, _, _⟩ := findByName_node hN (hm.nodes r h).1
        exact ⟨_, hc, by decide⟩
      · exact ⟨_, mem_nbrs_cls _ _ _ _ _ (hm.comps cn hcn).2.1, by decide⟩
      · exact ⟨_, (hm.nss r h).1, by decide⟩
      · obtain ⟨⟨s, _, his⟩, _⟩ := hm.ifs r h
        exact ⟨_, mem_nbrs_cls _ _ _ _ _ his, by decide⟩
    · intro y hy
      rw [hmem4 y hy, hmem3 y hy, hmem2 y hy, hmem1 y hy, ownS_append, ownS_append, ownS_append]
      simp [or_assoc, List.map_id]

end FimVerif.Remove
