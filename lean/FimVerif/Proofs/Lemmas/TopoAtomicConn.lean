import FimVerif.Proofs.Lemmas.TopoAtomicCtor
/-! `connect_interface` on a well-formed state: either it raises in the state it started from, or it appends exactly
the ServicePort, the Link and their three edges. -/
namespace FimVerif.Topo
open FimVerif FimVerif.M


theorem typeOf_run {i : Nid} {x : GNode} {u : Topo} (h : findNode i u = (.ok x, u)) : typeOf i u = (.ok x.typ, u) := by
  unfold typeOf; rw [bind_ok h]; rfl

theorem sameEnds_false_left {e : GEdge} {a b : Ref} (h1 : e.a ≠ a) (h2 : e.b ≠ a) : sameEnds e a b = false := by
  simp [sameEnds, h1, h2]

theorem setEdge_append {u : Topo} {a b : Ref} {rel : Rel} (h : ∀ e ∈ u.edges, sameEnds e a b = false) :
    setEdge a b rel u = { u with edges := u.edges ++ [⟨a, b, rel⟩] } := by
  unfold setEdge
  congr 1
  congr 1
  rw [List.filter_eq_self]
  intro e he
  simp [h e he]

theorem ref_ne_of_nid_ne {x y : GNode} (h : x.nid ≠ y.nid) : x.ref ≠ y.ref :=
  fun e => h (by simpa [GNode.ref] using congrArg Ref.nid e)

theorem ref_ne_of_cls_ne {x y : GNode} (h : x.cls ≠ y.cls) : x.ref ≠ y.ref :=
  fun e => h (by simpa [GNode.ref] using congrArg Ref.cls e)

/-- the link created by `connect_interface` gets a valid name whenever the ServicePort did -/
def NameHyp (t : Topo) (iname : String) : Prop :=
  ∀ o ∈ t.nodes, IsOwnerCls o.cls → validName .connectionPoint (o.name ++ "-" ++ iname) = true →
    validName .link (o.name ++ "-" ++ iname ++ "-link") = true

def connState (t : Topo) (sv fi cp ln : GNode) : Topo :=
  ⟨t.nodes ++ [cp, ln], t.edges ++ [⟨sv.ref, cp.ref, .connects⟩, ⟨ln.ref, fi.ref, .connects⟩, ⟨ln.ref, cp.ref, .connects⟩]⟩

def CnPost (t : Topo) (svc iid : Nid) (c : Nat) (cache : Cache) (r : Except Err Cache × Topo) : Prop :=
  (∃ e, r = (.error e, t)) ∨
  (∃ sv fi cp ln nm, sv ∈ t.nodes ∧ sv.nid = svc ∧ fi ∈ t.nodes ∧ fi.nid = iid ∧ peersOf iid t = (.ok [], t) ∧
     cp.cls = .connectionPoint ∧ cp.nid = .gen c ∧ cp.typ = "ServicePort" ∧ ln.cls = .link ∧ ln.nid = .gen (c + 1) ∧
     r = (.ok (cache ++ [(nm, .gen c)]), connState t sv fi cp ln))

theorem CnPost.err {t svc iid c cache} (e : Err) : CnPost t svc iid c cache (.error e, t) := .inl ⟨e, rfl⟩

theorem connect_spec' (fl : Flavour) (c : Nat) (svc iid : Nid) (iname : String) (cache : Cache) (t : Topo)
    (hd : IdsDistinct t) (hc : Closed t) (hcp : ∀ n ∈ t.nodes, n.nid = iid → n.cls = .connectionPoint)
    (hf : ∀ m ∈ t.nodes, m.nid ≠ .gen c ∧ m.nid ≠ .gen (c + 1)) :
    CnPost t svc iid c cache (connectInterface fl c svc cache (.iface iid iname) t) := by
  unfold connectInterface
  simp only []
  refine ro_step (by ro) CnPost.err (fun sv hsv => ?_)
  refine ro_step (by ro) CnPost.err (fun _ _ => ?_)
  refine ro_step (by ro) CnPost.err (fun owner hown => ?_)
  refine ro_step (by ro) CnPost.err (fun o ho => ?_)
  refine ro_step (by ro) CnPost.err (fun peers hpeers => ?_)
  refine ro_step (by ro) CnPost.err (fun _ hg => ?_)
  simp only [flag_connectNamePrecheck, if_true]
  refine ro_step (by ro) CnPost.err (fun _ hvcp => ?_)
  refine ro_step (by ro) CnPost.err (fun _ hvln => ?_)
  have hlinkname := guard_ok hvln
  have hpe : peers = [] := by have := guard_ok hg; simpa using this
  subst hpe
  have ho' : owner = some o := by cases owner <;> simp [need] at ho ⊢; exact ho
  subst ho'
  obtain ⟨⟨fi, hfi⟩, hom, hoc⟩ := ownerNode_spec hown
  obtain ⟨hfim, hfii, _⟩ := findNode_ok hfi
  obtain ⟨hsvm, hsvi, _⟩ := findNode_ok hsv
  cases fl with
  | substrate =>
    have : ifaceNew .substrate c (o.name ++ "-" ++ iname) none (some svc) (some "ServicePort") [] t = (.error .topology, t) := by
      unfold ifaceNew; rfl
    rw [bind_err this]; exact CnPost.err _
  | experiment =>
  rcases ifaceNew_cases .experiment c (o.name ++ "-" ++ iname) none svc (some "ServicePort") [] t with
    ⟨e, he⟩ | ⟨pn, n, hpn, hnew, hncls, hnid, hname, htyp, hvn, hres⟩
  · rw [bind_err he]; exact CnPost.err _
  · rw [bind_ok hres]
    have hpnsv : pn = sv := by
      have := hpn.symm.trans hsv; simpa using this
    subst hpnsv
    have hnid' : n.nid = .gen c := by simpa [pick] using hnid
    have hntyp : n.typ = "ServicePort" := by simpa using htyp.symm
    -- the state after the ServicePort was attached
    have hntouch : ¬ touches (pushNode n t).edges n.ref :=
      not_touches_of_closed (t := t) hc (fun m hm => ref_ne_of_nid_ne (hnew m hm))
    rw [setEdge_fresh hntouch]
    simp only [pick]
    have hd1 : IdsDistinct (pushNode n t) := idsDistinct_push hd hnew
    generalize hU : ({ nodes := (pushNode n t).nodes, edges := (pushNode n t).edges ++ [⟨pn.ref, n.ref, .connects⟩] } : Topo) = U1
    have hU1n : U1.nodes = t.nodes ++ [n] := by subst hU; rfl
    have hU1e : U1.edges = t.edges ++ [⟨pn.ref, n.ref, .connects⟩] := by subst hU; rfl
    have hdU : IdsDistinct U1 := by unfold IdsDistinct; rw [hU1n]; exact hd1
    have hfiU : fi ∈ U1.nodes := by rw [hU1n]; simp [hfim]
    have hnU : n ∈ U1.nodes := by rw [hU1n]; simp
    have hty := typeOf_run (findNode_of_mem hdU hfiU)
    rw [hfii] at hty
    rw [bind_ok hty]
    have hlayer : lookupD Gen.Rules.linkLayer (if (fi.typ == "SharedPort") = true then "L2Path" else "Patch") = some "L2" := by
      split <;> decide
    have hficls : fi.cls = .connectionPoint := hcp fi hfim hfii
    have hpres : IfacesPresent [IfArg.iface iid iname, IfArg.iface (Nid.gen c) (o.name ++ "-" ++ iname)] U1 := by
      intro i hi
      simp only [List.mem_cons, List.mem_nil_iff, or_false] at hi
      rcases hi with rfl | rfl
      · exact ⟨_, _, rfl, fi, hfiU, hfii, hficls⟩
      · exact ⟨_, _, rfl, n, hnU, hnid', hncls⟩
    have hfreshU : ∀ m ∈ U1.nodes, m.nid ≠ .gen (c + 1) := by
      intro m hm; rw [hU1n] at hm
      rcases List.mem_append.mp hm with hm | hm
      · exact (hf m hm).2
      · simp at hm; subst hm; rw [hnid']; simp
    obtain ⟨ln, hlc, hli, hlrun⟩ := linkNew_run (c := c + 1) (name := o.name ++ "-" ++ iname ++ "-link")
      (ty := if (fi.typ == "SharedPort") = true then "L2Path" else "Patch") (layer := "L2") hdU (by simp)
      hlinkname hlayer hpres hfreshU
    rw [bind_ok hlrun]
    refine .inr ⟨pn, fi, n, ln, o.name ++ "-" ++ iname, hsvm, hsvi, hfim, hfii, hpeers, hncls, hnid', hntyp, hlc, hli, ?_⟩
    simp only [pure_apply', Prod.mk.injEq, true_and]
    -- the two edges of the link
    have hfr : fi.ref = ⟨.connectionPoint, iid⟩ := by simp [GNode.ref, hficls, hfii]
    have hnr : n.ref = ⟨.connectionPoint, .gen c⟩ := by simp [GNode.ref, hncls, hnid']
    have hlr : ln.ref = ⟨.link, .gen (c + 1)⟩ := by simp [GNode.ref, hlc, hli]
    have hiidc : iid ≠ .gen c := by rw [← hfii]; exact (hf fi hfim).1
    have hlt : ¬ touches t.edges ln.ref :=
      not_touches_of_closed hc (fun m hm => ref_ne_of_nid_ne (by rw [hli]; exact (hf m hm).2))
    have hsl : pn.ref ≠ ln.ref := ref_ne_of_nid_ne (by rw [hli]; exact (hf pn hsvm).2)
    simp only [linkEdges, List.foldl_cons, List.foldl_nil]
    rw [← hfr, ← hnr]
    have e1 : ∀ e ∈ (pushNode ln U1).edges, sameEnds e ln.ref fi.ref = false := by
      intro e he
      have he' : e ∈ t.edges ++ [⟨pn.ref, n.ref, .connects⟩] := by rw [← hU1e]; exact he
      rcases List.mem_append.mp he' with h | h
      · exact sameEnds_false_left (fun x => hlt ⟨e, h, .inl x⟩) (fun x => hlt ⟨e, h, .inr x⟩)
      · simp at h; subst h
        exact sameEnds_false_left hsl (by rw [hnr, hlr]; simp)
    rw [setEdge_append e1]
    have e2 : ∀ e ∈ ({ pushNode ln U1 with edges := (pushNode ln U1).edges ++ [⟨ln.ref, fi.ref, .connects⟩] } : Topo).edges,
        sameEnds e ln.ref n.ref = false := by
      intro e he
      have he' : e ∈ (t.edges ++ [⟨pn.ref, n.ref, .connects⟩]) ++ [⟨ln.ref, fi.ref, .connects⟩] := by
        rw [← hU1e]; exact he
      rcases List.mem_append.mp he' with h | h
      · rcases List.mem_append.mp h with h | h
        · exact sameEnds_false_left (fun x => hlt ⟨e, h, .inl x⟩) (fun x => hlt ⟨e, h, .inr x⟩)
        · simp at h; subst h
          exact sameEnds_false_left hsl (by rw [hnr, hlr]; simp)
      · simp at h; subst h
        simp [sameEnds, hfr, hnr, hlr, hiidc]
    rw [setEdge_append e2]
    simp only [connState, pushNode, hU1n, hU1e, List.append_assoc, List.cons_append, List.nil_append]

/-- old signature (the name hypothesis is no longer needed since commit d747e04: `connect_interface` validates both
derived names before it creates anything); kept for the files that still pass it -/
theorem connect_spec (fl : Flavour) (c : Nat) (svc iid : Nid) (iname : String) (cache : Cache) (t : Topo)
    (hd : IdsDistinct t) (hc : Closed t) (hcp : ∀ n ∈ t.nodes, n.nid = iid → n.cls = .connectionPoint)
    (hf : ∀ m ∈ t.nodes, m.nid ≠ .gen c ∧ m.nid ≠ .gen (c + 1)) (_hnm : NameHyp t iname) :
    CnPost t svc iid c cache (connectInterface fl c svc cache (.iface iid iname) t) :=
  connect_spec' fl c svc iid iname cache t hd hc hcp hf

end FimVerif.Topo
