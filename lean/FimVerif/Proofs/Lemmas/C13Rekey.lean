import FimVerif.Proofs.Lemmas.C13Basic
/-! Helper lemmas for C13: `rewrite_delegations` changes only keys. -/
namespace FimVerif.Arm

/-- pointwise relation of two lists of the same length -/
inductive Forall2 {α β : Type} (R : α → β → Prop) : List α → List β → Prop
  | nil : Forall2 R [] []
  | cons {a b l l'} : R a b → Forall2 R l l' → Forall2 R (a :: l) (b :: l')

/-- `q` is `p` with at most its single key replaced by `x` -/
def KeyOnly (x : String) (p q : DelProp) : Prop :=
  q = p ∨ ∃ e, p = .dels [e] ∧ q = .dels [(x, e.2)]

theorem rekeyProp_keyOnly {p q : DelProp} {x : String} (h : rekeyProp p x = some q) : KeyOnly x p q := by
  unfold rekeyProp at h
  split at h
  · rename_i e; exact Or.inr ⟨e, rfl, (Option.some.inj h).symm⟩
  · cases h
  · exact Or.inl (Option.some.inj h).symm

/-- the per-node relation: everything but the keys of single-entry delegation properties is the same -/
def NodeKeyOnly (x : String) (n m : Node) : Prop :=
  m.id = n.id ∧ m.cls = n.cls ∧ m.props = n.props ∧ KeyOnly x n.ldel m.ldel ∧ KeyOnly x n.cdel m.cdel

theorem NodeKeyOnly.refl (x : String) (n : Node) : NodeKeyOnly x n n := ⟨rfl, rfl, rfl, Or.inl rfl, Or.inl rfl⟩

theorem Node.rekey_keyOnly {n m : Node} {x : String} (h : n.rekey x = some m) : NodeKeyOnly x n m := by
  unfold Node.rekey at h
  split at h
  · rename_i l c hl hc
    cases h
    exact ⟨rfl, rfl, rfl, rekeyProp_keyOnly hl, rekeyProp_keyOnly hc⟩
  · cases h

theorem forall2_refl {α : Type} {R : α → α → Prop} (hR : ∀ a, R a a) (l : List α) : Forall2 R l l := by
  induction l with
  | nil => exact .nil
  | cons a l ih => exact .cons (hR a) ih

/-- whatever the outcome, `rewrite_delegations` changes nothing but keys -/
theorem rekeyNodes_keyOnly (x : String) (ns : List Node) : Forall2 (NodeKeyOnly x) ns (rekeyNodes x ns).2 := by
  induction ns with
  | nil => exact .nil
  | cons n ns ih =>
    unfold rekeyNodes
    cases h : n.rekey x with
    | none => exact forall2_refl (NodeKeyOnly.refl x) _
    | some m => exact .cons (Node.rekey_keyOnly h) ih

/-- when it does not raise, every node was re-keyed -/
theorem rekeyNodes_ok (x : String) (ns : List Node) (h : (rekeyNodes x ns).1 = false) :
    Forall2 (fun n m => n.rekey x = some m) ns (rekeyNodes x ns).2 := by
  induction ns with
  | nil => exact .nil
  | cons n ns ih =>
    unfold rekeyNodes at h ⊢
    cases hn : n.rekey x with
    | none => simp [hn] at h
    | some m =>
      simp only [hn] at h ⊢
      exact .cons hn (ih h)

theorem rekeyNodes_of_all_some (x : String) (ns : List Node) (h : ∀ n ∈ ns, (n.rekey x).isSome = true) :
    (rekeyNodes x ns).1 = false := by
  induction ns with
  | nil => rfl
  | cons n ns ih =>
    unfold rekeyNodes
    have hn := h n (List.mem_cons_self ..)
    cases hr : n.rekey x with
    | none => simp [hr] at hn
    | some m => simp only; exact ih (fun n' h' => h n' (List.mem_cons_of_mem _ h'))

theorem rekeyProp_restrict_isSome (p : DelProp) (d x : String) : (rekeyProp (p.restrict d) x).isSome = true := by
  unfold DelProp.restrict
  split <;> simp [rekeyProp]

theorem rekeyProp_not_isDels {p : DelProp} (h : p.isDels = false) (x : String) : rekeyProp p x = some p := by
  cases p <;> simp_all [rekeyProp, DelProp.isDels]

theorem Node.rekey_rewrite_isSome (n : Node) (d x : String) : ((n.rewrite d).rekey x).isSome = true := by
  by_cases hc : n.catalogued = true
  · unfold Node.rekey
    rw [Node.rewrite_ldel_of_catalogued d hc, Node.rewrite_cdel_of_catalogued d hc]
    have h1 := rekeyProp_restrict_isSome n.ldel d x
    have h2 := rekeyProp_restrict_isSome n.cdel d x
    cases hl : rekeyProp (n.ldel.restrict d) x <;> cases hcd : rekeyProp (n.cdel.restrict d) x <;> simp_all
  · have hc' : n.catalogued = false := by simpa using hc
    have hr : n.rewrite d = n := by unfold Node.rewrite; simp [hc']
    unfold Node.catalogued at hc'
    simp only [Bool.or_eq_false_iff] at hc'
    unfold Node.rekey
    rw [hr, rekeyProp_not_isDels hc'.1, rekeyProp_not_isDels hc'.2]
    simp

/-! composition, re-keying to the present key -/

theorem rekeyNodes_cons_some {x : String} {n m : Node} (ns : List Node) (h : n.rekey x = some m) :
    rekeyNodes x (n :: ns) = ((rekeyNodes x ns).1, m :: (rekeyNodes x ns).2) := by
  rw [rekeyNodes]; simp [h]

theorem rekeyNodes_cons_none {x : String} {n : Node} (ns : List Node) (h : n.rekey x = none) :
    rekeyNodes x (n :: ns) = (true, n :: ns) := by
  rw [rekeyNodes]; simp [h]

/-- re-keying composes on one property: re-keying the result to `b` is re-keying the original to `b` -/
theorem rekeyProp_comp {p q : DelProp} {a : String} (b : String) (h : rekeyProp p a = some q) :
    rekeyProp q b = rekeyProp p b := by
  unfold rekeyProp at h
  split at h
  · cases h; simp [rekeyProp]
  · cases h
  · cases h; rfl

/-- whether re-keying raises does not depend on the new key -/
theorem rekeyProp_isSome_indep (p : DelProp) (a b : String) : (rekeyProp p a).isSome = (rekeyProp p b).isSome := by
  unfold rekeyProp; split <;> rfl

/-- re-keying to the key already present changes nothing -/
theorem rekeyProp_present (x v : String) : rekeyProp (.dels [(x, v)]) x = some (.dels [(x, v)]) := rfl

theorem Node.rekey_isSome_indep (n : Node) (a b : String) : (n.rekey a).isSome = (n.rekey b).isSome := by
  unfold Node.rekey
  have h1 := rekeyProp_isSome_indep n.ldel a b
  have h2 := rekeyProp_isSome_indep n.cdel a b
  cases h3 : rekeyProp n.ldel a <;> cases h4 : rekeyProp n.cdel a <;>
    cases h5 : rekeyProp n.ldel b <;> cases h6 : rekeyProp n.cdel b <;> simp_all

theorem Node.rekey_comp {n m : Node} {a : String} (b : String) (h : n.rekey a = some m) : m.rekey b = n.rekey b := by
  unfold Node.rekey at h
  split at h
  · rename_i l c hl hc
    cases h
    unfold Node.rekey
    simp only [rekeyProp_comp b hl, rekeyProp_comp b hc]
  · cases h

/-- re-keying composes: after a re-keying to `a` that did not raise, re-keying to `b` gives what re-keying the
original to `b` gives -/
theorem rekeyNodes_comp (a b : String) (ns : List Node) (h : (rekeyNodes a ns).1 = false) :
    rekeyNodes b (rekeyNodes a ns).2 = rekeyNodes b ns := by
  induction ns with
  | nil => rfl
  | cons n ns ih =>
    cases hn : n.rekey a with
    | none => rw [rekeyNodes_cons_none ns hn] at h; cases h
    | some m =>
      rw [rekeyNodes_cons_some ns hn] at h ⊢
      simp only at h ⊢
      have hsome : (n.rekey b).isSome = true := by rw [← Node.rekey_isSome_indep n a b, hn]; rfl
      cases hb : n.rekey b with
      | none => simp [hb] at hsome
      | some m' =>
        have hm : m.rekey b = some m' := by rw [Node.rekey_comp b hn, hb]
        rw [rekeyNodes_cons_some _ hm, rekeyNodes_cons_some _ hb, ih h]

/-- a delegation property is keyed by `x`: not an object, or a single entry under `x` -/
def KeyedBy (x : String) (p : DelProp) : Prop := p.isDels = false ∨ ∃ v, p = .dels [(x, v)]

theorem rekeyProp_keyedBy {x : String} {p : DelProp} (h : KeyedBy x p) : rekeyProp p x = some p := by
  rcases h with h | ⟨v, rfl⟩
  · exact rekeyProp_not_isDels h x
  · rfl

theorem rekeyNodes_present (x : String) (ns : List Node)
    (h : ∀ n ∈ ns, KeyedBy x n.ldel ∧ KeyedBy x n.cdel) : rekeyNodes x ns = (false, ns) := by
  induction ns with
  | nil => rfl
  | cons n ns ih =>
    have hn := h n (List.mem_cons_self ..)
    have : n.rekey x = some n := by
      unfold Node.rekey; rw [rekeyProp_keyedBy hn.1, rekeyProp_keyedBy hn.2]
    rw [rekeyNodes_cons_some ns this, ih (fun n' h' => h n' (List.mem_cons_of_mem _ h'))]

end FimVerif.Arm
