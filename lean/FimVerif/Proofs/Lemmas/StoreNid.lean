import FimVerif.Proofs.Lemmas.StoreIdentOps
import FimVerif.Proofs.Lemmas.StoreClone
/-! C05: NodeID uniqueness within a graph (`UniqueNid`), groundwork. Core only. -/
namespace FimVerif.Store
open FimVerif FimVerif.Gen.StoreConsts

def nidA (n : SNode) : Option Val := AMap.get nodeId n.attrs

/-- within graph `g` no two nodes carry the same `NodeID` (whatever their classes) -/
def UniqueNid (s : Store) (g : String) : Prop := ((nodesOf s g).map nidA).Nodup

/-- the NodeID lists of all graphs only lose entries -/
def Shrinks (s s' : Store) : Prop := ∀ g, List.Sublist ((nodesOf s' g).map nidA) ((nodesOf s g).map nidA)

theorem Shrinks.refl (s : Store) : Shrinks s s := fun _ => List.Sublist.refl _
theorem Shrinks.trans {s s1 s2 : Store} (h1 : Shrinks s s1) (h2 : Shrinks s1 s2) : Shrinks s s2 :=
  fun g => (h2 g).trans (h1 g)
theorem Shrinks.unique {s s' : Store} (h : Shrinks s s') (g : String) (hu : UniqueNid s g) : UniqueNid s' g :=
  List.Nodup.sublist (h g) hu

theorem shrinks_of_nodes_eq (s s' : Store) (h : s'.nodes = s.nodes) : Shrinks s s' := by
  intro g; unfold nodesOf; rw [h]; exact List.Sublist.refl _

theorem shrinks_filter (s s' : Store) (q : SNode → Bool) (h : s'.nodes = s.nodes.filter q) : Shrinks s s' := by
  intro g
  unfold nodesOf
  rw [h, List.filter_filter]
  apply List.Sublist.map
  have : (s.nodes.filter (fun a => inG g a && q a)) = (s.nodes.filter (inG g)).filter q := by
    rw [List.filter_filter]; congr 1; funext a; exact Bool.and_comm _ _
  rw [this]; exact List.filter_sublist

theorem filter_map_comm {α : Type} (F : α → α) (p : α → Bool) (l : List α) (h : ∀ a ∈ l, p (F a) = p a) :
    (l.map F).filter p = (l.filter p).map F := by
  induction l with
  | nil => rfl
  | cons a l ih =>
    have ih' := ih (fun b hb => h b (by simp [hb]))
    simp only [List.map_cons, List.filter_cons, h a (by simp), ih']
    cases p a <;> simp

theorem shrinks_updNodes (s : Store) (c : SNode → Bool) (f : Props → Props)
    (hg : ∀ n ∈ s.nodes, c n = true → AMap.get graphId (f n.attrs) = AMap.get graphId n.attrs)
    (hn : ∀ n ∈ s.nodes, c n = true → AMap.get nodeId (f n.attrs) = AMap.get nodeId n.attrs) :
    Shrinks s { s with nodes := s.nodes.map (fun n => if c n then { n with attrs := f n.attrs } else n) } := by
  intro g
  unfold nodesOf
  simp only
  rw [filter_map_comm]
  · rw [List.map_map]
    have e : (s.nodes.filter (inG g)).map (nidA ∘ fun n => if c n = true then { iid := n.iid, attrs := f n.attrs } else n)
        = (s.nodes.filter (inG g)).map nidA := by
      apply List.map_congr_left
      intro n hn'
      have hn'' := (List.mem_filter.1 hn').1
      by_cases h : c n
      · simp [Function.comp, h, nidA, hn n hn'' h]
      · simp [Function.comp, h]
    rw [e]; exact List.Sublist.refl _
  · intro n hn'
    by_cases h : c n
    · simp [h, inG, hg n hn' h]
    · simp [h]

theorem shrinks_updNode (s : Store) (i : Nat) (f : Props → Props)
    (hg : ∀ n ∈ s.nodes, n.iid = i → AMap.get graphId (f n.attrs) = AMap.get graphId n.attrs)
    (hn : ∀ n ∈ s.nodes, n.iid = i → AMap.get nodeId (f n.attrs) = AMap.get nodeId n.attrs) :
    Shrinks s (updNode i f s) := by
  have := shrinks_updNodes s (fun n => decide (n.iid = i)) f (fun n h hc => hg n h (by simpa using hc))
    (fun n h hc => hn n h (by simpa using hc))
  simpa [updNode] using this

theorem shrinks_addEdge (a b : Nat) (attrs : Props) (s : Store) : Shrinks s (addEdge a b attrs s) := by
  unfold addEdge; split <;> exact shrinks_of_nodes_eq _ _ rfl

theorem shrinks_delIfPresent (g : String) (s : Store) : Shrinks s (delIfPresent g s) := by
  unfold delIfPresent; split
  · exact shrinks_filter s _ _ rfl
  · exact Shrinks.refl _

theorem shrinks_contract (u v : Nat) (s : Store) : Shrinks s (contract u v s) := by
  apply shrinks_filter s _ (fun n => n.iid != v)
  unfold contract
  simp only
  rw [(remapEdges_nodes u v _ _).1]; rfl

/-- `appendGraph` of nodes that all carry `GraphID = g`: other graphs keep their NodeID lists, `g` gains
    the new NodeIDs at the end -/
theorem nids_appendGraph (s : Store) (g : String) (ns : List Props) (es : List (Nat × Nat × Props))
    (hns : ∀ a ∈ ns, AMap.get graphId a = some (.str g)) (g' : String) :
    (nodesOf (appendGraph ns es s) g').map nidA =
      (nodesOf s g').map nidA ++ (if g' = g then ns.map (AMap.get nodeId) else []) := by
  simp only [nodesOf, appendGraph, List.filter_append, List.map_append]
  congr 1
  by_cases e : g' = g
  · subst e
    rw [filter_relabel_all g' _ _ hns, if_pos rfl]
    have : ∀ (base : Nat) (l : List Props), (relabel base l).map nidA = l.map (AMap.get nodeId) := by
      intro base l
      induction l generalizing base with
      | nil => rfl
      | cons a l ih => simp [relabel, ih, nidA]
    exact this _ _
  · rw [if_neg e]
    have : (relabel s.nextId ns).filter (inG g') = [] := by
      rw [List.filter_eq_nil_iff]
      intro n hn
      have := allInRel g s.nextId ns hns n hn
      intro h2
      exact e (inG_unique n g' g h2 this)
    rw [this]; rfl
where
  allInRel (g : String) (base : Nat) (l : List Props) (hl : ∀ a ∈ l, AMap.get graphId a = some (.str g)) :
      ∀ n ∈ relabel base l, inG g n = true := by
    have := filter_relabel_all g base l hl
    intro n hn
    rw [← this] at hn
    exact (List.mem_filter.1 hn).2

end FimVerif.Store
