import FimVerif.Proofs.Lemmas.C11Attrs
/-!
C11: the direct (fold-free) description `spec` of the authorization attributes of a slice and the proof that the
collecting fold computes exactly it, key by key.
-/
namespace FimVerif.Authz
open FimVerif.Gen.Authz

/-! ### generated-table facts -/

theorem lut_keys (t : String) (k : Key) (h : lutFind t nstypeLut = some k) :
    k ∈ nstypeLut.map (·.2) := lutFind_mem t k nstypeLut h

/-- the service-type table only targets attributes no other statement of the collector writes -/
theorem lut_disjoint : ∀ k ∈ nstypeLut.map (·.2),
    k ≠ .RESOURCE_TYPE ∧ k ≠ .RESOURCE_CPU ∧ k ≠ .RESOURCE_RAM ∧ k ≠ .RESOURCE_DISK ∧ k ≠ .RESOURCE_BW ∧
    k ≠ .RESOURCE_SITE ∧ k ≠ .RESOURCE_COMPONENT ∧ k ≠ .RESOURCE_FACILITY_PORT := by decide

theorem not_listed (P : List (Option String)) (s : SvcS) (k : Key)
    (hk : k = .RESOURCE_TYPE ∨ k = .RESOURCE_CPU ∨ k = .RESOURCE_RAM ∨ k = .RESOURCE_DISK ∨ k = .RESOURCE_BW ∨
          k = .RESOURCE_SITE ∨ k = .RESOURCE_COMPONENT ∨ k = .RESOURCE_FACILITY_PORT) : ¬ listedUnder P s k := by
  intro h
  have := lut_disjoint k (lut_keys _ _ h.1)
  rcases hk with rfl | rfl | rfl | rfl | rfl | rfl | rfl | rfl <;> simp at this

/-! ### the direct description -/

def optVal (o : Option Val) : List Val := o.toList

def siteVal (site : String) : List Val := if site ≠ "" then [.s site] else []

/-- the values a slice contributes to attribute `k`, read off the slice directly -/
def spec (sl : Slice) (k : Key) : List Val :=
  let P := inPorts sl.ifaces
  match k with
  | .RESOURCE_TYPE => if sl.nodes.any (fun n => decide (n.ntype = switchNodeType)) then [.s switchType] else [.s initType]
  | .RESOURCE_CPU => sl.nodes.flatMap fun n => optVal (n.caps.map fun c => .i c.core)
  | .RESOURCE_RAM => sl.nodes.flatMap fun n => optVal (n.caps.map fun c => .i c.ram)
  | .RESOURCE_DISK => sl.nodes.flatMap fun n => optVal (n.caps.map fun c => .i c.disk)
  | .RESOURCE_COMPONENT => sl.nodes.flatMap fun n => (n.comps.getD []).map Val.s
  | .RESOURCE_BW => sl.svcs.flatMap fun s => optVal (s.bw.map Val.i)
  | .RESOURCE_SITE => dedup ((sl.nodes.flatMap fun n => siteVal n.site) ++ (sl.svcs.flatMap fun s => siteVal s.site))
  | .RESOURCE_FACILITY_PORT => sl.facs.map Val.s
  | k => dedup ((sl.svcs.filter fun s => decide (listedUnder P s k)).map fun s => .s (effSite s))

/-! ### folds of views -/

theorem foldl_view_app {α : Type} (view : α → List Val → List Val) (c : α → List Val) (h : ∀ x l, view x l = l ++ c x)
    (xs : List α) (l0 : List Val) : xs.foldl (fun l x => view x l) l0 = l0 ++ xs.flatMap c := by
  rw [foldl_congr_fun _ (fun l x => l ++ c x) (fun l x => h x l)]; exact foldl_app c xs l0

theorem foldl_view_ins {α : Type} (view : α → List Val → List Val) (c : α → List Val) (h : ∀ x l, view x l = insAll l (c x))
    (xs : List α) (l0 : List Val) : xs.foldl (fun l x => view x l) l0 = insAll l0 (xs.flatMap c) := by
  rw [foldl_congr_fun _ (fun l x => insAll l (c x)) (fun l x => h x l)]; exact foldl_insAll c xs l0

theorem foldl_view_id {α : Type} (view : α → List Val → List Val) (h : ∀ x l, view x l = l)
    (xs : List α) (l0 : List Val) : xs.foldl (fun l x => view x l) l0 = l0 := by
  rw [foldl_congr_fun _ (fun l _ => l) (fun l x => h x l)]; exact foldl_id xs l0

theorem foldl_override {α : Type} (p : α → Bool) (v : List Val) (xs : List α) (l0 : List Val) :
    xs.foldl (fun l x => if p x then v else l) l0 = if xs.any p then v else l0 := by
  induction xs generalizing l0 with
  | nil => simp
  | cons x xs ih =>
    simp only [List.foldl_cons, ih, List.any_cons]
    by_cases hx : p x <;> simp [hx]

theorem flatMap_listed {α : Type} (p : α → Prop) [DecidablePred p] (v : α → Val) (xs : List α) :
    xs.flatMap (fun x => if p x then [v x] else []) = (xs.filter fun x => decide (p x)).map v := by
  induction xs with
  | nil => rfl
  | cons x xs ih =>
    simp only [List.flatMap_cons, ih, List.filter_cons]
    by_cases hx : p x <;> simp [hx]

/-! ### views, key by key -/

theorem ins_eq_insAll (l : List Val) (v : Val) : ins l v = insAll l [v] := rfl

theorem insAll_nil (l : List Val) : insAll l [] = l := rfl

theorem svcView_plain (P : List (Option String)) (s : SvcS) (k : Key) (l : List Val)
    (h1 : k ≠ .RESOURCE_BW) (h2 : k ≠ .RESOURCE_SITE) :
    svcView P s k l = insAll l (if listedUnder P s k then [.s (effSite s)] else []) := by
  unfold svcView
  cases s.bw <;> simp only [h1, h2, false_and, if_false] <;> split <;> rfl

theorem nodeView_plain (n : NodeS) (k : Key) (l : List Val)
    (h1 : k ≠ .RESOURCE_TYPE) (h2 : k ≠ .RESOURCE_CPU) (h3 : k ≠ .RESOURCE_RAM) (h4 : k ≠ .RESOURCE_DISK)
    (h5 : k ≠ .RESOURCE_SITE) (h6 : k ≠ .RESOURCE_COMPONENT) : nodeView n k l = l := by
  unfold nodeView
  cases n.caps <;> simp [h1, h2, h3, h4, h5, h6]

theorem facView_plain (f : String) (k : Key) (l : List Val) (h : k ≠ .RESOURCE_FACILITY_PORT) : facView f k l = l := by
  unfold facView; simp [h]

/-- the three folds of `collect`, projected on one key -/
theorem get_collect (sl : Slice) (k : Key) :
    get (collect sl) k =
      sl.facs.foldl (fun l f => facView f k l)
        (sl.svcs.foldl (fun l s => svcView (inPorts sl.ifaces) s k l)
          (sl.nodes.foldl (fun l n => nodeView n k l) (get init k))) := by
  unfold collect
  rw [get_foldl facStep facView get_facStep, get_foldl (svcStep _) (svcView _) (get_svcStep _),
    get_foldl nodeStep nodeView get_nodeStep]

theorem get_init (k : Key) : get init k = if k = .RESOURCE_TYPE then [.s initType] else [] := by
  cases k <;> simp [init, get]

/-- keys only the service-type table can write -/
theorem spec_other (sl : Slice) (k : Key)
    (h1 : k ≠ .RESOURCE_TYPE) (h2 : k ≠ .RESOURCE_CPU) (h3 : k ≠ .RESOURCE_RAM) (h4 : k ≠ .RESOURCE_DISK)
    (h5 : k ≠ .RESOURCE_SITE) (h6 : k ≠ .RESOURCE_COMPONENT) (h7 : k ≠ .RESOURCE_BW) (h8 : k ≠ .RESOURCE_FACILITY_PORT) :
    get (collect sl) k =
      dedup ((sl.svcs.filter fun s => decide (listedUnder (inPorts sl.ifaces) s k)).map fun s => .s (effSite s)) := by
  rw [get_collect, get_init, if_neg h1,
    foldl_view_id _ (fun f l => facView_plain f k l h8),
    foldl_view_ins _ _ (fun s l => svcView_plain _ s k l h7 h5),
    foldl_view_id _ (fun n l => nodeView_plain n k l h1 h2 h3 h4 h5 h6), flatMap_listed]
  rfl

theorem svcView_none (P : List (Option String)) (s : SvcS) (k : Key) (l : List Val)
    (h1 : k ≠ .RESOURCE_BW) (h2 : k ≠ .RESOURCE_SITE)
    (hk : k = .RESOURCE_TYPE ∨ k = .RESOURCE_CPU ∨ k = .RESOURCE_RAM ∨ k = .RESOURCE_DISK ∨ k = .RESOURCE_BW ∨
          k = .RESOURCE_SITE ∨ k = .RESOURCE_COMPONENT ∨ k = .RESOURCE_FACILITY_PORT) : svcView P s k l = l := by
  rw [svcView_plain _ s _ l h1 h2, if_neg (not_listed _ s _ hk)]; rfl

theorem collect_spec_aux (sl : Slice) (k : Key) : get (collect sl) k = spec sl k := by
  cases k
  case RESOURCE_TYPE =>
    have hn : ∀ (n : NodeS) (l : List Val), nodeView n .RESOURCE_TYPE l
        = if decide (n.ntype = switchNodeType) then [.s switchType] else l := by
      intro n l; unfold nodeView; cases n.caps <;> by_cases h : n.ntype = switchNodeType <;> simp [h]
    rw [get_collect, get_init, if_pos rfl,
      foldl_view_id _ (fun f l => facView_plain f _ l (by decide)),
      foldl_view_id _ (fun s l => svcView_none _ s _ l (by decide) (by decide) (by simp)),
      foldl_congr_fun _ _ (fun l n => hn n l), foldl_override]
    rfl
  case RESOURCE_CPU =>
    rw [get_collect, get_init, if_neg (by decide),
      foldl_view_id _ (fun f l => facView_plain f _ l (by decide)),
      foldl_view_id _ (fun s l => svcView_none _ s _ l (by decide) (by decide) (by simp)),
      foldl_view_app _ (fun n => optVal (n.caps.map fun c => .i c.core)) (fun n l => by
        unfold nodeView; cases n.caps <;> simp [optVal])]
    simp [spec]
  case RESOURCE_RAM =>
    rw [get_collect, get_init, if_neg (by decide),
      foldl_view_id _ (fun f l => facView_plain f _ l (by decide)),
      foldl_view_id _ (fun s l => svcView_none _ s _ l (by decide) (by decide) (by simp)),
      foldl_view_app _ (fun n => optVal (n.caps.map fun c => .i c.ram)) (fun n l => by
        unfold nodeView; cases n.caps <;> simp [optVal])]
    simp [spec]
  case RESOURCE_DISK =>
    rw [get_collect, get_init, if_neg (by decide),
      foldl_view_id _ (fun f l => facView_plain f _ l (by decide)),
      foldl_view_id _ (fun s l => svcView_none _ s _ l (by decide) (by decide) (by simp)),
      foldl_view_app _ (fun n => optVal (n.caps.map fun c => .i c.disk)) (fun n l => by
        unfold nodeView; cases n.caps <;> simp [optVal])]
    simp [spec]
  case RESOURCE_COMPONENT =>
    rw [get_collect, get_init, if_neg (by decide),
      foldl_view_id _ (fun f l => facView_plain f _ l (by decide)),
      foldl_view_id _ (fun s l => svcView_none _ s _ l (by decide) (by decide) (by simp)),
      foldl_view_app _ (fun n => (n.comps.getD []).map Val.s) (fun n l => by
        unfold nodeView; cases n.caps <;> simp)]
    simp [spec]
  case RESOURCE_BW =>
    rw [get_collect, get_init, if_neg (by decide),
      foldl_view_id _ (fun f l => facView_plain f _ l (by decide)),
      foldl_view_app _ (fun s => optVal (s.bw.map Val.i)) (fun s l => by
        have := not_listed (inPorts sl.ifaces) s .RESOURCE_BW (by simp)
        unfold svcView; cases s.bw <;> simp [optVal, this]),
      foldl_view_id _ (fun n l => nodeView_plain n _ l (by decide) (by decide) (by decide) (by decide) (by decide) (by decide))]
    simp [spec]
  case RESOURCE_SITE =>
    rw [get_collect, get_init, if_neg (by decide),
      foldl_view_id _ (fun f l => facView_plain f _ l (by decide)),
      foldl_view_ins _ (fun s => siteVal s.site) (fun s l => by
        have := not_listed (inPorts sl.ifaces) s .RESOURCE_SITE (by simp)
        unfold svcView siteVal; cases s.bw <;> by_cases h : s.site = "" <;> simp [h, this, insAll_nil, ins_eq_insAll]),
      foldl_view_ins _ (fun n => siteVal n.site) (fun n l => by
        unfold nodeView siteVal; cases n.caps <;> by_cases h : n.site = "" <;> simp [h, insAll_nil, ins_eq_insAll]),
      ← insAll_append]
    rfl
  case RESOURCE_FACILITY_PORT =>
    rw [get_collect, get_init, if_neg (by decide),
      foldl_view_app _ (fun f => [Val.s f]) (fun f l => by unfold facView; simp),
      foldl_view_id _ (fun s l => svcView_none _ s _ l (by decide) (by decide) (by simp)),
      foldl_view_id _ (fun n l => nodeView_plain n _ l (by decide) (by decide) (by decide) (by decide) (by decide) (by decide))]
    have hm : ∀ fs : List String, List.flatMap (fun f => [Val.s f]) fs = List.map Val.s fs := by
      intro fs; induction fs with
      | nil => rfl
      | cons f fs ih => simp [List.flatMap_cons, ih]
    simp [spec, hm]
  all_goals exact spec_other sl _ (by decide) (by decide) (by decide) (by decide) (by decide) (by decide) (by decide) (by decide)

end FimVerif.Authz
