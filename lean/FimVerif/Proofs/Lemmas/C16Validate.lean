import FimVerif.Model.Validate16
import FimVerif.Proofs.Lemmas.C16Regex
/-! Lemmas about the validation model: what a successful check implies, and what makes a check succeed. -/
namespace FimVerif.V16
open FimVerif.Regex FimVerif.Gen.Validators

theorem matches_iff' (r : Re) (s : List Char) : r.matches s = true ↔ r.L s := by
  induction s generalizing r with
  | nil => simpa [Re.matches] using nullable_iff r
  | cons c s ih => simp only [Re.matches]; rw [ih, der_iff]

/-- The documented domain of label field `k`: the language of its regex (if it has one) and its range predicate
(if it has one). -/
def InDomain (k : String) (s : List Char) : Prop :=
  (∀ r, labelRegex.lookup k = some r → r.L s) ∧ (∀ cs, labelRange.lookup k = some cs → evalRange s cs = .ok true)

def Unvalidated (k : String) : Prop := labelRegex.lookup k = none ∧ labelRange.lookup k = none

def ItemOk (k : String) : Item → Prop
  | .str s => InDomain k s
  | .other => False              -- a list element that is not a str is never stored (the assertion in _set_fields)

def ValOk (k : String) : Val → Prop
  | .none => True
  | .str s => InDomain k s
  | .list xs => ∀ i ∈ xs, ItemOk k i
  | .other => False

/-- every stored field value is inside the documented domain of its field -/
def Valid (o : LObj) : Prop := ∀ kv ∈ o, ValOk kv.1 kv.2

theorem valid_default : Valid defaultObj := by
  intro kv h
  simp only [defaultObj, List.mem_map] at h
  obtain ⟨f, _, rfl⟩ := h
  trivial

theorem valid_setKey {o : LObj} {k : String} {v : Val} (ho : Valid o) (hv : ValOk k v) : Valid (setKey k v o) := by
  induction o with
  | nil => intro kv h; simp [setKey] at h
  | cons a t ih =>
    obtain ⟨k', v'⟩ := a
    have ht : Valid t := fun kv h => ho kv (List.mem_cons_of_mem _ h)
    simp only [setKey]
    by_cases hk : (k' == k) = true
    · rw [if_pos hk]
      intro kv h
      simp only [List.mem_cons] at h
      cases h with
      | inl h => subst h; have : k' = k := by simpa using hk
                 subst this; exact hv
      | inr h => exact ht kv h
    · rw [if_neg hk]
      intro kv h
      simp only [List.mem_cons] at h
      cases h with
      | inl h => subst h; exact ho (k', v') (List.mem_cons_self ..)
      | inr h => exact ih ht kv h

/-! regex / range checks over list elements -/

theorem regexItems_ok {r : Re} : ∀ {xs : List Item}, regexItems r xs = .ok () →
    ∀ i ∈ xs, ∃ s, i = .str s ∧ accepts labelAnchorList r s = true := by
  intro xs
  induction xs with
  | nil => intro _ i h; simp at h
  | cons a t ih =>
    intro h i hi
    cases a with
    | other => simp [regexItems, throw, throwThe, MonadExceptOf.throw] at h
    | str s =>
      simp only [regexItems] at h
      by_cases hm : accepts labelAnchorList r s = true
      · simp only [hm, if_true] at h
        simp only [List.mem_cons] at hi
        cases hi with
        | inl hi => exact ⟨s, hi, hm⟩
        | inr hi => exact ih h i hi
      · simp [hm, throw, throwThe, MonadExceptOf.throw] at h

theorem regexItems_of {r : Re} : ∀ {xs : List Item},
    (∀ i ∈ xs, ∃ s, i = .str s ∧ accepts labelAnchorList r s = true) → regexItems r xs = .ok () := by
  intro xs
  induction xs with
  | nil => intro _; rfl
  | cons a t ih =>
    intro h
    obtain ⟨s, rfl, hs⟩ := h a (List.mem_cons_self ..)
    simp only [regexItems, hs, if_true]
    exact ih (fun i hi => h i (List.mem_cons_of_mem _ hi))

theorem rangeItems_ok {cs : List Cmp} : ∀ {xs : List Item}, rangeItems cs xs = .ok () →
    ∀ i ∈ xs, ∃ s, i = .str s ∧ evalRange s cs = .ok true := by
  intro xs
  induction xs with
  | nil => intro _ i h; simp at h
  | cons a t ih =>
    intro h i hi
    cases a with
    | other => simp [rangeItems, throw, throwThe, MonadExceptOf.throw] at h
    | str s =>
      simp only [rangeItems] at h
      cases he : evalRange s cs with
      | error e => simp [he] at h
      | ok b =>
        cases b with
        | false => simp [he, throw, throwThe, MonadExceptOf.throw] at h
        | true =>
          simp only [he] at h
          simp only [List.mem_cons] at hi
          cases hi with
          | inl hi => exact ⟨s, hi, he⟩
          | inr hi => exact ih h i hi

theorem rangeItems_of {cs : List Cmp} : ∀ {xs : List Item},
    (∀ i ∈ xs, ∃ s, i = .str s ∧ evalRange s cs = .ok true) → rangeItems cs xs = .ok () := by
  intro xs
  induction xs with
  | nil => intro _; rfl
  | cons a t ih =>
    intro h
    obtain ⟨s, rfl, hs⟩ := h a (List.mem_cons_self ..)
    simp only [rangeItems, hs]
    exact ih (fun i hi => h i (List.mem_cons_of_mem _ hi))


theorem accepts_full {r : Re} {s : List Char} : accepts .full r s = true ↔ r.L s := by
  simp only [accepts]; exact matches_iff' r s

/-- successful checks put the value inside the documented domain (call sites anchored with fullmatch) -/
theorem checks_valOk {k : String} {v : Val} (hl : labelAnchorList = .full) (hs : labelAnchorScalar = .full)
    (h1 : checkRegex k v = .ok ()) (h2 : checkRange k v = .ok ()) (hn : v ≠ .none) (ho : v ≠ .other)
    (hno : v.hasOther = false) : ValOk k v := by
  cases v with
  | none => exact absurd rfl hn
  | other => exact absurd rfl ho
  | str s =>
    refine ⟨?_, ?_⟩
    · intro r hr
      simp only [checkRegex, hr, hs] at h1
      by_cases hm : accepts .full r s = true
      · exact accepts_full.mp hm
      · simp [hm, throw, throwThe, MonadExceptOf.throw] at h1
    · intro cs hc
      simp only [checkRange, hc] at h2
      cases he : evalRange s cs with
      | error e => simp [he] at h2
      | ok b => cases b with
        | true => rfl
        | false => simp [he, throw, throwThe, MonadExceptOf.throw] at h2
  | list xs =>
    intro i hi
    cases hr : labelRegex.lookup k with
    | some r =>
      simp only [checkRegex, hr] at h1
      obtain ⟨s, rfl, hs'⟩ := regexItems_ok h1 i hi
      rw [hl] at hs'
      refine ⟨fun r' hr' => ?_, fun cs hc => ?_⟩
      · rw [hr] at hr'; cases hr'; exact accepts_full.mp hs'
      · simp only [checkRange, hc] at h2
        obtain ⟨s', he, hv⟩ := rangeItems_ok h2 _ hi
        cases he; exact hv
    | none =>
      cases hc : labelRange.lookup k with
      | some cs =>
        simp only [checkRange, hc] at h2
        obtain ⟨s, rfl, hv⟩ := rangeItems_ok h2 i hi
        refine ⟨fun r' hr' => ?_, fun cs' hc' => ?_⟩
        · rw [hr] at hr'; cases hr'
        · rw [hc] at hc'; cases hc'; exact hv
      | none =>
        cases i with
        | other =>
          exfalso
          have : (Val.list xs).hasOther = true := by
            simp only [Val.hasOther, List.any_eq_true]; exact ⟨.other, hi, by decide⟩
          rw [hno] at this; exact Bool.false_ne_true this
        | str s =>
          refine ⟨fun r' hr' => ?_, fun cs' hc' => ?_⟩
          · rw [hr] at hr'; cases hr'
          · rw [hc] at hc'; cases hc'

/-- and conversely: a value inside the documented domain passes both checks -/
theorem checks_of_valOk {k : String} {v : Val} (hl : labelAnchorList = .full) (hs : labelAnchorScalar = .full)
    (hv : ValOk k v) : checkRegex k v = .ok () ∧ checkRange k v = .ok () := by
  cases v with
  | none => simp only [checkRegex, checkRange]; constructor <;> (split <;> rfl)
  | other => exact absurd hv (by simp [ValOk])
  | str s =>
    obtain ⟨h1, h2⟩ := hv
    constructor
    · simp only [checkRegex]
      split
      · rfl
      · rename_i r hr
        have := accepts_full.mpr (h1 r hr)
        simp [hs, this]; rfl
    · simp only [checkRange]
      split
      · rfl
      · rename_i cs hc
        simp [h2 cs hc]; rfl
  | list xs =>
    constructor
    · simp only [checkRegex]
      split
      · rfl
      · rename_i r hr
        apply regexItems_of
        intro i hi
        have h := hv i hi
        cases i with
        | other => exact h.elim
        | str s => exact ⟨s, rfl, by rw [hl]; exact accepts_full.mpr (h.1 r hr)⟩
    · simp only [checkRange]
      split
      · rfl
      · rename_i cs hc
        apply rangeItems_of
        intro i hi
        have h := hv i hi
        cases i with
        | other => exact h.elim
        | str s => exact ⟨s, rfl, h.2 cs hc⟩

theorem valOk_noOther {k : String} {v : Val} (hv : ValOk k v) : v.hasOther = false := by
  cases v with
  | none => rfl
  | other => rfl
  | str s => rfl
  | list xs =>
    simp only [Val.hasOther]
    cases h : xs.any (fun i => i == Item.other) with
    | false => rfl
    | true =>
      obtain ⟨i, hi, hio⟩ := List.any_eq_true.mp h
      have : i = Item.other := by simpa using hio
      subst this
      exact (hv _ hi).elim

theorem setField_sound {fg : Bool} {o o' : LObj} {k : String} {v : Val}
    (hl : labelAnchorList = .full) (hs : labelAnchorScalar = .full)
    (h : setField fg o k v = .ok o') (ho : Valid o) : Valid o' := by
  unfold setField at h
  cases v with
  | none => simp [throw, throwThe, MonadExceptOf.throw] at h
  | other => simp [throw, throwThe, MonadExceptOf.throw] at h
  | str s =>
    simp only [Val.hasOther, Bool.false_eq_true, if_false] at h
    split at h
    · cases h1 : checkRegex k (.str s) with
      | error e => simp [h1] at h
      | ok u =>
        cases h2 : checkRange k (.str s) with
        | error e => simp [h1, h2] at h
        | ok u' =>
          simp only [h1, h2, pure, Except.pure, Except.ok.injEq] at h
          subst h
          exact valid_setKey ho (checks_valOk hl hs h1 h2 (by simp) (by simp) rfl)
    · split at h
      · simp only [pure, Except.pure, Except.ok.injEq] at h; subst h; exact ho
      · simp [throw, throwThe, MonadExceptOf.throw] at h
  | list xs =>
    simp only at h
    cases hno : (Val.list xs).hasOther with
    | true => simp [hno, throw, throwThe, MonadExceptOf.throw] at h
    | false =>
      simp only [hno, Bool.false_eq_true, if_false] at h
      split at h
      · cases h1 : checkRegex k (.list xs) with
        | error e => simp [h1] at h
        | ok u =>
          cases h2 : checkRange k (.list xs) with
          | error e => simp [h1, h2] at h
          | ok u' =>
            simp only [h1, h2, pure, Except.pure, Except.ok.injEq] at h
            subst h
            exact valid_setKey ho (checks_valOk hl hs h1 h2 (by simp) (by simp) hno)
      · split at h
        · simp only [pure, Except.pure, Except.ok.injEq] at h; subst h; exact ho
        · simp [throw, throwThe, MonadExceptOf.throw] at h

theorem setFields_sound {fg : Bool} (hl : labelAnchorList = .full) (hs : labelAnchorScalar = .full) :
    ∀ {kw : List (String × Val)} {o o' : LObj}, setFields fg o kw = .ok o' → Valid o → Valid o' := by
  intro kw
  induction kw with
  | nil => intro o o' h ho; simp only [setFields, pure, Except.pure, Except.ok.injEq] at h; subst h; exact ho
  | cons a t ih =>
    intro o o' h ho
    obtain ⟨k, v⟩ := a
    simp only [setFields] at h
    cases h1 : setField fg o k v with
    | error e => simp [h1] at h
    | ok o1 =>
      simp only [h1] at h
      exact ih h (setField_sound hl hs h1 ho)


/-! completeness -/

theorem setField_complete {fg : Bool} {o : LObj} {k : String} {v : Val}
    (hl : labelAnchorList = .full) (hs : labelAnchorScalar = .full)
    (hk : labelFields.contains k = true) (hv : ValOk k v) (hn : v ≠ .none) :
    setField fg o k v = .ok (setKey k v o) := by
  obtain ⟨h1, h2⟩ := checks_of_valOk hl hs hv
  have hno := valOk_noOther hv
  unfold setField
  cases v with
  | none => exact absurd rfl hn
  | other => exact absurd hv (by simp [ValOk])
  | str s => simp only [hno, Bool.false_eq_true, if_false, hk, if_true, h1, h2]; rfl
  | list xs => simp only [hno, Bool.false_eq_true, if_false, hk, if_true, h1, h2]; rfl

/-- a forgiving call over values that are all inside their domains cannot fail -/
theorem setFields_total (hl : labelAnchorList = .full) (hs : labelAnchorScalar = .full) :
    ∀ (kw : List (String × Val)) (o : LObj),
      (∀ kv ∈ kw, ValOk kv.1 kv.2 ∧ kv.2 ≠ .none) → ∃ o', setFields true o kw = .ok o' := by
  intro kw
  induction kw with
  | nil => intro o _; exact ⟨o, rfl⟩
  | cons a t ih =>
    intro o h
    obtain ⟨k, v⟩ := a
    obtain ⟨hv, hn⟩ := h (k, v) (List.mem_cons_self ..)
    have ht : ∀ kv ∈ t, ValOk kv.1 kv.2 ∧ kv.2 ≠ .none := fun kv hkv => h kv (List.mem_cons_of_mem _ hkv)
    simp only [setFields]
    by_cases hk : labelFields.contains k = true
    · rw [setField_complete hl hs hk hv hn]
      exact ih _ ht
    · have : setField true o k v = .ok o := by
        have hno := valOk_noOther hv
        unfold setField
        cases v with
        | none => exact absurd rfl hn
        | other => exact absurd hv (by simp [ValOk])
        | str s => simp only [hno, Bool.false_eq_true, if_false, hk]; rfl
        | list xs => simp only [hno, Bool.false_eq_true, if_false, hk]; rfl
      rw [this]
      exact ih _ ht

theorem toDict_ok {o : LObj} (ho : Valid o) : ∀ kv ∈ toDict o, ValOk kv.1 kv.2 ∧ kv.2 ≠ .none := by
  intro kv h
  simp only [toDict, List.mem_filter] at h
  refine ⟨ho kv h.1, ?_⟩
  intro hc
  simp [hc] at h

/-- whatever was accepted is not rejected when it is encoded and decoded again -/
theorem readBack_total (hl : labelAnchorList = .full) (hs : labelAnchorScalar = .full) {o : LObj} (ho : Valid o) :
    ∃ r, readBack o = .ok r := by
  unfold readBack
  split
  · exact ⟨none, rfl⟩
  · have hsub : ∀ kv ∈ jsonKeys (toDict o), ValOk kv.1 kv.2 ∧ kv.2 ≠ .none := by
      intro kv h
      apply toDict_ok ho
      unfold jsonKeys at h
      split at h
      · exact (List.mem_filter.mp h).1
      · exact h
    obtain ⟨o', h'⟩ := setFields_total hl hs _ defaultObj hsub
    exact ⟨some o', by simp [h']; rfl⟩

theorem mem_setKey {k : String} {v : Val} : ∀ {o : LObj}, k ∈ o.map (·.1) → (k, v) ∈ setKey k v o := by
  intro o
  induction o with
  | nil => intro h; simp at h
  | cons a t ih =>
    intro h
    obtain ⟨k', v'⟩ := a
    simp only [setKey]
    by_cases hk : (k' == k) = true
    · rw [if_pos hk]
      have : k' = k := by simpa using hk
      subst this; exact List.mem_cons_self ..
    · rw [if_neg hk]
      simp only [List.map_cons, List.mem_cons] at h
      cases h with
      | inl h => exact absurd (by simp [h]) hk
      | inr h => exact List.mem_cons_of_mem _ (ih h)

theorem keys_setKey {k : String} {v : Val} : ∀ {o : LObj}, (setKey k v o).map (·.1) = o.map (·.1) := by
  intro o
  induction o with
  | nil => rfl
  | cons a t ih =>
    obtain ⟨k', v'⟩ := a
    simp only [setKey]
    by_cases hk : (k' == k) = true
    · rw [if_pos hk]; simp
    · rw [if_neg hk]; simp [ih]

end FimVerif.V16
