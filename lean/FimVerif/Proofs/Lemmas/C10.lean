import FimVerif.Model.Validate
/-!
# C10 - specification of slice validation and the lemmas behind `Proofs/C10.lean`

Declarative side: `nifOf`/`nifs` (which node-side interface a service interface stands for),
`NstypeOK`, `SvcOK`, `NodeOK`, `InstOK`, `SpecOK` (what `validate` enforces, for any table) and
`SpecFull` (what the property asks for: every node, real property flags).
-/
namespace FimVerif.Validate
open FimVerif.Gen.Constraints (SvcRow NodeRow)


/-! ### dedup -/
theorem mem_dedup (xs : List String) (y : String) : y ∈ dedup xs ↔ y ∈ xs := by
  induction xs with
  | nil => simp [dedup]
  | cons x xs ih =>
    simp only [dedup]
    split
    · rename_i h
      simp only [List.contains_iff_mem, List.mem_cons] at *
      constructor
      · intro hy; exact Or.inr (ih.mp hy)
      · rintro (rfl | hy)
        · exact ih.mpr h
        · exact ih.mpr hy
    · simp [ih]

theorem nodup_dedup (xs : List String) : (dedup xs).Nodup := by
  induction xs with
  | nil => simp [dedup]
  | cons x xs ih =>
    simp only [dedup]
    split
    · exact ih
    · rename_i h
      simp only [List.contains_iff_mem] at h
      simp [List.nodup_cons, ih, mem_dedup, h]

theorem dedup_eq_nil (xs : List String) : dedup xs = [] ↔ xs = [] := by
  constructor
  · intro h
    cases xs with
    | nil => rfl
    | cons x xs =>
      have : x ∈ dedup (x :: xs) := (mem_dedup _ _).mpr (by simp)
      rw [h] at this; simp at this
  · rintro rfl; rfl

theorem dedup_eq_singleton (xs : List String) (x : String) :
    dedup xs = [x] ↔ xs ≠ [] ∧ ∀ y ∈ xs, y = x := by
  constructor
  · intro h
    refine ⟨?_, ?_⟩
    · intro hx; rw [hx] at h; simp [dedup] at h
    · intro y hy
      have := (mem_dedup xs y).mpr hy
      rw [h] at this; simpa using this
  · rintro ⟨hne, hall⟩
    have hnd := nodup_dedup xs
    have hmem : ∀ y ∈ dedup xs, y = x := fun y hy => hall y ((mem_dedup xs y).mp hy)
    match hd : dedup xs, hnd, hmem with
    | [], _, _ => exact absurd ((dedup_eq_nil xs).mp hd) hne
    | [a], _, hm => simp [hm a (by simp)]
    | a :: b :: r, hnd, hm =>
      have ha := hm a (by simp); have hb := hm b (by simp)
      simp [List.nodup_cons, ha, hb] at hnd

theorem dedup_two (xs : List String) (a b : String) (r : List String) (h : dedup xs = a :: b :: r) :
    a ∈ xs ∧ b ∈ xs ∧ a ≠ b := by
  have hnd := nodup_dedup xs
  rw [h] at hnd
  refine ⟨(mem_dedup xs a).mp (by simp [h]), (mem_dedup xs b).mp (by simp [h]), ?_⟩
  simp [List.nodup_cons] at hnd
  exact hnd.1.1



/-- the node-side interface a service interface stands for (none: a ServicePort without exactly one peer) -/
def nifOf (s : Svc) : SIface → Option NIface
  | .direct _ k => some ⟨k, s.owner⟩
  | .port _ (some [p]) => some p
  | .port _ _ => none

theorem resolveOne_eq (s : Svc) (i : SIface) :
    resolveOne s i = match nifOf s i with | some n => .ok n | none => .error .topology := by
  cases i with
  | direct _ k => rfl
  | port _ ps =>
    match ps with
    | none => rfl
    | some [] => rfl
    | some [p] => rfl
    | some (_ :: _ :: _) => rfl

theorem resolve_ok (s : Svc) (l : List SIface) (ns : List NIface) :
    resolve s l = .ok ns ↔ (∀ i ∈ l, (nifOf s i).isSome) ∧ ns = l.filterMap (nifOf s) := by
  induction l generalizing ns with
  | nil => simp [resolve]
  | cons i is ih =>
    simp only [resolve, resolveOne_eq]
    cases h : nifOf s i with
    | none => simp [h]
    | some n =>
      simp only [List.mem_cons, forall_eq_or_imp, h, Option.isSome_some, true_and, List.filterMap_cons]
      cases h2 : resolve s is with
      | error e =>
        simp only [reduceCtorEq, false_iff, not_and]
        intro hall
        have := (ih (is.filterMap (nifOf s))).mpr ⟨hall, rfl⟩
        rw [h2] at this; cases this
      | ok ms =>
        have := (ih ms).mp h2
        simp only [Except.ok.injEq]
        constructor
        · rintro rfl; exact ⟨this.1, by rw [this.2]⟩
        · rintro ⟨_, rfl⟩; rw [this.2]

theorem resolve_error (s : Svc) (l : List SIface) (e : Err) : resolve s l = .error e → e = .topology := by
  induction l with
  | nil => simp [resolve]
  | cons i is ih =>
    simp only [resolve, resolveOne_eq]
    cases nifOf s i with
    | none => simp; exact eq_comm.mp
    | some n =>
      simp only
      cases h2 : resolve s is with
      | error e' => simp; intro h; exact ih (by rw [h2, h])
      | ok ms => simp

theorem ownerSites_ok (l : List NIface) (xs : List String) :
    ownerSites l = .ok xs ↔ (∀ i ∈ l, i.owner.isSome) ∧ xs = l.filterMap (·.owner) := by
  induction l generalizing xs with
  | nil => simp [ownerSites]
  | cons i is ih =>
    simp only [ownerSites]
    cases h : i.owner with
    | none => simp [h]
    | some x =>
      simp only [List.mem_cons, forall_eq_or_imp, h, Option.isSome_some, true_and, List.filterMap_cons]
      cases h2 : ownerSites is with
      | error e =>
        simp only [reduceCtorEq, false_iff, not_and]
        intro hall
        have := (ih (is.filterMap (·.owner))).mpr ⟨hall, rfl⟩
        rw [h2] at this; cases this
      | ok ms =>
        have := (ih ms).mp h2
        simp only [Except.ok.injEq]
        constructor
        · rintro rfl; exact ⟨this.1, by rw [this.2]⟩
        · rintro ⟨_, rfl⟩; rw [this.2]

theorem ownerSites_error (l : List NIface) (e : Err) : ownerSites l = .error e → e = .topology := by
  induction l with
  | nil => simp [ownerSites]
  | cons i is ih =>
    simp only [ownerSites]
    cases i.owner with
    | none => simp; exact eq_comm.mp
    | some x =>
      simp only
      cases h2 : ownerSites is with
      | error e' => simp; intro h; exact ih (by rw [h2, h])
      | ok ms => simp

/-- the presence test `mode` sees the service's property `p`, given the site the service has at that moment -/
def svcHolds (c : Cfg) (mode : Bool) (s : Svc) (site : Option String) (p : String) : Bool :=
  c.svcShallow.contains p && (if p == "site" then siteSeen mode site else valueSeen c mode s p)

/-- the service *has* property `p` (what the property statement means by "set"): a site, a non-empty string, any object -/
def svcHas (s : Svc) (site : Option String) (p : String) : Bool :=
  if p == "site" then truthy site else s.props.contains p

theorem svcSees_eq (c : Cfg) (mode : Bool) (s : Svc) (site : Option String) (p : String) (b : Bool) :
    svcSees c mode s site p = .ok b ↔ p ∈ c.svcGetters ∧ svcHolds c mode s site p = b := by
  simp only [svcSees, svcHolds]
  by_cases h : c.svcGetters.contains p
  · simp only [h, if_true, Except.ok.injEq]
    simp only [List.contains_iff_mem] at h
    simp [h]
  · simp only [h]
    simp only [List.contains_iff_mem] at h
    simp [h]

theorem checkReq_ok (c : Cfg) (s : Svc) (site : Option String) (ps : List String) :
    checkReq c s site ps = .ok () ↔ ∀ p ∈ ps, p ∈ c.svcGetters ∧ svcHolds c c.svcReqTruthy s site p = true := by
  induction ps with
  | nil => simp [checkReq]
  | cons p ps ih =>
    simp only [checkReq, List.mem_cons, forall_eq_or_imp]
    cases h : svcSees c c.svcReqTruthy s site p with
    | error e =>
      simp only [reduceCtorEq, false_iff, not_and]
      intro h1
      have := (svcSees_eq c c.svcReqTruthy s site p true).mpr h1
      rw [h] at this; cases this
    | ok b =>
      have hb := (svcSees_eq c c.svcReqTruthy s site p b).mp h
      cases b with
      | true => simp only [ih]; simp [hb.1, hb.2]
      | false => simp [hb.2]

theorem checkForb_ok (c : Cfg) (s : Svc) (site : Option String) (ps : List String) :
    checkForb c s site ps = .ok () ↔ ∀ p ∈ ps, p ∈ c.svcGetters ∧ svcHolds c c.svcForbTruthy s site p = false := by
  induction ps with
  | nil => simp [checkForb]
  | cons p ps ih =>
    simp only [checkForb, List.mem_cons, forall_eq_or_imp]
    cases h : svcSees c c.svcForbTruthy s site p with
    | error e =>
      simp only [reduceCtorEq, false_iff, not_and]
      intro h1
      have := (svcSees_eq c c.svcForbTruthy s site p false).mpr h1
      rw [h] at this; cases this
    | ok b =>
      have hb := (svcSees_eq c c.svcForbTruthy s site p b).mp h
      cases b with
      | false => simp only [ih]; simp [hb.1, hb.2]
      | true => simp [hb.2]

theorem validateNodes_ok (c : Cfg) (l : List Node) :
    validateNodes c l = .ok () ↔ ∀ n ∈ l, validateNode c n = .ok () := by
  induction l with
  | nil => simp [validateNodes]
  | cons n ns ih =>
    simp only [validateNodes, List.mem_cons, forall_eq_or_imp]
    cases h : validateNode c n with
    | error e => simp
    | ok u => simp [ih]

/-- the site `__validate_nstype_constraints` leaves on the service when it succeeds -/
def recordedSiteOf (row : SvcRow) (s : Svc) (n : List NIface) : Option String :=
  if row.numSites ≠ 0 ∧ truthy s.site = false then
    match dedup (n.filterMap (·.owner)) with
    | [x] => some x
    | _ => s.site
  else s.site

structure NstypeOK (exp : Bool) (row : SvcRow) (s : Svc) (n : List NIface) : Prop where
  minIfs : exp = true → row.minIfs = 0 ∨ row.minIfs ≤ n.length
  maxIfs : exp = true → row.numIfs = 0 ∨ n.length ≤ row.numIfs
  owners : row.numSites ≠ 0 → ∀ i ∈ n, i.owner.isSome
  maxSites : row.numSites ≠ 0 → (dedup (n.filterMap (·.owner))).length ≤ row.numSites
  siteAgrees : row.numSites ≠ 0 → truthy s.site = true → ∀ i ∈ n, i.owner = s.site

theorem siteSet_zero (row : SvcRow) (n : List NIface) (h : row.numSites = 0) : siteSet row n = .ok [] := by
  simp [siteSet, h]

theorem siteSet_pos (row : SvcRow) (n : List NIface) (h : row.numSites ≠ 0) :
    siteSet row n = match ownerSites n with | .error e => .error e | .ok xs => .ok (dedup xs) := by
  have : (row.numSites != 0) = true := by simpa using h
  simp only [siteSet, this, if_true]
  cases ownerSites n <;> rfl

theorem all_owner_eq {n : List NIface} {x : String} (ho : ∀ i ∈ n, i.owner.isSome)
    (h : ∀ y ∈ n.filterMap (·.owner), y = x) : ∀ i ∈ n, i.owner = some x := by
  intro i hi
  have := ho i hi
  cases hio : i.owner with
  | none => simp [hio] at this
  | some y =>
    have : y ∈ n.filterMap (·.owner) := List.mem_filterMap.mpr ⟨i, hi, hio⟩
    rw [h y this]

theorem nstype_ok (exp : Bool) (row : SvcRow) (s : Svc) (n : List NIface) :
    (nstypeConstraints exp row s n).1 = .ok () ↔ NstypeOK exp row s n := by
  unfold nstypeConstraints
  by_cases h1 : (exp && row.minIfs != 0 && decide (n.length < row.minIfs)) = true
  · rw [if_pos h1]
    simp only [Bool.and_eq_true, bne_iff_ne, ne_eq, decide_eq_true_eq] at h1
    constructor
    · intro h; cases h
    · intro h; have := h.minIfs h1.1.1; omega
  rw [if_neg h1]
  by_cases h2 : (exp && row.numIfs != 0 && decide (n.length > row.numIfs)) = true
  · rw [if_pos h2]
    simp only [Bool.and_eq_true, bne_iff_ne, ne_eq, decide_eq_true_eq] at h2
    constructor
    · intro h; cases h
    · intro h; have := h.maxIfs h2.1.1; omega
  rw [if_neg h2]
  have hmin : exp = true → row.minIfs = 0 ∨ row.minIfs ≤ n.length := by
    intro he; simp [he] at h1; omega
  have hmax : exp = true → row.numIfs = 0 ∨ n.length ≤ row.numIfs := by
    intro he; simp [he] at h2; omega
  by_cases h0 : row.numSites = 0
  · rw [siteSet_zero row n h0]
    simp only [List.length_nil, gt_iff_lt, Nat.not_lt_zero, decide_false, Bool.false_eq_true, if_false, true_iff]
    exact ⟨hmin, hmax, fun h => absurd h0 h, fun h => absurd h0 h, fun h => absurd h0 h⟩
  rw [siteSet_pos row n h0]
  cases hos : ownerSites n with
  | error e =>
    simp only [reduceCtorEq, false_iff]
    intro h
    have := (ownerSites_ok n (n.filterMap (·.owner))).mpr ⟨h.owners h0, rfl⟩
    rw [hos] at this; cases this
  | ok xs =>
    obtain ⟨hown, rfl⟩ := (ownerSites_ok n xs).mp hos
    simp only
    by_cases h3 : (dedup (n.filterMap (·.owner))).length > row.numSites
    · simp only [h3, decide_true, if_true, reduceCtorEq, false_iff]
      intro h; have := h.maxSites h0; omega
    simp only [h3, decide_false, Bool.false_eq_true, if_false]
    have hms : (dedup (n.filterMap (·.owner))).length ≤ row.numSites := by omega
    generalize hd : dedup (n.filterMap (·.owner)) = d at *
    match d, hd with
    | [], hd =>
      simp only [true_iff]
      have hnil := (dedup_eq_nil _).mp hd
      refine ⟨hmin, hmax, fun _ => hown, fun _ => by rw [hd]; simp, ?_⟩
      intro _ _ i hi
      have := hown i hi
      cases hio : i.owner with
      | none => simp [hio] at this
      | some y =>
        have : y ∈ n.filterMap (·.owner) := List.mem_filterMap.mpr ⟨i, hi, hio⟩
        rw [hnil] at this; cases this
    | [x], hd =>
      obtain ⟨hne, hall⟩ := (dedup_eq_singleton _ x).mp hd
      have hall' := all_owner_eq hown hall
      by_cases ht : truthy s.site = true
      · simp only [ht, if_true]
        by_cases hs : s.site = some x
        · simp only [hs, beq_self_eq_true, if_true, true_iff]
          refine ⟨hmin, hmax, fun _ => hown, fun _ => by rw [hd]; exact hms, ?_⟩
          intro _ _ i hi; rw [hall' i hi, hs]
        · have : (s.site == some x) = false := by simpa using hs
          simp only [this, Bool.false_eq_true, if_false, reduceCtorEq, false_iff]
          intro h
          have hag := h.siteAgrees h0 ht
          cases hn : n with
          | nil => rw [hn] at hne; simp at hne
          | cons i is =>
            have h1 := hag i (by rw [hn]; simp)
            have h2 := hall' i (by rw [hn]; simp)
            exact hs (by rw [← h1, h2])
      · simp only [ht, Bool.false_eq_true, if_false, true_iff]
        refine ⟨hmin, hmax, fun _ => hown, fun _ => by rw [hd]; exact hms, ?_⟩
        intro _ h; exact absurd h ht
    | a :: b :: r, hd =>
      obtain ⟨ha, hb, hab⟩ := dedup_two _ a b r hd
      by_cases ht : truthy s.site = true
      · simp only [ht, if_true, reduceCtorEq, false_iff]
        intro h
        have hag := h.siteAgrees h0 ht
        obtain ⟨ia, hia, hoa⟩ := List.mem_filterMap.mp ha
        obtain ⟨ib, hib, hob⟩ := List.mem_filterMap.mp hb
        have e1 := hag ia hia; have e2 := hag ib hib
        rw [hoa] at e1; rw [hob] at e2
        exact hab (Option.some.inj (e1.trans e2.symm))
      · simp only [ht, Bool.false_eq_true, if_false, true_iff]
        refine ⟨hmin, hmax, fun _ => hown, fun _ => by rw [hd]; exact hms, ?_⟩
        intro _ h; exact absurd h ht

theorem nstype_site (exp : Bool) (row : SvcRow) (s : Svc) (n : List NIface)
    (h : (nstypeConstraints exp row s n).1 = .ok ()) :
    (nstypeConstraints exp row s n).2 = recordedSiteOf row s n := by
  unfold nstypeConstraints at h ⊢
  unfold recordedSiteOf
  by_cases h1 : (exp && row.minIfs != 0 && decide (n.length < row.minIfs)) = true
  · rw [if_pos h1] at h; cases h
  rw [if_neg h1] at h ⊢
  by_cases h2 : (exp && row.numIfs != 0 && decide (n.length > row.numIfs)) = true
  · rw [if_pos h2] at h; cases h
  rw [if_neg h2] at h ⊢
  by_cases h0 : row.numSites = 0
  · rw [siteSet_zero row n h0] at h ⊢
    simp [h0]
  rw [siteSet_pos row n h0] at h ⊢
  cases hos : ownerSites n with
  | error e => rw [hos] at h; cases h
  | ok xs =>
    obtain ⟨hown, rfl⟩ := (ownerSites_ok n xs).mp hos
    rw [hos] at h
    simp only at h ⊢
    by_cases h3 : (dedup (n.filterMap (·.owner))).length > row.numSites
    · simp only [h3, decide_true, if_true] at h; cases h
    simp only [h3, decide_false, Bool.false_eq_true, if_false] at h ⊢
    generalize dedup (n.filterMap (·.owner)) = d at *
    match d with
    | [] => simp
    | [x] =>
      by_cases ht : truthy s.site = true
      · simp only [ht, if_true] at h ⊢
        by_cases hs : (s.site == some x) = true
        · simp [hs]
        · simp only [hs] at h; cases h
      · simp [ht, h0]
    | a :: b :: r =>
      by_cases ht : truthy s.site = true
      · simp only [ht, if_true] at h; cases h
      · simp [ht]


/-! ### one service -/

def nifs (s : Svc) : List NIface := s.ifs.filterMap (nifOf s)

/-- the site a successful validation leaves on the service -/
def recordedSite (row : SvcRow) (s : Svc) : Option String := recordedSiteOf row s (nifs s)

/-- A service meets its row of the table. -/
structure SvcOK (c : Cfg) (exp : Bool) (row : SvcRow) (s : Svc) : Prop where
  /-- every ServicePort has exactly one peer -/
  ports : ∀ i ∈ s.ifs, (nifOf s i).isSome
  /-- interface counts, owners, sites spanned, declared site -/
  nstype : NstypeOK exp row s (nifs s)
  /-- every property the row names can be read from the sliver -/
  getters : ∀ p ∈ row.req ++ row.forb, p ∈ c.svcGetters
  required : ∀ p ∈ row.req, svcHolds c c.svcReqTruthy s (recordedSite row s) p = true
  forbidden : ∀ p ∈ row.forb, svcHolds c c.svcForbTruthy s (recordedSite row s) p = false
  ifTypes : row.ifTypes = [] ∨ ∀ i ∈ nifs s, i.kind ∈ row.ifTypes

theorem checkIfTypes_ok (row : SvcRow) (n : List NIface) :
    checkIfTypes row n = .ok () ↔ (row.ifTypes = [] ∨ ∀ i ∈ n, i.kind ∈ row.ifTypes) := by
  unfold checkIfTypes
  by_cases h : row.ifTypes = []
  · simp [h]
  · have : row.ifTypes.isEmpty = false := by simpa using h
    simp only [this, Bool.false_eq_true, if_false, h, false_or]
    by_cases h2 : (n.all fun i => row.ifTypes.contains i.kind) = true
    · simp only [h2, if_true, true_iff]
      simpa using h2
    · simp only [h2, Bool.false_eq_true, if_false, reduceCtorEq, false_iff]
      simpa using h2

theorem validateConstraints_ok (c : Cfg) (exp : Bool) (row : SvcRow) (s : Svc) (n : List NIface) :
    (validateConstraints c exp row s n).1 = .ok () ↔
      NstypeOK exp row s n ∧
      (∀ p ∈ row.req, p ∈ c.svcGetters ∧ svcHolds c c.svcReqTruthy s (recordedSiteOf row s n) p = true) ∧
      (∀ p ∈ row.forb, p ∈ c.svcGetters ∧ svcHolds c c.svcForbTruthy s (recordedSiteOf row s n) p = false) ∧
      (row.ifTypes = [] ∨ ∀ i ∈ n, i.kind ∈ row.ifTypes) := by
  unfold validateConstraints
  have hk := nstype_ok exp row s n
  have hs := nstype_site exp row s n
  match hn : nstypeConstraints exp row s n with
  | (.error e, site) =>
    rw [hn] at hk
    simp only [reduceCtorEq, false_iff, not_and]
    intro h; exact absurd (hk.mpr h) (by simp)
  | (.ok u, site) =>
    rw [hn] at hk hs
    have hsite : site = recordedSiteOf row s n := hs rfl
    subst hsite
    have hN : NstypeOK exp row s n := hk.mp rfl
    simp only [hN, true_and]
    cases h1 : checkReq c s (recordedSiteOf row s n) row.req with
    | error e =>
      have := checkReq_ok c s (recordedSiteOf row s n) row.req
      rw [h1] at this
      simp only [reduceCtorEq, false_iff] at this
      simp only [reduceCtorEq, false_iff, not_and]
      intro h; exact absurd h this
    | ok u1 =>
      have hr := (checkReq_ok c s (recordedSiteOf row s n) row.req).mp h1
      simp only
      cases h2 : checkForb c s (recordedSiteOf row s n) row.forb with
      | error e =>
        have := checkForb_ok c s (recordedSiteOf row s n) row.forb
        rw [h2] at this
        simp only [reduceCtorEq, false_iff] at this
        simp only [reduceCtorEq, false_iff, not_and]
        intro _ h; exact absurd h this
      | ok u2 =>
        have hf := (checkForb_ok c s (recordedSiteOf row s n) row.forb).mp h2
        simp only [checkIfTypes_ok]
        constructor
        · intro h; exact ⟨hr, hf, h⟩
        · intro h; exact h.2.2

theorem validateConstraints_site (c : Cfg) (exp : Bool) (row : SvcRow) (s : Svc) (n : List NIface)
    (h : (validateConstraints c exp row s n).1 = .ok ()) :
    (validateConstraints c exp row s n).2 = recordedSiteOf row s n := by
  unfold validateConstraints at h ⊢
  have hs := nstype_site exp row s n
  match hn : nstypeConstraints exp row s n with
  | (.error e, site) => rw [hn] at h; cases h
  | (.ok u, site) =>
    rw [hn] at h hs
    have hsite : site = recordedSiteOf row s n := hs rfl
    subst hsite
    simp only at h ⊢
    cases h1 : checkReq c s (recordedSiteOf row s n) row.req with
    | error e => simp [h1] at h
    | ok u1 =>
      rw [h1] at h
      simp only at h ⊢
      cases h2 : checkForb c s (recordedSiteOf row s n) row.forb with
      | error e => simp [h2] at h
      | ok u2 => rfl

theorem validateSvc_ok (c : Cfg) (exp : Bool) (s : Svc) :
    (validateSvc c exp s).1 = .ok () ↔ ∃ row, c.svc.lookup s.ty = some row ∧ SvcOK c exp row s := by
  unfold validateSvc
  cases hl : c.svc.lookup s.ty with
  | none => simp
  | some row =>
    simp only [Option.some.injEq, exists_eq_left']
    cases hr : resolve s s.ifs with
    | error e =>
      simp only [reduceCtorEq, false_iff]
      intro h
      have := (resolve_ok s s.ifs (nifs s)).mpr ⟨h.ports, rfl⟩
      rw [hr] at this; cases this
    | ok n =>
      obtain ⟨hp, rfl⟩ := (resolve_ok s s.ifs n).mp hr
      simp only [validateConstraints_ok]
      constructor
      · rintro ⟨h1, h2, h3, h4⟩
        refine ⟨hp, h1, ?_, fun p hp => (h2 p hp).2, fun p hp => (h3 p hp).2, h4⟩
        intro p hp
        rcases List.mem_append.mp hp with h | h
        · exact (h2 p h).1
        · exact (h3 p h).1
      · intro h
        exact ⟨h.nstype, fun p hp => ⟨h.getters p (List.mem_append.mpr (Or.inl hp)), h.required p hp⟩,
          fun p hp => ⟨h.getters p (List.mem_append.mpr (Or.inr hp)), h.forbidden p hp⟩, h.ifTypes⟩

/-- what `validate` leaves in place of the service: only `site` can differ -/
def recordSite (c : Cfg) (s : Svc) : Svc :=
  match c.svc.lookup s.ty with
  | some row => { s with site := recordedSite row s }
  | none => s

theorem validateSvc_state (c : Cfg) (exp : Bool) (s : Svc) (h : (validateSvc c exp s).1 = .ok ()) :
    (validateSvc c exp s).2 = recordSite c s := by
  unfold validateSvc at h ⊢
  unfold recordSite
  cases hl : c.svc.lookup s.ty with
  | none => simp [hl] at h
  | some row =>
    rw [hl] at h
    simp only at h ⊢
    cases hr : resolve s s.ifs with
    | error e => rw [hr] at h; cases h
    | ok n =>
      obtain ⟨hp, rfl⟩ := (resolve_ok s s.ifs n).mp hr
      rw [hr] at h
      simp only at h ⊢
      rw [validateConstraints_site c exp row s _ h]
      rfl

def eraseSite (s : Svc) : Svc := { s with site := none }

theorem validateSvc_frame (c : Cfg) (exp : Bool) (s : Svc) :
    eraseSite (validateSvc c exp s).2 = eraseSite s := by
  unfold validateSvc
  cases c.svc.lookup s.ty with
  | none => rfl
  | some row =>
    simp only
    cases resolve s s.ifs with
    | error e => rfl
    | ok n => rfl

theorem validateSvcs_ok (c : Cfg) (exp : Bool) (l : List Svc) :
    (validateSvcs c exp l).1 = .ok () ↔ ∀ s ∈ l, (validateSvc c exp s).1 = .ok () := by
  induction l with
  | nil => simp [validateSvcs]
  | cons s rest ih =>
    simp only [validateSvcs, List.mem_cons, forall_eq_or_imp]
    match hv : validateSvc c exp s with
    | (.error e, s') => simp
    | (.ok u, s') => simp [ih]

theorem validateSvcs_state (c : Cfg) (exp : Bool) (l : List Svc) (h : (validateSvcs c exp l).1 = .ok ()) :
    (validateSvcs c exp l).2 = l.map (recordSite c) := by
  induction l with
  | nil => simp [validateSvcs]
  | cons s rest ih =>
    have hall := (validateSvcs_ok c exp (s :: rest)).mp h
    have hs := hall s (by simp)
    have hrest : (validateSvcs c exp rest).1 = .ok () :=
      (validateSvcs_ok c exp rest).mpr (fun x hx => hall x (by simp [hx]))
    have hst := validateSvc_state c exp s hs
    simp only [validateSvcs, List.map_cons]
    match hv : validateSvc c exp s with
    | (.error e, s') => rw [hv] at hs; cases hs
    | (.ok u, s') =>
      rw [hv] at hst
      simp only at hst ⊢
      rw [ih hrest, hst]

theorem validateSvcs_frame (c : Cfg) (exp : Bool) (l : List Svc) :
    (validateSvcs c exp l).2.map eraseSite = l.map eraseSite := by
  induction l with
  | nil => simp [validateSvcs]
  | cons s rest ih =>
    have hf := validateSvc_frame c exp s
    simp only [validateSvcs, List.map_cons]
    match hv : validateSvc c exp s with
    | (.error e, s') => rw [hv] at hf; simp only at hf ⊢; simp [hf]
    | (.ok u, s') => rw [hv] at hf; simp only at hf ⊢; simp [hf, ih]

/-! ### nodes -/

structure NodeOK (c : Cfg) (row : NodeRow) (n : Node) : Prop where
  required : ∀ p ∈ row.req, nodeSees c c.nodeReqTruthy n p = true
  forbidden : ∀ p ∈ row.forb, nodeSees c c.nodeForbTruthy n p = false

theorem validateNode_ok (c : Cfg) (n : Node) :
    validateNode c n = .ok () ↔ ∃ row, c.node.lookup n.ty = some row ∧ NodeOK c row n := by
  unfold validateNode
  cases hl : c.node.lookup n.ty with
  | none => simp
  | some row =>
    simp only [Option.some.injEq, exists_eq_left']
    by_cases h1 : row.req.all (nodeSees c c.nodeReqTruthy n) = true
    · simp only [h1, if_true]
      by_cases h2 : row.forb.any (nodeSees c c.nodeForbTruthy n) = true
      · simp only [h2, if_true, reduceCtorEq, false_iff]
        intro h
        obtain ⟨p, hp, hs⟩ := List.any_eq_true.mp h2
        rw [h.forbidden p hp] at hs; cases hs
      · simp only [h2, Bool.false_eq_true, if_false, true_iff]
        refine ⟨fun p hp => List.all_eq_true.mp h1 p hp, fun p hp => ?_⟩
        cases hs : nodeSees c c.nodeForbTruthy n p with
        | false => rfl
        | true => exact absurd (List.any_eq_true.mpr ⟨p, hp, hs⟩) h2
    · simp only [h1, Bool.false_eq_true, if_false, reduceCtorEq, false_iff]
      intro h
      exact h1 (List.all_eq_true.mpr fun p hp => h.required p hp)

/-! ### instances per site -/

structure InstOK (c : Cfg) (svcs : List Svc) : Prop where
  /-- (what the code needs in order not to fail) a service of a limited type has a site or no interface -/
  sited : ∀ s ∈ svcs, instLimit c s.ty ≠ 0 → truthy s.site = true ∨ s.ifs = []
  /-- at most `num_instances` services of the type carry the same site -/
  within : ∀ s ∈ svcs, instLimit c s.ty ≠ 0 → ∀ site, instCount svcs s.ty site ≤ instLimit c s.ty

theorem sum_map_zero {α : Type} (l : List α) (f : α → Nat) (h : ∀ a ∈ l, f a = 0) : (l.map f).sum = 0 := by
  induction l with
  | nil => rfl
  | cons a as ih =>
    simp only [List.map_cons, List.sum_cons, h a (by simp), Nat.zero_add]
    exact ih fun b hb => h b (by simp [hb])

theorem instCount_unmentioned (svcs : List Svc) (ty site : String) (h : site ∉ mentionedSites svcs) :
    instCount svcs ty site = 0 := by
  unfold instCount
  apply sum_map_zero
  intro s hs
  have hs' : s ∈ svcs := (List.mem_filter.mp hs).1
  unfold instContribution
  by_cases hc : (truthy s.site && s.site == some site) = true
  · exfalso; apply h
    simp only [Bool.and_eq_true, beq_iff_eq] at hc
    unfold mentionedSites
    exact List.mem_filterMap.mpr ⟨s, hs', by rw [if_pos hc.1, hc.2]⟩
  · simp [hc]

theorem instances_ok (c : Cfg) (svcs : List Svc) : instances c svcs = .ok () ↔ InstOK c svcs := by
  unfold instances
  by_cases hc : instCrash c svcs = true
  · simp only [hc, if_true, reduceCtorEq, false_iff]
    intro h
    obtain ⟨s, hs, hcond⟩ := List.any_eq_true.mp hc
    simp only [Bool.and_eq_true, bne_iff_ne, ne_eq, Bool.not_eq_true', List.isEmpty_eq_false_iff] at hcond
    rcases h.sited s hs hcond.1.1 with h1 | h1
    · rw [hcond.1.2] at h1; cases h1
    · exact hcond.2 h1
  · simp only [hc, Bool.false_eq_true, if_false]
    have hsited : ∀ s ∈ svcs, instLimit c s.ty ≠ 0 → truthy s.site = true ∨ s.ifs = [] := by
      intro s hs hl
      cases ht : truthy s.site with
      | true => exact Or.inl rfl
      | false =>
        right
        cases hi : s.ifs with
        | nil => rfl
        | cons a as =>
          exfalso; apply hc
          exact List.any_eq_true.mpr ⟨s, hs, by simp [hl, ht, hi]⟩
    by_cases hw : instWithin c svcs = true
    · simp only [hw, if_true, true_iff]
      refine ⟨hsited, ?_⟩
      intro s hs hl site
      have := List.all_eq_true.mp hw s hs
      simp only [Bool.or_eq_true, beq_iff_eq, List.all_eq_true, decide_eq_true_eq] at this
      rcases this with h0 | hall
      · exact absurd h0 hl
      · by_cases hm : site ∈ mentionedSites svcs
        · exact hall site hm
        · rw [instCount_unmentioned svcs s.ty site hm]; exact Nat.zero_le _
    · simp only [hw, Bool.false_eq_true, if_false, reduceCtorEq, false_iff]
      intro h
      apply hw
      apply List.all_eq_true.mpr
      intro s hs
      simp only [Bool.or_eq_true, beq_iff_eq, List.all_eq_true, decide_eq_true_eq]
      by_cases hl : instLimit c s.ty = 0
      · exact Or.inl hl
      · exact Or.inr fun site _ => h.within s hs hl site

/-! ### the whole slice -/

/-- What `Topology.validate` enforces, for any table. -/
structure SpecOK (c : Cfg) (t : Topo) : Prop where
  /-- every node `Topology.validate` walks meets its row, as far as the check can read its properties -/
  nodes : ∀ n ∈ t.nodes, n.ty ∉ c.nodeTypesNotValidated → ∃ row, c.node.lookup n.ty = some row ∧ NodeOK c row n
  svcs : ∀ s ∈ t.svcs, ∃ row, c.svc.lookup s.ty = some row ∧ SvcOK c t.exp row s
  instances : InstOK c (t.svcs.map (recordSite c))

/-- A node meets its row: the real property flags. -/
structure NodeFull (row : NodeRow) (n : Node) : Prop where
  required : ∀ p ∈ row.req, p ∈ n.props
  forbidden : ∀ p ∈ row.forb, p ∉ n.props

theorem lookup_mem {α : Type} (l : List (String × α)) (k : String) (v : α) (h : l.lookup k = some v) :
    ∃ kv ∈ l, kv.2 = v := by
  induction l with
  | nil => simp [List.lookup] at h
  | cons a as ih =>
    obtain ⟨k', v'⟩ := a
    simp only [List.lookup] at h
    split at h
    · exact ⟨(k', v'), by simp, by simpa using h⟩
    · obtain ⟨kv, hkv, he⟩ := ih h
      exact ⟨kv, by simp [hkv], he⟩

/-- A service meets its row: a property counts as set when it has been given a value (non-empty string, any object -
whatever Python's truthiness of that object is, and whether or not the validator can read it). -/
structure SvcFull (exp : Bool) (row : SvcRow) (s : Svc) : Prop where
  ports : ∀ i ∈ s.ifs, (nifOf s i).isSome
  nstype : NstypeOK exp row s (nifs s)
  required : ∀ p ∈ row.req, svcHas s (recordedSite row s) p = true
  forbidden : ∀ p ∈ row.forb, svcHas s (recordedSite row s) p = false
  ifTypes : row.ifTypes = [] ∨ ∀ i ∈ nifs s, i.kind ∈ row.ifTypes

/-- What the property asks for: *every* node and service meets the table. -/
structure SpecFull (c : Cfg) (t : Topo) : Prop where
  nodes : ∀ n ∈ t.nodes, ∃ row, c.node.lookup n.ty = some row ∧ NodeFull row n
  svcs : ∀ s ∈ t.svcs, ∃ row, c.svc.lookup s.ty = some row ∧ SvcFull t.exp row s
  instances : InstOK c (t.svcs.map (recordSite c))

theorem present_truthy_eq (fc props hollow blank : List String) (p : String) (hh : ∀ q ∈ hollow, q ∉ fc) :
    present true fc props hollow blank p = props.contains p := by
  unfold present
  simp only [if_true]
  by_cases hq : hollow.contains p = true
  · have h2 : p ∉ fc := hh p (by simpa using hq)
    simp
    exact fun _ => Or.inr h2
  · have h2 : p ∉ hollow := by simpa using hq
    simp
    exact fun _ => Or.inl h2

/-- where the validator tests by truthiness, can read every property the row names and no hollow value belongs to a class
that can be falsy, what it sees is what is set -/
theorem svcHolds_eq_has (c : Cfg) (s : Svc) (site : Option String) (p : String)
    (hr : p ∈ c.svcShallow) (hh : ∀ q ∈ s.hollow, q ∉ c.svcFalsyCapable) : svcHolds c true s site p = svcHas s site p := by
  unfold svcHolds svcHas valueSeen siteSeen
  have h1 : c.svcShallow.contains p = true := by simpa using hr
  rw [h1, Bool.true_and, present_truthy_eq _ _ _ _ _ hh]
  simp

theorem svcOK_iff_full (c : Cfg) (exp : Bool) (row : SvcRow) (s : Svc)
    (hread : ∀ p ∈ row.req ++ row.forb, p ∈ c.svcGetters ∧ p ∈ c.svcShallow)
    (hmr : c.svcReqTruthy = true) (hmf : c.svcForbTruthy = true)
    (hh : ∀ q ∈ s.hollow, q ∉ c.svcFalsyCapable) : SvcOK c exp row s ↔ SvcFull exp row s := by
  have e : ∀ p ∈ row.req ++ row.forb, svcHolds c true s (recordedSite row s) p = svcHas s (recordedSite row s) p :=
    fun p hp => svcHolds_eq_has c s _ p (hread p hp).2 hh
  constructor
  · intro h
    refine ⟨h.ports, h.nstype, fun p hp => ?_, fun p hp => ?_, h.ifTypes⟩
    · have := h.required p hp
      rw [hmr, e p (List.mem_append.mpr (Or.inl hp))] at this
      exact this
    · have := h.forbidden p hp
      rw [hmf, e p (List.mem_append.mpr (Or.inr hp))] at this
      exact this
  · intro h
    refine ⟨h.ports, h.nstype, fun p hp => (hread p hp).1, fun p hp => ?_, fun p hp => ?_, h.ifTypes⟩
    · rw [hmr, e p (List.mem_append.mpr (Or.inl hp))]; exact h.required p hp
    · rw [hmf, e p (List.mem_append.mpr (Or.inr hp))]; exact h.forbidden p hp

/-- the same for a whole slice -/
theorem svcs_ok_iff_full (c : Cfg) (t : Topo)
    (hread : ∀ kr ∈ c.svc, ∀ p ∈ kr.2.req ++ kr.2.forb, p ∈ c.svcGetters ∧ p ∈ c.svcShallow)
    (hmr : c.svcReqTruthy = true) (hmf : c.svcForbTruthy = true)
    (hh : ∀ s ∈ t.svcs, ∀ q ∈ s.hollow, q ∉ c.svcFalsyCapable) :
    (∀ s ∈ t.svcs, ∃ row, c.svc.lookup s.ty = some row ∧ SvcOK c t.exp row s) ↔
    (∀ s ∈ t.svcs, ∃ row, c.svc.lookup s.ty = some row ∧ SvcFull t.exp row s) := by
  constructor
  · intro h s hs
    obtain ⟨row, hl, hk⟩ := h s hs
    obtain ⟨kr, hkr, rfl⟩ := lookup_mem c.svc s.ty row hl
    exact ⟨kr.2, hl, (svcOK_iff_full c t.exp kr.2 s (hread kr hkr) hmr hmf (hh s hs)).mp hk⟩
  · intro h s hs
    obtain ⟨row, hl, hk⟩ := h s hs
    obtain ⟨kr, hkr, rfl⟩ := lookup_mem c.svc s.ty row hl
    exact ⟨kr.2, hl, (svcOK_iff_full c t.exp kr.2 s (hread kr hkr) hmr hmf (hh s hs)).mpr hk⟩

/-- where the node check tests by truthiness, can read the property and no hollow value belongs to a class that can be
falsy, what it sees is what is set -/
theorem nodeSees_eq_has (c : Cfg) (n : Node) (p : String) (hr : nodeReadable c p = true)
    (hh : ∀ q ∈ n.hollow, q ∉ c.nodeFalsyCapable) : nodeSees c true n p = n.props.contains p := by
  unfold nodeSees
  rw [hr, Bool.true_and, present_truthy_eq _ _ _ _ _ hh]

theorem nodeOK_iff_full (c : Cfg) (row : NodeRow) (n : Node)
    (hread : ∀ p ∈ row.req ++ row.forb, nodeReadable c p = true)
    (hmr : c.nodeReqTruthy = true) (hmf : c.nodeForbTruthy = true)
    (hh : ∀ q ∈ n.hollow, q ∉ c.nodeFalsyCapable) : NodeOK c row n ↔ NodeFull row n := by
  have e : ∀ p ∈ row.req ++ row.forb, nodeSees c true n p = n.props.contains p :=
    fun p hp => nodeSees_eq_has c n p (hread p hp) hh
  constructor
  · intro h
    refine ⟨fun p hp => ?_, fun p hp => ?_⟩
    · have := h.required p hp
      rw [hmr, e p (List.mem_append.mpr (Or.inl hp))] at this
      simpa using this
    · have := h.forbidden p hp
      rw [hmf, e p (List.mem_append.mpr (Or.inr hp))] at this
      simpa using this
  · intro h
    refine ⟨fun p hp => ?_, fun p hp => ?_⟩
    · rw [hmr, e p (List.mem_append.mpr (Or.inl hp))]
      simpa using h.required p hp
    · rw [hmf, e p (List.mem_append.mpr (Or.inr hp))]
      simpa using h.forbidden p hp

theorem mem_visibleNodes (c : Cfg) (t : Topo) (n : Node) :
    n ∈ visibleNodes c t ↔ n ∈ t.nodes ∧ n.ty ∉ c.nodeTypesNotValidated := by
  simp [visibleNodes]

theorem validate_ok (c : Cfg) (t : Topo) : (validate c t).1 = .ok () ↔ SpecOK c t := by
  unfold validate
  cases hn : validateNodes c (visibleNodes c t) with
  | error e =>
    simp only [reduceCtorEq, false_iff]
    intro h
    have : validateNodes c (visibleNodes c t) = .ok () :=
      (validateNodes_ok c _).mpr fun n hn' =>
        (validateNode_ok c n).mpr (h.nodes n ((mem_visibleNodes c t n).mp hn').1 ((mem_visibleNodes c t n).mp hn').2)
    rw [hn] at this; cases this
  | ok u =>
    have hnodes : ∀ n ∈ t.nodes, n.ty ∉ c.nodeTypesNotValidated → ∃ row, c.node.lookup n.ty = some row ∧ NodeOK c row n :=
      fun n h1 h2 => (validateNode_ok c n).mp ((validateNodes_ok c _).mp hn n ((mem_visibleNodes c t n).mpr ⟨h1, h2⟩))
    simp only
    have hk := validateSvcs_ok c t.exp t.svcs
    have hst := validateSvcs_state c t.exp t.svcs
    match hv : validateSvcs c t.exp t.svcs with
    | (.error e, svcs') =>
      rw [hv] at hk
      simp only [reduceCtorEq, false_iff]
      intro h
      have : (Except.error e : Res) = .ok () := hk.mpr fun s hs => (validateSvc_ok c t.exp s).mpr (h.svcs s hs)
      cases this
    | (.ok u', svcs') =>
      rw [hv] at hk hst
      have hall := hk.mp rfl
      have hs' : svcs' = t.svcs.map (recordSite c) := hst rfl
      subst hs'
      simp only [instances_ok]
      constructor
      · intro h; exact ⟨hnodes, fun s hs => (validateSvc_ok c t.exp s).mp (hall s hs), h⟩
      · intro h; exact h.instances

theorem validate_state (c : Cfg) (t : Topo) (h : (validate c t).1 = .ok ()) :
    (validate c t).2 = { t with svcs := t.svcs.map (recordSite c) } := by
  unfold validate at h ⊢
  cases hn : validateNodes c (visibleNodes c t) with
  | error e => simp [hn] at h
  | ok u =>
    rw [hn] at h
    simp only at h ⊢
    have hst := validateSvcs_state c t.exp t.svcs
    match hv : validateSvcs c t.exp t.svcs with
    | (.error e, svcs') => simp [hv] at h
    | (.ok u', svcs') =>
      rw [hv] at hst
      have : svcs' = t.svcs.map (recordSite c) := hst rfl
      simp only [this]

theorem validate_frame (c : Cfg) (t : Topo) :
    (validate c t).2.exp = t.exp ∧ (validate c t).2.nodes = t.nodes ∧
      (validate c t).2.svcs.map eraseSite = t.svcs.map eraseSite := by
  unfold validate
  cases validateNodes c (visibleNodes c t) with
  | error e => simp
  | ok u =>
    have hf := validateSvcs_frame c t.exp t.svcs
    match hv : validateSvcs c t.exp t.svcs with
    | (.error e, svcs') => rw [hv] at hf; exact ⟨rfl, rfl, hf⟩
    | (.ok u', svcs') => rw [hv] at hf; exact ⟨rfl, rfl, hf⟩

/-! ### every failure is a `TopologyException` (no crash) on a well-formed table -/

theorem validateNode_error (c : Cfg) (n : Node) (e : Err) (hl : (c.node.lookup n.ty).isSome)
    (h : validateNode c n = .error e) : e = .topology := by
  unfold validateNode at h
  cases hr : c.node.lookup n.ty with
  | none => simp [hr] at hl
  | some row =>
    rw [hr] at h
    simp only at h
    split at h
    · split at h
      · cases h; rfl
      · cases h
    · cases h; rfl

theorem validateNodes_error (c : Cfg) (l : List Node) (e : Err) (hl : ∀ n ∈ l, (c.node.lookup n.ty).isSome)
    (h : validateNodes c l = .error e) : e = .topology := by
  induction l with
  | nil => simp [validateNodes] at h
  | cons n ns ih =>
    simp only [validateNodes] at h
    cases hv : validateNode c n with
    | error e' =>
      rw [hv] at h; cases h
      exact validateNode_error c n e (hl n (by simp)) hv
    | ok u =>
      rw [hv] at h
      exact ih (fun m hm => hl m (by simp [hm])) h

theorem nstype_error (exp : Bool) (row : SvcRow) (s : Svc) (n : List NIface) (e : Err)
    (h : (nstypeConstraints exp row s n).1 = .error e) : e = .topology := by
  unfold nstypeConstraints at h
  split at h
  · cases h; rfl
  split at h
  · cases h; rfl
  split at h
  · rename_i e' hs
    cases h
    unfold siteSet at hs
    split at hs
    · cases ho : ownerSites n with
      | error e'' => rw [ho] at hs; cases hs; exact ownerSites_error n _ ho
      | ok xs => rw [ho] at hs; cases hs
    · cases hs
  · split at h
    · cases h; rfl
    · split at h
      · cases h
      · split at h
        · split at h
          · cases h
          · cases h; rfl
        · cases h
      · split at h
        · cases h; rfl
        · cases h

theorem checkReq_error (c : Cfg) (s : Svc) (site : Option String) (ps : List String) (e : Err)
    (hg : ∀ p ∈ ps, p ∈ c.svcGetters) (h : checkReq c s site ps = .error e) : e = .topology := by
  induction ps with
  | nil => simp [checkReq] at h
  | cons p ps ih =>
    simp only [checkReq] at h
    have hp : c.svcGetters.contains p = true := by simpa using hg p (by simp)
    simp only [svcSees, hp, if_true] at h
    split at h
    · rename_i heq; cases heq
    · exact ih (fun q hq => hg q (by simp [hq])) h
    · cases h; rfl

theorem checkForb_error (c : Cfg) (s : Svc) (site : Option String) (ps : List String) (e : Err)
    (hg : ∀ p ∈ ps, p ∈ c.svcGetters) (h : checkForb c s site ps = .error e) : e = .topology := by
  induction ps with
  | nil => simp [checkForb] at h
  | cons p ps ih =>
    simp only [checkForb] at h
    have hp : c.svcGetters.contains p = true := by simpa using hg p (by simp)
    simp only [svcSees, hp, if_true] at h
    split at h
    · rename_i heq; cases heq
    · exact ih (fun q hq => hg q (by simp [hq])) h
    · cases h; rfl

theorem validateConstraints_error (c : Cfg) (exp : Bool) (row : SvcRow) (s : Svc) (n : List NIface) (e : Err)
    (hg : ∀ p ∈ row.req ++ row.forb, p ∈ c.svcGetters)
    (h : (validateConstraints c exp row s n).1 = .error e) : e = .topology := by
  unfold validateConstraints at h
  match hn : nstypeConstraints exp row s n with
  | (.error e', site) =>
    rw [hn] at h; cases h
    exact nstype_error exp row s n e (by rw [hn])
  | (.ok u, site) =>
    rw [hn] at h
    simp only at h
    cases h1 : checkReq c s site row.req with
    | error e' =>
      rw [h1] at h; cases h
      exact checkReq_error c s site row.req e (fun p hp => hg p (List.mem_append.mpr (Or.inl hp))) h1
    | ok u1 =>
      rw [h1] at h
      simp only at h
      cases h2 : checkForb c s site row.forb with
      | error e' =>
        rw [h2] at h; cases h
        exact checkForb_error c s site row.forb e (fun p hp => hg p (List.mem_append.mpr (Or.inr hp))) h2
      | ok u2 =>
        rw [h2] at h
        simp only [checkIfTypes] at h
        split at h
        · cases h
        · split at h
          · cases h
          · cases h; rfl

theorem validateSvc_error (c : Cfg) (exp : Bool) (s : Svc) (e : Err)
    (hg : ∀ kr ∈ c.svc, ∀ p ∈ kr.2.req ++ kr.2.forb, p ∈ c.svcGetters)
    (hl : (c.svc.lookup s.ty).isSome) (h : (validateSvc c exp s).1 = .error e) : e = .topology := by
  unfold validateSvc at h
  cases hr : c.svc.lookup s.ty with
  | none => simp [hr] at hl
  | some row =>
    obtain ⟨kr, hkr, rfl⟩ := lookup_mem c.svc s.ty row hr
    rw [hr] at h
    simp only at h
    cases hres : resolve s s.ifs with
    | error e' => rw [hres] at h; cases h; exact resolve_error s s.ifs e hres
    | ok n =>
      rw [hres] at h
      exact validateConstraints_error c exp kr.2 s n e (hg kr hkr) h

theorem validateSvcs_error (c : Cfg) (exp : Bool) (l : List Svc) (e : Err)
    (hg : ∀ kr ∈ c.svc, ∀ p ∈ kr.2.req ++ kr.2.forb, p ∈ c.svcGetters)
    (hl : ∀ s ∈ l, (c.svc.lookup s.ty).isSome) (h : (validateSvcs c exp l).1 = .error e) : e = .topology := by
  induction l with
  | nil => simp [validateSvcs] at h
  | cons s rest ih =>
    simp only [validateSvcs] at h
    match hv : validateSvc c exp s with
    | (.error e', s') =>
      rw [hv] at h; cases h
      exact validateSvc_error c exp s e hg (hl s (by simp)) (by rw [hv])
    | (.ok u, s') =>
      rw [hv] at h
      exact ih (fun x hx => hl x (by simp [hx])) h

theorem instances_unlimited (c : Cfg) (svcs : List Svc) (h0 : ∀ kr ∈ c.svc, kr.2.numInst = 0) :
    instances c svcs = .ok () := by
  have hz : ∀ ty, instLimit c ty = 0 := by
    intro ty
    unfold instLimit
    cases hl : c.svc.lookup ty with
    | none => rfl
    | some row =>
      obtain ⟨kr, hkr, rfl⟩ := lookup_mem c.svc ty row hl
      exact h0 kr hkr
  exact (instances_ok c svcs).mpr ⟨fun s _ h => absurd (hz s.ty) h, fun s _ h => absurd (hz s.ty) h⟩

theorem validate_error (c : Cfg) (t : Topo) (e : Err)
    (hg : ∀ kr ∈ c.svc, ∀ p ∈ kr.2.req ++ kr.2.forb, p ∈ c.svcGetters)
    (h0 : ∀ kr ∈ c.svc, kr.2.numInst = 0)
    (hn : ∀ n ∈ t.nodes, (c.node.lookup n.ty).isSome) (hs : ∀ s ∈ t.svcs, (c.svc.lookup s.ty).isSome)
    (h : (validate c t).1 = .error e) : e = .topology := by
  unfold validate at h
  cases hv : validateNodes c (visibleNodes c t) with
  | error e' =>
    rw [hv] at h; cases h
    exact validateNodes_error c _ e (fun n hn' => hn n ((mem_visibleNodes c t n).mp hn').1) hv
  | ok u =>
    rw [hv] at h
    simp only at h
    match hsv : validateSvcs c t.exp t.svcs with
    | (.error e', svcs') =>
      rw [hsv] at h; cases h
      exact validateSvcs_error c t.exp t.svcs e hg hs (by rw [hsv])
    | (.ok u', svcs') =>
      rw [hsv] at h
      simp only [instances_unlimited c svcs' h0] at h
      cases h

/-! ### interface names are labels: validation counts interfaces by identity -/

theorem resolveOne_rename (f : String → String) (s : Svc) (i : SIface) :
    resolveOne (s.rename f) (i.rename f) = resolveOne s i := by
  cases i with
  | direct n k => rfl
  | port n ps =>
    match ps with
    | none => rfl
    | some [] => rfl
    | some [p] => rfl
    | some (_ :: _ :: _) => rfl

theorem resolve_rename (f : String → String) (s : Svc) (l : List SIface) :
    resolve (s.rename f) (l.map (SIface.rename f)) = resolve s l := by
  induction l with
  | nil => rfl
  | cons i is ih => simp only [List.map_cons, resolve, resolveOne_rename, ih]

theorem checkReq_rename (c : Cfg) (f : String → String) (s : Svc) (site : Option String) (ps : List String) :
    checkReq c (s.rename f) site ps = checkReq c s site ps := by
  induction ps with
  | nil => rfl
  | cons p ps ih =>
    simp only [checkReq, ih]
    rfl

theorem checkForb_rename (c : Cfg) (f : String → String) (s : Svc) (site : Option String) (ps : List String) :
    checkForb c (s.rename f) site ps = checkForb c s site ps := by
  induction ps with
  | nil => rfl
  | cons p ps ih =>
    simp only [checkForb, ih]
    rfl

theorem validateConstraints_rename (c : Cfg) (exp : Bool) (f : String → String) (row : SvcRow) (s : Svc) (n : List NIface) :
    validateConstraints c exp row (s.rename f) n = validateConstraints c exp row s n := by
  unfold validateConstraints
  have h : nstypeConstraints exp row (s.rename f) n = nstypeConstraints exp row s n := rfl
  rw [h]
  simp only [checkReq_rename, checkForb_rename]

theorem validateSvc_rename (c : Cfg) (exp : Bool) (f : String → String) (s : Svc) :
    validateSvc c exp (s.rename f) = ((validateSvc c exp s).1, (validateSvc c exp s).2.rename f) := by
  unfold validateSvc
  show (match c.svc.lookup s.ty with | none => _ | some row => _) = _
  cases c.svc.lookup s.ty with
  | none => rfl
  | some row =>
    simp only
    have hr : resolve (s.rename f) (s.rename f).ifs = resolve s s.ifs := resolve_rename f s s.ifs
    rw [hr]
    cases resolve s s.ifs with
    | error e => rfl
    | ok n => simp only [validateConstraints_rename]; rfl

theorem validateSvcs_rename (c : Cfg) (exp : Bool) (f : String → String) (l : List Svc) :
    validateSvcs c exp (l.map (Svc.rename f)) = ((validateSvcs c exp l).1, (validateSvcs c exp l).2.map (Svc.rename f)) := by
  induction l with
  | nil => rfl
  | cons s rest ih =>
    simp only [List.map_cons, validateSvcs, validateSvc_rename]
    match validateSvc c exp s with
    | (.error e, s') => rfl
    | (.ok u, s') => simp only [ih, List.map_cons]

theorem instContribution_rename (f : String → String) (s : Svc) (site : String) :
    instContribution (s.rename f) site = instContribution s site := rfl

theorem instances_rename (c : Cfg) (f : String → String) (l : List Svc) :
    instances c (l.map (Svc.rename f)) = instances c l := by
  have h1 : instCrash c (l.map (Svc.rename f)) = instCrash c l := by
    simp only [instCrash, List.any_map]
    congr 1; funext s
    simp [Svc.rename]
  have hm : mentionedSites (l.map (Svc.rename f)) = mentionedSites l := by
    simp only [mentionedSites, List.filterMap_map]; rfl
  have hc : ∀ ty site, instCount (l.map (Svc.rename f)) ty site = instCount l ty site := by
    intro ty site
    simp only [instCount, List.filter_map, List.map_map]
    rfl
  have h2 : instWithin c (l.map (Svc.rename f)) = instWithin c l := by
    simp only [instWithin, List.all_map, hm, hc]
    rfl
  simp only [instances, h1, h2]

theorem validate_rename (c : Cfg) (f : String → String) (t : Topo) :
    validate c (t.rename f) = ((validate c t).1, (validate c t).2.rename f) := by
  unfold validate
  show (match validateNodes c (visibleNodes c t) with | .error e => _ | .ok _ => _) = _
  cases validateNodes c (visibleNodes c t) with
  | error e => rfl
  | ok u =>
    simp only
    show (match validateSvcs c t.exp (t.svcs.map (Svc.rename f)) with | (.error e, svcs') => _ | (.ok _, svcs') => _) = _
    rw [validateSvcs_rename]
    match validateSvcs c t.exp t.svcs with
    | (.error e, svcs') => rfl
    | (.ok u', svcs') => simp only [instances_rename]; rfl

end FimVerif.Validate
