import FimVerif.Proofs.Lemmas.C10
import FimVerif.Proofs.Lemmas.C11Log
/-!
C11 ↔ C10: the site inference the ASM path of the collectors relies on (`Authz.inferSite`, `Authz.recordSites`) is what
C10's model of `Topology.validate()` (`Validate.validate`; `Validate.validate_state`, published as `C10.site_recorded`) leaves on the services.

`G10` is a slice graph as C10 and C11 read it together: C10's topology (everything `validate()` reads or writes) plus
what only the collectors read (node slivers, per-service name / bandwidth / mirrored port, facilities, node interfaces).
`present10` is the collectors' raw view of it, `validate10` is C10's `validate` on the regenerated tables.
`validate10_records_sites` discharges hypothesis `H_validate_records_sites` of `C11.Layers.Hyp` for this instance.
-/
namespace FimVerif.Authz
open FimVerif.Validate
open FimVerif.Gen.Constraints (SvcRow)

/-- `None` and `''` are both "no site" for the collectors -/
def siteStr (o : Option String) : String := o.getD ""

theorem truthy_false_iff (o : Option String) : truthy o = false ↔ siteStr o = "" := by
  cases o with
  | none => simp [truthy, siteStr]
  | some s => simp [truthy, siteStr]

/-- a duplicate-free list all of whose members are `x` and that has a member is `[x]` -/
theorem nodup_all_eq_singleton (l : List String) (x : String) (hn : l.Nodup) (hne : l ≠ []) (hall : ∀ y ∈ l, y = x) :
    l = [x] := by
  match l, hn, hne, hall with
  | [a], _, _, hall => rw [hall a (by simp)]
  | a :: b :: r, hn, _, hall =>
    have ha := hall a (by simp)
    have hb := hall b (by simp)
    rw [List.nodup_cons] at hn
    exact absurd (by rw [ha, hb]; simp) hn.1

/-- the Python `set` built by `sites.add(...)` is a singleton `{x}` exactly when C10's `dedup` of the same list is `[x]` -/
theorem addAll_singleton_iff (xs : List String) (x : String) :
    xs.foldl addSet [] = [x] ↔ Validate.dedup xs = [x] := by
  rw [dedup_eq_singleton]
  show addAll [] xs = [x] ↔ _
  constructor
  · intro h
    refine ⟨?_, ?_⟩
    · intro hx; rw [hx] at h; simp [addAll] at h
    · intro y hy
      have : y ∈ addAll [] xs := (mem_addAll [] xs y).mpr (Or.inr hy)
      rw [h] at this; simpa using this
  · rintro ⟨hne, hall⟩
    apply nodup_all_eq_singleton _ _ (nodup_addAll [] xs List.nodup_nil)
    · intro h
      cases xs with
      | nil => exact hne rfl
      | cons a r =>
        have : a ∈ addAll [] (a :: r) := (mem_addAll [] (a :: r) a).mpr (Or.inr (by simp))
        rw [h] at this; simp at this
    · intro y hy
      rcases (mem_addAll [] xs y).mp hy with h | h
      · simp at h
      · exact hall y h

/-- **Per service.** C11's `inferSite` on the collectors' view of a service computes the site C10's `recordedSiteOf`
(the state `__validate_nstype_constraints` leaves) has, whatever the constraint row and the interfaces. -/
theorem inferSite_eq_recordedSiteOf (row : SvcRow) (s : Svc) (n : List NIface) (sv : SvcS) (hsite : sv.site = siteStr s.site) :
    (inferSite ⟨sv, n.filterMap (·.owner), row.numSites != 0⟩).site = siteStr (recordedSiteOf row s n) := by
  unfold inferSite recordedSiteOf
  by_cases h0 : row.numSites = 0
  · simp [h0, hsite]
  · have hb : (row.numSites != 0) = true := by simpa using h0
    simp only [hb, if_true, ne_eq, h0, not_false_eq_true, true_and]
    by_cases ht : truthy s.site = false
    · have he : sv.site = "" := by rw [hsite]; exact (truthy_false_iff _).mp ht
      simp only [ht, if_true]
      split
      · rename_i x hx
        rw [(addAll_singleton_iff _ x).mp hx]
        simp [he, siteStr]
      · rename_i hx
        split
        · rename_i x hx'
          exact absurd ((addAll_singleton_iff _ x).mpr hx') (hx x)
        · exact hsite
    · have hne : sv.site ≠ "" := by rw [hsite]; intro h; exact ht ((truthy_false_iff _).mpr h)
      have hne' : siteStr s.site ≠ "" := hsite ▸ hne
      simp only [ht]
      split
      · simp [hsite, hne']
      · exact hsite

/-! ### the slice level -/

/-- what only the collectors read of a service (`validate()` neither reads nor writes it) -/
structure SvcExtra where
  name : String
  bw : Option Int
  mport : Option String
  deriving Repr

/-- `ServiceConstraints[type].num_sites != NO_LIMIT` on the table `c` -/
def limitedIn (c : Cfg) (ty : String) : Bool :=
  match c.svc.lookup ty with
  | some row => row.numSites != 0
  | none => false

/-- the collectors' raw view of a C10 service -/
def rawOf (c : Cfg) (s : Svc) (e : SvcExtra) : RawSvc :=
  ⟨⟨e.name, s.ty, siteStr s.site, e.bw, e.mport⟩, (nifs s).filterMap (·.owner), limitedIn c s.ty⟩

theorem nifs_recordSite (c : Cfg) (s : Svc) : nifs (recordSite c s) = nifs s := by
  unfold recordSite
  cases c.svc.lookup s.ty with
  | none => rfl
  | some row =>
    have hf : nifOf { s with site := recordedSite row s } = nifOf s := by
      funext i
      cases i <;> rfl
    simp only [nifs, hf]

theorem ty_recordSite (c : Cfg) (s : Svc) : (recordSite c s).ty = s.ty := by
  unfold recordSite
  cases c.svc.lookup s.ty <;> rfl

/-- **Per service, on a table.** The view of the service `validate()` leaves is the `stamp` of the view before. -/
theorem rawOf_recordSite (c : Cfg) (s : Svc) (e : SvcExtra) :
    rawOf c (recordSite c s) e = { rawOf c s e with svc := inferSite (rawOf c s e) } := by
  have hn := nifs_recordSite c s
  have ht := ty_recordSite c s
  have hsite : siteStr (recordSite c s).site = (inferSite (rawOf c s e)).site := by
    unfold recordSite rawOf limitedIn
    cases hl : c.svc.lookup s.ty with
    | none => simp [inferSite]
    | some row =>
      simp only
      exact (inferSite_eq_recordedSiteOf row s (nifs s) ⟨e.name, s.ty, siteStr s.site, e.bw, e.mport⟩ rfl).symm
  have hrest : inferSite (rawOf c s e) = { (rawOf c s e).svc with site := (inferSite (rawOf c s e)).site } := by
    unfold inferSite
    split
    · split
      · split <;> rfl
      · rfl
    · rfl
  show (⟨⟨e.name, (recordSite c s).ty, siteStr (recordSite c s).site, e.bw, e.mport⟩,
      (nifs (recordSite c s)).filterMap (·.owner), limitedIn c (recordSite c s).ty⟩ : RawSvc)
    = ⟨inferSite (rawOf c s e), (nifs s).filterMap (·.owner), limitedIn c s.ty⟩
  rw [hn, ht, hsite]
  congr 1
  exact hrest.symm

/-- a slice graph as `validate()` (C10) and the collectors (C11) read it together -/
structure G10 where
  topo : Topo
  nodes : List NodeS
  extras : List SvcExtra
  facs : List String
  ifaces : List Iface

/-- what the topology API presents of it to the collectors -/
def present10 (c : Cfg) (g : G10) : RawSlice :=
  { nodes := g.nodes, svcs := List.zipWith (rawOf c) g.topo.svcs g.extras, facs := g.facs, ifaces := g.ifaces }

/-- `Topology.validate()` as modelled for C10, on this graph: `none` = it raises -/
def validate10 (c : Cfg) (g : G10) : Option G10 :=
  if (Validate.validate c g.topo).1 = .ok () then some { g with topo := (Validate.validate c g.topo).2 } else none

theorem zipWith_map_stamp (c : Cfg) : ∀ (ss : List Svc) (es : List SvcExtra),
    List.zipWith (rawOf c) (ss.map (recordSite c)) es
      = (List.zipWith (rawOf c) ss es).map fun r => { r with svc := inferSite r }
  | [], _ => by simp
  | _ :: _, [] => by simp
  | s :: ss, e :: es => by
    simp only [List.map_cons, List.zipWith_cons_cons, rawOf_recordSite, zipWith_map_stamp c ss es]

/-- **`validate()` records exactly the inferred sites** (C10 `site_recorded`, read through the collectors' view): a
successful validation changes what the topology presents to the collectors into its `stamp` - nothing but the sites of
the services, each set to `inferSite` of what was there. This is hypothesis `H_validate_records_sites` for `G10`. -/
theorem validate10_records_sites (c : Cfg) (g g' : G10) (h : validate10 c g = some g') :
    present10 c g' = stamp (present10 c g) := by
  unfold validate10 at h
  split at h
  · rename_i hok
    simp only [Option.some.injEq] at h
    subst h
    have hs := validate_state c g.topo hok      -- = C10.site_recorded
    unfold present10 stamp
    simp only [hs, zipWith_map_stamp]
  · cases h

end FimVerif.Authz
