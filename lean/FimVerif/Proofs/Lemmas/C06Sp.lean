import FimVerif.Proofs.Lemmas.C06Bfs
namespace FimVerif.Query
open FimVerif.Gen

/-- `u` and `v` are joined by an edge, of relation `rel` when one is requested -/
def Adj (g : TGraph) (rel : Option String) (u v : String) : Prop :=
  ∃ r, Edge g u v r ∧ ∀ r0, rel = some r0 → r = r0

/-- `p` is a path from `a` to `z` over `rel` edges -/
def IsPath (g : TGraph) (rel : Option String) (a z : String) (p : List String) : Prop :=
  p.head? = some a ∧ p.getLast? = some z ∧ IsChain (Adj g rel) p

/-- the graph the search runs on: the extracted copy after `_drop_edges_not_of_type` -/
def restrict (g : TGraph) : Option String → TGraph
  | none => g
  | some r => { g with edges := g.edges.filter (fun e => e.2.2 == r) }

theorem verts_restrict (g : TGraph) (rel : Option String) : verts (restrict g rel) = verts g := by
  cases rel <;> rfl

theorem adjB_iff {g : TGraph} {u v : String} : adjB g u v = true ↔ ∃ r, Edge g u v r := by
  unfold adjB Edge
  simp only [List.any_eq_true, joins_iff]
  constructor
  · rintro ⟨⟨a, b, r⟩, he, h⟩
    rcases h with ⟨h1, h2⟩ | ⟨h1, h2⟩
    · exact ⟨r, Or.inl (by simp_all)⟩
    · exact ⟨r, Or.inr (by simp_all)⟩
  · rintro ⟨r, h | h⟩
    · exact ⟨_, h, Or.inl ⟨rfl, rfl⟩⟩
    · exact ⟨_, h, Or.inr ⟨rfl, rfl⟩⟩

theorem adjB_restrict {g : TGraph} {rel : Option String} {u v : String} :
    adjB (restrict g rel) u v = true ↔ Adj g rel u v := by
  rw [adjB_iff]
  cases rel with
  | none => simp [restrict, Adj]
  | some r0 =>
    simp only [restrict, Adj, Edge, List.mem_filter, beq_iff_eq, Option.some.injEq]
    constructor
    · rintro ⟨r, h | h⟩
      · exact ⟨r, Or.inl h.1, fun _ e => e ▸ h.2⟩
      · exact ⟨r, Or.inr h.1, fun _ e => e ▸ h.2⟩
    · rintro ⟨r, h, hr⟩
      have := hr r0 rfl
      rcases h with h | h
      · exact ⟨r, Or.inl ⟨h, this⟩⟩
      · exact ⟨r, Or.inr ⟨h, this⟩⟩

theorem IsChain.imp {R S : String → String → Prop} (h : ∀ u v, R u v → S u v) :
    ∀ {l : List String}, IsChain R l → IsChain S l
  | [], _ => trivial
  | [_], _ => trivial
  | _ :: _ :: _, hc => ⟨h _ _ hc.1, IsChain.imp h hc.2⟩

theorem ends_of_wf {g : TGraph} (hw : wf g = true) (rel : Option String) :
    ∀ u v, adjB (restrict g rel) u v = true → u ∈ verts (restrict g rel) := by
  intro u v h
  rw [verts_restrict]
  obtain ⟨r, he, _⟩ := adjB_restrict.1 h
  have hends := (wf_iff.1 hw).2.1
  rcases he with he | he
  · exact (hends _ he).1
  · exact (hends _ he).2

/-- the model of `get_nodes_on_shortest_path`, given that the drop iterates over a snapshot -/
theorem sp_eq (hsnap : QueryIdioms.dropIteratesSnapshot = true) (g : TGraph) (a z : String) (rel : Option String) :
    getNodesOnShortestPath g a z rel =
      (do extract g; findNode g a; findNode g z; pure (shortest (restrict g rel) a z)) := by
  unfold getNodesOnShortestPath
  cases rel with
  | none =>
    simp only [restrict, bind, Except.bind, pure, Except.pure]
  | some r =>
    simp only [restrict, dropEdgesNotOfType, dropWith, hsnap, if_true, bind, Except.bind, pure, Except.pure]

theorem sp_ok (hsnap : QueryIdioms.dropIteratesSnapshot = true) {g : TGraph} {a z : String} {rel : Option String}
    {p : List String} (h : getNodesOnShortestPath g a z rel = .ok p) :
    a ∈ verts g ∧ z ∈ verts g ∧ p = shortest (restrict g rel) a z := by
  rw [sp_eq hsnap] at h
  unfold extract findNode at h
  by_cases h1 : g.nodes.isEmpty = true <;> by_cases h2 : a ∈ verts g <;> by_cases h3 : z ∈ verts g <;>
    simp [h1, h2, h3, bind, Except.bind, pure, Except.pure] at h
  exact ⟨h2, h3, h.symm⟩

theorem shortest_isPath_spec {g : TGraph} (hw : wf g = true) (a z : String) (rel : Option String) :
    let p := shortest (restrict g rel) a z
    (p = [] ∧ ¬ ∃ q, IsPath g rel a z q) ∨
    (IsPath g rel a z p ∧ ∀ q, IsPath g rel a z q → p.length ≤ q.length) := by
  intro p
  have hwalk : ∀ q, IsPath g rel a z q →
      ∃ n, n + 1 = q.length ∧ Walk (fun u v => adjB (restrict g rel) u v = true) z a n := by
    rintro q ⟨hh, hl, hc⟩
    cases q with
    | nil => simp at hh
    | cons v rest =>
      simp at hh; subst hh
      exact ⟨rest.length, rfl, walk_of_chain rest v (IsChain.imp (fun _ _ h => adjB_restrict.2 h) hc) hl⟩
  rcases shortest_spec (a := a) (z := z) (ends_of_wf hw rel) with ⟨he, hno⟩ | ⟨rest, he, hc, hl, hmin⟩
  · left
    refine ⟨he, ?_⟩
    rintro ⟨q, hq⟩
    obtain ⟨n, _, hwn⟩ := hwalk q hq
    exact hno n hwn
  · right
    have hp : p = a :: rest := he
    have hl' : p.getLast? = some z := hl
    have hc' : IsChain (fun u v => adjB (restrict g rel) u v = true) p := hc
    refine ⟨⟨by rw [hp]; rfl, hl', IsChain.imp (fun _ _ h => adjB_restrict.1 h) hc'⟩, ?_⟩
    intro q hq
    obtain ⟨n, hn, hwn⟩ := hwalk q hq
    have : ¬ n < rest.length := fun h => hmin n h hwn
    rw [hp, List.length_cons]
    omega

end FimVerif.Query
