import FimVerif.Proofs.Lemmas.C08Gen
/-! The disconnect loop of `Topology._disconnect_interfaces` under the invariant, and the generic shape of a user-level
removal call: disconnect the interfaces below the element, then the graph-level removal. -/
namespace FimVerif.Remove

/-- a deleted element has no neighbours left -/
theorem nbrs_minus_gone (g : G) (D : List Nat) (x : Nat) (r : Rel) (c : Cls) (hx : D.contains x = true) :
    (g.minus D).nbrs x r c = [] := by
  unfold G.nbrs
  have : ((g.minus D).edges).filterMap (fun e => e.other x r) = [] := by
    rw [List.filterMap_eq_nil_iff]
    intro e he
    simp only [G.minus, List.mem_filter, Bool.and_eq_true, Bool.not_eq_true'] at he
    cases ho : e.other x r with
    | none => rfl
    | some y =>
      rcases other_eq_some ho with ⟨ha, _⟩ | ⟨hb, _⟩
      · rw [ha, hx] at he; cases he.2.1
      · rw [hb, hx] at he; cases he.2.2
  rw [this]; rfl

theorem spPeers_gone (g : G) (D : List Nat) (i : Nat) (hi : D.contains i = true) : spPeers (g.minus D) i = [] := by
  simp [spPeers, peers, nbrs_minus_gone g D i _ _ hi]

/-- under the peering invariant an interface has at most one ServicePort peer -/
theorem spPeers_cases {g : G} (hP : InvPeer g = true) {i : Nat} (hc : g.cls? i = some .cp) :
    spPeers g i = [] ∨ ∃ p, spPeers g i = [p] := by
  have hl := (invPeer_cp hP hc).1
  match hlk : g.nbrs i .connects .link, hl with
  | [], _ => left; simp [spPeers, peers, hlk]
  | [l], _ =>
    by_cases hex : ∃ p ∈ spPeers g i, True
    · obtain ⟨p, hp, _⟩ := hex
      right
      have hp' := hp
      simp only [spPeers, List.mem_filter, peers, List.mem_flatMap, beq_iff_eq, bne_iff_ne, ne_eq, hlk,
        List.mem_singleton, exists_eq_left] at hp'
      obtain ⟨⟨hpl, hne⟩, hk⟩ := hp'
      have hcl : g.cls? l = some .link := mem_nbrs_cls g i l _ _ (by rw [hlk]; simp)
      exact ⟨p, spPeers_of_portOf hP ⟨l, ⟨hc, by rw [hlk]; simp, invPeer_link hP hcl hpl hk⟩, hpl, hne, hk⟩⟩
    · left
      cases hsp : spPeers g i with
      | nil => rfl
      | cons p _ => exact absurd ⟨p, by rw [hsp]; simp, trivial⟩ hex

theorem portOf_iff_spPeers {g : G} (hP : InvPeer g = true) {i p : Nat} (hc : g.cls? i = some .cp) :
    PortOf g i p ↔ spPeers g i = [p] :=
  ⟨spPeers_of_portOf hP, fun h => (spPeers_singleton hP hc h).1⟩


theorem two_le_length_of_mem {l : List Nat} {a b : Nat} (ha : a ∈ l) (hb : b ∈ l) (hne : a ≠ b) : 2 ≤ l.length := by
  match l, ha, hb with
  | [x], ha, hb => simp at ha hb; exact absurd (ha.trans hb.symm) hne
  | _ :: _ :: _, _, _ => simp

theorem spPeers_minus_inv (g : G) (hP : InvPeer g = true) (A : List Nat) (hOK : LinkOK g A) (i : Nat)
    (hc : g.cls? i = some .cp) (hiA : i ∉ A) :
    spPeers (g.minus A) i = (spPeers g i).filter (fun p => !A.contains p) := by
  have hiA' : A.contains i = false := by simpa [List.contains_eq_mem] using hiA
  have hl := (invPeer_cp hP hc).1
  match hlk : g.nbrs i .connects .link, hl with
  | [], _ => simp [spPeers, peers, nbrs_minus g A i _ _ hiA', hlk]
  | [l], _ =>
    have hli : l ∈ g.nbrs i .connects .link := by rw [hlk]; simp
    have hcl : g.cls? l = some .link := mem_nbrs_cls g i l _ _ hli
    by_cases hlA : l ∈ A
    · have h1 : spPeers (g.minus A) i = [] := by
        simp [spPeers, peers, nbrs_minus g A i _ _ hiA', hlk, hlA]
      rw [h1]
      symm
      rw [List.filter_eq_nil_iff]
      intro p hp
      have hp' := hp
      simp only [spPeers, List.mem_filter, peers, List.mem_flatMap, beq_iff_eq, bne_iff_ne, ne_eq, hlk,
        List.mem_singleton, exists_eq_left] at hp'
      obtain ⟨⟨hpl, hne⟩, hk⟩ := hp'
      have hil : i ∈ g.nbrs l .connects .cp := nbrs_symm g i l _ _ _ hli hc
      have h1 := ((hOK l hcl).mp hlA).2.2
      apply Classical.byContradiction
      intro hpA0
      have hpA : p ∉ A := by
        intro h; apply hpA0; simp [List.contains_eq_mem, h]
      have : 2 ≤ (live g A l).length := by
        apply two_le_length_of_mem (a := i) (b := p)
        · simp [live, hil, hiA]
        · simp [live, hpl, hpA]
        · exact fun h => hne h.symm
      omega
    · have hlA' : A.contains l = false := by simpa [List.contains_eq_mem] using hlA
      simp only [spPeers, peers, nbrs_minus g A i _ _ hiA', hlk, List.filter_cons, hlA', Bool.not_false, ite_true,
        List.filter_nil, List.flatMap_cons, List.flatMap_nil, List.append_nil, nbrs_minus g A l _ _ hlA',
        List.filter_filter]
      apply List.filter_congr
      intro q _
      rw [kind_minus]
      by_cases hq : q ∈ A
      · simp [List.contains_eq_mem, hq]
      · simp [List.contains_eq_mem, hq]


theorem portOf_cls {g : G} {i p : Nat} (h : PortOf g i p) : g.cls? i = some .cp ∧ g.cls? p = some .cp ∧ g.kind? p = some kServicePort := by
  obtain ⟨l, ⟨hc, _, _⟩, hpl, _, hk⟩ := h
  exact ⟨hc, mem_nbrs_cls _ _ _ _ _ hpl, hk⟩

/-- **one iteration of `_disconnect_interfaces`** for an interface that is still present -/
theorem disconnectStep_res (g : G) (hW : WF g = true) (A : List Nat) (hInv : InvC g A) (hD : DownC g A) (i : Nat)
    (hc : g.cls? i = some .cp) (hiA : i ∉ A) :
    Res g A (fun y => PortOf g i y) (disconnectStep (g.minus A) i) := by
  have hP := wf_peer hW
  have hsp := spPeers_minus_inv g hP A hInv.1 i hc hiA
  have hnone : ∀ (hempty : (spPeers g i).filter (fun p => !A.contains p) = []) (hall : ∀ y, PortOf g i y → y ∈ A),
      Res g A (fun y => PortOf g i y) (disconnectStep (g.minus A) i) := by
    intro hempty hall
    refine ⟨A, ?_, fun _ h => h, fun y _ => ⟨Or.inl, fun h => h.elim id (hall y)⟩, hInv⟩
    unfold disconnectStep; rw [hsp, hempty]
  rcases spPeers_cases hP hc with h0 | ⟨p, hp⟩
  · apply hnone (by rw [h0]; rfl)
    intro y hy; rw [portOf_iff_spPeers hP hc, h0] at hy; cases hy
  · have hport : PortOf g i p := (portOf_iff_spPeers hP hc).mpr hp
    obtain ⟨_, hpc, hpk⟩ := portOf_cls hport
    by_cases hpA : p ∈ A
    · apply hnone (by rw [hp]; simp [List.contains_eq_mem, hpA])
      intro y hy; rw [portOf_iff_spPeers hP hc, hp] at hy
      simp only [List.cons.injEq, and_true] at hy; subst hy; exact hpA
    · have hpA' : A.contains p = false := by simpa [List.contains_eq_mem] using hpA
      have hfl : (spPeers g i).filter (fun p => !A.contains p) = [p] := by rw [hp]; simp [List.contains_eq_mem, hpA]
      -- the port's service is still there
      have hlen := wf_port hW hpc hpk
      have hsvc : (g.minus A).nbrs p .connects .ns = g.nbrs p .connects .ns := by
        rw [nbrs_minus g A p _ _ hpA']
        apply filter_eq_self_of_all
        apply List.all_eq_true.mpr
        intro s hs
        have hsns := mem_nbrs_cls _ _ _ _ _ hs
        have hps : p ∈ children g s := by
          simp only [children, hsns]; exact nbrs_symm g p s _ _ _ hs hpc
        have : s ∉ A := fun h => hpA (hD s h p hps)
        simpa [List.contains_eq_mem] using this
      have hsub : isSub g p = false := by
        simp only [isSub, List.isEmpty_eq_false_iff]
        intro h; rw [h] at hlen; cases hlen
      obtain ⟨A', hr, hsub', hmem, hInv'⟩ := removeCpTop_res g hW A hInv p hpc hsub hpA
      have hhas : (g.minus A).has i = true := by
        rw [has_minus, cls_has hc]; simp [List.contains_eq_mem, hiA]
      refine ⟨A', ?_, hsub', ?_, hInv'⟩
      · unfold disconnectStep
        rw [hsp, hfl]
        simp only [hsvc, hlen, beq_self_eq_true, ite_true, disconnectG, hhas, hsp, hfl, hr, Except.map]
      · intro y hy
        rw [hmem y hy, (invPeer_cp hP hpc).2 hpk]
        show y ∈ A ∨ (y = p ∨ y ∈ []) ↔ y ∈ A ∨ PortOf g i y
        rw [portOf_iff_spPeers hP hc, hp]
        simp [eq_comm]


/-- the port of a port is the interface itself -/
theorem portOf_unique {g : G} (hP : InvPeer g = true) {j p y : Nat} (h1 : PortOf g j p) (h2 : PortOf g p y) : y = j := by
  obtain ⟨l, ⟨hjc, hjl, hl2⟩, hpl, hne, _⟩ := h1
  obtain ⟨l', ⟨hpc, hpl', _⟩, hyl, hyne, _⟩ := h2
  have hcl := mem_nbrs_cls _ _ _ _ _ hjl
  have : l ∈ g.nbrs p .connects .link := nbrs_symm g l p _ _ _ hpl hcl
  have h1 := eq_singleton_of_mem_of_length_le_one this (invPeer_cp hP hpc).1
  rw [h1] at hpl'; simp only [List.mem_singleton] at hpl'; subst hpl'
  have hj : j ∈ g.nbrs l' .connects .cp := nbrs_symm g j l' _ _ _ hjl hjc
  have := filter_ne_pair hl2 hpl hj (fun h => hne h.symm)
  have hy : y ∈ (g.nbrs l' .connects .cp).filter (fun q => q != p) := by simp [hyl, hyne]
  rw [this] at hy; simpa using hy

/-- the element with what is below it and the service-side ports of its interfaces (everything owned but links) -/
def Own (g : G) (x y : Nat) : Prop := ∃ i, Below g x i ∧ (y = i ∨ PortOf g i y)

/-- with an interface, `A` contains its service-side port -/
def PortC (g : G) (A : List Nat) : Prop := ∀ i ∈ A, ∀ y, PortOf g i y → y ∈ A

/-- the invariant between two user-level calls -/
def InvA (g : G) (A : List Nat) : Prop := InvC g A ∧ DownC g A ∧ PortC g A

theorem invA_nil (g : G) : InvA g [] := ⟨invC_nil g, downC_nil g, fun _ h => by cases h⟩

def ResA (g : G) (A : List Nat) (P : Nat → Prop) (r : Except Err G) : Prop :=
  ∃ A', r = .ok (g.minus A') ∧ (∀ y, y ∈ A → y ∈ A') ∧
    (∀ y, g.cls? y ≠ some .link → (y ∈ A' ↔ y ∈ A ∨ P y)) ∧ InvA g A'

theorem port_children {g : G} (hP : InvPeer g = true) {i p : Nat} (h : PortOf g i p) : children g p = [] := by
  obtain ⟨_, hpc, hpk⟩ := portOf_cls h
  simp only [children, hpc, (invPeer_cp hP hpc).2 hpk]
  split <;> rfl

/-- **the loop of `_disconnect_interfaces`** over any list `I` of connection points taken from `J` -/
theorem disconnectAll_res (g : G) (hW : WF g = true) (J : Nat → Prop) : ∀ (I A : List Nat), InvC g A → DownC g A →
    (∀ i ∈ I, g.cls? i = some .cp ∧ J i) →
    (∀ i ∈ I, i ∈ A → ∀ y, PortOf g i y → y ∈ A ∨ J y) →
    ∃ A', disconnectAll (g.minus A) I = .ok (g.minus A') ∧ (∀ y, y ∈ A → y ∈ A') ∧ InvC g A' ∧ DownC g A' ∧
      (∀ y, g.cls? y ≠ some .link → y ∈ A' → y ∈ A ∨ ∃ i ∈ I, PortOf g i y) ∧
      (∀ i ∈ I, ∀ y, PortOf g i y → y ∈ A' ∨ J y)
  | [], A, hInv, hD, _, _ =>
    ⟨A, by simp [disconnectAll, List.foldlM_nil, pure, Except.pure], fun _ h => h, hInv, hD, fun _ _ h => Or.inl h,
      fun _ h => by cases h⟩
  | i :: I, A, hInv, hD, hI, hgone => by
    have hP := wf_peer hW
    have hic := (hI i (by simp)).1
    by_cases hiA : i ∈ A
    · -- already gone: nothing happens
      have hstep : disconnectStep (g.minus A) i = .ok (g.minus A) := by
        unfold disconnectStep
        rw [spPeers_gone g A i (by simpa [List.contains_eq_mem] using hiA)]
      obtain ⟨A', hr, hsub, hInv', hD', hup, hlow⟩ := disconnectAll_res g hW J I A hInv hD
        (fun i' h => hI i' (List.mem_cons_of_mem _ h)) (fun i' h => hgone i' (List.mem_cons_of_mem _ h))
      refine ⟨A', ?_, hsub, hInv', hD', ?_, ?_⟩
      · simp only [disconnectAll, List.foldlM_cons, hstep, bind, Except.bind]; exact hr
      · intro y hy h
        rcases hup y hy h with h | ⟨i', hi', hp⟩
        · exact Or.inl h
        · exact Or.inr ⟨i', List.mem_cons_of_mem _ hi', hp⟩
      · intro i' hi' y hp
        rcases List.mem_cons.mp hi' with rfl | hi'
        · rcases hgone i' (by simp) hiA y hp with h | h
          · exact Or.inl (hsub y h)
          · exact Or.inr h
        · exact hlow i' hi' y hp
    · obtain ⟨A1, hr1, hsub1, hmem1, hInv1⟩ := disconnectStep_res g hW A hInv hD i hic hiA
      have hD1 : DownC g A1 := downC_of_mem hD
        (fun x y hx hy => by rw [port_children hP hx] at hy; cases hy) hsub1 hmem1
      obtain ⟨A', hr, hsub, hInv', hD', hup, hlow⟩ := disconnectAll_res g hW J I A1 hInv1 hD1
        (fun i' h => hI i' (List.mem_cons_of_mem _ h)) (by
          intro i' hi' hi'A1 y hp
          have hi'c := (hI i' (List.mem_cons_of_mem _ hi')).1
          have hnl : g.cls? i' ≠ some .link := by rw [hi'c]; intro h; cases h
          rcases (hmem1 i' hnl).mp hi'A1 with h | h
          · rcases hgone i' (List.mem_cons_of_mem _ hi') h y hp with h | h
            · exact Or.inl (hsub1 y h)
            · exact Or.inr h
          · -- `i'` is the port just removed for `i`: its own port is `i`
            have := portOf_unique hP h hp
            subst this
            exact Or.inr (hI y (by simp)).2)
      refine ⟨A', ?_, fun y hy => hsub y (hsub1 y hy), hInv', hD', ?_, ?_⟩
      · simp only [disconnectAll, List.foldlM_cons, hr1, bind, Except.bind]; exact hr
      · intro y hy h
        rcases hup y hy h with h | ⟨i', hi', hp⟩
        · rcases (hmem1 y hy).mp h with h | h
          · exact Or.inl h
          · exact Or.inr ⟨i, by simp, h⟩
        · exact Or.inr ⟨i', List.mem_cons_of_mem _ hi', hp⟩
      · intro i' hi' y hp
        rcases List.mem_cons.mp hi' with rfl | hi'
        · have hyl : g.cls? y ≠ some .link := by rw [(portOf_cls hp).2.1]; intro h; cases h
          exact Or.inl (hsub y ((hmem1 y hyl).mpr (Or.inr hp)))
        · exact hlow i' hi' y hp


/-- **a user-level removal call**: disconnect the connection points `I` below `x` that are still present, then `rem`
(which removes what is below `x`).  The result is `A` plus everything owned by `x` but links; the links follow from
`LinkOK`. -/
theorem api_res (g : G) (hW : WF g = true) (A : List Nat) (hA : InvA g A) (x : Nat) {k : Cls}
    (hx : g.cls? x = some k) (hk : k ≠ .link) (hxA : x ∉ A) (I : List Nat) (rem : G → Except Err G)
    (hI : ∀ i, i ∈ I ↔ (Below g x i ∧ g.cls? i = some .cp ∧ i ∉ A))
    (hxP : ∀ j, Below g x j → ¬ PortOf g j x)
    (hrem : ∀ A1, InvC g A1 → DownC g A1 → x ∉ A1 → Res g A1 (Below g x) (rem (g.minus A1))) :
    ResA g A (Own g x) ((disconnectAll (g.minus A) I).bind rem) := by
  have hP := wf_peer hW
  obtain ⟨hInv, hD, hPC⟩ := hA
  obtain ⟨A1, hr1, hsub1, hInv1, hD1, hup, hlow⟩ := disconnectAll_res g hW (fun y => Below g x y) I A hInv hD
    (fun i hi => ⟨((hI i).mp hi).2.1, ((hI i).mp hi).1⟩) (fun i hi hiA => absurd hiA ((hI i).mp hi).2.2)
  have hxl : g.cls? x ≠ some .link := by rw [hx]; intro h; exact hk (Option.some.inj h)
  have hxA1 : x ∉ A1 := by
    intro h
    rcases hup x hxl h with h | ⟨i, hi, hp⟩
    · exact hxA h
    · exact hxP i ((hI i).mp hi).1 hp
  obtain ⟨A2, hr2, hsub2, hmem2, hInv2⟩ := hrem A1 hInv1 hD1 hxA1
  have hmem : ∀ y, g.cls? y ≠ some .link → (y ∈ A2 ↔ y ∈ A ∨ Own g x y) := by
    intro y hy
    rw [hmem2 y hy]
    constructor
    · rintro (h | h)
      · rcases hup y hy h with h | ⟨i, hi, hp⟩
        · exact Or.inl h
        · exact Or.inr ⟨i, ((hI i).mp hi).1, Or.inr hp⟩
      · exact Or.inr ⟨y, h, Or.inl rfl⟩
    · rintro (h | ⟨i, hb, rfl | hp⟩)
      · exact Or.inl (hsub1 y h)
      · exact Or.inr hb
      · by_cases hiA : i ∈ A
        · exact Or.inl (hsub1 y (hPC i hiA y hp))
        · exact hlow i ((hI i).mpr ⟨hb, (portOf_cls hp).1, hiA⟩) y hp
  refine ⟨A2, ?_, fun y hy => hsub2 y (hsub1 y hy), hmem, hInv2, ?_, ?_⟩
  · rw [hr1]; exact hr2
  · exact downC_of_mem hD1 (fun a b ha hb => Below.step ha hb) hsub2 hmem2
  · intro i hi y hp
    obtain ⟨hic, hyc, _⟩ := portOf_cls hp
    have hil : g.cls? i ≠ some .link := by rw [hic]; intro h; cases h
    have hyl : g.cls? y ≠ some .link := by rw [hyc]; intro h; cases h
    rcases (hmem i hil).mp hi with h | ⟨j, hb, rfl | hq⟩
    · exact hsub2 y (hsub1 y (hPC i h y hp))
    · exact (hmem y hyl).mpr (Or.inr ⟨i, hb, Or.inr hp⟩)
    · have := portOf_unique hP hq hp
      subst this
      exact (hmem y hyl).mpr (Or.inr ⟨y, hb, Or.inl rfl⟩)

end FimVerif.Remove
