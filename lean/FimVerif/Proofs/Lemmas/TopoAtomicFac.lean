import FimVerif.Proofs.Lemmas.TopoAtomicExt
/-! The composites `add_facility` / `add_switch`: the states they pass through (`fac`: a fresh node, its fresh service,
fresh interfaces under it) and what the `except` clause's `remove_network_node_with_components_nss_cps_and_links`
does to such a state: it gives back exactly the state the call started from. -/
namespace FimVerif.Topo
open FimVerif FimVerif.M

/-- `s` plus a node `fn`, a service `sn` it has, and interfaces `cps` of that service -/
def fac (s : Topo) (fn sn : GNode) (cps : List GNode) : Topo :=
  { nodes := s.nodes ++ [fn, sn] ++ cps,
    edges := s.edges ++ [⟨fn.ref, sn.ref, .has⟩] ++ cps.map (fun cp => ⟨sn.ref, cp.ref, .connects⟩) }

structure FacOk (s : Topo) (fn sn : GNode) (cps : List GNode) : Prop where
  closed : Closed s
  ds : IdsDistinct s
  fcls : fn.cls = .networkNode
  scls : sn.cls = .networkService
  ccls : ∀ c ∈ cps, c.cls = .connectionPoint
  ffn : ∀ m ∈ s.nodes, m.nid ≠ fn.nid
  fsn : ∀ m ∈ s.nodes, m.nid ≠ sn.nid
  fcp : ∀ c ∈ cps, ∀ m ∈ s.nodes, m.nid ≠ c.nid
  nfs : fn.nid ≠ sn.nid
  ncf : ∀ c ∈ cps, c.nid ≠ fn.nid ∧ c.nid ≠ sn.nid
  ncc : (cps.map (·.nid)).Nodup

section
variable {s : Topo} {fn sn : GNode} {cps : List GNode}

theorem FacOk.dist (h : FacOk s fn sn cps) : IdsDistinct (fac s fn sn cps) := by
  unfold IdsDistinct fac
  simp only [List.map_append, List.map_cons, List.map_nil]
  rw [List.nodup_append, List.nodup_append]
  refine ⟨⟨h.ds, ?_, ?_⟩, h.ncc, ?_⟩
  · simp [h.nfs]
  · intro a ha b hb
    obtain ⟨m, hm, rfl⟩ := List.mem_map.mp ha
    simp only [List.mem_cons, List.mem_nil_iff, or_false] at hb
    rcases hb with rfl | rfl
    · exact h.ffn m hm
    · exact h.fsn m hm
  · intro a ha b hb
    obtain ⟨c, hc, rfl⟩ := List.mem_map.mp hb
    rcases List.mem_append.mp ha with ha | ha
    · obtain ⟨m, hm, rfl⟩ := List.mem_map.mp ha
      exact h.fcp c hc m hm
    · simp only [List.mem_cons, List.mem_nil_iff, or_false] at ha
      rcases ha with rfl | rfl
      · exact fun e => (h.ncf c hc).1 e.symm
      · exact fun e => (h.ncf c hc).2 e.symm

theorem not_touch_new (hc : Closed s) {x : GNode} (hx : ∀ m ∈ s.nodes, m.nid ≠ x.nid) : ¬ touches s.edges x.ref :=
  not_touches_of_closed hc (fun m hm => ref_ne_of_nid_ne (hx m hm))

theorem filter_untouched (hc : Closed s) {x : GNode} (hx : ∀ m ∈ s.nodes, m.nid ≠ x.nid) :
    s.edges.filter (fun e => e.a != x.ref && e.b != x.ref) = s.edges := by
  rw [List.filter_eq_self]; intro e he
  have hnt := not_touch_new hc hx
  have ha : e.a ≠ x.ref := fun h => hnt ⟨e, he, .inl h⟩
  have hb : e.b ≠ x.ref := fun h => hnt ⟨e, he, .inr h⟩
  simp [ha, hb]

theorem filter_nodes_new {x : GNode} (hx : ∀ m ∈ s.nodes, m.nid ≠ x.nid) :
    s.nodes.filter (fun n => n.ref != x.ref) = s.nodes := by
  rw [List.filter_eq_self]; intro m hm; simpa using ref_ne_of_nid_ne (hx m hm)

/-- the state after the node is gone -/
def fac1 (s : Topo) (sn : GNode) (cps : List GNode) : Topo :=
  { nodes := s.nodes ++ [sn] ++ cps, edges := s.edges ++ cps.map (fun cp => ⟨sn.ref, cp.ref, .connects⟩) }

/-- the state after node and service are gone -/
def fac2 (s : Topo) (cps : List GNode) : Topo := { nodes := s.nodes ++ cps, edges := s.edges }

theorem filter_cps_ne {x : GNode} (hx : ∀ c ∈ cps, c.nid ≠ x.nid) : cps.filter (fun n => n.ref != x.ref) = cps := by
  rw [List.filter_eq_self]; intro c hc; simpa using ref_ne_of_nid_ne (hx c hc)

theorem drop_fn (h : FacOk s fn sn cps) : dropNode fn.ref (fac s fn sn cps) = fac1 s sn cps := by
  unfold dropNode fac fac1
  congr 1
  · simp only [List.filter_append, filter_nodes_new h.ffn, filter_cps_ne (fun c hc => (h.ncf c hc).1)]
    have : ¬ sn.ref = fn.ref := ref_ne_of_nid_ne (fun e => h.nfs e.symm)
    simp [List.filter_cons, this]
  · simp only [List.filter_append, filter_untouched h.closed h.ffn]
    have h1 : ([⟨fn.ref, sn.ref, .has⟩] : List GEdge).filter (fun e => e.a != fn.ref && e.b != fn.ref) = [] := by simp
    have h2 : (cps.map (fun cp => (⟨sn.ref, cp.ref, .connects⟩ : GEdge))).filter (fun e => e.a != fn.ref && e.b != fn.ref) =
        cps.map (fun cp => ⟨sn.ref, cp.ref, .connects⟩) := by
      rw [List.filter_eq_self]; intro e he
      obtain ⟨c, hc, rfl⟩ := List.mem_map.mp he
      have a1 : ¬ sn.ref = fn.ref := ref_ne_of_nid_ne (fun e => h.nfs e.symm)
      have a2 : ¬ c.ref = fn.ref := ref_ne_of_nid_ne (h.ncf c hc).1
      simp [a1, a2]
    rw [h1, h2]; simp

theorem drop_sn (h : FacOk s fn sn cps) : dropNode sn.ref (fac1 s sn cps) = fac2 s cps := by
  unfold dropNode fac1 fac2
  congr 1
  · simp only [List.filter_append, filter_nodes_new h.fsn, filter_cps_ne (fun c hc => (h.ncf c hc).2)]
    simp
  · simp only [List.filter_append, filter_untouched h.closed h.fsn]
    have h2 : (cps.map (fun cp => (⟨sn.ref, cp.ref, .connects⟩ : GEdge))).filter (fun e => e.a != sn.ref && e.b != sn.ref) = [] := by
      rw [List.filter_eq_nil_iff]; intro e he
      obtain ⟨c, hc, rfl⟩ := List.mem_map.mp he
      simp
    rw [h2]; simp

end

theorem filter_singleton {l : List GNode} (hn : (l.map (·.nid)).Nodup) {x : GNode} (hx : x ∈ l) {p : GNode → Bool}
    (hp : ∀ y ∈ l, p y = true ↔ y = x) : l.filter p = [x] := by
  rw [← filter_nid_unique hn hx]
  apply List.filter_congr
  intro y hy
  by_cases e : y.nid = x.nid
  · have := eq_of_nid_eq hn hy hx e
    subst this
    simp [(hp y hy).mpr rfl]
  · have h1 : p y = false := by
      cases h : p y
      · rfl
      · exact absurd (congrArg GNode.nid ((hp y hy).mp h)) e
    rw [h1, beq_eq_false_iff_ne.mpr e]

theorem neighbors_isolated {t : Topo} {r : Ref} (h : ¬ touches t.edges r) (rel : Rel) (L : Cls) : neighbors t r rel L = [] := by
  unfold neighbors adjacent
  rw [List.filter_eq_nil_iff]
  intro n _
  rw [adjacent_false_of_not_touch h]; simp

theorem filterMapM'_nil {β γ : Type} (f : β → M Topo (Option γ)) (t : Topo) : M.filterMapM' f [] t = (.ok [], t) := rfl

/-- removing a ConnectionPoint that nothing is attached to deletes just that node -/
theorem removeCp_isolated {t : Topo} (hd : IdsDistinct t) {c : GNode} (hc : c ∈ t.nodes) (hnt : ¬ touches t.edges c.ref) (dp : Bool) :
    removeCpAndLinks c.nid dp t = (.ok (), dropNode c.ref t) := by
  unfold removeCpAndLinks
  rw [bind_ok (firstNeighbor_run hd hc .connects .connectionPoint), neighbors_isolated hnt]
  rw [List.map_nil, bind_ok (filterMapM'_nil _ t)]
  have e1 : ([c.nid] : List Nid).eraseDups = [c.nid] := by simp [List.eraseDups_cons]
  obtain ⟨links, hlinks, hP⟩ := mapM'_run
    (f := fun i => do
      let ls ← firstNeighbor i .connects .link
      M.filterMapM' (fun l => do
        let cps ← firstNeighbor l .connects .connectionPoint
        Pure.pure (if cps.length == 2 then some l else none)) ls)
    (P := fun l : List Nid => l = []) (s := t) [c.nid] (by
      intro b hb
      simp only [List.mem_singleton] at hb
      subst hb
      exact ⟨[], by rw [bind_ok (firstNeighbor_run hd hc .connects .link), neighbors_isolated hnt]; rfl, rfl⟩)
  rw [e1, bind_ok hlinks]
  have hfl : links.flatten = [] := by rw [List.flatten_eq_nil_iff]; exact hP
  rw [hfl, List.append_nil, e1, forEach_cons_ok (deleteNode_run hd hc)]
  rfl

section
variable {s : Topo} {fn sn : GNode} {cps : List GNode}

theorem mem_fac_edges {e : GEdge} : e ∈ (fac s fn sn cps).edges ↔
    e ∈ s.edges ∨ e = ⟨fn.ref, sn.ref, .has⟩ ∨ ∃ c ∈ cps, e = ⟨sn.ref, c.ref, .connects⟩ := by
  simp only [fac, List.mem_append, List.mem_singleton, List.mem_map, or_assoc]
  constructor
  · rintro (h | h | ⟨c, hc, rfl⟩)
    · exact .inl h
    · exact .inr (.inl h)
    · exact .inr (.inr ⟨c, hc, rfl⟩)
  · rintro (h | h | ⟨c, hc, rfl⟩)
    · exact .inl h
    · exact .inr (.inl h)
    · exact .inr (.inr ⟨c, hc, rfl⟩)

theorem adj_fn (h : FacOk s fn sn cps) {x : Ref} {rel : Rel} :
    adjacent (fac s fn sn cps) fn.ref x rel = true ↔ (rel = .has ∧ x = sn.ref) := by
  have hsf : ¬ sn.ref = fn.ref := ref_ne_of_nid_ne (fun e => h.nfs e.symm)
  rw [adjacent_iff]
  constructor
  · rintro ⟨e, he, hr, hs⟩
    rw [sameEnds_iff] at hs
    rcases mem_fac_edges.mp he with he | rfl | ⟨c, hc, rfl⟩
    · exfalso
      apply not_touch_new h.closed h.ffn
      rcases hs with ⟨h1, _⟩ | ⟨_, h2⟩
      · exact ⟨e, he, .inl h1⟩
      · exact ⟨e, he, .inr h2⟩
    · rcases hs with ⟨_, h2⟩ | ⟨_, h2⟩
      · exact ⟨hr.symm, h2.symm⟩
      · exact absurd h2 hsf
    · have hcf : ¬ c.ref = fn.ref := ref_ne_of_nid_ne (h.ncf c hc).1
      rcases hs with ⟨h1, _⟩ | ⟨_, h2⟩
      · exact absurd h1 hsf
      · exact absurd h2 hcf
  · rintro ⟨rfl, rfl⟩
    exact ⟨⟨fn.ref, sn.ref, .has⟩, mem_fac_edges.mpr (.inr (.inl rfl)), rfl, sameEnds_iff.mpr (.inl ⟨rfl, rfl⟩)⟩

theorem fn_mem : fn ∈ (fac s fn sn cps).nodes := by simp [fac]
theorem sn_mem : sn ∈ (fac s fn sn cps).nodes := by simp [fac]

theorem nb_fn_comp (h : FacOk s fn sn cps) : neighbors (fac s fn sn cps) fn.ref .has .component = [] := by
  unfold neighbors
  rw [List.filter_eq_nil_iff]
  intro n _ hp
  simp only [Bool.and_eq_true, beq_iff_eq] at hp
  have := ((adj_fn h).mp hp.2).2
  have hc := cls_of_ref_eq this
  rw [hp.1, h.scls] at hc
  cases hc

theorem nb_fn_ns (h : FacOk s fn sn cps) : neighbors (fac s fn sn cps) fn.ref .has .networkService = [sn] := by
  unfold neighbors
  refine filter_singleton h.dist sn_mem (fun y hy => ?_)
  simp only [Bool.and_eq_true, beq_iff_eq]
  constructor
  · intro hp
    exact (ref_eq_iff h.dist hy sn_mem).mp ((adj_fn h).mp hp.2).2
  · rintro rfl
    exact ⟨h.scls, (adj_fn h).mpr ⟨rfl, rfl⟩⟩

theorem fac1_dist (h : FacOk s fn sn cps) : IdsDistinct (fac1 s sn cps) := by
  rw [← drop_fn h]; exact idsDistinct_drop h.dist _

theorem fac2_dist (h : FacOk s fn sn cps) : IdsDistinct (fac2 s cps) := by
  rw [← drop_sn h]; exact idsDistinct_drop (fac1_dist h) _

theorem nb_sn_cp (h : FacOk s fn sn cps) : neighbors (fac1 s sn cps) sn.ref .connects .connectionPoint = cps := by
  unfold neighbors
  have hnt := not_touch_new h.closed h.fsn
  have adj : ∀ x : Ref, adjacent (fac1 s sn cps) sn.ref x .connects = true ↔ ∃ c ∈ cps, c.ref = x := by
    intro x
    rw [adjacent_iff]
    constructor
    · rintro ⟨e, he, _, hs⟩
      rw [sameEnds_iff] at hs
      simp only [fac1, List.mem_append, List.mem_map] at he
      rcases he with he | ⟨c, hc, rfl⟩
      · exfalso
        rcases hs with ⟨h1, _⟩ | ⟨_, h2⟩
        · exact hnt ⟨e, he, .inl h1⟩
        · exact hnt ⟨e, he, .inr h2⟩
      · rcases hs with ⟨_, h2⟩ | ⟨_, h2⟩
        · exact ⟨c, hc, h2⟩
        · exact absurd h2 (ref_ne_of_nid_ne (h.ncf c hc).2)
    · rintro ⟨c, hc, rfl⟩
      refine ⟨⟨sn.ref, c.ref, .connects⟩, ?_, rfl, sameEnds_iff.mpr (.inl ⟨rfl, rfl⟩)⟩
      simp only [fac1, List.mem_append, List.mem_map]
      exact .inr ⟨c, hc, rfl⟩
  simp only [fac1, List.filter_append]
  have h1 : s.nodes.filter (fun n => n.cls == .connectionPoint && adjacent (fac1 s sn cps) sn.ref n.ref .connects) = [] := by
    rw [List.filter_eq_nil_iff]
    intro m hm hp
    simp only [Bool.and_eq_true, beq_iff_eq] at hp
    obtain ⟨c, hc, hcr⟩ := (adj _).mp hp.2
    exact h.fcp c hc m hm (nid_of_ref_eq hcr).symm
  have h2 : [sn].filter (fun n => n.cls == .connectionPoint && adjacent (fac1 s sn cps) sn.ref n.ref .connects) = [] := by
    simp [h.scls]
  have h3 : cps.filter (fun n => n.cls == .connectionPoint && adjacent (fac1 s sn cps) sn.ref n.ref .connects) = cps := by
    rw [List.filter_eq_self]
    intro c hc
    simp only [Bool.and_eq_true, beq_iff_eq]
    exact ⟨h.ccls c hc, (adj _).mpr ⟨c, hc, rfl⟩⟩
  simp only [fac1] at h1 h2 h3
  rw [h1, h2, h3]; rfl

/-- the loop of `remove_ns_with_cps_and_links` over interfaces nothing else is attached to -/
theorem loop_cps (hc : Closed s) : ∀ (cps : List GNode), IdsDistinct (fac2 s cps) → (∀ c ∈ cps, ∀ m ∈ s.nodes, m.nid ≠ c.nid) →
    M.forEach (cps.map (·.nid)) (fun i => removeCpAndLinks i true) (fac2 s cps) = (.ok (), s) := by
  intro cps
  induction cps with
  | nil =>
    intro _ _
    have : fac2 s [] = s := by cases s; simp [fac2]
    rw [this]; rfl
  | cons c rest ih =>
    intro hd hf
    have hcm : c ∈ (fac2 s (c :: rest)).nodes := by simp [fac2]
    have hnt : ¬ touches (fac2 s (c :: rest)).edges c.ref := not_touch_new hc (hf c (List.mem_cons_self ..))
    rw [List.map_cons, forEach_cons_ok (f := fun i => removeCpAndLinks i true) (x := c.nid) (removeCp_isolated hd hcm hnt true)]
    have hdrop : dropNode c.ref (fac2 s (c :: rest)) = fac2 s rest := by
      unfold dropNode fac2
      congr 1
      · have hnd : ((s.nodes ++ c :: rest).map (·.nid)).Nodup := hd
        simp only [List.map_append, List.map_cons] at hnd
        rw [List.nodup_append] at hnd
        have hr := hnd.2.1
        rw [List.nodup_cons] at hr
        simp only [List.filter_append, filter_nodes_new (hf c (List.mem_cons_self ..))]
        have : rest.filter (fun n => n.ref != c.ref) = rest := by
          rw [List.filter_eq_self]; intro r hr'
          have : r.nid ≠ c.nid := fun e => hr.1 (by rw [← e]; exact List.mem_map.mpr ⟨r, hr', rfl⟩)
          simpa using ref_ne_of_nid_ne this
        simp [List.filter_cons, this]
      · exact filter_untouched hc (hf c (List.mem_cons_self ..))
    rw [hdrop]
    refine ih ?_ (fun c' hc' => hf c' (List.mem_cons_of_mem _ hc'))
    rw [← hdrop]; exact idsDistinct_drop hd _

/-- what the `except` clause of the composites does to a partial facility / switch: exactly the start state comes back -/
theorem removeNodeGraph_fac (h : FacOk s fn sn cps) : removeNodeGraph fn.nid (fac s fn sn cps) = (.ok (), s) := by
  unfold removeNodeGraph
  rw [bind_ok (findNode_of_mem h.dist fn_mem), bind_ok (guard_run (by simp [h.fcls])),
    bind_ok (firstNeighbor_run h.dist fn_mem .has .component), nb_fn_comp h]
  rw [List.map_nil, bind_ok (show M.forEach [] removeCompGraph (fac s fn sn cps) = (.ok (), fac s fn sn cps) from rfl)]
  rw [bind_ok (firstNeighbor_run h.dist fn_mem .has .networkService), nb_fn_ns h, bind_ok (deleteNode_run h.dist fn_mem), drop_fn h]
  simp only [List.map_cons, List.map_nil]
  have hsn1 : sn ∈ (fac1 s sn cps).nodes := by simp [fac1]
  have hrm : removeNs sn.nid (fac1 s sn cps) = (.ok (), s) := by
    unfold removeNs
    rw [bind_ok (findNode_of_mem (fac1_dist h) hsn1), bind_ok (guard_run (by simp [h.scls])),
      bind_ok (firstNeighbor_run (fac1_dist h) hsn1 .connects .connectionPoint), nb_sn_cp h,
      bind_ok (deleteNode_run (fac1_dist h) hsn1), drop_sn h]
    exact loop_cps h.closed cps (fac2_dist h) h.fcp
  rw [forEach_cons_ok hrm]; rfl

end
/-! ### the states a composite passes through -/

theorem closed_fac {s : Topo} {fn sn : GNode} {cps : List GNode} (h : FacOk s fn sn cps) : Closed (fac s fn sn cps) := by
  intro e he
  rcases mem_fac_edges.mp he with he | rfl | ⟨c, hc, rfl⟩
  · obtain ⟨⟨x, hx, hxe⟩, ⟨y, hy, hye⟩⟩ := h.closed e he
    exact ⟨⟨x, by simp [fac, hx], hxe⟩, ⟨y, by simp [fac, hy], hye⟩⟩
  · exact ⟨⟨fn, fn_mem, rfl⟩, ⟨sn, sn_mem, rfl⟩⟩
  · exact ⟨⟨sn, sn_mem, rfl⟩, ⟨c, by simp [fac, hc], rfl⟩⟩

/-- the partial construct: just the node, or node + service + some interfaces -/
def FacState (s : Topo) (fn : GNode) (B : Topo) : Prop :=
  B = pushNode fn s ∨ ∃ sn cps, FacOk s fn sn cps ∧ B = fac s fn sn cps

/-- hypotheses about the freshly created node -/
structure NodeNew (s : Topo) (fn : GNode) : Prop where
  closed : Closed s
  ds : IdsDistinct s
  fcls : fn.cls = .networkNode
  ffn : ∀ m ∈ s.nodes, m.nid ≠ fn.nid

theorem removeNodeGraph_node {s : Topo} {fn : GNode} (h : NodeNew s fn) : removeNodeGraph fn.nid (pushNode fn s) = (.ok (), s) := by
  have hd : IdsDistinct (pushNode fn s) := idsDistinct_push h.ds h.ffn
  have hm : fn ∈ (pushNode fn s).nodes := by simp [pushNode]
  have hnt : ¬ touches (pushNode fn s).edges fn.ref := not_touch_new h.closed h.ffn
  unfold removeNodeGraph
  rw [bind_ok (findNode_of_mem hd hm), bind_ok (guard_run (by simp [h.fcls])),
    bind_ok (firstNeighbor_run hd hm .has .component), neighbors_isolated hnt, List.map_nil,
    bind_ok (show M.forEach [] removeCompGraph (pushNode fn s) = (.ok (), pushNode fn s) from rfl),
    bind_ok (firstNeighbor_run hd hm .has .networkService), neighbors_isolated hnt, List.map_nil,
    bind_ok (deleteNode_run hd hm)]
  have : dropNode fn.ref (pushNode fn s) = s := by
    cases s with
    | mk ns es =>
      unfold dropNode pushNode
      have h1 := filter_nodes_new (s := ⟨ns, es⟩) h.ffn
      have h2 := filter_untouched (s := ⟨ns, es⟩) h.closed h.ffn
      simp only [] at h1 h2
      simp only [List.filter_append, h1, h2]
      simp
  rw [this]; rfl

theorem rollback_facState {s : Topo} {fn : GNode} (hn : NodeNew s fn) {B : Topo} (h : FacState s fn B) :
    removeNodeGraph fn.nid B = (.ok (), s) := by
  rcases h with rfl | ⟨sn, cps, hok, rfl⟩
  · exact removeNodeGraph_node hn
  · exact removeNodeGraph_fac hok

/-- `add_interface` on the service of a partial construct: raises in that state, or one more interface -/
theorem nsAddInterface_fac {s : Topo} {fn sn : GNode} {cps : List GNode} (h : FacOk s fn sn cps) (fl : Flavour) (c : Nat)
    (name : String) (nid : Option Nid) (t : Option String) (props : List PropArg) :
    (∃ e, nsAddInterface fl c sn.nid [] name nid t props (fac s fn sn cps) = (.error e, fac s fn sn cps)) ∨
    (∃ n r, FacOk s fn sn (cps ++ [n]) ∧
      nsAddInterface fl c sn.nid [] name nid t props (fac s fn sn cps) = (.ok r, fac s fn sn (cps ++ [n]))) := by
  unfold nsAddInterface
  rw [bind_ok (guard_run (by simp))]
  rcases ifaceNew_cases fl c name nid sn.nid t props (fac s fn sn cps) with ⟨e, he⟩ | ⟨pn, n, hpn, hfr, hcls, _, _, _, _, hres⟩
  · exact .inl ⟨e, he⟩
  · have hpn' : sn = pn := by
      have := findNode_of_mem h.dist (sn_mem (s := s) (fn := fn) (cps := cps))
      rw [this] at hpn
      simp only [Prod.mk.injEq, Except.ok.injEq, and_true] at hpn
      exact hpn
    subst hpn'
    have hnt : ¬ touches (pushNode n (fac s fn sn cps)).edges n.ref :=
      not_touches_of_closed (t := fac s fn sn cps) (closed_fac h) (fun m hm => ref_ne_of_nid_ne (hfr m hm))
    rw [setEdge_fresh hnt] at hres
    have hst : ({ pushNode n (fac s fn sn cps) with edges := (pushNode n (fac s fn sn cps)).edges ++ [⟨sn.ref, n.ref, .connects⟩] } : Topo)
        = fac s fn sn (cps ++ [n]) := by
      simp [fac, pushNode, List.map_append, List.append_assoc]
    rw [hst] at hres
    refine .inr ⟨n, _, ?_, hres⟩
    have hfr' : ∀ m, m ∈ s.nodes ∨ m = fn ∨ m = sn ∨ m ∈ cps → m.nid ≠ n.nid := by
      intro m hm
      apply hfr m
      simp only [fac, List.mem_append, List.mem_cons, List.mem_nil_iff, or_false]
      rcases hm with hm | hm | hm | hm
      · exact .inl (.inl hm)
      · exact .inl (.inr (.inl hm))
      · exact .inl (.inr (.inr hm))
      · exact .inr hm
    exact {
      closed := h.closed, ds := h.ds, fcls := h.fcls, scls := h.scls
      ccls := by
        intro c' hc'
        rcases List.mem_append.mp hc' with hc' | hc'
        · exact h.ccls c' hc'
        · simp only [List.mem_singleton] at hc'; subst hc'; exact hcls
      ffn := h.ffn, fsn := h.fsn
      fcp := by
        intro c' hc' m hm
        rcases List.mem_append.mp hc' with hc' | hc'
        · exact h.fcp c' hc' m hm
        · simp only [List.mem_singleton] at hc'; subst hc'; exact hfr' m (.inl hm)
      nfs := h.nfs
      ncf := by
        intro c' hc'
        rcases List.mem_append.mp hc' with hc' | hc'
        · exact h.ncf c' hc'
        · simp only [List.mem_singleton] at hc'; subst hc'
          exact ⟨fun e => hfr' fn (.inr (.inl rfl)) e.symm, fun e => hfr' sn (.inr (.inr (.inl rfl))) e.symm⟩
      ncc := by
        rw [List.map_append, List.nodup_append]
        refine ⟨h.ncc, by simp, ?_⟩
        intro a ha b hb
        simp only [List.map_cons, List.map_nil, List.mem_singleton] at hb
        subst hb
        obtain ⟨c', hc', rfl⟩ := List.mem_map.mp ha
        exact hfr' c' (.inr (.inr (.inr hc'))) }

/-- the `try … except Exception: remove the node …; raise` of the composites, when the body only ever leaves a partial
construct behind: a raise gives back the start state -/
theorem composite_fs {s B0 : Topo} {fn : GNode} {α : Type} {body : M Topo Unit} {g : Unit → M Topo α} (hn : NodeNew s fn)
    (hg : ∀ u t, ¬ failed (g u t)) (hbody : FacState s fn (body B0).2) :
    FS s ((composite fn.nid body >>= g) B0) := by
  simp only [composite, flag_compositeRollback, if_true]
  rcases cases_run body B0 with ⟨u, B, hb⟩ | ⟨e, B, hb⟩
  · have : M.tryCatch body (fun _ => true) (fun e => do removeNodeGraph fn.nid; raise e) B0 = (.ok u, B) := by
      simp only [M.tryCatch, hb]
    rw [bind_ok this]
    intro hf; exact absurd hf (hg u B)
  · rw [hb] at hbody
    have hr := rollback_facState hn hbody
    have : M.tryCatch body (fun _ => true) (fun e => do removeNodeGraph fn.nid; raise e) B0 = (.error e, s) := by
      simp only [M.tryCatch, hb, if_true]
      rw [bind_ok hr]; rfl
    rw [bind_err this]
    intro _; rfl

def NodeQ (s : Topo) (c : Nat) (a : NodeArgs) (r : Except Err (Nid × Nat) × Topo) : Prop :=
  (∃ e, r = (.error e, s)) ∨ (∃ fn, NodeNew s fn ∧ fn.nid = (pick a.nid c).1 ∧ r = (.ok (pick a.nid c), pushNode fn s))
theorem NodeQ.err {s c a} (e : Err) : NodeQ s c a (.error e, s) := .inl ⟨e, rfl⟩

/-- `Topology.add_node` either raises in the state it started from or appends one fresh NetworkNode -/
theorem addNode_cases (fl : Flavour) (c : Nat) (a : NodeArgs) (s : Topo) (hc : Closed s) (hd : IdsDistinct s) :
    NodeQ s c a (addNode fl c a s) := by
  unfold addNode nodeNew
  refine ro_step (by ro) NodeQ.err (fun _ _ => ?_)
  refine ro_step (by ro) NodeQ.err (fun _ _ => ?_)
  refine ro_step (by ro) NodeQ.err (fun _ _ => ?_)
  refine ro_step (by ro) NodeQ.err (fun _ _ => ?_)
  unfold NodeQ
  rcases hp : pick a.nid c with ⟨id, c'⟩
  simp only []
  refine ro_step (Q := fun r => (∃ e, r = (.error e, s)) ∨ (∃ fn, NodeNew s fn ∧ fn.nid = id ∧ r = (.ok (id, c'), pushNode fn s)))
    (by ro) (fun e => .inl ⟨e, rfl⟩) (fun _ _ => ?_)
  refine ro_step (Q := fun r => (∃ e, r = (.error e, s)) ∨ (∃ fn, NodeNew s fn ∧ fn.nid = id ∧ r = (.ok (id, c'), pushNode fn s)))
    (by ro) (fun e => .inl ⟨e, rfl⟩) (fun _ _ => ?_)
  refine ro_step (Q := fun r => (∃ e, r = (.error e, s)) ∨ (∃ fn, NodeNew s fn ∧ fn.nid = id ∧ r = (.ok (id, c'), pushNode fn s)))
    (by ro) (fun e => .inl ⟨e, rfl⟩) (fun _ _ => ?_)
  refine ro_step (Q := fun r => (∃ e, r = (.error e, s)) ∨ (∃ fn, NodeNew s fn ∧ fn.nid = id ∧ r = (.ok (id, c'), pushNode fn s)))
    (by ro) (fun e => .inl ⟨e, rfl⟩) (fun _ _ => ?_)
  refine ro_step (Q := fun r => (∃ e, r = (.error e, s)) ∨ (∃ fn, NodeNew s fn ∧ fn.nid = id ∧ r = (.ok (id, c'), pushNode fn s)))
    (by ro) (fun e => .inl ⟨e, rfl⟩) (fun _ _ => ?_)
  refine ro_step (Q := fun r => (∃ e, r = (.error e, s)) ∨ (∃ fn, NodeNew s fn ∧ fn.nid = id ∧ r = (.ok (id, c'), pushNode fn s)))
    (by ro) (fun e => .inl ⟨e, rfl⟩) (fun _ _ => ?_)
  refine addGNode_step (Q := fun r => (∃ e, r = (.error e, s)) ∨ (∃ fn, NodeNew s fn ∧ fn.nid = id ∧ r = (.ok (id, c'), pushNode fn s)))
    (.inl ⟨_, rfl⟩) (fun fn hfn hfr => ?_)
  exact .inr ⟨fn, ⟨hc, hd, by rw [hfn], hfr⟩, by rw [hfn], rfl⟩

def SvcQ (s : Topo) (fn : GNode) (r : Except Err (Nid × Cache) × Topo) : Prop :=
  (∃ e, r = (.error e, pushNode fn s)) ∨ (∃ sn ca, FacOk s fn sn [] ∧ r = (.ok (sn.nid, ca), fac s fn sn []))
theorem SvcQ.err {s fn} (e : Err) : SvcQ s fn (.error e, pushNode fn s) := .inl ⟨e, rfl⟩

/-- `Node.add_network_service` without interfaces on the fresh node -/
theorem nodeAddService_node {s : Topo} {fn : GNode} (hn : NodeNew s fn) (fl : Flavour) (c : Nat) (a : SvcArgs) (ha : a.ifs = []) :
    SvcQ s fn (nodeAddService fl c fn.nid a (pushNode fn s)) := by
  have hdB : IdsDistinct (pushNode fn s) := idsDistinct_push hn.ds hn.ffn
  have hmB : fn ∈ (pushNode fn s).nodes := by simp [pushNode]
  have hcB : Closed (pushNode fn s) := by
    intro e he
    obtain ⟨⟨x, hx, hxe⟩, ⟨y, hy, hye⟩⟩ := hn.closed e he
    exact ⟨⟨x, by simp [pushNode, hx], hxe⟩, ⟨y, by simp [pushNode, hy], hye⟩⟩
  unfold nodeAddService
  refine ro_step (by ro) SvcQ.err (fun _ _ => ?_)
  refine ro_step (by ro) SvcQ.err (fun _ _ => ?_)
  unfold svcNew
  rcases hp : pick a.nid c with ⟨id, c1⟩
  simp only []
  refine ro_step (by ro) SvcQ.err (fun t _ => ?_)
  refine ro_step (by ro) SvcQ.err (fun _ _ => ?_)
  refine ro_step (by ro) SvcQ.err (fun layer _ => ?_)
  refine ro_step (by ro) SvcQ.err (fun kw _ => ?_)
  simp only [Option.isNone]
  refine addGNode_step (SvcQ.err _) (fun sn hsn hfr => ?_)
  have hsnid : sn.nid = id := by rw [hsn]
  have hsncls : sn.cls = .networkService := by rw [hsn]
  have hfn : findNode id (pushNode sn (pushNode fn s)) = (.ok sn, pushNode sn (pushNode fn s)) := by
    rw [← hsnid]; exact findNode_push_new hfr
  rw [bind_ok (addEdge_run (r := .has) (findNode_push_old (findNode_of_mem hdB hmB) hfr) hfn)]
  have hnt : ¬ touches (pushNode sn (pushNode fn s)).edges sn.ref :=
    not_touches_of_closed (t := pushNode fn s) hcB (fun m hm => ref_ne_of_nid_ne (hfr m hm))
  rw [setEdge_fresh hnt, ha]
  have hst : ({ pushNode sn (pushNode fn s) with edges := (pushNode sn (pushNode fn s)).edges ++ [⟨fn.ref, sn.ref, .has⟩] } : Topo)
      = fac s fn sn [] := by
    simp [fac, pushNode, List.append_assoc]
  rw [hst]
  refine .inr ⟨sn, [], ?_, ?_⟩
  · have hfr' : ∀ m, m ∈ s.nodes ∨ m = fn → m.nid ≠ sn.nid := by
      intro m hm
      apply hfr m
      simp only [pushNode, List.mem_append, List.mem_singleton]
      exact hm
    exact {
      closed := hn.closed, ds := hn.ds, fcls := hn.fcls, scls := hsncls
      ccls := by intro c' hc'; cases hc'
      ffn := hn.ffn
      fsn := fun m hm => hfr' m (.inl hm)
      fcp := by intro c' hc'; cases hc'
      nfs := hfr' fn (.inr rfl)
      ncf := by intro c' hc'; cases hc'
      ncc := by simp }
  · unfold svcLoop
    rw [hsnid]; rfl

theorem facGo_state {s : Topo} {fn sn : GNode} (fl : Flavour) (nid : Option Nid) :
    ∀ (l : List (String × List PropArg)) (k cc : Nat) (cps : List GNode), FacOk s fn sn cps →
      FacState s fn (addFacility.go fl nid sn.nid l k cc (fac s fn sn cps)).2 := by
  intro l
  induction l with
  | nil => intro k cc cps h; exact .inr ⟨sn, cps, h, rfl⟩
  | cons x rest ih =>
    intro k cc cps h
    obtain ⟨iname, ip⟩ := x
    unfold addFacility.go
    simp only []
    rcases nsAddInterface_fac h fl cc iname (suffixId nid ("-int" ++ toString (if Gen.Rules.facIndexReset then 0 else k)))
      (some "FacilityPort") ip with ⟨e, he⟩ | ⟨n, r, hok, hr⟩
    · rw [bind_err he]; exact .inr ⟨sn, cps, h, rfl⟩
    · rw [bind_ok hr]; exact ih _ _ _ hok

theorem swGo_state {s : Topo} {fn sn : GNode} (fl : Flavour) (nid : Option Nid) :
    ∀ (l : List (String × String × List PropArg)) (cc : Nat) (cps : List GNode), FacOk s fn sn cps →
      FacState s fn (addSwitch.go fl nid sn.nid l cc (fac s fn sn cps)).2 := by
  intro l
  induction l with
  | nil => intro cc cps h; exact .inr ⟨sn, cps, h, rfl⟩
  | cons x rest ih =>
    intro cc cps h
    obtain ⟨pname, suf, pp⟩ := x
    unfold addSwitch.go
    simp only []
    rcases nsAddInterface_fac h fl cc pname (suffixId nid suf) (some "DedicatedPort") pp with ⟨e, he⟩ | ⟨n, r, hok, hr⟩
    · rw [bind_err he]; exact .inr ⟨sn, cps, h, rfl⟩
    · rw [bind_ok hr]; exact ih _ _ hok

/-- `Topology.add_facility`: whichever step raises - the node, its service, the k-th interface - the model is what it was -/
theorem addFacility_fs (fl : Flavour) (c : Nat) (name : String) (nid : Option Nid) (site : Option String)
    (nstype : Option String) (nsprops : List PropArg) (ifs : Option (List (String × List PropArg))) (kw : List PropArg)
    (s : Topo) (hc : Closed s) (hd : IdsDistinct s) : FS s (addFacility fl c name nid site nstype nsprops ifs kw s) := by
  unfold addFacility
  rcases addNode_cases fl c ⟨name, nid, site, some "Facility", []⟩ s hc hd with ⟨e, he⟩ | ⟨fn, hn, hid, hok⟩
  · rw [bind_err he]; exact FS.err e
  · rw [bind_ok hok]
    rcases hp : pick nid c with ⟨facn, c1⟩
    simp only [hp] at hid
    simp only []
    subst hid
    refine composite_fs hn (fun u t => by simp) ?_
    rcases nodeAddService_node hn fl c1 ⟨name ++ "-ns", suffixId nid "-ns", nstype, none, none, nsprops, []⟩ rfl with ⟨e, he⟩ | ⟨sn, ca, hfo, hr⟩
    · rw [bind_err he]; exact .inl rfl
    · rw [bind_ok hr]
      simp only []
      cases ifs with
      | none =>
        simp only []
        rcases nsAddInterface_fac hfo fl (pick (suffixId nid "-ns") c1).2 (name ++ "-int") (suffixId nid "-int") (some "FacilityPort") kw
          with ⟨e, he⟩ | ⟨n, r, hok2, hr2⟩
        · rw [bind_err he]; exact .inr ⟨sn, [], hfo, rfl⟩
        · rw [bind_ok hr2]; exact .inr ⟨sn, _, hok2, rfl⟩
      | some l => exact facGo_state fl nid l 0 _ [] hfo

/-- `Topology.add_switch` -/
theorem addSwitch_fs (fl : Flavour) (c : Nat) (name : String) (nid : Option Nid) (site : Option String)
    (nstype : Option String) (nsprops : List PropArg) (ports : List (String × String × List PropArg))
    (s : Topo) (hc : Closed s) (hd : IdsDistinct s) : FS s (addSwitch fl c name nid site nstype nsprops ports s) := by
  unfold addSwitch
  rcases addNode_cases fl c ⟨name, nid, site, some "Switch", []⟩ s hc hd with ⟨e, he⟩ | ⟨fn, hn, hid, hok⟩
  · rw [bind_err he]; exact FS.err e
  · rw [bind_ok hok]
    rcases hp : pick nid c with ⟨sw, c1⟩
    simp only [hp] at hid
    simp only []
    subst hid
    refine composite_fs hn (fun u t => by simp) ?_
    rcases nodeAddService_node hn fl c1 ⟨name ++ "-ns", suffixId nid "-ns", nstype, none, none, nsprops, []⟩ rfl with ⟨e, he⟩ | ⟨sn, ca, hfo, hr⟩
    · rw [bind_err he]; exact .inl rfl
    · rw [bind_ok hr]
      simp only []
      exact swGo_state fl nid ports _ [] hfo

end FimVerif.Topo
