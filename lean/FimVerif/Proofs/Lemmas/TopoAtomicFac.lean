import FimVerif.Proofs.Lemmas.TopoAtomicExt
/-! The composites `add_facility` / `add_switch`: the states they pass through (`fac`: a fresh node, its fresh service,
fresh interfaces under it) and what the `except` clause's `remove_network_node_with_components_nss_cps_and_links`
does to such a state: it gives back exactly the state the call started from. -/
namespace FimVerif.Topo
open FimVerif FimVerif.M

/-- `s` plus a node `fn`, a service `sn` it has, and interfaces `cps` of that service -/
def fac (s : Topo) (fn sn : GNode) (cps : List GNode) : Topo :=
  { nodes := s.nodes ++ [fn, sn] ++ cps,
    edges := s.edges ++ [⟨fn.ref, sn.ref, .has⟩] ++ cps.map (fun cp => ⟨sn.ref, cp.ref, .connects⟩) }

structure FacOk (s : Topo) (fn sn : GNode) (cps : List GNode) : Prop where
  closed : Closed s
  ds : IdsDistinct s
  fcls : fn.cls = .networkNode
  scls : sn.cls = .networkService
  ccls : ∀ c ∈ cps, c.cls = .connectionPoint
  ffn : ∀ m ∈ s.nodes, m.nid ≠ fn.nid
  fsn : ∀ m ∈ s.nodes, m.nid ≠ sn.nid
  fcp : ∀ c ∈ cps, ∀ m ∈ s.nodes, m.nid ≠ c.nid
  nfs : fn.nid ≠ sn.nid
  ncf : ∀ c ∈ cps, c.nid ≠ fn.nid ∧ c.nid ≠ sn.nid
  ncc : (cps.map (·.nid)).Nodup

section
variable {s : Topo} {fn sn : GNode} {cps : List GNode}

theorem FacOk.dist (h : FacOk s fn sn cps) : IdsDistinct (fac s fn sn cps) := by
  unfold IdsDistinct fac
  simp only [List.map_append, List.map_cons, List.map_nil]
  rw [List.nodup_append, List.nodup_append]
  refine ⟨⟨h.ds, ?_, ?_⟩, h.ncc, ?_⟩
  · simp [h.nfs]
  · intro a ha b hb
    obtain ⟨m, hm, rfl⟩ := List.mem_map.mp ha
    simp only [List.mem_cons, List.mem_nil_iff, or_false] at hb
    rcases hb with rfl | rfl
    · exact h.ffn m hm
    · exact h.fsn m hm
  · intro a ha b hb
    obtain ⟨c, hc, rfl⟩ := List.mem_map.mp hb
    rcases List.mem_append.mp ha with ha | ha
    · obtain ⟨m, hm, rfl⟩ := List.mem_map.mp ha
      exact h.fcp c hc m hm
    · simp only [List.mem_cons, List.mem_nil_iff, or_false] at ha
      rcases ha with rfl | rfl
      · exact fun e => (h.ncf c hc).1 e.symm
      · exact fun e => (h.ncf c hc).2 e.symm

theorem not_touch_new (hc : Closed s) {x : GNode} (hx : ∀ m ∈ s.nodes, m.nid ≠ x.nid) : ¬ touches s.edges x.ref :=
  not_touches_of_closed hc (fun m hm => ref_ne_of_nid_ne (hx m hm))

theorem filter_untouched (hc : Closed s) {x : GNode} (hx : ∀ m ∈ s.nodes, m.nid ≠ x.nid) :
    s.edges.filter (fun e => e.a != x.ref && e.b != x.ref) = s.edges := by
  rw [List.filter_eq_self]; intro e he
  have hnt := not_touch_new hc hx
  have ha : e.a ≠ x.ref := fun h => hnt ⟨e, he, .inl h⟩
  have hb : e.b ≠ x.ref := fun h => hnt ⟨e, he, .inr h⟩
  simp [ha, hb]

theorem filter_nodes_new {x : GNode} (hx : ∀ m ∈ s.nodes, m.nid ≠ x.nid) :
    s.nodes.filter (fun n => n.ref != x.ref) = s.nodes := by
  rw [List.filter_eq_self]; intro m hm; simpa using ref_ne_of_nid_ne (hx m hm)

/-- the state after the node is gone -/
def fac1 (s : Topo) (sn : GNode) (cps : List GNode) : Topo :=
  { nodes := s.nodes ++ [sn] ++ cps, edges := s.edges ++ cps.map (fun cp => ⟨sn.ref, cp.ref, .connects⟩) }

/-- the state after node and service are gone -/
def fac2 (s : Topo) (cps : List GNode) : Topo := { nodes := s.nodes ++ cps, edges := s.edges }

theorem filter_cps_ne {x : GNode} (hx : ∀ c ∈ cps, c.nid ≠ x.nid) : cps.filter (fun n => n.ref != x.ref) = cps := by
  rw [List.filter_eq_self]; intro c hc; simpa using ref_ne_of_nid_ne (hx c hc)

theorem drop_fn (h : FacOk s fn sn cps) : dropNode fn.ref (fac s fn sn cps) = fac1 s sn cps := by
  unfold dropNode fac fac1
  congr 1
  · simp only [List.filter_append, filter_nodes_new h.ffn, filter_cps_ne (fun c hc => (h.ncf c hc).1)]
    have : ¬ sn.ref = fn.ref := ref_ne_of_nid_ne (fun e => h.nfs e.symm)
    simp [List.filter_cons, this]
  · simp only [List.filter_append, filter_untouched h.closed h.ffn]
    have h1 : ([⟨fn.ref, sn.ref, .has⟩] : List GEdge).filter (fun e => e.a != fn.ref && e.b != fn.ref) = [] := by simp
    have h2 : (cps.map (fun cp => (⟨sn.ref, cp.ref, .connects⟩ : GEdge))).filter (fun e => e.a != fn.ref && e.b != fn.ref) =
        cps.map (fun cp => ⟨sn.ref, cp.ref, .connects⟩) := by
      rw [List.filter_eq_self]; intro e he
      obtain ⟨c, hc, rfl⟩ := List.mem_map.mp he
      have a1 : ¬ sn.ref = fn.ref := ref_ne_of_nid_ne (fun e => h.nfs e.symm)
      have a2 : ¬ c.ref = fn.ref := ref_ne_of_nid_ne (h.ncf c hc).1
      simp [a1, a2]
    rw [h1, h2]; simp

theorem drop_sn (h : FacOk s fn sn cps) : dropNode sn.ref (fac1 s sn cps) = fac2 s cps := by
  unfold dropNode fac1 fac2
  congr 1
  · simp only [List.filter_append, filter_nodes_new h.fsn, filter_cps_ne (fun c hc => (h.ncf c hc).2)]
    simp
  · simp only [List.filter_append, filter_untouched h.closed h.fsn]
    have h2 : (cps.map (fun cp => (⟨sn.ref, cp.ref, .connects⟩ : GEdge))).filter (fun e => e.a != sn.ref && e.b != sn.ref) = [] := by
      rw [List.filter_eq_nil_iff]; intro e he
      obtain ⟨c, hc, rfl⟩ := List.mem_map.mp he
      simp
    rw [h2]; simp

end

theorem filter_singleton {l : List GNode} (hn : (l.map (·.nid)).Nodup) {x : GNode} (hx : x ∈ l) {p : GNode → Bool}
    (hp : ∀ y ∈ l, p y = true ↔ y = x) : l.filter p = [x] := by
  rw [← filter_nid_unique hn hx]
  apply List.filter_congr
  intro y hy
  by_cases e : y.nid = x.nid
  · have := eq_of_nid_eq hn hy hx e
    subst this
    simp [(hp y hy).mpr rfl]
  · have h1 : p y = false := by
      cases h : p y
      · rfl
      · exact absurd (congrArg GNode.nid ((hp y hy).mp h)) e
    rw [h1, beq_eq_false_iff_ne.mpr e]

theorem neighbors_isolated {t : Topo} {r : Ref} (h : ¬ touches t.edges r) (rel : Rel) (L : Cls) : neighbors t r rel L = [] := by
  unfold neighbors adjacent
  rw [List.filter_eq_nil_iff]
  intro n _
  rw [adjacent_false_of_not_touch h]; simp

theorem filterMapM'_nil {β γ : Type} (f : β → M Topo (Option γ)) (t : Topo) : M.filterMapM' f [] t = (.ok [], t) := rfl

/-- removing a ConnectionPoint that nothing is attached to deletes just that node -/
theorem removeCp_isolated {t : Topo} (hd : IdsDistinct t) {c : GNode} (hc : c ∈ t.nodes) (hnt : ¬ touches t.edges c.ref) (dp : Bool) :
    removeCpAndLinks c.nid dp t = (.ok (), dropNode c.ref t) := by
  unfold removeCpAndLinks
  rw [bind_ok (firstNeighbor_run hd hc .connects .connectionPoint), neighbors_isolated hnt]
  rw [List.map_nil, bind_ok (filterMapM'_nil _ t)]
  have e1 : ([c.nid] : List Nid).eraseDups = [c.nid] := by simp [List.eraseDups_cons]
  obtain ⟨links, hlinks, hP⟩ := mapM'_run
    (f := fun i => do
      let ls ← firstNeighbor i .connects .link
      M.filterMapM' (fun l => do
        let cps ← firstNeighbor l .connects .connectionPoint
        Pure.pure (if cps.length == 2 then some l else none)) ls)
    (P := fun l : List Nid => l = []) (s := t) [c.nid] (by
      intro b hb
      simp only [List.mem_singleton] at hb
      subst hb
      exact ⟨[], by rw [bind_ok (firstNeighbor_run hd hc .connects .link), neighbors_isolated hnt]; rfl, rfl⟩)
  rw [e1, bind_ok hlinks]
  have hfl : links.flatten = [] := by rw [List.flatten_eq_nil_iff]; exact hP
  rw [hfl, List.append_nil, e1, forEach_cons_ok (deleteNode_run hd hc)]
  rfl

section
variable {s : Topo} {fn sn : GNode} {cps : List GNode}

theorem mem_fac_edges {e : GEdge} : e ∈ (fac s fn sn cps).edges ↔
    e ∈ s.edges ∨ e = ⟨fn.ref, sn.ref, .has⟩ ∨ ∃ c ∈ cps, e = ⟨sn.ref, c.ref, .connects⟩ := by
  simp only [fac, List.mem_append, List.mem_singleton, List.mem_map, or_assoc]
  constructor
  · rintro (h | h | ⟨c, hc, rfl⟩)
    · exact .inl h
    · exact .inr (.inl h)
    · exact .inr (.inr ⟨c, hc, rfl⟩)
  · rintro (h | h | ⟨c, hc, rfl⟩)
    · exact .inl h
    · exact .inr (.inl h)
    · exact .inr (.inr ⟨c, hc, rfl⟩)

theorem adj_fn (h : FacOk s fn sn cps) {x : Ref} {rel : Rel} :
    adjacent (fac s fn sn cps) fn.ref x rel = true ↔ (rel = .has ∧ x = sn.ref) := by
  have hsf : ¬ sn.ref = fn.ref := ref_ne_of_nid_ne (fun e => h.nfs e.symm)
  rw [adjacent_iff]
  constructor
  · rintro ⟨e, he, hr, hs⟩
    rw [sameEnds_iff] at hs
    rcases mem_fac_edges.mp he with he | rfl | ⟨c, hc, rfl⟩
    · exfalso
      apply not_touch_new h.closed h.ffn
      rcases hs with ⟨h1, _⟩ | ⟨_, h2⟩
      · exact ⟨e, he, .inl h1⟩
      · exact ⟨e, he, .inr h2⟩
    · rcases hs with ⟨_, h2⟩ | ⟨_, h2⟩
      · exact ⟨hr.symm, h2.symm⟩
      · exact absurd h2 hsf
    · have hcf : ¬ c.ref = fn.ref := ref_ne_of_nid_ne (h.ncf c hc).1
      rcases hs with ⟨h1, _⟩ | ⟨_, h2⟩
      · exact absurd h1 hsf
      · exact absurd h2 hcf
  · rintro ⟨rfl, rfl⟩
    exact ⟨⟨fn.ref, sn.ref, .has⟩, mem_fac_edges.mpr (.inr (.inl rfl)), rfl, sameEnds_iff.mpr (.inl ⟨rfl, rfl⟩)⟩

theorem fn_mem : fn ∈ (fac s fn sn cps).nodes := by simp [fac]
theorem sn_mem : sn ∈ (fac s fn sn cps).nodes := by simp [fac]

theorem nb_fn_comp (h : FacOk s fn sn cps) : neighbors (fac s fn sn cps) fn.ref .has .component = [] := by
  unfold neighbors
  rw [List.filter_eq_nil_iff]
  intro n _ hp
  simp only [Bool.and_eq_true, beq_iff_eq] at hp
  have := ((adj_fn h).mp hp.2).2
  have hc := cls_of_ref_eq this
  rw [hp.1, h.scls] at hc
  cases hc

theorem nb_fn_ns (h : FacOk s fn sn cps) : neighbors (fac s fn sn cps) fn.ref .has .networkService = [sn] := by
  unfold neighbors
  refine filter_singleton h.dist sn_mem (fun y hy => ?_)
  simp only [Bool.and_eq_true, beq_iff_eq]
  constructor
  · intro hp
    exact (ref_eq_iff h.dist hy sn_mem).mp ((adj_fn h).mp hp.2).2
  · rintro rfl
    exact ⟨h.scls, (adj_fn h).mpr ⟨rfl, rfl⟩⟩

theorem fac1_dist (h : FacOk s fn sn cps) : IdsDistinct (fac1 s sn cps) := by
  rw [← drop_fn h]; exact idsDistinct_drop h.dist _

theorem fac2_dist (h : FacOk s fn sn cps) : IdsDistinct (fac2 s cps) := by
  rw [← drop_sn h]; exact idsDistinct_drop (fac1_dist h) _

theorem nb_sn_cp (h : FacOk s fn sn cps) : neighbors (fac1 s sn cps) sn.ref .connects .connectionPoint = cps := by
  unfold neighbors
  have hnt := not_touch_new h.closed h.fsn
  have adj : ∀ x : Ref, adjacent (fac1 s sn cps) sn.ref x .connects = true ↔ ∃ c ∈ cps, c.ref = x := by
    intro x
    rw [adjacent_iff]
    constructor
    · rintro ⟨e, he, _, hs⟩
      rw [sameEnds_iff] at hs
      simp only [fac1, List.mem_append, List.mem_map] at he
      rcases he with he | ⟨c, hc, rfl⟩
      · exfalso
        rcases hs with ⟨h1, _⟩ | ⟨_, h2⟩
        · exact hnt ⟨e, he, .inl h1⟩
        · exact hnt ⟨e, he, .inr h2⟩
      · rcases hs with ⟨_, h2⟩ | ⟨_, h2⟩
        · exact ⟨c, hc, h2⟩
        · exact absurd h2 (ref_ne_of_nid_ne (h.ncf c hc).2)
    · rintro ⟨c, hc, rfl⟩
      refine ⟨⟨sn.ref, c.ref, .connects⟩, ?_, rfl, sameEnds_iff.mpr (.inl ⟨rfl, rfl⟩)⟩
      simp only [fac1, List.mem_append, List.mem_map]
      exact .inr ⟨c, hc, rfl⟩
  simp only [fac1, List.filter_append]
  have h1 : s.nodes.filter (fun n => n.cls == .connectionPoint && adjacent (fac1 s sn cps) sn.ref n.ref .connects) = [] := by
    rw [List.filter_eq_nil_iff]
    intro m hm hp
    simp only [Bool.and_eq_true, beq_iff_eq] at hp
    obtain ⟨c, hc, hcr⟩ := (adj _).mp hp.2
    exact h.fcp c hc m hm (nid_of_ref_eq hcr).symm
  have h2 : [sn].filter (fun n => n.cls == .connectionPoint && adjacent (fac1 s sn cps) sn.ref n.ref .connects) = [] := by
    simp [h.scls]
  have h3 : cps.filter (fun n => n.cls == .connectionPoint && adjacent (fac1 s sn cps) sn.ref n.ref .connects) = cps := by
    rw [List.filter_eq_self]
    intro c hc
    simp only [Bool.and_eq_true, beq_iff_eq]
    exact ⟨h.ccls c hc, (adj _).mpr ⟨c, hc, rfl⟩⟩
  simp only [fac1] at h1 h2 h3
  rw [h1, h2, h3]; rfl

/-- the loop of `remove_ns_with_cps_and_links` over interfaces nothing else is attached to -/
theorem loop_cps (hc : Closed s) : ∀ (cps : List GNode), IdsDistinct (fac2 s cps) → (∀ c ∈ cps, ∀ m ∈ s.nodes, m.nid ≠ c.nid) →
    M.forEach (cps.map (·.nid)) (fun i => removeCpAndLinks i true) (fac2 s cps) = (.ok (), s) := by
  intro cps
  induction cps with
  | nil =>
    intro _ _
    have : fac2 s [] = s := by cases s; simp [fac2]
    rw [this]; rfl
  | cons c rest ih =>
    intro hd hf
    have hcm : c ∈ (fac2 s (c :: rest)).nodes := by simp [fac2]
    have hnt : ¬ touches (fac2 s (c :: rest)).edges c.ref := not_touch_new hc (hf c (List.mem_cons_self ..))
    rw [List.map_cons, forEach_cons_ok (f := fun i => removeCpAndLinks i true) (x := c.nid) (removeCp_isolated hd hcm hnt true)]
    have hdrop : dropNode c.ref (fac2 s (c :: rest)) = fac2 s rest := by
      unfold dropNode fac2
      congr 1
      · have hnd : ((s.nodes ++ c :: rest).map (·.nid)).Nodup := hd
        simp only [List.map_append, List.map_cons] at hnd
        rw [List.nodup_append] at hnd
        have hr := hnd.2.1
        rw [List.nodup_cons] at hr
        simp only [List.filter_append, filter_nodes_new (hf c (List.mem_cons_self ..))]
        have : rest.filter (fun n => n.ref != c.ref) = rest := by
          rw [List.filter_eq_self]; intro r hr'
          have : r.nid ≠ c.nid := fun e => hr.1 (by rw [← e]; exact List.mem_map.mpr ⟨r, hr', rfl⟩)
          simpa using ref_ne_of_nid_ne this
        simp [List.filter_cons, this]
      · exact filter_untouched hc (hf c (List.mem_cons_self ..))
    rw [hdrop]
    refine ih ?_ (fun c' hc' => hf c' (List.mem_cons_of_mem _ hc'))
    rw [← hdrop]; exact idsDistinct_drop hd _

/-- what the `except` clause of the composites does to a partial facility / switch: exactly the start state comes back -/
theorem removeNodeGraph_fac (h : FacOk s fn sn cps) : removeNodeGraph fn.nid (fac s fn sn cps) = (.ok (), s) := by
  unfold removeNodeGraph
  rw [bind_ok (findNode_of_mem h.dist fn_mem), bind_ok (guard_run (by simp [h.fcls])),
    bind_ok (firstNeighbor_run h.dist fn_mem .has .component), nb_fn_comp h]
  rw [List.map_nil, bind_ok (show M.forEach [] removeCompGraph (fac s fn sn cps) = (.ok (), fac s fn sn cps) from rfl)]
  rw [bind_ok (firstNeighbor_run h.dist fn_mem .has .networkService), nb_fn_ns h, bind_ok (deleteNode_run h.dist fn_mem), drop_fn h]
  simp only [List.map_cons, List.map_nil]
  have hsn1 : sn ∈ (fac1 s sn cps).nodes := by simp [fac1]
  have hrm : removeNs sn.nid (fac1 s sn cps) = (.ok (), s) := by
    unfold removeNs
    rw [bind_ok (findNode_of_mem (fac1_dist h) hsn1), bind_ok (guard_run (by simp [h.scls])),
      bind_ok (firstNeighbor_run (fac1_dist h) hsn1 .connects .connectionPoint), nb_sn_cp h,
      bind_ok (deleteNode_run (fac1_dist h) hsn1), drop_sn h]
    exact loop_cps h.closed cps (fac2_dist h) h.fcp
  rw [forEach_cons_ok hrm]; rfl

end
end FimVerif.Topo
