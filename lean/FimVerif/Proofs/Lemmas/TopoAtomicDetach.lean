import FimVerif.Proofs.Lemmas.TopoAtomicDrop
/-! `Topology._disconnect_interfaces` (`detachAll`) as a removing pass, and the user-level removals built on it.
With the skip of interfaces that are already gone (commit c460287, flag `Rules.detachSkipsGone`) every step of the loop
returns in any restriction of the start state, provided the start state has: distinct ids, every ServicePort owned by
exactly one service (`SpOwned`), at most one ServicePort peer per interface (`SpPeer1`), no ConnectionPoint hanging off a
ServicePort (`SpLeaf`). -/
namespace FimVerif.Topo
open FimVerif FimVerif.M

theorem flag_detachSkipsGone : Gen.Rules.detachSkipsGone = true := by decide

/-! ### sublists of neighbour lists under restriction -/

theorem sublist_filter_of_all {α : Type} {l1 l2 : List α} {p : α → Bool} (h : l1.Sublist l2) (hp : ∀ x ∈ l1, p x = true) :
    l1.Sublist (l2.filter p) := by
  have : l1 = l1.filter p := (List.filter_eq_self.mpr hp).symm
  rw [this]; exact h.filter p

theorem sublist_flatMap {α β : Type} {l1 l2 : List α} {f g : α → List β} (h : l1.Sublist l2) (hf : ∀ x ∈ l1, (f x).Sublist (g x)) :
    (l1.flatMap f).Sublist (l2.flatMap g) := by
  induction h with
  | slnil => exact List.Sublist.slnil
  | cons a _ ih =>
    rw [List.flatMap_cons]
    exact (ih hf).trans (List.sublist_append_right _ _)
  | cons_cons a _ ih =>
    rw [List.flatMap_cons, List.flatMap_cons]
    exact List.Sublist.append (hf a (List.mem_cons_self ..)) (ih (fun x hx => hf x (List.mem_cons_of_mem _ hx)))

theorem adjacentAny_restrict {s : Topo} {k : Ref → Bool} {a b : Ref} (h : adjacentAny (restrict k s) a b = true) :
    adjacentAny s a b = true := by
  rw [adjacentAny_iff] at h ⊢
  obtain ⟨e, he, h1⟩ := h
  exact ⟨e, (mem_restrict_edges.mp he).1, h1⟩

theorem neighbors_restrict_sublist (s : Topo) (k : Ref → Bool) (r : Ref) (rel : Rel) (L : Cls) :
    (neighbors (restrict k s) r rel L).Sublist (neighbors s r rel L) := by
  unfold neighbors
  refine sublist_filter_of_all ((List.filter_sublist).trans (List.filter_sublist)) ?_
  intro x hx
  have := (List.mem_filter.mp hx).2
  simp only [Bool.and_eq_true, beq_iff_eq] at this ⊢
  exact ⟨this.1, adjacent_restrict this.2⟩

/-- the ConnectionPoints on the far side of the links at `r`, with multiplicity (what `find_peer_connection_points` lists) -/
def peerNodes (s : Topo) (r : Ref) : List GNode :=
  (neighbors s r .connects .link).flatMap (fun f =>
    s.nodes.filter (fun k => k.cls == .connectionPoint && adjacentAny s f.ref k.ref && k.ref != r))

theorem peerNodes_restrict_sublist (s : Topo) (k : Ref → Bool) (r : Ref) : (peerNodes (restrict k s) r).Sublist (peerNodes s r) := by
  unfold peerNodes
  refine sublist_flatMap (neighbors_restrict_sublist s k r _ _) (fun f _ => ?_)
  refine sublist_filter_of_all ((List.filter_sublist).trans (List.filter_sublist)) ?_
  intro x hx
  have := (List.mem_filter.mp hx).2
  simp only [Bool.and_eq_true, beq_iff_eq, bne_iff_ne, ne_eq] at this ⊢
  exact ⟨⟨this.1.1, adjacentAny_restrict this.1.2⟩, this.2⟩

theorem mem_peerNodes {s : Topo} {r : Ref} {m : GNode} (h : m ∈ peerNodes s r) : m ∈ s.nodes ∧ m.cls = .connectionPoint ∧ m.ref ≠ r := by
  unfold peerNodes at h
  obtain ⟨f, _, hm⟩ := List.mem_flatMap.mp h
  have := List.mem_filter.mp hm
  simp only [Bool.and_eq_true, beq_iff_eq, bne_iff_ne, ne_eq] at this
  exact ⟨this.1, this.2.1.1, this.2.2⟩

theorem peersOf_run {t : Topo} (hd : IdsDistinct t) {n : GNode} (hn : n ∈ t.nodes) :
    peersOf n.nid t = (.ok ((peerNodes t n.ref).map (·.nid)), t) := by
  unfold peersOf secondNeighbors
  rw [bind_ok (m := findNode n.nid >>= _) (a := _) (s' := t) (by rw [bind_ok (findNode_of_mem hd hn)]; rfl)]
  simp only [pure_apply', peerNodes, List.map_flatMap, List.map_map]
  rfl

/-! ### the state hypotheses -/

/-- every ServicePort hangs off exactly one NetworkService -/
def SpOwned (s : Topo) : Prop :=
  ∀ p ∈ s.nodes, p.cls = .connectionPoint → p.typ = "ServicePort" → (neighbors s p.ref .connects .networkService).length = 1

/-- an interface has at most one ServicePort peer (counted as `get_peers` counts them) -/
def SpPeer1 (s : Topo) : Prop :=
  ∀ n ∈ s.nodes, n.cls = .connectionPoint → ((peerNodes s n.ref).filter (fun m => m.typ == "ServicePort")).length ≤ 1

instance (s : Topo) : Decidable (SpOwned s) := by unfold SpOwned; infer_instance
instance (s : Topo) : Decidable (SpPeer1 s) := by unfold SpPeer1; infer_instance

/-- deleted so far: Links and ServicePorts only -/
def SpOrLink (s : Topo) (x : Ref) : Prop :=
  x.cls = .link ∨ (x.cls = .connectionPoint ∧ ∃ m ∈ s.nodes, m.ref = x ∧ m.typ = "ServicePort")

theorem spPeer1_restrict {s : Topo} (h : SpPeer1 s) (k : Ref → Bool) : SpPeer1 (restrict k s) := by
  intro n hn hc
  have h1 := h n (mem_restrict_nodes.mp hn).1 hc
  exact Nat.le_trans ((peerNodes_restrict_sublist s k n.ref).filter _).length_le h1

theorem spLeaf_restrict {s : Topo} (h : SpLeaf s) (k : Ref → Bool) : SpLeaf (restrict k s) := by
  intro n hn ht e he
  exact h n (mem_restrict_nodes.mp hn).1 ht e (mem_restrict_edges.mp he).1

theorem neighbors_restrict_eq {s : Topo} {k : Ref → Bool} {r : Ref} {rel : Rel} {L : Cls} (hr : k r = true)
    (hk : ∀ x, x.cls = L → k x = true) : neighbors (restrict k s) r rel L = neighbors s r rel L := by
  unfold neighbors
  show ((s.nodes.filter (fun n => k n.ref)).filter _) = _
  rw [List.filter_filter]
  apply List.filter_congr
  intro n _
  by_cases hc : n.cls = L
  · have hkn : k n.ref = true := hk _ (by simpa [GNode.ref] using hc)
    have : adjacent (restrict k s) r n.ref rel = adjacent s r n.ref rel := by
      cases h1 : adjacent s r n.ref rel
      · cases h2 : adjacent (restrict k s) r n.ref rel
        · rfl
        · rw [adjacent_restrict h2] at h1; cases h1
      · rw [adjacent_iff] at h1 ⊢
        obtain ⟨e, he, h3, h4⟩ := h1
        refine ⟨e, mem_restrict_edges.mpr ⟨he, ?_⟩, h3, h4⟩
        rw [sameEnds_iff] at h4
        rcases h4 with ⟨a, b⟩ | ⟨a, b⟩
        · rw [a, b]; exact ⟨hr, hkn⟩
        · rw [a, b]; exact ⟨hkn, hr⟩
    rw [hkn, this]; simp
  · have : (n.cls == L) = false := beq_eq_false_iff_ne.mpr hc
    rw [this]; simp

theorem spOwned_restrict {s : Topo} (h : SpOwned s) {k : Ref → Bool} (hk : ∀ x, k x = false → x.cls = .link ∨ x.cls = .connectionPoint) :
    SpOwned (restrict k s) := by
  intro p hp hc ht
  obtain ⟨hp1, hp2⟩ := mem_restrict_nodes.mp hp
  rw [neighbors_restrict_eq hp2 (fun x hx => by
    cases h1 : k x
    · rcases hk x h1 with h2 | h2 <;> rw [hx] at h2 <;> cases h2
    · rfl)]
  exact h p hp1 hc ht

/-! ### one interface of the loop -/

/-- the inner body of `detachAll`, by name -/
def detachOne (ii : Nid) : M Topo Unit := do
  let there2 ← read (fun (s : Topo) => s.nodes.any (fun m => m.nid == ii && m.cls == .connectionPoint))
  if Gen.Rules.detachSkipsGone && !there2 then Pure.pure () else do
  let peers ← peersOf ii
  let pn ← mapM' findNode peers
  let sp := pn.filter (fun n => n.typ == "ServicePort")
  match sp with
  | [] => Pure.pure ()
  | [p] => do
      let _ ← parentService p.nid
      let _ ← disconnectInterface [] (.iface ii "")
      Pure.pure ()
  | _ => raise .topology

theorem detachAll_eq (ifs : List Nid) : detachAll ifs = M.forEach ifs (fun i => do
    let there ← read (fun (s : Topo) => s.nodes.any (fun m => m.nid == i && m.cls == .connectionPoint))
    if Gen.Rules.detachSkipsGone && !there then Pure.pure () else do
    let n ← findNode i
    let kids ← if n.typ == "DedicatedPort" then firstNeighbor i .connects .connectionPoint else Pure.pure []
    M.forEach (i :: kids) detachOne) := rfl

theorem read_bind {α β : Type} (f : Topo → α) (g : α → M Topo β) (t : Topo) : (read f >>= g) t = g (f t) t := rfl

theorem any_cp {t : Topo} {i : Nid} (h : t.nodes.any (fun m => m.nid == i && m.cls == .connectionPoint) = true) :
    ∃ m ∈ t.nodes, m.nid = i ∧ m.cls = .connectionPoint := by
  rw [List.any_eq_true] at h
  obtain ⟨m, hm, hp⟩ := h
  simp only [Bool.and_eq_true, beq_iff_eq] at hp
  exact ⟨m, hm, hp.1, hp.2⟩

theorem parentService_run {t : Topo} (hd : IdsDistinct t) {p : GNode} (hp : p ∈ t.nodes)
    (h1 : (neighbors t p.ref .connects .networkService).length = 1) : ∃ q, parentService p.nid t = (.ok q, t) := by
  obtain ⟨q, hq⟩ := List.length_eq_one_iff.mp h1
  have hqm : q ∈ t.nodes := (mem_neighbors (by rw [hq]; simp : q ∈ neighbors t p.ref .connects .networkService)).1
  refine ⟨q, ?_⟩
  unfold parentService getParent
  rw [bind_ok (m := firstNeighbor p.nid .connects .networkService >>= _) (a := some q) (s' := t) (by
    rw [bind_ok (firstNeighbor_run hd hp .connects .networkService), hq]
    simp only [List.map_cons, List.map_nil]
    rw [bind_ok (findNode_of_mem hd hqm)]; rfl)]
  rfl

theorem detachOne_spec {t : Topo} (hd : IdsDistinct t) (hown : SpOwned t) (hp1 : SpPeer1 t) (hsl : SpLeaf t) (ii : Nid) :
    Rm (SpOrLink t) t (detachOne ii t) := by
  unfold detachOne
  rw [read_bind]
  simp only [flag_detachSkipsGone, Bool.true_and]
  cases hth : t.nodes.any (fun m => m.nid == ii && m.cls == .connectionPoint)
  · exact Rm.nil
  · obtain ⟨m, hm, rfl, hcls⟩ := any_cp hth
    simp only [Bool.not_true, Bool.false_eq_true, if_false]
    rw [bind_ok (peersOf_run hd hm), bind_ok (mapM'_findNode hd _ (fun x hx => (mem_peerNodes hx).1))]
    have hlen := hp1 m hm hcls
    cases hsp : (peerNodes t m.ref).filter (fun n => n.typ == "ServicePort") with
    | nil => simp only []; exact Rm.nil
    | cons p rest =>
      rw [hsp] at hlen
      have hr : rest = [] := by
        cases rest with
        | nil => rfl
        | cons _ _ => simp at hlen
      subst hr
      simp only []
      have hpm : p ∈ (peerNodes t m.ref).filter (fun n => n.typ == "ServicePort") := by rw [hsp]; simp
      obtain ⟨hpp, hpt⟩ := List.mem_filter.mp hpm
      obtain ⟨hpn, hpc, _⟩ := mem_peerNodes hpp
      have hpt' : p.typ = "ServicePort" := by simpa using hpt
      obtain ⟨q, hq⟩ := parentService_run hd hpn (hown p hpn hpc hpt')
      rw [bind_ok hq]
      have hdis : disconnectInterface [] (.iface m.nid "") t = ((removeCpAndLinks p.nid true >>= fun _ => Pure.pure ([] : Cache)) t) := by
        unfold disconnectInterface
        simp only []
        rw [bind_ok (peersOf_run hd hm), bind_ok (mapM'_findNode hd _ (fun x hx => (mem_peerNodes hx).1)), hsp]
        simp only [List.map_cons, List.map_nil]
        rw [bind_ok (guard_run (c := ([] : List Nid).isEmpty) (e := .topology) (t := t) rfl)]
        rfl
      obtain ⟨k, hk, hq'⟩ := removeCpAndLinks_spec hd hpn true
      refine ⟨k, ?_, fun x hx => ?_⟩
      · rw [bind_apply', hdis, bind_ok hk]; rfl
      · rcases hq' x hx with h | ⟨h1, h2⟩ | h
        · exact .inr ⟨by rw [h]; simp [GNode.ref, hpc], p, hpn, h.symm, hpt'⟩
        · exact (spLeaf_no_cp hsl hpn hpt' h1 h2).elim
        · exact .inl h

/-! ### the loops -/

theorem Rm.forEach' {β : Type} {f : β → M Topo Unit} {C : Ref → Prop} {s : Topo}
    (hstep : ∀ b (k : Ref → Bool), (∀ x, k x = false → C x) → Rm C (restrict k s) (f b (restrict k s))) :
    ∀ (L : List β) (k0 : Ref → Bool), (∀ x, k0 x = false → C x) → Rm C (restrict k0 s) (M.forEach L f (restrict k0 s)) := by
  intro L
  induction L with
  | nil => intro _ _; exact Rm.nil
  | cons b L ih =>
    intro k0 h0
    obtain ⟨kb, hkb, hqb⟩ := hstep b k0 h0
    rw [forEach_cons_ok hkb, restrict_restrict]
    have h0' : ∀ x, (k0 x && kb x) = false → C x := by
      intro x hx
      cases h1 : k0 x
      · exact h0 x h1
      · simp only [h1, Bool.true_and] at hx; exact hqb x hx
    obtain ⟨k', hk', hq'⟩ := ih (fun x => k0 x && kb x) h0'
    refine ⟨fun x => kb x && k' x, ?_, ?_⟩
    · rw [hk', restrict_restrict, restrict_restrict]
      congr 2; funext x; rw [Bool.and_assoc]
    · intro x hx
      cases h1 : kb x
      · exact hqb x h1
      · simp only [h1, Bool.true_and] at hx; exact hq' x hx

structure DetachHyp (s : Topo) : Prop where
  ds : IdsDistinct s
  own : SpOwned s
  p1 : SpPeer1 s
  leaf : SpLeaf s

instance (s : Topo) : Decidable (DetachHyp s) :=
  if h : IdsDistinct s ∧ SpOwned s ∧ SpPeer1 s ∧ SpLeaf s then isTrue ⟨h.1, h.2.1, h.2.2.1, h.2.2.2⟩
  else isFalse (fun x => h ⟨x.ds, x.own, x.p1, x.leaf⟩)

theorem SpOrLink.cls {s : Topo} {x : Ref} (h : SpOrLink s x) : x.cls = .link ∨ x.cls = .connectionPoint := by
  rcases h with h | ⟨h, _⟩
  · exact .inl h
  · exact .inr h

theorem DetachHyp.restrict {s : Topo} (h : DetachHyp s) {k : Ref → Bool} (hk : ∀ x, k x = false → SpOrLink s x) :
    DetachHyp (restrict k s) :=
  ⟨idsDistinct_restrict h.ds k, spOwned_restrict h.own (fun x hx => (hk x hx).cls), spPeer1_restrict h.p1 k, spLeaf_restrict h.leaf k⟩

theorem detachOne_step {s : Topo} (h : DetachHyp s) (b : Nid) (k : Ref → Bool) (hk : ∀ x, k x = false → SpOrLink s x) :
    Rm (SpOrLink s) (restrict k s) (detachOne b (restrict k s)) := by
  have h' := h.restrict hk
  refine (detachOne_spec h'.ds h'.own h'.p1 h'.leaf b).mono ?_
  intro x hx
  rcases hx with hx | ⟨h1, m, hm, h2, h3⟩
  · exact .inl hx
  · exact .inr ⟨h1, m, (mem_restrict_nodes.mp hm).1, h2, h3⟩

/-- `Topology._disconnect_interfaces` always returns, and only Links and ServicePorts go -/
theorem detachAll_spec {s : Topo} (h : DetachHyp s) (ifs : List Nid) : Rm (SpOrLink s) s (detachAll ifs s) := by
  rw [detachAll_eq]
  have := Rm.forEach' (C := SpOrLink s) (s := s)
    (f := fun i => do
      let there ← read (fun (s : Topo) => s.nodes.any (fun m => m.nid == i && m.cls == .connectionPoint))
      if Gen.Rules.detachSkipsGone && !there then Pure.pure () else do
      let n ← findNode i
      let kids ← if n.typ == "DedicatedPort" then firstNeighbor i .connects .connectionPoint else Pure.pure []
      M.forEach (i :: kids) detachOne)
    (by
      intro i k hk
      have h' := h.restrict hk
      rw [read_bind]
      simp only [flag_detachSkipsGone, Bool.true_and]
      cases hth : (restrict k s).nodes.any (fun m => m.nid == i && m.cls == .connectionPoint)
      · exact Rm.nil
      · obtain ⟨m, hm, rfl, hcls⟩ := any_cp hth
        simp only [Bool.not_true, Bool.false_eq_true, if_false]
        rw [bind_ok (findNode_of_mem h'.ds hm)]
        split
        · rw [bind_ok (firstNeighbor_run h'.ds hm .connects .connectionPoint)]
          exact Rm.forEach' (detachOne_step h) _ k hk
        · rw [bind_ok (show (Pure.pure [] : M Topo (List Nid)) (restrict k s) = (.ok [], restrict k s) from rfl)]
          exact Rm.forEach' (detachOne_step h) _ k hk)
    ifs (fun _ => true) (by intro x hx; cases hx)
  rw [restrict_true] at this
  exact this

/-! ### the removals of `Topology` / `Node` -/

theorem findByName_restrict {s : Topo} {k : Ref → Bool} {cls : Cls} {name : String} {n : GNode}
    (h : findByName cls name s = (.ok n, s)) (hk : ∀ x : Ref, x.cls = cls → k x = true) :
    findByName cls name (restrict k s) = (.ok n, restrict k s) := by
  have e : (restrict k s).nodes.filter (fun n => n.cls == cls && n.name == name) = s.nodes.filter (fun n => n.cls == cls && n.name == name) := by
    show ((s.nodes.filter (fun n => k n.ref)).filter _) = _
    rw [List.filter_filter]
    apply List.filter_congr
    intro x _
    by_cases hc : x.cls = cls
    · rw [hk x.ref (by simpa [GNode.ref] using hc)]; simp
    · have : (x.cls == cls) = false := beq_eq_false_iff_ne.mpr hc
      rw [this]; simp
  unfold findByName at h ⊢
  rw [e]
  split at h
  · rename_i m hm
    simp only [Prod.mk.injEq, Except.ok.injEq, and_true] at h
    rw [h]
  · simp at h

theorem kept_of_cls {s : Topo} {k : Ref → Bool} (hk : ∀ x, k x = false → SpOrLink s x) {x : Ref}
    (h1 : x.cls ≠ .link) (h2 : x.cls ≠ .connectionPoint) : k x = true := by
  cases h : k x
  · rcases (hk x h).cls with h3 | h3
    · exact absurd h3 h1
    · exact absurd h3 h2
  · rfl

theorem detach_then {s : Topo} {α : Type} (h : DetachHyp s) (ifs : List Nid) {tail : M Topo α}
    (ht : ∀ k : Ref → Bool, (∀ x, k x = false → SpOrLink s x) → ¬ failed (tail (restrict k s))) :
    FS s ((detachAll ifs >>= fun _ => tail) s) := by
  obtain ⟨k, hk, hq⟩ := detachAll_spec h ifs
  rw [bind_ok hk]
  intro hf
  exact absurd hf (ht k hq)

theorem Rm.not_failed {Q : Ref → Prop} {u : Topo} {r : Except Err Unit × Topo} (h : Rm Q u r) : ¬ failed r := by
  obtain ⟨k, hk, _⟩ := h
  rw [hk]; simp

theorem removeNode_fs (name : String) (s : Topo) (h : DetachHyp s) (hcp : CpEdgeOk s) : FS s (removeNode name s) := by
  unfold removeNode
  refine ro_step (by ro) FS.err (fun _ _ => ?_)
  refine ro_step (by ro) FS.err (fun _ _ => ?_)
  refine ro_step (by ro) FS.err (fun n hn => ?_)
  refine ro_step (by ro) FS.err (fun ifs _ => ?_)
  obtain ⟨hn1, hn2, _, _⟩ := findByName_ok hn
  refine detach_then h ifs (fun k hk => ?_)
  have hkn : ∀ x : Ref, x.cls = .networkNode → k x = true :=
    fun x hx => kept_of_cls hk (by rw [hx]; intro e; cases e) (by rw [hx]; intro e; cases e)
  rw [bind_ok (findByName_restrict hn hkn)]
  exact (removeNodeGraph_spec (idsDistinct_restrict h.ds k) (cpEdgeOk_restrict hcp k)
    (mem_restrict_nodes.mpr ⟨hn1, hkn _ (by simp [GNode.ref, hn2])⟩) hn2).not_failed

theorem removeFacility_fs (name : String) (s : Topo) (h : DetachHyp s) (hcp : CpEdgeOk s) : FS s (removeFacility name s) := by
  unfold removeFacility
  refine ro_step (by ro) FS.err (fun n hn => ?_)
  refine ro_step (by ro) FS.err (fun _ _ => ?_)
  refine ro_step (by ro) FS.err (fun ifs _ => ?_)
  obtain ⟨hn1, hn2, _, _⟩ := findByName_ok hn
  refine detach_then h ifs (fun k hk => ?_)
  have hkn : ∀ x : Ref, x.cls = .networkNode → k x = true :=
    fun x hx => kept_of_cls hk (by rw [hx]; intro e; cases e) (by rw [hx]; intro e; cases e)
  rw [bind_ok (findByName_restrict hn hkn)]
  exact (removeNodeGraph_spec (idsDistinct_restrict h.ds k) (cpEdgeOk_restrict hcp k)
    (mem_restrict_nodes.mpr ⟨hn1, hkn _ (by simp [GNode.ref, hn2])⟩) hn2).not_failed

theorem removeSwitch_fs (name : String) (s : Topo) (h : DetachHyp s) (hcp : CpEdgeOk s) : FS s (removeSwitch name s) := by
  unfold removeSwitch
  refine ro_step (by ro) FS.err (fun _ _ => ?_)
  refine ro_step (by ro) FS.err (fun _ _ => ?_)
  exact removeNode_fs name s h hcp

theorem removeService_fs (name : String) (s : Topo) (h : DetachHyp s) (hcp : CpEdgeOk s) : FS s (removeService name s) := by
  unfold removeService
  refine ro_step (by ro) FS.err (fun n hn => ?_)
  refine ro_step (by ro) FS.err (fun cps _ => ?_)
  obtain ⟨hn1, hn2, _, _⟩ := findByName_ok hn
  refine detach_then h _ (fun k hk => ?_)
  have hkn : k n.ref = true := kept_of_cls hk (by simp [GNode.ref, hn2]) (by simp [GNode.ref, hn2])
  exact (removeNs_spec (idsDistinct_restrict h.ds k) (cpEdgeOk_restrict hcp k) (mem_restrict_nodes.mpr ⟨hn1, hkn⟩) hn2).not_failed

theorem need_ok {α : Type} {o : Option α} {e : Err} {t t' : Topo} {a : α} (h : need o e t = (.ok a, t')) : o = some a := by
  cases o <;> simp [need] at h ⊢
  exact h.1

theorem nodeRemoveService_fs (parent : Nid) (name : String) (s : Topo) (h : DetachHyp s) (hcp : CpEdgeOk s) :
    FS s (nodeRemoveService parent name s) := by
  unfold nodeRemoveService
  refine ro_step (by ro) FS.err (fun nss hnss => ?_)
  refine ro_step (by ro) FS.err (fun ns hns => ?_)
  refine ro_step (by ro) FS.err (fun cps _ => ?_)
  obtain ⟨pn, _, _, hl, _⟩ := childrenOf_ok h.ds hnss
  have hmem : ns ∈ nss := List.mem_of_find?_eq_some (need_ok hns)
  rw [hl] at hmem
  obtain ⟨hn1, hn2, _⟩ := mem_neighbors hmem
  refine detach_then h _ (fun k hk => ?_)
  have hkn : k ns.ref = true := kept_of_cls hk (by simp [GNode.ref, hn2]) (by simp [GNode.ref, hn2])
  exact (removeNs_spec (idsDistinct_restrict h.ds k) (cpEdgeOk_restrict hcp k) (mem_restrict_nodes.mpr ⟨hn1, hkn⟩) hn2).not_failed

theorem removeComponent_fs (parent : Nid) (name : String) (s : Topo) (h : DetachHyp s) (hcp : CpEdgeOk s) :
    FS s (removeComponent parent name s) := by
  unfold removeComponent
  refine ro_step (by ro) FS.err (fun comps hcomps => ?_)
  refine ro_step (by ro) FS.err (fun cmp hcmp => ?_)
  refine ro_step (by ro) FS.err (fun l _ => ?_)
  obtain ⟨pn, _, _, hl, _⟩ := childrenOf_ok h.ds hcomps
  have hmem : cmp ∈ comps := List.mem_of_find?_eq_some (need_ok hcmp)
  rw [hl] at hmem
  obtain ⟨hn1, hn2, _⟩ := mem_neighbors hmem
  refine detach_then h _ (fun k hk => ?_)
  have hkn : k cmp.ref = true := kept_of_cls hk (by simp [GNode.ref, hn2]) (by simp [GNode.ref, hn2])
  exact (removeCompGraph_spec (idsDistinct_restrict h.ds k) (cpEdgeOk_restrict hcp k) (mem_restrict_nodes.mpr ⟨hn1, hkn⟩) hn2).not_failed

/-- `Interface.remove_child_interface`, when the child is not itself a ServicePort -/
theorem removeChildInterface_fs (port : Nid) (cache : Cache) (name : String) (s : Topo) (h : DetachHyp s)
    (hnsp : ∀ m ∈ s.nodes, m.name = name → m.cls = .connectionPoint → m.typ ≠ "ServicePort") :
    FS s (removeChildInterface port cache name s) := by
  unfold removeChildInterface
  refine ro_step (by ro) FS.err (fun _ _ => ?_)
  refine ro_step (by ro) FS.err (fun _ _ => ?_)
  refine ro_step (by ro) FS.err (fun kids hkids => ?_)
  refine ro_step (by ro) FS.err (fun kid hkid => ?_)
  obtain ⟨pn, _, _, hl, _⟩ := childrenOf_ok h.ds hkids
  have hf := need_ok hkid
  have hmem : kid ∈ kids := List.mem_of_find?_eq_some hf
  have hnm : kid.name = name := by simpa using List.find?_some hf
  rw [hl] at hmem
  obtain ⟨hn1, hn2, _⟩ := mem_neighbors hmem
  refine detach_then h _ (fun k hk => ?_)
  have hkn : k kid.ref = true := by
    cases hkk : k kid.ref
    · rcases hk _ hkk with h1 | ⟨_, m, hm, h2, h3⟩
      · simp [GNode.ref, hn2] at h1
      · have : m = kid := (ref_eq_iff h.ds hm hn1).mp h2
        subst this
        exact absurd h3 (hnsp m hm hnm hn2)
    · rfl
  obtain ⟨k', hk', _⟩ := removeCpAndLinks_spec (idsDistinct_restrict h.ds k) (mem_restrict_nodes.mpr ⟨hn1, hkn⟩) false
  rw [bind_ok hk']
  simp

/-! ### `unpeer` -/

theorem readOnly_findPeering (ids : List Nid) : ∀ cache : Cache, ReadOnly (findPeering ids cache) := by
  intro cache
  induction cache with
  | nil => unfold findPeering; exact readOnly_pure _
  | cons x rest ih =>
    obtain ⟨nm, own⟩ := x
    unfold findPeering
    refine ReadOnly.bind (readOnly_typeOf _) (fun t => ?_)
    split
    · exact ih
    · refine ReadOnly.bind (readOnly_peersOf _) (fun _ => ?_)
      refine ReadOnly.bind (readOnly_mapM' (fun _ => readOnly_findNode _)) (fun _ => ?_)
      split
      · exact readOnly_pure _
      · exact ih

theorem findPeering_ok {s : Topo} (hd : IdsDistinct s) (ids : List Nid) : ∀ (cache : Cache) (s' : Topo) (a b : Nid),
    findPeering ids cache s = (.ok (some (a, b)), s') →
    ∃ na ∈ s.nodes, na.nid = a ∧ na.typ = "ServicePort" ∧ ∃ pb ∈ s.nodes, pb.nid = b ∧ pb.cls = .connectionPoint ∧ pb.ref ≠ na.ref := by
  intro cache
  induction cache with
  | nil => intro s' a b h; simp [findPeering] at h
  | cons x rest ih =>
    intro s' a b h
    obtain ⟨nm, own⟩ := x
    unfold findPeering at h
    bindinv h with t t1 h1
    unfold typeOf at h1
    bindinv h1 with na t0 h0
    obtain ⟨hna, hnai, rfl⟩ := findNode_ok h0
    simp only [pure_apply', Prod.mk.injEq, Except.ok.injEq] at h1
    obtain ⟨rfl, rfl⟩ := h1
    split at h
    · exact ih _ _ _ h
    · rename_i hsp
      have hty : na.typ = "ServicePort" := by simpa using hsp
      subst hnai
      rw [bind_ok (peersOf_run hd hna), bind_ok (mapM'_findNode hd _ (fun x hx => (mem_peerNodes hx).1))] at h
      cases hf : (peerNodes t0 na.ref).filter (fun n => n.typ == "ServicePort" && ids.contains n.nid) with
      | nil =>
        rw [hf] at h
        exact ih _ _ _ h
      | cons p tl =>
        rw [hf] at h
        simp only [pure_apply', Prod.mk.injEq, Except.ok.injEq, Option.some.injEq] at h
        obtain ⟨⟨rfl, rfl⟩, _⟩ := h
        have hp : p ∈ (peerNodes t0 na.ref).filter (fun n => n.typ == "ServicePort" && ids.contains n.nid) := by rw [hf]; simp
        obtain ⟨h1, h2, h3⟩ := mem_peerNodes (List.mem_filter.mp hp).1
        exact ⟨na, hna, rfl, hty, p, h1, rfl, h2, h3⟩

/-- `NetworkService.unpeer`: the search only reads; both ServicePorts are then in the model and neither removal deletes the other -/
theorem unpeer_fs (cache : Cache) (other : Option SvcHandle) (s : Topo) (hd : IdsDistinct s) (hsl : SpLeaf s) :
    FS s (unpeer cache other s) := by
  unfold unpeer
  cases other with
  | none => exact FS.err _
  | some o =>
    simp only []
    refine ro_step (readOnly_findPeering _ _) FS.err (fun sp hsp => ?_)
    refine ro_step (by ro) FS.err (fun ab hab => ?_)
    obtain ⟨a, b⟩ := ab
    have := need_ok hab
    subst this
    obtain ⟨na, hna, rfl, hty, pb, hpb, rfl, hpc, hne⟩ := findPeering_ok hd _ _ _ _ _ hsp
    simp only []
    obtain ⟨k1, hk1, hq1⟩ := removeCpAndLinks_spec hd hna true
    rw [bind_ok hk1]
    have hkept : k1 pb.ref = true := by
      cases hk : k1 pb.ref
      · rcases hq1 _ hk with h | ⟨h1, h2⟩ | h
        · exact absurd h hne
        · exact (spLeaf_no_cp hsl hna hty h1 h2).elim
        · simp [GNode.ref, hpc] at h
      · rfl
    obtain ⟨k2, hk2, _⟩ := removeCpAndLinks_spec (idsDistinct_restrict hd k1) (mem_restrict_nodes.mpr ⟨hpb, hkept⟩) true
    rw [bind_ok hk2]
    intro hf; simp at hf

end FimVerif.Topo
