import FimVerif.Proofs.Lemmas.C12Annotate
/-! Lemmas for `SubstrateTopology.single_delegation` (C12): what the element loop collects. -/
set_option linter.unusedSimpArgs false
namespace FimVerif.C12
open FimVerif.Deleg

variable {D : Type}

/-- the `Delegations` an element's own capacities / labels become -/
def singleOf (ty : DType) (did : String) (x : D) : Delegations D :=
  { ty := ty, items := [{ ty := ty, id := did, fmt := .single, pool := none, details := some x }] }

/-- what the loop collects for an element: nothing for a stitch node or an element without capacities / labels -/
def collected (ty : DType) (did : String) (e : Elem D) : Option (String × Delegations D) :=
  if e.stitch then none else (e.own ty).map (fun x => (e.node, singleOf ty did x))

theorem copyToDelegations_spec (ops : DetailOps D) (ty : DType) (did : String) (e : Elem D)
    (hk : ∀ x, e.own ty = some x → ops.kindOf x = ty) :
    copyToDelegations ops ty did e = .ok ((collected ty did e).map (·.2)) := by
  unfold copyToDelegations collected
  by_cases hs : e.stitch = true
  · simp [hs]
  · cases hx : e.own ty with
    | none => simp [hs, hx]
    | some x =>
      have := hk x hx
      simp [hs, hx, mkDelegation, setDetails, this, addDelegation, hasId, singleOf, bind, Except.bind, pure, Except.pure]

theorem singlesStep_spec (ops : DetailOps D) (ty : DType) (did : String) (acc : NodeDelegs D) (e : Elem D)
    (hk : ∀ x, e.own ty = some x → ops.kindOf x = ty) :
    singlesStep ops ty did acc e = .ok (match collected ty did e with
      | none => acc
      | some p => setNode e.node p.2 acc) := by
  unfold singlesStep
  rw [copyToDelegations_spec ops ty did e hk]
  cases collected ty did e <;> rfl

theorem setNode_fresh (n : String) (ds : Delegations D) (acc : NodeDelegs D) (h : ∀ b ∈ acc, b.1 ≠ n) :
    setNode n ds acc = acc ++ [(n, ds)] := by
  induction acc with
  | nil => rfl
  | cons a acc ih =>
    have := h a (by simp)
    simp [setNode, this, ih (fun b hb => h b (by simp [hb]))]

theorem collected_node (ty : DType) (did : String) (e : Elem D) (p : String × Delegations D)
    (h : collected ty did e = some p) : p.1 = e.node := by
  unfold collected at h
  split at h
  · cases h
  · cases hx : e.own ty with
    | none => simp [hx] at h
    | some x => simp [hx] at h; rw [← h]

theorem singlesOf_fold (ops : DetailOps D) (ty : DType) (did : String) (elems : List (Elem D)) (acc : NodeDelegs D)
    (hnd : (elems.map (·.node)).Nodup) (hacc : ∀ b ∈ acc, ∀ e ∈ elems, b.1 ≠ e.node)
    (hk : ∀ e ∈ elems, ∀ x, e.own ty = some x → ops.kindOf x = ty) :
    elems.foldlM (singlesStep ops ty did) acc = .ok (acc ++ elems.filterMap (collected ty did)) := by
  induction elems generalizing acc with
  | nil => simp [pure, Except.pure]
  | cons e rest ih =>
    have hn : e.node ∉ rest.map (·.node) ∧ (rest.map (·.node)).Nodup := by
      rw [List.map_cons] at hnd; exact List.nodup_cons.mp hnd
    rw [List.foldlM_cons, singlesStep_spec ops ty did acc e (hk e (by simp))]
    cases hc : collected ty did e with
    | none =>
      simp only [bind, Except.bind, pure, Except.pure]
      rw [ih acc hn.2 (fun b hb x hx => hacc b hb x (by simp [hx])) (fun x hx => hk x (by simp [hx]))]
      simp [List.filterMap_cons, hc]
    | some p =>
      have hp1 := collected_node ty did e p hc
      simp only [bind, Except.bind, pure, Except.pure]
      rw [setNode_fresh e.node p.2 acc (fun b hb => hacc b hb e (by simp))]
      rw [ih (acc ++ [(e.node, p.2)]) hn.2 ?_ (fun x hx => hk x (by simp [hx]))]
      · have : (e.node, p.2) = p := by rw [← hp1]
        simp [List.filterMap_cons, hc, this]
      · intro b hb x hx
        rcases List.mem_append.mp hb with hb | hb
        · exact hacc b hb x (by simp [hx])
        · simp only [List.mem_singleton] at hb
          subst hb
          intro heq
          have heq' : e.node = x.node := heq
          exact hn.1 (by rw [heq']; exact List.mem_map_of_mem hx)

/-- **what the element loop of `single_delegation` hands to `annotate_delegations_and_pools`**: for elements with
distinct node ids, one entry per element that is not a stitch node and has capacities / labels of its own - a
`Delegations` holding exactly one single-resource delegation under the delegation id, carrying those details -/
theorem singlesOf_spec (ops : DetailOps D) (ty : DType) (did : String) (elems : List (Elem D))
    (hnd : (elems.map (·.node)).Nodup) (hk : ∀ e ∈ elems, ∀ x, e.own ty = some x → ops.kindOf x = ty) :
    singlesOf ops ty did elems = .ok (elems.filterMap (collected ty did)) := by
  unfold singlesOf
  rw [singlesOf_fold ops ty did elems [] hnd (by simp) hk]
  simp

theorem mem_collected (ty : DType) (did : String) (elems : List (Elem D)) (p : String × Delegations D)
    (h : p ∈ elems.filterMap (collected ty did)) :
    ∃ e ∈ elems, e.stitch = false ∧ ∃ x, e.own ty = some x ∧ p = (e.node, singleOf ty did x) := by
  obtain ⟨e, he, hc⟩ := List.mem_filterMap.mp h
  refine ⟨e, he, ?_⟩
  unfold collected at hc
  by_cases hs : e.stitch = true
  · simp [hs] at hc
  · cases hx : e.own ty with
    | none => simp [hs, hx] at hc
    | some x =>
      simp [hs, hx] at hc
      exact ⟨by simpa using hs, x, rfl, hc.symm⟩

theorem collected_nodes_pairwise (ty : DType) (did : String) (elems : List (Elem D)) (hnd : (elems.map (·.node)).Nodup) :
    (elems.filterMap (collected ty did)).Pairwise (fun a b => a.1 ≠ b.1) := by
  induction elems with
  | nil => simp
  | cons e rest ih =>
    have hn : e.node ∉ rest.map (·.node) ∧ (rest.map (·.node)).Nodup := by
      rw [List.map_cons] at hnd; exact List.nodup_cons.mp hnd
    rw [List.filterMap_cons]
    cases hc : collected ty did e with
    | none => exact ih hn.2
    | some p =>
      refine List.pairwise_cons.mpr ⟨?_, ih hn.2⟩
      intro b hb
      obtain ⟨x, hx, _, _, _, hbx⟩ := mem_collected ty did rest b hb
      rw [collected_node ty did e p hc, hbx]
      intro heq
      exact hn.1 (by rw [heq]; exact List.mem_map_of_mem hx)

end FimVerif.C12
