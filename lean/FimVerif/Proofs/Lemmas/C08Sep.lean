import FimVerif.Proofs.Lemmas.C08Basic
/-! Neighbour queries in a shrunk graph, the closed form of `remove_cp_and_links`, the separation predicates and the
induction over the removal loops (interfaces of a service, services of a component, components and services of a node). -/
namespace FimVerif.Remove

theorem cls_minus (g : G) (D : List Nat) (y : Nat) :
    (g.minus D).cls? y = if D.contains y then none else g.cls? y := by
  simp only [G.cls?, find_minus]; split <;> simp

theorem kind_minus (g : G) (D : List Nat) (y : Nat) :
    (g.minus D).kind? y = if D.contains y then none else g.kind? y := by
  simp only [G.kind?, find_minus]; split <;> simp

theorem filterMap_filter_comm {α β : Type} (f : α → Option β) (q : α → Bool) (p : β → Bool)
    (h : ∀ a b, f a = some b → q a = p b) :
    ∀ l : List α, (l.filter q).filterMap f = (l.filterMap f).filter p
  | [] => rfl
  | a :: l => by
    have ih := filterMap_filter_comm f q p h l
    cases hf : f a with
    | none =>
      by_cases hq : q a = true
      · simp [List.filter_cons, hq, List.filterMap_cons, hf, ih]
      · simp [List.filter_cons, hq, List.filterMap_cons, hf, ih]
    | some b =>
      have := h a b hf
      by_cases hq : q a = true
      · have hp : p b = true := by rw [← this]; exact hq
        simp [List.filter_cons, hq, List.filterMap_cons, hf, ih, hp]
      · have hp : ¬ p b = true := by rw [← this]; exact hq
        simp [List.filter_cons, hq, List.filterMap_cons, hf, ih, hp]

theorem other_eq_some {e : Edge} {x : Nat} {r : Rel} {y : Nat} (h : e.other x r = some y) :
    (e.a = x ∧ e.b = y) ∨ (e.b = x ∧ e.a = y) := by
  unfold Edge.other at h
  split at h
  · split at h
    · simp at h; left; exact ⟨‹_›, h⟩
    · split at h
      · simp at h; right; exact ⟨‹_›, h⟩
      · cases h
  · cases h

/-- neighbours in a shrunk graph: the old neighbours that survive -/
theorem nbrs_minus (g : G) (D : List Nat) (x : Nat) (r : Rel) (c : Cls) (hx : D.contains x = false) :
    (g.minus D).nbrs x r c = (g.nbrs x r c).filter (fun y => !D.contains y) := by
  unfold G.nbrs
  have h1 : ((g.minus D).edges).filterMap (fun e => e.other x r)
      = (g.edges.filterMap (fun e => e.other x r)).filter (fun y => !D.contains y) := by
    simp only [G.minus]
    apply filterMap_filter_comm
    intro e y he
    have hx' : x ∉ D := by simpa [List.contains_eq_mem] using hx
    rcases other_eq_some he with ⟨ha, hb⟩ | ⟨hb, ha⟩
    · simp [ha, hb, hx']
    · simp [ha, hb, hx']
  rw [h1, List.filter_filter, List.filter_filter]
  apply List.filter_congr
  intro y _
  rw [cls_minus]
  by_cases hy : y ∈ D
  · simp [hy]
  · simp [hy, Bool.and_comm]

theorem mem_nbrs_has (g : G) (x y : Nat) (r : Rel) (c : Cls) (h : y ∈ g.nbrs x r c) : g.has y = true := by
  unfold G.nbrs at h
  simp only [List.mem_filter] at h
  have := h.2
  simp only [G.cls?, G.has] at *
  cases hf : g.find y <;> simp_all

theorem mem_nbrs_cls (g : G) (x y : Nat) (r : Rel) (c : Cls) (h : y ∈ g.nbrs x r c) : g.cls? y = some c := by
  unfold G.nbrs at h
  simp only [List.mem_filter] at h
  simpa using h.2

theorem minus_congr (g : G) (A B : List Nat) (h : ∀ y, y ∈ A ↔ y ∈ B) : g.minus A = g.minus B := by
  have : ∀ y, A.contains y = B.contains y := by
    intro y
    by_cases hy : y ∈ A
    · simp [List.contains_eq_mem, hy, (h y).mp hy]
    · have : y ∉ B := fun hb => hy ((h y).mpr hb)
      simp [List.contains_eq_mem, hy, this]
  simp only [G.minus, this]

theorem mem_dedup : ∀ (l : List Nat) (y : Nat), y ∈ dedup l ↔ y ∈ l
  | [], y => by simp [dedup]
  | x :: xs, y => by
    unfold dedup
    split
    · rename_i h
      rw [mem_dedup xs y]
      simp only [List.mem_cons]
      constructor
      · exact Or.inr
      · rintro (rfl | h')
        · simpa [List.contains_eq_mem] using h
        · exact h'
    · simp only [List.mem_cons, mem_dedup xs y]

theorem nodup_dedup : ∀ (l : List Nat), (dedup l).Nodup
  | [] => by simp [dedup]
  | x :: xs => by
    unfold dedup
    split
    · exact nodup_dedup xs
    · rename_i h
      rw [List.nodup_cons]
      refine ⟨?_, nodup_dedup xs⟩
      rw [mem_dedup]
      simpa [List.contains_eq_mem] using h

/-- every element of `cpDel` is an element of the graph -/
theorem cpDel_has (g : G) (x : Nat) (dp : Bool) (hx : g.has x = true) : ∀ y ∈ cpDel g x dp, g.has y = true := by
  intro y hy
  simp only [cpDel, mem_dedup, List.mem_append, cpFamily, cpLinks, List.mem_cons, List.mem_filter, List.mem_flatMap] at hy
  rcases hy with (rfl | ⟨hy, _⟩) | ⟨i, _, hy, _⟩
  · exact hx
  · exact mem_nbrs_has _ _ _ _ _ hy
  · exact mem_nbrs_has _ _ _ _ _ hy

/-- **`remove_cp_and_links` in closed form**, for every graph: the result is the graph minus `cpDel`. -/
theorem removeCp_minus (g : G) (x : Nat) (dp : Bool) (hx : g.has x = true) :
    removeCp g x dp = .ok (g.minus (cpDel g x dp)) := by
  simp only [removeCp, hx, ite_true]
  exact deleteAll_minus g _ (cpDel_has g x dp hx) (nodup_dedup _)

/-- what `A` (already deleted) must not touch for `remove_cp_and_links(i)` to see what it saw in the full graph -/
def Sep (g : G) (A : List Nat) (i : Nat) (dp : Bool) : Bool :=
  !A.contains i &&
  (g.nbrs i .connects .cp).all (fun p => !A.contains p && (g.nbrs p .connects .cp).all (fun q => !A.contains q)) &&
  (cpFamily g i dp).all (fun f => (g.nbrs f .connects .link).all
    (fun l => A.contains l || (g.nbrs l .connects .cp).all (fun e => !A.contains e)))

theorem flatMap_congr' {α β : Type} {f g : α → List β} : ∀ (l : List α), (∀ a ∈ l, f a = g a) → l.flatMap f = l.flatMap g
  | [], _ => rfl
  | a :: l, h => by
    simp only [List.flatMap_cons, h a (by simp)]
    rw [flatMap_congr' l (fun b hb => h b (by simp [hb]))]

theorem filter_eq_self_of_all {l : List Nat} {p : Nat → Bool} (h : l.all p = true) : l.filter p = l := by
  rw [List.filter_eq_self]; intro a ha; exact List.all_eq_true.mp h a ha

theorem cpFamily_minus (g : G) (A : List Nat) (i : Nat) (dp : Bool) (h : Sep g A i dp = true) :
    cpFamily (g.minus A) i dp = cpFamily g i dp := by
  simp only [Sep, Bool.and_eq_true, Bool.not_eq_true'] at h
  obtain ⟨⟨hi, hp⟩, _⟩ := h
  have hall := List.all_eq_true.mp hp
  simp only [cpFamily]
  rw [nbrs_minus g A i _ _ hi]
  have : (g.nbrs i .connects .cp).filter (fun y => !A.contains y) = g.nbrs i .connects .cp := by
    apply filter_eq_self_of_all
    apply List.all_eq_true.mpr; intro p hp'; have := hall p hp'; simp only [Bool.and_eq_true] at this; exact this.1
  rw [this]
  congr 1
  apply List.filter_congr
  intro p hp'
  have := hall p hp'
  simp only [Bool.and_eq_true, Bool.not_eq_true'] at this
  rw [nbrs_minus g A p _ _ this.1, filter_eq_self_of_all this.2]

theorem mem_cpFamily_notin (g : G) (A : List Nat) (i : Nat) (dp : Bool) (h : Sep g A i dp = true) :
    ∀ f ∈ cpFamily g i dp, A.contains f = false := by
  simp only [Sep, Bool.and_eq_true, Bool.not_eq_true'] at h
  obtain ⟨⟨hi, hp⟩, _⟩ := h
  intro f hf
  simp only [cpFamily, List.mem_cons, List.mem_filter] at hf
  rcases hf with rfl | ⟨hf, _⟩
  · exact hi
  · have := List.all_eq_true.mp hp f hf
    simp only [Bool.and_eq_true, Bool.not_eq_true'] at this
    exact this.1

theorem cpLinks_minus (g : G) (A : List Nat) (i : Nat) (dp : Bool) (h : Sep g A i dp = true) :
    cpLinks (g.minus A) (cpFamily g i dp) = (cpLinks g (cpFamily g i dp)).filter (fun y => !A.contains y) := by
  have hnot := mem_cpFamily_notin g A i dp h
  simp only [Sep, Bool.and_eq_true] at h
  obtain ⟨_, hl⟩ := h
  have hall := List.all_eq_true.mp hl
  simp only [cpLinks, List.filter_flatMap]
  apply flatMap_congr'
  intro f hf
  rw [nbrs_minus g A f _ _ (hnot f hf), List.filter_filter, List.filter_filter]
  apply List.filter_congr
  intro l hl'
  have := List.all_eq_true.mp (hall f hf) l hl'
  by_cases hA : A.contains l = true
  · have hA2 : l ∈ A := by simpa using hA
    simp [hA2]
  · simp only [hA, Bool.false_or] at this
    have hA' : A.contains l = false := by simpa using hA
    rw [nbrs_minus g A l _ _ hA', filter_eq_self_of_all this]
    exact Bool.and_comm _ _

/-- **Sequential step.** After `A` has been deleted, `remove_cp_and_links(i)` deletes exactly what it would have
deleted in the full graph (and is not already gone), provided `A` is separated from `i`'s family. -/
theorem removeCp_after (g : G) (A : List Nat) (i : Nat) (dp : Bool) (hi : g.has i = true) (h : Sep g A i dp = true) :
    removeCp (g.minus A) i dp = .ok (g.minus (A ++ cpDel g i dp)) := by
  have hiA : A.contains i = false := mem_cpFamily_notin g A i dp h i (by simp [cpFamily])
  have hi' : (g.minus A).has i = true := by rw [has_minus, hiA, hi]; rfl
  rw [removeCp_minus _ _ _ hi', minus_minus]
  congr 1
  apply minus_congr
  intro y
  simp only [cpDel, cpFamily_minus g A i dp h, cpLinks_minus g A i dp h, List.mem_append, mem_dedup, List.mem_filter]
  constructor
  · rintro (hy | hy | ⟨hy, _⟩)
    · exact Or.inl hy
    · exact Or.inr (Or.inl hy)
    · exact Or.inr (Or.inr hy)
  · rintro (hy | hy | hy)
    · exact Or.inl hy
    · exact Or.inr (Or.inl hy)
    · by_cases hA : y ∈ A
      · exact Or.inl hA
      · exact Or.inr (Or.inr ⟨hy, by simpa [List.contains_eq_mem] using hA⟩)

/-- separation along a sequence of `remove_cp_and_links(i, True)` calls -/
def SepSeq (g : G) : List Nat → List Nat → Bool
  | _, [] => true
  | A, i :: is => g.has i && Sep g A i true && SepSeq g (A ++ cpDel g i true) is

/-- **Induction over the interface loop**: the sequence of removals on the evolving graph deletes the union of
the closed-form sets computed in the pre-state. -/
theorem seqCp (g : G) : ∀ (is A : List Nat), SepSeq g A is = true →
    is.foldlM (fun g i => removeCp g i true) (g.minus A) = .ok (g.minus (A ++ is.flatMap (fun i => cpDel g i true)))
  | [], A, _ => by simp [List.foldlM_nil, pure, Except.pure]
  | i :: is, A, h => by
    simp only [SepSeq, Bool.and_eq_true] at h
    obtain ⟨⟨hi, hs⟩, hrest⟩ := h
    simp only [List.foldlM_cons, removeCp_after g A i true hi hs, bind, Except.bind]
    rw [seqCp g is _ hrest]
    simp [List.flatMap_cons, List.append_assoc]

/-- closed form of what `remove_ns_with_cps_and_links(s)` deletes, computed in the pre-state -/
def nsDel (g : G) (s : Nat) : List Nat := s :: (g.nbrs s .connects .cp).flatMap (fun i => cpDel g i true)

def SepNs (g : G) (A : List Nat) (s : Nat) : Bool :=
  g.cls? s == some .ns && !A.contains s && (g.nbrs s .connects .cp).all (fun i => !A.contains i) &&
  SepSeq g (A ++ [s]) (g.nbrs s .connects .cp)

theorem removeNs_after (g : G) (A : List Nat) (s : Nat) (h : SepNs g A s = true) :
    removeNs (g.minus A) s = .ok (g.minus (A ++ nsDel g s)) := by
  simp only [SepNs, Bool.and_eq_true, Bool.not_eq_true', beq_iff_eq] at h
  obtain ⟨⟨⟨hc, hs⟩, hall⟩, hseq⟩ := h
  have hc' : (g.minus A).cls? s = some .ns := by rw [cls_minus, hs]; simpa using hc
  simp only [removeNs, hc', beq_self_eq_true, ite_true]
  rw [nbrs_minus g A s _ _ hs, filter_eq_self_of_all hall, minus_minus, seqCp g _ _ hseq]
  simp [nsDel, List.append_assoc]

def SepNsSeq (g : G) : List Nat → List Nat → Bool
  | _, [] => true
  | A, s :: ss => SepNs g A s && SepNsSeq g (A ++ nsDel g s) ss

theorem seqNs (g : G) : ∀ (ss A : List Nat), SepNsSeq g A ss = true →
    ss.foldlM removeNs (g.minus A) = .ok (g.minus (A ++ ss.flatMap (nsDel g)))
  | [], A, _ => by simp [List.foldlM_nil, pure, Except.pure]
  | s :: ss, A, h => by
    simp only [SepNsSeq, Bool.and_eq_true] at h
    simp only [List.foldlM_cons, removeNs_after g A s h.1, bind, Except.bind]
    rw [seqNs g ss _ h.2]
    simp [List.flatMap_cons, List.append_assoc]

/-- closed form of `remove_component_with_nss_cps_and_links(c)` -/
def compDel (g : G) (c : Nat) : List Nat := c :: (g.nbrs c .has .ns).flatMap (nsDel g)

def SepComp (g : G) (A : List Nat) (c : Nat) : Bool :=
  g.cls? c == some .comp && !A.contains c && (g.nbrs c .has .ns).all (fun s => !A.contains s) &&
  SepNsSeq g (A ++ [c]) (g.nbrs c .has .ns)

theorem removeComp_after (g : G) (A : List Nat) (c : Nat) (h : SepComp g A c = true) :
    removeComp (g.minus A) c = .ok (g.minus (A ++ compDel g c)) := by
  simp only [SepComp, Bool.and_eq_true, Bool.not_eq_true', beq_iff_eq] at h
  obtain ⟨⟨⟨hc, hs⟩, hall⟩, hseq⟩ := h
  have hc' : (g.minus A).cls? c = some .comp := by rw [cls_minus, hs]; simpa using hc
  simp only [removeComp, hc', beq_self_eq_true, ite_true]
  rw [nbrs_minus g A c _ _ hs, filter_eq_self_of_all hall, minus_minus, seqNs g _ _ hseq]
  simp [compDel, List.append_assoc]

def SepCompSeq (g : G) : List Nat → List Nat → Bool
  | _, [] => true
  | A, c :: cs => SepComp g A c && SepCompSeq g (A ++ compDel g c) cs

theorem seqComp (g : G) : ∀ (cs A : List Nat), SepCompSeq g A cs = true →
    cs.foldlM removeComp (g.minus A) = .ok (g.minus (A ++ cs.flatMap (compDel g)))
  | [], A, _ => by simp [List.foldlM_nil, pure, Except.pure]
  | c :: cs, A, h => by
    simp only [SepCompSeq, Bool.and_eq_true] at h
    simp only [List.foldlM_cons, removeComp_after g A c h.1, bind, Except.bind]
    rw [seqComp g cs _ h.2]
    simp [List.flatMap_cons, List.append_assoc]

/-- closed form of `remove_network_node_with_components_nss_cps_and_links(n)` -/
def nodeDel (g : G) (n : Nat) : List Nat :=
  (g.nbrs n .has .comp).flatMap (compDel g) ++ n :: (g.nbrs n .has .ns).flatMap (nsDel g)

def SepNode (g : G) (A : List Nat) (n : Nat) : Bool :=
  let A1 := A ++ (g.nbrs n .has .comp).flatMap (compDel g)
  g.cls? n == some .node && !A1.contains n && (g.nbrs n .has .ns).all (fun s => !A1.contains s) &&
  SepCompSeq g A (g.nbrs n .has .comp) && (g.nbrs n .has .comp).all (fun c => !A.contains c) &&
  SepNsSeq g (A1 ++ [n]) (g.nbrs n .has .ns)

theorem removeNodeG_after (g : G) (A : List Nat) (n : Nat) (h : SepNode g A n = true) :
    removeNodeG (g.minus A) n = .ok (g.minus (A ++ nodeDel g n)) := by
  simp only [SepNode, Bool.and_eq_true, Bool.not_eq_true', beq_iff_eq] at h
  obtain ⟨⟨⟨⟨⟨hc, hn⟩, hnss⟩, hcs⟩, hcA⟩, hseq⟩ := h
  have hnA : A.contains n = false := by
    have : ¬ n ∈ A ++ (g.nbrs n .has .comp).flatMap (compDel g) := by simpa [List.contains_eq_mem] using hn
    have : n ∉ A := fun h => this (List.mem_append_left _ h)
    simpa [List.contains_eq_mem] using this
  have hc' : (g.minus A).cls? n = some .node := by rw [cls_minus, hnA]; simpa using hc
  simp only [removeNodeG, hc', beq_self_eq_true, ite_true]
  rw [nbrs_minus g A n _ _ hnA, filter_eq_self_of_all hcA, seqComp g _ _ hcs]
  simp only [bind, Except.bind]
  rw [nbrs_minus g _ n _ _ hn, filter_eq_self_of_all hnss, minus_minus, seqNs g _ _ hseq]
  simp [nodeDel, List.append_assoc]

end FimVerif.Remove
