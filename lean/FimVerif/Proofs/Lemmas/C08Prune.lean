import FimVerif.Proofs.Lemmas.C08Ports
/-! `ExperimentTopology.prune`: the user-level calls applied one after the other (after-lemmas), the guarded folds, the
closed form `pruneDel` and its relation to the marked elements. -/
namespace FimVerif.Remove

/-! ### The user-level calls after `A` has already been deleted (prune applies them one after the other) -/

theorem nbrs_minus_clean (g : G) (A : List Nat) (x : Nat) (r : Rel) (c : Cls) (hx : A.contains x = false)
    (h : (g.nbrs x r c).all (fun y => !A.contains y) = true) : (g.minus A).nbrs x r c = g.nbrs x r c := by
  rw [nbrs_minus g A x r c hx, filter_eq_self_of_all h]

/-- `p`, its services and their interfaces are untouched by `A` -/
def CleanDirect (g : G) (A : List Nat) (p : Nat) : Bool :=
  !A.contains p && (g.nbrs p .has .ns).all (fun s => !A.contains s) &&
  (g.nbrs p .has .ns).all (fun s => !A.contains s && (g.nbrs s .connects .cp).all (fun i => !A.contains i))

theorem directIfs_minus (g : G) (A : List Nat) (p : Nat) (h : CleanDirect g A p = true) :
    directIfs (g.minus A) p = directIfs g p := by
  simp only [CleanDirect, Bool.and_eq_true, Bool.not_eq_true'] at h
  obtain ⟨⟨hp, hs⟩, hall⟩ := h
  simp only [directIfs, nbrs_minus_clean g A p _ _ hp hs]
  apply flatMap_congr'
  intro s hs'
  have := List.all_eq_true.mp hall s hs'
  simp only [Bool.and_eq_true, Bool.not_eq_true'] at this
  exact nbrs_minus_clean g A s _ _ this.1 this.2

/-- the interfaces and their sub-interfaces are untouched by `A` -/
def CleanSubs (g : G) (A : List Nat) (ifs : List Nat) : Bool :=
  ifs.all (fun i => !A.contains i && (g.nbrs i .connects .cp).all (fun q => !A.contains q))

theorem deepIfs_minus (g : G) (A : List Nat) (ifs : List Nat) (h : CleanSubs g A ifs = true) :
    deepIfs (g.minus A) ifs = deepIfs g ifs := by
  simp only [deepIfs]
  apply flatMap_congr'
  intro i hi
  have := List.all_eq_true.mp h i hi
  simp only [Bool.and_eq_true, Bool.not_eq_true'] at this
  simp only [withSubs, kind_minus, this.1, nbrs_minus_clean g A i _ _ this.1 this.2]
  rfl

theorem disconnectDeep_afterA (g : G) (A ifs ifs' : List Nat) (he : ifs' = ifs) (hc : CleanSubs g A ifs = true)
    (h : SepDiscSeq g A (deepIfs g ifs) = true) :
    disconnectDeep (g.minus A) ifs' = .ok (g.minus (A ++ (deepIfs g ifs).flatMap (discDel g))) := by
  subst he
  have := disconnectAll_after g _ A h
  have e : deepIfs (g.minus A) ifs' = deepIfs g ifs' := deepIfs_minus g A ifs' hc
  unfold disconnectDeep
  show disconnectAll (g.minus A) (deepIfs (g.minus A) ifs') = _
  rw [e]; exact this

/-- hypothesis for `remove_network_service` after `A` -/
def HypNs (g : G) (A : List Nat) (s : Nat) : Bool :=
  g.cls? s == some .ns && !A.contains s && (g.nbrs s .connects .cp).all (fun i => !A.contains i) &&
  CleanSubs g A (g.nbrs s .connects .cp) && SepDiscSeq g A (deepIfs g (g.nbrs s .connects .cp)) &&
  SepNs g (A ++ (deepIfs g (g.nbrs s .connects .cp)).flatMap (discDel g)) s

theorem removeNsApi_after (g : G) (A : List Nat) (s : Nat) (h : HypNs g A s = true) :
    removeNsApi (g.minus A) s = .ok (g.minus (A ++ nsApiDel g s)) := by
  simp only [HypNs, Bool.and_eq_true, Bool.not_eq_true', beq_iff_eq] at h
  obtain ⟨⟨⟨⟨⟨hc, hs⟩, hcl⟩, hsub⟩, hd⟩, hn⟩ := h
  have hc' : (g.minus A).cls? s = some .ns := by rw [cls_minus, hs]; simpa using hc
  simp only [removeNsApi, hc', beq_self_eq_true, ite_true]
  rw [disconnectDeep_afterA g A _ _ (nbrs_minus_clean g A s _ _ hs hcl) hsub hd]
  simp only [bind, Except.bind]
  rw [removeNs_after g _ s hn]
  simp [nsApiDel, List.append_assoc]

def HypComp (g : G) (A : List Nat) (c : Nat) : Bool :=
  CleanDirect g A c && CleanSubs g A (ifaceListComp g c) && SepDiscSeq g A (deepIfs g (ifaceListComp g c)) &&
  SepComp g (A ++ (deepIfs g (ifaceListComp g c)).flatMap (discDel g)) c

theorem removeComponentApi_after (g : G) (A : List Nat) (c : Nat) (h : HypComp g A c = true) :
    removeComponentApi (g.minus A) c = .ok (g.minus (A ++ compApiDel g c)) := by
  simp only [HypComp, Bool.and_eq_true] at h
  obtain ⟨⟨⟨hcd, hsub⟩, hd⟩, hn⟩ := h
  have hcA : A.contains c = false := by
    simp only [CleanDirect, Bool.and_eq_true, Bool.not_eq_true'] at hcd; exact hcd.1.1
  have hc : g.cls? c = some .comp := by
    simp only [SepComp, Bool.and_eq_true, beq_iff_eq] at hn; exact hn.1.1.1
  have hc' : (g.minus A).cls? c = some .comp := by rw [cls_minus, hcA]; simpa using hc
  simp only [removeComponentApi, hc', beq_self_eq_true, ite_true]
  rw [disconnectDeep_afterA g A (ifaceListComp g c) (ifaceListComp (g.minus A) c) (directIfs_minus g A c hcd) hsub hd]
  simp only [bind, Except.bind]
  rw [removeComp_after g _ c hn]
  simp [compApiDel, List.append_assoc]

def HypNode (g : G) (A : List Nat) (n : Nat) : Bool :=
  g.cls? n == some .node && g.kind? n != some kFacility &&
  CleanDirect g A n && (g.nbrs n .has .comp).all (fun c => !A.contains c) &&
  (g.nbrs n .has .comp).all (fun c => CleanDirect g A c) &&
  CleanSubs g A (ifaceListNode g n) && SepDiscSeq g A (deepIfs g (ifaceListNode g n)) &&
  SepNode g (A ++ (deepIfs g (ifaceListNode g n)).flatMap (discDel g)) n

theorem ifaceListNode_minus (g : G) (A : List Nat) (n : Nat) (hcd : CleanDirect g A n = true)
    (hcs : (g.nbrs n .has .comp).all (fun c => !A.contains c) = true)
    (hcc : (g.nbrs n .has .comp).all (fun c => CleanDirect g A c) = true) :
    ifaceListNode (g.minus A) n = ifaceListNode g n := by
  have hnA : A.contains n = false := by
    simp only [CleanDirect, Bool.and_eq_true, Bool.not_eq_true'] at hcd; exact hcd.1.1
  simp only [ifaceListNode, directIfs_minus g A n hcd, nbrs_minus_clean g A n _ _ hnA hcs]
  congr 1
  apply flatMap_congr'
  intro c hc
  exact directIfs_minus g A c (List.all_eq_true.mp hcc c hc)

theorem removeNodeApi_after (g : G) (A : List Nat) (n : Nat) (h : HypNode g A n = true) :
    removeNodeApi (g.minus A) n = .ok (g.minus (A ++ nodeApiDel g n)) := by
  simp only [HypNode, Bool.and_eq_true] at h
  obtain ⟨⟨⟨⟨⟨⟨⟨hc, hk⟩, hcd⟩, hcs⟩, hcc⟩, hsub⟩, hd⟩, hn⟩ := h
  have hnA : A.contains n = false := by
    simp only [CleanDirect, Bool.and_eq_true, Bool.not_eq_true'] at hcd; exact hcd.1.1
  have hk' : ((g.minus A).cls? n == some .node && (g.minus A).kind? n != some kFacility) = true := by
    rw [cls_minus, kind_minus, hnA]; simp only [Bool.false_eq_true, ite_false, Bool.and_eq_true]; exact ⟨hc, hk⟩
  simp only [removeNodeApi, hk', ite_true]
  rw [disconnectDeep_afterA g A (ifaceListNode g n) (ifaceListNode (g.minus A) n) (ifaceListNode_minus g A n hcd hcs hcc) hsub hd]
  simp only [bind, Except.bind]
  rw [removeNodeG_after g _ n hn]
  simp [nodeApiDel, List.append_assoc]

/-- `_prune_interface`: disconnect, then `remove_cp_and_links` -/
def ifaceApiDel (g : G) (i : Nat) : List Nat := (deepIfs g [i]).flatMap (discDel g) ++ cpDel g i true

def HypIface (g : G) (A : List Nat) (i : Nat) : Bool :=
  g.has i && CleanSubs g A [i] && SepDiscSeq g A (deepIfs g [i]) && Sep g (A ++ (deepIfs g [i]).flatMap (discDel g)) i true

theorem pruneIface_after (g : G) (A : List Nat) (i : Nat) (h : HypIface g A i = true) :
    (disconnectDeep (g.minus A) [i]).bind (fun g1 => removeCp g1 i true) = .ok (g.minus (A ++ ifaceApiDel g i)) := by
  simp only [HypIface, Bool.and_eq_true] at h
  obtain ⟨⟨⟨hi, hsub⟩, hd⟩, hs⟩ := h
  rw [disconnectDeep_afterA g A [i] _ rfl hsub hd]
  simp only [Except.bind]
  rw [removeCp_after g _ i true hi hs]
  simp [ifaceApiDel, List.append_assoc]

/-! ### folds -/

/-- hypotheses along an unguarded loop (`for n in nodes: self._prune_node(n)`) -/
def USeq (hyp : List Nat → Nat → Bool) (del : Nat → List Nat) : List Nat → List Nat → Bool
  | _, [] => true
  | A, x :: xs => hyp A x && USeq hyp del (A ++ del x) xs

def uDel (del : Nat → List Nat) : List Nat → List Nat → List Nat
  | A, [] => A
  | A, x :: xs => uDel del (A ++ del x) xs

theorem ufold (g : G) (f : G → Nat → Except Err G) (hyp : List Nat → Nat → Bool) (del : Nat → List Nat)
    (hf : ∀ A x, hyp A x = true → f (g.minus A) x = .ok (g.minus (A ++ del x))) :
    ∀ (xs A : List Nat), USeq hyp del A xs = true → xs.foldlM f (g.minus A) = .ok (g.minus (uDel del A xs))
  | [], A, _ => by simp [List.foldlM_nil, pure, Except.pure, uDel]
  | x :: xs, A, h => by
    simp only [USeq, Bool.and_eq_true] at h
    simp only [List.foldlM_cons, hf A x h.1, bind, Except.bind, uDel]
    exact ufold g f hyp del hf xs _ h.2

/-- hypotheses along a guarded loop (`if still_present(e): prune e`): an element already gone is skipped -/
def GSeq (g : G) (hyp : List Nat → Nat → Bool) (del : Nat → List Nat) : List Nat → List Nat → Bool
  | _, [] => true
  | A, x :: xs => if A.contains x || !g.has x then GSeq g hyp del A xs else hyp A x && GSeq g hyp del (A ++ del x) xs

def gDel (g : G) (del : Nat → List Nat) : List Nat → List Nat → List Nat
  | A, [] => A
  | A, x :: xs => if A.contains x || !g.has x then gDel g del A xs else gDel g del (A ++ del x) xs

theorem gfold (g : G) (f : G → Nat → Except Err G) (hyp : List Nat → Nat → Bool) (del : Nat → List Nat)
    (hf : ∀ A x, hyp A x = true → f (g.minus A) x = .ok (g.minus (A ++ del x))) :
    ∀ (xs A : List Nat), GSeq g hyp del A xs = true →
      xs.foldlM (fun g' x => if g'.has x then f g' x else .ok g') (g.minus A) = .ok (g.minus (gDel g del A xs))
  | [], A, _ => by simp [List.foldlM_nil, pure, Except.pure, gDel]
  | x :: xs, A, h => by
    simp only [GSeq] at h
    simp only [List.foldlM_cons, gDel, has_minus]
    cases hA : A.contains x <;> cases hh : g.has x <;>
      simp only [hA, hh, Bool.not_true, Bool.not_false, Bool.or_true, Bool.true_or, Bool.or_false, Bool.false_or,
        Bool.and_true, Bool.and_false, Bool.true_and, Bool.false_and, ite_true, ite_false, Bool.false_eq_true,
        bind, Except.bind, Bool.and_eq_true] at h ⊢
    · exact gfold g f hyp del hf xs A h
    · rw [hf A x h.1]; exact gfold g f hyp del hf xs _ h.2
    · exact gfold g f hyp del hf xs A h
    · exact gfold g f hyp del hf xs A h

/-- what `prune` deletes, as folds over the pre-state -/
def pruneDel (g : G) (ns cs ss is : List Nat) : List Nat :=
  gDel g (ifaceApiDel g) (gDel g (nsApiDel g) (gDel g (compApiDel g) (uDel (nodeApiDel g) [] ns) cs) ss) is

def HypPrune (g : G) (ns cs ss is : List Nat) : Bool :=
  let D1 := uDel (nodeApiDel g) [] ns
  let D2 := gDel g (compApiDel g) D1 cs
  let D3 := gDel g (nsApiDel g) D2 ss
  USeq (HypNode g) (nodeApiDel g) [] ns && GSeq g (HypComp g) (compApiDel g) D1 cs &&
  GSeq g (HypNs g) (nsApiDel g) D2 ss && GSeq g (HypIface g) (ifaceApiDel g) D3 is

theorem prune_closed (g : G) (ns cs ss is : List Nat) (h : HypPrune g ns cs ss is = true) :
    prune g ns cs ss is = .ok (g.minus (pruneDel g ns cs ss is)) := by
  simp only [HypPrune, Bool.and_eq_true] at h
  obtain ⟨⟨⟨h1, h2⟩, h3⟩, h4⟩ := h
  have e1 := ufold g removeNodeApi (HypNode g) (nodeApiDel g) (removeNodeApi_after g) ns [] h1
  rw [minus_nil] at e1
  have e2 := gfold g removeComponentApi (HypComp g) (compApiDel g) (removeComponentApi_after g) cs _ h2
  have e3 := gfold g removeNsApi (HypNs g) (nsApiDel g) (removeNsApi_after g) ss _ h3
  have e4 := gfold g (fun g' i => (disconnectDeep g' [i]).bind (fun g1 => removeCp g1 i true)) (HypIface g) (ifaceApiDel g)
    (pruneIface_after g) is _ h4
  simp only [prune, e1, bind, Except.bind, e2, e3]
  exact e4

theorem mem_uDel (del : Nat → List Nat) : ∀ (xs A : List Nat) (y : Nat),
    y ∈ uDel del A xs ↔ y ∈ A ∨ ∃ x ∈ xs, y ∈ del x
  | [], A, y => by simp [uDel]
  | x :: xs, A, y => by
    simp only [uDel, mem_uDel del xs, List.mem_append, List.mem_cons, exists_eq_or_imp, or_assoc]

theorem mem_gDel_sound (g : G) (del : Nat → List Nat) : ∀ (xs A : List Nat) (y : Nat),
    y ∈ gDel g del A xs → y ∈ A ∨ ∃ x ∈ xs, y ∈ del x
  | [], A, y => by simp [gDel]
  | x :: xs, A, y => by
    simp only [gDel]
    split
    · intro h
      rcases mem_gDel_sound g del xs A y h with h | ⟨z, hz, h⟩
      · exact Or.inl h
      · exact Or.inr ⟨z, List.mem_cons_of_mem _ hz, h⟩
    · intro h
      rcases mem_gDel_sound g del xs _ y h with h | ⟨z, hz, h⟩
      · rcases List.mem_append.mp h with h | h
        · exact Or.inl h
        · exact Or.inr ⟨x, by simp, h⟩
      · exact Or.inr ⟨z, List.mem_cons_of_mem _ hz, h⟩

theorem gDel_mono (g : G) (del : Nat → List Nat) : ∀ (xs A : List Nat) (y : Nat), y ∈ A → y ∈ gDel g del A xs
  | [], A, y, h => by simpa [gDel] using h
  | x :: xs, A, y, h => by
    simp only [gDel]
    split
    · exact gDel_mono g del xs A y h
    · exact gDel_mono g del xs _ y (List.mem_append_left _ h)

/-- every listed element is gone afterwards (it is deleted now, was deleted before, or never existed) -/
theorem gDel_covers (g : G) (del : Nat → List Nat) (hdel : ∀ x, x ∈ del x) : ∀ (xs A : List Nat) (x : Nat), x ∈ xs →
    x ∈ gDel g del A xs ∨ g.has x = false
  | z :: xs, A, x, hx => by
    simp only [gDel]
    rcases List.mem_cons.mp hx with rfl | hx
    · split
      · rename_i hsk
        simp only [Bool.or_eq_true, Bool.not_eq_true'] at hsk
        rcases hsk with h | h
        · exact Or.inl (gDel_mono g del xs A x (by simpa using h))
        · exact Or.inr h
      · exact Or.inl (gDel_mono g del xs _ x (List.mem_append_right _ (hdel x)))
    · split
      · exact gDel_covers g del hdel xs A x hx
      · exact gDel_covers g del hdel xs _ x hx

/-- **nothing outside the owned structure of the marked elements is pruned** -/
theorem pruneDel_sound (g : G) (ns cs ss is : List Nat) (y : Nat) (h : y ∈ pruneDel g ns cs ss is) :
    (∃ n ∈ ns, y ∈ nodeApiDel g n) ∨ (∃ c ∈ cs, y ∈ compApiDel g c) ∨ (∃ s ∈ ss, y ∈ nsApiDel g s) ∨
    (∃ i ∈ is, y ∈ ifaceApiDel g i) := by
  unfold pruneDel at h
  rcases mem_gDel_sound g _ is _ y h with h | h
  · rcases mem_gDel_sound g _ ss _ y h with h | h
    · rcases mem_gDel_sound g _ cs _ y h with h | h
      · rcases (mem_uDel _ ns [] y).mp h with h | h
        · simp at h
        · exact Or.inl h
      · exact Or.inr (Or.inl h)
    · exact Or.inr (Or.inr (Or.inl h))
  · exact Or.inr (Or.inr (Or.inr h))

/-- **every marked node goes with everything it owns; every other marked element is gone** -/
theorem pruneDel_covers (g : G) (ns cs ss is : List Nat) :
    (∀ n ∈ ns, ∀ y ∈ nodeApiDel g n, y ∈ pruneDel g ns cs ss is) ∧
    (∀ x, x ∈ cs ∨ x ∈ ss ∨ x ∈ is → x ∈ pruneDel g ns cs ss is ∨ g.has x = false) := by
  unfold pruneDel
  constructor
  · intro n hn y hy
    exact gDel_mono g _ is _ y (gDel_mono g _ ss _ y (gDel_mono g _ cs _ y ((mem_uDel _ ns [] y).mpr (Or.inr ⟨n, hn, hy⟩))))
  · rintro x (hx | hx | hx)
    · rcases gDel_covers g (compApiDel g) (fun c => by simp [compApiDel, compDel]) cs _ x hx with h | h
      · exact Or.inl (gDel_mono g _ is _ x (gDel_mono g _ ss _ x h))
      · exact Or.inr h
    · rcases gDel_covers g (nsApiDel g) (fun s => by simp [nsApiDel, nsDel]) ss _ x hx with h | h
      · exact Or.inl (gDel_mono g _ is _ x h)
      · exact Or.inr h
    · exact gDel_covers g (ifaceApiDel g) (fun i => by simp [ifaceApiDel, cpDel, mem_dedup, cpFamily]) is _ x hx

/-- a pruned first-level interface: closed form = `Owned` -/
theorem mem_ifaceApiDel_iff_owned (g : G) (hI : InvCP g = true) (hP : InvPeer g = true) (i : Nat)
    (hc : g.cls? i = some .cp) (hs : isSub g i = false) (y : Nat) : y ∈ ifaceApiDel g i ↔ Owned g i y := by
  have hIm : ∀ j, j ∈ deepIfs g [i] ↔ Below g i j ∧ g.cls? j = some .cp := by
    intro j
    have : deepIfs g [i] = withSubs g i := by simp [deepIfs]
    rw [this, mem_withSubs g hI i hc hs j]
    exact ⟨fun h => ⟨h, below_cp_cls g hI i hc hs j h⟩, fun h => h.1⟩
  rw [← owned_iff_disc g hP _ i hIm y, ← mem_cpDel_iff_ownedG g hI i hc hs y]
  simp [ifaceApiDel]

end FimVerif.Remove
