import FimVerif.Model.Remove
/-! Basic facts about `G.minus`, `delNode`, `deleteAll` and the frame ("shrinks") relation for C08. -/
namespace FimVerif.Remove

theorem minus_minus (g : G) (A B : List Nat) : (g.minus A).minus B = g.minus (A ++ B) := by
  simp only [G.minus, List.filter_filter, G.mk.injEq]
  constructor
  · apply List.filter_congr; intro n _; simp [List.contains_eq_mem, Bool.and_comm]
  · apply List.filter_congr; intro e _; simp [List.contains_eq_mem]; grind

theorem minus_nil (g : G) : g.minus [] = g := by
  cases g; simp [G.minus]

theorem find?_congr' {α} {p q : α → Bool} : ∀ (l : List α), (∀ a ∈ l, p a = q a) → l.find? p = l.find? q
  | [], _ => rfl
  | a :: l, h => by
    simp only [List.find?_cons, h a (by simp)]
    rw [find?_congr' l (fun b hb => h b (by simp [hb]))]

theorem find_minus (g : G) (D : List Nat) (x : Nat) :
    (g.minus D).find x = if D.contains x then none else g.find x := by
  simp only [G.find, G.minus, List.find?_filter]
  split
  · rename_i h
    rw [List.find?_eq_none]; intro n _; simp; intro hn hx; subst hx; simp_all
  · rename_i h
    apply find?_congr'; intro n _
    by_cases hx : n.id = x
    · subst hx; simp_all
    · simp [hx]

theorem has_minus (g : G) (D : List Nat) (x : Nat) : (g.minus D).has x = (!D.contains x && g.has x) := by
  simp only [G.has, find_minus]; split <;> simp_all

theorem deleteAll_minus (g : G) (L : List Nat) (hp : ∀ x ∈ L, g.has x = true) (hn : L.Nodup) :
    deleteAll g L = .ok (g.minus L) := by
  induction L generalizing g with
  | nil => simp [deleteAll, minus_nil]; rfl
  | cons x xs ih =>
    have hx : g.has x = true := hp x (by simp)
    simp only [deleteAll, List.foldlM_cons, delNode, hx, ite_true]
    have := ih (g.minus [x]) (by
      intro y hy; rw [has_minus]; simp
      constructor
      · intro h; subst h; exact (List.nodup_cons.mp hn).1 hy
      · exact hp y (by simp [hy])) (List.nodup_cons.mp hn).2
    simp only [deleteAll] at this
    simp only [bind, Except.bind]
    rw [this, minus_minus]; rfl

/-- `g'` is `g` with some elements (and exactly the edges touching them) taken away; every surviving
element — class, kind, properties — and every edge between survivors is literally the old one -/
def Shrinks (g g' : G) : Prop := ∃ D, g' = g.minus D

theorem Shrinks.refl (g : G) : Shrinks g g := ⟨[], (minus_nil g).symm⟩

theorem Shrinks.trans {a b c : G} (h1 : Shrinks a b) (h2 : Shrinks b c) : Shrinks a c := by
  obtain ⟨D1, rfl⟩ := h1; obtain ⟨D2, rfl⟩ := h2
  exact ⟨D1 ++ D2, minus_minus a D1 D2⟩

theorem Shrinks.minus (g : G) (D : List Nat) : Shrinks g (g.minus D) := ⟨D, rfl⟩

theorem foldlM_shrinks {α : Type} (f : G → α → Except Err G)
    (hf : ∀ g a g', f g a = .ok g' → Shrinks g g') :
    ∀ (l : List α) (g g' : G), l.foldlM f g = .ok g' → Shrinks g g' := by
  intro l
  induction l with
  | nil => intro g g' h; simp [List.foldlM_nil, pure, Except.pure] at h; subst h; exact Shrinks.refl g
  | cons a l ih =>
    intro g g' h
    simp only [List.foldlM_cons, bind, Except.bind] at h
    split at h
    · cases h
    · rename_i g1 h1
      exact (hf g a g1 h1).trans (ih g1 g' h)

theorem delNode_shrinks (g : G) (x : Nat) (g' : G) (h : delNode g x = .ok g') : Shrinks g g' := by
  unfold delNode at h; split at h
  · cases h; exact Shrinks.minus g [x]
  · cases h

theorem deleteAll_shrinks (g : G) (L : List Nat) (g' : G) (h : deleteAll g L = .ok g') : Shrinks g g' :=
  foldlM_shrinks delNode delNode_shrinks L g g' h

end FimVerif.Remove
