import FimVerif.Proofs.Lemmas.C12Add
import FimVerif.Proofs.Lemmas.C12Pools
import FimVerif.Proofs.Lemmas.C12Codec
/-! C12: what the API can construct.  Invariants of `Delegation` / `Delegations` objects over all histories of API calls,
and the conditions under which `add_pool` … `build_index_by_delegation_id` accept a family - so that the well-formedness
hypotheses of the round-trip theorems are seen to exclude nothing the API produces, apart from what the property itself
excludes (a single-resource delegation / definition whose details were never set or are empty). -/
set_option linter.unusedSimpArgs false
namespace FimVerif.C12
open FimVerif.Deleg FimVerif.Gen.DelegConsts

variable {D : Type}

/-- a `Delegation` object as the API makes it: `Delegation(...)`, then any number of successful `set_details` calls
(a rejected call raises and changes nothing) -/
inductive Built (ops : DetailOps D) : Delegation D → Prop
  | ctor (ty : DType) (id : String) (fmt : Fmt) (pool : Option String) (d : Delegation D) :
      mkDelegation ty id fmt pool = .ok d → Built ops d
  | set (d d' : Delegation D) (x : D) : Built ops d → setDetails ops d x = .ok d' → Built ops d'

/-- a `Delegations` container as the API makes it: `Delegations(atype=ty)`, then any number of `add_delegations(*args)`
calls (a call that raises keeps the arguments before the offending one, as the code does) -/
inductive Reachable (ty : DType) : Delegations D → Prop
  | new : Reachable ty { ty := ty, items := [] }
  | call (ds : Delegations D) (args : List (Delegation D)) : Reachable ty ds → Reachable ty (addDelegations ds args).1

theorem setDetails_ok (ops : DetailOps D) (d d' : Delegation D) (x : D) (h : setDetails ops d x = .ok d') :
    d.fmt ≠ .reference ∧ ops.kindOf x = d.ty ∧ d' = { d with details := some x } := by
  unfold setDetails at h
  split at h
  · cases h
  · split at h
    · cases h
    · rename_i h1 h2
      injection h with h
      exact ⟨h1, by simpa using h2, h.symm⟩

/-- **invariant of every constructible `Delegation`**: a reference never carries details, details are of the delegation's
own kind, a definition / reference has a pool name and it is not the reserved one -/
theorem built_inv (ops : DetailOps D) (d : Delegation D) (h : Built ops d) :
    (d.fmt = .reference → d.details = none) ∧ (∀ x, d.details = some x → ops.kindOf x = d.ty) ∧
    (d.fmt ≠ .single → match d.pool with | none => False | some p => p ≠ singlePoolName) := by
  induction h with
  | ctor ty id fmt pool d hd =>
    unfold mkDelegation at hd
    split at hd
    · cases hd
    · split at hd
      · cases hd
      · rename_i h1 h2
        injection hd with hd; subst hd
        refine ⟨fun _ => rfl, fun x hx => (by cases hx), fun hf => ?_⟩
        cases pool with
        | none => exact h1 ⟨hf, rfl⟩
        | some p => exact fun hp => h2 ⟨hf, by rw [hp]⟩
  | set d d' x _ hs ih =>
    obtain ⟨hf, hk, rfl⟩ := setDetails_ok ops d d' x hs
    refine ⟨fun h => absurd h hf, fun y hy => ?_, ih.2.2⟩
    simp only [Option.some.injEq] at hy
    subst hy; exact hk

/-- **invariant of every reachable `Delegations`**: it has the type it was created with, so has every entry, and the
ids are pairwise distinct - whatever calls were made, accepted or rejected -/
theorem reachable_inv (ty : DType) (ds : Delegations D) (h : Reachable ty ds) :
    ds.ty = ty ∧ (∀ d ∈ ds.items, d.ty = ty) ∧ ds.items.Pairwise (fun a b => a.id ≠ b.id) := by
  induction h with
  | new => exact ⟨rfl, by simp, List.Pairwise.nil⟩
  | call ds args _ ih =>
    obtain ⟨hty, hall, hpw⟩ := ih
    obtain ⟨pre, suf, _, hst, hok, _, _⟩ := addDelegations_state_prefix ds args
    rw [hst]
    refine ⟨hty, ?_, ?_⟩
    · intro d hd
      rcases List.mem_append.mp hd with hd | hd
      · exact hall d hd
      · rw [hok.1 d hd, hty]
    · exact List.pairwise_append.mpr ⟨hpw, hok.2.2, fun a ha b hb => hok.2.1 b hb a ha⟩

/-- details that are not empty and survive `Cls(**x.to_dict())` -/
def Survives (ops : DetailOps D) (x : D) : Prop :=
  match ops.toDict x with
  | none => False
  | some j => ops.fromDict (ops.kindOf x) j = .ok x

/-- the property's own restriction on a constructed set: every single-resource delegation and every pool definition has had
its details set (to details that are not empty and survive their own codec), a single-resource delegation was not given a
pool name -/
def Complete (ops : DetailOps D) (ds : Delegations D) : Prop :=
  ∀ d ∈ ds.items, (d.fmt ≠ .reference → ∃ x, d.details = some x ∧ Survives ops x) ∧ (d.fmt = .single → d.pool = none)

/-- the well-formedness hypothesis of `delegations_roundtrip` holds for whatever the API builds, given `Complete` -/
theorem wf_of_api (ops : DetailOps D) (ty : DType) (ds : Delegations D) (hr : Reachable ty ds)
    (hb : ∀ d ∈ ds.items, Built ops d) (hc : Complete ops ds) : WF ops ds := by
  obtain ⟨hty, hall, hpw⟩ := reachable_inv ty ds hr
  refine ⟨fun d hd => ?_, hpw⟩
  obtain ⟨hbr, hbk, hbp⟩ := built_inv ops d (hb d hd)
  obtain ⟨hcd, hcs⟩ := hc d hd
  have hdty : d.ty = ds.ty := by rw [hall d hd, hty]
  refine ⟨hdty, ?_⟩
  have hdet : d.fmt ≠ .reference → DetOk ops ds.ty d.details := by
    intro hf
    obtain ⟨x, hx, hs⟩ := hcd hf
    have hk := hbk x hx
    rw [hx]
    refine ⟨by rw [hk, hdty], ?_⟩
    unfold Survives at hs
    cases hj : ops.toDict x with
    | none => simp [hj] at hs
    | some j => simp only [hj] at hs ⊢; rw [← hdty, ← hk]; exact hs
  cases hf : d.fmt with
  | single => exact ⟨hcs hf, hdet (by rw [hf]; decide)⟩
  | definition => exact ⟨hbp (by rw [hf]; decide), hdet (by rw [hf]; decide)⟩
  | reference => exact ⟨hbp (by rw [hf]; decide), hbr hf⟩

/-! ### pools -/

theorem foldlM_ok_all_inv {α β : Type} (I : β → Prop) (f : β → α → Except Err β) (l : List α) (a r : β) (hI : I a)
    (hstep : ∀ b x b', I b → f b x = .ok b' → I b') (h : l.foldlM f a = .ok r) :
    ∀ x ∈ l, ∃ b b', I b ∧ f b x = .ok b' := by
  induction l generalizing a with
  | nil => simp
  | cons y l ih =>
    rw [List.foldlM_cons] at h
    cases hy : f a y with
    | error e => simp [hy, bind, Except.bind] at h
    | ok b =>
      simp only [hy, bind, Except.bind] at h
      intro x hx
      rcases List.mem_cons.mp hx with rfl | hx
      · exact ⟨a, b, hI, hy⟩
      · exact ih b (hstep a y b hI hy) h x hx

theorem foldlM_error_of_step {α β : Type} (f : β → α → Except Err β) (l : List α) (x : α) (hx : x ∈ l)
    (hf : ∀ b, ∃ e, f b x = .error e) : ∀ b, ∃ e, l.foldlM f b = .error e := by
  induction l with
  | nil => cases hx
  | cons y l ih =>
    intro b
    rw [List.foldlM_cons]
    cases hy : f b y with
    | error e => exact ⟨e, rfl⟩
    | ok b' =>
      rcases List.mem_cons.mp hx with rfl | hx
      · obtain ⟨e, he⟩ := hf b; rw [he] at hy; cases hy
      · exact ih hx b'

/-- `add_pool` accepted ⇒ container type and not the reserved name -/
theorem addPool_ok (ps ps' : Pools D) (p : Pool D) (h : addPool ps p = .ok ps') :
    p.ty = ps.ty ∧ p.pid ≠ singlePoolName ∧ ps'.ty = ps.ty := by
  unfold addPool at h
  split at h
  · cases h
  · split at h
    · cases h
    · rename_i h1 h2
      injection h with h
      exact ⟨by simpa using h1, h2, by rw [← h]⟩

theorem indexStep_ok (idx idx' : List (String × List (Pool D))) (p : Pool D) (h : indexStep idx p = .ok idx') :
    p.deleg ≠ none ∧ p.on_ ≠ none ∧ p.for_ ≠ [] ∧ p.details.isSome := by
  unfold indexStep validatePool at h
  by_cases h1 : p.deleg = none
  · simp [h1, bind, Except.bind] at h
  · by_cases h2 : p.on_ = none
    · simp [h1, h2, bind, Except.bind] at h
    · by_cases h3 : p.for_ = []
      · simp [h1, h2, h3, bind, Except.bind] at h
      · cases h4 : p.details with
        | none => simp [h1, h2, h3, h4, bind, Except.bind] at h
        | some x => exact ⟨h1, h2, h3, rfl⟩

/-- **`Family` is what the API accepts**: when `add_pool` of every pool and `build_index_by_delegation_id` succeed for
pools with distinct ids, every clause of `PoolOk` except the kind of the details holds (and a pool whose details are of
the other kind makes `generate` raise: `generate_rejects_mixed_pool_details`) -/
theorem family_of_buildPools (ops : DetailOps D) (ty : DType) (P : List (Pool D)) (ps : Pools D) (hd : Distinct P)
    (hk : ∀ p ∈ P, ∀ x, p.details = some x → ops.kindOf x = ty) (h : buildPools ty P = .ok ps) : Family ops ty P := by
  unfold buildPools at h
  cases h1 : P.foldlM addPool (emptyPools ty) with
  | error e => simp [h1, bind, Except.bind] at h
  | ok ps1 =>
    simp only [h1, bind, Except.bind] at h
    have hadd := foldlM_ok_all_inv (fun b : Pools D => b.ty = ty) addPool P (emptyPools ty) ps1 rfl
      (fun b x b' hb hx => by rw [(addPool_ok b b' x hx).2.2, hb]) h1
    have hty : ∀ p ∈ P, p.ty = ty ∧ p.pid ≠ singlePoolName := by
      intro p hp
      obtain ⟨b, b', hb, hx⟩ := hadd p hp
      obtain ⟨h1, h2, _⟩ := addPool_ok b b' p hx
      exact ⟨by rw [h1, hb], h2⟩
    have hfold := addPool_fold ty P [] (fun p hp => (hty p hp).1) (fun p hp => (hty p hp).2) (by simpa using hd)
    simp only [List.nil_append] at hfold
    have hps1 : ps1 = { ty := ty, byId := P, index := none } := by
      have : (Except.ok ps1 : Except Err (Pools D)) = .ok { ty := ty, byId := P, index := none } := by
        rw [← h1]; exact hfold
      injection this
    subst hps1
    unfold buildIndex at h
    cases h2 : P.foldlM indexStep [] with
    | error e => simp [h2, bind, Except.bind] at h
    | ok idx =>
      have hidx := foldlM_ok_all indexStep P [] idx h2
      refine ⟨fun p hp => ?_, hd⟩
      obtain ⟨b, b', hb⟩ := hidx p hp
      obtain ⟨i1, i2, i3, i4⟩ := indexStep_ok b b' p hb
      refine ⟨(hty p hp).1, (hty p hp).2, i1, i2, i3, ?_⟩
      cases hx : p.details with
      | none => simp [hx] at i4
      | some x => exact hk p hp x hx

/-- a pool whose details are of the other kind never turns into delegations: `generate` raises whenever the index holds one -/
theorem generate_rejects_mixed_pool_details (ops : DetailOps D) (ps : Pools D) (idx : List (String × List (Pool D)))
    (hidx : ps.index = some idx) (e : String × List (Pool D)) (he : e ∈ idx) (p : Pool D) (hp : p ∈ e.2) (x : D)
    (hx : p.details = some x) (hk : ops.kindOf x ≠ ps.ty) : ∃ err, generate ops ps = .error err := by
  unfold generate
  rw [hidx]
  apply foldlM_error_of_step _ idx e he
  intro ret
  apply foldlM_error_of_step _ e.2 p hp
  intro ret'
  unfold genPool
  cases hm : (mkDelegation ps.ty e.1 .definition (some p.pid) : Except Err (Delegation D)) with
  | error err => exact ⟨err, by simp [hm, bind, Except.bind]⟩
  | ok pd =>
    have hpd : pd.fmt = .definition ∧ pd.ty = ps.ty := by
      unfold mkDelegation at hm
      split at hm
      · cases hm
      · split at hm
        · cases hm
        · injection hm with hm; subst hm; exact ⟨rfl, rfl⟩
    refine ⟨.delegation, ?_⟩
    simp [hm, hx, setDetails, hpd.1, hpd.2, hk, bind, Except.bind]

end FimVerif.C12
