import FimVerif.Proofs.Lemmas.C03SetFields
namespace FimVerif.Codec
open FimVerif JVal

/-- values of the documented domain of each guard -/
def inDomain (g : Guard) (v : JVal) : Bool :=
  match g, v with
  | .natOrNone, .int i => decide (0 ≤ i)
  | .str, .str _ => true
  | .strOrList, .str _ => true
  | .strOrList, .arr xs => xs.all isStr
  | .strOrStrList, .str _ => true
  | .strOrStrList, .arr xs => xs.all isStr
  | .strOrFloat, .str _ => true
  | .strOrFloat, .float r => !(["nan", "inf", "-inf"].contains r)
  | .bool, .bool _ => true
  | _, _ => false

theorem guard_of_inDomain (g : Guard) (v : JVal) (h : inDomain g v = true) : guardCheck g v = .ok () := by
  cases g <;> cases v <;> simp_all [inDomain, guardCheck]

theorem notNull_of_inDomain (g : Guard) (v : JVal) (h : inDomain g v = true) : v.isNull = false := by
  cases g <;> cases v <;> simp_all [inDomain, isNull]

/-- a value of class `c`: every field holds its (dropped) default or a valid value of the documented domain;
nothing else is an instance attribute -/
def WellTyped (c : ClassSpec) (valid : String → JVal → Bool) (x : Fields) : Prop :=
  (∀ f ∈ c.fields, (x f.name = f.dflt ∧ dropped c.drop f.dflt f.dflt = true) ∨
      (inDomain c.guard (x f.name) = true ∧ valid f.name (x f.name) = true)) ∧
  ∀ k, k ∉ names c → x k = .null

/-- lossless: empty text only for the all-default value, and otherwise the text reads back as `x` -/
def RoundTrips (c : ClassSpec) (valid : String → JVal → Bool) (x : Fields) : Prop :=
  (encode c x = none → x = defaults c) ∧
  (∀ j, encode c x = some j → decode c valid (some j) = .ok (some x))

theorem find_field (fs : List FieldSpec) (hn : (fs.map (·.name)).Nodup) (f : FieldSpec) (hf : f ∈ fs) :
    fs.find? (fun g => g.name == f.name) = some f := by
  induction fs with
  | nil => cases hf
  | cons g t ih =>
    simp only [List.map_cons, List.nodup_cons] at hn
    rcases List.mem_cons.1 hf with h | h
    · subst h; simp
    · have : g.name ≠ f.name := by
        intro e; exact hn.1 (e ▸ List.mem_map_of_mem h)
      have hb : (g.name == f.name) = false := by simpa using this
      rw [List.find?_cons, hb]
      exact ih hn.2 h

theorem dfltOf_field (c : ClassSpec) (hn : (names c).Nodup) (f : FieldSpec) (hf : f ∈ c.fields) :
    dfltOf c f.name = f.dflt := by
  unfold dfltOf
  rw [find_field c.fields hn f hf]

theorem dfltOf_not_mem (c : ClassSpec) (k : String) (h : k ∉ names c) : dfltOf c k = .null := by
  unfold dfltOf names at *
  have : c.fields.find? (fun f => f.name == k) = none := by
    simp only [List.find?_eq_none]
    intro f hf e
    exact h (by simp at e; exact e ▸ List.mem_map_of_mem hf)
  simp [this]

theorem kept_keys_sublist (r : DropRule) (c : ClassSpec) (x : Fields) :
    ((keptBy r c x).map (·.1)).Sublist (names c) := by
  unfold keptBy names
  rw [List.map_map]
  exact (List.filter_sublist).map _

theorem kept_mem (r : DropRule) (c : ClassSpec) (x : Fields) (k : String) (v : JVal) :
    (k, v) ∈ keptBy r c x ↔ ∃ f ∈ c.fields, dropped r f.dflt (x f.name) = false ∧ k = f.name ∧ v = x f.name := by
  unfold keptBy
  simp only [List.mem_map, List.mem_filter, Bool.not_eq_true', Prod.mk.injEq]
  constructor
  · rintro ⟨f, ⟨hf, hd⟩, rfl, rfl⟩; exact ⟨f, hf, hd, rfl, rfl⟩
  · rintro ⟨f, hf, hd, rfl, rfl⟩; exact ⟨f, ⟨hf, hd⟩, rfl, rfl⟩

theorem sort_mem (l : List (String × JVal)) (p) : p ∈ sortKvs l ↔ p ∈ l :=
  (List.mergeSort_perm l keyLe).mem_iff

theorem sort_keys_nodup (l : List (String × JVal)) (h : (l.map (·.1)).Nodup) : ((sortKvs l).map (·.1)).Nodup :=
  ((List.mergeSort_perm l keyLe).map _).nodup_iff.2 h


theorem field_eq_of_name (fs : List FieldSpec) (hn : (fs.map (·.name)).Nodup) (f g : FieldSpec)
    (hf : f ∈ fs) (hg : g ∈ fs) (e : f.name = g.name) : f = g := by
  have h1 := find_field fs hn f hf
  have h2 := find_field fs hn g hg
  rw [e] at h1
  exact Option.some.inj (h1.symm.trans h2)

/-- the value read back from the encoding of `x`: kept fields from `x`, every other attribute at its default -/
def readBack (c : ClassSpec) (x : Fields) : Fields := fun k =>
  if (keptBy c.drop c x).any (fun p => p.1 == k) then x k else dfltOf c k

theorem kept_any_field (r : DropRule) (c : ClassSpec) (hn : (names c).Nodup) (x : Fields) (f : FieldSpec)
    (hf : f ∈ c.fields) : (keptBy r c x).any (fun p => p.1 == f.name) = !dropped r f.dflt (x f.name) := by
  cases hd : dropped r f.dflt (x f.name)
  · simp only [Bool.not_false, List.any_eq_true]
    exact ⟨(f.name, x f.name), (kept_mem r c x _ _).2 ⟨f, hf, hd, rfl, rfl⟩, by simp⟩
  · simp only [Bool.not_true, List.any_eq_false]
    rintro ⟨k, v⟩ hp hk
    obtain ⟨g, hg, hgd, rfl, rfl⟩ := (kept_mem r c x _ _).1 hp
    have : g = f := field_eq_of_name c.fields hn g f hg hf (by simpa using hk)
    subst this
    rw [hd] at hgd; cases hgd

theorem kept_any_not_name (r : DropRule) (c : ClassSpec) (x : Fields) (k : String) (h : k ∉ names c) :
    (keptBy r c x).any (fun p => p.1 == k) = false := by
  simp only [List.any_eq_false]
  rintro ⟨k', v⟩ hp hk
  obtain ⟨g, hg, _, rfl, rfl⟩ := (kept_mem r c x _ _).1 hp
  exact h (by simp at hk; exact hk ▸ List.mem_map_of_mem hg)

theorem decode_sorted_kept (c : ClassSpec) (valid) (hn : (names c).Nodup) (x : Fields) (hx : WellTyped c valid x) :
    decode c valid (some (.obj (sortKvs (keptBy c.drop c x)))) = .ok (some (readBack c x)) := by
  have hgood : AllGood c valid (knownOnly c (sortKvs (keptBy c.drop c x))) := by
    rintro ⟨k, v⟩ hp
    have hp' := (List.mem_filter.1 hp)
    obtain ⟨f, hf, hd, rfl, rfl⟩ := (kept_mem _ c x _ _).1 ((sort_mem _ _).1 hp'.1)
    refine ⟨by simpa using hp'.2, ?_⟩
    rcases hx.1 f hf with ⟨he, hdd⟩ | ⟨hdom, hv⟩
    · rw [he, hdd] at hd; cases hd
    · exact ⟨guard_of_inDomain _ _ hdom, hv⟩
  have hnd : ((knownOnly c (sortKvs (keptBy c.drop c x))).map (·.1)).Nodup :=
    (sort_keys_nodup _ ((kept_keys_sublist _ c x).nodup hn)).sublist ((List.filter_sublist).map _)
  simp only [decode, setFields_allGood c valid true _ _ hgood]
  congr 2
  funext k
  unfold readBack
  by_cases hk : (keptBy c.drop c x).any (fun p => p.1 == k) = true
  · rw [if_pos hk]
    obtain ⟨⟨k', v⟩, hp, hk'⟩ := List.any_eq_true.1 hk
    have hkk : k' = k := by simpa using hk'
    subst hkk
    obtain ⟨f, hf, hd, rfl, rfl⟩ := (kept_mem _ c x _ _).1 hp
    apply applyAll_mem _ _ _ _ hnd
    exact List.mem_filter.2 ⟨(sort_mem _ _).2 hp, by simpa [names] using List.mem_map_of_mem hf⟩
  · rw [if_neg hk]
    apply applyAll_not_mem
    intro hmem
    obtain ⟨⟨k', v⟩, hp, hk'⟩ := List.mem_map.1 hmem
    apply hk
    exact List.any_eq_true.2 ⟨(k', v), (sort_mem _ _).1 (List.mem_filter.1 hp).1, by simpa using hk'⟩

end FimVerif.Codec
