import FimVerif.Model.IsoDate
/-! `fromisoformat(isoformat(t)) = t` on the concrete model of `datetime` texts (C03, MaintenanceEntry dates). -/
namespace FimVerif.Iso

theorem d_isDigit (n : Nat) : (d n).isDigit = true := by
  simp [d, Nat.isDigit_digitChar, Nat.mod_lt]

theorem d_val (n : Nat) : (d n).toNat - 48 = n % 10 :=
  Nat.toNat_digitChar_sub_48_of_lt_ten (Nat.mod_lt _ (by decide))

theorem num_pad2 (n : Nat) (h : n < 100) (r : List Char) : num 2 (pad2 n ++ r) = some (n, r) := by
  simp only [pad2, List.cons_append, List.nil_append, num, d_isDigit, d_val, if_true]
  simp; omega

theorem num_pad4 (n : Nat) (h : n < 10000) (r : List Char) : num 4 (pad4 n ++ r) = some (n, r) := by
  simp only [pad4, List.cons_append, List.nil_append, num, d_isDigit, d_val, if_true]
  simp; omega

theorem num_pad6 (n : Nat) (h : n < 1000000) (r : List Char) : num 6 (pad6 n ++ r) = some (n, r) := by
  simp only [pad6, List.cons_append, List.nil_append, num, d_isDigit, d_val, if_true]
  simp; omega

theorem frac_iso (n : Nat) (h : n < 1000000) (r : List Char) (hr : ∀ t, r ≠ '.' :: t) :
    frac ((if n ≠ 0 then '.' :: pad6 n else []) ++ r) = some (n, r) := by
  by_cases hn : n = 0
  · subst hn
    simp only [ne_eq, not_true_eq_false, if_false, List.nil_append]
    unfold frac
    split
    · rename_i s; exact absurd rfl (hr s)
    · rfl
  · simp only [ne_eq, hn, not_false_eq_true, if_true, List.cons_append, frac, num_pad6 n h]

theorem mkTZ_valid (neg : Bool) (hh mm ss us : Nat) (h1 : hh < 24) (h2 : mm < 60) (h3 : ss < 60)
    (h5 : (hh = 0 ∧ mm = 0 ∧ ss = 0) → us = 0 ∧ neg = false) : mkTZ neg hh mm ss us = some (some ⟨neg, hh, mm, ss, us⟩) := by
  unfold mkTZ
  by_cases h0 : (hh * 60 + mm) * 60 + ss = 0
  · have : hh = 0 ∧ mm = 0 ∧ ss = 0 := by omega
    obtain ⟨hu, hn⟩ := h5 this
    obtain ⟨rfl, rfl, rfl⟩ := this
    simp [hu, hn]
  · have hb : (hh * 60 + mm) * 60 + ss < 86400 := by omega
    simp only [h0, if_false, hb, if_true]
    have e1 : ((hh * 60 + mm) * 60 + ss) / 3600 = hh := by omega
    have e2 : ((hh * 60 + mm) * 60 + ss) / 60 % 60 = mm := by omega
    have e3 : ((hh * 60 + mm) * 60 + ss) % 60 = ss := by omega
    rw [e1, e2, e3]

theorem offset_iso (z : TZ) (hz : z.Valid) : offset z.iso = some (some z) := by
  obtain ⟨h1, h2, h3, h4, h5⟩ := hz
  obtain ⟨neg, hh, mm, ss, us⟩ := z
  simp only at h1 h2 h3 h4 h5
  have hsg : ((if neg = true then '-' else '+') = '+' ∨ (if neg = true then '-' else '+') = '-') := by cases neg <;> simp
  have hneg : decide ((if neg = true then '-' else '+') = '-') = neg := by cases neg <;> simp
  simp only [TZ.iso, List.cons_append, List.append_assoc, offset, hsg, if_true, num_pad2 hh (by omega), lit, num_pad2 mm (by omega)]
  by_cases hs : ss ≠ 0 ∨ us ≠ 0
  · simp only [hs, if_true, num_pad2 ss (by omega)]
    have := frac_iso us h4 [] (by simp)
    simp only [List.append_nil, ne_eq, ite_not] at this
    simp only [ne_eq, ite_not, this, hneg, mkTZ_valid neg hh mm ss us h1 h2 h3 h5]
  · have h0 : ss = 0 ∧ us = 0 := by omega
    obtain ⟨rfl, rfl⟩ := h0
    simp only [ne_eq, not_true_eq_false, or_self, if_false, List.append_nil, hneg, mkTZ_valid neg hh mm 0 0 h1 h2 h3 h5]

theorem TZ.iso_ne_dot (z : TZ) (t : List Char) : z.iso ≠ '.' :: t := by
  unfold TZ.iso; cases z.neg <;> simp

/-- **`fromisoformat(isoformat(t)) = t`** for every `datetime` content -/
theorem parseIso_iso (t : DT) (h : t.Valid) : parseIso t.iso = some t := by
  obtain ⟨hy1, hy, hmo1, hmo, hd1, hd, hh, hmi, hs, hus, htz⟩ := h
  obtain ⟨year, month, day, hour, minute, second, micro, tz⟩ := t
  simp only at hy1 hy hmo1 hmo hd1 hd hh hmi hs hus htz
  have hoff : offset (tzIso tz) = some tz := by
    cases tz with
    | none => rfl
    | some z => exact offset_iso z (htz z rfl)
  have hfr := frac_iso micro hus (tzIso tz)
    (by intro t; cases tz with
        | none => simp [tzIso]
        | some z => exact TZ.iso_ne_dot z t)
  have hday : day < 100 := by
    have : daysIn year month ≤ 31 := by unfold daysIn; split <;> (try split) <;> omega
    omega
  simp only [DT.iso, List.cons_append, List.append_assoc, parseIso, num_pad4 year hy, num_pad2 month (by omega), num_pad2 day hday,
    num_pad2 hour (by omega), num_pad2 minute (by omega), num_pad2 second (by omega), lit, bind, Option.bind, if_true, hfr, hoff]
  simp [hy1, hmo1, hmo, hd1, hd, hh, hmi, hs]

theorem isoCanon_isoStr (t : DT) (h : t.Valid) : isoCanon t.isoStr = some t.isoStr := by
  simp [isoCanon, DT.isoStr, parseIso_iso t h]

theorem isoStr_ne_empty (t : DT) : t.isoStr ≠ "" := by
  intro h
  have := congrArg String.toList h
  simp [DT.isoStr, DT.iso, pad4] at this

end FimVerif.Iso
