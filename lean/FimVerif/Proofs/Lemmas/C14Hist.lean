import FimVerif.Proofs.Lemmas.C14Reach
namespace FimVerif.Cbm

def firstSome {β : Type} (f : Adm → Option β) : List Adm → Option β
  | [] => none
  | a :: as => (f a).or (firstSome f as)

/-- what model `a` says about the label / capacity delegation of element `i` once re-keyed by its graph id -/
def speakL (a : Adm) (i : String) : Deleg := (a.g.ldelOf i).rk a.id
def speakC (a : Adm) (i : String) : Deleg := (a.g.cdelOf i).rk a.id
def firstLive (l : List Deleg) : Deleg := (l.find? Deleg.live).getD .absent

theorem foldl_take (l : List Deleg) (d : Deleg) : l.foldl Deleg.take d = d.take (firstLive l) := by
  induction l generalizing d with
  | nil => cases d <;> rfl
  | cons t l ih =>
    rw [List.foldl_cons, ih]
    cases hd : d.live <;> cases ht : t.live <;> simp [Deleg.take, firstLive, hd, ht]

theorem take_assoc_firstLive (d t : Deleg) (l : List Deleg) : (d.take t).take (firstLive l) = d.take (firstLive (t :: l)) := by
  cases hd : d.live <;> cases ht : t.live <;> simp [Deleg.take, firstLive, hd, ht]

/-- Closed form of a history of successful merges: data of elements and connections is first-wins, connections are
the union, delegations are the first live one. -/
theorem mergeAll_data : ∀ {as : List Adm} {c g : Graph}, c.WF → (∀ a ∈ as, a.WF) → mergeAll c as = some g →
    (∀ i, g.propsOf i = (c.propsOf i).or (firstSome (fun a => a.g.propsOf i) as)) ∧
    (∀ x y, g.edgeData x y = (c.edgeData x y).or (firstSome (fun a => a.g.edgeData x y) as)) ∧
    (∀ x y, g.hasEdge x y = (c.hasEdge x y || as.any (fun a => a.g.hasEdge x y))) ∧
    (∀ i, g.ldelOf i = (c.ldelOf i).take (firstLive (as.map (speakL · i)))) ∧
    (∀ i, g.cdelOf i = (c.cdelOf i).take (firstLive (as.map (speakC · i))))
  | [], c, g, _, _, h => by
    simp [mergeAll] at h; subst h
    refine ⟨by simp [firstSome], by simp [firstSome], by simp, ?_, ?_⟩ <;> intro i <;> simp [firstLive, Deleg.take_absent_right]
  | a :: as, c, g, hc, ha, h => by
    unfold mergeAll at h
    split at h
    · rename_i g' hm
      have hs := merge_step hc.closed hm
      obtain ⟨i1, i2, i3, i4, i5⟩ := mergeAll_data (merge_WF hc (ha a (by simp)) hm) (fun b hb => ha b (by simp [hb])) h
      refine ⟨?_, ?_, ?_, ?_, ?_⟩
      · intro i; rw [i1, hs.props, firstSome, Option.or_assoc]
      · intro x y; rw [i2, hs.edgeData, firstSome, Option.or_assoc]
      · intro x y; rw [i3, hs.hasEdge, List.any_cons, Bool.or_assoc]
      · intro i; rw [i4, hs.ldel, List.map_cons, take_assoc_firstLive]; rfl
      · intro i; rw [i5, hs.cdel, List.map_cons, take_assoc_firstLive]; rfl
    · cases h


/-! ### when does a merge succeed -/

/-- `rewrite_delegations` accepts every delegation of the model and the model is not empty -/
def Adm.Mergeable (a : Adm) : Bool := !a.g.nodes.isEmpty && a.g.nodes.all (fun n => n.ldel.single && n.cdel.single)

/-- both speak for element `i` (same kind of delegation) -/
def clashAt (a b : Adm) (i : String) : Bool :=
  ((speakL a i).live && (speakL b i).live) || ((speakC a i).live && (speakC b i).live)
def clash (a b : Adm) : Bool := a.g.ids.any (clashAt a b)
def clashG (c : Graph) (a : Adm) : Bool :=
  c.ids.any (fun i => ((c.ldelOf i).live && (speakL a i).live) || ((c.cdelOf i).live && (speakC a i).live))

theorem rekey_of_single {aid : String} {d : Deleg} (h : d.single = true) : d.rekey aid = .ok (d.rk aid) := by
  cases d with
  | absent => rfl
  | emptied => cases h
  | dict l =>
    match l, h with
    | [(k, v)], _ => rfl

theorem stampAll_of_single {aid : String} : ∀ (ns : List Node), (∀ n ∈ ns, n.ldel.single = true ∧ n.cdel.single = true) →
    stampAll aid ns = .ok (ns.map (stampT aid))
  | [], _ => rfl
  | n :: ns, h => by
    have h1 := h n (by simp)
    have ih := stampAll_of_single (aid := aid) ns (fun m hm => h m (by simp [hm]))
    simp [stampAll, stampNode, rekey_of_single h1.1, rekey_of_single h1.2, ih, stampT]

theorem ldelOf_live_has {g : Graph} {i : String} (h : (g.ldelOf i).live = true) : i ∈ g.ids := by
  cases hn : g.node? i with
  | none => simp [Graph.ldelOf, hn, Deleg.live] at h
  | some n => exact node?_isSome_iff.mp (by simp [hn])

theorem cdelOf_live_has {g : Graph} {i : String} (h : (g.cdelOf i).live = true) : i ∈ g.ids := by
  cases hn : g.node? i with
  | none => simp [Graph.cdelOf, hn, Deleg.live] at h
  | some n => exact node?_isSome_iff.mp (by simp [hn])

theorem rk_live_of {d : Deleg} {aid : String} (h : (d.rk aid).live = true) : d.live = true := by
  cases d with
  | absent => cases h
  | emptied => cases h
  | dict l => rfl

theorem clashG_false_iff (c : Graph) (a : Adm) : clashG c a = false ↔
    ∀ i, ((c.ldelOf i).live && (speakL a i).live) = false ∧ ((c.cdelOf i).live && (speakC a i).live) = false := by
  constructor
  · intro h i
    by_cases hi : i ∈ c.ids
    · have := (List.any_eq_false.mp h) i hi
      simpa [Bool.or_eq_false_iff] using this
    · constructor
      · cases hl : (c.ldelOf i).live with
        | false => rfl
        | true => exact absurd (ldelOf_live_has hl) hi
      · cases hl : (c.cdelOf i).live with
        | false => rfl
        | true => exact absurd (cdelOf_live_has hl) hi
  · intro h
    apply List.any_eq_false.mpr
    intro i _
    simp [(h i).1, (h i).2]

theorem conflictAt_eq (c : Graph) (a : Adm) (i : String) :
    conflictAt c a.stamped i = (((c.ldelOf i).live && (speakL a i).live) || ((c.cdelOf i).live && (speakC a i).live)) := by
  unfold conflictAt speakL speakC Graph.ldelOf Graph.cdelOf
  rw [stamped_node?]
  cases c.node? i <;> cases a.g.node? i <;> simp [conflict, stampT, Deleg.live, Deleg.rk]

/-- `merge_adm` succeeds exactly when the model is acceptable to `rewrite_delegations` and does not speak for an
element the combined model already has a delegation for. -/
theorem mergeN_succeeds_iff {c : Graph} (hc : c.Closed) (a : Adm) :
    (mergeN c a).1 = none ↔ (a.Mergeable = true ∧ clashG c a = false) := by
  constructor
  · intro h
    have hm : mergeN c a = (none, (mergeN c a).2) := by rw [← h]
    have hs := merge_step hc hm
    refine ⟨?_, (clashG_false_iff c a).mpr (fun i => ⟨hs.lnoconf i, hs.cnoconf i⟩)⟩
    unfold Adm.Mergeable
    have hne := hs.nonempty
    have : a.g.nodes.isEmpty = false := by cases hn : a.g.nodes with
      | nil => exact absurd hn hne
      | cons _ _ => rfl
    simp only [this, Bool.not_false, Bool.true_and, List.all_eq_true, Bool.and_eq_true]
    exact hs.single
  · intro ⟨hm, hcl⟩
    unfold Adm.Mergeable at hm
    simp only [Bool.and_eq_true, Bool.not_eq_eq_eq_not, Bool.not_true, List.all_eq_true] at hm
    have hst := stampAll_of_single (aid := a.id) a.g.nodes hm.2
    have hcf := (clashG_false_iff c a).mp hcl
    unfold mergeN mergeOrdN
    have htn : (⟨a.g.nodes.map (stampT a.id), a.g.edges⟩ : Graph) = a.stamped := rfl
    have : List.findIdx? (conflictAt c a.stamped) (common c a.g) = none := by
      rw [List.findIdx?_eq_none_iff]
      intro i _
      rw [conflictAt_eq, (hcf i).1, (hcf i).2]; rfl
    simp only [hm.1, hst, htn, this, Bool.false_eq_true, if_false]
    split <;> rfl


/-! ### histories of merges: success is a pairwise condition -/

def Compat (c : Graph) : List Adm → Bool
  | [] => true
  | a :: as => a.Mergeable && !clashG c a && as.all (fun b => !clash a b) && Compat c as

theorem Deleg.take_live_eq (c t : Deleg) : (c.take t).live = (c.live || t.live) := by
  cases hc : c.live <;> cases ht : t.live <;> simp [Deleg.take, hc, ht]

theorem speakL_live_has {a : Adm} {i : String} (h : (speakL a i).live = true) : i ∈ a.g.ids :=
  ldelOf_live_has (rk_live_of h)
theorem speakC_live_has {a : Adm} {i : String} (h : (speakC a i).live = true) : i ∈ a.g.ids :=
  cdelOf_live_has (rk_live_of h)

theorem clash_false_iff (a b : Adm) : clash a b = false ↔ ∀ i, clashAt a b i = false := by
  constructor
  · intro h i
    by_cases hi : i ∈ a.g.ids
    · exact (List.any_eq_false.mp h) i hi |> (by simpa using ·)
    · unfold clashAt
      have h1 : (speakL a i).live = false := by
        cases hl : (speakL a i).live with
        | false => rfl
        | true => exact absurd (speakL_live_has hl) hi
      have h2 : (speakC a i).live = false := by
        cases hl : (speakC a i).live with
        | false => rfl
        | true => exact absurd (speakC_live_has hl) hi
      simp [h1, h2]
  · intro h
    apply List.any_eq_false.mpr
    intro i _
    simp [h i]

theorem clash_symm {a b : Adm} (h : clash a b = false) : clash b a = false := by
  rw [clash_false_iff] at h ⊢
  intro i
  have := h i
  unfold clashAt at this ⊢
  rw [Bool.and_comm (speakL b i).live, Bool.and_comm (speakC b i).live]
  exact this

/-- after merging `a`, the combined model clashes with `b` iff it did before or `a` does -/
theorem clashG_merged {c : Graph} {a : Adm} {g : Graph} (hs : MergeStep c a g) (b : Adm) :
    clashG g b = false ↔ (clashG c b = false ∧ clash a b = false) := by
  rw [clashG_false_iff, clashG_false_iff, clash_false_iff]
  constructor
  · intro h
    refine ⟨fun i => ?_, fun i => ?_⟩
    · have := h i
      rw [hs.ldel, hs.cdel, Deleg.take_live_eq, Deleg.take_live_eq] at this
      revert this
      cases (c.ldelOf i).live <;> cases (c.cdelOf i).live <;> simp_all
    · have := h i
      rw [hs.ldel, hs.cdel, Deleg.take_live_eq, Deleg.take_live_eq] at this
      unfold clashAt
      revert this
      have e1 : (speakL a i) = (a.g.ldelOf i).rk a.id := rfl
      have e2 : (speakC a i) = (a.g.cdelOf i).rk a.id := rfl
      rw [e1, e2]
      cases (c.ldelOf i).live <;> cases (c.cdelOf i).live <;> cases ((a.g.ldelOf i).rk a.id).live <;>
        cases ((a.g.cdelOf i).rk a.id).live <;> simp_all
  · intro ⟨h1, h2⟩ i
    have a1 := h1 i
    have a2 := h2 i
    rw [hs.ldel, hs.cdel, Deleg.take_live_eq, Deleg.take_live_eq]
    unfold clashAt at a2
    have e1 : (speakL a i) = (a.g.ldelOf i).rk a.id := rfl
    have e2 : (speakC a i) = (a.g.cdelOf i).rk a.id := rfl
    rw [e1, e2] at a2
    revert a1 a2
    cases (c.ldelOf i).live <;> cases (c.cdelOf i).live <;> cases ((a.g.ldelOf i).rk a.id).live <;>
      cases ((a.g.cdelOf i).rk a.id).live <;> simp_all

theorem Compat_merged {c : Graph} {a : Adm} {g : Graph} (hs : MergeStep c a g) : ∀ (as : List Adm),
    Compat g as = true ↔ (Compat c as = true ∧ as.all (fun b => !clash a b) = true)
  | [] => by simp [Compat]
  | b :: as => by
    have ih := Compat_merged hs as
    have hb := clashG_merged hs b
    simp only [Compat, Bool.and_eq_true, List.all_cons, Bool.not_eq_eq_eq_not, Bool.not_true] at ih hb ⊢
    rw [ih, hb]
    constructor
    · intro ⟨⟨⟨h1, h2, h3⟩, h4⟩, h5, h6⟩; exact ⟨⟨⟨⟨h1, h2⟩, h4⟩, h5⟩, h3, h6⟩
    · intro ⟨⟨⟨⟨h1, h2⟩, h4⟩, h5⟩, h3, h6⟩; exact ⟨⟨⟨h1, h2, h3⟩, h4⟩, h5, h6⟩

/-- A history of merges succeeds exactly when every model is acceptable, none speaks for an element the initial combined
model has a delegation for, and no two of them speak for the same element. -/
theorem mergeAll_succeeds_iff : ∀ {as : List Adm} {c : Graph}, c.WF → (∀ a ∈ as, a.WF) →
    ((mergeAll c as).isSome = true ↔ Compat c as = true)
  | [], c, _, _ => by simp [mergeAll, Compat]
  | a :: as, c, hc, ha => by
    have hstep := mergeN_succeeds_iff hc.closed a
    unfold mergeAll
    split
    · rename_i g hm
      have hs := merge_step hc.closed hm
      have ih := mergeAll_succeeds_iff (as := as) (merge_WF hc (ha a (by simp)) hm) (fun b hb => ha b (by simp [hb]))
      have h1 : (mergeN c a).1 = none := by rw [hm]
      have h2 := hstep.mp h1
      rw [ih, Compat_merged hs]
      simp only [Compat, Bool.and_eq_true, Bool.not_eq_eq_eq_not, Bool.not_true]
      constructor
      · intro ⟨x, y⟩; exact ⟨⟨⟨h2.1, h2.2⟩, y⟩, x⟩
      · intro ⟨⟨_, y⟩, x⟩; exact ⟨x, y⟩
    · rename_i e g hm
      simp only [Option.isSome_none, Bool.false_eq_true, false_iff]
      intro hcomp
      simp only [Compat, Bool.and_eq_true, Bool.not_eq_eq_eq_not, Bool.not_true] at hcomp
      have := hstep.mpr ⟨hcomp.1.1.1, hcomp.1.1.2⟩
      rw [hm] at this
      cases this

theorem Compat_iff (c : Graph) : ∀ (as : List Adm), Compat c as = true ↔
    ((∀ a ∈ as, a.Mergeable = true ∧ clashG c a = false) ∧ as.Pairwise (fun a b => clash a b = false))
  | [] => by simp [Compat]
  | a :: as => by
    have ih := Compat_iff c as
    simp only [Compat, Bool.and_eq_true, Bool.not_eq_eq_eq_not, Bool.not_true, List.all_eq_true, ih,
      List.mem_cons, List.pairwise_cons, forall_eq_or_imp]
    constructor
    · intro ⟨⟨⟨h1, h2⟩, h3⟩, h4, h5⟩; exact ⟨⟨⟨h1, h2⟩, h4⟩, h3, h5⟩
    · intro ⟨⟨⟨h1, h2⟩, h4⟩, h3, h5⟩; exact ⟨⟨⟨h1, h2⟩, h3⟩, h4, h5⟩

theorem Compat_perm {c : Graph} {as as' : List Adm} (hp : as.Perm as') : Compat c as = Compat c as' := by
  rw [Bool.eq_iff_iff, Compat_iff, Compat_iff]
  rw [List.Perm.pairwise_iff (fun h => clash_symm h) hp]
  constructor
  · intro ⟨h1, h2⟩; exact ⟨fun a ha => h1 a (hp.mem_iff.mpr ha), h2⟩
  · intro ⟨h1, h2⟩; exact ⟨fun a ha => h1 a (hp.mem_iff.mp ha), h2⟩


/-! ### order of merging -/

theorem perm_length_le_one {α : Type} {l l' : List α} (hp : l.Perm l') (h : l.length ≤ 1) : l = l' := by
  match l, h with
  | [], _ => exact (hp.symm.eq_nil).symm
  | [x], _ => exact (List.perm_singleton.mp hp.symm).symm

theorem firstLive_eq_head (l : List Deleg) : firstLive l = ((l.filter Deleg.live).head?).getD .absent := by
  rw [List.head?_filter]; rfl

theorem firstLive_perm {l l' : List Deleg} (hp : l.Perm l') (h : (l.filter Deleg.live).length ≤ 1) :
    firstLive l = firstLive l' := by
  rw [firstLive_eq_head, firstLive_eq_head, perm_length_le_one (hp.filter _) h]

theorem firstSome_eq_head {β : Type} (f : Adm → Option β) : ∀ (as : List Adm), firstSome f as = (as.filterMap f).head?
  | [] => rfl
  | a :: as => by
    rw [firstSome, firstSome_eq_head f as, List.filterMap_cons]
    cases f a <;> simp

theorem firstSome_perm {β : Type} (f : Adm → Option β) {as as' : List Adm} (hp : as.Perm as')
    (h : (as.filter (fun a => (f a).isSome)).length ≤ 1) : firstSome f as = firstSome f as' := by
  rw [firstSome_eq_head, firstSome_eq_head]
  have : (as.filterMap f).length ≤ 1 := by
    have e : (as.filterMap f).length = (as.filter (fun a => (f a).isSome)).length := by
      clear hp h
      induction as with
      | nil => rfl
      | cons a as ih => rw [List.filterMap_cons, List.filter_cons]; cases f a <;> simp [ih]
    omega
  rw [perm_length_le_one (hp.filterMap f) this]

/-- among pairwise non-clashing models at most one speaks for an element -/
theorem atMostOne_speaksL {as : List Adm} (h : as.Pairwise (fun a b => clash a b = false)) (i : String) :
    ((as.map (speakL · i)).filter Deleg.live).length ≤ 1 := by
  induction as with
  | nil => simp
  | cons a as ih =>
    rw [List.pairwise_cons] at h
    have ih := ih h.2
    rw [List.map_cons, List.filter_cons]
    split
    · rename_i ha
      have : (as.map (speakL · i)).filter Deleg.live = [] := by
        apply List.filter_eq_nil_iff.mpr
        intro d hd
        obtain ⟨b, hb, rfl⟩ := List.mem_map.mp hd
        have := (clash_false_iff a b).mp (h.1 b hb) i
        unfold clashAt at this
        rw [ha] at this
        have := this
        simp only [Bool.true_and, Bool.or_eq_false_iff] at this
        simp [this.1]
      simp [this]
    · exact ih

theorem atMostOne_speaksC {as : List Adm} (h : as.Pairwise (fun a b => clash a b = false)) (i : String) :
    ((as.map (speakC · i)).filter Deleg.live).length ≤ 1 := by
  induction as with
  | nil => simp
  | cons a as ih =>
    rw [List.pairwise_cons] at h
    have ih := ih h.2
    rw [List.map_cons, List.filter_cons]
    split
    · rename_i ha
      have : (as.map (speakC · i)).filter Deleg.live = [] := by
        apply List.filter_eq_nil_iff.mpr
        intro d hd
        obtain ⟨b, hb, rfl⟩ := List.mem_map.mp hd
        have := (clash_false_iff a b).mp (h.1 b hb) i
        unfold clashAt at this
        rw [ha] at this
        simp only [Bool.true_and, Bool.or_eq_false_iff] at this
        simp [this.2]
      simp [this]
    · exact ih

/-- what two combined models have in common whatever the order their models were merged in -/
structure SameUpToFirstWins (c : Graph) (as : List Adm) (g g' : Graph) : Prop where
  has : ∀ i, g'.has i = g.has i
  hasEdge : ∀ x y, g'.hasEdge x y = g.hasEdge x y
  prov : ∀ i, (g'.provOf i).Perm (g.provOf i)
  ldel : ∀ i, g'.ldelOf i = g.ldelOf i
  cdel : ∀ i, g'.cdelOf i = g.cdelOf i
  /-- element data: equal unless the element is new to `c` and contributed by two or more of the models -/
  props : ∀ i, (c.has i = true ∨ (as.filter (fun a => a.g.has i)).length ≤ 1) → g'.propsOf i = g.propsOf i
  /-- connection data: equal unless the connection is new to `c` and contributed by two or more of the models -/
  edgeData : ∀ x y, (c.hasEdge x y = true ∨ (as.filter (fun a => a.g.hasEdge x y)).length ≤ 1) → g'.edgeData x y = g.edgeData x y

theorem mergeAll_perm {c : Graph} {as as' : List Adm} {g : Graph} (hc : c.WF) (hw : ∀ a ∈ as, a.WF) (hp : as.Perm as')
    (h : mergeAll c as = some g) : ∃ g', mergeAll c as' = some g' ∧ SameUpToFirstWins c as g g' := by
  have hw' : ∀ a ∈ as', a.WF := fun a ha => hw a (hp.mem_iff.mpr ha)
  have hcomp : Compat c as = true := (mergeAll_succeeds_iff hc hw).mp (by rw [h]; rfl)
  have hsome : (mergeAll c as').isSome = true := (mergeAll_succeeds_iff hc hw').mpr (by rw [← Compat_perm hp]; exact hcomp)
  obtain ⟨g', hg'⟩ := Option.isSome_iff_exists.mp hsome
  refine ⟨g', hg', ?_⟩
  have hpw := ((Compat_iff c as).mp hcomp).2
  obtain ⟨d1, d2, d3, d4, d5⟩ := mergeAll_data hc hw h
  obtain ⟨e1, e2, e3, e4, e5⟩ := mergeAll_data hc hw' hg'
  have o := mergeAll_obs hc hw h
  have o' := mergeAll_obs hc hw' hg'
  refine ⟨?_, ?_, ?_, ?_, ?_, ?_, ?_⟩
  · intro i; rw [(o i).2.1, (o' i).2.1, hp.any_eq]
  · intro x y; rw [d3, e3, hp.any_eq]
  · intro i
    rw [(o i).1, (o' i).1]
    exact List.Perm.append_left _ ((hp.symm.filter _).map _)
  · intro i
    rw [d4, e4, firstLive_perm (hp.map (speakL · i)) (atMostOne_speaksL hpw i)]
  · intro i
    rw [d5, e5, firstLive_perm (hp.map (speakC · i)) (atMostOne_speaksC hpw i)]
  · intro i hi
    rw [d1, e1]
    rcases hi with hi | hi
    · have : (c.propsOf i).isSome = true := by rw [propsOf_isSome]; exact hi
      cases hci : c.propsOf i with
      | none => rw [hci] at this; cases this
      | some p => rfl
    · rw [firstSome_perm (fun a => a.g.propsOf i) hp (by simpa [propsOf_isSome] using hi)]
  · intro x y hi
    rw [d2, e2]
    rcases hi with hi | hi
    · have : (c.edgeData x y).isSome = true := by rw [edgeData_isSome]; exact hi
      cases hci : c.edgeData x y with
      | none => rw [hci] at this; cases this
      | some p => rfl
    · rw [firstSome_perm (fun a => a.g.edgeData x y) hp (by simpa [edgeData_isSome] using hi)]

end FimVerif.Cbm
