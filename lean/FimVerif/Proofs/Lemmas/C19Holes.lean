import FimVerif.Proofs.Lemmas.C19Scan
/-!
Helper lemmas for C19 (identifier holes, part 3): RENDERING COMMUTES WITH FILLING THE HOLES of the environment
(`render_expandAll`, under the decidable side conditions `renderOK`), and the combination `checkStmt_all_identifiers`:
one evaluation of the lint on the template rendered with holes decides every identifier instantiation.
-/
namespace FimVerif.Cypher
set_option linter.unusedSimpArgs false
set_option linter.unusedVariables false

/-! ### rendering commutes with filling the holes of the environment -/
theorem expand_nil (ρ : Nat → Text) : expand ρ [] = [] := rfl

theorem expand_flatten (ρ : Nat → Text) (l : List Text) : expand ρ l.flatten = (l.map (expand ρ)).flatten := by
  induction l with
  | nil => rfl
  | cons a t ih => simp [expand_append, ih]

theorem get_expandPairs (ρ : Nat → Text) (l : List (Text × Text)) (x : Text) : get (expandPairs ρ l) x = expand ρ (get l x) := by
  unfold get expandPairs
  rw [List.find?_map]
  have : ((fun p : Text × Text => p.1 == x) ∘ fun p : Text × Text => (p.1, expand ρ p.2)) = (fun p : Text × Text => p.1 == x) := rfl
  rw [this]
  cases List.find? (fun p : Text × Text => p.1 == x) l <;> rfl

theorem has_expandAll (ρ : Nat → Text) (r : Row) (f : Text) : (r.expandAll ρ).has f = r.has f := by
  simp [Row.has, Row.expandAll, expandPairs, List.any_map, Function.comp_def]

theorem getMap_expandAll (ρ : Nat → Text) (e : Env) (m : Text) : getMap (e.expandAll ρ) m = (getMap e m).map (Row.expandAll ρ) := by
  unfold getMap Env.expandAll
  simp only [List.find?_map, Function.comp_def]
  cases List.find? (fun p : Text × List Row => p.1 == m) e.maps <;> simp

theorem emptyRow_expandAll (ρ : Nat → Text) : emptyRow.expandAll ρ = emptyRow := rfl

theorem Atom.render_expandAll (ρ : Nat → Text) (e : Env) (r : Row) (a : Atom) (ha : atomPlain a = true) :
    a.render (e.expandAll ρ) (r.expandAll ρ) = expand ρ (a.render e r) := by
  cases a with
  | lit s => exact (expand_plain ρ ha).symm
  | param x =>
    have hx : plain x = true := ha
    show cp%'$' :: x = expand ρ (cp%'$' :: x)
    rw [expand_char ρ (by decide), expand_plain ρ hx]
  | ident x => exact get_expandPairs ρ e.idents x
  | value x => exact get_expandPairs ρ e.values x
  | rowIdent f => exact get_expandPairs ρ r.idents f
  | rowValue f => exact get_expandPairs ρ r.values f

theorem renderAtoms_expandAll (ρ : Nat → Text) (e : Env) (r : Row) (as : List Atom) (ha : as.all atomPlain = true) :
    renderAtoms (e.expandAll ρ) (r.expandAll ρ) as = expand ρ (renderAtoms e r as) := by
  unfold renderAtoms
  rw [expand_flatten, List.map_map]
  congr 1
  apply List.map_congr_left
  intro a hmem
  exact Atom.render_expandAll ρ e r a (List.all_eq_true.mp ha a hmem)

theorem Inner.render_expandAll (ρ : Nat → Text) (e : Env) (r : Row) (i : Inner) (hi : innerPlain i = true) :
    i.render (e.expandAll ρ) (r.expandAll ρ) = expand ρ (i.render e r) := by
  cases i with
  | atom a => exact Atom.render_expandAll ρ e r a hi
  | opt fs body =>
    simp only [Inner.render]
    have hh : fs.all (r.expandAll ρ).has = fs.all r.has := by
      congr 1; funext f; exact has_expandAll ρ r f
    rw [hh]
    split
    · exact renderAtoms_expandAll ρ e r body hi
    · rfl

theorem renderInner_expandAll (ρ : Nat → Text) (e : Env) (r : Row) (body : List Inner) (hb : body.all innerPlain = true) :
    renderInner (e.expandAll ρ) (r.expandAll ρ) body = expand ρ (renderInner e r body) := by
  unfold renderInner
  rw [expand_flatten, List.map_map]
  congr 1
  apply List.map_congr_left
  intro i hmem
  exact Inner.render_expandAll ρ e r i (List.all_eq_true.mp hb i hmem)

theorem argRows_expandAll (ρ : Nat → Text) (e : Env) (src : MapSrc) :
    argRows (e.expandAll ρ) src = (argRows e src).map (Row.expandAll ρ) := by
  unfold argRows
  cases src.arg <;> simp [getMap_expandAll]

theorem plain_not_hole {x : Text} (hx : isRowHole x = true) : plain x = false := by
  match x, hx with
  | [c], hx =>
    simp only [isRowHole, Nat.ble_eq, markerBase, rowBase] at hx
    simp [plain, isMarker_iff]; omega

/-- the rows a loop iterates over: the dict literal's entries, then the caller's (whose keys are holes, never a reserved key) -/
theorem rows_expandAll {ρ : Nat → Text} (h : GoodSubst ρ) (e : Env) (src : MapSrc) (hk : keysOK e src = true) :
    rows (e.expandAll ρ) src = (rows e src).map (Row.expandAll ρ) := by
  unfold rows
  simp only [argRows_expandAll]
  simp only [keysOK, Bool.or_eq_true, Bool.and_eq_true, List.all_eq_true] at hk
  rcases hk with hemp | ⟨hfix, harg⟩
  · have : src.fixed = [] := by simpa using hemp
    simp only [this, List.map_nil, List.nil_append, List.any_nil, Bool.not_false]
    rw [List.filter_eq_self.mpr (fun _ _ => rfl), List.filter_eq_self.mpr (fun _ _ => rfl)]
  · -- no caller row has the key of a literal entry, before or after filling
    have hne : ∀ r ∈ argRows e src, ∀ kv ∈ src.fixed, (get r.idents t!"k" == kv.1) = false ∧
        (get (r.expandAll ρ).idents t!"k" == kv.1) = false := by
      intro r hr kv hkv
      have hh := harg r hr
      have ⟨⟨hp, hres⟩, _⟩ := hfix kv hkv
      constructor
      · apply beq_false_of_ne
        intro heq
        have := plain_not_hole hh
        rw [heq, hp] at this; cases this
      · apply beq_false_of_ne
        intro heq
        match hg : get r.idents t!"k", hh with
        | [c], hh =>
          simp only [isRowHole, Nat.ble_eq, markerBase, rowBase] at hh
          have hm : isMarker c = true := by rw [isMarker_iff]; omega
          have e1 : get (r.expandAll ρ).idents t!"k" = ρ (c - markerBase) := by
            show get (expandPairs ρ r.idents) t!"k" = _
            rw [get_expandPairs, hg]; simp [expand, hm]
          have := h.2 (c - markerBase) (by simp only [markerBase, rowBase]; omega)
          rw [← e1, heq, hres] at this; cases this
    have hfind : ∀ kv ∈ src.fixed, (argRows e src).find? (fun r => get r.idents t!"k" == kv.1) = none ∧
        ((argRows e src).map (Row.expandAll ρ)).find? (fun r => get r.idents t!"k" == kv.1) = none := by
      intro kv hkv
      constructor
      · rw [List.find?_eq_none]; intro r hr; simp [(hne r hr kv hkv).1]
      · rw [List.find?_eq_none]; intro r' hr'
        obtain ⟨r, hr, rfl⟩ := List.mem_map.mp hr'
        simp [(hne r hr kv hkv).2]
    have hfilt1 : (argRows e src).filter (fun r => !(src.fixed.any (fun kv => kv.1 == get r.idents t!"k"))) = argRows e src := by
      rw [List.filter_eq_self]; intro r hr
      simp only [Bool.not_eq_true', List.any_eq_false]
      intro kv hkv; have := (hne r hr kv hkv).1; rw [Bool.beq_comm, this]; simp
    have hfilt2 : ((argRows e src).map (Row.expandAll ρ)).filter (fun r => !(src.fixed.any (fun kv => kv.1 == get r.idents t!"k")))
        = (argRows e src).map (Row.expandAll ρ) := by
      rw [List.filter_eq_self]; intro r' hr'
      obtain ⟨r, hr, rfl⟩ := List.mem_map.mp hr'
      simp only [Bool.not_eq_true', List.any_eq_false]
      intro kv hkv; have := (hne r hr kv hkv).2; rw [Bool.beq_comm, this]; simp
    rw [hfilt1, hfilt2, List.map_append, List.map_map]
    congr 1
    apply List.map_congr_left
    intro kv hkv
    simp only [Function.comp_def]
    rw [(hfind kv hkv).1, (hfind kv hkv).2]
    have ⟨⟨hp, _⟩, hat⟩ := hfix kv hkv
    have := renderAtoms_expandAll ρ e emptyRow kv.2 (List.all_eq_true.mpr hat)
    rw [emptyRow_expandAll] at this
    simp [Row.expandAll, expandPairs, this, expand_plain ρ hp]



theorem joinSep_expand (ρ : Nat → Text) (sep : Text) (hs : plain sep = true) (items : List Text) :
    joinSep sep (items.map (expand ρ)) = expand ρ (joinSep sep items) := by
  induction items with
  | nil => rfl
  | cons x t ih =>
    cases t with
    | nil => rfl
    | cons y t' =>
      show expand ρ x ++ sep ++ joinSep sep ((y :: t').map (expand ρ)) = expand ρ (x ++ sep ++ joinSep sep (y :: t'))
      rw [ih, expand_append, expand_append, expand_plain ρ hs]

theorem expand_length_ge {ρ : Nat → Text} (h : IdSubst ρ) (s : Text) : s.length ≤ (expand ρ s).length := by
  induction s with
  | nil => simp
  | cons c t ih =>
    cases hm : isMarker c with
    | true =>
      obtain ⟨a, r, hr, _⟩ := h.start (c - markerBase)
      rw [expand_marker ρ hm, hr]; simp; omega
    | false => rw [expand_char ρ hm]; simp; omega

theorem finish_expand {ρ : Nat → Text} (h : IdSubst ρ) (mode : RepMode) (items : List Text) (hk : trimOK mode items = true) :
    finish mode (items.map (expand ρ)) = expand ρ (finish mode items) := by
  cases mode with
  | join sep => exact joinSep_expand ρ sep hk items
  | accTrim n d =>
    simp only [finish, ← expand_flatten]
    simp only [trimOK, Bool.or_eq_true, Bool.and_eq_true, Nat.blt_eq, Nat.ble_eq] at hk
    generalize items.flatten = s at hk ⊢
    rcases hk with he | ⟨⟨hn, hd⟩, hp⟩
    · have : s = [] := by simpa using he
      subst this; simp [expand]
    · have hge := expand_length_ge h s
      have hsplit : s = s.take (s.length - d) ++ s.drop (s.length - d) := (List.take_append_drop _ _).symm
      have hdl : (s.drop (s.length - d)).length = d := by simp; omega
      have hex : expand ρ s = expand ρ (s.take (s.length - d)) ++ s.drop (s.length - d) := by
        conv => lhs; rw [hsplit]
        rw [expand_append, expand_plain ρ hp]
      have h1 : (expand ρ s).length > n := by omega
      simp only [h1, hn, if_true]
      have hlen : (expand ρ s).length - d = (expand ρ (s.take (s.length - d))).length := by
        rw [hex]; simp [hdl]
      rw [hlen, hex, List.take_left']
      rfl

theorem Piece.render_expandAll {ρ : Nat → Text} (h : GoodSubst ρ) (e : Env) (p : Piece) (hp : pieceOK e p = true) :
    p.render (e.expandAll ρ) = expand ρ (p.render e) := by
  cases p with
  | atom a =>
    have := Atom.render_expandAll ρ e emptyRow a hp
    rw [emptyRow_expandAll] at this; exact this
  | rep src mode body =>
    simp only [pieceOK, Bool.and_eq_true] at hp
    simp only [Piece.render]
    rw [rows_expandAll h e src hp.1.2, List.map_map, ← finish_expand h.idSubst mode _ hp.2, List.map_map]
    congr 1
    apply List.map_congr_left
    intro r _
    exact renderInner_expandAll ρ e r body hp.1.1

/-- RENDERING COMMUTES WITH FILLING THE HOLES: the text of a template in the environment whose identifier holes are filled by `ρ` is
the text rendered with holes, filled by `ρ` -/
theorem render_expandAll {ρ : Nat → Text} (h : GoodSubst ρ) (e : Env) (t : List Piece) (hk : renderOK e t = true) :
    render (e.expandAll ρ) t = expand ρ (render e t) := by
  unfold render
  rw [expand_flatten, List.map_map]
  congr 1
  apply List.map_congr_left
  intro p hmem
  exact Piece.render_expandAll h e p (List.all_eq_true.mp hk p hmem)

/-- the branch conditions the model evaluates (emptiness of a mapping) do not depend on what fills the holes -/
theorem reachable_expandAll (ρ : Nat → Text) (op : Op) (e : Env) : op.reachable (e.expandAll ρ) = op.reachable e := by
  unfold Op.reachable
  congr 1
  funext g
  cases g <;> simp only [Guard.holds, Env.expandAll, List.find?_map, Function.comp_def] <;>
    cases List.find? (fun p : Text × List Row => p.1 == _) e.maps <;> simp

/-- ONE INSTANTIATION DECIDES ALL: if a template rendered with holes passes the lint and the decidable side conditions, it passes
the lint with the holes filled by any identifier-shaped non-keyword strings -/
theorem checkStmt_all_identifiers {ρ : Nat → Text} (h : GoodSubst ρ) (e : Env) (t : List Piece) (sup : List Text)
    (h1 : renderOK e t = true) (h2 : cleanFor (render e t) = true) (h3 : checkStmt (render e t) sup = true) :
    checkStmt (render (e.expandAll ρ) t) sup = true := by
  rw [render_expandAll h e t h1, checkStmt_expand h _ h2, h3]


/-- a template that iterates over no mapping does not look at the mappings of the environment -/
theorem render_noMaps (t : List Piece) (h : usesMaps t = false) (e e' : Env) (hi : e.idents = e'.idents) (hv : e.values = e'.values) :
    render e t = render e' t := by
  unfold render
  congr 1
  apply List.map_congr_left
  intro p hmem
  cases p with
  | atom a => cases a <;> simp [Piece.render, Atom.render, hi, hv]
  | rep src mode body =>
    have := List.any_eq_false.mp h _ hmem
    simp at this

theorem renderOK_noMaps (t : List Piece) (h : usesMaps t = false) (e e' : Env) : renderOK e t = renderOK e' t := by
  unfold renderOK
  induction t with
  | nil => rfl
  | cons p rest ih =>
    simp only [usesMaps, List.any_cons, Bool.or_eq_false_iff] at h
    simp only [List.all_cons]
    rw [ih (by simpa [usesMaps] using h.2)]
    cases p with
    | atom a => rfl
    | rep src mode body => simp at h

end FimVerif.Cypher
