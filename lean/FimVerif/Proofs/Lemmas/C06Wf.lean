import FimVerif.Proofs.Lemmas.C06Basic
namespace FimVerif.Query

theorem wf_empty : wf empty = true := by decide

theorem wf_addNode {g : TGraph} (hw : wf g = true) (i c : String) : wf (addNode g i c) = true := by
  unfold addNode
  split
  · exact hw
  · rename_i hi
    obtain ⟨h1, h2, h3⟩ := wf_iff.1 hw
    rw [wf_iff]
    refine ⟨?_, ?_, h3⟩
    · simp only [verts, List.map_append, List.map_cons, List.map_nil]
      rw [List.nodup_append]
      refine ⟨h1, by simp, ?_⟩
      intro a ha b hb
      simp at hb; subst hb
      intro h; subst h; exact hi ha
    · intro e he
      have := h2 e he
      simp only [verts, List.map_append, List.mem_append]
      exact ⟨Or.inl this.1, Or.inl this.2⟩

theorem joins_swap (e : EdgeT) (a b r : String) : joins (a, b, r) e.1 e.2.1 = joins e a b := by
  rw [Bool.eq_iff_iff, joins_iff, joins_iff]
  constructor <;> rintro (⟨h1, h2⟩ | ⟨h1, h2⟩) <;> simp_all

theorem joins_congr {x y : EdgeT} (h1 : x.1 = y.1) (h2 : x.2.1 = y.2.1) (u v : String) :
    joins x u v = joins y u v := by
  simp [joins, h1, h2]

theorem wf_addLink {g : TGraph} (hw : wf g = true) (a r b : String) : wf (addLink g a r b) = true := by
  unfold addLink
  obtain ⟨h1, h2, h3⟩ := wf_iff.1 hw
  split
  · rename_i hab
    split
    · rw [wf_iff]
      refine ⟨h1, ?_, ?_⟩
      · intro e he
        simp only [List.mem_map] at he
        obtain ⟨e', he', rfl⟩ := he
        have := h2 e' he'
        split <;> exact this
      · unfold UniqEdges
        simp only
        rw [List.pairwise_map]
        refine List.Pairwise.imp ?_ h3
        intro e f hef
        have he : ∀ x : EdgeT, (if joins x a b = true then (x.1, x.2.1, r) else x).1 = x.1 := by
          intro x; split <;> rfl
        have he2 : ∀ x : EdgeT, (if joins x a b = true then (x.1, x.2.1, r) else x).2.1 = x.2.1 := by
          intro x; split <;> rfl
        rw [he e, he2 e, joins_congr (he f) (he2 f)]
        exact hef
    · rename_i hany
      rw [wf_iff]
      refine ⟨h1, ?_, ?_⟩
      · intro e he
        simp only [List.mem_append, List.mem_singleton] at he
        rcases he with he | rfl
        · exact h2 e he
        · exact hab
      · unfold UniqEdges
        simp only
        rw [List.pairwise_append]
        refine ⟨h3, by simp, ?_⟩
        intro e he f hf
        simp at hf; subst hf
        rw [joins_swap]
        simp only [List.any_eq_true, not_exists, not_and, Bool.not_eq_true] at hany
        exact hany e he
  · exact hw

/-- every view built through `add_node` / `add_link` is well-formed -/
theorem wf_build (ops : List Op) : wf (build ops) = true := by
  unfold build
  suffices h : ∀ (ops : List Op) (g : TGraph), wf g = true → wf (ops.foldl apply g) = true from h ops empty wf_empty
  intro ops
  induction ops with
  | nil => intro g hg; exact hg
  | cons o t ih =>
    intro g hg
    apply ih
    cases o with
    | node i c => exact wf_addNode hg i c
    | link a r b => exact wf_addLink hg a r b

theorem classOf_iff_mem_aux : ∀ (l : List (String × String)), (l.map (·.1)).Nodup → ∀ (m c : String),
    ((l.find? (·.1 == m)).map (·.2) = some c ↔ (m, c) ∈ l)
  | [], _, m, c => by simp
  | (i, d) :: t, hnd, m, c => by
    simp only [List.map_cons, List.nodup_cons] at hnd
    have ih := classOf_iff_mem_aux t hnd.2 m c
    by_cases him : i = m
    · subst him
      simp only [List.find?_cons, beq_self_eq_true, Option.map_some, Option.some.injEq, List.mem_cons, Prod.mk.injEq, true_and]
      constructor
      · intro h; exact Or.inl h.symm
      · rintro (h | h)
        · exact h.symm
        · exact absurd (List.mem_map.2 ⟨(i, c), h, rfl⟩) hnd.1
    · have : ((i, d).1 == m) = false := by simpa using him
      simp only [List.find?_cons, this, List.mem_cons, Prod.mk.injEq]
      rw [ih]
      constructor
      · intro h; exact Or.inr h
      · rintro (h | h)
        · exact absurd h.1.symm him
        · exact h

/-- on a well-formed view the class lookup is membership in the node list -/
theorem classOf_iff_mem {g : TGraph} (hw : wf g = true) (m c : String) :
    classOf g m = some c ↔ (m, c) ∈ g.nodes :=
  classOf_iff_mem_aux g.nodes (wf_iff.1 hw).1 m c

/-! ### a second `add_link` between the same pair replaces the relation -/

theorem find_map_relink {a b s : String} : ∀ (l : List EdgeT), l.any (joins · a b) = true →
    ((l.map (fun e => if joins e a b then (e.1, e.2.1, s) else e)).find? (joins · a b)).map (·.2.2) = some s
  | [], h => by simp at h
  | e :: l, h => by
    by_cases he : joins e a b = true
    · have : joins (e.1, e.2.1, s) a b = true := by simpa [joins] using he
      simp [he, this]
    · have he' : joins e a b = false := by simpa using he
      have hl : l.any (joins · a b) = true := by simpa [he'] using h
      simp only [List.map_cons, he', Bool.false_eq_true, if_false, List.find?_cons]
      exact find_map_relink l hl

/-- `add_link` between two nodes that are already joined replaces the relation: afterwards the pair carries the new one -/
theorem relOf_addLink {g : TGraph} {a b : String} (ha : a ∈ verts g) (hb : b ∈ verts g) (s : String) :
    relOf (addLink g a s b) a b = some s := by
  unfold addLink relOf
  simp only [ha, hb, and_self, if_true]
  split
  · rename_i h
    exact find_map_relink g.edges h
  · rename_i h
    have hn : g.edges.find? (joins · a b) = none := by
      rw [List.find?_eq_none]
      intro e he hj
      exact h (List.any_eq_true.2 ⟨e, he, hj⟩)
    rw [List.find?_append, hn]
    simp [joins]

theorem classOf_addLink (g : TGraph) (a s b m : String) : classOf (addLink g a s b) m = classOf g m := by
  unfold addLink classOf
  split
  · split <;> rfl
  · rfl

theorem verts_addLink (g : TGraph) (a s b : String) : verts (addLink g a s b) = verts g := by
  unfold addLink verts
  split
  · split <;> rfl
  · rfl

end FimVerif.Query
