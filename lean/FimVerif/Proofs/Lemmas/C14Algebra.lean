import FimVerif.Proofs.Lemmas.C14Union
/-! # C14 lemmas: algebra of the observations (first-wins options, delegations, histories) -/
namespace FimVerif.Cbm

theorem propsOf_isSome (g : Graph) (i : String) : (g.propsOf i).isSome = g.has i := by
  rw [has_eq_isSome]; unfold Graph.propsOf; cases g.node? i <;> rfl

theorem edgeData_isSome (g : Graph) (x y : String) : (g.edgeData x y).isSome = g.hasEdge x y := by
  rw [← edge?_isSome]; unfold Graph.edgeData; cases g.edge? x y <;> rfl

/-- first-wins on three options commutes in the last two unless both are present and the first is not -/
theorem or_or_comm {α : Type} (pc pa pb : Option α) (h : pc.isSome = true ∨ ¬(pa.isSome = true ∧ pb.isSome = true)) :
    (pc.or pa).or pb = (pc.or pb).or pa := by
  cases pc <;> cases pa <;> cases pb <;> simp_all

theorem Deleg.take_comm (c ta tb : Deleg) (h1 : (c.live && ta.live) = false)
    (h2 : ((c.take ta).live && tb.live) = false) (h3 : (c.live && tb.live) = false)
    (_h4 : ((c.take tb).live && ta.live) = false) : (c.take ta).take tb = (c.take tb).take ta := by
  cases c <;> cases ta <;> cases tb <;> simp_all [Deleg.take, Deleg.live]

theorem Deleg.rk_eq_dict {d : Deleg} {aid : String} {l : List (String × String)} (h : d.rk aid = .dict l) :
    ∃ k v, d = .dict [(k, v)] ∧ l = [(aid, v)] := by
  cases d with
  | absent => cases h
  | emptied => cases h
  | dict m =>
    match m with
    | [] => cases h
    | [(k, v)] => exact ⟨k, v, rfl, by injection h with h; exact h.symm⟩
    | _ :: _ :: _ => cases h

theorem Deleg.take_eq_dict {c t : Deleg} {l : List (String × String)} (h : c.take t = .dict l) :
    c = .dict l ∨ (c.live = false ∧ t = .dict l) := by
  cases c <;> cases t <;> simp_all [Deleg.take, Deleg.live]

theorem Deleg.take_live {c t : Deleg} (h : c.live = true) : c.take t = c := by
  simp [Deleg.take, h]

theorem contributors_cons (a : Adm) (as : List Adm) (i : String) :
    contributors (a :: as) i = (if a.g.has i then [a.id] else []) ++ contributors as i := by
  unfold contributors
  by_cases h : a.g.has i = true <;> simp [h]

/-- all merges of a history succeeded: observations of the result from those of the start -/
theorem mergeAll_obs : ∀ {as : List Adm} {c g : Graph}, c.WF → (∀ a ∈ as, a.WF) → mergeAll c as = some g → ∀ i,
    g.provOf i = c.provOf i ++ contributors as i ∧
    g.has i = (c.has i || as.any (fun a => a.g.has i)) ∧
    (∀ l, g.ldelOf i = .dict l → c.ldelOf i = .dict l ∨
        ∃ a ∈ as, ∃ k d, a.g.ldelOf i = .dict [(k, d)] ∧ l = [(a.id, d)]) ∧
    (∀ l, g.cdelOf i = .dict l → c.cdelOf i = .dict l ∨
        ∃ a ∈ as, ∃ k d, a.g.cdelOf i = .dict [(k, d)] ∧ l = [(a.id, d)]) ∧
    (∀ l, c.ldelOf i = .dict l → g.ldelOf i = .dict l) ∧
    (∀ l, c.cdelOf i = .dict l → g.cdelOf i = .dict l)
  | [], c, g, _, _, h, i => by
    simp [mergeAll] at h; subst h
    simp [contributors]
  | a :: as, c, g, hc, ha, h, i => by
    unfold mergeAll at h
    split at h
    · rename_i g' hm
      have hs := merge_step hc.closed hm
      have ih := mergeAll_obs (merge_WF hc (ha a (by simp)) hm) (fun b hb => ha b (by simp [hb])) h i
      obtain ⟨ih1, ih2, ih3, ih4, ih5, ih6⟩ := ih
      refine ⟨?_, ?_, ?_, ?_, ?_, ?_⟩
      · rw [ih1, hs.prov, contributors_cons, List.append_assoc]
      · rw [ih2, hs.has, List.any_cons, Bool.or_assoc]
      · intro l hl
        rcases ih3 l hl with h' | ⟨b, hb, k, d, h1, h2⟩
        · rw [hs.ldel] at h'
          rcases Deleg.take_eq_dict h' with h'' | ⟨_, h''⟩
          · exact Or.inl h''
          · obtain ⟨k, v, e1, e2⟩ := Deleg.rk_eq_dict h''
            exact Or.inr ⟨a, by simp, k, v, e1, e2⟩
        · exact Or.inr ⟨b, by simp [hb], k, d, h1, h2⟩
      · intro l hl
        rcases ih4 l hl with h' | ⟨b, hb, k, d, h1, h2⟩
        · rw [hs.cdel] at h'
          rcases Deleg.take_eq_dict h' with h'' | ⟨_, h''⟩
          · exact Or.inl h''
          · obtain ⟨k, v, e1, e2⟩ := Deleg.rk_eq_dict h''
            exact Or.inr ⟨a, by simp, k, v, e1, e2⟩
        · exact Or.inr ⟨b, by simp [hb], k, d, h1, h2⟩
      · intro l hl
        apply ih5
        rw [hs.ldel, hl]
        exact Deleg.take_live rfl
      · intro l hl
        apply ih6
        rw [hs.cdel, hl]
        exact Deleg.take_live rfl
    · cases h

end FimVerif.Cbm
