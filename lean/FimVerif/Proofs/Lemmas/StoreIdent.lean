import FimVerif.Proofs.Lemmas.StoreFrameOps
/-! C05: identity properties survive every operation (`Evolves`). Core only. -/
namespace FimVerif.Store
open FimVerif FimVerif.Gen.StoreConsts

/-- what may happen to the property dictionary of a surviving node: the class stays, and no identity
    property (the generated `NO_UNSET_PROPERTIES`) disappears -/
def Rel (a a' : Props) : Prop :=
  AMap.get propClass a' = AMap.get propClass a ∧ ∀ k ∈ noUnset, AMap.has k a = true → AMap.has k a' = true

theorem Rel.refl (a : Props) : Rel a a := ⟨rfl, fun _ _ h => h⟩
theorem Rel.trans {a b c : Props} (h1 : Rel a b) (h2 : Rel b c) : Rel a c :=
  ⟨h2.1.trans h1.1, fun k hk h => h2.2 k hk (h1.2 k hk h)⟩

/-- every node of `s'` is either freshly allocated or a node of `s` whose dictionary evolved by `Rel` -/
def Evolves (s s' : Store) : Prop :=
  s.nextId ≤ s'.nextId ∧
  ∀ m ∈ s'.nodes, s.nextId ≤ m.iid ∨ ∃ n ∈ s.nodes, n.iid = m.iid ∧ Rel n.attrs m.attrs

theorem Evolves.refl (s : Store) : Evolves s s := ⟨Nat.le_refl _, fun m hm => Or.inr ⟨m, hm, rfl, Rel.refl _⟩⟩

theorem Evolves.trans {s s1 s2 : Store} (h1 : Evolves s s1) (h2 : Evolves s1 s2) : Evolves s s2 := by
  refine ⟨Nat.le_trans h1.1 h2.1, ?_⟩
  intro m hm
  rcases h2.2 m hm with h | ⟨n1, hn1, e1, r1⟩
  · exact Or.inl (Nat.le_trans h1.1 h)
  · rcases h1.2 n1 hn1 with h | ⟨n, hn, e, r⟩
    · exact Or.inl (by omega)
    · exact Or.inr ⟨n, hn, e.trans e1, r.trans r1⟩

theorem evolves_of_nodes_subset (s s' : Store) (hid : s'.nextId = s.nextId) (hsub : ∀ n ∈ s'.nodes, n ∈ s.nodes) : Evolves s s' :=
  ⟨by omega, fun m hm => Or.inr ⟨m, hsub m hm, rfl, Rel.refl _⟩⟩

theorem evolves_updNodes (s : Store) (c : SNode → Bool) (f : Props → Props)
    (hf : ∀ n ∈ s.nodes, c n = true → Rel n.attrs (f n.attrs)) :
    Evolves s { s with nodes := s.nodes.map (fun n => if c n then { n with attrs := f n.attrs } else n) } := by
  refine ⟨Nat.le_refl _, ?_⟩
  intro m hm
  obtain ⟨n, hn, rfl⟩ := List.mem_map.1 hm
  refine Or.inr ⟨n, hn, ?_, ?_⟩
  · by_cases h : c n <;> simp [h]
  · by_cases h : c n
    · simp only [h, if_true]; exact hf n hn h
    · simp only [h]; exact Rel.refl _

theorem evolves_updNode (s : Store) (i : Nat) (f : Props → Props)
    (hf : ∀ n ∈ s.nodes, n.iid = i → Rel n.attrs (f n.attrs)) : Evolves s (updNode i f s) := by
  have := evolves_updNodes s (fun n => decide (n.iid = i)) f (fun n hn hc => hf n hn (by simpa using hc))
  simpa [updNode] using this

theorem has_set (k k' : String) (v : Val) (a : Props) (h : AMap.has k' a = true) : AMap.has k' (AMap.set k v a) = true := by
  by_cases e : k' = k
  · subst e; simp [AMap.has, AMap.get_set_eq]
  · simpa [AMap.has, AMap.get_set_ne _ _ _ _ e] using h

theorem rel_set (k : String) (v : Val) (a : Props) (hk : k ≠ propClass) : Rel a (AMap.set k v a) :=
  ⟨AMap.get_set_ne _ _ _ _ (Ne.symm hk), fun k' _ h => has_set k k' v a h⟩

theorem rel_erase (k : String) (a : Props) (hk : k ≠ propClass) (hnu : k ∉ noUnset) : Rel a (AMap.erase k a) := by
  refine ⟨AMap.get_erase_ne _ _ _ (Ne.symm hk), ?_⟩
  intro k' hk' h
  have : k' ≠ k := fun e => hnu (e ▸ hk')
  simpa [AMap.has, AMap.get_erase_ne _ _ _ this] using h

theorem rel_update' (a p : Props) (hnk : propClass ∉ AMap.keys p) : Rel a (AMap.update a p) := by
  induction p generalizing a with
  | nil => exact Rel.refl _
  | cons x p ih =>
    simp only [AMap.keys, List.map_cons, List.mem_cons, not_or] at hnk
    rw [AMap.update_cons]
    exact Rel.trans (rel_set x.1 x.2 a (Ne.symm hnk.1)) (ih _ (by simpa [AMap.keys] using hnk.2))

theorem rel_update (a p : Props) (hp : AMap.has propClass p = false) : Rel a (AMap.update a p) :=
  rel_update' a p (AMap.not_mem_keys_of_has_false _ _ hp)

theorem has_update_of_has (a p : Props) (k : String) (h : AMap.has k a = true) : AMap.has k (AMap.update a p) = true := by
  induction p generalizing a with
  | nil => exact h
  | cons x p ih => rw [AMap.update_cons]; exact ih _ (has_set x.1 k x.2 a h)

theorem has_update_of_mem (a p : Props) (k : String) (h : k ∈ AMap.keys p) : AMap.has k (AMap.update a p) = true := by
  induction p generalizing a with
  | nil => simp [AMap.keys] at h
  | cons x p ih =>
    rw [AMap.update_cons]
    simp only [AMap.keys, List.map_cons, List.mem_cons] at h
    rcases h with h | h
    · apply has_update_of_has
      subst h; simp [AMap.has, AMap.get_set_eq]
    · exact ih _ (by simpa [AMap.keys] using h)

theorem nxLabel_eq : nxLabel = propClass := by decide

end FimVerif.Store
