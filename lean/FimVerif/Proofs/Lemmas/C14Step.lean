import FimVerif.Model.Cbm
/-!
# C14 lemmas: what one successful `merge` does, in terms of look-ups

Observations of a graph (`has`, `propsOf`, `provOf`, `ldelOf`, `cdelOf`, `hasEdge`, `edgeData`) and the
characterisation `merge_step` of a successful merge through them.  Everything else in C14 is algebra on top.
-/
namespace FimVerif.Cbm

/-! ### observations -/

def Graph.has (g : Graph) (i : String) : Bool := g.ids.contains i
def Graph.propsOf (g : Graph) (i : String) : Option Props := (g.node? i).map (·.props)
def Graph.provOf (g : Graph) (i : String) : List String := ((g.node? i).map (·.prov)).getD []
def Graph.ldelOf (g : Graph) (i : String) : Deleg := ((g.node? i).map (·.ldel)).getD .absent
def Graph.cdelOf (g : Graph) (i : String) : Deleg := ((g.node? i).map (·.cdel)).getD .absent
def Graph.edgeData (g : Graph) (x y : String) : Option Props := (g.edge? x y).map (·.props)

/-- every edge joins two nodes of the graph -/
def Graph.Closed (g : Graph) : Prop := ∀ e ∈ g.edges, e.a ∈ g.ids ∧ e.b ∈ g.ids
instance (g : Graph) : Decidable g.Closed := by unfold Graph.Closed; infer_instance

/-- total version of `Deleg.rekey` (what it returns when it does not raise) -/
def Deleg.rk (aid : String) : Deleg → Deleg
  | .dict [(_, d)] => .dict [(aid, d)]
  | _ => .absent

def stampT (aid : String) (n : Node) : Node :=
  { n with prov := [aid], ldel := n.ldel.rk aid, cdel := n.cdel.rk aid }

/-- the delegation property is something `rewrite_delegations` accepts -/
def Deleg.single : Deleg → Bool
  | .absent => true
  | .dict [_] => true
  | _ => false

theorem rekey_ok {aid : String} {d d' : Deleg} (h : d.rekey aid = .ok d') : d' = d.rk aid ∧ d.single = true := by
  cases d with
  | absent => simp [Deleg.rekey] at h; subst h; simp [Deleg.rk, Deleg.single]
  | emptied => simp [Deleg.rekey] at h
  | dict l =>
    match l with
    | [] => simp [Deleg.rekey] at h
    | [(k, v)] => simp [Deleg.rekey] at h; subst h; simp [Deleg.rk, Deleg.single]
    | _ :: _ :: _ => simp [Deleg.rekey] at h

theorem stampNode_ok {aid : String} {n n' : Node} (h : stampNode aid n = .ok n') :
    n' = stampT aid n ∧ n.ldel.single = true ∧ n.cdel.single = true := by
  unfold stampNode at h
  split at h
  · cases h
  · rename_i ld hld
    split at h
    · cases h
    · rename_i cd hcd
      have h1 := rekey_ok hld
      have h2 := rekey_ok hcd
      injection h with h
      subst h
      simp [stampT, h1.1, h2.1, h1.2, h2.2]

theorem stampAll_ok {aid : String} : ∀ {ns tn : List Node}, stampAll aid ns = .ok tn →
    tn = ns.map (stampT aid) ∧ ∀ n ∈ ns, n.ldel.single = true ∧ n.cdel.single = true
  | [], tn, h => by simp [stampAll] at h; subst h; simp
  | n :: rest, tn, h => by
    unfold stampAll at h
    split at h
    · cases h
    · rename_i n' hn
      split at h
      · cases h
      · rename_i l hl
        injection h with h
        subst h
        have h1 := stampNode_ok hn
        have h2 := stampAll_ok hl
        refine ⟨by simp [h1.1, h2.1], ?_⟩
        intro m hm
        cases hm with
        | head => exact h1.2
        | tail _ hm => exact h2.2 m hm

/-! ### look-ups in mapped / filtered node lists -/

theorem find_id_map (l : List Node) (f : Node → Node) (hf : ∀ n, (f n).id = n.id) (i : String) :
    (l.map f).find? (fun n => n.id == i) = (l.find? (fun n => n.id == i)).map f := by
  rw [List.find?_map]
  congr 1
  congr 1
  funext n
  simp [hf]

theorem node?_id {g : Graph} {i : String} {n : Node} (h : g.node? i = some n) : n.id = i := by
  have := List.find?_some h
  simpa using this

theorem node?_none_iff {g : Graph} {i : String} : g.node? i = none ↔ i ∉ g.ids := by
  unfold Graph.node? Graph.ids
  rw [List.find?_eq_none]
  simp only [List.mem_map, not_exists, not_and]
  constructor
  · intro h n hn he
    exact h n hn (by simp [he])
  · intro h n hn he
    exact h n hn (by simpa using he)

theorem node?_isSome_iff {g : Graph} {i : String} : (g.node? i).isSome = true ↔ i ∈ g.ids := by
  cases h : g.node? i with
  | none => simp [node?_none_iff.mp h]
  | some n =>
    simp
    exact Classical.byContradiction fun hc => by simp [node?_none_iff.mpr hc] at h

theorem has_iff {g : Graph} {i : String} : g.has i = true ↔ i ∈ g.ids := by
  simp [Graph.has]


/-! ### nodes of `mergeCore` -/

theorem mergeAt_id (t : Graph) (aid : String) (done : List String) (n : Node) : (mergeAt t aid done n).id = n.id := by
  unfold mergeAt
  split
  · split <;> simp [mergeNode]
  · rfl

theorem find_filter_notin (l : List Node) (ids : List String) (i : String) :
    (l.filter (fun tn => !ids.contains tn.id)).find? (fun n => n.id == i)
      = if ids.contains i then none else l.find? (fun n => n.id == i) := by
  induction l with
  | nil => simp
  | cons x xs ih =>
    by_cases hx : x.id = i <;> by_cases hc : x.id ∈ ids <;> by_cases hi : i ∈ ids <;>
      simp_all

theorem node?_mergeCore (c t : Graph) (aid : String) (done : List String) (i : String) :
    (mergeCore c t aid done true).node? i =
      match c.node? i with
      | some n => some (mergeAt t aid done n)
      | none => t.node? i := by
  unfold Graph.node? mergeCore
  simp only [if_true]
  rw [List.find?_append]
  rw [find_id_map c.nodes (mergeAt t aid done) (mergeAt_id t aid done) i, find_filter_notin]
  cases hc : c.nodes.find? (fun n => n.id == i) with
  | some n => simp
  | none =>
    have : i ∉ c.ids := node?_none_iff.mp hc
    simp [this]


/-! ### edges of `mergeCore` -/

theorem joins_swap (e : Edge) (x y : String) : e.joins x y = e.joins y x := by
  unfold Edge.joins
  exact Bool.or_comm _ _

theorem joins_of_joins {e f : Edge} {x y : String} (h : e.joins x y = true) : f.joins e.a e.b = f.joins x y := by
  unfold Edge.joins at h ⊢
  simp only [Bool.or_eq_true, Bool.and_eq_true, beq_iff_eq] at h
  rcases h with ⟨h1, h2⟩ | ⟨h1, h2⟩
  · rw [h1, h2]
  · rw [h1, h2]; exact Bool.or_comm _ _

theorem hasEdge_of_joins (c : Graph) {e : Edge} {x y : String} (h : e.joins x y = true) :
    c.hasEdge e.a e.b = c.hasEdge x y := by
  unfold Graph.hasEdge
  congr 1
  funext f
  exact joins_of_joins h

theorem hasEdge_swap (c : Graph) (x y : String) : c.hasEdge x y = c.hasEdge y x := by
  unfold Graph.hasEdge
  congr 1
  funext f
  exact joins_swap f x y

theorem edge?_isSome (g : Graph) (x y : String) : (g.edge? x y).isSome = g.hasEdge x y := by
  unfold Graph.edge? Graph.hasEdge
  induction g.edges with
  | nil => rfl
  | cons e es ih =>
    by_cases h : e.joins x y = true
    · simp [h]
    · simp only [Bool.not_eq_true] at h
      simp [h, ih]

theorem edge?_none_iff {g : Graph} {x y : String} : g.edge? x y = none ↔ g.hasEdge x y = false := by
  rw [← edge?_isSome]
  cases g.edge? x y <;> simp

theorem edge?_mergeCore (c t : Graph) (aid : String) (done : List String) (x y : String) :
    (mergeCore c t aid done true).edge? x y = (c.edge? x y).or (t.edge? x y) := by
  unfold Graph.edge? mergeCore
  simp only
  rw [List.find?_append, List.find?_filter]
  cases hc : c.edges.find? (fun e => e.joins x y) with
  | some e => simp
  | none =>
    have hn : c.hasEdge x y = false := edge?_none_iff.mp hc
    simp only [Option.none_or]
    congr 1
    funext e
    by_cases hj : e.joins x y = true
    · simp [hj, hasEdge_of_joins c hj, hn]
    · simp [hj]

theorem hasEdge_mergeCore (c t : Graph) (aid : String) (done : List String) (x y : String) :
    (mergeCore c t aid done true).hasEdge x y = (c.hasEdge x y || t.hasEdge x y) := by
  rw [← edge?_isSome, ← edge?_isSome, ← edge?_isSome, edge?_mergeCore]
  cases c.edge? x y <;> simp


/-! ### a successful merge -/

/-- the temporary clone of a merge that got past `rewrite_delegations` -/
def Adm.stamped (a : Adm) : Graph := ⟨a.g.nodes.map (stampT a.id), a.g.edges⟩

theorem stamped_node? (a : Adm) (i : String) : a.stamped.node? i = (a.g.node? i).map (stampT a.id) := by
  unfold Graph.node? Adm.stamped
  exact find_id_map a.g.nodes (stampT a.id) (fun _ => rfl) i

theorem stamped_ids (a : Adm) : a.stamped.ids = a.g.ids := by
  simp [Adm.stamped, Graph.ids, stampT, Function.comp_def]

theorem mergeCore_empty (c t : Graph) (aid : String) (done : List String) (hn : c.nodes = []) (hc : c.Closed) :
    mergeCore c t aid done true = t := by
  have he : c.edges = [] := by
    cases h : c.edges with
    | nil => rfl
    | cons e es =>
      have := (hc e (by simp [h])).1
      simp [Graph.ids, hn] at this
  cases t with
  | mk tn te => simp [mergeCore, hn, he, Graph.ids, Graph.hasEdge]

theorem merge_ok {c : Graph} {a : Adm} {g : Graph} (hc : c.Closed) (h : mergeN c a = (none, g)) :
    a.g.nodes ≠ [] ∧ (∀ n ∈ a.g.nodes, n.ldel.single = true ∧ n.cdel.single = true) ∧
    g = mergeCore c a.stamped a.id (common c a.g) true ∧
    (∀ i ∈ common c a.g, conflictAt c a.stamped i = false) := by
  unfold mergeN mergeOrdN at h
  split at h
  · cases h
  · rename_i hne
    split at h
    · cases h
    · rename_i tn hst
      have hs := stampAll_ok hst
      have htn : (⟨tn, a.g.edges⟩ : Graph) = a.stamped := by simp [Adm.stamped, hs.1]
      simp only [htn] at h
      refine ⟨by simpa using hne, hs.2, ?_⟩
      split at h
      · rename_i hce
        injection h with _ h
        subst h
        have hn : c.nodes = [] := by simpa using hce
        refine ⟨(mergeCore_empty c a.stamped a.id _ hn hc).symm, ?_⟩
        intro i hi
        simp [common, Graph.ids, hn] at hi
      · split at h
        · cases h
        · rename_i hfi
          injection h with _ h
          refine ⟨h.symm, ?_⟩
          intro i hi
          have := List.findIdx?_eq_none_iff.mp hfi i hi
          simpa using this


theorem mem_common {c : Graph} {a : Graph} {i : String} : i ∈ common c a ↔ i ∈ c.ids ∧ i ∈ a.ids := by
  simp [common]

/-- with `done` = all common ids, the loop body applies exactly when the clone has the node -/
theorem mergeAt_common (c : Graph) (a : Adm) {n : Node} (hn : n.id ∈ c.ids) :
    mergeAt a.stamped a.id (common c a.g) n =
      match a.stamped.node? n.id with
      | some tn => mergeNode a.id n tn
      | none => n := by
  unfold mergeAt
  cases ht : a.stamped.node? n.id with
  | none => simp
  | some tn =>
    have : n.id ∈ a.g.ids := by
      rw [← stamped_ids]
      exact node?_isSome_iff.mp (by simp [ht])
    have hm : n.id ∈ common c a.g := mem_common.mpr ⟨hn, this⟩
    simp [hm]

/-- the node of the merged graph, by cases on who has it -/
theorem node?_merged (c : Graph) (a : Adm) (i : String) :
    (mergeCore c a.stamped a.id (common c a.g) true).node? i =
      match c.node? i, a.g.node? i with
      | some n, some an => some (mergeNode a.id n (stampT a.id an))
      | some n, none => some n
      | none, some an => some (stampT a.id an)
      | none, none => none := by
  rw [node?_mergeCore]
  cases hc : c.node? i with
  | none => simp only [stamped_node?]; cases a.g.node? i <;> rfl
  | some n =>
    have hid : n.id = i := node?_id hc
    have hin : n.id ∈ c.ids := by rw [hid]; exact node?_isSome_iff.mp (by simp [hc])
    simp only [mergeAt_common c a hin, hid, stamped_node?]
    cases a.g.node? i <;> rfl

theorem Deleg.take_absent_rk (d : Deleg) (aid : String) : Deleg.absent.take (d.rk aid) = d.rk aid := by
  cases d with
  | absent => rfl
  | emptied => rfl
  | dict l =>
    match l with
    | [] => rfl
    | [(k, v)] => rfl
    | _ :: _ :: _ => rfl

theorem Deleg.rk_absent (aid : String) : Deleg.absent.rk aid = .absent := rfl

theorem Deleg.take_absent_right (d : Deleg) : d.take .absent = d := by
  cases d <;> rfl

/-- What a successful merge does, through the observations. -/
structure MergeStep (c : Graph) (a : Adm) (g : Graph) : Prop where
  nonempty : a.g.nodes ≠ []
  single : ∀ n ∈ a.g.nodes, n.ldel.single = true ∧ n.cdel.single = true
  has : ∀ i, g.has i = (c.has i || a.g.has i)
  props : ∀ i, g.propsOf i = (c.propsOf i).or (a.g.propsOf i)
  prov : ∀ i, g.provOf i = c.provOf i ++ (if a.g.has i then [a.id] else [])
  ldel : ∀ i, g.ldelOf i = (c.ldelOf i).take ((a.g.ldelOf i).rk a.id)
  cdel : ∀ i, g.cdelOf i = (c.cdelOf i).take ((a.g.cdelOf i).rk a.id)
  lnoconf : ∀ i, ((c.ldelOf i).live && ((a.g.ldelOf i).rk a.id).live) = false
  cnoconf : ∀ i, ((c.cdelOf i).live && ((a.g.cdelOf i).rk a.id).live) = false
  hasEdge : ∀ x y, g.hasEdge x y = (c.hasEdge x y || a.g.hasEdge x y)
  edgeData : ∀ x y, g.edgeData x y = (c.edgeData x y).or (a.g.edgeData x y)
  eq : g = mergeCore c a.stamped a.id (common c a.g) true

theorem has_eq_isSome (g : Graph) (i : String) : g.has i = (g.node? i).isSome := by
  cases h : (g.node? i).isSome with
  | true => exact has_iff.mpr (node?_isSome_iff.mp h)
  | false =>
    cases hh : g.has i with
    | false => rfl
    | true => rw [node?_isSome_iff.mpr (has_iff.mp hh)] at h; cases h

theorem noconf_of (c : Graph) (a : Adm) (hcf : ∀ i ∈ common c a.g, conflictAt c a.stamped i = false) (i : String) :
    ((c.ldelOf i).live && ((a.g.ldelOf i).rk a.id).live) = false ∧
    ((c.cdelOf i).live && ((a.g.cdelOf i).rk a.id).live) = false := by
  cases hc : c.node? i with
  | none => simp [Graph.ldelOf, Graph.cdelOf, hc, Deleg.live]
  | some n =>
    cases ha : a.g.node? i with
    | none => simp [Graph.ldelOf, Graph.cdelOf, ha, Deleg.live, Deleg.rk]
    | some an =>
      have h1 : i ∈ c.ids := node?_isSome_iff.mp (by simp [hc])
      have h2 : i ∈ a.g.ids := node?_isSome_iff.mp (by simp [ha])
      have := hcf i (mem_common.mpr ⟨h1, h2⟩)
      simp only [conflictAt, hc, stamped_node?, ha, Option.map_some, conflict, stampT, Bool.or_eq_false_iff] at this
      simpa [Graph.ldelOf, Graph.cdelOf, hc, ha] using this

theorem merge_step {c : Graph} {a : Adm} {g : Graph} (hc : c.Closed) (h : mergeN c a = (none, g)) :
    MergeStep c a g := by
  obtain ⟨hne, hsingle, hg, hcf⟩ := merge_ok hc h
  subst hg
  have hnode := node?_merged c a
  refine ⟨hne, hsingle, ?_, ?_, ?_, ?_, ?_, fun i => (noconf_of c a hcf i).1, fun i => (noconf_of c a hcf i).2, ?_, ?_, rfl⟩
  · intro i
    rw [has_eq_isSome, has_eq_isSome, has_eq_isSome, hnode]
    cases c.node? i <;> cases a.g.node? i <;> rfl
  · intro i
    simp only [Graph.propsOf, hnode]
    cases c.node? i <;> cases a.g.node? i <;> rfl
  · intro i
    rw [has_eq_isSome]
    simp only [Graph.provOf, hnode]
    cases c.node? i <;> cases a.g.node? i <;> simp [mergeNode, stampT]
  · intro i
    simp only [Graph.ldelOf, hnode]
    cases c.node? i <;> cases a.g.node? i <;>
      simp [mergeNode, stampT, Deleg.take_absent_rk, Deleg.take_absent_right, Deleg.rk_absent]
  · intro i
    simp only [Graph.cdelOf, hnode]
    cases c.node? i <;> cases a.g.node? i <;>
      simp [mergeNode, stampT, Deleg.take_absent_rk, Deleg.take_absent_right, Deleg.rk_absent]
  · intro x y
    rw [hasEdge_mergeCore]
    rfl
  · intro x y
    simp only [Graph.edgeData, edge?_mergeCore]
    have : a.stamped.edge? x y = a.g.edge? x y := rfl
    rw [this]
    cases c.edge? x y <;> cases a.g.edge? x y <;> rfl

end FimVerif.Cbm
