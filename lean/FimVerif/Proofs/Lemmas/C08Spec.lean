import FimVerif.Model.Remove
/-!
The declarative `owned` set of C08, written without reference to the removal code: reflexive-transitive
ownership below `x` along `has` / `connects`, plus the peering artefacts of every owned interface (the Link that
joins it to exactly one other connection point, and the ServicePort at the other end of that Link).
Computable (bounded closure over the finite graph) so that instances can be decided.
-/
namespace FimVerif.Remove

/-- a sub-interface: a connection point that hangs off another connection point, not off a network service -/
def isSub (g : G) (y : Nat) : Bool := (g.nbrs y .connects .ns).isEmpty

/-- what `x` directly owns -/
def children (g : G) (x : Nat) : List Nat :=
  match g.cls? x with
  | some .node => g.nbrs x .has .comp ++ g.nbrs x .has .ns
  | some .comp => g.nbrs x .has .ns
  | some .ns => g.nbrs x .connects .cp
  | some .cp => if isSub g x then [] else (g.nbrs x .connects .cp).filter (isSub g)
  | _ => []

def closure (g : G) : Nat → List Nat → List Nat
  | 0, xs => xs
  | n + 1, xs => closure g n (dedup (xs ++ xs.flatMap (children g)))

/-- `x` and everything it owns, transitively -/
def below (g : G) (x : Nat) : List Nat := closure g g.nodes.length [x]

/-- the peering artefacts of the interfaces in `C` -/
def artefacts (g : G) (C : List Nat) : List Nat :=
  C.flatMap (fun i =>
    if g.cls? i == some .cp then
      (g.nbrs i .connects .link).flatMap (fun l =>
        if (g.nbrs l .connects .cp).length == 2 then
          l :: (g.nbrs l .connects .cp).filter (fun p => p != i && g.kind? p == some kServicePort)
        else [])
    else [])

/-- **owned g x**: the element, everything it owns, and the peering artefacts created for its interfaces -/
def owned (g : G) (x : Nat) : List Nat :=
  if g.cls? x == some .link then
    x :: (g.nbrs x .connects .cp).filter (fun p => g.kind? p == some kServicePort)
  else dedup (below g x ++ artefacts g (below g x))

/-! ### The same, as relations (no fuel): what the theorems are stated against -/

/-- reflexive-transitive ownership below `x` -/
inductive Below (g : G) (x : Nat) : Nat → Prop
  | refl : Below g x x
  | step {a b : Nat} : Below g x a → b ∈ children g a → Below g x b

/-- `l` is the Link that joins interface `i` to exactly one other connection point -/
def LinkOf (g : G) (i l : Nat) : Prop :=
  g.cls? i = some .cp ∧ l ∈ g.nbrs i .connects .link ∧ (g.nbrs l .connects .cp).length = 2

/-- `p` is the ServicePort at the other end of that Link (the service-side port created by `connect_interface` / `peer`) -/
def PortOf (g : G) (i p : Nat) : Prop :=
  ∃ l, LinkOf g i l ∧ p ∈ g.nbrs l .connects .cp ∧ p ≠ i ∧ g.kind? p = some kServicePort

/-- the element, everything it owns, and the Links created for the peering of its interfaces: what the graph-layer
`remove_*` functions are to delete -/
def OwnedG (g : G) (x y : Nat) : Prop := ∃ i, Below g x i ∧ (y = i ∨ LinkOf g i y)

/-- **`owned g x`**: additionally the service-side ports: what the user-level calls are to delete -/
def Owned (g : G) (x y : Nat) : Prop := ∃ i, Below g x i ∧ (y = i ∨ LinkOf g i y ∨ PortOf g i y)

/-- same set -/
def sameSet (a b : List Nat) : Bool := a.all (fun x => b.contains x) && b.all (fun x => a.contains x)

end FimVerif.Remove
