import FimVerif.Model.Remove
/-!
The declarative `owned` set of C08, written without reference to the removal code: reflexive-transitive
ownership below `x` along `has` / `connects`, plus the peering artefacts of every owned interface (the Link that
joins it to exactly one other connection point, and the ServicePort at the other end of that Link).
Computable (bounded closure over the finite graph) so that instances can be decided.
-/
namespace FimVerif.Remove

/-- a sub-interface: a connection point that hangs off another connection point, not off a network service -/
def isSub (g : G) (y : Nat) : Bool := (g.nbrs y .connects .ns).isEmpty

/-- what `x` directly owns -/
def children (g : G) (x : Nat) : List Nat :=
  match g.cls? x with
  | some .node => g.nbrs x .has .comp ++ g.nbrs x .has .ns
  | some .comp => g.nbrs x .has .ns
  | some .ns => g.nbrs x .connects .cp
  | some .cp => if isSub g x then [] else (g.nbrs x .connects .cp).filter (isSub g)
  | _ => []

def closure (g : G) : Nat → List Nat → List Nat
  | 0, xs => xs
  | n + 1, xs => closure g n (dedup (xs ++ xs.flatMap (children g)))

/-- `x` and everything it owns, transitively -/
def below (g : G) (x : Nat) : List Nat := closure g g.nodes.length [x]

/-- the peering artefacts of the interfaces in `C` -/
def artefacts (g : G) (C : List Nat) : List Nat :=
  C.flatMap (fun i =>
    if g.cls? i == some .cp then
      (g.nbrs i .connects .link).flatMap (fun l =>
        if (g.nbrs l .connects .cp).length == 2 then
          l :: (g.nbrs l .connects .cp).filter (fun p => p != i && g.kind? p == some kServicePort)
        else [])
    else [])

/-- **owned g x**: the element, everything it owns, and the peering artefacts created for its interfaces -/
def owned (g : G) (x : Nat) : List Nat :=
  if g.cls? x == some .link then
    x :: (if (g.nbrs x .connects .cp).length == 2 then (g.nbrs x .connects .cp).filter (fun p => g.kind? p == some kServicePort) else [])
  else dedup (below g x ++ artefacts g (below g x))

/-- same set -/
def sameSet (a b : List Nat) : Bool := a.all (fun x => b.contains x) && b.all (fun x => a.contains x)

end FimVerif.Remove
