import FimVerif.Proofs.Lemmas.C14Step
/-! # C14 lemmas: list structure of a merged graph (ids once, one edge per pair), histories of merges -/
namespace FimVerif.Cbm

/-- at most one edge per unordered pair of node ids -/
def Graph.EdgesUnique (g : Graph) : Prop := g.edges.Pairwise (fun e f => f.joins e.a e.b = false)
instance (g : Graph) : Decidable g.EdgesUnique := by unfold Graph.EdgesUnique; infer_instance

theorem ids_mergeCore (c t : Graph) (aid : String) (done : List String) :
    (mergeCore c t aid done true).ids = c.ids ++ t.ids.filter (fun i => !c.ids.contains i) := by
  unfold Graph.ids mergeCore
  simp only [if_true, List.map_append, List.map_map]
  congr 1
  · apply List.map_congr_left
    intro n _
    exact mergeAt_id t aid done n
  · rw [List.filter_map]
    rfl

theorem nodup_mergeCore {c t : Graph} (aid : String) (done : List String) (hc : c.ids.Nodup) (ht : t.ids.Nodup) :
    (mergeCore c t aid done true).ids.Nodup := by
  rw [ids_mergeCore]
  refine List.nodup_append.mpr ⟨hc, List.Pairwise.filter _ ht, ?_⟩
  intro x hx y hy hxy
  subst hxy
  have := (List.mem_filter.mp hy).2
  simp [hx] at this

theorem joins_sym (e f : Edge) : f.joins e.a e.b = e.joins f.a f.b := by
  rw [Bool.eq_iff_iff]
  simp only [Edge.joins, Bool.or_eq_true, Bool.and_eq_true, beq_iff_eq]
  grind

theorem edgesUnique_mergeCore {c t : Graph} (aid : String) (done : List String) (hc : c.EdgesUnique) (ht : t.EdgesUnique) :
    (mergeCore c t aid done true).EdgesUnique := by
  unfold Graph.EdgesUnique mergeCore
  simp only
  refine List.pairwise_append.mpr ⟨hc, List.Pairwise.filter _ ht, ?_⟩
  intro e he f hf
  have hf2 : (!c.hasEdge f.a f.b) = true := by
    have := (List.mem_filter.mp hf).2
    simpa using this
  cases hj : f.joins e.a e.b with
  | false => rfl
  | true =>
    have : c.hasEdge f.a f.b = true := by
      unfold Graph.hasEdge
      exact List.any_eq_true.mpr ⟨e, he, by rw [← joins_sym]; exact hj⟩
    rw [this] at hf2
    cases hf2

theorem closed_mergeCore {c t : Graph} (aid : String) (done : List String) (hc : c.Closed) (ht : t.Closed) :
    (mergeCore c t aid done true).Closed := by
  intro e he
  rw [ids_mergeCore]
  have he' : e ∈ c.edges ∨ e ∈ t.edges := by
    simp only [mergeCore, List.mem_append, List.mem_filter] at he
    rcases he with h | h
    · exact Or.inl h
    · exact Or.inr h.1
  have key : ∀ i, (i ∈ c.ids ∨ i ∈ t.ids) → i ∈ c.ids ++ t.ids.filter (fun i => !c.ids.contains i) := by
    intro i hi
    by_cases h : i ∈ c.ids
    · exact List.mem_append.mpr (Or.inl h)
    · rcases hi with hi | hi
      · exact absurd hi h
      · exact List.mem_append.mpr (Or.inr (List.mem_filter.mpr ⟨hi, by simp [h]⟩))
  rcases he' with h | h
  · exact ⟨key _ (Or.inl (hc e h).1), key _ (Or.inl (hc e h).2)⟩
  · exact ⟨key _ (Or.inr (ht e h).1), key _ (Or.inr (ht e h).2)⟩

/-! ### histories of successful merges -/

def mergeAll (c : Graph) : List Adm → Option Graph
  | [] => some c
  | a :: as =>
    match mergeN c a with
    | (none, g) => mergeAll g as
    | (some _, _) => none

/-- graph ids of the models in `as` that contain node `i`, in merge order -/
def contributors (as : List Adm) (i : String) : List String :=
  (as.filter (fun a => a.g.has i)).map (·.id)

/-- a delegation model is well formed as a graph -/
structure Adm.WF (a : Adm) : Prop where
  nodup : a.g.ids.Nodup
  closed : a.g.Closed
  edges : a.g.EdgesUnique

structure Graph.WF (g : Graph) : Prop where
  nodup : g.ids.Nodup
  closed : g.Closed
  edges : g.EdgesUnique

theorem Graph.empty_WF : Graph.empty.WF :=
  ⟨by simp [Graph.empty, Graph.ids], by intro e he; simp [Graph.empty] at he, by simp [Graph.EdgesUnique, Graph.empty]⟩

theorem stamped_closed {a : Adm} (h : a.g.Closed) : a.stamped.Closed := by
  intro e he
  rw [stamped_ids]
  exact h e he

theorem merge_WF {c : Graph} {a : Adm} {g : Graph} (hc : c.WF) (ha : a.WF) (h : mergeN c a = (none, g)) : g.WF := by
  have hs := merge_step hc.closed h
  rw [hs.eq]
  exact ⟨nodup_mergeCore _ _ hc.nodup (by rw [stamped_ids]; exact ha.nodup),
         closed_mergeCore _ _ hc.closed (stamped_closed ha.closed),
         edgesUnique_mergeCore _ _ hc.edges ha.edges⟩

theorem mergeAll_WF : ∀ {as : List Adm} {c g : Graph}, c.WF → (∀ a ∈ as, a.WF) → mergeAll c as = some g → g.WF
  | [], c, g, hc, _, h => by simp [mergeAll] at h; subst h; exact hc
  | a :: as, c, g, hc, ha, h => by
    unfold mergeAll at h
    split at h
    · rename_i g' hm
      exact mergeAll_WF (merge_WF hc (ha a (by simp)) hm) (fun b hb => ha b (by simp [hb])) h
    · cases h

end FimVerif.Cbm
