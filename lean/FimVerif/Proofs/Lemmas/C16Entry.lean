import FimVerif.Model.Validate16
import FimVerif.Proofs.Lemmas.C16Regex
import FimVerif.Proofs.Lemmas.C16Domain
/-! Lemmas for the entry-point part of C16: `set_name` facts, histories of renames, derived names. -/
namespace FimVerif.V16
open FimVerif.Regex FimVerif.Gen.Validators FimVerif.Gen.EntryPoints

theorem setName_str (cls : String) (s : List Char) :
    setName cls (.str s) = match nameRe.lookup cls with
      | none => .error "unmodelled"
      | some r => if accepts nameAnchor r s then .ok s else .error "value" := by
  simp only [setName]; rfl

/-- whatever `set_name` accepts is the given string, and it is in the language of the class's NAME_REGEX -/
theorem setName_ok (hA : nameAnchor = .full) {cls : String} {v : Val} {s : List Char} (h : setName cls v = .ok s) :
    v = .str s ∧ ∀ r, nameRe.lookup cls = some r → r.L s := by
  cases v with
  | none => simp [setName, throw, throwThe, MonadExceptOf.throw] at h
  | other => simp [setName, throw, throwThe, MonadExceptOf.throw] at h
  | list xs => simp [setName, throw, throwThe, MonadExceptOf.throw] at h
  | str s' =>
    rw [setName_str] at h
    cases hl : nameRe.lookup cls with
    | none => simp [hl] at h
    | some r =>
      simp only [hl] at h
      by_cases hm : accepts nameAnchor r s' = true
      · simp only [hm, if_true, Except.ok.injEq] at h
        subst h
        refine ⟨rfl, fun r' hr' => ?_⟩
        cases hr'
        rw [hA] at hm
        exact accepts_full.mp hm
      · simp [hm] at h

theorem setName_of_L (hA : nameAnchor = .full) {cls : String} {r : Re} (hr : nameRe.lookup cls = some r) {s : List Char} (h : r.L s) :
    setName cls (.str s) = .ok s := by
  rw [setName_str, hr]
  have : accepts nameAnchor r s = true := by rw [hA]; exact accepts_full.mpr h
  simp [this]

theorem setName_str_cases (cls : String) (s : List Char) : setName cls (.str s) = .ok s ∨ ∃ e, setName cls (.str s) = .error e := by
  rw [setName_str]
  cases nameRe.lookup cls with
  | none => exact Or.inr ⟨_, rfl⟩
  | some r =>
    by_cases hm : accepts nameAnchor r s = true
    · left; simp [hm]
    · right; exact ⟨"value", by simp [hm]⟩

/-- one step keeps "the stored name is in the class's language" and "the class is fixed" -/
theorem stepElem_inv (hA : nameAnchor = .full) (e : Elem) (op : NameEntry × Val) (r : Re) (hr : nameRe.lookup e.cls = some r)
    (h : r.L e.name) : (stepElem e op).cls = e.cls ∧ r.L (stepElem e op).name := by
  unfold stepElem
  cases hs : setName e.cls op.2 with
  | error x => exact ⟨rfl, h⟩
  | ok s =>
    have hL := (setName_ok hA hs).2 r hr
    cases op.1 <;> exact ⟨rfl, hL⟩

theorem runElem_inv (hA : nameAnchor = .full) (ops : List (NameEntry × Val)) : ∀ (e : Elem) (r : Re), nameRe.lookup e.cls = some r →
    r.L e.name → (runElem e ops).cls = e.cls ∧ r.L (runElem e ops).name := by
  induction ops with
  | nil => intro e r _ h; exact ⟨rfl, h⟩
  | cons op t ih =>
    intro e r hr h
    obtain ⟨h1, h2⟩ := stepElem_inv hA e op r hr h
    have := ih (stepElem e op) r (by rw [h1]; exact hr) h2
    simp only [runElem, List.foldl] at this ⊢
    exact ⟨this.1.trans h1, this.2⟩

/-- a history of rename() / `name =` only: the element object answers with the stored name -/
theorem runElem_handle (ops : List (NameEntry × Val)) : ∀ (e : Elem), e.handle = e.name →
    (∀ op ∈ ops, op.1 = .rename ∨ op.1 = .assign) → (runElem e ops).handle = (runElem e ops).name := by
  induction ops with
  | nil => intro e h _; exact h
  | cons op t ih =>
    intro e h hall
    have hstep : (stepElem e op).handle = (stepElem e op).name := by
      unfold stepElem
      cases setName e.cls op.2 with
      | error x => exact h
      | ok s => rcases hall op (List.mem_cons_self ..) with h1 | h1 <;> simp [h1]
    simp only [runElem, List.foldl]
    exact ih _ hstep (fun o ho => hall o (List.mem_cons_of_mem _ ho))

/-! derived names -/

theorem checkDerived_ok_iff (parent name : List Char) : ∀ (ds : List Derived),
    checkDerived parent name ds = .ok () ↔
      ∀ d ∈ ds, setName d.cls (.str (derivedName parent name d)) = .ok (derivedName parent name d) := by
  intro ds
  induction ds with
  | nil => simp [checkDerived, pure, Except.pure]
  | cons d t ih =>
    simp only [checkDerived, List.mem_cons, forall_eq_or_imp]
    rcases setName_str_cases d.cls (derivedName parent name d) with h | ⟨e, h⟩
    · rw [h]; simp only [true_and]; exact ih
    · rw [h]; simp

theorem createNamed_ok_iff (own kind variant : String) (parent s : List Char) :
    createNamed own kind variant parent (.str s) = .ok s ↔
      setName own (.str s) = .ok s ∧
      ∀ d ∈ derivedFor kind variant, setName d.cls (.str (derivedName parent s d)) = .ok (derivedName parent s d) := by
  unfold createNamed
  rcases setName_str_cases own s with h | ⟨e, h⟩
  · rw [h]
    simp only [true_and]
    rw [← checkDerived_ok_iff]
    cases checkDerived parent s (derivedFor kind variant) with
    | error e => simp
    | ok u => simp [pure, Except.pure]
  · rw [h]; simp

/-- the classes as character sets -/
def nodeCh (c : Char) : Bool := isWord c || c.toNat == 45 || c.toNat == 46
def nsCh (c : Char) : Bool := isWord c || c.toNat == 45 || c.toNat == 95 || c.toNat == 46
def compCh (c : Char) : Bool := isWord c || c.toNat == 45 || c.toNat == 95 || c.toNat == 46 || c.toNat == 32
def ifCh (c : Char) : Bool :=
  isWord c || c.toNat == 45 || c.toNat == 43 || c.toNat == 95 || c.toNat == 47 || c.toNat == 46 || c.toNat == 32 || c.toNat == 58

theorem node_L (s : List Char) : nameRe_NodeSliver.L s ↔ 2 ≤ s.length ∧ s.length ≤ 255 ∧ ∀ c ∈ s, nodeCh c = true := L_rep_chr _ 2 255 s
theorem ns_L (s : List Char) : nameRe_NetworkServiceSliver.L s ↔ 2 ≤ s.length ∧ s.length ≤ 255 ∧ ∀ c ∈ s, nsCh c = true := L_rep_chr _ 2 255 s
theorem comp_L (s : List Char) : nameRe_ComponentSliver.L s ↔ 2 ≤ s.length ∧ s.length ≤ 255 ∧ ∀ c ∈ s, compCh c = true := L_rep_chr _ 2 255 s
theorem if_L (s : List Char) : nameRe_InterfaceSliver.L s ↔ 1 ≤ s.length ∧ s.length ≤ 255 ∧ ∀ c ∈ s, ifCh c = true := L_rep_chr _ 1 255 s

theorem nodeCh_nsCh {c : Char} (h : nodeCh c = true) : nsCh c = true := by
  simp only [nodeCh, nsCh, Bool.or_eq_true] at h ⊢; rcases h with (h | h) | h <;> simp [h]

theorem nodeCh_ifCh {c : Char} (h : nodeCh c = true) : ifCh c = true := by
  simp only [nodeCh, ifCh, Bool.or_eq_true] at h ⊢; rcases h with (h | h) | h <;> simp [h]

theorem compCh_ifCh {c : Char} (h : compCh c = true) : ifCh c = true := by
  simp only [compCh, ifCh, Bool.or_eq_true] at h ⊢; rcases h with (((h | h) | h) | h) | h <;> simp [h]

theorem space_not_word : isWord ' ' = false := by decide

/-- among the component-name characters, the service-name characters are exactly those that are not a space -/
theorem compCh_nsCh {c : Char} (h : compCh c = true) : nsCh c = true ↔ c ≠ ' ' := by
  constructor
  · intro hn hc
    subst hc
    revert hn
    decide
  · intro hc
    simp only [compCh, nsCh, Bool.or_eq_true] at h ⊢
    rcases h with h | h
    · exact h
    · exfalso
      apply hc
      have h32 : c.toNat = 32 := by simpa using h
      have : c = Char.ofNat c.toNat := (Char.ofNat_toNat c).symm
      rw [this, h32]

end FimVerif.V16
