import FimVerif.Model.Authz
/-!
Helper lemmas for C11: the association-list dictionary (`get`/`upd`), the per-key "view" of each collecting step
(every step rewrites the list of each key as a function of that key's old list only), fold characterisations,
and `dedup` (append-if-absent fold) facts.
-/
namespace FimVerif.Authz
open FimVerif.Gen.Authz

/-! ### dictionary -/

theorem get_upd (a : Attrs) (k k' : Key) (f : List Val → List Val) :
    get (upd a k f) k' = if k' = k then f (get a k) else get a k' := by
  induction a with
  | nil => simp only [upd, get]; split <;> simp_all [eq_comm]
  | cons p r ih =>
    obtain ⟨k0, v⟩ := p
    simp only [upd]
    by_cases h0 : k0 = k
    · subst h0; simp only [if_true, get]
      by_cases h1 : k0 = k'
      · subst h1; simp
      · simp [h1, Ne.symm h1]
    · simp only [h0, if_false, get]
      by_cases h1 : k0 = k'
      · subst h1; simp [h0]
      · simp only [h1, if_false, ih]

theorem keys_upd (a : Attrs) (k : Key) (f : List Val → List Val) :
    keys (upd a k f) = if k ∈ keys a then keys a else keys a ++ [k] := by
  induction a with
  | nil => simp [upd, keys]
  | cons p r ih =>
    obtain ⟨k0, v⟩ := p
    simp only [upd]
    by_cases h0 : k0 = k
    · subst h0; simp [keys]
    · have ih' : List.map (·.1) (upd r k f) = if k ∈ List.map (·.1) r then List.map (·.1) r else List.map (·.1) r ++ [k] := ih
      simp only [h0, if_false, keys, List.map_cons, List.mem_cons, ih']
      have : ¬ k = k0 := fun h => h0 h.symm
      simp only [this, false_or]
      split <;> simp

theorem keys_nodup_upd (a : Attrs) (k : Key) (f : List Val → List Val) (h : (keys a).Nodup) : (keys (upd a k f)).Nodup := by
  rw [keys_upd]; split
  · exact h
  · rename_i hk
    rw [List.nodup_append]
    refine ⟨h, by simp, ?_⟩
    intro x hx y hy; simp at hy; subst hy; intro e; subst e; exact hk hx

/-- no key maps to the empty list (the collectors never leave an empty attribute behind) -/
def NoEmpty (a : Attrs) : Prop := ∀ p ∈ a, p.2 ≠ []

theorem noEmpty_upd (a : Attrs) (k : Key) (f : List Val → List Val) (hf : ∀ l, f l ≠ []) (h : NoEmpty a) : NoEmpty (upd a k f) := by
  induction a with
  | nil => intro p hp; simp [upd] at hp; subst hp; exact hf _
  | cons p r ih =>
    obtain ⟨k0, v⟩ := p
    simp only [upd]
    have hr : NoEmpty r := fun q hq => h q (List.mem_cons_of_mem _ hq)
    split
    · intro q hq; simp at hq; rcases hq with rfl | hq
      · exact hf _
      · exact hr q hq
    · intro q hq; simp at hq; rcases hq with rfl | hq
      · exact h (k0, v) (by simp)
      · exact ih hr q hq

theorem mem_keys_iff (a : Attrs) (h : NoEmpty a) (k : Key) : k ∈ keys a ↔ get a k ≠ [] := by
  induction a with
  | nil => simp [keys, get]
  | cons p r ih =>
    obtain ⟨k0, v⟩ := p
    have hr : NoEmpty r := fun q hq => h q (List.mem_cons_of_mem _ hq)
    have hv : v ≠ [] := h (k0, v) (by simp)
    have ih' : k ∈ List.map (·.1) r ↔ get r k ≠ [] := ih hr
    simp only [keys, List.map_cons, List.mem_cons, get]
    by_cases h0 : k0 = k
    · subst h0; simp [hv]
    · have : ¬ k = k0 := fun e => h0 e.symm
      simp only [h0, if_false, this, false_or]; exact ih'

theorem mem_of_mem_attrs (a : Attrs) (hn : (keys a).Nodup) (k : Key) (v : List Val) (h : (k, v) ∈ a) : get a k = v := by
  induction a with
  | nil => simp at h
  | cons p r ih =>
    obtain ⟨k0, v0⟩ := p
    simp only [keys, List.map_cons, List.nodup_cons] at hn
    simp only [List.mem_cons, Prod.mk.injEq] at h
    simp only [get]
    rcases h with ⟨rfl, rfl⟩ | h
    · simp
    · have : k0 ≠ k := by
        intro e; subst e; exact hn.1 (List.mem_map_of_mem (f := (·.1)) h)
      simp only [this, if_false]; exact ih hn.2 h

/-! ### append-if-absent -/

/-- `if v not in l: l.append(v)` -/
def ins (l : List Val) (v : Val) : List Val := if v ∈ l then l else l ++ [v]

theorem ins_ne_nil (l : List Val) (v : Val) : ins l v ≠ [] := by
  unfold ins; split
  · rename_i h; intro e; rw [e] at h; simp at h
  · simp

theorem addIfAbsent_eq_upd (a : Attrs) (k : Key) (v : Val) : addIfAbsent a k v = upd a k (fun l => ins l v) := by
  unfold addIfAbsent
  simp only [get_upd, if_true, id]
  induction a with
  | nil => simp [upd, get, ins]
  | cons p r ih =>
    obtain ⟨k0, v0⟩ := p
    by_cases h0 : k0 = k
    · subst h0; simp only [upd, if_true, get, id, ins]; split <;> rfl
    · simp only [upd, h0, if_false, get]
      split
      · rename_i hm; rw [if_pos hm] at ih; rw [ih]
      · rename_i hm; rw [if_neg hm] at ih; rw [ih]

theorem get_addIfAbsent (a : Attrs) (k k' : Key) (v : Val) :
    get (addIfAbsent a k v) k' = if k' = k then ins (get a k) v else get a k' := by
  rw [addIfAbsent_eq_upd, get_upd]

/-- first occurrences, in order: the list an append-if-absent loop builds from `l0` -/
def insAll (l0 : List Val) (xs : List Val) : List Val := xs.foldl ins l0

def dedup (xs : List Val) : List Val := insAll [] xs

theorem mem_ins (l : List Val) (v x : Val) : x ∈ ins l v ↔ x ∈ l ∨ x = v := by
  unfold ins; split
  · rename_i h; constructor
    · exact Or.inl
    · rintro (h' | rfl) <;> assumption
  · simp

theorem nodup_ins (l : List Val) (v : Val) (h : l.Nodup) : (ins l v).Nodup := by
  unfold ins; split
  · exact h
  · rename_i hv
    rw [List.nodup_append]; refine ⟨h, by simp, ?_⟩
    intro a ha b hb; simp at hb; subst hb; intro e; subst e; exact hv ha

theorem mem_insAll (l0 xs : List Val) (x : Val) : x ∈ insAll l0 xs ↔ x ∈ l0 ∨ x ∈ xs := by
  induction xs generalizing l0 with
  | nil => simp [insAll]
  | cons y ys ih =>
    have : insAll l0 (y :: ys) = insAll (ins l0 y) ys := rfl
    rw [this, ih, mem_ins]; simp only [List.mem_cons]
    constructor
    · rintro ((h | h) | h) <;> simp [h]
    · rintro (h | h | h) <;> simp [h]

theorem nodup_insAll (l0 xs : List Val) (h : l0.Nodup) : (insAll l0 xs).Nodup := by
  induction xs generalizing l0 with
  | nil => exact h
  | cons y ys ih => exact ih (ins l0 y) (nodup_ins l0 y h)

theorem mem_dedup (xs : List Val) (x : Val) : x ∈ dedup xs ↔ x ∈ xs := by
  simp [dedup, mem_insAll]

theorem nodup_dedup (xs : List Val) : (dedup xs).Nodup := nodup_insAll [] xs List.nodup_nil

theorem dedup_perm {xs ys : List Val} (h : xs.Perm ys) : (dedup xs).Perm (dedup ys) := by
  rw [List.perm_ext_iff_of_nodup (nodup_dedup xs) (nodup_dedup ys)]
  intro a; rw [mem_dedup, mem_dedup]; exact h.mem_iff

theorem insAll_append (l0 xs ys : List Val) : insAll l0 (xs ++ ys) = insAll (insAll l0 xs) ys := by
  simp [insAll, List.foldl_append]

/-! ### folds of per-key views -/

/-- if a step rewrites each key's list as a function of that key's old list, so does the fold -/
theorem get_foldl {α : Type} (step : Attrs → α → Attrs) (view : α → Key → List Val → List Val)
    (h : ∀ a x k, get (step a x) k = view x k (get a k)) (xs : List α) (a : Attrs) (k : Key) :
    get (xs.foldl step a) k = xs.foldl (fun l x => view x k l) (get a k) := by
  induction xs generalizing a with
  | nil => rfl
  | cons x xs ih => simp only [List.foldl_cons]; rw [ih, h]

theorem foldl_app {α : Type} (c : α → List Val) (xs : List α) (l0 : List Val) :
    xs.foldl (fun l x => l ++ c x) l0 = l0 ++ xs.flatMap c := by
  induction xs generalizing l0 with
  | nil => simp
  | cons x xs ih => simp [List.foldl_cons, ih, List.append_assoc]

theorem foldl_insAll {α : Type} (c : α → List Val) (xs : List α) (l0 : List Val) :
    xs.foldl (fun l x => insAll l (c x)) l0 = insAll l0 (xs.flatMap c) := by
  induction xs generalizing l0 with
  | nil => simp [insAll]
  | cons x xs ih => simp [List.foldl_cons, ih, insAll_append]

theorem foldl_id {α : Type} (xs : List α) (l0 : List Val) : xs.foldl (fun l _ => l) l0 = l0 := by
  induction xs generalizing l0 with
  | nil => rfl
  | cons x xs ih => simp [List.foldl_cons, ih]

theorem foldl_congr_fun {α β : Type} (f g : β → α → β) (h : ∀ b x, f b x = g b x) (xs : List α) (b : β) :
    xs.foldl f b = xs.foldl g b := by
  have : f = g := by funext b x; exact h b x
  rw [this]

/-! ### invariants carried by every collecting step: unique keys, no empty attribute -/

def Good (a : Attrs) : Prop := (keys a).Nodup ∧ NoEmpty a

theorem good_upd (a : Attrs) (k : Key) (f : List Val → List Val) (hf : ∀ l, f l ≠ []) (h : Good a) : Good (upd a k f) :=
  ⟨keys_nodup_upd a k f h.1, noEmpty_upd a k f hf h.2⟩

theorem good_addIfAbsent (a : Attrs) (k : Key) (v : Val) (h : Good a) : Good (addIfAbsent a k v) := by
  rw [addIfAbsent_eq_upd]; exact good_upd a k _ (fun l => ins_ne_nil l v) h

theorem good_foldl {α : Type} (step : Attrs → α → Attrs) (h : ∀ a x, Good a → Good (step a x)) (xs : List α) (a : Attrs)
    (ha : Good a) : Good (xs.foldl step a) := by
  induction xs generalizing a with
  | nil => exact ha
  | cons x xs ih => exact ih (step a x) (h a x ha)

theorem app_ne_nil (v : Val) : ∀ l : List Val, l ++ [v] ≠ [] := by intro l; simp

/-! ### the steps, key by key -/

theorem get_compFold (cs : List String) (a : Attrs) (k : Key) :
    get (cs.foldl (fun a c => upd a .RESOURCE_COMPONENT (· ++ [.s c])) a) k
      = if k = .RESOURCE_COMPONENT then get a k ++ cs.map Val.s else get a k := by
  induction cs generalizing a with
  | nil => simp
  | cons c cs ih =>
    simp only [List.foldl_cons, ih, get_upd]
    split
    · rename_i h; subst h; simp
    · rfl

/-- what `_collect_attributes_from_node_sliver` does to the list of key `k` -/
def nodeView (n : NodeS) (k : Key) (l : List Val) : List Val :=
  let l := if k = .RESOURCE_TYPE ∧ n.ntype = switchNodeType then [.s switchType] else l
  let l := match n.caps with
    | some c => if k = .RESOURCE_CPU then l ++ [.i c.core] else if k = .RESOURCE_RAM then l ++ [.i c.ram]
                else if k = .RESOURCE_DISK then l ++ [.i c.disk] else l
    | none => l
  let l := if k = .RESOURCE_SITE ∧ n.site ≠ "" then ins l (.s n.site) else l
  if k = .RESOURCE_COMPONENT then l ++ (n.comps.getD []).map Val.s else l

theorem get_nodeStep (a : Attrs) (n : NodeS) (k : Key) : get (nodeStep a n) k = nodeView n k (get a k) := by
  unfold nodeStep compsStep siteStep capsStep typeStep nodeView
  cases hc : n.comps <;> cases hcap : n.caps <;> by_cases ht : n.ntype = switchNodeType <;> by_cases hs : n.site = "" <;>
    cases k <;> simp [get_upd, get_addIfAbsent, get_compFold, ht, hs]

theorem good_typeStep (a : Attrs) (n : NodeS) (h : Good a) : Good (typeStep a n) := by
  unfold typeStep; split
  · exact good_upd _ _ _ (by intro l; simp) h
  · exact h

theorem good_capsStep (a : Attrs) (n : NodeS) (h : Good a) : Good (capsStep a n) := by
  unfold capsStep; split
  · exact good_upd _ _ _ (app_ne_nil _) (good_upd _ _ _ (app_ne_nil _) (good_upd _ _ _ (app_ne_nil _) h))
  · exact h

theorem good_siteStep (a : Attrs) (site : String) (h : Good a) : Good (siteStep a site) := by
  unfold siteStep; split
  · exact good_addIfAbsent _ _ _ h
  · exact h

theorem good_compsStep (a : Attrs) (n : NodeS) (h : Good a) : Good (compsStep a n) := by
  unfold compsStep; split
  · exact good_foldl _ (fun a c ha => good_upd _ _ _ (app_ne_nil _) ha) _ _ h
  · exact h

theorem good_nodeStep (a : Attrs) (n : NodeS) (h : Good a) : Good (nodeStep a n) :=
  good_compsStep _ _ (good_siteStep _ _ (good_capsStep _ _ (good_typeStep _ _ h)))

/-- the site attribute a service is listed under, if any: its type's NSTYPE_LUT entry unless exempt -/
def listedUnder (P : List (Option String)) (s : SvcS) (k : Key) : Prop :=
  lutFind s.stype nstypeLut = some k ∧ ¬ exempt P s

instance (P : List (Option String)) (s : SvcS) (k : Key) : Decidable (listedUnder P s k) := by
  unfold listedUnder; exact inferInstance

/-- what `_collect_attributes_from_ns_sliver` does to the list of key `k` -/
def svcView (P : List (Option String)) (s : SvcS) (k : Key) (l : List Val) : List Val :=
  let l := match s.bw with
    | some b => if k = .RESOURCE_BW then l ++ [.i b] else l
    | none => l
  let l := if k = .RESOURCE_SITE ∧ s.site ≠ "" then ins l (.s s.site) else l
  if listedUnder P s k then ins l (.s (effSite s)) else l

theorem get_bwStep (a : Attrs) (s : SvcS) (k : Key) :
    get (bwStep a s) k = match s.bw with
      | some b => if k = .RESOURCE_BW then get a k ++ [.i b] else get a k
      | none => get a k := by
  unfold bwStep
  cases s.bw with
  | none => rfl
  | some b =>
    simp only [get_upd]
    split
    · rename_i h; subst h; rfl
    · rfl

theorem get_siteStep (a : Attrs) (site : String) (k : Key) :
    get (siteStep a site) k = if k = .RESOURCE_SITE ∧ site ≠ "" then ins (get a k) (.s site) else get a k := by
  unfold siteStep; split
  · rename_i h; rw [get_addIfAbsent]; split
    · rename_i hk; subst hk; simp [h]
    · rename_i hk; simp [hk]
  · rename_i h; simp [h]

theorem get_listStep (P : List (Option String)) (a : Attrs) (s : SvcS) (k : Key) :
    get (listStep P a s) k = if listedUnder P s k then ins (get a k) (.s (effSite s)) else get a k := by
  unfold listStep listedUnder
  split
  · rename_i h; simp [h]
  · rename_i k0 h
    by_cases he : exempt P s
    · simp [he]
    · simp only [he, if_false, get_addIfAbsent, h, Option.some.injEq, not_false_eq_true, and_true]
      by_cases hk : k = k0
      · subst hk; simp
      · have : ¬ k0 = k := fun e => hk e.symm
        simp [hk, this]

theorem get_svcStep (P : List (Option String)) (a : Attrs) (s : SvcS) (k : Key) :
    get (svcStep P a s) k = svcView P s k (get a k) := by
  unfold svcStep svcView
  rw [get_listStep, get_siteStep, get_bwStep]

theorem good_bwStep (a : Attrs) (s : SvcS) (h : Good a) : Good (bwStep a s) := by
  unfold bwStep; split
  · exact good_upd _ _ _ (app_ne_nil _) h
  · exact h

theorem good_listStep (P : List (Option String)) (a : Attrs) (s : SvcS) (h : Good a) : Good (listStep P a s) := by
  unfold listStep; split
  · exact h
  · split
    · exact h
    · exact good_addIfAbsent _ _ _ h

theorem good_svcStep (P : List (Option String)) (a : Attrs) (s : SvcS) (h : Good a) : Good (svcStep P a s) :=
  good_listStep _ _ _ (good_siteStep _ _ (good_bwStep _ _ h))

def facView (f : String) (k : Key) (l : List Val) : List Val := if k = .RESOURCE_FACILITY_PORT then l ++ [.s f] else l

theorem get_facStep (a : Attrs) (f : String) (k : Key) : get (facStep a f) k = facView f k (get a k) := by
  unfold facStep facView; rw [get_upd]; split
  · rename_i h; subst h; rfl
  · rfl

theorem good_facStep (a : Attrs) (f : String) (h : Good a) : Good (facStep a f) := good_upd _ _ _ (app_ne_nil _) h

theorem good_init : Good init := by
  constructor
  · simp [init, keys]
  · intro p hp; simp [init] at hp; subst hp; simp

theorem good_collect (sl : Slice) : Good (collect sl) := by
  unfold collect
  exact good_foldl _ good_facStep _ _ (good_foldl _ (good_svcStep _) _ _ (good_foldl _ good_nodeStep _ _ good_init))

theorem lutFind_mem (t : String) (k : Key) (l : List (String × Key)) (h : lutFind t l = some k) : k ∈ l.map (·.2) := by
  induction l with
  | nil => simp [lutFind] at h
  | cons p r ih =>
    obtain ⟨t0, k0⟩ := p
    simp only [lutFind] at h
    split at h
    · simp at h; simp [h]
    · simp [ih h]

end FimVerif.Authz
