import FimVerif.Proofs.Lemmas.C12Inc
/-! Lemmas for `Pools.generate_delegations_by_node_id` (C12): adding entries node by node. -/
set_option linter.unusedSimpArgs false
namespace FimVerif.C12
open FimVerif.Deleg

variable {D : Type}

/-- all (node, delegation) entries of a per-node dictionary, in dictionary order -/
def flat (R : NodeDelegs D) : List (Entry D) := R.flatMap (fun e => e.2.items.map (fun d => (e.1, d)))

/-- what a node's `Delegations` dictionary is keyed by -/
def keyOf (e : Entry D) : String × String := (e.1, e.2.id)

theorem flat_cons (e : String × Delegations D) (R : NodeDelegs D) :
    flat (e :: R) = e.2.items.map (fun d => (e.1, d)) ++ flat R := by
  simp [flat, List.flatMap_cons]

structure RInv (ty : DType) (R : NodeDelegs D) : Prop where
  ty_ : ∀ e ∈ R, e.2.ty = ty
  nodes : R.Pairwise (fun a b => a.1 ≠ b.1)
  keys : ((flat R).map keyOf).Nodup

theorem rinv_tail (ty : DType) (e : String × Delegations D) (R : NodeDelegs D) (h : RInv ty (e :: R)) : RInv ty R := by
  refine ⟨fun b hb => h.ty_ b (by simp [hb]), (List.pairwise_cons.mp h.nodes).2, ?_⟩
  have := h.keys
  rw [flat_cons, List.map_append] at this
  exact (List.nodup_append.mp this).2.1

theorem hasId_iff (items : List (Delegation D)) (id : String) : hasId items id = true ↔ ∃ d ∈ items, d.id = id := by
  simp [hasId]

theorem key_mem_flat (R : NodeDelegs D) (node id : String) :
    (node, id) ∈ (flat R).map keyOf ↔ ∃ e ∈ R, e.1 = node ∧ ∃ d ∈ e.2.items, d.id = id := by
  simp only [flat, keyOf, List.mem_map, List.mem_flatMap]
  constructor
  · rintro ⟨x, ⟨e, he, d, hd, rfl⟩, hx⟩
    simp only [Prod.mk.injEq] at hx
    exact ⟨e, he, hx.1, d, hd, hx.2⟩
  · rintro ⟨e, he, rfl, d, hd, rfl⟩
    exact ⟨(e.1, d), ⟨e, he, d, hd, rfl⟩, rfl⟩

theorem perm_snoc_mid {α : Type} (A B : List α) (x : α) : ((A ++ [x]) ++ B).Perm ((A ++ B) ++ [x]) := by
  rw [List.append_assoc, List.append_assoc]
  exact List.Perm.append_left A List.perm_append_comm

/-- `ret[node].add_delegations(d)` (creating `ret[node]` when absent): succeeds exactly when the node has no
entry under `d.id` yet, and then adds exactly that entry -/
theorem addAt_spec (ty : DType) (node : String) (d : Delegation D) (R : NodeDelegs D) (hR : RInv ty R) (hd : d.ty = ty) :
    ((node, d.id) ∉ (flat R).map keyOf →
      ∃ R', addAt ty node d R = .ok R' ∧ RInv ty R' ∧ (flat R').Perm (flat R ++ [(node, d)]) ∧
        ∀ b ∈ R', b.1 = node ∨ ∃ b0 ∈ R, b0.1 = b.1) ∧
    ((node, d.id) ∈ (flat R).map keyOf → addAt ty node d R = .error .delegation) := by
  induction R with
  | nil =>
    refine ⟨fun _ => ⟨[(node, { ty := ty, items := [d] })], ?_, ⟨?_, ?_, ?_⟩, ?_, ?_⟩, fun h => by simp [flat] at h⟩
    · simp [addAt, addDelegation, hd, hasId, bind, Except.bind, pure, Except.pure]
    · simp
    · simp
    · simp [flat]
    · simp [flat]
    · simp
  | cons e R ih =>
    have hRt := rinv_tail ty e R hR
    have ih := ih hRt
    have hety : e.2.ty = ty := hR.ty_ e (by simp)
    have hnodes := List.pairwise_cons.mp hR.nodes
    by_cases hen : e.1 = node
    · -- the node already has a dictionary
      have hnotin : ∀ id, (node, id) ∉ (flat R).map keyOf := by
        intro id hmem
        obtain ⟨b, hb, hbn, _⟩ := (key_mem_flat R node id).mp hmem
        exact hnodes.1 b hb (by rw [hen, hbn])
      have hkey : (node, d.id) ∈ (flat (e :: R)).map keyOf ↔ hasId e.2.items d.id = true := by
        rw [key_mem_flat, hasId_iff]
        constructor
        · rintro ⟨b, hb, hbn, x, hx, hxid⟩
          rcases List.mem_cons.mp hb with rfl | hb
          · exact ⟨x, hx, hxid⟩
          · exact absurd (by rw [hen, hbn]) (hnodes.1 b hb)
        · rintro ⟨x, hx, hxid⟩
          exact ⟨e, by simp, hen, x, hx, hxid⟩
      constructor
      · intro hfresh
        have hno : hasId e.2.items d.id = false := by
          cases h : hasId e.2.items d.id with
          | false => rfl
          | true => exact absurd (hkey.mpr h) hfresh
        have hperm : (flat ((e.1, { e.2 with items := e.2.items ++ [d] }) :: R)).Perm (flat (e :: R) ++ [(node, d)]) := by
          rw [flat_cons, flat_cons]
          simp only [List.map_append, List.map_cons, List.map_nil, hen]
          exact perm_snoc_mid _ _ _
        refine ⟨(e.1, { e.2 with items := e.2.items ++ [d] }) :: R, ?_, ⟨?_, ?_, ?_⟩, hperm, ?_⟩
        · simp [addAt, hen, addDelegation, hd, hety, hno, bind, Except.bind, pure, Except.pure]
        · intro b hb
          rcases List.mem_cons.mp hb with rfl | hb
          · exact hety
          · exact hR.ty_ b (by simp [hb])
        · exact List.pairwise_cons.mpr ⟨hnodes.1, hnodes.2⟩
        · have hk := (hperm.map keyOf).nodup_iff.mpr
          apply hk
          rw [List.map_append]
          refine List.nodup_append.mpr ⟨hR.keys, by simp, ?_⟩
          intro a ha b hb
          simp only [List.map_cons, List.map_nil, List.mem_singleton, keyOf] at hb
          subst hb
          intro hab; subst hab
          exact hfresh ha
        · intro b hb
          rcases List.mem_cons.mp hb with rfl | hb
          · exact Or.inl hen
          · exact Or.inr ⟨b, by simp [hb], rfl⟩
      · intro hdup
        have := hkey.mp hdup
        simp [addAt, hen, addDelegation, hd, hety, this, bind, Except.bind]
    · -- look further down
      have hkey : (node, d.id) ∈ (flat (e :: R)).map keyOf ↔ (node, d.id) ∈ (flat R).map keyOf := by
        rw [key_mem_flat, key_mem_flat]
        constructor
        · rintro ⟨b, hb, hbn, h⟩
          rcases List.mem_cons.mp hb with rfl | hb
          · exact absurd hbn hen
          · exact ⟨b, hb, hbn, h⟩
        · rintro ⟨b, hb, h⟩
          exact ⟨b, by simp [hb], h⟩
      constructor
      · intro hfresh
        obtain ⟨R', hok, hinv', hperm', hnodes'⟩ := ih.1 (fun h => hfresh (hkey.mpr h))
        have hperm : (flat (e :: R')).Perm (flat (e :: R) ++ [(node, d)]) := by
          rw [flat_cons, flat_cons, List.append_assoc]
          exact List.Perm.append_left _ hperm'
        refine ⟨e :: R', ?_, ⟨?_, ?_, ?_⟩, hperm, ?_⟩
        · simp [addAt, hen, hok, bind, Except.bind, pure, Except.pure]
        · intro b hb
          rcases List.mem_cons.mp hb with rfl | hb
          · exact hety
          · exact hinv'.ty_ b hb
        · refine List.pairwise_cons.mpr ⟨?_, hinv'.nodes⟩
          intro b hb
          rcases hnodes' b hb with h | ⟨b0, hb0, h⟩
          · rw [h]; exact hen
          · rw [← h]; exact hnodes.1 b0 hb0
        · apply (hperm.map keyOf).nodup_iff.mpr
          rw [List.map_append]
          refine List.nodup_append.mpr ⟨hR.keys, by simp, ?_⟩
          intro a ha b hb
          simp only [List.map_cons, List.map_nil, List.mem_singleton, keyOf] at hb
          subst hb
          intro hab; subst hab
          exact hfresh ha
        · intro b hb
          rcases List.mem_cons.mp hb with rfl | hb
          · exact Or.inr ⟨b, by simp, rfl⟩
          · rcases hnodes' b hb with h | ⟨b0, hb0, h⟩
            · exact Or.inl h
            · exact Or.inr ⟨b0, by simp [hb0], h⟩
      · intro hdup
        have := ih.2 (hkey.mp hdup)
        simp [addAt, hen, this, bind, Except.bind]

/-- adding a list of entries one after the other: succeeds exactly when no node would need two entries
under one id; the result holds exactly the old and the new entries -/
theorem addAt_fold (ty : DType) (EL : List (Entry D)) (R : NodeDelegs D) (hR : RInv ty R)
    (hty : ∀ e ∈ EL, e.2.ty = ty) :
    (((flat R ++ EL).map keyOf).Nodup →
      ∃ R', EL.foldlM (fun r e => addAt ty e.1 e.2 r) R = .ok R' ∧ RInv ty R' ∧ (flat R').Perm (flat R ++ EL)) ∧
    (¬ ((flat R ++ EL).map keyOf).Nodup → EL.foldlM (fun r e => addAt ty e.1 e.2 r) R = .error .delegation) := by
  induction EL generalizing R with
  | nil =>
    refine ⟨fun _ => ⟨R, rfl, hR, by simp⟩, fun h => absurd (by simpa using hR.keys) h⟩
  | cons e EL ih =>
    have hspec := addAt_spec ty e.1 e.2 R hR (hty e (by simp))
    by_cases hin : (e.1, e.2.id) ∈ (flat R).map keyOf
    · -- clash right here
      refine ⟨fun hnd => ?_, fun _ => by rw [List.foldlM_cons, hspec.2 hin]; rfl⟩
      exfalso
      rw [List.map_append, List.map_cons] at hnd
      exact (List.nodup_append.mp hnd).2.2 _ hin (keyOf e) (by simp) rfl
    · obtain ⟨R1, hok, hinv1, hperm1, _⟩ := hspec.1 hin
      have ih := ih R1 hinv1 (fun x hx => hty x (by simp [hx]))
      have hpermk : ((flat R1 ++ EL).map keyOf).Perm ((flat R ++ e :: EL).map keyOf) := by
        apply List.Perm.map
        have : (flat R ++ e :: EL) = (flat R ++ [e]) ++ EL := by simp
        rw [this]
        exact List.Perm.append_right EL hperm1
      constructor
      · intro hnd
        obtain ⟨R', hok', hinv', hperm'⟩ := ih.1 (hpermk.nodup_iff.mpr hnd)
        refine ⟨R', by rw [List.foldlM_cons, hok]; exact hok', hinv', ?_⟩
        have : (flat R ++ e :: EL) = (flat R ++ [e]) ++ EL := by simp
        rw [this]
        exact hperm'.trans (List.Perm.append_right EL hperm1)
      · intro hnd
        rw [List.foldlM_cons, hok]
        exact ih.2 (fun h => hnd (hpermk.nodup_iff.mp h))

theorem rinv_nil (ty : DType) : RInv ty ([] : NodeDelegs D) := ⟨by simp, List.Pairwise.nil, by simp [flat]⟩

end FimVerif.C12
