import FimVerif.Proofs.Lemmas.C08Full
/-! The single calls under well-formedness alone: exactness against `OwnedS`, `remove_link`, `remove_child_interface`,
`disconnect_interface`, `unpeer`, and the handle caches. -/
namespace FimVerif.Remove

/-- a call that yields `ResA` from the empty deletion list deletes exactly `OwnedS g [x]` -/
theorem resA_exact (g : G) (hW : WF g = true) (x : Nat) {k : Cls} (hx : g.cls? x = some k) (hk : k ≠ .link)
    (r : Except Err G) (h : ResA g [] (Own g x) r) : ∃ D, r = .ok (g.minus D) ∧ ∀ y, y ∈ D ↔ OwnedS g [x] y := by
  obtain ⟨A', hr, _, hmem, hA'⟩ := h
  refine ⟨A', hr, mem_iff_ownedS g hW [x] A' hA'.1.1 (fun r hr => by simp at hr; subst hr; exact ⟨k, hx, hk⟩) ?_⟩
  intro y hy
  rw [hmem y hy]; simp [OwnS]

theorem own_sub {g : G} {c : Nat} (hc : g.cls? c = some .cp) (hs : isSub g c = true) (y : Nat) :
    Own g c y ↔ y = c ∨ PortOf g c y := by
  have hleaf := children_cp_sub g c hc hs
  constructor
  · rintro ⟨i, hb, h⟩
    have : i = c := by
      rcases (below_iff g c i).mp hb with h | ⟨a, ha, _⟩
      · exact h
      · rw [hleaf] at ha; cases ha
    subst this; exact h
  · intro h; exact ⟨c, Below.refl, h⟩

/-! ### `Topology.remove_link` -/

theorem seqSp (g : G) (hP : InvPeer g = true) (l : Nat) : ∀ (ps A : List Nat), l ∈ A → ps.Nodup →
    (∀ p ∈ ps, g.cls? p = some .cp ∧ g.kind? p = some kServicePort ∧ l ∈ g.nbrs p .connects .link ∧ p ∉ A) →
    ps.foldlM (fun g p => removeCp g p true) (g.minus A) = .ok (g.minus (A ++ ps))
  | [], A, _, _, _ => by simp [List.foldlM_nil, pure, Except.pure]
  | p :: ps, A, hl, hnd, hps => by
    obtain ⟨hpc, hpk, hlp, hpA⟩ := hps p (by simp)
    have hcpn : g.nbrs p .connects .cp = [] := (invPeer_cp hP hpc).2 hpk
    have hlk : g.nbrs p .connects .link = [l] := eq_singleton_of_mem_of_length_le_one hlp (invPeer_cp hP hpc).1
    have hsep : SepFam g A p = true := by simp [SepFam, hcpn, List.contains_eq_mem, hpA]
    have hdel : cpDelA g A p true = [p] := by
      simp [cpDelA, cpFamily, hcpn, cpLinksA, hlk, List.contains_eq_mem, hl, dedup]
    have hnd' := List.nodup_cons.mp hnd
    simp only [List.foldlM_cons, removeCp_after' g A p true (cls_has hpc) hsep, hdel, bind, Except.bind]
    rw [seqSp g hP l ps (A ++ [p]) (List.mem_append_left _ hl) hnd'.2 (by
      intro q hq
      obtain ⟨h1, h2, h3, h4⟩ := hps q (List.mem_cons_of_mem _ hq)
      refine ⟨h1, h2, h3, ?_⟩
      simp only [List.mem_append, List.mem_singleton, not_or]
      exact ⟨h4, fun h => hnd'.1 (h ▸ hq)⟩)]
    simp [List.append_assoc]

/-- **`Topology.remove_link`** of any Link of a well-formed topology: the Link and the ServicePorts it peered -/
theorem removeLinkApi_wf (g : G) (hW : WF g = true) (l : Nat) (hc : g.cls? l = some .link) :
    removeLinkApi g l = .ok (g.minus (l :: spEnds g l)) := by
  simp only [removeLinkApi, hc, beq_self_eq_true, ite_true]
  have := seqSp g (wf_peer hW) l (spEnds g l) [l] (by simp) (sublist_filter_nodup _ (wf_nodup hW hc _ _)) (by
    intro p hp
    simp only [spEnds, List.mem_filter, beq_iff_eq] at hp
    refine ⟨mem_nbrs_cls _ _ _ _ _ hp.1, hp.2, nbrs_symm g l p _ _ _ hp.1 hc, ?_⟩
    simp only [List.mem_singleton]; rintro rfl
    have := mem_nbrs_cls _ _ _ _ _ hp.1; rw [hc] at this; cases this)
  simpa [spEnds] using this

/-! ### `Interface.remove_child_interface` -/

/-- **`remove_child_interface`** of a sub-interface `c` of the DedicatedPort `p`: exactness and the parent handle -/
theorem removeChild_wf (g : G) (hW : WF g = true) (h : List IfH) (p c : Nat) (hk : g.kind? p = some kDedicatedPort)
    (hpc : g.cls? p = some .cp) (hps : isSub g p = false) (hcp : c ∈ g.nbrs p .connects .cp) :
    ∃ D, removeChild g h p c = .ok (g.minus D, hDrop h c) ∧ (∀ y, y ∈ D ↔ OwnedS g [c] y) ∧ p ∉ D ∧
      ∀ y ∈ g.nbrs p .connects .cp, (y ∈ D ↔ y = c) := by
  have hI := wf_cp hW
  have hP := wf_peer hW
  obtain ⟨hcn, hcs, hcc⟩ := child_nbrs hI hpc hps hcp
  have hkc := wf_sub hW hcc hcs
  have hws : withSubs g c = [c] := by simp [withSubs, hkc]
  obtain ⟨A1, hr1, _, hmem1, hInv1⟩ := disconnectStep_res g hW [] (invC_nil g) (downC_nil g) c hcc (by simp)
  rw [minus_nil] at hr1
  -- nothing of the family of `c` is among the ports removed
  have hnotport : ∀ q, g.cls? q = some .cp → (isSub g q = true ∨ g.kind? q = some kDedicatedPort) → q ∉ A1 := by
    intro q hq hsub hqA
    rcases (hmem1 q (by rw [hq]; intro h; cases h)).mp hqA with h | h
    · cases h
    · obtain ⟨_, hqc, hqk⟩ := portOf_cls h
      rcases hsub with hsub | hsub
      · have := wf_port hW hqc hqk
        simp only [isSub, List.isEmpty_iff] at hsub; rw [hsub] at this; cases this
      · rw [hqk] at hsub; cases hsub
  have hcA1 : c ∉ A1 := hnotport c hcc (Or.inl hcs)
  have hpA1 : p ∉ A1 := hnotport p hpc (Or.inr hk)
  have hsib : ∀ q ∈ g.nbrs p .connects .cp, q ∉ A1 := fun q hq =>
    hnotport q (child_nbrs hI hpc hps hq).2.2 (Or.inl (child_nbrs hI hpc hps hq).2.1)
  have hsep : SepFam g A1 c = true := by
    simp only [SepFam, Bool.and_eq_true, Bool.not_eq_true', List.all_eq_true, List.contains_eq_mem, decide_eq_false_iff_not, hcn,
      List.mem_singleton, forall_eq]
    exact ⟨hcA1, hpA1, hsib⟩
  have hfam : cpFamily g c false = [c] := by simp [cpFamily]
  have hstep := removeCp_after' g A1 c false (cls_has hcc) hsep
  refine ⟨A1 ++ cpDelA g A1 c false, ?_, ?_, ?_, ?_⟩
  · simp only [removeChild, hk, beq_self_eq_true, ite_true, disconnectDeep, List.flatMap_cons, List.flatMap_nil,
      List.append_nil, hws, disconnectAll, List.foldlM_cons, List.foldlM_nil, hr1, bind, Except.bind, pure, Except.pure, hstep,
      Except.map]
  · have hnl : ∀ y, g.cls? y ≠ some .link → (y ∈ A1 ++ cpDelA g A1 c false ↔ y = c ∨ PortOf g c y) := by
      intro y hy
      rw [List.mem_append, mem_cpDelA, hfam, hmem1 y hy]
      constructor
      · rintro ((h | h) | h | ⟨f, _, hl, _⟩)
        · cases h
        · exact Or.inr h
        · exact Or.inl (by simpa using h)
        · exact absurd (mem_nbrs_cls _ _ _ _ _ hl) hy
      · rintro (h | h)
        · exact Or.inr (Or.inl (by simpa using h))
        · exact Or.inl (Or.inr h)
    apply mem_iff_ownedS g hW [c] _ ?_ (fun r hr => by simp at hr; subst hr; exact ⟨_, hcc, by decide⟩)
    · intro y hy; rw [hnl y hy]; simp [OwnS, own_sub hcc hcs]
    · apply linkOK_step g (wf_link hW) A1 [c] _ (by simp [hcc, hcA1]) (by
        intro l _ e1 _ e2 _ h1 h2; simp at h1 h2; rw [h1, h2]) hInv1.1
      · intro y hy
        rw [List.mem_append, mem_cpDelA, hfam]
        constructor
        · rintro (h | h | ⟨f, _, hl, _⟩)
          · exact Or.inl h
          · exact Or.inr h
          · have := mem_nbrs_cls _ _ _ _ _ hl; rw [hy] at this; cases this
        · rintro (h | h)
          · exact Or.inl h
          · exact Or.inr (Or.inl h)
      · intro y hy
        rw [List.mem_append, mem_cpDelA, hfam]
        constructor
        · rintro (h | h | ⟨f, hf, hl, hnA, h2⟩)
          · exact Or.inl h
          · simp at h; subst h; rw [hcc] at hy; cases hy
          · simp at hf; subst hf
            exact Or.inr ⟨hnA, ⟨f, by simp, ((mem_links_iff g f y hcc).mp hl).2⟩, h2⟩
        · rintro (h | ⟨hnA, ⟨f, hf, hfl⟩, h2⟩)
          · exact Or.inl h
          · simp at hf; subst hf
            exact Or.inr (Or.inr ⟨f, by simp, (mem_links_iff g f y hcc).mpr ⟨hy, hfl⟩, hnA, h2⟩)
  · rw [List.mem_append, mem_cpDelA, hfam]
    rintro (h | h | ⟨f, _, hl, _⟩)
    · exact hpA1 h
    · simp at h; subst h; rw [hcs] at hps; cases hps
    · have := mem_nbrs_cls _ _ _ _ _ hl; rw [hpc] at this; cases this
  · intro y hy
    have hyc := (child_nbrs hI hpc hps hy).2.2
    rw [List.mem_append, mem_cpDelA, hfam]
    constructor
    · rintro (h | h | ⟨f, _, hl, _⟩)
      · exact absurd h (hsib y hy)
      · simpa using h
      · have := mem_nbrs_cls _ _ _ _ _ hl; rw [hyc] at this; cases this
    · rintro rfl; exact Or.inr (Or.inl (by simp))


/-! ### `NetworkService.disconnect_interface` -/

/-- **`disconnect_interface`**: nothing when the interface has no service-side port; otherwise that port and the Link
created with it, and the handle loses exactly that port (by node id) -/
theorem disconnect_wf (g : G) (hW : WF g = true) (h : List IfH) (i : Nat) (hc : g.cls? i = some .cp) :
    ((∀ p, ¬ PortOf g i p) ∧ disconnect g h i = .ok (g, h)) ∨
    ∃ p, PortOf g i p ∧ disconnect g h i = .ok (g.minus (cpDel g p true), hDrop h p) ∧
      ∀ y, y ∈ cpDel g p true ↔ y = p ∨ LinkOf g i y := by
  have hP := wf_peer hW
  rcases spPeers_cases hP hc with h0 | ⟨p, hp⟩
  · left
    refine ⟨?_, ?_⟩
    · intro p hp; rw [portOf_iff_spPeers hP hc, h0] at hp; cases hp
    · simp [disconnect, disconnectG, cls_has hc, h0, Except.map]
  · right
    obtain ⟨hport, hdel⟩ := spPeers_singleton hP hc hp
    refine ⟨p, hport, ?_, hdel⟩
    simp [disconnect, disconnectG, cls_has hc, hp, removeCp_minus g p true (cls_has (portOf_cls hport).2.1), Except.map]

/-- **handle_fresh (`disconnect_interface`)** for any service handle that lists what a fresh lookup lists -/
theorem disconnect_fresh_wf (g : G) (hW : WF g = true) (h : List IfH) (s i : Nat) (g' : G) (h' : List IfH)
    (hs : g.cls? s = some .ns) (hrun : disconnect g h i = .ok (g', h'))
    (hh : ∀ y, y ∈ hIds h ↔ y ∈ freshIfs g s) : ∀ y, y ∈ hIds h' ↔ y ∈ freshIfs g' s := by
  have hP := wf_peer hW
  apply disconnect_fresh g h s i g' h' hrun ?_ hh
  intro p hp
  simp only [spPeers, List.mem_filter, peers, List.mem_flatMap, beq_iff_eq] at hp
  obtain ⟨⟨l, _, hpl⟩, hk⟩ := hp
  have hpc := mem_nbrs_cls _ _ _ _ _ hpl.1
  have hcpn := (invPeer_cp hP hpc).2 hk
  refine ⟨hcpn, ?_⟩
  simp only [List.contains_eq_mem, decide_eq_false_iff_not, cpDel, mem_dedup, cpFamily, hcpn, List.filter_nil,
    cpLinks, List.mem_append, List.mem_singleton, List.mem_flatMap, List.mem_filter]
  rintro (rfl | ⟨f, _, hl, _⟩)
  · rw [hs] at hpc; cases hpc
  · have := mem_nbrs_cls _ _ _ _ _ hl; rw [hs] at this; cases this

/-! ### `NetworkService.unpeer` -/

theorem findPeering_some {g : G} {ha hb : List IfH} {i p : Nat} (h : findPeering g ha hb = some (i, p)) :
    i ∈ hIds ha ∧ g.kind? i = some kServicePort ∧ p ∈ spPeers g i ∧ p ∈ hIds hb := by
  unfold findPeering at h
  obtain ⟨i', hi', h'⟩ := List.exists_of_findSome?_eq_some h
  split at h'
  · rename_i hk
    simp only [Option.map_eq_some_iff] at h'
    obtain ⟨p', hf, heq⟩ := h'
    simp only [Prod.mk.injEq] at heq
    obtain ⟨rfl, rfl⟩ := heq
    have h1 := List.mem_of_find?_eq_some hf
    have h2 := List.find?_some hf
    exact ⟨hi', by simpa using hk, h1, by simpa using h2⟩
  · cases h'

/-- **`unpeer`**: the two facing ServicePorts and their Link go, nothing else; both handles list afterwards what fresh
lookups list -/
theorem unpeer_wf (g : G) (hW : WF g = true) (ha hb : List IfH) (a b i p : Nat)
    (hac : g.cls? a = some .ns) (hbc : g.cls? b = some .ns) (hab : a ≠ b)
    (hha : ∀ y, y ∈ hIds ha ↔ y ∈ freshIfs g a) (hhb : ∀ y, y ∈ hIds hb ↔ y ∈ freshIfs g b)
    (hfind : findPeering g ha hb = some (i, p)) :
    ∃ D, unpeer g ha hb = .ok (g.minus D, hDrop ha i, hDrop hb p) ∧ (∀ y, y ∈ D ↔ OwnedS g [i] y) ∧
      (∀ y, y ∈ hIds (hDrop ha i) ↔ y ∈ freshIfs (g.minus D) a) ∧
      (∀ y, y ∈ hIds (hDrop hb p) ↔ y ∈ freshIfs (g.minus D) b) := by
  have hP := wf_peer hW
  have hI := wf_cp hW
  obtain ⟨hia, hik, hpsp, hpb⟩ := findPeering_some hfind
  have hia' : i ∈ g.nbrs a .connects .cp := (hha i).mp hia
  have hpb' : p ∈ g.nbrs b .connects .cp := (hhb p).mp hpb
  have hic := mem_nbrs_cls _ _ _ _ _ hia'
  have hpc := mem_nbrs_cls _ _ _ _ _ hpb'
  have his := port_not_sub hac hia'
  have hps := port_not_sub hbc hpb'
  have hsp : spPeers g i = [p] := by
    rcases spPeers_cases hP hic with h0 | ⟨q, hq⟩
    · rw [h0] at hpsp; cases hpsp
    · rw [hq] at hpsp; simp at hpsp; rw [hq, hpsp]
  have hport : PortOf g i p := (portOf_iff_spPeers hP hic).mpr hsp
  have hpk := (portOf_cls hport).2.2
  have hne : p ≠ i := by obtain ⟨_, _, _, hne, _⟩ := hport; exact hne
  have hicpn := (invPeer_cp hP hic).2 hik
  have hpcpn := (invPeer_cp hP hpc).2 hpk
  -- a port sits on one service only
  have hone : ∀ q s t, g.cls? q = some .cp → g.kind? q = some kServicePort → g.cls? s = some .ns →
      q ∈ g.nbrs s .connects .cp → q ∈ g.nbrs t .connects .cp → g.cls? t = some .ns → s = t := by
    intro q s t hq hk hs h1 h2 ht
    have hl := wf_port hW hq hk
    have m1 := nbrs_symm g s q _ _ _ h1 hs
    have m2 := nbrs_symm g t q _ _ _ h2 ht
    match hn : g.nbrs q .connects .ns, hl with
    | [x], _ => rw [hn] at m1 m2; simp at m1 m2; rw [m1, m2]
  have hpa : p ∉ g.nbrs a .connects .cp := fun h => hab (hone p a b hpc hpk hac h hpb' hbc)
  have hib : i ∉ g.nbrs b .connects .cp := fun h => hab (hone i a b hic hik hac hia' h hbc)
  obtain ⟨A1, hr1, _, hmem1, hInv1⟩ := removeCpTop_res g hW [] (invC_nil g) i hic his (by simp)
  rw [minus_nil] at hr1
  have hpA1 : p ∉ A1 := by
    intro h
    rcases (hmem1 p (by rw [hpc]; intro h; cases h)).mp h with h | h | h
    · cases h
    · exact hne h
    · rw [hicpn] at h; cases h
  obtain ⟨A2, hr2, _, hmem2, hInv2⟩ := removeCpTop_res g hW A1 hInv1 p hpc hps hpA1
  have hnl : ∀ y, g.cls? y ≠ some .link → (y ∈ A2 ↔ y = i ∨ y = p) := by
    intro y hy
    rw [hmem2 y hy, hmem1 y hy, hicpn, hpcpn]; simp
  have hfresh : ∀ (s x other : Nat) (hl : List Nat), g.cls? s = some .ns → (∀ y, y ∈ hl ↔ y ∈ freshIfs g s) →
      (x = i ∧ other = p ∨ x = p ∧ other = i) → other ∉ g.nbrs s .connects .cp →
      ∀ y, y ∈ hl.filter (fun z => z != x) ↔ y ∈ freshIfs (g.minus A2) s := by
    intro s x other hl hsc hh hx hoth
    apply fresh_after_minus g s x A2 hl ?_ ?_ hh
    · have : s ∉ A2 := by
        intro h
        rcases (hnl s (by rw [hsc]; intro h; cases h)).mp h with rfl | rfl
        · rw [hsc] at hic; cases hic
        · rw [hsc] at hpc; cases hpc
      simpa [List.contains_eq_mem] using this
    · intro y hy
      have hyc : g.cls? y ≠ some .link := by rw [mem_nbrs_cls _ _ _ _ _ hy]; intro h; cases h
      rw [hnl y hyc]
      rcases hx with ⟨rfl, rfl⟩ | ⟨rfl, rfl⟩
      · exact ⟨fun h => h.elim id (fun h => absurd (h ▸ hy) hoth), Or.inl⟩
      · exact ⟨fun h => h.elim (fun h => absurd (h ▸ hy) hoth) id, Or.inr⟩
  refine ⟨A2, ?_, ?_, ?_, ?_⟩
  · simp only [unpeer, hfind, hr1, hr2, bind, Except.bind]
  · apply mem_iff_ownedS g hW [i] A2 hInv2.1 (fun r hr => by simp at hr; subst hr; exact ⟨_, hic, by decide⟩)
    intro y hy
    rw [hnl y hy]
    simp only [OwnS, List.mem_singleton, exists_eq_left]
    constructor
    · rintro (rfl | rfl)
      · exact ⟨y, Below.refl, Or.inl rfl⟩
      · exact ⟨i, Below.refl, Or.inr hport⟩
    · rintro ⟨j, hb, h⟩
      have hj : j = i := by
        rcases (below_cp_top hI hic his j).mp hb with h | h
        · exact h
        · rw [hicpn] at h; cases h
      subst hj
      rcases h with h | h
      · exact Or.inl h
      · rw [portOf_iff_spPeers hP hic, hsp] at h; simp at h; exact Or.inr h.symm
  · rw [hIds_hDrop]; exact hfresh a i p (hIds ha) hac hha (Or.inl ⟨rfl, rfl⟩) hpa
  · rw [hIds_hDrop]; exact hfresh b p i (hIds hb) hbc hhb (Or.inr ⟨rfl, rfl⟩) hib

/-- **handle_fresh (`remove_child_interface`)**: the parent handle lists afterwards what a fresh lookup lists -/
theorem removeChild_fresh_wf (g : G) (hW : WF g = true) (h : List IfH) (p c : Nat) (hk : g.kind? p = some kDedicatedPort)
    (hpc : g.cls? p = some .cp) (hps : isSub g p = false) (hcp : c ∈ g.nbrs p .connects .cp)
    (hh : ∀ y, y ∈ hIds h ↔ y ∈ freshIfs g p) :
    ∃ g' h', removeChild g h p c = .ok (g', h') ∧ ∀ y, y ∈ hIds h' ↔ y ∈ freshIfs g' p := by
  obtain ⟨D, hr, _, hpD, hsib⟩ := removeChild_wf g hW h p c hk hpc hps hcp
  refine ⟨_, _, hr, ?_⟩
  rw [hIds_hDrop]
  exact fresh_after_minus g p c D (hIds h) (by simpa [List.contains_eq_mem] using hpD) hsib hh

end FimVerif.Remove
