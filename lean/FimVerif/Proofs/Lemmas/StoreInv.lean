import FimVerif.Proofs.Lemmas.StoreBasic
/-! C04: every operation of `Model/Store.lean` preserves `Store.Inv`. Core only. -/
namespace FimVerif.Store
open FimVerif FimVerif.Gen.StoreConsts

theorem inv_addNode (s : Store) (g nid label : String) (props : Option Props) (h : Inv s) :
    Inv (addNode g nid label props s).2 := by
  unfold addNode
  split
  · exact h
  · cases props with
    | none => exact inv_addBlankNode s g label nid h
    | some p => exact inv_updNode _ _ _ (inv_addBlankNode s g label nid h)

theorem inv_deleteNode (s : Store) (g nid : String) (h : Inv s) : Inv (deleteNode g nid s).2 :=
  withNode_inv s g nid _ h (fun i _ => inv_removeNode s i h)

theorem inv_addLink (s : Store) (g a rel b : String) (props : Option Props) (h : Inv s) :
    Inv (addLink g a rel b props s).2 := by
  unfold addLink
  refine withNode_inv s g a _ h (fun ia ha => withNode_inv s g b _ h (fun ib hb => ?_))
  have hia := findNode_idIn s g a ia ha
  have hib := findNode_idIn s g b ib hb
  cases props with
  | none => exact inv_addEdge s ia ib _ h hia hib
  | some p =>
    simp only
    split
    · exact h
    · exact inv_addEdge s ia ib _ h hia hib

theorem inv_updateNodeProperty (s : Store) (g nid k : String) (v : Val) (h : Inv s) :
    Inv (updateNodeProperty g nid k v s).2 := by
  unfold updateNodeProperty
  split
  · exact h
  · exact withNode_inv s g nid _ h (fun i _ => inv_updNode s i _ h)

theorem inv_unsetNodeProperty (s : Store) (g nid k : String) (h : Inv s) :
    Inv (unsetNodeProperty g nid k s).2 := by
  unfold unsetNodeProperty
  split
  · exact h
  · split
    · exact h
    · refine withNode_inv s g nid _ h (fun i _ => ?_)
      split
      · exact h
      · split
        · exact inv_updNode s i _ h
        · exact h

theorem inv_updateNodesProperty (s : Store) (g k : String) (v : Val) (h : Inv s) :
    Inv (updateNodesProperty g k v s).2 := by
  unfold updateNodesProperty
  split
  · exact h
  · split
    · exact h
    · exact inv_updGraphNodes s g _ h

theorem inv_updateNodeProperties (s : Store) (g nid : String) (props : Props) (h : Inv s) :
    Inv (updateNodeProperties g nid props s).2 := by
  unfold updateNodeProperties
  split
  · exact h
  · exact withNode_inv s g nid _ h (fun i _ => inv_updNode s i _ h)

theorem withLink_inv (s : Store) (g a b kind : String) (k : Nat → Nat → SEdge → R) (hs : Inv s)
    (hk : ∀ ia ib e, findNode s g a = .ok ia → findNode s g b = .ok ib → Inv (k ia ib e).2) :
    Inv (withLink s g a b kind k).2 := by
  unfold withLink
  refine withNode_inv s g a _ hs (fun ia ha => withNode_inv s g b _ hs (fun ib hb => ?_))
  split
  · exact hs
  · split
    · exact hs
    · exact hk _ _ _ ha hb

theorem inv_updateLinkProperty (s : Store) (g a b kind k : String) (v : Val) (h : Inv s) :
    Inv (updateLinkProperty g a b kind k v s).2 := by
  unfold updateLinkProperty
  split
  · exact h
  · exact withLink_inv s g a b kind _ h (fun ia ib _ _ _ => inv_updEdge s ia ib _ h)

theorem inv_unsetLinkProperty (s : Store) (g a b kind k : String) (h : Inv s) :
    Inv (unsetLinkProperty g a b kind k s).2 := by
  unfold unsetLinkProperty
  split
  · exact h
  · exact withLink_inv s g a b kind _ h (fun ia ib _ _ _ => inv_updEdge s ia ib _ h)

theorem inv_updateLinkProperties (s : Store) (g a b kind : String) (props : Props) (h : Inv s) :
    Inv (updateLinkProperties g a b kind props s).2 := by
  unfold updateLinkProperties
  split
  · exact h
  · exact withLink_inv s g a b kind _ h (fun ia ib _ _ _ => inv_updEdge s ia ib _ h)

theorem inv_addGraph (s : Store) (g : String) (ig : IGraph) (h : Inv s) (hwf : ig.WF = true) :
    Inv (addGraph g ig s).2 := by
  unfold addGraph
  simp only
  split
  · exact inv_delIfPresent s g h
  · refine inv_appendGraph _ _ _ (inv_delIfPresent s g h) ?_
    intro e he
    simp only [IGraph.WF, List.all_eq_true, Bool.and_eq_true, decide_eq_true_eq] at hwf
    simpa using hwf e he

theorem inv_addGraphDirect (s : Store) (g : String) (ig : IGraph) (h : Inv s) (hwf : ig.WF = true) :
    Inv (addGraphDirect g ig s).2 := by
  unfold addGraphDirect
  refine inv_appendGraph _ _ _ (inv_delIfPresent s g h) ?_
  intro e he
  simp only [IGraph.WF, List.all_eq_true, Bool.and_eq_true, decide_eq_true_eq] at hwf
  exact hwf e he

theorem posOf_lt (ns : List SNode) (i : Nat) (h : idIn ns i = true) : posOf ns i < ns.length := by
  unfold posOf
  apply List.findIdx_lt_length_of_exists
  obtain ⟨n, hn, e⟩ := (idIn_iff _ _).1 h
  exact ⟨n, hn, by simp [e]⟩

theorem extractGraph_wf (s : Store) (g : String) (ig : IGraph) (h : extractGraph s g = some ig) : ig.WF = true := by
  unfold extractGraph at h
  simp only at h
  split at h
  · cases h
  · injection h with h
    subst h
    simp only [IGraph.WF, List.all_eq_true, List.mem_map, Bool.and_eq_true, decide_eq_true_eq, List.length_map]
    rintro e ⟨e0, he0, rfl⟩
    simp only [edgesOf, List.mem_filter, Bool.and_eq_true] at he0
    exact ⟨posOf_lt _ _ he0.2.1, posOf_lt _ _ he0.2.2⟩

theorem inv_cloneGraph (s : Store) (g g2 : String) (h : Inv s) : Inv (cloneGraph g g2 s).2 := by
  unfold cloneGraph
  split
  · exact h
  · rename_i ig hig
    exact inv_addGraph s g2 ig h (extractGraph_wf s g ig hig)

theorem inv_addIfAbsent (s : Store) (w x : Nat) (attrs : Props) (h : Inv s)
    (hw : idIn s.nodes w = true) (hx : idIn s.nodes x = true) :
    Inv (if s.edges.any (edgeMatch w x) then s else { s with edges := s.edges ++ [⟨w, x, attrs⟩] }) ∧
    (if s.edges.any (edgeMatch w x) then s else { s with edges := s.edges ++ [⟨w, x, attrs⟩] }).nodes = s.nodes := by
  by_cases hc : s.edges.any (edgeMatch w x) = true
  · rw [if_pos hc]; exact ⟨h, rfl⟩
  · rw [if_neg hc]
    refine ⟨?_, rfl⟩
    obtain ⟨h1, h2, h3⟩ := h
    refine ⟨h1, h2, ?_⟩
    intro e' he'
    simp only [List.mem_append, List.mem_singleton] at he'
    rcases he' with he' | rfl
    · exact h3 e' he'
    · exact ⟨hw, hx⟩

theorem inv_remapEdges (u v : Nat) (l : List SEdge) (s : Store) (h : Inv s)
    (hl : ∀ e ∈ l, idIn s.nodes (if e.a = v then u else e.a) = true ∧ idIn s.nodes (if e.b = v then u else e.b) = true) :
    Inv (remapEdges u v l s) := by
  induction l generalizing s with
  | nil => exact h
  | cons e r ih =>
    simp only [remapEdges]
    have hh := hl e (by simp)
    have := inv_addIfAbsent s (if e.a = v then u else e.a) (if e.b = v then u else e.b) e.attrs h hh.1 hh.2
    apply ih _ this.1
    intro e' he'
    rw [this.2]
    exact hl e' (by simp [he'])

theorem inv_contract (s : Store) (u v : Nat) (h : Inv s) (hu : idIn s.nodes u = true) (huv : u ≠ v) :
    Inv (contract u v s) := by
  unfold contract
  simp only
  apply inv_remapEdges _ _ _ _ (inv_removeNode s v h)
  intro e he
  simp only [List.mem_filter] at he
  obtain ⟨ea, eb⟩ := h.2.2 e he.1
  have key : ∀ i, idIn s.nodes i = true → idIn (removeNode v s).nodes (if i = v then u else i) = true := by
    intro i hi
    by_cases hiv : i = v
    · simp only [hiv, if_true]
      obtain ⟨n, hn, e⟩ := (idIn_iff _ _).1 hu
      exact (idIn_iff _ _).2 ⟨n, by simp [removeNode, hn, e, huv], e⟩
    · simp only [hiv, if_false]
      obtain ⟨n, hn, e⟩ := (idIn_iff _ _).1 hi
      exact (idIn_iff _ _).2 ⟨n, by simp [removeNode, hn, e, hiv], e⟩
  exact ⟨key _ ea, key _ eb⟩

theorem inG_unique (n : SNode) (g g' : String) (h1 : inG g n = true) (h2 : inG g' n = true) : g = g' := by
  simp only [inG, beq_iff_eq] at h1 h2
  rw [h1] at h2
  injection h2 with h2
  injection h2

theorem inv_mergeNodes (s : Store) (g nid g2 : String) (pol : Option (List (String × Policy))) (h : Inv s) :
    Inv (mergeNodes g nid g2 pol s).2 := by
  unfold mergeNodes
  split
  · exact h
  · refine withNode_inv s g nid _ h (fun u hu => ?_)
    split
    · exact h
    · rename_i v hv
      split
      · exact h
      · rename_i huv
        have hc := inv_contract s u v h (findNode_idIn s g nid u hu) huv
        split
        · split
          · exact inv_updNode _ _ _ hc
          · split
            · exact h
            · exact inv_updNode _ _ _ hc
        · exact h

theorem inv_step (op : Op) (s : Store) (h : Inv s) : Inv (step op s).2 := by
  cases op with
  | addNode g nid label props => exact inv_addNode s g nid label props h
  | deleteNode g nid => exact inv_deleteNode s g nid h
  | addLink g a rel b props => exact inv_addLink s g a rel b props h
  | updateNodeProperty g nid k v => exact assertVal_pred Inv v s _ h (inv_updateNodeProperty s g nid k v h)
  | unsetNodeProperty g nid k => exact inv_unsetNodeProperty s g nid k h
  | updateNodesProperty g k v => exact assertVal_pred Inv v s _ h (inv_updateNodesProperty s g k v h)
  | updateNodeProperties g nid props => exact inv_updateNodeProperties s g nid props h
  | updateLinkProperty g a b kind k v => exact assertVal_pred Inv v s _ h (inv_updateLinkProperty s g a b kind k v h)
  | unsetLinkProperty g a b kind k => exact inv_unsetLinkProperty s g a b kind k h
  | updateLinkProperties g a b kind props => exact inv_updateLinkProperties s g a b kind props h
  | deleteGraph g => exact inv_delGraphNl s g h
  | addGraph g ig => exact inv_addGraph s g ig.close h ig.close_WF
  | addGraphDirect g ig => exact inv_addGraphDirect s g ig.close h ig.close_WF
  | delAllGraphs => exact ⟨by simp [step, delAllGraphs], by simp [step, delAllGraphs], by simp [step, delAllGraphs]⟩
  | clone g g2 => exact inv_cloneGraph s g g2 h
  | mergeNodes g nid g2 pol => exact inv_mergeNodes s g nid g2 pol h
  | getNodeProperties g nid =>
    simp only [step, getNodeProperties]
    refine withNode_inv s g nid _ h (fun i _ => ?_)
    split
    · exact h
    · split <;> exact h
  | getLinkProperties g a b =>
    simp only [step, getLinkProperties]
    refine withNode_inv s g a _ h (fun ia _ => withNode_inv s g b _ h (fun ib _ => ?_))
    split
    · exact h
    · split <;> exact h
  | listAllNodeIds g => simp only [step, listAllNodeIds, nidList]; split; exact h; split <;> exact h
  | nodesByClass g label => simp only [step, nodesByClass, nidList]; split <;> exact h
  | nodesByClassAndType g label ntype => simp only [step, nodesByClassAndType, nidList]; split <;> exact h
  | nodeExists g nid label => simp only [step, nodeExists]; split <;> exact h
  | graphExists g => exact h
  | checkNodeUnique g label name => exact h
  | findMatchingNodes g other =>
    simp only [step, findMatchingNodes]
    split
    · exact h
    · split <;> exact h
    · exact h

end FimVerif.Store
