import FimVerif.Model.Diff
namespace FimVerif.Diff
variable {α : Type} [Named α]

/-- dictionary well-formedness: keys are unique -/
def WfDict (d : List α) : Prop := (d.map name).Nodup

instance (d : List α) : Decidable (WfDict d) := by unfold WfDict; infer_instance

theorem hasKey_iff (d : List α) (k : String) : hasKey d k = true ↔ ∃ x ∈ d, name x = k := by
  simp [hasKey, List.any_eq_true]

theorem hasKey_false_iff (d : List α) (k : String) : hasKey d k = false ↔ ∀ x ∈ d, name x ≠ k := by
  simp [hasKey]

theorem get?_eq_none_iff (d : List α) (k : String) : get? d k = none ↔ hasKey d k = false := by
  simp [get?, hasKey]

theorem get?_some_mem {d : List α} {k : String} {y : α} (h : get? d k = some y) : y ∈ d ∧ name y = k := by
  unfold get? at h
  exact ⟨List.mem_of_find?_eq_some h, by simpa using List.find?_some h⟩

theorem get?_eq_some_iff {d : List α} (hd : WfDict d) (k : String) (y : α) :
    get? d k = some y ↔ y ∈ d ∧ name y = k := by
  constructor
  · exact get?_some_mem
  · intro ⟨hm, hn⟩
    induction d with
    | nil => simp at hm
    | cons x xs ih =>
      simp only [WfDict, List.map_cons, List.nodup_cons, List.mem_map, not_exists, not_and] at hd
      simp only [get?, List.find?_cons]
      by_cases hx : name x = k
      · simp only [hx, beq_self_eq_true]
        rcases List.mem_cons.mp hm with rfl | hm'
        · rfl
        · exact absurd (hn.trans hx.symm) (hd.1 y hm')
      · have : (name x == k) = false := by simpa using hx
        simp only [this]
        rcases List.mem_cons.mp hm with rfl | hm'
        · exact absurd hn hx
        · exact ih hd.2 hm'

theorem hasKey_iff_get? (d : List α) (k : String) : hasKey d k = true ↔ (get? d k).isSome = true := by
  simp [get?, hasKey, List.find?_isSome]

/-- `hasKey` reads the key list only -/
theorem hasKey_of_names (b b' : List α) (h : b.map name = b'.map name) (k : String) :
    hasKey b k = hasKey b' k := by
  have e : ∀ d : List α, hasKey d k = (d.map name).any (fun n => n == k) := by
    intro d; simp [hasKey, List.any_map, Function.comp_def]
  rw [e b, e b', h]

theorem mem_dictAdded (a b : List α) (x : α) : x ∈ dictAdded a b ↔ x ∈ b ∧ hasKey a (name x) = false := by
  simp [dictAdded, List.mem_filter]

theorem mem_dictRemoved (a b : List α) (x : α) : x ∈ dictRemoved a b ↔ x ∈ a ∧ hasKey b (name x) = false := by
  simp [dictRemoved, List.mem_filter]

theorem mem_dictCommon (a b : List α) (x : α) : x ∈ dictCommon a b ↔ x ∈ a ∧ hasKey b (name x) = true := by
  simp [dictCommon, List.mem_filter]

theorem dictAdded_eq_removed (a b : List α) : dictAdded a b = dictRemoved b a := rfl

theorem hasKey_self {d : List α} {x : α} (h : x ∈ d) : hasKey d (name x) = true :=
  (hasKey_iff d _).2 ⟨x, h, rfl⟩

theorem dictAdded_self (a : List α) : dictAdded a a = [] := by
  simp only [dictAdded, List.filter_eq_nil_iff]
  intro x hx; simp [hasKey_self hx]

theorem dictRemoved_self (a : List α) : dictRemoved a a = [] := dictAdded_self a

theorem dictCommon_self (a : List α) : dictCommon a a = a := by
  simp only [dictCommon, List.filter_eq_self]
  intro x hx; exact hasKey_self hx

/-- membership in the result of the modified-loop -/
theorem mem_modLoop (flag : α → α → Flags) (b l : List α) (k : String) (f : Flags) :
    (k, f) ∈ modLoop flag b l ↔ ∃ x ∈ l, ∃ y, get? b (name x) = some y ∧ name x = k ∧ flag x y = f ∧ f ≠ Flags.none := by
  induction l with
  | nil => simp [modLoop]
  | cons x xs ih =>
    simp only [modLoop]
    cases hg : get? b (name x) with
    | none =>
      simp only [ih, List.mem_cons, exists_eq_or_imp, hg]
      simp
    | some y =>
      by_cases hf : flag x y = Flags.none
      · simp only [hf, if_true, ih, List.mem_cons, exists_eq_or_imp, hg]
        constructor
        · intro h; exact Or.inr h
        · rintro (⟨y', hy', _, h1, h2⟩ | h)
          · simp only [Option.some.injEq] at hy'; subst hy'; rw [hf] at h1; exact absurd h1.symm h2
          · exact h
      · simp only [hf, if_false, List.mem_cons, ih, exists_eq_or_imp, hg, Prod.mk.injEq]
        constructor
        · rintro (⟨h1, h2⟩ | h)
          · exact Or.inl ⟨y, rfl, h1.symm, h2.symm, by rw [h2]; exact hf⟩
          · exact Or.inr h
        · rintro (⟨y', hy', h1, h2, _⟩ | h)
          · simp only [Option.some.injEq] at hy'; subst hy'; exact Or.inl ⟨h1.symm, h2.symm⟩
          · exact Or.inr h

theorem modLoop_nil_of_self (flag : α → α → Flags) {b : List α} (hb : WfDict b) (l : List α)
    (hl : ∀ x ∈ l, x ∈ b) (hself : ∀ x ∈ b, flag x x = Flags.none) : modLoop flag b l = [] := by
  induction l with
  | nil => rfl
  | cons x xs ih =>
    have hx : x ∈ b := hl x (List.mem_cons_self)
    have : get? b (name x) = some x := (get?_eq_some_iff hb _ _).2 ⟨hx, rfl⟩
    simp only [modLoop, this, hself x hx, if_true]
    exact ih (fun z hz => hl z (List.mem_cons_of_mem _ hz))

/-- keys of the modified list are pairwise distinct -/
theorem modLoop_keys_sublist (flag : α → α → Flags) (b l : List α) :
    ((modLoop flag b l).map Prod.fst).Sublist (l.map name) := by
  induction l with
  | nil => simp [modLoop]
  | cons x xs ih =>
    simp only [modLoop]
    cases hg : get? b (name x) with
    | none => exact ih.trans (List.sublist_cons_self _ _)
    | some y =>
      by_cases hf : flag x y = Flags.none
      · simp only [hf, if_true]; exact ih.trans (List.sublist_cons_self _ _)
      · simp only [hf, if_false, List.map_cons]; exact ih.cons_cons _


/-! ### one dictionary level -/

/-- the `*Info` object may be missing: then it behaves as an empty dictionary -/
abbrev dictOf (o : Option (List α)) : List α := o.getD []

theorem dictAdded_nil_left (y : List α) : dictAdded ([] : List α) y = y := by
  simp [dictAdded, hasKey]
theorem dictRemoved_nil_right (x : List α) : dictRemoved x ([] : List α) = x := by
  simp [dictRemoved, hasKey]
theorem dictCommon_nil_right (x : List α) : dictCommon x ([] : List α) = [] := by
  simp [dictCommon, hasKey]

/-- the three `if`s collapse to one uniform computation on `dictOf` -/
theorem levelDiff_norm (flag : α → α → Flags) (a b : Option (List α)) :
    levelDiff flag a b =
      { added := (dictAdded (dictOf a) (dictOf b)).map name,
        removed := (dictRemoved (dictOf a) (dictOf b)).map name,
        modified := modLoop flag (dictOf b) (dictCommon (dictOf a) (dictOf b)) } := by
  have ht : ∀ l : List α, l.filter (fun _ => true) = l := fun l => List.filter_eq_self.2 (by simp)
  have hf : ∀ l : List α, l.filter (fun _ => false) = [] := fun l => List.filter_eq_nil_iff.2 (by simp)
  cases a <;> cases b <;>
    simp [levelDiff, dictOf, dictAdded, dictRemoved, dictCommon, modLoop, hasKey, ht, hf]

theorem mem_level_added (flag : α → α → Flags) (a b : Option (List α)) (k : String) :
    k ∈ (levelDiff flag a b).added ↔ hasKey (dictOf b) k = true ∧ hasKey (dictOf a) k = false := by
  rw [levelDiff_norm]
  simp only [List.mem_map, mem_dictAdded, hasKey_iff]
  constructor
  · rintro ⟨x, ⟨hx, hk⟩, rfl⟩; exact ⟨⟨x, hx, rfl⟩, hk⟩
  · rintro ⟨⟨x, hx, rfl⟩, hk⟩; exact ⟨x, ⟨hx, hk⟩, rfl⟩

theorem mem_level_removed (flag : α → α → Flags) (a b : Option (List α)) (k : String) :
    k ∈ (levelDiff flag a b).removed ↔ hasKey (dictOf a) k = true ∧ hasKey (dictOf b) k = false := by
  rw [levelDiff_norm]
  simp only [List.mem_map, mem_dictRemoved, hasKey_iff]
  constructor
  · rintro ⟨x, ⟨hx, hk⟩, rfl⟩; exact ⟨⟨x, hx, rfl⟩, hk⟩
  · rintro ⟨⟨x, hx, rfl⟩, hk⟩; exact ⟨x, ⟨hx, hk⟩, rfl⟩

theorem mem_level_modified (flag : α → α → Flags) (a b : Option (List α)) (ha : WfDict (dictOf a))
    (k : String) (f : Flags) :
    (k, f) ∈ (levelDiff flag a b).modified ↔
      ∃ x y, get? (dictOf a) k = some x ∧ get? (dictOf b) k = some y ∧ flag x y = f ∧ f ≠ Flags.none := by
  rw [levelDiff_norm]
  simp only [mem_modLoop, mem_dictCommon]
  constructor
  · rintro ⟨x, ⟨hx, _⟩, y, hy, rfl, hf, hn⟩
    exact ⟨x, y, (get?_eq_some_iff ha _ _).2 ⟨hx, rfl⟩, hy, hf, hn⟩
  · rintro ⟨x, y, hx, hy, hf, hn⟩
    obtain ⟨hxm, rfl⟩ := get?_some_mem hx
    exact ⟨x, ⟨hxm, by rw [hasKey_iff_get?, hy]; rfl⟩, y, hy, rfl, hf, hn⟩

theorem level_self (flag : α → α → Flags) (a : Option (List α)) (ha : WfDict (dictOf a))
    (hself : ∀ x ∈ dictOf a, flag x x = Flags.none) : levelDiff flag a a = {} := by
  rw [levelDiff_norm, dictAdded_self, dictRemoved_self, dictCommon_self,
    modLoop_nil_of_self flag ha _ (fun _ h => h) hself]
  rfl

theorem level_dual (flag flag' : α → α → Flags) (a b : Option (List α)) :
    (levelDiff flag a b).added = (levelDiff flag' b a).removed := by
  rw [levelDiff_norm, levelDiff_norm]; rfl

theorem level_modified_nodup (flag : α → α → Flags) (a b : Option (List α)) (ha : WfDict (dictOf a)) :
    ((levelDiff flag a b).modified.map Prod.fst).Nodup := by
  rw [levelDiff_norm]
  refine List.Nodup.sublist (modLoop_keys_sublist flag _ _) ?_
  exact List.Nodup.sublist (List.Sublist.map _ (List.filter_sublist)) ha

end FimVerif.Diff
