import FimVerif.Proofs.Lemmas.StoreRefine
/-! C05: refinement of node updates and queries. Core only. -/
namespace FimVerif.Store
open FimVerif FimVerif.Gen.StoreConsts

theorem abs_updFound (s : Store) (h : Inv s) (g nid : String) (n : SNode) (hc : cand s g nid = [n]) (f f' : Props → Props)
    (hg : ∀ a, AMap.get graphId (f a) = AMap.get graphId a)
    (hn : ∀ a, AMap.get nodeId (f a) = AMap.get nodeId a)
    (he : ∀ a, AMap.erase graphId (f a) = f' (AMap.erase graphId a)) :
    abs (updNode n.iid f s) g = AGraph.updNode nid f' (abs s g) := by
  have hs := cand_single s h g nid n hc
  have := abs_updNodes s g (fun m => decide (m.iid = n.iid)) f f' hg hn he (AGraph.nidIs nid) (by
    intro m hm
    rw [nidIs_eraseG]
    have := hs.2.2.2 m hm
    by_cases e : m.iid = n.iid
    · simp [e, this.1 e]
    · have : hasNid nid m = false := by
        cases hh : hasNid nid m with
        | false => rfl
        | true => exact absurd (this.2 hh) e
      simp [e, this])
  simpa [updNode, AGraph.updNode] using this

theorem ref_updateNodeProperty (s : Store) (h : Inv s) (g nid k : String) (v : Val) (hk1 : k ≠ graphId) (hk2 : k ≠ nodeId) :
    Ref g (updateNodeProperty g nid k v s) (AGraph.updateNodeProperty nid k v (abs s g)) := by
  unfold updateNodeProperty AGraph.updateNodeProperty
  by_cases hl : k = nxLabel
  · simp only [hl, if_true]; exact ref_err g s _
  · simp only [hl, if_false]
    apply ref_withNode
    intro n hc
    exact ⟨rfl, abs_updFound s h g nid n hc _ _ (fun a => AMap.get_set_ne _ _ _ _ (Ne.symm hk1))
      (fun a => AMap.get_set_ne _ _ _ _ (Ne.symm hk2)) (fun a => AMap.erase_set_ne _ _ _ _ (Ne.symm hk1))⟩

theorem ref_updateNodeProperties (s : Store) (h : Inv s) (g nid : String) (p : Props)
    (hk1 : graphId ∉ AMap.keys p) (hk2 : nodeId ∉ AMap.keys p) :
    Ref g (updateNodeProperties g nid p s) (AGraph.updateNodeProperties nid p (abs s g)) := by
  unfold updateNodeProperties AGraph.updateNodeProperties
  by_cases hl : AMap.has nxLabel p = true
  · simp only [hl, if_true]; exact ref_err g s _
  · simp only [hl]
    apply ref_withNode
    intro n hc
    exact ⟨rfl, abs_updFound s h g nid n hc _ _ (fun a => AMap.get_update_not_mem _ _ _ hk1)
      (fun a => AMap.get_update_not_mem _ _ _ hk2) (fun a => AMap.erase_update_not_mem _ _ _ hk1)⟩

theorem has_eraseG (k : String) (hk : k ≠ graphId) (n : SNode) : AMap.has k (eraseG n) = AMap.has k n.attrs := by
  simp [AMap.has, get_eraseG k hk]

theorem find?_of_filter_single {α : Type} (p : α → Bool) (l : List α) (a : α) (h : l.filter p = [a]) : l.find? p = some a := by
  rw [← List.head?_filter, h]; rfl

theorem find_abs_cand (s : Store) (g nid : String) (n : SNode) (hc : cand s g nid = [n]) :
    (abs s g).nodes.find? (AGraph.nidIs nid) = some (eraseG n) := by
  apply find?_of_filter_single
  rw [abs_nodes, filter_map_pred eraseG (AGraph.nidIs nid) (hasNid nid) _ (fun a _ => nidIs_eraseG nid a)]
  unfold cand at hc
  rw [hc]; rfl

theorem ref_unsetNodeProperty (s : Store) (h : Inv s) (g nid k : String) :
    Ref g (unsetNodeProperty g nid k s) (AGraph.unsetNodeProperty nid k (abs s g)) := by
  unfold unsetNodeProperty AGraph.unsetNodeProperty
  by_cases hl : k = nxLabel
  · simp only [hl, if_true]; exact ref_err g s _
  · simp only [hl, if_false]
    by_cases hu : k ∈ noUnset
    · simp only [hu, if_true]; exact ref_err g s _
    · simp only [hu, if_false]
      have hk1 : k ≠ graphId := fun e => hu (e ▸ graphId_mem_noUnset)
      have hk2 : k ≠ nodeId := fun e => hu (e ▸ nodeId_mem_noUnset)
      apply ref_withNode
      intro n hc
      have hs := cand_single s h g nid n hc
      rw [nodeAttrs_of_mem s h n hs.1, find_abs_cand s g nid n hc]
      simp only [has_eraseG k hk1]
      by_cases hh : AMap.has k n.attrs = true
      · simp only [hh, if_true]
        exact ⟨rfl, abs_updFound s h g nid n hc _ _ (fun a => AMap.get_erase_ne _ _ _ (Ne.symm hk1))
          (fun a => AMap.get_erase_ne _ _ _ (Ne.symm hk2)) (fun a => AMap.erase_erase_comm _ _ _)⟩
      · simp only [hh]; exact ref_err g s _

theorem nodesOf_length_abs (s : Store) (g : String) : (abs s g).nodes.length = (nodesOf s g).length := by
  simp [abs_nodes]

theorem ref_updateNodesProperty (s : Store) (g k : String) (v : Val) (hk1 : k ≠ graphId) (hk2 : k ≠ nodeId) :
    Ref g (updateNodesProperty g k v s) (AGraph.updateNodesProperty k v (abs s g)) := by
  unfold updateNodesProperty AGraph.updateNodesProperty
  rw [nodesOf_length_abs]
  by_cases h0 : (nodesOf s g).length = 0
  · simp only [h0, if_true]; exact ref_err g s _
  · simp only [h0, if_false]
    by_cases hl : k = nxLabel
    · simp only [hl, if_true]; exact ref_err g s _
    · simp only [hl, if_false]
      refine ⟨rfl, ?_⟩
      have := abs_updNodes s g (inG g) (AMap.set k v) (AMap.set k v) (fun a => AMap.get_set_ne _ _ _ _ (Ne.symm hk1))
        (fun a => AMap.get_set_ne _ _ _ _ (Ne.symm hk2)) (fun a => AMap.erase_set_ne _ _ _ _ (Ne.symm hk1)) (fun _ => true)
        (fun m hm => by simpa [nodesOf] using (List.mem_filter.1 hm).2)
      simpa [updGraphNodes] using this

theorem ref_getNodeProperties (s : Store) (h : Inv s) (g nid : String) :
    Ref g (getNodeProperties g nid s) (AGraph.getNodeProperties nid (abs s g)) := by
  unfold getNodeProperties AGraph.getNodeProperties
  apply ref_withNode
  intro n hc
  have hs := cand_single s h g nid n hc
  rw [nodeAttrs_of_mem s h n hs.1, find_abs_cand s g nid n hc]
  simp only [get_eraseG nxLabel nxLabel_ne_graphId]
  cases hl : AMap.get nxLabel n.attrs with
  | none => exact ref_err g s _
  | some l =>
    refine ⟨?_, rfl⟩
    simp [outAbs, eraseG, AMap.erase_erase_comm]

theorem ref_nidList (s : Store) (g : String) (l : List SNode) :
    Ref g (nidList l s) (AGraph.nidList (l.map eraseG) (abs s g)) := by
  unfold nidList AGraph.nidList
  have e1 : (l.map eraseG).any (fun a => !AMap.has nodeId a) = l.any (fun n => !AMap.has nodeId n.attrs) := by
    rw [List.any_map]
    have : ((fun a => !AMap.has nodeId a) ∘ eraseG) = (fun n => !AMap.has nodeId n.attrs) := by
      funext n; simp only [Function.comp, has_eraseG nodeId nodeId_ne_graphId]
    rw [this]
  have e2 : (l.map eraseG).map (AMap.get nodeId) = l.map (fun n => AMap.get nodeId n.attrs) := by
    simp [List.map_map, Function.comp, get_eraseG nodeId nodeId_ne_graphId]
  rw [e1, e2]
  split
  · exact ref_err g s _
  · exact ⟨rfl, rfl⟩

theorem ref_listAllNodeIds (s : Store) (g : String) : Ref g (listAllNodeIds g s) (AGraph.listAllNodeIds (abs s g)) := by
  unfold listAllNodeIds AGraph.listAllNodeIds
  rw [nodesOf_length_abs]
  split
  · exact ref_err g s _
  · rw [abs_nodes]; exact ref_nidList s g _

theorem ref_nodesByClass (s : Store) (g label : String) : Ref g (nodesByClass g label s) (AGraph.nodesByClass label (abs s g)) := by
  unfold nodesByClass AGraph.nodesByClass
  rw [abs_nodes, filter_map_pred eraseG (AGraph.attrIs propClass label) (hasAttr propClass label) _
    (fun a _ => attrIs_eraseG _ _ propClass_ne_graphId a)]
  exact ref_nidList s g _

theorem ref_nodesByClassAndType (s : Store) (g label ntype : String) :
    Ref g (nodesByClassAndType g label ntype s) (AGraph.nodesByClassAndType label ntype (abs s g)) := by
  unfold nodesByClassAndType AGraph.nodesByClassAndType
  rw [abs_nodes, filter_map_pred eraseG _ (fun n => hasAttr propClass label n && hasAttr propType ntype n) _
    (fun a _ => by rw [attrIs_eraseG _ _ propClass_ne_graphId, attrIs_eraseG _ _ propType_ne_graphId])]
  exact ref_nidList s g _

theorem ref_nodeExists (s : Store) (g nid label : String) : Ref g (nodeExists g nid label s) (AGraph.nodeExists nid label (abs s g)) := by
  unfold nodeExists AGraph.nodeExists
  rw [abs_nodes, filter_map_pred eraseG _ (fun n => hasNid nid n && hasAttr propClass label n) _
    (fun a _ => by rw [nidIs_eraseG, attrIs_eraseG _ _ propClass_ne_graphId])]
  have : s.nodes.filter (fun n => inG g n && hasNid nid n && hasAttr propClass label n) =
      (nodesOf s g).filter (fun n => hasNid nid n && hasAttr propClass label n) := by
    unfold nodesOf; rw [List.filter_filter]; congr 1; funext n
    cases inG g n <;> cases hasNid nid n <;> cases hasAttr propClass label n <;> rfl
  rw [this]
  cases (nodesOf s g).filter (fun n => hasNid nid n && hasAttr propClass label n) with
  | nil => exact ⟨rfl, rfl⟩
  | cons a l => cases l <;> exact ⟨rfl, rfl⟩

theorem ref_graphExists (s : Store) (g : String) : Ref g (graphExists g s) (AGraph.graphExists (abs s g)) := by
  unfold graphExists AGraph.graphExists
  rw [nodesOf_length_abs]; exact ⟨rfl, rfl⟩

theorem ref_checkNodeUnique (s : Store) (g label name : String) :
    Ref g (checkNodeUnique g label name s) (AGraph.checkNodeUnique label name (abs s g)) := by
  unfold checkNodeUnique AGraph.checkNodeUnique
  rw [abs_nodes, filter_map_pred eraseG _ (fun n => hasAttr propName name n && hasAttr propClass label n) _
    (fun a _ => by rw [attrIs_eraseG _ _ propName_ne_graphId, attrIs_eraseG _ _ propClass_ne_graphId])]
  simp only [List.length_map]
  exact ⟨rfl, rfl⟩

end FimVerif.Store
