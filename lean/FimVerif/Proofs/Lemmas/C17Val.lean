import FimVerif.Model.DiffVal
import FimVerif.Model.Diff
/-!
# The value classes' own equality is equality of canonical forms (C17)
-/
namespace FimVerif.DiffVal
open FimVerif.Diff

theorem all_congr' {α : Type} {l : List α} {p q : α → Bool} (h : ∀ x ∈ l, p x = q x) : l.all p = l.all q := by
  induction l with
  | nil => rfl
  | cons x xs ih =>
    simp only [List.all_cons]
    rw [h x List.mem_cons_self, ih (fun y hy => h y (List.mem_cons_of_mem _ hy))]

theorem lookup_cons_self (f : String) (w : FV) (bs : Fields) : lookup ((f, w) :: bs) f = some w := by
  simp [lookup]

theorem lookup_cons_ne (f g : String) (w : FV) (bs : Fields) (h : f ≠ g) : lookup ((f, w) :: bs) g = lookup bs g := by
  have : (f == g) = false := by simpa using h
  simp [lookup, this]

/-- two instances with the same fields (same class, same library version): the loop of `__eq__` says `True` exactly when the
field dictionaries are equal - whatever the default for a missing field is -/
theorem fieldsEq_iff_eq (m : FV) (a b : Fields) (hk : a.map (·.1) = b.map (·.1)) (hn : (a.map (·.1)).Nodup) :
    fieldsEq m a b = true ↔ a = b := by
  induction a generalizing b with
  | nil =>
    cases b with
    | nil => simp [fieldsEq]
    | cons y ys => simp at hk
  | cons x xs ih =>
    cases b with
    | nil => simp at hk
    | cons y ys =>
      obtain ⟨f, v⟩ := x
      obtain ⟨g, w⟩ := y
      simp only [List.map_cons, List.cons.injEq] at hk
      obtain ⟨rfl, hk'⟩ := hk
      simp only [List.map_cons, List.nodup_cons, List.mem_map, not_exists, not_and] at hn
      have hrest : xs.all (fun e => e.2 == (lookup ((f, w) :: ys) e.1).getD m) = fieldsEq m xs ys := by
        unfold fieldsEq
        apply all_congr'
        intro e he
        rw [lookup_cons_ne f e.1 w ys (fun h => hn.1 e he h.symm)]
      unfold fieldsEq
      simp only [List.all_cons, lookup_cons_self, Option.getD_some, hrest, Bool.and_eq_true, beq_iff_eq, ih ys hk' hn.2,
        List.cons.injEq, Prod.mk.injEq, true_and]

theorem fieldsEq_refl (m : FV) (a : Fields) (hn : (a.map (·.1)).Nodup) : fieldsEq m a a = true :=
  (fieldsEq_iff_eq m a a rfl hn).2 rfl

/-! ### one field set to another value -/

/-- `setattr(instance, f, w)` on a field the instance has -/
def setField (a : Fields) (f : String) (w : FV) : Fields := a.map (fun e => if e.1 == f then (e.1, w) else e)

theorem setField_keys (a : Fields) (f : String) (w : FV) : (setField a f w).map (·.1) = a.map (·.1) := by
  simp only [setField, List.map_map]
  apply List.map_congr_left
  intro e _
  simp only [Function.comp]
  split <;> rfl

theorem lookup_setField (a : Fields) (f : String) (v w : FV) (h : lookup a f = some v) : lookup (setField a f w) f = some w := by
  induction a with
  | nil => simp [lookup] at h
  | cons x xs ih =>
    obtain ⟨g, u⟩ := x
    by_cases e : g = f
    · subst e
      simp [setField, lookup]
    · have hb : (g == f) = false := by simpa using e
      rw [lookup_cons_ne g f u xs e] at h
      have := ih h
      simp only [setField, List.map_cons, hb] at this ⊢
      simpa [lookup_cons_ne g f u _ e] using this

/-- one field set to ANY other value - however closely related: another letter case, a blank, a leading zero, the elements of a
list in another order - is a different instance, for `__eq__` from either side -/
theorem fieldsEq_setField_ne (m : FV) (a : Fields) (f : String) (v w : FV) (hn : (a.map (·.1)).Nodup)
    (hv : lookup a f = some v) (hne : w ≠ v) :
    fieldsEq m a (setField a f w) = false ∧ fieldsEq m (setField a f w) a = false := by
  have hk := setField_keys a f w
  have hd : a ≠ setField a f w := by
    intro e
    have := lookup_setField a f v w hv
    rw [← e, hv] at this
    exact hne (Option.some.inj this).symm
  constructor
  · cases h : fieldsEq m a (setField a f w)
    · rfl
    · exact absurd ((fieldsEq_iff_eq m a _ hk.symm hn).1 h) hd
  · cases h : fieldsEq m (setField a f w) a
    · rfl
    · exact absurd ((fieldsEq_iff_eq m _ a hk (hk ▸ hn)).1 h).symm hd

/-! ### JSON values -/

theorem udEq_refl (a : J) : udEq a a = true := by simp [udEq]
theorem udEq_symm (a b : J) : udEq a b = udEq b a := by
  unfold udEq
  by_cases h : a.canon = b.canon
  · rw [h]
  · have h' : ¬ b.canon = a.canon := fun e => h e.symm
    rw [beq_eq_false_iff_ne.2 h, beq_eq_false_iff_ne.2 h']
theorem udEq_trans (a b c : J) (h1 : udEq a b = true) (h2 : udEq b c = true) : udEq a c = true := by
  simp only [udEq, beq_iff_eq] at *; rw [h1, h2]
theorem udEq_iff (a b : J) : udEq a b = true ↔ a.canon = b.canon := by simp [udEq]

theorem str_total {k1 k2 : String} (hne : k1 ≠ k2) : k1 < k2 ∨ k2 < k1 := by
  by_cases h : k1 < k2
  · exact Or.inl h
  · by_cases h' : k2 < k1
    · exact Or.inr h'
    · exact absurd (String.le_antisymm (String.not_lt.1 h') (String.not_lt.1 h)) hne

theorem insert_nonmem (k : String) (v s : J) (h : ∀ k' v' t, s ≠ .mem k' v' t) : J.insert k v s = .mem k v s := by
  cases s <;> first | rfl | exact absurd rfl (h _ _ _)

/-- inserting two members with different keys into a chain gives the same chain in either order -/
theorem insert_comm (k1 k2 : String) (a b : J) (hne : k1 ≠ k2) (s : J) :
    J.insert k1 a (J.insert k2 b s) = J.insert k2 b (J.insert k1 a s) := by
  have base : ∀ s : J, (∀ k' v' t, s ≠ .mem k' v' t) →
      J.insert k1 a (J.insert k2 b s) = J.insert k2 b (J.insert k1 a s) := by
    intro s hs
    rw [insert_nonmem k2 b s hs, insert_nonmem k1 a s hs]
    rcases str_total hne with h | h
    · have h' := String.lt_asymm h
      simp [J.insert, h, h', insert_nonmem k2 b s hs]
    · have h' := String.lt_asymm h
      simp [J.insert, h, h', insert_nonmem k1 a s hs]
  induction s with
  | mem k v t _ iht =>
    by_cases h1 : k1 < k <;> by_cases h2 : k2 < k
    · rcases str_total hne with h | h
      · simp [J.insert, h1, h2, h, String.lt_asymm h]
      · simp [J.insert, h1, h2, h, String.lt_asymm h]
    · have h21 : ¬ k2 < k1 := fun h => h2 (String.lt_trans h h1)
      simp [J.insert, h1, h2, h21]
    · have h12 : ¬ k1 < k2 := fun h => h1 (String.lt_trans h h2)
      simp [J.insert, h1, h2, h12]
    · simp [J.insert, h1, h2, iht]
  | null => exact base _ (by intros; simp)
  | bool _ => exact base _ (by intros; simp)
  | num _ => exact base _ (by intros; simp)
  | str _ => exact base _ (by intros; simp)
  | arr _ _ => exact base _ (by intros; simp)
  | obj _ _ => exact base _ (by intros; simp)
  | nil => exact base _ (by intros; simp)
  | cons _ _ _ _ => exact base _ (by intros; simp)

/-- the order in which an object lists two neighbouring members does not matter (at any depth: `canon` is applied to every
sub-value); since neighbour swaps generate every reordering, neither does the order of the members of any object -/
theorem canon_swap_members (k1 k2 : String) (v1 v2 t : J) (hne : k1 ≠ k2) :
    (J.mem k1 v1 (.mem k2 v2 t)).canon = (J.mem k2 v2 (.mem k1 v1 t)).canon := by
  simp only [J.canon]
  exact insert_comm k1 k2 _ _ hne _

theorem udEq_swap_members (k1 k2 : String) (v1 v2 t : J) (hne : k1 ≠ k2) :
    udEq (.obj (.mem k1 v1 (.mem k2 v2 t))) (.obj (.mem k2 v2 (.mem k1 v1 t))) = true := by
  rw [udEq_iff]
  simp only [J.canon]
  rw [insert_comm k1 k2 _ _ hne _]

/-! ### `prop_diff` on the values as they are = `propDiff` on canonical forms -/

/-- the three tracked properties as the sliver holds them: `None` or an instance -/
structure RawProps where
  labels : Option Fields := none
  caps : Option Fields := none
  ud : Option J := none
deriving DecidableEq, Repr

/-- `prop_diff` with the classes' own `__eq__` -/
def propDiffRaw (a b : RawProps) : Flags :=
  { labels := optNe (fieldsEq .null) a.labels b.labels, caps := optNe (fieldsEq (.int 0)) a.caps b.caps,
    ud := optNe udEq a.ud b.ud }

def canonProps (a : RawProps) : Props Val :=
  { labels := a.labels.map .fields, caps := a.caps.map .fields, ud := a.ud.map (fun j => .json j.canon) }

/-- both sides (when present) are instances with the same fields, each field once -/
def SameFields (x y : Option Fields) : Prop :=
  ∀ a ∈ x, ∀ b ∈ y, a.map (·.1) = b.map (·.1) ∧ (a.map (·.1)).Nodup

instance (x y : Option Fields) : Decidable (SameFields x y) := by unfold SameFields; infer_instance

theorem optNe_fields (m : FV) (x y : Option Fields) (h : SameFields x y) :
    optNe (fieldsEq m) x y = decide (x.map Val.fields ≠ y.map Val.fields) := by
  cases x with
  | none => cases y <;> simp [optNe, optEq]
  | some a =>
    cases y with
    | none => simp [optNe, optEq]
    | some b =>
      obtain ⟨hk, hn⟩ := h a rfl b rfl
      have := fieldsEq_iff_eq m a b hk hn
      by_cases e : a = b
      · subst e
        simp [optNe, optEq, this.2 rfl]
      · have hf : fieldsEq m a b = false := by
          cases hv : fieldsEq m a b
          · rfl
          · exact absurd (this.1 hv) e
        simp [optNe, optEq, hf, e]

theorem optNe_ud (x y : Option J) :
    optNe udEq x y = decide (x.map (fun j => Val.json j.canon) ≠ y.map (fun j => Val.json j.canon)) := by
  cases x with
  | none => cases y <;> simp [optNe, optEq]
  | some a =>
    cases y with
    | none => simp [optNe, optEq]
    | some b =>
      by_cases e : a.canon = b.canon
      · simp [optNe, optEq, udEq, e]
      · simp [optNe, optEq, udEq, e]

/-- the flags `prop_diff` computes with the value classes' own equality are the flags the sliver model computes on canonical
forms (`Fields` as they are, JSON values with sorted members) -/
theorem propDiffRaw_eq (a b : RawProps) (hl : SameFields a.labels b.labels) (hc : SameFields a.caps b.caps) :
    propDiffRaw a b = propDiff (canonProps a) (canonProps b) := by
  simp only [propDiffRaw, propDiff, canonProps, optNe_fields _ _ _ hl, optNe_fields _ _ _ hc, optNe_ud]
  congr

end FimVerif.DiffVal
