import FimVerif.Model.SliverRich
import FimVerif.Proofs.C03
import FimVerif.Proofs.Lemmas.C12Codec
import FimVerif.Proofs.Lemmas.C02Check
import FimVerif.Proofs.Lemmas.C02Routes
import FimVerif.Proofs.Lemmas.C02Graph
/-! Discharging C02's codec hypothesis `FieldLaw` for the value model `SliverRich.rich`, whose encoders / decoders are the
models of C03 (JSONField classes, Tags, Gateway, PathInfo, ERO, MaintenanceInfo, JSONData) and C12 (Delegations):
`rich_rowLaw` (one value, from the round-trip theorems of those properties), `fieldLaw_rich` (a whole field map, over a
table passing the Bool checks), `typed_wf` (a whole sliver tree). -/
namespace FimVerif.C02
open FimVerif FimVerif.Sliver FimVerif.Gen.SliverMap FimVerif.SliverRich

/-- C12's `delegations_roundtrip_partial` (same statement, same four-line proof from C12's lemmas `encode_wf` and
`decode_fold`; restated here so that this file depends on C12's codec lemmas only, not on the rest of `Proofs/C12.lean`) -/
theorem deleg_roundtrip {D : Type} (ops : Deleg.DetailOps D) (ds : Deleg.Delegations D) (h : C12.WF ops ds) :
    (Deleg.encode ops ds).bind (Deleg.decode ops ds.ty) = .ok ds := by
  rw [C12.encode_wf ops ds h]
  simp only [Except.bind, Deleg.decode]
  rw [C12.decode_fold ops ds.ty ds.items { ty := ds.ty, items := [] } rfl h.1 (by simpa using h.2)]
  simp

/-- the validators a `JSONField` class is decoded with: only `Labels` has any -/
def validFor (R : Params) (cls : String) : String → JVal → Bool := if cls = "Labels" then R.valid else fun _ _ => true

/-- class names whose `from_json` is not the generic `JSONField.from_json` -/
def specialClasses : List String := ["Tags", "Gateway", "PathInfo", "ERO", "MaintenanceInfo"]

/-- **the well-typed values of a row**: value `v` is one the property read by from-row `f` (written with encoder `e`)
can hold, in the domain on which its class's own codec is lossless (C03 / C12) -/
def WTVal (R : Params) (e : Enc) (f : FromRow) : RVal → Prop
  | .str _ => (e = Enc.ident ∨ e = Enc.str) ∧ f.dec = Dec.ident ∧ f.norm ≠ Norm.ipAddress
  | .ip _ => (e = Enc.ident ∨ e = Enc.str) ∧ f.dec = Dec.ident ∧ f.norm = Norm.ipAddress
  | .enum c n => (e = Enc.ident ∨ e = Enc.str) ∧ (f.dec = Dec.typeFromStr ∨ f.dec = Dec.fromString) ∧ c = f.arg ∧
      (enumMember c n).isSome = true
  | .jf c x => e = Enc.toJson ∧ f.dec = Dec.fromJson ∧ f.arg = c ∧ c ∉ specialClasses ∧
      ∃ spec, spec ∈ Gen.Fields.all ∧ specOf c = some spec ∧ Codec.WellTyped spec (validFor R c) x ∧ Codec.encode spec x ≠ none
  | .tags ts => e = Enc.toJson ∧ f.dec = Dec.fromJson ∧ f.arg = "Tags" ∧ ∀ t ∈ ts, R.okTag t = true
  | .gw g => e = Enc.toJson ∧ f.dec = Dec.fromJson ∧ f.arg = "Gateway" ∧
      ∃ l, Codec.WellTyped Gen.Fields.labels R.valid l ∧ Codec.gatewayNew Gen.Fields.labels R.valid (some l) = .ok (some g)
  | .pinfo p => e = Enc.toJson ∧ f.dec = Dec.fromJson ∧ f.arg = "PathInfo" ∧ C03.PIDomain p ∧ p.strict = .bool false
  | .ero p => e = Enc.toJson ∧ f.dec = Dec.fromJson ∧ f.arg = "ERO" ∧ C03.PIDomain p ∧ ∃ b, p.strict = .bool b
  | .minfo m => e = Enc.toJson ∧ f.dec = Dec.fromJson ∧ f.arg = "MaintenanceInfo" ∧ m.lock = true ∧
      ∀ p ∈ m.nodes, C03.EntryOK R.iso p.2
  | .deleg ds => e = Enc.toJson ∧ f.dec = Dec.fromJson ∧ delegTy f.arg = some ds.ty ∧ C12.WF Deleg.detOps ds
  | .jdata c t => e = Enc.jsonData ∧ f.dec = Dec.jsonDataCtor ∧ f.arg = c ∧
      Codec.jdFromText R.validJson (maxOf c) t = .ok t
  | .tuple _ => e = Enc.jsonDumps ∧ f.dec = Dec.jsonLoads
  | .bool _ => e = Enc.jsonDumps ∧ f.dec = Dec.jsonLoads

theorem rowVals_single' {V : Type} (s : Sliver.Fields V) (k : String) : rowVals s [k] = (s k).map (fun v => [v]) := by
  unfold rowVals
  cases h : s k <;> simp [List.mapM_cons, h]

theorem norm_ok (R : Params) (n : Norm) (v : RVal) (h : n = Norm.ipAddress → ∀ s, v ≠ .str s) :
    (rich R).norm n v = .ok v := by
  cases n <;> cases v <;> simp_all [rich]

theorem readVal_of_dec (R : Params) (f : FromRow) (x : RP) (v : RVal)
    (hd : (rich R).dec f.dec f.arg x = .ok (some v)) (hn : (rich R).norm f.norm v = .ok v) :
    readVal (rich R) f x = .ok (some v) := by
  unfold readVal
  rw [hd]
  simp only [setRow, hn]

/-- **the row law for every well-typed value**, from the round-trip theorems of C03 and C12 -/
theorem rich_rowLaw (R : Params) (e : Enc) (f : FromRow) (v : RVal) (h : WTVal R e f v) :
    readVal (rich R) f ((rich R).enc e [v]) = .ok (some v) := by
  cases v with
  | str s =>
    obtain ⟨he, hd, hn⟩ := h
    apply readVal_of_dec
    · rcases he with rfl | rfl <;> simp [rich, textOf, hd]
    · exact norm_ok R _ _ (fun h => absurd h hn)
  | ip s =>
    obtain ⟨he, hd, hn⟩ := h
    unfold readVal
    have : (rich R).dec f.dec f.arg ((rich R).enc e [RVal.ip s]) = .ok (some (.str s)) := by
      rcases he with rfl | rfl <;> simp [rich, textOf, hd]
    rw [this]
    simp [setRow, hn, rich]
  | enum c n =>
    obtain ⟨he, hd, hc, hm⟩ := h
    subst hc
    apply readVal_of_dec
    · obtain ⟨w, hw⟩ := Option.isSome_iff_exists.mp hm
      rcases he with rfl | rfl <;> rcases hd with hd | hd <;> simp [rich, textOf, hd, hw]
    · exact norm_ok R _ _ (fun _ s => by simp)
  | jf c x =>
    obtain ⟨he, hd, ha, hsp, spec, hmem, hspec, hwt, hne⟩ := h
    subst he
    apply readVal_of_dec
    · obtain ⟨hnd, hs, _⟩ := C03.specs_sane spec hmem
      have hrt := C03.lossless spec (validFor R c) hnd hs x hwt
      cases hj : Codec.encode spec x with
      | none => exact absurd hj hne
      | some j =>
        have hdec := hrt.2 j hj
        simp only [specialClasses, List.mem_cons, List.mem_nil_iff, or_false, not_or] at hsp
        simp only [rich, hspec, hj, hd, ha, hsp.1, hsp.2.1, hsp.2.2.1, hsp.2.2.2.1, hsp.2.2.2.2, if_false]
        unfold validFor at hdec
        rw [hdec]
        rfl
    · exact norm_ok R _ _ (fun _ s => by simp)
  | tags ts =>
    obtain ⟨he, hd, ha, hok⟩ := h
    subst he
    apply readVal_of_dec
    · simp only [rich, hd, ha, if_true, C03.tags_roundtrip R.okTag ts hok]
      rfl
    · exact norm_ok R _ _ (fun _ s => by simp)
  | gw g =>
    obtain ⟨he, hd, ha, l, hl, hg⟩ := h
    subst he
    apply readVal_of_dec
    · have := C03.gateway_roundtrip R.valid l g hl hg
      simp only [rich, hd, ha, if_true, this]
      simp [exc]
    · exact norm_ok R _ _ (fun _ s => by simp)
  | pinfo p =>
    obtain ⟨he, hd, ha, hdom, hs⟩ := h
    subst he
    apply readVal_of_dec
    · obtain ⟨⟨j, hj⟩, _⟩ := C03.pathinfo_encode_total p hdom
      have := C03.pathinfo_roundtrip p hdom hs j hj
      simp only [rich, hd, ha, hj, this]
      simp [exc]
    · exact norm_ok R _ _ (fun _ s => by simp)
  | ero p =>
    obtain ⟨he, hd, ha, hdom, b, hs⟩ := h
    subst he
    apply readVal_of_dec
    · obtain ⟨_, ⟨j, hj⟩⟩ := C03.pathinfo_encode_total p hdom
      have := C03.ero_roundtrip p hdom b hs j hj
      simp only [rich, hd, ha, hj, this]
      simp [exc]
    · exact norm_ok R _ _ (fun _ s => by simp)
  | minfo m =>
    obtain ⟨he, hd, ha, hl, hent⟩ := h
    subst he
    apply readVal_of_dec
    · obtain ⟨j, hj⟩ := (C03.encode_requires_finalize m).mpr hl
      have := C03.maintenance_roundtrip R.iso m hl hent j hj
      simp only [rich, hd, ha, hj, this]
      simp [exc]
    · exact norm_ok R _ _ (fun _ s => by simp)
  | deleg ds =>
    obtain ⟨he, hd, hty, hwf⟩ := h
    subst he
    apply readVal_of_dec
    · have hrt := deleg_roundtrip Deleg.detOps ds hwf
      cases hj : Deleg.encode Deleg.detOps ds with
      | error e => rw [hj] at hrt; simp [Except.bind] at hrt
      | ok j =>
        rw [hj] at hrt
        simp only [Except.bind] at hrt
        simp only [rich, hd, hj, hty, hrt]
    · exact norm_ok R _ _ (fun _ s => by simp)
  | jdata c t =>
    obtain ⟨he, hd, ha, hok⟩ := h
    subst he
    apply readVal_of_dec
    · simp only [rich, hd, ha, hok]
      rfl
    · exact norm_ok R _ _ (fun _ s => by simp)
  | tuple xs =>
    obtain ⟨he, hd⟩ := h
    subst he
    apply readVal_of_dec
    · simp [rich, hd]
    · exact norm_ok R _ _ (fun _ s => by simp)
  | bool b =>
    obtain ⟨he, hd⟩ := h
    subst he
    apply readVal_of_dec
    · simp [rich, hd]
    · exact norm_ok R _ _ (fun _ s => by simp)

/-! ### from rows to tables -/

/-- table facts the lift needs (evaluated by `decide` over the generated tables in `Proofs/C02.lean`): an always-written
row is read by `json.loads` into a setter that accepts `None`; the two halves of the image pair are the two parts of
one `commaJoin` row, split at the last comma -/
def richRowsOK (T : KindTable) : Bool :=
  T.toRows.all (fun r => !r.always || T.fromRows.all (fun f => f.gprop != r.gprop || (f.dec == Dec.jsonLoads && f.noneOk))) &&
  T.fromRows.all (fun f => !pairKeys.contains f.key ||
    ((rowOf T f).keys == ["image_ref", "image_type"] && (rowOf T f).enc == Enc.commaJoin && f.dec == Dec.commaRSplit &&
      f.norm == Norm.ident && ((f.key == "image_ref" && f.arg == "0") || (f.key == "image_type" && f.arg == "1"))))

theorem rowOf_eq {T : KindTable} (hnd : (T.toRows.map (·.gprop)).Nodup) (r : ToRow) (hr : r ∈ T.toRows) (f : FromRow)
    (hg : f.gprop = r.gprop) : rowOf T f = r := by
  unfold rowOf
  have : T.toRows.find? (fun r' => r'.gprop == f.gprop) = some r := by
    generalize T.toRows = rows at hnd hr
    induction rows with
    | nil => cases hr
    | cons a as ih =>
      simp only [List.map_cons, List.nodup_cons] at hnd
      rcases List.mem_cons.mp hr with h | h
      · subst h; simp [hg]
      · have hne : ¬ a.gprop = f.gprop := by
          intro he
          apply hnd.1
          rw [he, hg]
          exact List.mem_map_of_mem h
        rw [List.find?_cons_of_neg (by simpa using hne)]
        exact ih hnd.2 h
  rw [this]
  rfl

theorem richRowsOK_always {T : KindTable} (h : richRowsOK T = true) (r : ToRow) (hr : r ∈ T.toRows) (hal : r.always = true)
    (f : FromRow) (hf : f ∈ T.fromRows) (hg : f.gprop = r.gprop) : f.dec = Dec.jsonLoads ∧ f.noneOk = true := by
  simp only [richRowsOK, Bool.and_eq_true, List.all_eq_true] at h
  have h1 := h.1 r hr
  rw [hal] at h1
  simp only [Bool.not_true, Bool.false_or, List.all_eq_true, Bool.or_eq_true, bne_iff_ne, ne_eq, Bool.and_eq_true, beq_iff_eq] at h1
  rcases h1 f hf with h2 | h2
  · exact absurd hg h2
  · exact h2

theorem richRowsOK_pair {T : KindTable} (h : richRowsOK T = true) (f : FromRow) (hf : f ∈ T.fromRows) (hp : f.key ∈ pairKeys) :
    (rowOf T f).keys = ["image_ref", "image_type"] ∧ (rowOf T f).enc = Enc.commaJoin ∧ f.dec = Dec.commaRSplit ∧
      f.norm = Norm.ident ∧ ((f.key = "image_ref" ∧ f.arg = "0") ∨ (f.key = "image_type" ∧ f.arg = "1")) := by
  simp only [richRowsOK, Bool.and_eq_true, List.all_eq_true] at h
  have h1 := h.2 f hf
  have hc : pairKeys.contains f.key = true := by simpa using hp
  rw [hc] at h1
  simp only [Bool.not_true, Bool.false_or, Bool.and_eq_true, Bool.or_eq_true, beq_iff_eq] at h1
  exact ⟨h1.1.1.1.1, h1.1.1.1.2, h1.1.1.2, h1.1.2, h1.2⟩

/-- **typed field maps**: every set property outside the image pair holds a well-typed value of its row; when both
halves of the image pair are set they are strings and the type has no comma (the known `image_type-comma` finding) -/
def TypedFields (R : Params) (T : KindTable) (s : Sliver.Fields RVal) : Prop :=
  (∀ f ∈ T.fromRows, f.key ∉ pairKeys → ∀ v, s f.key = some v → WTVal R (rowOf T f).enc f v) ∧
  (∀ a b, s "image_ref" = some a → s "image_type" = some b → ∃ x y, a = .str x ∧ b = .str y ∧ ',' ∉ y.toList)

/-- **the codec hypothesis discharged**: on the generated tables, every typed field map obeys `FieldLaw` -/
theorem fieldLaw_rich (R : Params) (T : KindTable) (hT : tableOK T = true) (hR : rowsOK T = true) (hX : richRowsOK T = true)
    (s : Sliver.Fields RVal) (ht : TypedFields R T s) : FieldLaw (rich R) T s := by
  intro r hr f hf hg
  have hro := rowOf_eq (tableOK_nodup_g hT) r hr f hg
  by_cases hp : f.key ∈ pairKeys
  · -- the image pair
    obtain ⟨hkeys, henc, hdec, hnorm, harg⟩ := richRowsOK_pair hX f hf hp
    rw [hro] at hkeys henc
    have hnal : r.always = true → False := by
      intro hal
      have := (richRowsOK_always hX r hr hal f hf hg).1
      rw [hdec] at this
      cases this
    rw [hkeys]
    cases ha : s "image_ref" with
    | none =>
      have : rowVals s ["image_ref", "image_type"] = none := by simp [rowVals, List.mapM_cons, ha]
      rw [this]
      exact fun hal => absurd hal (by simpa using hnal)
    | some a =>
      cases hb : s "image_type" with
      | none =>
        have : rowVals s ["image_ref", "image_type"] = none := by simp [rowVals, List.mapM_cons, ha, hb]
        rw [this]
        exact fun hal => absurd hal (by simpa using hnal)
      | some b =>
        obtain ⟨x, y, rfl, rfl, hy⟩ := ht.2 a b ha hb
        have hv : rowVals s ["image_ref", "image_type"] = some [RVal.str x, RVal.str y] := by
          simp [rowVals, List.mapM_cons, ha, hb]
        rw [hv]
        have hsplit := rsplitComma_join x y hy
        show readVal (rich R) f ((rich R).enc r.enc [RVal.str x, RVal.str y]) = .ok (s f.key)
        unfold readVal
        rcases harg with ⟨hk, h0⟩ | ⟨hk, h1⟩
        · simp [rich, henc, hdec, hsplit, h0, setRow, hnorm, hk, ha]
        · simp [rich, henc, hdec, hsplit, h1, setRow, hnorm, hk, hb]
  · obtain ⟨_, hk, _⟩ := rowsOK_single hR f hf hp
    rw [hro] at hk
    rw [hk, rowVals_single' s f.key]
    cases hv : s f.key with
    | some v =>
      have := ht.1 f hf hp v hv
      rw [hro] at this
      exact rich_rowLaw R r.enc f v this
    | none =>
      intro hal
      obtain ⟨hd, hn⟩ := richRowsOK_always hX r hr hal f hf hg
      show readVal (rich R) f ((rich R).encNone r.enc) = .ok none
      unfold readVal
      simp [rich, hd, setRow, hn]

/-! ### from tables to trees -/

/-- equality of values is decided classically (the values contain `__dict__`s as functions); the tree theorems of C02
hold for any `DecidableEq` instance -/
noncomputable instance : DecidableEq RVal := fun a b => Classical.propDecidable (a = b)

mutual
/-- **typed sliver trees**: `WF` with the codec hypothesis replaced by well-typedness of the values -/
def TypedTree (R : Params) : Sliver RVal → Prop
  | .mk k _ f ks => tableOf k ∈ tables ∧ TypedFields R (tableOf k) f ∧ FateShared (tableOf k) f ∧
      Required (tableOf k) f ∧ TypedKids R k ks ∧ (ks.map keyOf).Nodup
def TypedKids (R : Params) (parent : Kind) : List (Sliver RVal) → Prop
  | [] => True
  | c :: cs => (slotOf parent c.kind).isSome = true ∧ childOk c = true ∧ TypedTree R c ∧ TypedKids R parent cs
end

mutual
theorem typed_wf (R : Params) (hall : ∀ T ∈ tables, tableOK T = true ∧ rowsOK T = true ∧ richRowsOK T = true) :
    ∀ (s : Sliver RVal), TypedTree R s → WF (rich R) s
  | .mk k i f ks, h => by
    simp only [TypedTree] at h
    obtain ⟨hT, htf, hfate, hreq, hkids, hnd⟩ := h
    obtain ⟨h1, h2, h3⟩ := hall _ hT
    simp only [WF]
    exact ⟨h1, fieldLaw_rich R _ h1 h2 h3 f htf, hfate, hreq, typed_wfKids R hall k ks hkids, hnd⟩
theorem typed_wfKids (R : Params) (hall : ∀ T ∈ tables, tableOK T = true ∧ rowsOK T = true ∧ richRowsOK T = true)
    (parent : Kind) : ∀ (ks : List (Sliver RVal)), TypedKids R parent ks → WFKids (rich R) parent ks
  | [], _ => by simp [WFKids]
  | c :: cs, h => by
    simp only [TypedKids] at h
    simp only [WFKids]
    exact ⟨h.1, h.2.1, typed_wf R hall c h.2.2.1, typed_wfKids R hall parent cs h.2.2.2⟩
end

/-- a field map given by a finite list of (setter name, value) -/
def fieldsOfList (kvs : List (String × RVal)) : Sliver.Fields RVal := fun k => (kvs.find? (fun e => e.1 == k)).map (·.2)

/-- typing a listed field map row by row -/
theorem typedFields_ofList (R : Params) (T : KindTable) (kvs : List (String × RVal))
    (h : ∀ kv ∈ kvs, ∀ f ∈ T.fromRows, f.key = kv.1 → f.key ∉ pairKeys → WTVal R (rowOf T f).enc f kv.2)
    (hp : ∀ a b, fieldsOfList kvs "image_ref" = some a → fieldsOfList kvs "image_type" = some b →
      ∃ x y, a = .str x ∧ b = .str y ∧ ',' ∉ y.toList) : TypedFields R T (fieldsOfList kvs) := by
  refine ⟨?_, hp⟩
  intro f hf hpk v hv
  unfold fieldsOfList at hv
  cases hfind : kvs.find? (fun e => e.1 == f.key) with
  | none => rw [hfind] at hv; cases hv
  | some kv =>
    rw [hfind] at hv
    simp only [Option.map_some, Option.some.injEq] at hv
    have hmem := List.mem_of_find?_eq_some hfind
    have hkey : kv.1 = f.key := by simpa using List.find?_some hfind
    rw [← hv]
    exact h kv hmem f hf hkey.symm hpk

/-! `Flags`: every member is an explicit value (`False` is a value, not "not set"), so no `Flags` object is written as the
empty text (`drop := .keepAll` in the generated class table, regenerated by this property's run as well): the
`Codec.encode spec x ≠ none` condition of `WTVal` holds for every `Flags`, and the all-`False` object is inside the domain
of the round-trip theorems (`props_/dict_/graph_roundtrip_typed_partial`). -/
theorem flags_never_absent (x : Codec.Fields) : Codec.encode Gen.Fields.flags x ≠ none := by
  intro h
  exact ((C03.encode_none_iff _ _).1 h).2 rfl

theorem flags_value_typed (R : Params) (e : Enc) (f : FromRow) (x : Codec.Fields)
    (he : e = Enc.toJson) (hd : f.dec = Dec.fromJson) (ha : f.arg = "Flags")
    (hx : Codec.WellTyped Gen.Fields.flags (validFor R "Flags") x) : WTVal R e f (.jf "Flags" x) := by
  refine ⟨he, hd, ha, by decide, Gen.Fields.flags, by simp [Gen.Fields.all], by rfl, hx, flags_never_absent x⟩

theorem flags_all_false_wellTyped (R : Params) :
    Codec.WellTyped Gen.Fields.flags (validFor R "Flags") (Codec.defaults Gen.Fields.flags) := by
  refine ⟨?_, fun k hk => Codec.dfltOf_not_mem _ k hk⟩
  intro f hf
  right
  have hv : validFor R "Flags" = fun _ _ => true := by simp [validFor]
  rw [hv]
  simp [Gen.Fields.flags] at hf
  rcases hf with rfl | rfl | rfl | rfl <;> decide

theorem flags_all_false_typed (R : Params) (f : FromRow) (hd : f.dec = Dec.fromJson) (ha : f.arg = "Flags") :
    WTVal R Enc.toJson f (.jf "Flags" (Codec.defaults Gen.Fields.flags)) :=
  flags_value_typed R _ f _ rfl hd ha (flags_all_false_wellTyped R)
end FimVerif.C02
