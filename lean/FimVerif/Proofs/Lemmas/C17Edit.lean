import FimVerif.Proofs.Lemmas.C17Tree
/-! Edit scripts on name-keyed dictionaries and what a dictionary level reports about them (C17). -/
namespace FimVerif.Diff

/-- one edit of a dictionary: `add_x(x)`, `remove_x(k)`, or a script `e` applied to the child stored under `k` -/
inductive DEdit (α ε : Type) where
  | add (x : α)
  | remove (k : String)
  | modify (k : String) (e : ε)

section
variable {α ε : Type} [Named α]

/-- the key an edit touches -/
def DEdit.target : DEdit α ε → String
  | .add x => name x
  | .remove k => k
  | .modify k _ => k

instance : Named (DEdit α ε) := ⟨DEdit.target⟩

/-- `info.add_x(x)` is `d[x.resource_name] = x`; `info.remove_x(k)` is `d.pop(k)`; a child script is applied in place -/
def applyD1 (app : ε → α → α) : DEdit α ε → List α → List α
  | .add x, d => if hasKey d (name x) then d.map (fun y => if name y == name x then x else y) else d ++ [x]
  | .remove k, d => d.filter (fun y => !(name y == k))
  | .modify k e, d => d.map (fun y => if name y == k then app e y else y)

def applyD (app : ε → α → α) (es : List (DEdit α ε)) (d : List α) : List α :=
  es.foldl (fun d e => applyD1 app e d) d

/-- an edit makes sense on `d`: added keys are new, removed / modified keys exist -/
def okFor (d : List α) : DEdit α ε → Bool
  | .add x => !hasKey d (name x)
  | .remove k => hasKey d k
  | .modify k _ => hasKey d k

/-- non-conflicting script: no key is touched twice, and every edit makes sense on the original dictionary -/
def NC (es : List (DEdit α ε)) (d : List α) : Prop := WfDict es ∧ ∀ e ∈ es, okFor d e = true

instance (es : List (DEdit α ε)) (d : List α) : Decidable (NC es d) := by unfold NC; infer_instance

/-- what the dictionary holds under `k` after the edit `e` (for `k` = the key of `e`) -/
def DEdit.result (app : ε → α → α) (d : List α) (k : String) : DEdit α ε → Option α
  | .add x => some x
  | .remove _ => none
  | .modify _ e => (get? d k).map (app e)

theorem get?_applyD1 (app : ε → α → α) (happ : ∀ e y, name (app e y) = name y) (e : DEdit α ε) (d : List α)
    (he : okFor d e = true) (k : String) :
    get? (applyD1 app e d) k = if e.target = k then e.result app d k else get? d k := by
  cases e with
  | add x =>
    simp only [okFor, Bool.not_eq_true'] at he
    simp only [applyD1, he, Bool.false_eq_true, if_false, get?, List.find?_append, DEdit.target, DEdit.result]
    by_cases hk : name x = k
    · subst hk
      have : List.find? (fun y => name y == name x) d = none := by
        simpa [get?] using (get?_eq_none_iff d (name x)).2 he
      simp [this]
    · simp [hk]
  | remove k0 =>
    simp only [applyD1, get?, List.find?_filter, DEdit.target, DEdit.result]
    by_cases hk : k0 = k
    · subst hk
      simp
    · simp only [hk, if_false]
      congr 1
      funext y
      by_cases hy : name y = k
      · simp [hy, Ne.symm hk]
      · simp [hy]
  | modify k0 e' =>
    simp only [applyD1, get?, List.find?_map, DEdit.target, DEdit.result]
    have hq : ((fun y => name y == k) ∘ fun y => if (name y == k0) = true then app e' y else y) = (fun y : α => name y == k) := by
      funext y
      simp only [Function.comp]
      split <;> simp [happ]
    rw [hq]
    by_cases hk : k0 = k
    · subst hk
      simp only [if_true]
      cases hf : List.find? (fun y => name y == k0) d with
      | none => rfl
      | some y =>
        have : name y = k0 := by simpa using List.find?_some hf
        simp [this]
    · simp only [hk, if_false]
      cases hf : List.find? (fun y => name y == k) d with
      | none => rfl
      | some y =>
        have : name y = k := by simpa using List.find?_some hf
        have : ¬ name y = k0 := fun h => hk (h.symm.trans this)
        simp [this]

theorem names_applyD1_modify (app : ε → α → α) (happ : ∀ e y, name (app e y) = name y) (k0 : String) (e' : ε) (d : List α) :
    (applyD1 app (.modify k0 e') d).map name = d.map name := by
  simp only [applyD1, List.map_map]
  congr 1
  funext y
  simp only [Function.comp]
  split <;> simp [happ]

theorem wf_applyD1 (app : ε → α → α) (happ : ∀ e y, name (app e y) = name y) (e : DEdit α ε) (d : List α)
    (hd : WfDict d) (he : okFor d e = true) : WfDict (applyD1 app e d) := by
  cases e with
  | add x =>
    simp only [okFor, Bool.not_eq_true'] at he
    simp only [applyD1, he, Bool.false_eq_true, if_false, WfDict, List.map_append, List.map_cons, List.map_nil]
    rw [List.nodup_append]
    refine ⟨hd, by simp, ?_⟩
    intro a ha b hb
    simp only [List.mem_singleton] at hb
    subst hb
    obtain ⟨y, hy, rfl⟩ := List.mem_map.1 ha
    exact (hasKey_false_iff d _).1 he y hy
  | remove k0 =>
    exact List.Nodup.sublist (List.Sublist.map _ List.filter_sublist) hd
  | modify k0 e' =>
    unfold WfDict
    rw [names_applyD1_modify app happ]
    exact hd

theorem hasKey_applyD1 (app : ε → α → α) (happ : ∀ e y, name (app e y) = name y) (e : DEdit α ε) (d : List α)
    (he : okFor d e = true) (k : String) (hk : e.target ≠ k) : hasKey (applyD1 app e d) k = hasKey d k := by
  have := get?_applyD1 app happ e d he k
  simp only [hk, if_false] at this
  rw [Bool.eq_iff_iff, hasKey_iff_get?, hasKey_iff_get?, this]

theorem okFor_congr (d d' : List α) (e : DEdit α ε) (h : hasKey d' e.target = hasKey d e.target) : okFor d' e = okFor d e := by
  cases e <;> simp only [okFor, DEdit.target] at * <;> rw [h]

/-- the dictionary after a non-conflicting script, key by key -/
theorem get?_applyD (app : ε → α → α) (happ : ∀ e y, name (app e y) = name y) (es : List (DEdit α ε)) (d : List α)
    (hd : WfDict d) (hnc : NC es d) :
    WfDict (applyD app es d) ∧
    ∀ k, get? (applyD app es d) k = match get? es k with
      | none => get? d k
      | some e => e.result app d k := by
  induction es generalizing d with
  | nil => exact ⟨hd, fun k => rfl⟩
  | cons e es ih =>
    obtain ⟨hwf, hok⟩ := hnc
    simp only [WfDict, List.map_cons, List.nodup_cons] at hwf
    have he : okFor d e = true := hok e List.mem_cons_self
    have hne : ∀ e' ∈ es, e.target ≠ e'.target := by
      intro e' he' h
      exact hwf.1 (List.mem_map.2 ⟨e', he', h.symm⟩)
    have hnc' : NC es (applyD1 app e d) := by
      refine ⟨hwf.2, fun e' he' => ?_⟩
      rw [okFor_congr d _ e' (hasKey_applyD1 app happ e d he _ (hne e' he'))]
      exact hok e' (List.mem_cons_of_mem _ he')
    obtain ⟨ih1, ih2⟩ := ih (applyD1 app e d) (wf_applyD1 app happ e d hd he) hnc'
    refine ⟨ih1, fun k => ?_⟩
    have hstep : applyD app (e :: es) d = applyD app es (applyD1 app e d) := rfl
    have hcons : get? (e :: es) k = if e.target = k then some e else get? es k := by
      simp only [get?, List.find?_cons]
      by_cases hk : e.target = k
      · have h1 : (name e == k) = true := by simpa [Named.name] using hk
        simp [h1, hk]
      · have h1 : (name e == k) = false := by simpa [Named.name] using hk
        simp [h1, hk]
    rw [hstep, ih2 k, hcons]
    by_cases hk : e.target = k
    · have h2 : get? es k = none := by
        rw [get?_eq_none_iff, hasKey_false_iff]
        intro e' he' h
        exact hne e' he' (hk.trans h.symm)
      simp only [h2, hk, if_true]
      rw [get?_applyD1 app happ e d he k]
      simp only [hk, if_true]
    · have hd' : get? (applyD1 app e d) k = get? d k := by
        rw [get?_applyD1 app happ e d he k]; simp only [hk, if_false]
      simp only [hk, if_false]
      cases get? es k with
      | none => exact hd'
      | some e' =>
        cases e' with
        | add x => rfl
        | remove k' => rfl
        | modify k' e'' => simp only [DEdit.result, hd']

/-- the `*Info` object is created by the first `add_x` when it was missing -/
def applyO (app : ε → α → α) (es : List (DEdit α ε)) (a : Option (List α)) : Option (List α) :=
  if es.isEmpty then a else some (applyD app es (dictOf a))

theorem dictOf_applyO (app : ε → α → α) (es : List (DEdit α ε)) (a : Option (List α)) :
    dictOf (applyO app es a) = applyD app es (dictOf a) := by
  unfold applyO
  cases es with
  | nil => rfl
  | cons e es => rfl

/-- what the script itself says the level must report: the added names, the removed names, and for every child script
the flag `expFlag` predicts for it (when not NONE) -/
def expLevel (expFlag : ε → α → Flags) (d : List α) (es : List (DEdit α ε)) : Level :=
  { added := es.filterMap (fun e => match e with | .add x => some (name x) | _ => none),
    removed := es.filterMap (fun e => match e with | .remove k => some k | _ => none),
    modified := es.filterMap (fun e => match e with
      | .modify k e' =>
        match get? d k with
        | some x => if expFlag e' x = Flags.none then none else some (k, expFlag e' x)
        | none => none
      | _ => none) }

/-- same report up to order -/
def Level.Equiv (l1 l2 : Level) : Prop :=
  (∀ k, k ∈ l1.added ↔ k ∈ l2.added) ∧ (∀ k, k ∈ l1.removed ↔ k ∈ l2.removed) ∧ (∀ p, p ∈ l1.modified ↔ p ∈ l2.modified)

theorem mem_expLevel_added (expFlag : ε → α → Flags) (d : List α) (es : List (DEdit α ε)) (k : String) :
    k ∈ (expLevel expFlag d es).added ↔ ∃ x, DEdit.add x ∈ es ∧ name x = k := by
  simp only [expLevel, List.mem_filterMap]
  constructor
  · rintro ⟨e, he, h⟩
    cases e with
    | add x => exact ⟨x, he, by simpa using h⟩
    | remove _ => simp at h
    | modify _ _ => simp at h
  · rintro ⟨x, hx, rfl⟩; exact ⟨_, hx, rfl⟩

theorem mem_expLevel_removed (expFlag : ε → α → Flags) (d : List α) (es : List (DEdit α ε)) (k : String) :
    k ∈ (expLevel expFlag d es).removed ↔ DEdit.remove k ∈ es := by
  simp only [expLevel, List.mem_filterMap]
  constructor
  · rintro ⟨e, he, h⟩
    cases e with
    | add x => simp at h
    | remove k' => simp only [Option.some.injEq] at h; subst h; exact he
    | modify _ _ => simp at h
  · intro h; exact ⟨_, h, rfl⟩

theorem mem_expLevel_modified (expFlag : ε → α → Flags) (d : List α) (es : List (DEdit α ε)) (k : String) (f : Flags) :
    (k, f) ∈ (expLevel expFlag d es).modified ↔
      ∃ e' x, DEdit.modify k e' ∈ es ∧ get? d k = some x ∧ expFlag e' x = f ∧ f ≠ Flags.none := by
  simp only [expLevel, List.mem_filterMap]
  constructor
  · rintro ⟨e, he, h⟩
    cases e with
    | add x => simp at h
    | remove _ => simp at h
    | modify k' e' =>
      simp only at h
      cases hg : get? d k' with
      | none => simp [hg] at h
      | some x =>
        simp only [hg] at h
        split at h
        · simp at h
        · rename_i hn
          simp only [Option.some.injEq, Prod.mk.injEq] at h
          obtain ⟨rfl, rfl⟩ := h
          exact ⟨e', x, he, hg, rfl, hn⟩
  · rintro ⟨e', x, he, hg, rfl, hn⟩
    exact ⟨_, he, by simp [hg, hn]⟩

theorem edit_unique {es : List (DEdit α ε)} (hw : WfDict es) {e1 e2 : DEdit α ε} (h1 : e1 ∈ es) (h2 : e2 ∈ es)
    (h : e1.target = e2.target) : e1 = e2 := by
  have a1 := (get?_eq_some_iff hw e1.target e1).2 ⟨h1, rfl⟩
  have a2 := (get?_eq_some_iff hw e1.target e2).2 ⟨h2, h.symm⟩
  rw [a1] at a2; exact Option.some.inj a2

/-- **one dictionary level reports exactly the script**: for a non-conflicting script `es` applied to a dictionary,
the added names are the names of the `add`ed children, the removed names are the `remove`d keys, and a child is listed
as modified iff it has a child script whose effect on it the flag function sees, with exactly that flag -/
theorem level_edit_exact (flag : α → α → Flags) (app : ε → α → α) (happ : ∀ e y, name (app e y) = name y)
    (a : Option (List α)) (es : List (DEdit α ε)) (ha : WfDict (dictOf a)) (hnc : NC es (dictOf a))
    (hself : ∀ x ∈ dictOf a, flag x x = Flags.none) :
    Level.Equiv (levelDiff flag a (applyO app es a)) (expLevel (fun e x => flag x (app e x)) (dictOf a) es) := by
  obtain ⟨_, hget⟩ := get?_applyD app happ es (dictOf a) ha hnc
  have hmem : ∀ k e, get? es k = some e ↔ e ∈ es ∧ e.target = k := fun k e => get?_eq_some_iff hnc.1 k e
  have hB : ∀ k, hasKey (dictOf (applyO app es a)) k = (get? (applyD app es (dictOf a)) k).isSome := by
    intro k; rw [dictOf_applyO, Bool.eq_iff_iff, hasKey_iff_get?]
  have hA : ∀ k, hasKey (dictOf a) k = (get? (dictOf a) k).isSome := by
    intro k; rw [Bool.eq_iff_iff, hasKey_iff_get?]
  refine ⟨fun k => ?_, fun k => ?_, fun ⟨k, f⟩ => ?_⟩
  · rw [mem_level_added, mem_expLevel_added, hB, hA, hget k]
    cases hg : get? es k with
    | none =>
      simp only
      constructor
      · rintro ⟨h1, h2⟩; rw [h2] at h1; cases h1
      · rintro ⟨x, hx, hk⟩
        have := (hmem k (.add x)).2 ⟨hx, hk⟩
        rw [hg] at this; cases this
    | some e =>
      obtain ⟨he, hk⟩ := (hmem k e).1 hg
      have hok := hnc.2 e he
      cases e with
      | add x =>
        simp only [DEdit.target] at hk
        simp only [okFor, Bool.not_eq_true', hk, hA] at hok
        simp only [DEdit.result, Option.isSome_some, true_and, hok, true_iff]
        exact ⟨x, he, hk⟩
      | remove k' =>
        simp only [DEdit.result, Option.isSome_none, Bool.false_eq_true, false_and, false_iff]
        rintro ⟨x, hx, hk'⟩
        have := edit_unique hnc.1 he hx (by simp only [DEdit.target] at *; rw [hk, hk'])
        cases this
      | modify k' e' =>
        simp only [DEdit.result, Option.isSome_map]
        constructor
        · rintro ⟨h1, h2⟩; rw [h2] at h1; cases h1
        · rintro ⟨x, hx, hk'⟩
          have := edit_unique hnc.1 he hx (by simp only [DEdit.target] at *; rw [hk, hk'])
          cases this
  · rw [mem_level_removed, mem_expLevel_removed, hB, hA, hget k]
    cases hg : get? es k with
    | none =>
      simp only
      constructor
      · rintro ⟨h1, h2⟩; rw [h2] at h1; cases h1
      · intro hx
        have := (hmem k (.remove k)).2 ⟨hx, rfl⟩
        rw [hg] at this; cases this
    | some e =>
      obtain ⟨he, hk⟩ := (hmem k e).1 hg
      have hok := hnc.2 e he
      cases e with
      | add x =>
        simp only [DEdit.target] at hk
        simp only [okFor, Bool.not_eq_true', hk, hA] at hok
        simp only [DEdit.result, hok, Bool.false_eq_true, false_and, false_iff]
        intro hx
        have := edit_unique hnc.1 he hx (by simp only [DEdit.target] at *; rw [hk])
        cases this
      | remove k' =>
        simp only [DEdit.target] at hk
        subst hk
        simp only [okFor, hA] at hok
        simp [DEdit.result, hok, he]
      | modify k' e' =>
        simp only [DEdit.result, Option.isSome_map]
        constructor
        · rintro ⟨h1, h2⟩; rw [h2] at h1; cases h1
        · intro hx
          have := edit_unique hnc.1 he hx (by simp only [DEdit.target] at *; rw [hk])
          cases this
  · rw [mem_level_modified flag a _ ha, mem_expLevel_modified, dictOf_applyO]
    simp only [hget k]
    cases hg : get? es k with
    | none =>
      simp only
      constructor
      · rintro ⟨x, y, hx, hy, hf, hn⟩
        rw [hx] at hy; cases hy
        exact absurd (hf ▸ hself x (get?_some_mem hx).1) hn
      · rintro ⟨e', x, hx, _⟩
        have := (hmem k (.modify k e')).2 ⟨hx, rfl⟩
        rw [hg] at this; cases this
    | some e =>
      obtain ⟨he, hk⟩ := (hmem k e).1 hg
      have hok := hnc.2 e he
      cases e with
      | add x0 =>
        simp only [DEdit.target] at hk
        simp only [okFor, Bool.not_eq_true', hk] at hok
        have hnone := (get?_eq_none_iff _ _).2 hok
        constructor
        · rintro ⟨x, y, hx, _⟩; rw [hnone] at hx; cases hx
        · rintro ⟨e', x, _, hx, _⟩; rw [hnone] at hx; cases hx
      | remove k' =>
        simp only [DEdit.result]
        constructor
        · rintro ⟨x, y, _, hy, _⟩; cases hy
        · rintro ⟨e', x, hx, _⟩
          have := edit_unique hnc.1 he hx (by simp only [DEdit.target] at *; rw [hk])
          cases this
      | modify k' e' =>
        simp only [DEdit.target] at hk
        subst hk
        simp only [DEdit.result]
        constructor
        · rintro ⟨x, y, hx, hy, hf, hn⟩
          rw [hx] at hy; simp only [Option.map_some, Option.some.injEq] at hy; subst hy
          exact ⟨e', x, he, hx, hf, hn⟩
        · rintro ⟨e'', x, hx', hx, hf, hn⟩
          have := edit_unique hnc.1 he hx' rfl
          cases this
          exact ⟨x, app e' x, hx, by rw [hx]; rfl, hf, hn⟩

/-- equivalent reports are empty together -/
theorem Level.Equiv.isEmpty_eq {l1 l2 : Level} (h : Level.Equiv l1 l2) :
    (!l1.added.isEmpty || !l1.removed.isEmpty || !l1.modified.isEmpty) =
    (!l2.added.isEmpty || !l2.removed.isEmpty || !l2.modified.isEmpty) := by
  obtain ⟨h1, h2, h3⟩ := h
  have e : ∀ {β} (x y : List β), (∀ k, k ∈ x ↔ k ∈ y) → x.isEmpty = y.isEmpty := by
    intro β x y hxy
    cases x with
    | nil => cases y with
      | nil => rfl
      | cons b _ => exact absurd ((hxy b).2 List.mem_cons_self) (by simp)
    | cons a _ => cases y with
      | nil => exact absurd ((hxy a).1 List.mem_cons_self) (by simp)
      | cons _ _ => rfl
  rw [e _ _ h1, e _ _ h2, e _ _ h3]

end
end FimVerif.Diff
