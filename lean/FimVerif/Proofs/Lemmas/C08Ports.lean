import FimVerif.Proofs.Lemmas.C08Owned
import FimVerif.Proofs.Lemmas.C08Handle
/-! The service-side ports: the peering invariant, what the disconnect loop finds and deletes, and the closed forms of
the user-level calls against the declarative `Owned`. -/
namespace FimVerif.Remove

/-- **peering invariant** (decidable): a connection point is attached to at most one link; a ServicePort has no
connection-point neighbours; a link with a ServicePort end joins exactly two connection points -/
def InvPeer (g : G) : Bool :=
  g.nodes.all (fun n =>
    (n.cls != .cp || ((g.nbrs n.id .connects .link).length ≤ 1 &&
        (n.kind != kServicePort || (g.nbrs n.id .connects .cp).isEmpty))) &&
    (n.cls != .link || !((g.nbrs n.id .connects .cp).any (fun p => g.kind? p == some kServicePort)) ||
        (g.nbrs n.id .connects .cp).length == 2))

theorem elem_of_cls {g : G} {x : Nat} {c : Cls} (h : g.cls? x = some c) :
    ∃ n ∈ g.nodes, n.id = x ∧ n.cls = c ∧ g.kind? x = some n.kind := by
  unfold G.cls? at h
  cases hf : g.find x with
  | none => simp [hf] at h
  | some n =>
    obtain ⟨hn, hid⟩ := find_some hf
    simp only [hf, Option.map_some, Option.some.injEq] at h
    exact ⟨n, hn, hid, h, by simp [G.kind?, hf]⟩

theorem invPeer_cp {g : G} (hP : InvPeer g = true) {i : Nat} (hc : g.cls? i = some .cp) :
    (g.nbrs i .connects .link).length ≤ 1 ∧ (g.kind? i = some kServicePort → g.nbrs i .connects .cp = []) := by
  obtain ⟨n, hn, hid, hcl, hk⟩ := elem_of_cls hc
  have := List.all_eq_true.mp hP n hn
  simp only [hid, hcl, bne_self_eq_false, Bool.false_or, Bool.and_eq_true, decide_eq_true_eq, Bool.or_eq_true,
    bne_iff_ne, ne_eq, List.isEmpty_iff] at this
  refine ⟨this.1.1, fun hk' => ?_⟩
  rw [hk] at hk'
  rcases this.1.2 with h | h
  · exact absurd (Option.some.inj hk') h
  · exact h

theorem invPeer_link {g : G} (hP : InvPeer g = true) {l p : Nat} (hc : g.cls? l = some .link)
    (hp : p ∈ g.nbrs l .connects .cp) (hk : g.kind? p = some kServicePort) : (g.nbrs l .connects .cp).length = 2 := by
  obtain ⟨n, hn, hid, hcl, _⟩ := elem_of_cls hc
  have := List.all_eq_true.mp hP n hn
  simp only [hid, hcl, bne_self_eq_false, Bool.false_or, Bool.and_eq_true, Bool.or_eq_true, Bool.not_eq_true',
    List.any_eq_false, beq_iff_eq] at this
  rcases this.2 with h | h
  · have := h p hp; simp [hk] at this
  · exact h

theorem eq_singleton_of_mem_of_length_le_one {l : List Nat} {a : Nat} (h : a ∈ l) (hl : l.length ≤ 1) : l = [a] := by
  match l, h, hl with
  | [b], h, _ => simp at h; rw [h]
  | _ :: _ :: _, _, hl => simp at hl

/-- the port created for interface `i` is what the disconnect loop finds, and what it then deletes -/
theorem spPeers_singleton {g : G} (hP : InvPeer g = true) {i p : Nat} (hc : g.cls? i = some .cp)
    (h : spPeers g i = [p]) :
    PortOf g i p ∧ ∀ y, y ∈ cpDel g p true ↔ y = p ∨ LinkOf g i y := by
  have hp : p ∈ spPeers g i := by simp [h]
  simp only [spPeers, List.mem_filter, peers, List.mem_flatMap, beq_iff_eq, bne_iff_ne, ne_eq] at hp
  obtain ⟨⟨l, hl, hpl, hne⟩, hk⟩ := hp
  have hcl := mem_nbrs_cls _ _ _ _ _ hl
  have hcp := mem_nbrs_cls _ _ _ _ _ hpl
  have h2 := invPeer_link hP hcl hpl hk
  have hil : g.nbrs i .connects .link = [l] := eq_singleton_of_mem_of_length_le_one hl (invPeer_cp hP hc).1
  have hlp : l ∈ g.nbrs p .connects .link := nbrs_symm g l p _ _ _ hpl hcl
  have hpl' : g.nbrs p .connects .link = [l] := eq_singleton_of_mem_of_length_le_one hlp (invPeer_cp hP hcp).1
  have hpc : g.nbrs p .connects .cp = [] := (invPeer_cp hP hcp).2 hk
  refine ⟨⟨l, ⟨hc, hl, h2⟩, hpl, hne, hk⟩, fun y => ?_⟩
  simp only [cpDel, mem_dedup, cpFamily, hpc, List.filter_nil, cpLinks, List.flatMap_cons, List.flatMap_nil,
    List.append_nil, hpl', List.mem_append, List.mem_singleton, List.mem_filter, beq_iff_eq, LinkOf, hil]
  constructor
  · rintro (rfl | ⟨rfl, h2'⟩)
    · exact Or.inl rfl
    · exact Or.inr ⟨hc, rfl, h2'⟩
  · rintro (rfl | ⟨_, rfl, h2'⟩)
    · exact Or.inl rfl
    · exact Or.inr ⟨rfl, h2'⟩

theorem filter_ne_pair {l : List Nat} {i p : Nat} (h2 : l.length = 2) (hi : i ∈ l) (hp : p ∈ l) (hne : p ≠ i) :
    l.filter (fun q => q != i) = [p] := by
  match l, h2 with
  | [a, b], _ =>
    simp only [List.mem_cons, List.not_mem_nil, or_false] at hi hp
    rcases hi with rfl | rfl <;> rcases hp with rfl | rfl
    · exact absurd rfl hne
    · simp [List.filter_cons, hne]
    · simp [List.filter_cons, hne]
    · exact absurd rfl hne

theorem spPeers_of_portOf {g : G} (hP : InvPeer g = true) {i p : Nat} (h : PortOf g i p) : spPeers g i = [p] := by
  obtain ⟨l, ⟨hc, hl, h2⟩, hpl, hne, hk⟩ := h
  have hil : g.nbrs i .connects .link = [l] := eq_singleton_of_mem_of_length_le_one hl (invPeer_cp hP hc).1
  have hi : i ∈ g.nbrs l .connects .cp := nbrs_symm g i l _ _ _ hl hc
  simp only [spPeers, peers, hil, List.flatMap_cons, List.flatMap_nil, List.append_nil, filter_ne_pair h2 hi hpl hne]
  simp [hk]

/-- **ports**: what the disconnect loop over exactly the connection points below `x` adds to `OwnedG` is `Owned` -/
theorem owned_iff_disc (g : G) (hP : InvPeer g = true) (I : List Nat) (x : Nat)
    (hI : ∀ i, i ∈ I ↔ Below g x i ∧ g.cls? i = some .cp) (y : Nat) :
    (y ∈ I.flatMap (discDel g) ∨ OwnedG g x y) ↔ Owned g x y := by
  constructor
  · rintro (h | ⟨i, hb, h⟩)
    · simp only [List.mem_flatMap] at h
      obtain ⟨i, hi, hy⟩ := h
      obtain ⟨hb, hc⟩ := (hI i).mp hi
      unfold discDel at hy
      split at hy
      · rename_i p hsp
        obtain ⟨hport, hdel⟩ := spPeers_singleton hP hc hsp
        rcases (hdel y).mp hy with rfl | hl
        · exact ⟨i, hb, Or.inr (Or.inr hport)⟩
        · exact ⟨i, hb, Or.inr (Or.inl hl)⟩
      · simp at hy
    · exact ⟨i, hb, h.imp id Or.inl⟩
  · rintro ⟨i, hb, (h | h | h)⟩
    · exact Or.inr ⟨i, hb, Or.inl h⟩
    · exact Or.inr ⟨i, hb, Or.inr h⟩
    · left
      have hc : g.cls? i = some .cp := by obtain ⟨l, ⟨hc, _⟩, _⟩ := h; exact hc
      simp only [List.mem_flatMap]
      refine ⟨i, (hI i).mpr ⟨hb, hc⟩, ?_⟩
      simp only [discDel, spPeers_of_portOf hP h]
      simp [cpDel, mem_dedup, cpFamily]

theorem mem_withSubs (g : G) (hI : InvCP g = true) (a : Nat) (hc : g.cls? a = some .cp) (hs : isSub g a = false) (i : Nat) :
    i ∈ withSubs g a ↔ Below g a i := by
  rw [below_iff, children_cp_top g hI a hc hs]
  have hinv := invCP_at hI hc hs
  simp only [withSubs, List.mem_cons]
  constructor
  · rintro (rfl | h)
    · exact Or.inl rfl
    · split at h
      · exact Or.inr ⟨i, h, Below.refl⟩
      · simp at h
  · rintro (rfl | ⟨p, hp, hb⟩)
    · exact Or.inl rfl
    · have hleaf : children g p = [] := children_cp_sub g p (mem_nbrs_cls _ _ _ _ _ hp) (hinv.1 p hp).1
      have : i = p := by
        rcases (below_iff g p i).mp hb with h | ⟨a', ha', _⟩
        · exact h
        · rw [hleaf] at ha'; simp at ha'
      subst this
      right
      rcases hinv.2 with h | h
      · rw [h] at hp; simp at hp
      · simp [h, hp]

theorem below_cp_cls (g : G) (hI : InvCP g = true) (a : Nat) (hc : g.cls? a = some .cp) (hs : isSub g a = false) (i : Nat)
    (h : Below g a i) : g.cls? i = some .cp := by
  rcases (below_iff g a i).mp h with rfl | ⟨p, hp, hb⟩
  · exact hc
  · rw [children_cp_top g hI a hc hs] at hp
    have hleaf : children g p = [] := children_cp_sub g p (mem_nbrs_cls _ _ _ _ _ hp) ((invCP_at hI hc hs).1 p hp).1
    rcases (below_iff g p i).mp hb with rfl | ⟨a', ha', _⟩
    · exact mem_nbrs_cls _ _ _ _ _ hp
    · rw [hleaf] at ha'; simp at ha'

/-- the connection points below a network service are what `_disconnect_interfaces(ns.interface_list)` visits -/
theorem mem_deepIfs_ns (g : G) (hI : InvCP g = true) (s : Nat) (hc : g.cls? s = some .ns) (i : Nat) :
    i ∈ deepIfs g (g.nbrs s .connects .cp) ↔ Below g s i ∧ g.cls? i = some .cp := by
  have hch : children g s = g.nbrs s .connects .cp := by simp [children, hc]
  have htop : ∀ a ∈ g.nbrs s .connects .cp, g.cls? a = some .cp ∧ isSub g a = false := by
    intro a ha
    refine ⟨mem_nbrs_cls _ _ _ _ _ ha, ?_⟩
    have := nbrs_symm g s a _ _ _ ha hc
    simp only [isSub, List.isEmpty_eq_false_iff]
    exact List.ne_nil_of_mem this
  rw [below_iff, hch]
  simp only [deepIfs, List.mem_flatMap]
  constructor
  · rintro ⟨a, ha, hi⟩
    have hb := (mem_withSubs g hI a (htop a ha).1 (htop a ha).2 i).mp hi
    exact ⟨Or.inr ⟨a, ha, hb⟩, below_cp_cls g hI a (htop a ha).1 (htop a ha).2 i hb⟩
  · rintro ⟨(rfl | ⟨a, ha, hb⟩), hcp⟩
    · rw [hc] at hcp; cases hcp
    · exact ⟨a, ha, (mem_withSubs g hI a (htop a ha).1 (htop a ha).2 i).mpr hb⟩

theorem mem_deepIfs_flat (g : G) (L : List Nat) (i : Nat) :
    i ∈ deepIfs g (L.flatMap (fun s => g.nbrs s .connects .cp)) ↔ ∃ s ∈ L, i ∈ deepIfs g (g.nbrs s .connects .cp) := by
  simp only [deepIfs, List.mem_flatMap]
  constructor
  · rintro ⟨a, ⟨s, hs, ha⟩, hi⟩; exact ⟨s, hs, a, ha, hi⟩
  · rintro ⟨s, hs, a, ha, hi⟩; exact ⟨a, ⟨s, hs, ha⟩, hi⟩

/-- … below a component -/
theorem mem_deepIfs_comp (g : G) (hI : InvCP g = true) (c : Nat) (hc : g.cls? c = some .comp) (i : Nat) :
    i ∈ deepIfs g (ifaceListComp g c) ↔ Below g c i ∧ g.cls? i = some .cp := by
  have hch : children g c = g.nbrs c .has .ns := by simp [children, hc]
  rw [below_iff, hch]
  simp only [ifaceListComp, directIfs, mem_deepIfs_flat]
  constructor
  · rintro ⟨s, hs, hi⟩
    obtain ⟨hb, hcp⟩ := (mem_deepIfs_ns g hI s (mem_nbrs_cls _ _ _ _ _ hs) i).mp hi
    exact ⟨Or.inr ⟨s, hs, hb⟩, hcp⟩
  · rintro ⟨(rfl | ⟨s, hs, hb⟩), hcp⟩
    · rw [hc] at hcp; cases hcp
    · exact ⟨s, hs, (mem_deepIfs_ns g hI s (mem_nbrs_cls _ _ _ _ _ hs) i).mpr ⟨hb, hcp⟩⟩

/-- … below a node -/
theorem mem_deepIfs_node (g : G) (hI : InvCP g = true) (n : Nat) (hc : g.cls? n = some .node) (i : Nat) :
    i ∈ deepIfs g (ifaceListNode g n) ↔ Below g n i ∧ g.cls? i = some .cp := by
  have hch : children g n = g.nbrs n .has .comp ++ g.nbrs n .has .ns := by simp [children, hc]
  rw [below_iff, hch]
  have hsplit : i ∈ deepIfs g (ifaceListNode g n) ↔
      i ∈ deepIfs g (directIfs g n) ∨ ∃ c ∈ g.nbrs n .has .comp, i ∈ deepIfs g (ifaceListComp g c) := by
    simp only [ifaceListNode, deepIfs, List.flatMap_append, List.mem_append, List.mem_flatMap, ifaceListComp]
    constructor
    · rintro (h | ⟨a, ⟨c, hc', ha⟩, hi⟩)
      · exact Or.inl h
      · exact Or.inr ⟨c, hc', a, ha, hi⟩
    · rintro (h | ⟨c, hc', a, ha, hi⟩)
      · exact Or.inl h
      · exact Or.inr ⟨a, ⟨c, hc', ha⟩, hi⟩
  rw [hsplit]
  simp only [directIfs, mem_deepIfs_flat]
  constructor
  · rintro (⟨s, hs, hi⟩ | ⟨c, hc', hi⟩)
    · obtain ⟨hb, hcp⟩ := (mem_deepIfs_ns g hI s (mem_nbrs_cls _ _ _ _ _ hs) i).mp hi
      exact ⟨Or.inr ⟨s, List.mem_append_right _ hs, hb⟩, hcp⟩
    · obtain ⟨hb, hcp⟩ := (mem_deepIfs_comp g hI c (mem_nbrs_cls _ _ _ _ _ hc') i).mp hi
      exact ⟨Or.inr ⟨c, List.mem_append_left _ hc', hb⟩, hcp⟩
  · rintro ⟨(rfl | ⟨a, ha, hb⟩), hcp⟩
    · rw [hc] at hcp; cases hcp
    · rcases List.mem_append.mp ha with ha | ha
      · exact Or.inr ⟨a, ha, (mem_deepIfs_comp g hI a (mem_nbrs_cls _ _ _ _ _ ha) i).mpr ⟨hb, hcp⟩⟩
      · exact Or.inl ⟨a, ha, (mem_deepIfs_ns g hI a (mem_nbrs_cls _ _ _ _ _ ha) i).mpr ⟨hb, hcp⟩⟩

/-! ### closed forms of the user-level calls = `Owned` -/

theorem mem_nodeApiDel_iff_owned (g : G) (hI : InvCP g = true) (hP : InvPeer g = true) (n : Nat)
    (hc : g.cls? n = some .node) (y : Nat) : y ∈ nodeApiDel g n ↔ Owned g n y := by
  rw [← owned_iff_disc g hP _ n (mem_deepIfs_node g hI n hc) y, ← mem_nodeDel_iff_ownedG g hI n hc y]
  simp [nodeApiDel]

theorem mem_compApiDel_iff_owned (g : G) (hI : InvCP g = true) (hP : InvPeer g = true) (c : Nat)
    (hc : g.cls? c = some .comp) (y : Nat) : y ∈ compApiDel g c ↔ Owned g c y := by
  rw [← owned_iff_disc g hP _ c (mem_deepIfs_comp g hI c hc) y, ← mem_compDel_iff_ownedG g hI c hc y]
  simp [compApiDel]

theorem mem_nsApiDel_iff_owned (g : G) (hI : InvCP g = true) (hP : InvPeer g = true) (s : Nat)
    (hc : g.cls? s = some .ns) (y : Nat) : y ∈ nsApiDel g s ↔ Owned g s y := by
  rw [← owned_iff_disc g hP _ s (mem_deepIfs_ns g hI s hc) y, ← mem_nsDel_iff_ownedG g hI s hc y]
  simp [nsApiDel]

/-- a removed Link and the ServicePorts it peered -/
def OwnedLink (g : G) (l y : Nat) : Prop := y = l ∨ (y ∈ g.nbrs l .connects .cp ∧ g.kind? y = some kServicePort)

theorem mem_linkApiDel_iff_owned (g : G) (hP : InvPeer g = true) (l : Nat) (hc : g.cls? l = some .link) (y : Nat) :
    y ∈ linkApiDel g l ↔ OwnedLink g l y := by
  have hsp : ∀ p ∈ spEnds g l, ∀ z, z ∈ cpDel g p true ↔ z = p ∨ (z = l ∧ (g.nbrs l .connects .cp).length = 2) := by
    intro p hp z
    simp only [spEnds, List.mem_filter, beq_iff_eq] at hp
    have hcp := mem_nbrs_cls _ _ _ _ _ hp.1
    have hlp : l ∈ g.nbrs p .connects .link := nbrs_symm g l p _ _ _ hp.1 hc
    have hpl' : g.nbrs p .connects .link = [l] := eq_singleton_of_mem_of_length_le_one hlp (invPeer_cp hP hcp).1
    have hpc : g.nbrs p .connects .cp = [] := (invPeer_cp hP hcp).2 hp.2
    simp only [cpDel, mem_dedup, cpFamily, hpc, List.filter_nil, cpLinks, List.flatMap_cons, List.flatMap_nil,
      List.append_nil, hpl', List.mem_append, List.mem_singleton, List.mem_filter, beq_iff_eq]
    constructor
    · rintro (h | ⟨rfl, h⟩)
      · exact Or.inl h
      · exact Or.inr ⟨rfl, h⟩
    · rintro (h | ⟨rfl, h⟩)
      · exact Or.inl h
      · exact Or.inr ⟨rfl, h⟩
  simp only [linkApiDel, List.mem_cons, List.mem_flatMap, OwnedLink]
  constructor
  · rintro (rfl | ⟨p, hp, hy⟩)
    · exact Or.inl rfl
    · rcases (hsp p hp y).mp hy with rfl | ⟨rfl, _⟩
      · simp only [spEnds, List.mem_filter, beq_iff_eq] at hp; exact Or.inr hp
      · exact Or.inl rfl
  · rintro (rfl | ⟨hy, hk⟩)
    · exact Or.inl rfl
    · have hp : y ∈ spEnds g l := by simp [spEnds, hy, hk]
      exact Or.inr ⟨y, hp, (hsp y hp y).mpr (Or.inl rfl)⟩

theorem mem_childDel_iff_owned (g : G) (hP : InvPeer g = true) (c : Nat) (hc : g.cls? c = some .cp)
    (hs : isSub g c = true) (hk : g.kind? c ≠ some kDedicatedPort) (y : Nat) :
    y ∈ childDel g c ↔ Owned g c y := by
  have hleaf := children_cp_sub g c hc hs
  have hI : ∀ i, i ∈ deepIfs g [c] ↔ Below g c i ∧ g.cls? i = some .cp := by
    intro i
    have : deepIfs g [c] = [c] := by simp [deepIfs, withSubs, hk]
    rw [this, below_iff, hleaf]
    simp only [List.mem_singleton, List.not_mem_nil, false_and, exists_false, or_false]
    constructor
    · rintro rfl; exact ⟨rfl, hc⟩
    · exact fun h => h.1
  rw [← owned_iff_disc g hP _ c hI y, ← mem_cpDel_false_iff_ownedG g c hc hs y]
  simp [childDel]

end FimVerif.Remove
