import FimVerif.Model.Deleg
/-! Lemmas for `Pools.incorporate_delegation` (C12): a specification of what a sequence of
incorporated (node, delegation) entries produces, independent of where the entries came from. -/
set_option linter.unusedSimpArgs false
namespace FimVerif.C12
open FimVerif.Deleg

variable {D : Type}

/-- a delegation found on a node -/
abbrev Entry (D : Type) := String × Delegation D

def Distinct (Q : List (Pool D)) : Prop := Q.Pairwise (fun a b => a.pid ≠ b.pid)

theorem getPool_some {Q : List (Pool D)} {pid : String} {q : Pool D} (h : getPool Q pid = some q) :
    q ∈ Q ∧ q.pid = pid := by
  unfold getPool at h
  exact ⟨List.mem_of_find?_eq_some h, by simpa using List.find?_some h⟩

theorem getPool_none {Q : List (Pool D)} {pid : String} (h : getPool Q pid = none) :
    ∀ q ∈ Q, q.pid ≠ pid := by
  unfold getPool at h
  intro q hq
  simpa using (List.find?_eq_none.mp h) q hq

theorem mem_putPool (x : Pool D) (Q : List (Pool D)) (h : Distinct Q) (q : Pool D) :
    q ∈ putPool x Q ↔ q = x ∨ (q ∈ Q ∧ q.pid ≠ x.pid) := by
  induction Q with
  | nil => simp [putPool]
  | cons a Q ih =>
    have hd := List.pairwise_cons.mp h
    have ih := ih hd.2
    by_cases hax : a.pid = x.pid
    · simp only [putPool, hax, if_true, List.mem_cons]
      constructor
      · rintro (rfl | hq)
        · exact Or.inl rfl
        · exact Or.inr ⟨Or.inr hq, fun he => hd.1 q hq (by rw [hax, he])⟩
      · rintro (rfl | ⟨rfl | hq, hne⟩)
        · exact Or.inl rfl
        · exact absurd hax hne
        · exact Or.inr hq
    · simp only [putPool, hax, if_false, List.mem_cons, ih]
      constructor
      · rintro (rfl | rfl | ⟨hq, hne⟩)
        · exact Or.inr ⟨Or.inl rfl, hax⟩
        · exact Or.inl rfl
        · exact Or.inr ⟨Or.inr hq, hne⟩
      · rintro (rfl | ⟨rfl | hq, hne⟩)
        · exact Or.inr (Or.inl rfl)
        · exact Or.inl rfl
        · exact Or.inr (Or.inr ⟨hq, hne⟩)

theorem distinct_putPool (x : Pool D) (Q : List (Pool D)) (h : Distinct Q) : Distinct (putPool x Q) := by
  induction Q with
  | nil => simp [putPool, Distinct]
  | cons a Q ih =>
    have hd := List.pairwise_cons.mp h
    by_cases hax : a.pid = x.pid
    · simp only [putPool, hax, if_true]
      exact List.pairwise_cons.mpr ⟨fun b hb => by rw [← hax]; exact hd.1 b hb, hd.2⟩
    · simp only [putPool, hax, if_false]
      refine List.pairwise_cons.mpr ⟨?_, ih hd.2⟩
      intro b hb
      rcases (mem_putPool x Q hd.2 b).mp hb with rfl | ⟨hb, _⟩
      · exact hax
      · exact hd.1 b hb

theorem mem_addSet (l : List String) (x n : String) : n ∈ addSet l x ↔ n ∈ l ∨ n = x := by
  unfold addSet
  split
  · constructor
    · exact Or.inl
    · rintro (h | rfl) <;> assumption
  · simp

/-- what one pool records about the entries `S` seen so far -/
structure PInv (S : List (Entry D)) (q : Pool D) : Prop where
  onDef : ∀ s ∈ S, s.2.fmt = .definition → s.2.pool = some q.pid → q.on_ = some s.1 ∧ q.details = s.2.details
  noDef : (∀ s ∈ S, s.2.fmt = .definition → s.2.pool ≠ some q.pid) → q.on_ = none ∧ q.details = none
  refs : ∀ n, n ∈ q.for_ ↔ ∃ s ∈ S, s.1 = n ∧ s.2.fmt = .reference ∧ s.2.pool = some q.pid

/-- the delegation id of a pool is the id of one of the entries that mention it -/
def DelegW (S : List (Entry D)) (q : Pool D) : Prop :=
  ∃ s ∈ S, s.2.fmt ≠ .single ∧ s.2.pool = some q.pid ∧ q.deleg = some s.2.id

structure QInv (ty : DType) (Q : List (Pool D)) (S : List (Entry D)) : Prop where
  distinct : Distinct Q
  pool : ∀ q ∈ Q, PInv S q ∧ DelegW S q ∧ q.ty = ty
  present : ∀ s ∈ S, s.2.fmt ≠ .single → ∀ pid, s.2.pool = some pid → ∃ q ∈ Q, q.pid = pid

theorem pinv_other (S : List (Entry D)) (q : Pool D) (e : Entry D) (h : PInv S q)
    (he : e.2.fmt = .single ∨ e.2.pool ≠ some q.pid) : PInv (S ++ [e]) q := by
  constructor
  · intro s hs hf hp
    rcases List.mem_append.mp hs with hs | hs
    · exact h.onDef s hs hf hp
    · simp only [List.mem_singleton] at hs; subst hs
      rcases he with he | he
      · rw [he] at hf; cases hf
      · exact absurd hp he
  · intro hno
    exact h.noDef (fun s hs => hno s (List.mem_append_left _ hs))
  · intro n
    rw [h.refs n]
    constructor
    · rintro ⟨s, hs, h1⟩; exact ⟨s, List.mem_append_left _ hs, h1⟩
    · rintro ⟨s, hs, h1, h2, h3⟩
      rcases List.mem_append.mp hs with hs | hs
      · exact ⟨s, hs, h1, h2, h3⟩
      · simp only [List.mem_singleton] at hs; subst hs
        rcases he with he | he
        · rw [he] at h2; cases h2
        · exact absurd h3 he

theorem delegW_mono (S : List (Entry D)) (q : Pool D) (e : Entry D) (h : DelegW S q) : DelegW (S ++ [e]) q := by
  obtain ⟨s, hs, h1⟩ := h
  exact ⟨s, List.mem_append_left _ hs, h1⟩

theorem pinv_def (S : List (Entry D)) (q : Pool D) (e : Entry D) (x : D) (h : PInv S q)
    (hf : e.2.fmt = .definition) (hp : e.2.pool = some q.pid) (hx : e.2.details = some x)
    (huniq : ∀ s ∈ S, s.2.fmt = .definition → s.2.pool ≠ some q.pid) :
    PInv (S ++ [e]) { q with on_ := some e.1, details := some x, deleg := some e.2.id } := by
  constructor
  · intro s hs hsf hsp
    rcases List.mem_append.mp hs with hs | hs
    · exact absurd hsp (huniq s hs hsf)
    · simp only [List.mem_singleton] at hs; subst hs
      exact ⟨rfl, hx.symm⟩
  · intro hno
    exact absurd hp (hno e (by simp) hf)
  · intro n
    show n ∈ q.for_ ↔ _
    rw [h.refs n]
    constructor
    · rintro ⟨s, hs, h1⟩; exact ⟨s, List.mem_append_left _ hs, h1⟩
    · rintro ⟨s, hs, h1, h2, h3⟩
      rcases List.mem_append.mp hs with hs | hs
      · exact ⟨s, hs, h1, h2, h3⟩
      · simp only [List.mem_singleton] at hs; subst hs
        rw [hf] at h2; cases h2

theorem pinv_ref (S : List (Entry D)) (q : Pool D) (e : Entry D) (h : PInv S q)
    (hf : e.2.fmt = .reference) (hp : e.2.pool = some q.pid) :
    PInv (S ++ [e]) { q with for_ := addSet q.for_ e.1, deleg := some e.2.id } := by
  constructor
  · intro s hs hsf hsp
    rcases List.mem_append.mp hs with hs | hs
    · exact h.onDef s hs hsf hsp
    · simp only [List.mem_singleton] at hs; subst hs
      rw [hf] at hsf; cases hsf
  · intro hno
    refine h.noDef (fun s hs => hno s (List.mem_append_left _ hs))
  · intro n
    show n ∈ addSet q.for_ e.1 ↔ _
    rw [mem_addSet, h.refs n]
    constructor
    · rintro (⟨s, hs, h1⟩ | rfl)
      · exact ⟨s, List.mem_append_left _ hs, h1⟩
      · exact ⟨e, by simp, rfl, hf, hp⟩
    · rintro ⟨s, hs, h1, h2, h3⟩
      rcases List.mem_append.mp hs with hs | hs
      · exact Or.inl ⟨s, hs, h1, h2, h3⟩
      · simp only [List.mem_singleton] at hs; subst hs
        exact Or.inr h1.symm

theorem pinv_fresh (ty : DType) (S : List (Entry D)) (pid : String)
    (h : ∀ s ∈ S, s.2.fmt ≠ .single → s.2.pool ≠ some pid) : PInv S (mkPool ty pid none none [] : Pool D) := by
  constructor
  · intro s hs hf hp
    exact absurd hp (h s hs (by rw [hf]; decide))
  · intro _; exact ⟨rfl, rfl⟩
  · intro n
    simp only [mkPool, List.foldl_nil, List.filter_nil, List.not_mem_nil, false_iff]
    rintro ⟨s, hs, _, hf, hp⟩
    exact absurd hp (h s hs (by rw [hf]; decide))

/-- the pool an entry is applied to: the registered one or a fresh one (`get_pool_by_id`, not strict); a fresh one
cannot carry the reserved name -/
theorem base_pool (ty : DType) (Q : List (Pool D)) (S : List (Entry D)) (pid : String) (hinv : QInv ty Q S)
    (hres : pid ≠ Gen.DelegConsts.singlePoolName) :
    ∃ p, poolFor ty Q pid = .ok p ∧ p.pid = pid ∧ p.ty = ty ∧ PInv S p := by
  cases hg : getPool Q pid with
  | some q =>
    obtain ⟨hq, hpid⟩ := getPool_some hg
    exact ⟨q, by simp [poolFor, hg], hpid, (hinv.pool q hq).2.2, (hinv.pool q hq).1⟩
  | none =>
    refine ⟨mkPool ty pid none none [], by simp [poolFor, hg, newPool, hres], rfl, rfl, pinv_fresh ty S pid ?_⟩
    intro s hs hf hp
    obtain ⟨q, hq, hqp⟩ := hinv.present s hs hf pid hp
    exact getPool_none hg q hq hqp

/-- the reserved name never enters the registry through `incorporate_delegation` -/
theorem poolFor_reserved (ty : DType) (Q : List (Pool D)) (h : ∀ q ∈ Q, q.pid ≠ Gen.DelegConsts.singlePoolName) :
    poolFor ty Q Gen.DelegConsts.singlePoolName = .error .pool := by
  cases hg : getPool Q Gen.DelegConsts.singlePoolName with
  | some q => exact absurd (getPool_some hg).2 (h q (getPool_some hg).1)
  | none => simp [poolFor, hg, newPool]

/-- re-establish the invariant after the pool `p'` (same id as the entry's pool) has been stored -/
theorem qinv_put (ty : DType) (Q : List (Pool D)) (S : List (Entry D)) (e : Entry D) (p' : Pool D)
    (hinv : QInv ty Q S) (hns : e.2.fmt ≠ .single) (hp : e.2.pool = some p'.pid) (hty : p'.ty = ty)
    (hpinv : PInv (S ++ [e]) p') (hdel : p'.deleg = some e.2.id) : QInv ty (putPool p' Q) (S ++ [e]) := by
  refine ⟨distinct_putPool p' Q hinv.distinct, ?_, ?_⟩
  · intro q hq
    rcases (mem_putPool p' Q hinv.distinct q).mp hq with rfl | ⟨hq, hne⟩
    · exact ⟨hpinv, ⟨e, by simp, hns, hp, hdel⟩, hty⟩
    · obtain ⟨h1, h2, h3⟩ := hinv.pool q hq
      refine ⟨pinv_other S q e h1 (Or.inr ?_), delegW_mono S q e h2, h3⟩
      rw [hp]; intro h; exact hne (Option.some.inj h).symm
  · intro s hs hf pid hpid
    rcases List.mem_append.mp hs with hs | hs
    · obtain ⟨q, hq, hqp⟩ := hinv.present s hs hf pid hpid
      by_cases hc : q.pid = p'.pid
      · exact ⟨p', (mem_putPool p' Q hinv.distinct p').mpr (Or.inl rfl), by rw [← hc, hqp]⟩
      · exact ⟨q, (mem_putPool p' Q hinv.distinct q).mpr (Or.inr ⟨hq, hc⟩), hqp⟩
    · simp only [List.mem_singleton] at hs; subst hs
      rw [hp] at hpid
      exact ⟨p', (mem_putPool p' Q hinv.distinct p').mpr (Or.inl rfl), Option.some.inj hpid⟩

/-- one iteration of `incorporate_delegation` keeps the invariant -/
theorem inc_step (ty : DType) (Q : List (Pool D)) (S : List (Entry D)) (e : Entry D) (hinv : QInv ty Q S)
    (hpool : e.2.fmt ≠ .single → e.2.pool ≠ none) (hdet : e.2.fmt = .definition → e.2.details ≠ none)
    (hres : e.2.fmt ≠ .single → e.2.pool ≠ some Gen.DelegConsts.singlePoolName)
    (huniq : ∀ s ∈ S, s.2.fmt = .definition → e.2.fmt = .definition → s.2.pool ≠ e.2.pool) :
    ∃ Q', incOne ty e.1 Q e.2 = .ok Q' ∧ QInv ty Q' (S ++ [e]) := by
  obtain ⟨node, d⟩ := e
  simp only at hpool hdet hres huniq ⊢
  cases hf : d.fmt with
  | single =>
    refine ⟨Q, by simp [incOne, hf], hinv.distinct, ?_, ?_⟩
    · intro q hq
      obtain ⟨h1, h2, h3⟩ := hinv.pool q hq
      exact ⟨pinv_other S q (node, d) h1 (Or.inl hf), delegW_mono S q _ h2, h3⟩
    · intro s hs hsf pid hpid
      rcases List.mem_append.mp hs with hs | hs
      · exact hinv.present s hs hsf pid hpid
      · simp only [List.mem_singleton] at hs; subst hs
        exact absurd hf hsf
  | definition =>
    cases hp : d.pool with
    | none => exact absurd hp (hpool (by rw [hf]; decide))
    | some pid =>
      cases hx : d.details with
      | none => exact absurd hx (hdet hf)
      | some x =>
        have hpr : pid ≠ Gen.DelegConsts.singlePoolName := fun h => hres (by rw [hf]; decide) (by rw [hp, h])
        obtain ⟨bp, hbok, hbpid, hbty, hbinv⟩ := base_pool ty Q S pid hinv hpr
        have hu : ∀ s ∈ S, s.2.fmt = .definition → s.2.pool ≠ some bp.pid := by
          intro s hs hsf; rw [hbpid, ← hp]; exact huniq s hs hsf hf
        have hon := (hbinv.noDef hu).1
        refine ⟨putPool { bp with on_ := some node, details := some x, deleg := some d.id } Q, ?_, ?_⟩
        · simp [incOne, hf, hp, hx, hon, hbok, bind, Except.bind]
        · exact qinv_put ty Q S (node, d) _ hinv (by simp [hf]) (by simp [hp, hbpid]) hbty
            (pinv_def S _ (node, d) x hbinv hf (by simp [hp, hbpid]) hx hu) rfl
  | reference =>
    cases hp : d.pool with
    | none => exact absurd hp (hpool (by rw [hf]; decide))
    | some pid =>
      have hpr : pid ≠ Gen.DelegConsts.singlePoolName := fun h => hres (by rw [hf]; decide) (by rw [hp, h])
      obtain ⟨bp, hbok, hbpid, hbty, hbinv⟩ := base_pool ty Q S pid hinv hpr
      refine ⟨putPool { bp with for_ := addSet bp.for_ node, deleg := some d.id } Q, ?_, ?_⟩
      · simp [incOne, hf, hp, hbok, bind, Except.bind]
      · exact qinv_put ty Q S (node, d) _ hinv (by simp [hf]) (by simp [hp, hbpid]) hbty
          (pinv_ref S _ (node, d) hbinv hf (by simp [hp, hbpid])) rfl

/-- entries that can be incorporated without an exception: a pool name (not the reserved one) on every definition /
reference, details on every definition, at most one definition per pool -/
structure Incorporable (L : List (Entry D)) : Prop where
  hasPool : ∀ e ∈ L, e.2.fmt ≠ .single → e.2.pool ≠ none
  notReserved : ∀ e ∈ L, e.2.fmt ≠ .single → e.2.pool ≠ some Gen.DelegConsts.singlePoolName
  hasDetails : ∀ e ∈ L, e.2.fmt = .definition → e.2.details ≠ none
  oneDef : L.Pairwise (fun a b => a.2.fmt = .definition → b.2.fmt = .definition → a.2.pool ≠ b.2.pool)

theorem inc_fold (ty : DType) (L : List (Entry D)) (S : List (Entry D)) (Q : List (Pool D))
    (hinv : QInv ty Q S) (hL : Incorporable (S ++ L)) :
    ∃ Q', L.foldlM (fun l e => incOne ty e.1 l e.2) Q = .ok Q' ∧ QInv ty Q' (S ++ L) := by
  induction L generalizing S Q with
  | nil => exact ⟨Q, rfl, by simpa using hinv⟩
  | cons e L ih =>
    have hmem : e ∈ S ++ e :: L := by simp
    obtain ⟨Q1, h1, hinv1⟩ := inc_step ty Q S e hinv (hL.hasPool e hmem) (hL.hasDetails e hmem) (hL.notReserved e hmem)
      (fun s hs => (List.pairwise_append.mp hL.oneDef).2.2 s hs e (by simp))
    have hL' : Incorporable ((S ++ [e]) ++ L) := by simpa [List.append_assoc] using hL
    obtain ⟨Q2, h2, hinv2⟩ := ih (S ++ [e]) Q1 hinv1 hL'
    refine ⟨Q2, ?_, by simpa [List.append_assoc] using hinv2⟩
    rw [List.foldlM_cons, h1]
    exact h2

theorem qinv_nil (ty : DType) : QInv ty ([] : List (Pool D)) [] :=
  ⟨List.Pairwise.nil, by simp, by simp⟩

end FimVerif.C12
