import FimVerif.Proofs.Lemmas.C10
/-! Decision procedures for the declarative specifications of C10 (`SpecOK`, `SpecFull`), so that the
driver can report, for every request, whether the slice satisfies the *specification* - the harness
compares that with its own independent oracle. -/
namespace FimVerif.Validate
open FimVerif.Gen.Constraints (SvcRow NodeRow)

instance (exp : Bool) (row : SvcRow) (s : Svc) (n : List NIface) : Decidable (NstypeOK exp row s n) :=
  decidable_of_iff
    ((exp = true → row.minIfs = 0 ∨ row.minIfs ≤ n.length) ∧ (exp = true → row.numIfs = 0 ∨ n.length ≤ row.numIfs) ∧
     (row.numSites ≠ 0 → ∀ i ∈ n, i.owner.isSome) ∧ (row.numSites ≠ 0 → (dedup (n.filterMap (·.owner))).length ≤ row.numSites) ∧
     (row.numSites ≠ 0 → truthy s.site = true → ∀ i ∈ n, i.owner = s.site))
    ⟨fun ⟨a, b, c, d, e⟩ => ⟨a, b, c, d, e⟩, fun h => ⟨h.minIfs, h.maxIfs, h.owners, h.maxSites, h.siteAgrees⟩⟩

instance (c : Cfg) (exp : Bool) (row : SvcRow) (s : Svc) : Decidable (SvcOK c exp row s) :=
  decidable_of_iff
    ((∀ i ∈ s.ifs, (nifOf s i).isSome) ∧ NstypeOK exp row s (nifs s) ∧ (∀ p ∈ row.req ++ row.forb, p ∈ c.svcGetters) ∧
     (∀ p ∈ row.req, svcHolds c c.svcReqTruthy s (recordedSite row s) p = true) ∧ (∀ p ∈ row.forb, svcHolds c c.svcForbTruthy s (recordedSite row s) p = false) ∧
     (row.ifTypes = [] ∨ ∀ i ∈ nifs s, i.kind ∈ row.ifTypes))
    ⟨fun ⟨a, b, c, d, e, f⟩ => ⟨a, b, c, d, e, f⟩, fun h => ⟨h.ports, h.nstype, h.getters, h.required, h.forbidden, h.ifTypes⟩⟩

instance (exp : Bool) (row : SvcRow) (s : Svc) : Decidable (SvcFull exp row s) :=
  decidable_of_iff
    ((∀ i ∈ s.ifs, (nifOf s i).isSome) ∧ NstypeOK exp row s (nifs s) ∧
     (∀ p ∈ row.req, svcHas s (recordedSite row s) p = true) ∧ (∀ p ∈ row.forb, svcHas s (recordedSite row s) p = false) ∧
     (row.ifTypes = [] ∨ ∀ i ∈ nifs s, i.kind ∈ row.ifTypes))
    ⟨fun ⟨a, b, c, d, e⟩ => ⟨a, b, c, d, e⟩, fun h => ⟨h.ports, h.nstype, h.required, h.forbidden, h.ifTypes⟩⟩

instance (c : Cfg) (row : NodeRow) (n : Node) : Decidable (NodeOK c row n) :=
  decidable_of_iff ((∀ p ∈ row.req, nodeSees c c.nodeReqTruthy n p = true) ∧ (∀ p ∈ row.forb, nodeSees c c.nodeForbTruthy n p = false))
    ⟨fun ⟨a, b⟩ => ⟨a, b⟩, fun h => ⟨h.required, h.forbidden⟩⟩

instance (row : NodeRow) (n : Node) : Decidable (NodeFull row n) :=
  decidable_of_iff ((∀ p ∈ row.req, p ∈ n.props) ∧ (∀ p ∈ row.forb, p ∉ n.props))
    ⟨fun ⟨a, b⟩ => ⟨a, b⟩, fun h => ⟨h.required, h.forbidden⟩⟩

/-- `∃ row, lookup = some row ∧ P row` is decided by looking the row up -/
def decExistsRow {α : Type} (l : List (String × α)) (k : String) (P : α → Prop) [∀ a, Decidable (P a)] :
    Decidable (∃ row, l.lookup k = some row ∧ P row) :=
  match h : l.lookup k with
  | none => isFalse (by rintro ⟨row, hr, _⟩; cases hr)
  | some row =>
    if hp : P row then isTrue ⟨row, rfl, hp⟩
    else isFalse (by rintro ⟨row', hr, hp'⟩; cases hr; exact hp hp')

instance (c : Cfg) (exp : Bool) (s : Svc) : Decidable (∃ row, c.svc.lookup s.ty = some row ∧ SvcOK c exp row s) :=
  decExistsRow c.svc s.ty (fun row => SvcOK c exp row s)
instance (c : Cfg) (exp : Bool) (s : Svc) : Decidable (∃ row, c.svc.lookup s.ty = some row ∧ SvcFull exp row s) :=
  decExistsRow c.svc s.ty (fun row => SvcFull exp row s)
instance (c : Cfg) (n : Node) : Decidable (∃ row, c.node.lookup n.ty = some row ∧ NodeOK c row n) :=
  decExistsRow c.node n.ty (fun row => NodeOK c row n)
instance (c : Cfg) (n : Node) : Decidable (∃ row, c.node.lookup n.ty = some row ∧ NodeFull row n) :=
  decExistsRow c.node n.ty (fun row => NodeFull row n)

instance (c : Cfg) (svcs : List Svc) : Decidable (InstOK c svcs) :=
  decidable_of_iff (instances c svcs = .ok ()) (instances_ok c svcs)

instance (c : Cfg) (t : Topo) : Decidable (SpecOK c t) :=
  decidable_of_iff
    ((∀ n ∈ t.nodes, n.ty ∉ c.nodeTypesNotValidated → ∃ row, c.node.lookup n.ty = some row ∧ NodeOK c row n) ∧
     (∀ s ∈ t.svcs, ∃ row, c.svc.lookup s.ty = some row ∧ SvcOK c t.exp row s) ∧ InstOK c (t.svcs.map (recordSite c)))
    ⟨fun ⟨a, b, c⟩ => ⟨a, b, c⟩, fun h => ⟨h.nodes, h.svcs, h.instances⟩⟩

instance (c : Cfg) (t : Topo) : Decidable (SpecFull c t) :=
  decidable_of_iff
    ((∀ n ∈ t.nodes, ∃ row, c.node.lookup n.ty = some row ∧ NodeFull row n) ∧
     (∀ s ∈ t.svcs, ∃ row, c.svc.lookup s.ty = some row ∧ SvcFull t.exp row s) ∧ InstOK c (t.svcs.map (recordSite c)))
    ⟨fun ⟨a, b, c⟩ => ⟨a, b, c⟩, fun h => ⟨h.nodes, h.svcs, h.instances⟩⟩

end FimVerif.Validate
