import FimVerif.Proofs.Lemmas.C03RoundTrip
/-! Helper definitions and lemmas for the class-level theorems of C03. -/
namespace FimVerif.C03
open FimVerif FimVerif.Codec JVal

/-- no field holds a value that `to_json` drops although it differs from the default -/
def NoLoss (c : ClassSpec) (x : Fields) : Prop :=
  ∀ f ∈ c.fields, dropped c.drop f.dflt (x f.name) = true → x f.name = f.dflt

theorem encode_none_iff (c : ClassSpec) (x : Fields) :
    encode c x = none ↔ keptBy c.drop c x = [] ∧ c.drop ≠ .keepAll := by
  unfold encode
  cases hk : keptBy c.drop c x <;> cases hd : c.drop <;> simp

theorem encode_some (c : ClassSpec) (x : Fields) (j : JVal) (h : encode c x = some j) :
    j = .obj (sortKvs (keptBy c.drop c x)) := by
  simp only [encode] at h
  split at h
  · cases h
  · exact (Option.some.inj h).symm

theorem readBack_eq_of_noLoss (c : ClassSpec) (valid) (hn : (names c).Nodup) (x : Fields) (hx : WellTyped c valid x)
    (h : NoLoss c x) : readBack c x = x := by
  funext k
  unfold readBack
  by_cases hk : k ∈ names c
  · obtain ⟨f, hf, rfl⟩ := List.mem_map.1 hk
    rw [kept_any_field _ c hn x f hf]
    cases hd : dropped c.drop f.dflt (x f.name)
    · simp
    · simp [dfltOf_field c hn f hf, h f hf hd]
  · rw [kept_any_not_name _ c x k hk]
    simp [dfltOf_not_mem c k hk, hx.2 k hk]

/-- what the translator must have emitted for the per-class corollaries (decided on the generated specs): every
default is `None` (and then the class does not combine the `== 0` drop rule with int, bool or float fields),
or `0` in an int class, or `False` in a bool class -/
def SpecSane (c : ClassSpec) : Bool :=
  c.fields.all fun f =>
    (f.dflt == .null && (c.drop != .noneOrZero || c.guard == .str || c.guard == .strOrList || c.guard == .strOrStrList)) ||
    (f.dflt == .int 0 && c.guard == .natOrNone) || (f.dflt == .bool false && c.guard == .bool)

theorem noLoss_field (g : Guard) (r : DropRule) (d v : JVal)
    (hs : (d = .null ∧ (r ≠ .noneOrZero ∨ g = .str ∨ g = .strOrList ∨ g = .strOrStrList)) ∨ (d = .int 0 ∧ g = .natOrNone) ∨ (d = .bool false ∧ g = .bool))
    (hv : inDomain g v = true) (hd : dropped r d v = true) : v = d := by
  rcases hs with ⟨rfl, h⟩ | ⟨rfl, rfl⟩ | ⟨rfl, rfl⟩
  · cases r <;> cases g <;> cases v <;> simp_all [inDomain, dropped, isNull, pyEqZero, pyEqDflt]
  · cases r <;> cases v <;> simp_all [inDomain, dropped, isNull, pyEqZero, pyEqDflt]
  · cases r <;> cases v <;> simp_all [inDomain, dropped, isNull, pyEqZero, pyEqDflt]

/-- the defaults themselves are removed by the drop rule (or nothing is) -/
def DefaultsDropped (c : ClassSpec) : Bool :=
  c.drop == .keepAll || c.fields.all fun f => dropped c.drop f.dflt f.dflt

theorem keptBy_readBack (c : ClassSpec) (hn : (names c).Nodup) (hdd : DefaultsDropped c = true) (x : Fields) :
    keptBy c.drop c (readBack c x) = keptBy c.drop c x := by
  have key : ∀ f ∈ c.fields, readBack c x f.name = x f.name ∨
      (dropped c.drop f.dflt (x f.name) = true ∧ dropped c.drop f.dflt (readBack c x f.name) = true) := by
    intro f hf
    unfold readBack
    rw [kept_any_field _ c hn x f hf]
    cases hd : dropped c.drop f.dflt (x f.name)
    · left; simp
    · right
      refine ⟨rfl, ?_⟩
      simp only [Bool.not_true, Bool.false_eq_true, if_false, dfltOf_field c hn f hf]
      simp only [DefaultsDropped, Bool.or_eq_true, beq_iff_eq, List.all_eq_true] at hdd
      rcases hdd with h | h
      · rw [h] at hd; simp [dropped] at hd
      · exact h f hf
  unfold keptBy
  have hfilter : c.fields.filter (fun f => !dropped c.drop f.dflt (readBack c x f.name)) =
      c.fields.filter (fun f => !dropped c.drop f.dflt (x f.name)) := by
    apply List.filter_congr
    intro f hf
    rcases key f hf with h | ⟨h1, h2⟩
    · rw [h]
    · rw [h1, h2]
  rw [hfilter]
  apply List.map_congr_left
  intro f hf
  have hf' := List.mem_filter.1 hf
  rcases key f hf'.1 with h | ⟨h1, _⟩
  · rw [h]
  · simp [h1] at hf'

theorem keyLe_trans (a b c : String × JVal) : keyLe a b = true → keyLe b c = true → keyLe a c = true := by
  simp only [keyLe, decide_eq_true_eq]; exact String.le_trans

theorem keyLe_total (a b : String × JVal) : (keyLe a b || keyLe b a) = true := by
  simp only [keyLe, Bool.or_eq_true, decide_eq_true_eq]; exact String.le_total _ _

end FimVerif.C03
