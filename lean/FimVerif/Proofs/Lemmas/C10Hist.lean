import FimVerif.Model.ValidateHist
import FimVerif.Proofs.Lemmas.C10Perm
/-!
# C10 - histories: what `validate` sees does not depend on how the slice came about

Lemmas about `Hist.abs` (Model/ValidateHist.lean): it depends on the slice only through its nodes, interfaces and
services (never on port ids or names of nodes); a connect/disconnect round trip is invisible; connects to different
services commute; renaming is invisible up to the names carried as labels.
-/
namespace FimVerif.Validate.Hist
open FimVerif.Validate

/-! ### what `abs` depends on -/

/-- interfaces are looked at through their kind and the site of their node only -/
theorem epAbs_congr' {σ τ : Slice} (hn : ∀ k, ownerSite σ k = ownerSite τ k) (hi : σ.ifaces = τ.ifaces) : epAbs σ = epAbs τ := by
  funext e
  cases e with
  | iface id =>
    simp only [epAbs, findIface, hi]
    cases τ.ifaces.find? (fun x => x.id == id) with
    | none => rfl
    | some i => simp only [hn]
  | port u => rfl

theorem portAbs_congr' {σ τ : Slice} (hn : ∀ k, ownerSite σ k = ownerSite τ k) (hi : σ.ifaces = τ.ifaces) : portAbs σ = portAbs τ := by
  funext p
  simp only [portAbs, epAbs_congr' hn hi]

theorem svcAbs_congr' {σ τ : Slice} (hn : ∀ k, ownerSite σ k = ownerSite τ k) (hi : σ.ifaces = τ.ifaces) (s : HSvc) :
    svcAbs σ s = svcAbs τ s := by
  simp only [svcAbs, portAbs_congr' hn hi]

theorem ownedAbs_congr' {σ τ : Slice} (hn : ∀ k, ownerSite σ k = ownerSite τ k) (hi : σ.ifaces = τ.ifaces) (o : HOwned) :
    ownedAbs σ o = ownedAbs τ o := by
  simp only [ownedAbs, findIface, hn, hi]

theorem ownerSite_of_nodes {σ τ : Slice} (hn : σ.nodes = τ.nodes) (k : Nat) : ownerSite σ k = ownerSite τ k := by
  simp only [ownerSite, findNode, hn]

theorem svcAbs_congr {σ τ : Slice} (hn : σ.nodes = τ.nodes) (hi : σ.ifaces = τ.ifaces) (s : HSvc) :
    svcAbs σ s = svcAbs τ s := svcAbs_congr' (ownerSite_of_nodes hn) hi s

theorem ownedAbs_congr {σ τ : Slice} (hn : σ.nodes = τ.nodes) (hi : σ.ifaces = τ.ifaces) (o : HOwned) :
    ownedAbs σ o = ownedAbs τ o := ownedAbs_congr' (ownerSite_of_nodes hn) hi o

/-- `abs` is determined by the nodes, the interfaces, the owned services and the abstraction of the free-standing ones -/
theorem abs_congr {σ τ : Slice} (he : σ.exp = τ.exp) (hn : σ.nodes = τ.nodes) (hi : σ.ifaces = τ.ifaces)
    (ho : σ.owned = τ.owned) (hs : σ.svcs.map (svcAbs σ) = τ.svcs.map (svcAbs σ)) : abs σ = abs τ := by
  unfold abs
  rw [he, hn, ho, hs]
  congr 2
  · exact List.map_congr_left fun o _ => ownedAbs_congr hn hi o
  · exact List.map_congr_left fun s _ => svcAbs_congr hn hi s

/-- the abstraction of a service does not look at the ids of its ports -/
theorem svcAbs_ports (σ : Slice) (s : HSvc) (ps qs : List HPort)
    (h : ps.map (fun p => (p.label, p.peers)) = qs.map (fun p => (p.label, p.peers))) :
    svcAbs σ { s with ports := ps } = svcAbs σ { s with ports := qs } := by
  have : ps.map (portAbs σ) = qs.map (portAbs σ) := by
    have e : portAbs σ = (fun q : String × List Ep => SIface.port q.1 (if q.2.isEmpty then none else some (q.2.map (epAbs σ)))) ∘
        (fun p : HPort => (p.label, p.peers)) := by
      funext p; rfl
    rw [e, ← List.map_map, ← List.map_map, h]
  simp only [svcAbs, this]

/-! ### connect / disconnect round trip -/

theorem any_iface_single (i : Nat) (es : List Ep) :
    (es.any fun e => match e with | .iface j => [i].contains j | .port _ => false) = es.contains (.iface i) := by
  induction es with
  | nil => rfl
  | cons e es ih =>
    rw [List.any_cons, List.contains_cons, ih]
    congr 1
    cases e with
    | iface j =>
      by_cases h : j = i
      · subst h; simp
      · have h' : ¬ i = j := fun e => h e.symm
        simp [h, h']
    | port u => simp

theorem peersWith_single (i : Nat) (p : HPort) : peersWith [i] p = p.peers.contains (.iface i) :=
  any_iface_single i p.peers

theorem dropPeersOf_svcs (σ : Slice) (ifs : List Nat) :
    (dropPeersOf σ ifs).svcs = σ.svcs.map fun s => { s with ports := s.ports.filter fun p => !peersWith ifs p } := rfl

theorem not_connected_filter (σ : Slice) (i : Nat) (h : connected σ i = false) :
    ∀ s ∈ σ.svcs, (s.ports.filter fun p => !peersWith [i] p) = s.ports := by
  intro s hs
  apply List.filter_eq_self.mpr
  intro p hp
  rw [peersWith_single]
  cases hc : p.peers.contains (Ep.iface i) with
  | false => rfl
  | true =>
    exfalso
    have : connected σ i = true := by
      unfold connected
      exact List.any_eq_true.mpr ⟨s, hs, List.any_eq_true.mpr ⟨p, hp, hc⟩⟩
    rw [h] at this; cases this

theorem connectCheck_ok (c : Cfg) (σ : Slice) (svc : String) (i : Nat) (l : String) (h : connectCheck c σ svc i = .ok l) :
    connected σ i = false ∧ (findIface σ i).isSome := by
  unfold connectCheck at h
  split at h
  · rename_i ty ifc hty hif
    split at h
    · cases h
    · split at h
      · cases h
      · split at h
        · cases h
        · rename_i hc
          exact ⟨by simpa using hc, by simp [hif]⟩
  · cases h

theorem addPort_nodes (σ : Slice) (a l : String) (i : Nat) : (addPort σ a l i).nodes = σ.nodes := rfl
theorem addPort_ifaces (σ : Slice) (a l : String) (i : Nat) : (addPort σ a l i).ifaces = σ.ifaces := rfl
theorem addPort_owned (σ : Slice) (a l : String) (i : Nat) : (addPort σ a l i).owned = σ.owned := rfl

/-- **connect, then disconnect again: the slice is as it was** (whatever else is connected) -/
theorem abs_connect_disconnect (c : Cfg) (σ : Slice) (svc : String) (i : Nat) (h : (connect c σ svc i).1 = .ok ()) :
    (disconnect (connect c σ svc i).2 i).1 = .ok () ∧ abs (disconnect (connect c σ svc i).2 i).2 = abs σ := by
  unfold connect at h ⊢
  cases hc : connectCheck c σ svc i with
  | error e => rw [hc] at h; cases h
  | ok l =>
    obtain ⟨hnc, hfi⟩ := connectCheck_ok c σ svc i l hc
    simp only
    have hfi' : findIface (addPort σ svc l i) i = findIface σ i := rfl
    unfold disconnect
    rw [hfi']
    cases hf : findIface σ i with
    | none => rw [hf] at hfi; cases hfi
    | some ifc =>
      simp only [true_and]
      apply Eq.symm
      refine abs_congr (σ := σ) (τ := dropPeersOf (addPort σ svc l i) [i]) rfl rfl rfl rfl ?_
      rw [dropPeersOf_svcs]
      show σ.svcs.map (svcAbs σ) = ((σ.svcs.map (addP σ.next svc l i)).map _).map (svcAbs σ)
      simp only [List.map_map]
      apply List.map_congr_left
      intro s hs
      simp only [Function.comp, addP]
      have hkeep := not_connected_filter σ i hnc s hs
      by_cases hl : (s.label == svc) = true
      · simp only [hl, if_true, List.filter_append, hkeep]
        have : ([{ uid := σ.next, label := l, peers := [Ep.iface i] }] : List HPort).filter (fun p => !peersWith [i] p) = [] := by
          simp [peersWith]
        rw [this, List.append_nil]
      · simp only [hl, Bool.false_eq_true, if_false, hkeep]

/-! ### connects to different services commute -/

theorem addP_label (k : Nat) (a l : String) (i : Nat) (s : HSvc) : (addP k a l i s).label = s.label := by
  unfold addP; split <;> rfl

theorem addP_ty (k : Nat) (a l : String) (i : Nat) (s : HSvc) : (addP k a l i s).ty = s.ty := by
  unfold addP; split <;> rfl

theorem svcTy_addPort (σ : Slice) (a l : String) (i : Nat) (b : String) : svcTy (addPort σ a l i) b = svcTy σ b := by
  unfold svcTy addPort
  simp only
  induction σ.svcs with
  | nil => rfl
  | cons s rest ih =>
    simp only [List.map_cons, List.find?_cons, addP_label]
    cases hb : (s.label == b) with
    | true => simp [addP_ty]
    | false => exact ih

theorem connected_addPort (σ : Slice) (a l : String) (i j : Nat) (hij : i ≠ j) :
    connected (addPort σ a l i) j = connected σ j := by
  unfold connected addPort
  simp only [List.any_map]
  congr 1
  funext s
  simp only [Function.comp, addP]
  by_cases ha : (s.label == a) = true
  · simp only [ha, if_true, List.any_append, List.any_cons, List.any_nil, Bool.or_false]
    have : ([Ep.iface i] : List Ep).contains (Ep.iface j) = false := by
      simp only [List.contains_cons, List.contains_nil, Bool.or_false, beq_eq_false_iff_ne, ne_eq, Ep.iface.injEq]
      exact fun e => hij e.symm
    rw [this, Bool.or_false]
  · simp only [ha, Bool.false_eq_true, if_false]

theorem connectCheck_addPort (c : Cfg) (σ : Slice) (a l : String) (i : Nat) (b : String) (j : Nat) (hij : i ≠ j) :
    connectCheck c (addPort σ a l i) b j = connectCheck c σ b j := by
  unfold connectCheck
  rw [svcTy_addPort, connected_addPort σ a l i j hij]
  rfl

theorem abs_addPort_comm (σ : Slice) (a la : String) (i : Nat) (b lb : String) (j : Nat) (hab : a ≠ b) :
    abs (addPort (addPort σ a la i) b lb j) = abs (addPort (addPort σ b lb j) a la i) := by
  refine abs_congr (σ := addPort (addPort σ a la i) b lb j) (τ := addPort (addPort σ b lb j) a la i) rfl rfl rfl rfl ?_
  have e : svcAbs (addPort (addPort σ a la i) b lb j) = svcAbs σ := funext fun s => svcAbs_congr rfl rfl s
  rw [e]
  show ((σ.svcs.map (addP σ.next a la i)).map (addP (σ.next + 1) b lb j)).map (svcAbs σ) =
    ((σ.svcs.map (addP σ.next b lb j)).map (addP (σ.next + 1) a la i)).map (svcAbs σ)
  simp only [List.map_map]
  apply List.map_congr_left
  intro s _
  simp only [Function.comp]
  by_cases ha : (s.label == a) = true
  · have hb : (s.label == b) = false := by
      cases hb : (s.label == b) with
      | false => rfl
      | true => exact absurd ((beq_iff_eq.mp ha).symm.trans (beq_iff_eq.mp hb)) hab
    simp only [addP, ha, hb, if_true, Bool.false_eq_true, if_false]
    exact svcAbs_ports σ s _ _ (by simp)
  · by_cases hb : (s.label == b) = true
    · simp only [addP, ha, hb, if_true, Bool.false_eq_true, if_false]
      exact svcAbs_ports σ s _ _ (by simp)
    · simp only [addP, ha, hb, Bool.false_eq_true, if_false]

/-- **two connects to different services, of different interfaces, in either order**: the same calls are refused, and the
slice is the same afterwards -/
theorem connect_comm (c : Cfg) (σ : Slice) (a b : String) (i j : Nat) (hab : a ≠ b) (hij : i ≠ j) :
    (connect c (connect c σ a i).2 b j).1 = (connect c σ b j).1 ∧
    (connect c (connect c σ b j).2 a i).1 = (connect c σ a i).1 ∧
    abs (connect c (connect c σ a i).2 b j).2 = abs (connect c (connect c σ b j).2 a i).2 := by
  unfold connect
  cases ha : connectCheck c σ a i with
  | error ea =>
    cases hb : connectCheck c σ b j with
    | error eb => simp [ha, hb]
    | ok lb => simp [ha, hb, connectCheck_addPort c σ b lb j a i hij.symm]
  | ok la =>
    cases hb : connectCheck c σ b j with
    | error eb => simp [ha, hb, connectCheck_addPort c σ a la i b j hij]
    | ok lb =>
      simp only [ha, hb, connectCheck_addPort c σ a la i b j hij, connectCheck_addPort c σ b lb j a i hij.symm, true_and]
      exact abs_addPort_comm σ a la i b lb j hab

/-! ### names are labels -/

theorem find_map_nodes (g : HNode → HNode) (hg : ∀ x, (g x).id = x.id) (l : List HNode) (k : Nat) :
    (l.map g).find? (fun x => x.id == k) = (l.find? (fun x => x.id == k)).map g := by
  induction l with
  | nil => rfl
  | cons x xs ih =>
    simp only [List.map_cons, List.find?_cons, hg]
    cases (x.id == k) <;> simp [ih]

theorem find_map_ifaces (g : HIface → HIface) (hg : ∀ x, (g x).id = x.id) (l : List HIface) (k : Nat) :
    (l.map g).find? (fun x => x.id == k) = (l.find? (fun x => x.id == k)).map g := by
  induction l with
  | nil => rfl
  | cons x xs ih =>
    simp only [List.map_cons, List.find?_cons, hg]
    cases (x.id == k) <;> simp [ih]

/-- an update of nodes that keeps ids and sites does not change who owns what where -/
theorem ownerSite_updNode (σ : Slice) (n : Nat) (f : HNode → HNode) (hid : ∀ x, (f x).id = x.id) (hsite : ∀ x, (f x).site = x.site)
    (k : Nat) : ownerSite (updNode σ n f) k = ownerSite σ k := by
  unfold ownerSite findNode updNode
  simp only
  rw [find_map_nodes _ (fun x => by by_cases h : (x.id == n) = true <;> simp [h, hid])]
  cases σ.nodes.find? (fun x => x.id == k) with
  | none => rfl
  | some x =>
    simp only [Option.map_some]
    by_cases h : (x.id == n) = true <;> simp [h, hsite]

/-- **renaming a node changes nothing `validate` looks at** (the service ports made earlier keep their names) -/
theorem abs_renameNode (σ : Slice) (n : Nat) (l : String) : abs (renameNode σ n l) = abs σ := by
  have ho : ∀ k, ownerSite (renameNode σ n l) k = ownerSite σ k :=
    ownerSite_updNode σ n _ (fun _ => rfl) (fun _ => rfl)
  unfold abs
  have hn : (renameNode σ n l).nodes.map nodeAbs = σ.nodes.map nodeAbs := by
    simp only [renameNode, updNode, List.map_map]
    apply List.map_congr_left
    intro x _
    simp only [Function.comp]
    by_cases h : (x.id == n) = true <;> simp [h, nodeAbs]
  rw [hn]
  show ({ exp := σ.exp, nodes := _, svcs := σ.owned.map _ ++ σ.svcs.map _ } : Topo) = _
  congr 2
  · exact List.map_congr_left fun o _ => ownedAbs_congr' ho rfl o
  · exact List.map_congr_left fun s _ => svcAbs_congr' ho rfl s

/-- forget every interface name -/
def eraseNames (t : Topo) : Topo := t.rename fun _ => ""

theorem eraseNames_abs (σ : Slice) :
    eraseNames (abs σ) = ({
      exp := σ.exp,
      nodes := σ.nodes.map nodeAbs,
      svcs := σ.owned.map (fun o => (ownedAbs σ o).rename (fun _ => "")) ++
        σ.svcs.map (fun s => (svcAbs σ s).rename (fun _ => "")) } : Topo) := by
  simp only [eraseNames, Topo.rename, abs, List.map_append, List.map_map]
  rfl

theorem filterMap_congr' {α β : Type} (f g : α → Option β) (l : List α) (h : ∀ a ∈ l, f a = g a) :
    l.filterMap f = l.filterMap g := by
  induction l with
  | nil => rfl
  | cons a as ih =>
    simp only [List.filterMap_cons, h a (by simp)]
    rw [ih fun b hb => h b (by simp [hb])]

/-- **renaming an interface changes nothing but names** -/
theorem abs_renameIface (σ : Slice) (i : Nat) (l : String) : eraseNames (abs (renameIface σ i l)) = eraseNames (abs σ) := by
  have hf : ∀ k, findIface (renameIface σ i l) k =
      (findIface σ k).map (fun x => if x.id == i then { x with label := l } else x) := by
    intro k
    unfold findIface renameIface
    exact find_map_ifaces _ (fun x => by by_cases h : (x.id == i) = true <;> simp [h]) σ.ifaces k
  have ho : ∀ k, ownerSite (renameIface σ i l) k = ownerSite σ k := fun _ => rfl
  have hep : epAbs (renameIface σ i l) = epAbs σ := by
    funext e
    cases e with
    | iface id =>
      simp only [epAbs, hf]
      cases findIface σ id with
      | none => rfl
      | some x =>
        simp only [Option.map_some]
        by_cases h : (x.id == i) = true <;> simp [h, ho]
    | port u => rfl
  rw [eraseNames_abs, eraseNames_abs]
  show ({ exp := σ.exp, nodes := σ.nodes.map nodeAbs, svcs := σ.owned.map _ ++ σ.svcs.map _ } : Topo) = _
  congr 2
  · apply List.map_congr_left
    intro o _
    simp only [ownedAbs, Svc.rename, ho]
    congr 1
    simp only [List.map_filterMap, hf]
    apply filterMap_congr'
    intro id _
    cases findIface σ id with
    | none => rfl
    | some x =>
      simp only [Option.map_some]
      by_cases h : (x.id == i) = true <;> simp [h, SIface.rename]
  · apply List.map_congr_left
    intro s _
    have hp : portAbs (renameIface σ i l) = portAbs σ := by
      funext p; simp only [portAbs, hep]
    simp only [svcAbs, hp]

/-- the name given to a new port is a label: whatever it is, `validate` sees the same -/
theorem eraseNames_addPort_label (σ : Slice) (svc l l' : String) (i : Nat) :
    eraseNames (abs (addPort σ svc l i)) = eraseNames (abs (addPort σ svc l' i)) := by
  rw [eraseNames_abs, eraseNames_abs]
  have hA : (addPort σ svc l i).owned.map (fun o => (ownedAbs (addPort σ svc l i) o).rename (fun _ => "")) =
      (addPort σ svc l' i).owned.map (fun o => (ownedAbs (addPort σ svc l' i) o).rename (fun _ => "")) := by
    show σ.owned.map _ = σ.owned.map _
    exact List.map_congr_left fun o _ => by
      rw [ownedAbs_congr (σ := addPort σ svc l i) (τ := addPort σ svc l' i) rfl rfl]
  have hB : (addPort σ svc l i).svcs.map (fun s => (svcAbs (addPort σ svc l i) s).rename (fun _ => "")) =
      (addPort σ svc l' i).svcs.map (fun s => (svcAbs (addPort σ svc l' i) s).rename (fun _ => "")) := by
    show (σ.svcs.map (addP σ.next svc l i)).map _ = (σ.svcs.map (addP σ.next svc l' i)).map _
    simp only [List.map_map]
    apply List.map_congr_left
    intro s _
    simp only [Function.comp]
    rw [svcAbs_congr (σ := addPort σ svc l i) (τ := σ) rfl rfl, svcAbs_congr (σ := addPort σ svc l' i) (τ := σ) rfl rfl]
    unfold addP
    by_cases h : (s.label == svc) = true
    · simp [h, svcAbs, Svc.rename, portAbs, SIface.rename]
    · simp [h]
  rw [hA, hB]
  rfl

/-- **connect after a node has been renamed**: the same outcome, and - up to the derived name of the new service port -
the same slice as without the rename -/
theorem connect_renameNode (c : Cfg) (σ : Slice) (n : Nat) (l svc : String) (i : Nat) :
    (connect c (renameNode σ n l) svc i).1 = (connect c σ svc i).1 ∧
    eraseNames (abs (connect c (renameNode σ n l) svc i).2) = eraseNames (abs (connect c σ svc i).2) := by
  have hfn : ∀ k, findNode (renameNode σ n l) k = (findNode σ k).map (fun x => if x.id == n then { x with label := l } else x) := by
    intro k
    unfold findNode renameNode updNode
    exact find_map_nodes _ (fun x => by by_cases h : (x.id == n) = true <;> simp [h]) σ.nodes k
  have hadd : ∀ l1, addPort (renameNode σ n l) svc l1 i = renameNode (addPort σ svc l1 i) n l := fun _ => rfl
  unfold connect connectCheck
  have h1 : svcTy (renameNode σ n l) svc = svcTy σ svc := rfl
  have h2 : findIface (renameNode σ n l) i = findIface σ i := rfl
  have h3 : connected (renameNode σ n l) i = connected σ i := rfl
  rw [h1, h2, h3]
  cases svcTy σ svc with
  | none => exact ⟨by first | rfl | trivial, by rw [abs_renameNode]⟩
  | some ty =>
    cases findIface σ i with
    | none => exact ⟨by first | rfl | trivial, by rw [abs_renameNode]⟩
    | some ifc =>
      simp only
      cases guardrails c ty ifc.kind with
      | error e => exact ⟨by first | rfl | trivial, by rw [abs_renameNode]⟩
      | ok u =>
        simp only [hfn]
        cases findNode σ ifc.node with
        | none =>
          simp only [Option.map_none]
          exact ⟨by first | rfl | trivial, by rw [abs_renameNode]⟩
        | some x =>
          simp only [Option.map_some]
          cases hc : connected σ i with
          | true =>
            simp only [if_true]
            exact ⟨by first | rfl | trivial, by rw [abs_renameNode]⟩
          | false =>
            simp only [Bool.false_eq_true, if_false]
            refine ⟨by first | rfl | trivial, ?_⟩
            rw [hadd, abs_renameNode]
            exact eraseNames_addPort_label σ svc _ _ i

/-! ### the validate step -/

theorem eq_of_eraseSite {y z : Svc} (h : eraseSite y = eraseSite z) : ({ z with site := y.site } : Svc) = y := by
  cases y; cases z
  simp only [eraseSite, Svc.mk.injEq] at h ⊢
  obtain ⟨h1, _, h3, h4, h5, h6, h7⟩ := h
  exact ⟨h1.symm, trivial, h3.symm, h4.symm, h5.symm, h6.symm, h7.symm⟩

theorem zip_write {α : Type} (f : α → Svc) (upd : α → Option String → α)
    (hupd : ∀ a x, f (upd a x) = { f a with site := x }) (X : List α) (Y : List Svc)
    (h : Y.map eraseSite = (X.map f).map eraseSite) :
    ((X.zip Y).map fun p => upd p.1 p.2.site).map f = Y := by
  induction X generalizing Y with
  | nil =>
    cases Y with
    | nil => rfl
    | cons y ys => simp at h
  | cons a as ih =>
    cases Y with
    | nil => simp at h
    | cons y ys =>
      simp only [List.map_cons, List.cons.injEq] at h
      simp only [List.zip_cons_cons, List.map_cons, hupd, ih ys h.2, List.cons.injEq, and_true]
      exact eq_of_eraseSite h.1

theorem writeSites_nodes (σ : Slice) (l : List Svc) : (writeSites σ l).nodes = σ.nodes := rfl
theorem writeSites_ifaces (σ : Slice) (l : List Svc) : (writeSites σ l).ifaces = σ.ifaces := rfl

/-- **the validate step of a history is `validate` on what the slice is**: the slice afterwards, seen through `abs`, is the
topology `validate` returns - also when it fails -/
theorem abs_validateStep (c : Cfg) (σ : Slice) :
    (validateStep c σ).1 = (validate c (abs σ)).1 ∧ abs (validateStep c σ).2 = (validate c (abs σ)).2 := by
  refine ⟨rfl, ?_⟩
  obtain ⟨he, hn, hs⟩ := validate_frame c (abs σ)
  show abs (writeSites σ (validate c (abs σ)).2.svcs) = (validate c (abs σ)).2
  generalize (validate c (abs σ)).2 = r at he hn hs ⊢
  have hlen : r.svcs.length = σ.owned.length + σ.svcs.length := by
    have := congrArg List.length hs
    simpa [abs] using this
  have hsplit : r.svcs = r.svcs.take σ.owned.length ++ r.svcs.drop σ.owned.length := (List.take_append_drop _ _).symm
  have hs' : (r.svcs.take σ.owned.length ++ r.svcs.drop σ.owned.length).map eraseSite =
      (σ.owned.map (ownedAbs σ)).map eraseSite ++ (σ.svcs.map (svcAbs σ)).map eraseSite := by
    rw [← hsplit, hs]; simp [abs]
  rw [List.map_append] at hs'
  have hl1 : ((r.svcs.take σ.owned.length).map eraseSite).length = ((σ.owned.map (ownedAbs σ)).map eraseSite).length := by
    simp [List.length_take]; omega
  obtain ⟨h1, h2⟩ := List.append_inj hs' hl1
  have e1 := zip_write (ownedAbs σ) (fun o x => { o with site := x }) (fun _ _ => rfl) σ.owned _ h1
  have e2 := zip_write (svcAbs σ) (fun s x => { s with site := x }) (fun _ _ => rfl) σ.svcs _ h2
  have ho : (writeSites σ r.svcs).owned.map (ownedAbs (writeSites σ r.svcs)) = r.svcs.take σ.owned.length := by
    have : ownedAbs (writeSites σ r.svcs) = ownedAbs σ := funext fun o => ownedAbs_congr rfl rfl o
    rw [this]; exact e1
  have hv : (writeSites σ r.svcs).svcs.map (svcAbs (writeSites σ r.svcs)) = r.svcs.drop σ.owned.length := by
    have : svcAbs (writeSites σ r.svcs) = svcAbs σ := funext fun s => svcAbs_congr rfl rfl s
    rw [this]; exact e2
  unfold abs
  rw [ho, hv, List.take_append_drop]
  cases r with
  | mk rexp rnodes rsvcs =>
    simp only at he hn ⊢
    simp only [Topo.mk.injEq, and_true]
    exact ⟨he.symm, by rw [hn]; rfl⟩

end FimVerif.Validate.Hist
